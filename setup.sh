#!/bin/bash
# MANIFEST.setup_cmd: build the framework from files on disk only (offline).
set -e
cd "$(dirname "$0")"
mkdir -p out/build out/replay evidence coq/gen
python3 tools/srcfacts.py --repo "${VERIF_REPO:-/repo}"
bash coq/build.sh > out/coq_build.log 2>&1 || { tail -30 out/coq_build.log; echo "setup: coq build failed"; exit 1; }
bash extract/build.sh || { echo "setup: extraction failed"; exit 1; }
echo "setup done"
