#!/bin/bash
# run every claimed check (quick tier) on /repo and validate the evidence files; used before committing
cd "$(dirname "$0")/.."
fail=0
for id in $(python3 -c "import json; print(' '.join(c['property_id'] for c in json.load(open('MANIFEST.json'))['checks']))"); do
  out=$(./check $id --tier quick 2>&1); rc=$?
  echo "$out" | tail -1
  [ $rc -ne 0 ] && { echo "  !! $id exit $rc"; echo "$out" | grep VIOLATION | head -3; fail=1; }
  python3-vt - "$id" <<'PY' || fail=1
import json, jsonschema, sys
i = sys.argv[1]
ev = json.load(open('evidence/%s.json' % i))
jsonschema.validate(ev, json.load(open('/root/.vp/EVIDENCE.schema.json')))
c = ev['coverage']
assert ev['level'] != 'proof' or c['discharged'] == c['obligations'] >= 1, 'discharged != obligations'
PY
done
python3-vt -c "import json,jsonschema; jsonschema.validate(json.load(open('MANIFEST.json')), json.load(open('/root/.vp/MANIFEST.schema.json')))" || fail=1
exit $fail
