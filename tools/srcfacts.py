#!/usr/bin/env python3
"""T-src: regenerate coq/gen/SrcFacts.v from /repo's current working tree.

For a fixed list of small methods, clang's JSON AST (-ast-dump=json, filtered per class) is reduced
to a *skeleton*: the ordered tree of guards (normalised source text of each condition), atomic
operations (object, operation, memory orders), assignments, returns and calls. The skeletons are
emitted as Gallina `list string` (one line per node, indented), and scalar facts derived from them
(memory orders, counter widths, presence of a re-check or a reset) as Gallina data. Theorems take
these as parameters; Tie.v proves the skeletons equal the ones the models were written against.

usage: srcfacts.py [--repo /repo] [--out coq/gen/SrcFacts.v] [--dump]
"""
import json, os, re, subprocess, sys, tempfile, hashlib

REPO = '/repo'

def run_clang(inst_code, flt, repo):
    with tempfile.TemporaryDirectory() as td:
        src = os.path.join(td, 'inst.cpp')
        open(src, 'w').write(inst_code)
        cmd = ['clang++', '-std=c++17', '-fsyntax-only', '-I' + os.path.join(repo, 'include'),
               '-Xclang', '-ast-dump=json', '-Xclang', '-ast-dump-filter=' + flt, src]
        p = subprocess.run(cmd, capture_output=True, text=True)
        if p.returncode != 0 and not p.stdout.strip():
            raise RuntimeError('clang failed: ' + p.stderr[:2000])
        return parse_docs(p.stdout)

def parse_docs(s):
    dec = json.JSONDecoder(); i = 0; docs = []
    n = len(s)
    while i < n:
        while i < n and s[i] in ' \n\r\t':
            i += 1
        if i >= n:
            break
        if s[i] != '{':
            j = s.find('\n', i)
            i = j + 1 if j >= 0 else n
            continue
        d, j = dec.raw_decode(s, i)
        docs.append(d); i = j
    return docs

class Src:
    """source text by (file, offset)"""
    def __init__(self):
        self.cache = {}
    def text(self, path):
        if path not in self.cache:
            self.cache[path] = open(path, 'rb').read()
        return self.cache[path]

SRC = Src()

def loc_of(l):
    # prefer the expansion location for macro-produced nodes
    if 'expansionLoc' in l:
        return l['expansionLoc']
    return l

def node_text(n, path):
    r = n.get('range')
    if not r:
        return ''
    b = loc_of(r['begin']); e = loc_of(r['end'])
    if 'offset' not in b or 'offset' not in e:
        return ''
    data = SRC.text(path)
    end = e['offset'] + e.get('tokLen', 0)
    if MACRO_ARGS:
        end = macro_call_end(data, b['offset'], end)
    t = data[b['offset']: end].decode('utf8', 'replace')
    t = re.sub(r'//[^\n]*', ' ', t)
    t = re.sub(r'/\*.*?\*/', ' ', t, flags=re.S)
    return re.sub(r'\s+', ' ', t).strip()

MACRO_ARGS = False   # set only while the UnboundedSPSCQueue skeletons are produced (keeps older skeletons unchanged)

def macro_call_end(data, beg, end):
    """a node that is one function-like macro invocation has only the macro name as its expansion range:
    extend it to the closing parenthesis so that the arguments (e.g. the guard inside QUILL_UNLIKELY) are kept"""
    if not re.fullmatch(rb'[A-Za-z_]\w*', data[beg:end]):
        return end
    i = end
    while i < len(data) and data[i:i + 1] in b' \t\r\n':
        i += 1
    if data[i:i + 1] != b'(':
        return end
    depth = 0
    while i < len(data):
        c = data[i:i + 1]
        if c == b'(':
            depth += 1
        elif c == b')':
            depth -= 1
            if depth == 0:
                return i + 1
        i += 1
    return end

def find_all(n, pred, out=None):
    if out is None:
        out = []
    if pred(n):
        out.append(n)
    for c in n.get('inner', []) or []:
        if isinstance(c, dict):
            find_all(c, pred, out)
    return out

def find_method(docs, name, cls=None, which=0):
    c = []
    for d in docs:
        c += find_all(d, lambda n: n.get('kind') in ('CXXMethodDecl', 'FunctionDecl', 'CXXConstructorDecl', 'FunctionTemplateDecl')
                      and n.get('name') == name and any(isinstance(x, dict) and x.get('kind') == 'CompoundStmt' for x in n.get('inner', []) or []))
    if not c:
        # a FunctionTemplateDecl wraps the method
        return None
    return c[which]

ATOMIC_OPS = {'load', 'store', 'exchange', 'fetch_add', 'fetch_sub', 'compare_exchange_strong', 'compare_exchange_weak', 'test_and_set'}

def mem_orders(n):
    return [x.get('referencedDecl', {}).get('name') for x in
            find_all(n, lambda m: m.get('kind') == 'DeclRefExpr' and str(m.get('referencedDecl', {}).get('name', '')).startswith('memory_order'))]

def atomic_calls(n, path):
    """member calls x.load(...)/x.store(...) on something whose text mentions an atomic field"""
    out = []
    def rec(m):
        if m.get('kind') in ('CXXMemberCallExpr', 'CallExpr'):
            inner = m.get('inner') or []
            if inner and inner[0].get('kind') in ('MemberExpr', 'CXXDependentScopeMemberExpr'):
                op = inner[0].get('name') or inner[0].get('member')
                if op in ATOMIC_OPS:
                    objn = (inner[0].get('inner') or [{}])[0]
                    obj = node_text(objn, path)
                    out.append((obj, op, mem_orders(m)))
        for c in m.get('inner', []) or []:
            if isinstance(c, dict):
                rec(c)
    rec(n)
    return out

def skel(n, path, ind=0, out=None):
    if out is None:
        out = []
    k = n.get('kind')
    pad = '  ' * ind
    def atoms(m):
        for obj, op, mo in atomic_calls(m, path):
            out.append(pad + '  ATOMIC %s %s [%s]' % (obj, op, ','.join(mo)))
    inner = [c for c in (n.get('inner') or []) if isinstance(c, dict)]
    if k == 'CompoundStmt':
        for c in inner:
            skel(c, path, ind, out)
    elif k == 'IfStmt':
        has_else = n.get('hasElse', False)
        cond = inner[0]; then = inner[1]
        out.append(pad + 'IF ' + node_text(cond, path)); atoms(cond)
        skel(then, path, ind + 1, out)
        if has_else and len(inner) > 2:
            out.append(pad + 'ELSE')
            skel(inner[2], path, ind + 1, out)
    elif k == 'WhileStmt':
        out.append(pad + 'WHILE ' + node_text(inner[0], path)); atoms(inner[0])
        skel(inner[-1], path, ind + 1, out)
    elif k == 'DoStmt':
        out.append(pad + 'DO')
        skel(inner[0], path, ind + 1, out)
        out.append(pad + 'DOWHILE ' + node_text(inner[1], path)); atoms(inner[1])
    elif k in ('ForStmt', 'CXXForRangeStmt'):
        t = node_text(n, path)
        hdr = t[:t.find(')') + 1] if ')' in t else t
        out.append(pad + 'FOR ' + hdr)
        skel(inner[-1], path, ind + 1, out)
    elif k == 'ReturnStmt':
        out.append(pad + 'RET ' + node_text(n, path)); atoms(n)
    elif k == 'CXXTryStmt':
        out.append(pad + 'TRY')
        skel(inner[0], path, ind + 1, out)
        for c in inner[1:]:
            skel(c, path, ind, out)
    elif k == 'CXXCatchStmt':
        vd = [c for c in (n.get('inner') or []) if isinstance(c, dict) and c.get('kind') == 'VarDecl']
        hdr = 'catch (' + (vd[0].get('type', {}).get('qualType', '?') if vd else '...') + ')'
        out.append(pad + 'CATCH ' + hdr)
        skel(inner[-1], path, ind + 1, out)
    elif k in ('NullStmt',):
        pass
    elif k in ('BreakStmt', 'ContinueStmt'):
        out.append(pad + ('BREAK' if k == 'BreakStmt' else 'CONTINUE'))
    elif k == 'DeclStmt':
        out.append(pad + 'DECL ' + node_text(n, path)); atoms(n)
    elif k in ('ExprWithCleanups', 'ImplicitCastExpr', 'ParenExpr', 'ConstantExpr'):
        for c in inner:
            skel(c, path, ind, out)
    else:
        # expression statement
        out.append(pad + 'EXPR ' + node_text(n, path)); atoms(n)
    return out

def method_skeleton(docs, path, name, which=0):
    m = find_method(docs, name, which=which)
    if m is None:
        return None
    body = [c for c in m['inner'] if isinstance(c, dict) and c.get('kind') == 'CompoundStmt'][0]
    lines = skel(body, path)
    # the guarded verification hooks expand to an empty do/while when the guard is off: not part of the skeleton
    out = []
    i = 0
    while i < len(lines):
        if lines[i].strip() == 'DO' and i + 1 < len(lines) and lines[i + 1].strip().startswith('DOWHILE QUILL_VERIF_YIELD'):
            i += 2; continue
        if 'QUILL_VERIF_YIELD' in lines[i]:
            i += 1; continue
        out.append(lines[i]); i += 1
    return out

def field_type(docs, field):
    for d in docs:
        for f in find_all(d, lambda n: n.get('kind') == 'FieldDecl' and n.get('name') == field):
            return f.get('type', {}).get('qualType', '')
    return ''

def coq_str(s):
    return '"' + s.replace('"', '""') + '"'

def coq_list(lines):
    if not lines:
        return '[]'
    return '[\n    ' + ';\n    '.join(coq_str(l) for l in lines) + ']'

def mo_of(lines, obj, op, default='seq_cst'):
    """memory order of the n-th atomic op on obj"""
    res = []
    for l in lines:
        m = re.match(r'\s*ATOMIC (\S+) (\S+) \[(.*)\]', l)
        if m and m.group(1).endswith(obj) and m.group(2) == op:
            res.append(m.group(3) or default)
    return res

MO = {'memory_order_relaxed': 'Rlx', 'memory_order_acquire': 'Acq', 'memory_order_release': 'Rel',
      'memory_order_acq_rel': 'AcqRel', 'memory_order_seq_cst': 'Sc', 'seq_cst': 'Sc', 'memory_order_consume': 'Acq'}

def one_mo(lst, what, notes):
    if len(lst) != 1:
        notes.append('expected exactly one %s, found %d' % (what, len(lst)))
        return 'Rlx' if not lst else MO.get(lst[0].split(',')[0], 'Rlx')
    return MO.get(lst[0].split(',')[0], 'Rlx')

def uint_bits(qual):
    m = re.search(r'atomic<\s*(?:std::)?u?int(\d+)_t\s*>', qual)
    if m:
        return int(m.group(1))
    if 'atomic<bool>' in qual:
        return 1
    if re.search(r'atomic<\s*(unsigned long|size_t|std::size_t)', qual):
        return 64
    if re.search(r'atomic<\s*(unsigned int|int)\b', qual):
        return 32
    return 0

def generate(repo):
    inc = os.path.join(repo, 'include', 'quill')
    notes = []
    sk = {}
    facts = {}

    # ---- BacktraceStorage
    p = os.path.join(inc, 'backend', 'BacktraceStorage.h')
    docs = run_clang('#include "quill/backend/BacktraceStorage.h"\n', 'BacktraceStorage', repo)
    for m in ('store', 'process', 'set_capacity'):
        sk['bt_' + m] = method_skeleton(docs, p, m) or []
    proc = sk['bt_process']
    # reset of _index after clear() in process()
    try:
        ci = max(i for i, l in enumerate(proc) if re.match(r'EXPR _stored_events\.clear\(\)', l))
        facts['bt_reset_index'] = any(re.match(r'EXPR _index = 0$', l) for l in proc[ci:]) or \
            any(re.match(r'EXPR _index = 0$', l) for l in proc if not l.startswith(' '))
    except ValueError:
        facts['bt_reset_index'] = False
    st = sk['bt_store']
    facts['bt_cap0_guard'] = len(st) >= 2 and re.match(r'IF .*_capacity == 0', st[0]) is not None and st[1].strip().startswith('RET')

    # ---- BoundedSPSCQueueImpl
    p = os.path.join(inc, 'core', 'BoundedSPSCQueue.h')
    docs = run_clang('#include "quill/core/BoundedSPSCQueue.h"\ntemplate class quill::detail::BoundedSPSCQueueImpl<size_t>;\n',
                     'BoundedSPSCQueueImpl', repo)
    tdocs = [d for d in docs if d.get('kind') == 'ClassTemplateDecl'] or docs
    for m in ('prepare_write', 'finish_write', 'commit_write', 'finish_and_commit_write', 'prepare_read', 'finish_read', 'commit_read', 'empty'):
        sk['bq_' + m] = method_skeleton(tdocs, p, m) or []
    facts['bq_pw_load'] = one_mo(mo_of(sk['bq_prepare_write'], '_atomic_reader_pos', 'load'), 'prepare_write load', notes)
    facts['bq_cw_store'] = one_mo(mo_of(sk['bq_commit_write'], '_atomic_writer_pos', 'store'), 'commit_write store', notes)
    facts['bq_em_load'] = one_mo(mo_of(sk['bq_empty'], '_atomic_writer_pos', 'load'), 'empty load', notes)
    facts['bq_cr_store'] = one_mo(mo_of(sk['bq_commit_read'], '_atomic_reader_pos', 'store'), 'commit_read store', notes)
    facts['bq_cr_load'] = one_mo(mo_of(sk['bq_commit_read'], '_atomic_reader_pos', 'load'), 'commit_read load', notes)
    cr = sk['bq_commit_read']
    sk['bq_commit_read_atomics'] = [l.strip() for l in cr if 'ATOMIC' in l]
    guard = cr[0] if cr else ''
    facts['bq_publish_on_drain'] = bool(re.search(r'\|\|\s*\(?\s*_reader_pos == _writer_pos_cache', guard) or
                                        re.search(r'_writer_pos_cache == _reader_pos', guard))
    facts['bq_publish_on_batch'] = bool(re.search(r'>= _bytes_per_batch', guard))

    # ---- ThreadContextManager counter width
    p = os.path.join(inc, 'core', 'ThreadContextManager.h')
    docs = run_clang('#include "quill/core/ThreadContextManager.h"\n', 'ThreadContextManager', repo)
    facts['tcm_invalid_count_bits'] = uint_bits(field_type(docs, '_invalid_thread_context_count'))
    for m in ('register_thread_context', 'add_invalid_thread_context', 'has_invalid_thread_context', 'new_thread_context_flag', 'remove_shared_invalidated_thread_context'):
        sk['tcm_' + m] = method_skeleton(docs, p, m) or []

    # ---- BackendWorker: order "read clock / refresh cache", exception containment, pop-before-flag
    p = os.path.join(inc, 'backend', 'BackendWorker.h')
    docs = run_clang('#include "quill/backend/BackendWorker.h"\n', 'BackendWorker', repo)
    for m in ('_poll', '_populate_transit_events_from_frontend_queues', '_populate_formatted_log_message',
              '_process_lowest_timestamp_transit_event', '_read_and_decode_frontend_queue', '_exit',
              '_cleanup_invalidated_thread_contexts', '_check_frontend_queues_and_cached_transit_events_empty',
              'has_pending_events_for_caching_when_transit_event_buffer_empty', '_update_active_thread_contexts_cache'):
        sk['be' + m] = method_skeleton(docs, p, m) or []
    pop = [l for l in sk['be_populate_transit_events_from_frontend_queues'] if not l.startswith(' ')]
    try:
        i_ts = next(i for i, l in enumerate(pop) if l.startswith('DECL') and 'ts_now' in l)
        i_for = next(i for i, l in enumerate(pop) if l.startswith('FOR'))
        facts['be_refresh_after_clock'] = any('_update_active_thread_contexts_cache()' in l for l in pop[i_ts + 1:i_for])
    except StopIteration:
        facts['be_refresh_after_clock'] = False
    fm = sk['be_populate_formatted_log_message']
    facts['be_format_catch_all'] = any(re.match(r'CATCH catch \(\.\.\.\)', l.strip()) for l in fm)
    facts['be_format_catch_std'] = any(re.match(r'CATCH catch \(const std::exception', l.strip()) for l in fm)
    pl = [l.strip() for l in sk['be_process_lowest_timestamp_transit_event']]
    try:
        i_pop = next(i for i, l in enumerate(pl) if 'pop_front()' in l)
        i_flag = next(i for i, l in enumerate(pl) if 'flush_flag->store(true)' in l)
        facts['be_pop_before_flag'] = i_pop < i_flag
    except StopIteration:
        facts['be_pop_before_flag'] = False

    # the read of an unbounded queue keeps following the node chain while the node it switched to is empty
    sk['be_read_unbounded_frontend_queue'] = method_skeleton(docs, p, '_read_unbounded_frontend_queue') or []
    ru = [l.strip() for l in sk['be_read_unbounded_frontend_queue']]
    try:
        i_alloc = next(i for i, l in enumerate(ru) if l == 'IF read_result.allocation')
        i_empty = next(i for i, l in enumerate(ru) if l.startswith('IF !read_result.read_pos') and i > i_alloc)
        facts['be_unbounded_read_follows_chain'] = ru[i_empty + 1].startswith('RET return _read_unbounded_frontend_queue(')
    except (StopIteration, IndexError):
        facts['be_unbounded_read_follows_chain'] = False

    # an exited thread's context is removed only when its queue AND its transit event buffer are empty (both queue kinds)
    cl_txt = re.sub(r'\s+', ' ', ' '.join(sk['be_cleanup_invalidated_thread_contexts']))
    facts['be_ctx_removal_requires_empty_buffer'] = (
        'unbounded_spsc_queue.empty() && thread_context->_transit_event_buffer->empty()' in cl_txt and
        '.bounded_spsc_queue.empty() && thread_context->_transit_event_buffer->empty()' in cl_txt and
        '!thread_context->is_valid()' in cl_txt)

    # the Flush event flushes every active sink unconditionally (interval literal 0 => should_flush_sinks = true),
    # before the caller's flag is captured
    for m in ('_process_transit_event', '_flush_and_run_active_sinks'):
        sk['be' + m] = method_skeleton(docs, p, m) or []
    pt = [l.strip() for l in sk['be_process_transit_event']]
    fs = [l.strip() for l in sk['be_flush_and_run_active_sinks']]
    try:
        i_if = next(i for i, l in enumerate(pt) if l.startswith('IF') and l.endswith('== MacroMetadata::Event::Flush'))
        i_cap = next(i for i, l in enumerate(pt) if l.startswith('EXPR flush_flag = '))
        call = re.sub(r'\s+', '', pt[i_if + 1])
        i_iv = next(i for i, l in enumerate(fs) if l == 'IF sink_min_flush_interval.count()')
        i_else = next(i for i, l in enumerate(fs) if l == 'ELSE' and i > i_iv)
        i_loop = next(i for i, l in enumerate(fs) if l.startswith('FOR') and '_active_sinks_cache' in l)
        facts['be_flush_event_unconditional'] = (
            call == 'EXPR_flush_and_run_active_sinks(false,std::chrono::milliseconds{0})' and i_if + 1 < i_cap
            and fs[i_else + 1] == 'EXPR should_flush_sinks = true' and i_else < i_loop
            and fs[i_loop + 1] == 'TRY' and fs[i_loop + 2] == 'IF should_flush_sinks' and fs[i_loop + 3] == 'EXPR sink->flush_sink()')
    except (StopIteration, IndexError):
        facts['be_flush_event_unconditional'] = False

    cl = [l.strip() for l in sk['be_cleanup_invalidated_thread_contexts']]
    try:
        i_rep = next(i for i, l in enumerate(cl) if '_check_failure_counter(' in l)
        i_rm = next(i for i, l in enumerate(cl) if 'remove_shared_invalidated_thread_context(' in l)
        i_wh = next(i for i, l in enumerate(cl) if l.startswith('WHILE'))
        facts['be_report_before_ctx_removal'] = i_wh < i_rep < i_rm
    except StopIteration:
        facts['be_report_before_ctx_removal'] = False

    # per-event try/catch inside both backtrace replay callbacks of _process_transit_event
    sk['be_process_transit_event'] = method_skeleton(docs, p, '_process_transit_event') or []
    src = open(p, 'rb').read().decode('utf8', 'replace')
    m = re.findall(r'backtrace_storage->process\(\s*\[this\]\(TransitEvent const& te[^)]*\)\s*\{(.*?)\}\);', src, flags=re.S)
    facts['be_bt_replay_catch'] = len(m) == 2 and all(('QUILL_TRY' in b and 'QUILL_CATCH_ALL' in b) for b in m)

    sk['be_populate_transit_event_from_frontend_queue'] = method_skeleton(docs, p, '_populate_transit_event_from_frontend_queue') or []
    pe = [l.strip() for l in sk['be_populate_transit_event_from_frontend_queue']]
    try:
        i_if = next(i for i, l in enumerate(pe) if l.startswith('IF') and 'LogLevel::Dynamic' in l)
        facts['be_dynamic_level_reset'] = any(re.match(r'EXPR transit_event->dynamic_log_level = LogLevel::None', l) for l in pe[i_if:])
    except StopIteration:
        facts['be_dynamic_level_reset'] = False
    c11_facts(repo, inc, sk, facts, notes)   # C11 block (see below)

    return sk, facts, notes

# ===== C11 block begin (allocation / call-site formatting facts; add-only, owned by props/c11.py) =====
def _c11_fn_bodies(text, names):
    """bodies (brace matched, comments stripped) of the functions called `names` in a header text"""
    text = re.sub(r'//[^\n]*', ' ', text)
    text = re.sub(r'/\*.*?\*/', ' ', text, flags=re.S)
    out = []
    for m in re.finditer(r'\b(%s)\s*\(' % '|'.join(names), text):
        # skip calls: a definition is followed by a parameter list and then '{' (possibly after noexcept / const)
        i = m.end(); depth = 1
        while i < len(text) and depth:
            depth += {'(': 1, ')': -1}.get(text[i], 0); i += 1
        j = i
        while j < len(text) and text[j] in ' \n\r\t': j += 1
        mm = re.match(r'(?:const\b\s*)?(?:noexcept\b\s*)?', text[j:])
        j += mm.end()
        if j >= len(text) or text[j] != '{':
            continue
        k = j + 1; depth = 1
        while k < len(text) and depth:
            depth += {'{': 1, '}': -1}.get(text[k], 0); k += 1
        out.append((m.group(1), re.sub(r'\s+', ' ', text[j:k])))
    return out

def c11_facts(repo, inc, sk, facts, notes):
    # SizeCacheVector = InlinedVector<uint32_t, N>: inline capacity, growth factor, push_back/clear skeletons
    p = os.path.join(inc, 'core', 'InlinedVector.h')
    docs = run_clang('#include "quill/core/InlinedVector.h"\ntemplate class quill::detail::InlinedVector<uint32_t, 12>;\n', 'InlinedVector', repo)
    tdocs = [d for d in docs if d.get('kind') == 'ClassTemplateDecl'] or docs
    sk['iv_push_back'] = method_skeleton(tdocs, p, 'push_back') or []
    sk['iv_clear'] = method_skeleton(tdocs, p, 'clear') or []
    g = [re.search(r'new_capacity = _capacity \* (\d+)\b', l) for l in sk['iv_push_back']]
    g = [m for m in g if m]
    facts['iv_growth_factor'] = int(g[0].group(1)) if len(g) == 1 else 0
    docs = run_clang('#include "quill/core/ThreadContextManager.h"\n', '_conditional_arg_size_cache', repo)
    fd = [f for d in docs for f in find_all(d, lambda n: n.get('kind') == 'FieldDecl' and n.get('name') == '_conditional_arg_size_cache')]
    ty = fd[0].get('type', {}) if fd else {}
    m = re.match(r'^(?:quill::)?(?:detail::)?InlinedVector<\s*(?:unsigned int|uint32_t|std::uint32_t)\s*,\s*(\d+)\s*>$', ty.get('desugaredQualType', ty.get('qualType', '')))
    # the thread context holds the size cache by value, and it is an InlinedVector<uint32_t, N>
    facts['iv_inline_capacity'] = int(m.group(1)) if m else 0
    facts['tc_size_cache_by_value'] = bool(m)
    # the size pass: which statements clear the cache
    p = os.path.join(inc, 'core', 'Codec.h')
    docs = run_clang('#include "quill/core/Codec.h"\n', 'compute_encoded_size_and_cache_string_lengths', repo)
    sk['codec_size_pass'] = method_skeleton(docs, p, 'compute_encoded_size_and_cache_string_lengths') or []
    # which codecs call libfmt, or build a std::string / container, inside compute_encoded_size / encode (the call site)
    hdrs = ['core/Codec.h', 'DeferredFormatCodec.h', 'DirectFormatCodec.h', 'StringRef.h'] + \
           ['std/' + f for f in sorted(os.listdir(os.path.join(inc, 'std'))) if f.endswith('.h') and f != 'WideString.h']
    fmt_h = []; tmp_h = []
    for h in hdrs:
        try:
            txt = open(os.path.join(inc, h)).read()
        except OSError:
            continue
        bodies = _c11_fn_bodies(txt, ['compute_encoded_size', 'encode'])
        if any(re.search(r'fmtquill::|\bfmt::|\bformat(?:_to|_to_n|ted_size)?\s*\(', b) for _, b in bodies):
            fmt_h.append('quill/' + h)
        if any(re.search(r'\.(?:w?string|u8string|native)\s*\(\s*\)|std::(?:w?string|vector|deque|list|map|set|unique_ptr|shared_ptr)\b\s*(?:<[^;{}]*>)?(?:\s*const\b)?\s*(?:\w+\s*)?[{(;=]|std::to_string|std::make_(?:unique|shared)|\bnew\b(?!\s*\()|\b(?:malloc|calloc|realloc|strdup)\s*\(', b) for _, b in bodies):
            tmp_h.append('quill/' + h)
    sk['c11_caller_fmt_headers'] = fmt_h
    sk['c11_caller_temp_headers'] = tmp_h
    # LoggerImpl::log_statement: the order  size pass / reserve / header / encode / commit, nothing else
    p = os.path.join(inc, 'Logger.h')
    docs = run_clang('#include "quill/Logger.h"\n', 'LoggerImpl', repo)
    tdocs = [d for d in docs if d.get('kind') == 'ClassTemplateDecl'] or docs
    sk['logger_log_statement'] = method_skeleton(tdocs, p, 'log_statement') or []
# ===== C11 block end =====

def emit(sk, facts, notes, out):
    L = []
    L.append('(* GENERATED by tools/srcfacts.py from /repo on every run. Do not edit. *)')
    L.append('From Coq Require Import String List NArith.')
    L.append('Import ListNotations.')
    L.append('Local Open Scope string_scope.')
    L.append('Inductive mo := Rlx | Acq | Rel | AcqRel | Sc.')
    for k in sorted(facts):
        v = facts[k]
        if isinstance(v, bool):
            L.append('Definition %s : bool := %s.' % (k, 'true' if v else 'false'))
        elif isinstance(v, int):
            L.append('Definition %s : N := %d%%N.' % (k, v))
        else:
            L.append('Definition %s : mo := %s.' % (k, v))
    for k in sorted(sk):
        L.append('Definition sk_%s : list string := %s.' % (k, coq_list(sk[k])))
    L.append('(* notes: %s *)' % ('; '.join(notes).replace('*)', '* )') if notes else 'none'))
    txt = '\n'.join(L) + '\n'
    os.makedirs(os.path.dirname(out), exist_ok=True)
    old = open(out).read() if os.path.exists(out) else None
    if old != txt:
        open(out, 'w').write(txt)
    return txt

# ===== C02 block begin (UnboundedSPSCQueue skeletons and facts; add-only, owned by props/c02.py) =====
def uq_facts(repo, sk, facts, notes):
    inc = os.path.join(repo, 'include', 'quill')
    # ---- UnboundedSPSCQueue (C02, and the unbounded clause of C09)
    global MACRO_ARGS
    p = os.path.join(inc, 'core', 'UnboundedSPSCQueue.h')
    docs = run_clang('#include "quill/core/UnboundedSPSCQueue.h"\n', 'UnboundedSPSCQueue', repo)
    MACRO_ARGS = True
    try:
        for m in ('prepare_write', '_handle_full_queue', 'shrink', 'prepare_read', '_read_next_queue', 'empty',
                  'finish_write', 'commit_write', 'finish_and_commit_write', 'finish_read', 'commit_read',
                  'producer_capacity', 'capacity'):
            sk['uq_' + m] = method_skeleton(docs, p, m) or []
    finally:
        MACRO_ARGS = False
    # the wording of the error message is not part of the skeleton
    sk['uq__handle_full_queue'] = [re.sub(r'QUILL_THROW\(\s*(\w+)\s*\{.*$', r'QUILL_THROW(\1)', l) for l in sk['uq__handle_full_queue']]
    facts['uq_next_store_grow'] = one_mo(mo_of(sk['uq__handle_full_queue'], '_producer->next', 'store'), '_handle_full_queue next store', notes)
    facts['uq_next_store_shrink'] = one_mo(mo_of(sk['uq_shrink'], '_producer->next', 'store'), 'shrink next store', notes)
    facts['uq_next_load'] = one_mo(mo_of(sk['uq_prepare_read'], '_consumer->next', 'load'), 'prepare_read next load', notes)
    facts['uq_empty_next_load'] = one_mo(mo_of(sk['uq_empty'], '_consumer->next', 'load'), 'empty next load', notes)
    rn = [l for l in sk['uq__read_next_queue']]
    top = [(i, l) for i, l in enumerate(rn) if not l.startswith(' ')]
    def first_top(rx):
        for i, l in top:
            if re.match(rx, l):
                return i
        return None
    i_del = first_top(r'EXPR delete _consumer$')
    i_sw = first_top(r'EXPR _consumer = next_node$')
    i_cr = first_top(r'EXPR _consumer->bounded_queue\.commit_read\(\)$')
    i_rc = first_top(r'DECL .*_consumer->bounded_queue\.prepare_read\(\)')
    # the old node is read once more (and a record found there is returned) before it is committed, deleted or left
    facts['uq_recheck_present'] = bool(
        i_rc is not None and i_rc + 2 < len(rn) and re.match(r'IF read_result\.read_pos', rn[i_rc + 1]) and
        re.match(r'  RET return read_result$', rn[i_rc + 2]) and
        all(x is None or i_rc < x for x in (i_del, i_sw, i_cr)))
    facts['uq_commit_before_delete'] = bool(i_cr is not None and i_del is not None and i_cr < i_del)
    facts['uq_delete_before_switch'] = bool(i_del is not None and i_sw is not None and i_del < i_sw)
    def order_in(lines, rx_a, rx_b):
        ia = [i for i, l in enumerate(lines) if re.match(rx_a, l)]
        ib = [i for i, l in enumerate(lines) if re.match(rx_b, l)]
        return bool(len(ia) == 1 and len(ib) == 1 and ia[0] < ib[0])
    rx_store = r'EXPR _producer->next\.store\(next_node,'
    rx_switch = r'EXPR _producer = next_node$'
    facts['uq_publish_before_switch'] = order_in(sk['uq__handle_full_queue'], rx_store, rx_switch) and order_in(sk['uq_shrink'], rx_store, rx_switch)
    facts['uq_commit_write_before_publish'] = order_in(sk['uq__handle_full_queue'], r'EXPR _producer->bounded_queue\.commit_write\(\)$', rx_store)
    # the consumer loads `next` only after the bounded queue reported empty, and hands the loaded pointer on
    pr_ = sk['uq_prepare_read']
    facts['uq_next_load_after_empty'] = order_in(pr_, r'IF read_result\.read_pos != nullptr$', r'DECL Node\* const next_node = _consumer->next\.load')
# ===== C02 block end =====

# ===== C08 block begin (failure-counter protocol of ThreadContext; add-only, owned by props/c08.py) =====
def failc_facts(repo, sk, facts, notes):
    """what increment_failure_counter / get_and_reset_failure_counter look like: the flags of the micro-step
    model Backend/FailCounter.v. Memory orders are not part of the facts: an atomic read-modify-write is
    atomic for every order and the count clause of C08 needs nothing else."""
    global MACRO_ARGS
    p = os.path.join(repo, 'include', 'quill', 'core', 'ThreadContextManager.h')
    MO_ARG = r'(?:\s*,\s*(?:std::)?memory_order(?:_|::)\w+)?'
    MO_ONLY = r'(?:\s*(?:std::)?memory_order(?:_|::)\w+\s*)?'
    MACRO_ARGS = True
    try:
        for m in ('increment_failure_counter', 'get_and_reset_failure_counter'):
            docs = run_clang('#include "quill/core/ThreadContextManager.h"\n', 'ThreadContext::' + m, repo)
            sk['tc_' + m] = method_skeleton(docs, p, m) or []
    finally:
        MACRO_ARGS = False
    docs = run_clang('#include "quill/core/ThreadContextManager.h"\n', 'ThreadContext::_failure_counter', repo)
    is_atomic = re.search(r'\batomic\s*<', field_type(docs, '_failure_counter')) is not None
    def atom(l, op):
        m = re.match(r'\s*ATOMIC (.*) (\S+) \[(.*)\]$', l)
        return bool(m and m.group(2) == op)
    inc = sk['tc_increment_failure_counter']
    rmw_call = (len(inc) == 2 and re.match(r'EXPR _failure_counter\.fetch_add\(\s*1\s*' + MO_ARG + r'\s*\)$', inc[0]) is not None
                and atom(inc[1], 'fetch_add') and ' _failure_counter ' in inc[1])
    rmw_oper = len(inc) == 1 and re.match(r'EXPR (?:\+\+\s*_failure_counter|_failure_counter\s*\+\+|_failure_counter\s*\+=\s*1)$', inc[0]) is not None
    facts['tcm_failc_inc_atomic'] = bool(is_atomic and (rmw_call or rmw_oper))
    gr = sk['tc_get_and_reset_failure_counter']
    rx_xchg = r'RET return _failure_counter\.exchange\(\s*0\s*' + MO_ARG + r'\s*\)$'
    rx_guard = r'IF (?:QUILL_(?:UN)?LIKELY\s*\(\s*)?_failure_counter\.load\(' + MO_ONLY + r'\)\s*==\s*0\s*\)?$'
    plain = (len(gr) == 2 and re.match(rx_xchg, gr[0]) is not None and atom(gr[1], 'exchange') and ' _failure_counter ' in gr[1])
    guarded = (len(gr) == 5 and re.match(rx_guard, gr[0]) is not None and atom(gr[1], 'load') and gr[2] == '  RET return 0'
               and re.match(rx_xchg, gr[3]) is not None and atom(gr[4], 'exchange') and ' _failure_counter ' in gr[4])
    facts['tcm_failc_reset_atomic'] = bool(is_atomic and (plain or guarded))
    facts['tcm_failc_reset_guarded'] = bool(guarded)
# ===== C08 block end =====
# ===== C12d block begin (which line each sink is handed: BackendWorker::_write_log_statement & co; add-only, owned by props/c12.py) =====
def c12d_facts(repo, sk, facts, notes):
    global MACRO_ARGS
    p = os.path.join(repo, 'include', 'quill', 'backend', 'BackendWorker.h')
    docs = run_clang('#include "quill/backend/BackendWorker.h"\n', 'BackendWorker', repo)
    MACRO_ARGS = True
    try:
        for m in ('_write_log_statement', '_process_multi_line_message', '_dispatch_transit_event_to_sinks'):
            sk['c12d' + m] = method_skeleton(docs, p, m) or []
    finally:
        MACRO_ARGS = False
    # the wording of the assert is not part of the skeleton
    sk['c12d_dispatch_transit_event_to_sinks'] = [re.sub(r'^(\s*EXPR assert)\b.*$', r'\1', l) for l in sk['c12d_dispatch_transit_event_to_sinks']]
    w = sk['c12d_write_log_statement']
    ind = lambda l: len(l) - len(l.lstrip(' '))
    ok = False
    try:
        i_for = next(i for i, l in enumerate(w) if l.startswith('FOR ') and 'logger_base->sinks' in l)
        body = []
        for l in w[i_for + 1:]:
            if ind(l) == 0:
                break
            body.append(l)
        rx_decl = r'\s*DECL std::string_view log_to_write = log_statement;$'
        decls = [i for i, l in enumerate(w) if re.match(r'\s*DECL .*\blog_to_write\b', l)]
        i_decl = next(i for i, l in enumerate(body) if re.match(rx_decl, l))
        i_ovr = next(i for i, l in enumerate(body) if re.match(r'\s*IF sink->_override_pattern_formatter_options$', l))
        i_asg = next(i for i, l in enumerate(body) if re.match(r'\s*EXPR log_to_write = sink->_override_pattern_formatter->format\(', l))
        i_wr = next(i for i, l in enumerate(body) if re.match(r'\s*EXPR sink->write_log\(.*, log_message, log_to_write\)$', l))
        # one declaration, inside the loop body (and inside the filter test), initialised from log_statement, before
        # the override test; the override assignment is under that test; write_log is handed log_to_write afterwards
        ok = (len(decls) == 1 and decls[0] == i_for + 1 + i_decl and i_decl < i_ovr < i_asg < i_wr
              and ind(body[i_decl]) == ind(body[i_ovr]) == ind(body[i_wr]) and ind(body[i_asg]) > ind(body[i_ovr]))
    except StopIteration:
        ok = False
    facts['be_log_to_write_reinit_per_sink'] = ok
# ===== C12d block end =====


# ===== C17 block begin (logger / sink registries, removal protocol, spinlock; add-only, owned by props/c17.py) =====
def c17_facts(repo, sk, facts, notes):
    inc = os.path.join(repo, 'include', 'quill')
    global MACRO_ARGS
    MACRO_ARGS = True
    try:
        def grab(hdr, inst, flt, prefix, methods):
            p = os.path.join(inc, hdr)
            docs = run_clang(inst, flt, repo)
            for m in methods:
                sk[prefix + m] = method_skeleton(docs, p, m) or []
            return docs
        lm_docs = grab('core/LoggerManager.h', '#include "quill/core/LoggerManager.h"\n', 'LoggerManager', 'c17_lm_',
                       ('get_logger', 'create_or_get_logger', 'remove_logger', 'cleanup_invalidated_loggers', '_insert_logger',
                        '_find_logger', 'get_number_of_loggers', 'get_all_loggers'))
        sm_docs = grab('core/SinkManager.h', '#include "quill/core/SinkManager.h"\n', 'SinkManager', 'c17_sm_',
                       ('create_or_get_sink', 'cleanup_unused_sinks', '_insert_sink', '_find_sink'))
        grab('core/Spinlock.h', '#include "quill/core/Spinlock.h"\n', 'Spinlock', 'c17_spin_', ('lock', 'unlock'))
        grab('Frontend.h', '#include "quill/Frontend.h"\n', 'FrontendImpl', 'c17_fe_', ('remove_logger_blocking', 'remove_logger'))
        grab('backend/BackendWorker.h', '#include "quill/backend/BackendWorker.h"\n', 'BackendWorker', 'c17_be', ('_cleanup_invalidated_loggers',))
        lb_docs = grab('core/LoggerBase.h', '#include "quill/core/LoggerBase.h"\n', 'LoggerBase', 'c17_lb_', ('mark_invalid', 'is_valid_logger'))
    finally:
        MACRO_ARGS = False
    st = lambda k: [l.strip() for l in sk.get(k, [])]
    # ---- the guard: every frontend queue (both kinds) and every transit buffer, over a refreshed cache
    g = st('be_check_frontend_queues_and_cached_transit_events_empty')
    in_for = False; qs = set(); tb = False
    for l in sk.get('be_check_frontend_queues_and_cached_transit_events_empty', []):
        if l.startswith('FOR') and '_active_thread_contexts_cache' in l: in_for = True; continue
        if in_for and not l.startswith(' '): in_for = False
        if in_for:
            m = re.match(r'\s*EXPR all_empty &= thread_context->get_spsc_queue_union\(\)\.(\w+)\.empty\(\)$', l)
            if m: qs.add(m.group(1))
            if re.match(r'\s*EXPR all_empty &= thread_context->_transit_event_buffer->empty\(\)$', l): tb = True
    shape = bool(g) and g[0] == 'EXPR _update_active_thread_contexts_cache()' and g[-1] == 'RET return all_empty' and 'DECL bool all_empty{true};' in g
    facts['c17_guard_queues'] = shape and qs == {'unbounded_spsc_queue', 'bounded_spsc_queue'}
    facts['c17_guard_tbufs'] = shape and tb
    # ---- the guard is evaluated for each invalid logger, and it is the backend's emptiness check
    cl = sk.get('c17_lm_cleanup_invalidated_loggers', [])
    def idx(lines, rx, start=0):
        for i in range(start, len(lines)):
            if re.match(rx, lines[i]): return i
        return None
    i_for = idx(cl, r'  FOR for \(auto it = _loggers\.begin\(\)')
    ok = False
    if i_for is not None:
        i_inv = idx(cl, r'    IF !it->get\(\)->is_valid_logger\(\)$', i_for)
        if i_inv is not None and i_inv == i_for + 1:
            i_chk = idx(cl, r'      IF !check_queues_empty\(\)$', i_inv)
            i_else = idx(cl, r'      ELSE$', i_inv)
            i_erase = idx(cl, r'        EXPR it = _loggers\.erase\(it\)$', i_inv)
            erases = [l for l in cl if 'erase' in l]
            ok = (i_chk == i_inv + 1 and i_else is not None and i_erase is not None and i_else < i_erase and len(erases) == 1
                  and idx(cl, r'        EXPR removed_loggers\.push_back\(it->get\(\)->get_logger_name\(\)\)$', i_else) is not None)
    be = st('c17_be_cleanup_invalidated_loggers')
    lam = bool(be) and re.match(r'DECL std::vector<std::string> const removed_loggers = _logger_manager\.cleanup_invalidated_loggers\( ?\[this\]\(\) ?\{ ?return _check_frontend_queues_and_cached_transit_events_empty\(\); ?\}\);$', be[0]) is not None
    facts['c17_recheck_per_logger'] = bool(ok and lam)
    # ---- order in the backend: erase (inside LoggerManager) -> cleanup_unused_sinks -> flag store; the flag is stored nowhere else
    # (two facts: the flag store comes after the erase and is the only one; the pruning comes after the erase and before the flag store)
    i_call = idx(be, r'DECL std::vector<std::string> const removed_loggers = _logger_manager\.cleanup_invalidated_loggers\(')
    i_if = idx(be, r'IF !removed_loggers\.empty\(\)$')
    i_prune = idx(be, r'EXPR _sink_manager\.cleanup_unused_sinks\(\)$')
    i_store = idx(be, r'EXPR search_it->second->store\(true\)$')
    src = open(os.path.join(inc, 'backend', 'BackendWorker.h'), 'rb').read().decode('utf8', 'replace')
    src_nc = re.sub(r'/\*.*?\*/', ' ', re.sub(r'//[^\n]*', ' ', src), flags=re.S)
    uses = re.findall(r'_logger_removal_flags\s*\.\s*(\w+)', src_nc)
    pe = st('be_populate_transit_event_from_frontend_queue')
    emplace_on_read = any(re.match(r'EXPR _logger_removal_flags\.emplace\(std::string\{logger_name\}, reinterpret_cast<std::atomic<bool>\*>\(logger_removal_flag_tmp\)\)$', l) for l in pe)
    no_store_on_read = not any(('logger_removal' in l and 'store' in l) for l in pe)
    facts['c17_prune_after_erase'] = bool(None not in (i_call, i_if, i_prune) and i_call < i_if < i_prune and (i_store is None or i_prune < i_store))
    facts['c17_flag_after_erase'] = bool(None not in (i_call, i_if, i_store) and i_call < i_if < i_store
                                         and sorted(uses) == ['emplace', 'end', 'erase', 'find'] and emplace_on_read and no_store_on_read
                                         and len(re.findall(r'second\s*->\s*store\s*\(', src_nc)) == 1)
    # ---- frontend: request enqueued, then invalidation, then the wait on the flag
    rb = st('c17_fe_remove_logger_blocking')
    i_req = idx(rb, r'WHILE !logger->template log_statement<false, false>\( ?LogLevel::None, &macro_metadata, reinterpret_cast<uintptr_t>\(logger_removal_complete_ptr\), logger->get_logger_name\(\)\)$')
    i_inv = idx(rb, r'EXPR detail::LoggerManager::instance\(\)\.remove_logger\(logger\)$')
    i_wait = idx(rb, r'WHILE !logger_removal_complete\.load\(\)$')
    facts['c17_request_before_invalidate'] = bool(None not in (i_req, i_inv, i_wait) and i_req < i_inv < i_wait and
                                                 any('MacroMetadata::Event::LoggerRemovalRequest' in l for l in rb[:i_req]))
    gl = st('c17_lm_get_logger')
    facts['c17_get_checks_valid'] = bool(gl) and gl[-1] == 'RET return logger && logger->is_valid_logger() ? logger : nullptr'
    # ---- ownership: the logger vector owns the loggers, a logger owns shared_ptrs to its sinks, the sink table holds weak_ptrs
    facts['c17_sink_table_weak'] = field_type(sm_docs, 'sink_ptr').replace(' ', '') == 'std::weak_ptr<Sink>'
    facts['c17_logger_shares_sinks'] = field_type(lb_docs, 'sinks').replace(' ', '') == 'std::vector<std::shared_ptr<Sink>>'
    facts['c17_registry_owns_loggers'] = field_type(lm_docs, '_loggers').replace(' ', '') == 'std::vector<std::unique_ptr<LoggerBase>>'
    # ---- memory orders
    facts['c17_spin_spin_load'] = one_mo(mo_of(sk['c17_spin_lock'], '_flag', 'load'), 'Spinlock::lock load', notes)
    facts['c17_spin_exchange'] = one_mo(mo_of(sk['c17_spin_lock'], '_flag', 'exchange'), 'Spinlock::lock exchange', notes)
    facts['c17_spin_unlock_store'] = one_mo(mo_of(sk['c17_spin_unlock'], '_flag', 'store'), 'Spinlock::unlock store', notes)
    facts['c17_valid_store'] = one_mo(mo_of(sk['c17_lb_mark_invalid'], 'valid', 'store'), 'mark_invalid store', notes)
    facts['c17_valid_load'] = one_mo(mo_of(sk['c17_lb_is_valid_logger'], 'valid', 'load'), 'is_valid_logger load', notes)
    facts['c17_inv_flag_set'] = one_mo(mo_of(sk['c17_lm_remove_logger'], '_has_invalidated_loggers', 'store'), 'remove_logger flag store', notes)
    facts['c17_inv_flag_load'] = one_mo(mo_of(sk['c17_lm_cleanup_invalidated_loggers'], '_has_invalidated_loggers', 'load'), 'cleanup flag load', notes)
# ===== C17 block end =====

# ===== C13 block begin (what StringFromTime::init and the TimestampFormatter constructor reject; add-only, owned by props/c13.py) =====
def c13_facts(repo, sk, facts, notes):
    """the flag of the model Time/TimeModel.v (strict): init() scans the format for conversions that embed the time of
    day but are not patched in the cached string, and the constructor looks for a second occurrence of the specifier"""
    global MACRO_ARGS
    inc = os.path.join(repo, 'include', 'quill', 'backend')
    MACRO_ARGS = True
    try:
        docs = run_clang('#include "quill/backend/StringFromTime.h"\n', 'StringFromTime', repo)
        sk['c13_sft_init'] = method_skeleton(docs, os.path.join(inc, 'StringFromTime.h'), 'init') or []
        docs = run_clang('#include "quill/backend/TimestampFormatter.h"\n', 'TimestampFormatter', repo)
        sk['c13_tf_ctor'] = method_skeleton(docs, os.path.join(inc, 'TimestampFormatter.h'), 'TimestampFormatter') or []
    finally:
        MACRO_ARGS = False
    # the wording of the error messages and of the assert is not part of the skeleton
    for k in ('c13_sft_init', 'c13_tf_ctor'):
        sk[k] = [re.sub(r'^(\s*EXPR assert)\b.*$', r'\1', re.sub(r'QUILL_THROW\(\s*(\w+)\s*[{(].*$', r'QUILL_THROW(\1)', l)) for l in sk[k]]
    it = sk['c13_sft_init']
    def idx(lines, rx, start=0):
        for i in range(start, len(lines)):
            if re.match(rx, lines[i]): return i
        return None
    # ---- init(): the loop sits behind the %X test and before the rewrites of %r %R %T; its body is exactly
    #      end = find_first_not_of(<skip set>, pos + 1); if (end == npos) break; if (<c, or skipped + time letter>) throw; pos = find('%', end + 1)
    i_x = idx(it, r'IF _timestamp_format\.find\("%X"\) != std::string::npos$')
    i_for = idx(it, r"FOR for \(size_t pos = _timestamp_format\.find\('%'\)$")
    i_rw = idx(it, r'EXPR _replace_all\(_timestamp_format, "%r", ')
    body = []
    if i_for is not None:
        for l in it[i_for + 1:]:
            if not l.startswith('  '): break
            body.append(l[2:])
    m_skip = re.match(r'DECL size_t const end = _timestamp_format\.find_first_not_of\("([^"\\]*)", pos \+ 1\);$', body[0]) if body else None
    m_cond = re.match(r"IF \(_timestamp_format\[end\] == '(.)'\) \|\| \(\(end != pos \+ 1\) && \(std::string\{\"([^\"\\]*)\"\}\.find\(_timestamp_format\[end\]\) != std::string::npos\)\)$", body[3]) if len(body) == 6 else None
    src = open(os.path.join(inc, 'StringFromTime.h'), 'rb').read().decode('utf8', 'replace')
    src_nc = re.sub(r'\s+', ' ', re.sub(r'/\*.*?\*/', ' ', re.sub(r'//[^\n]*', ' ', src), flags=re.S))
    hdr = "for (size_t pos = _timestamp_format.find('%'); pos != std::string::npos;)" in src_nc
    facts['c13_rejects_unpatchable'] = bool(
        None not in (i_x, i_for, i_rw) and i_x < i_for < i_rw and hdr and m_skip and m_cond and len(body) == 6
        and body[1] == 'IF end == std::string::npos' and body[2] == '  BREAK'
        and body[4] == '  EXPR QUILL_THROW(QuillError)' and body[5] == "EXPR pos = _timestamp_format.find('%', end + 1)")
    # the three character sets, as the source spells them (TieC13.v proves they are the model's)
    sk['c13_charsets'] = [m_skip.group(1), m_cond.group(2), m_cond.group(1)] if (m_skip and m_cond) else []
    # ---- constructor: after the three searches and before the split, a second occurrence of the found specifier throws
    ct = sk['c13_tf_ctor']
    i_last = idx(ct, r'IF size_t const search_qns = ')
    i_dup = idx(ct, r'IF \(specifier_begin != std::string::npos\) && \(_time_format\.find\(specifier_name\[_additional_format_specifier\], specifier_begin \+ specifier_length\) != std::string::npos\)$')
    i_split = idx(ct, r'IF specifier_begin == std::string::npos$')
    facts['c13_rejects_repeated_spec'] = bool(
        None not in (i_last, i_dup, i_split) and i_last < i_dup < i_split and ct[i_dup + 1] == '  EXPR QUILL_THROW(QuillError)'
        and i_split == i_dup + 2)
# ===== C13 block end =====

# ===== C03 block begin (context registration / cache refresh protocol; add-only, owned by props/c03.py) =====
def reg_facts(repo, sk, facts, notes):
    """what ThreadContextManager::register_thread_context / new_thread_context_flag / for_each_thread_context,
    Spinlock and BackendWorker::_update_active_thread_contexts_cache look like: the flags of the micro-step model
    Backend/RegProto.v. The memory order of the flag accesses is reported (tcm_flag_store_order) but no fact
    depends on it: the no-lost-registration clause needs only the order of the steps and the lock (RegProto.v header)."""
    global MACRO_ARGS
    inc = os.path.join(repo, 'include', 'quill')
    p = os.path.join(inc, 'core', 'ThreadContextManager.h')
    MACRO_ARGS = True
    try:
        docs = run_clang('#include "quill/core/ThreadContextManager.h"\n', 'ThreadContextManager', repo)
        for m in ('register_thread_context', 'new_thread_context_flag', 'for_each_thread_context'):
            sk['reg_tcm_' + m] = method_skeleton(docs, p, m) or []
        flag_atomic = re.search(r'\batomic\s*<\s*bool\s*>', field_type(docs, '_new_thread_context_flag')) is not None
        ps = os.path.join(inc, 'core', 'Spinlock.h')
        sdocs = run_clang('#include "quill/core/Spinlock.h"\n', 'Spinlock', repo)
        for m in ('lock', 'unlock'):
            sk['reg_spinlock_' + m] = method_skeleton(sdocs, ps, m) or []
        pb = os.path.join(inc, 'backend', 'BackendWorker.h')
        bdocs = run_clang('#include "quill/backend/BackendWorker.h"\n', 'BackendWorker::_update_active_thread_contexts_cache', repo)
        sk['reg_be_update_cache'] = method_skeleton(bdocs, pb, '_update_active_thread_contexts_cache') or []
    finally:
        MACRO_ARGS = False
    MOS = r'(?:std::)?memory_order(?:_|::)\w+'
    def atom(l):
        m = re.match(r'\s*ATOMIC (.*) (\S+) \[(.*)\]$', l)
        return (m.group(1).strip(), m.group(2), m.group(3)) if m else None
    STRONG = ('memory_order_release', 'memory_order_acq_rel', 'memory_order_seq_cst', '')
    # ---- register_thread_context: the push_back happens while _spinlock is held and before the one flag store
    rg = sk['reg_tcm_register_thread_context']
    stm = [(i, l) for i, l in enumerate(rg) if not l.startswith(' ')]
    i_push = [i for i, l in stm if re.match(r'EXPR _thread_contexts\.(?:push_back|emplace_back)\(\s*thread_context\s*\)$', l)]
    i_flag = [i for i, l in stm if re.match(r'EXPR _new_thread_context_flag\.store\(\s*true\s*(?:,\s*' + MOS + r'\s*)?\)$', l)
              or re.match(r'EXPR _new_thread_context_flag\s*=\s*true$', l)]
    i_lock = [i for i, l in stm if re.match(r'EXPR _spinlock\.lock\(\)$', l) or re.match(r'DECL LockGuard (?:const )?\w+\s*[{(]\s*_spinlock\s*[})];$', l)]
    i_unlock = [i for i, l in stm if re.match(r'EXPR _spinlock\.unlock\(\)$', l)]
    known = all(atom(l) or i in i_push + i_flag + i_lock + i_unlock for i, l in enumerate(rg))      # nothing else in the body
    flag_ops = [a for a in map(atom, rg) if a and a[0].endswith('_new_thread_context_flag')]
    locked = (len(i_lock) == 1 and len(i_push) == 1 and i_lock[0] < i_push[0] and
              (not i_unlock or (len(i_unlock) == 1 and i_unlock[0] > i_push[0]
                                and rg[i_lock[0]].startswith('EXPR'))))
    if i_lock and rg[i_lock[0]].startswith('EXPR') and not i_unlock:
        locked = False   # lock() without unlock()
    facts['tcm_register_append_before_flag'] = bool(
        flag_atomic and known and locked and len(i_flag) == 1 and i_push[0] < i_flag[0]
        and len(flag_ops) <= 1 and all(op == 'store' for _, op, _ in flag_ops))
    mo_store = [mo for _, op, mo in flag_ops if op == 'store']
    facts['tcm_flag_store_order'] = MO.get((mo_store[0].split(',')[0] or 'seq_cst'), 'Rlx') if len(mo_store) == 1 else ('Sc' if i_flag and not mo_store else 'Rlx')
    # ---- new_thread_context_flag: 1 = one exchange(false); 2 = if (load) { store(false); return true; } return false;
    #      3 = one compare_exchange_strong(expected = true, false); 0 = anything else
    nf = sk['reg_tcm_new_thread_context_flag']
    F = r'_new_thread_context_flag'
    ops = [a for a in map(atom, nf) if a]
    only_flag = all(a[0].endswith(F) for a in ops)
    shape = 0
    if (len(nf) == 2 and re.match(r'RET return ' + F + r'\.exchange\(\s*false\s*(?:,\s*' + MOS + r'\s*)?\)$', nf[0]) and [o for _, o, _ in ops] == ['exchange']):
        shape = 1
    elif (len(nf) == 6 and re.match(r'IF (?:QUILL_(?:UN)?LIKELY\s*\(\s*)?' + F + r'\.load\(\s*(?:' + MOS + r')?\s*\)\s*\)?$', nf[0])
          and re.match(r'  EXPR ' + F + r'\.store\(\s*false\s*(?:,\s*' + MOS + r'\s*)?\)$', nf[2])
          and nf[4] == '  RET return true' and nf[5] == 'RET return false' and [o for _, o, _ in ops] == ['load', 'store']):
        shape = 2
    elif (len(nf) == 3 and re.match(r'DECL bool (\w+)\s*(?:=\s*true|\{\s*true\s*\});$', nf[0])
          and re.match(r'RET return ' + F + r'\.compare_exchange_strong\(\s*\w+\s*,\s*false\s*(?:,\s*' + MOS + r'\s*){0,2}\)$', nf[1])
          and [o for _, o, _ in ops] == ['compare_exchange_strong']):
        shape = 3
    facts['tcm_flag_consume_shape'] = shape if (flag_atomic and only_flag) else 0
    # ---- for_each_thread_context: the registry is iterated while _spinlock is held
    fe = sk['reg_tcm_for_each_thread_context']
    facts['tcm_for_each_under_lock'] = bool(
        len(fe) >= 2 and re.match(r'DECL LockGuard (?:const )?\w+\s*[{(]\s*_spinlock\s*[})];$', fe[0])
        and re.match(r'FOR for \(.*:\s*_thread_contexts\)$', fe[1]) and all(l.startswith('  ') for l in fe[2:]))
    # ---- Spinlock: lock() leaves its loop through an exchange(Locked) with acquire or stronger, unlock() is one
    #      store(Free) with release or stronger
    lk = [a for a in map(atom, sk['reg_spinlock_lock']) if a]; ul = [a for a in map(atom, sk['reg_spinlock_unlock']) if a]
    acq = ('memory_order_acquire', 'memory_order_acq_rel', 'memory_order_seq_cst', '')
    xs = [a for a in lk if a[1] in ('exchange', 'test_and_set', 'compare_exchange_strong', 'compare_exchange_weak')]
    facts['spinlock_acquire_release'] = bool(
        len(xs) == 1 and xs[0][2].split(',')[0] in acq and all(a[1] == 'load' for a in lk if a not in xs)
        and len(ul) == 1 and ul[0][1] == 'store' and ul[0][2].split(',')[0] in STRONG
        and any(re.match(r'DOWHILE .*exchange\(\s*State::Locked', l.strip()) for l in sk['reg_spinlock_lock'])
        and len(sk['reg_spinlock_unlock']) == 2 and re.match(r'EXPR _flag\.store\(\s*State::Free\b', sk['reg_spinlock_unlock'][0]))
    # ---- _update_active_thread_contexts_cache: the flag is consumed in the condition, the rebuild (clear, then
    #      for_each_thread_context pushing into the cache) is the whole body of that if
    uc = sk['reg_be_update_cache']
    facts['be_cache_rebuild_after_flag_consume'] = bool(
        len(uc) == 3 and re.match(r'IF (?:QUILL_(?:UN)?LIKELY\s*\(\s*)?_thread_context_manager\.new_thread_context_flag\(\)\s*\)?$', uc[0])
        and uc[1] == '  EXPR _active_thread_contexts_cache.clear()'
        and re.match(r'  EXPR _thread_context_manager\.for_each_thread_context\(.*_active_thread_contexts_cache\.(?:push_back|emplace_back)\(\s*thread_context\s*\);\s*\}\s*\)$', uc[2]))
# ===== C03 block end =====


# ===== C19 block begin (JSON sink key/value appends, named-args template scanner; add-only, owned by props/c19.py) =====
def c19_facts(repo, sk, facts, notes):
    """which variant of M-NA stands for the code: (1) detail::JsonSink::generate_json_message appends every key and
    value through a helper that writes a newline as the two characters backslash n (c19_json_escapes_newlines);
    (2) BackendWorker::_process_named_args_format_message takes the FIRST '}' after the '{' of a placeholder as its
    close bracket, without skipping a following "}}" (c19_scan_first_close_bracket). Besides the skeletons, the
    whole body text (comments stripped, white space normalised) of the helper and of the scanner is emitted, so that
    TieC19.v pins them to the text the model was written against."""
    def body_text(docs, path, name):
        m = find_method(docs, name)
        if m is None:
            return []
        body = [c for c in m['inner'] if isinstance(c, dict) and c.get('kind') == 'CompoundStmt'][0]
        return [node_text(body, path)]
    p = os.path.join(repo, 'include', 'quill', 'sinks', 'JsonSink.h')
    docs = run_clang('#include "quill/sinks/JsonSink.h"\n', 'JsonSink', repo)
    sk['c19_json_write_log'] = method_skeleton(docs, p, 'write_log') or []
    sk['c19_json_generate_json_message'] = method_skeleton(docs, p, 'generate_json_message') or []
    sk['c19_json_append_escaping_newlines'] = method_skeleton(docs, p, '_append_escaping_newlines') or []
    sk['c19_json_append_escaping_newlines_text'] = body_text(docs, p, '_append_escaping_newlines')
    g = [l.strip() for l in sk['c19_json_generate_json_message']]
    loop = ['FOR for (auto const& [key, value] : *named_args)',
            'EXPR _json_message.append(std::string_view{",\\""})', 'EXPR _append_escaping_newlines(key)',
            'EXPR _json_message.append(std::string_view{"\\":\\""})', 'EXPR _append_escaping_newlines(value)',
            'EXPR _json_message.append(std::string_view{"\\""})']
    helper = ("{ size_t start = 0; for (size_t pos = 0; (pos = text.find('\\n', start)) != std::string_view::npos; start = pos + 1) "
              "{ _json_message.append(text.substr(start, pos - start)); _json_message.append(std::string_view{\"\\\\n\"}); } "
              "_json_message.append(text.substr(start)); }")
    facts['c19_json_escapes_newlines'] = bool(len(g) == 8 and g[1] == 'IF named_args' and g[2:] == loop and
                                              sk['c19_json_append_escaping_newlines_text'] == [helper])
    p = os.path.join(repo, 'include', 'quill', 'backend', 'BackendWorker.h')
    docs = run_clang('#include "quill/backend/BackendWorker.h"\n', 'BackendWorker::_process_named_args_format_message', repo)
    sk['c19_scan'] = method_skeleton(docs, p, '_process_named_args_format_message') or []
    sk['c19_scan_text'] = body_text(docs, p, '_process_named_args_format_message')
    t = (sk['c19_scan_text'] or [''])[0]
    facts['c19_scan_first_close_bracket'] = bool(
        "size_t const close_bracket_pos = fmt_template.find_first_of('}', open_bracket_pos + 1); "
        "if (close_bracket_pos != std::string::npos) {" in t and t.count('close_bracket_pos =') == 1
        and 'close_bracket_2_pos' not in t and 'while (close_bracket_pos' not in t)
    # the named-argument vector of a reused transit event slot (Format/NaSlot.v): resized to the number of names, keys by index
    docs2 = run_clang('#include "quill/backend/BackendWorker.h"\n', 'BackendWorker::_populate_formatted_named_args', repo)
    sk['c19_populate_named_args'] = method_skeleton(docs2, p, '_populate_formatted_named_args') or []
    pn = [l.strip() for l in sk['c19_populate_named_args']]
    def idx(s):
        return pn.index(s) if s in pn else -1
    i_rs = idx('EXPR transit_event->named_args->resize(arg_names.size())')
    i_for = next((k for k, l in enumerate(pn) if l.startswith('FOR for (size_t i = 0; i < arg_names.size()')), -1)
    facts['c19_named_args_resized'] = bool(0 <= i_rs < i_for and i_for + 1 < len(pn) and
                                           pn[i_for + 1] == 'EXPR (*transit_event->named_args)[i].first = arg_names[i].first' and
                                           not any('emplace_back' in l or 'insert' in l for l in pn[:i_for + 2]))
# ===== C19 block end =====


# ===== C12 block begin (MacroMetadata position members, PatternFormatter literal-brace pre-pass; add-only, owned by props/c12.py) =====
def c12_facts(repo, sk, facts, notes):
    """mm_pos_bits: the narrowest unsigned type a source-location position passes through (the two members, the
    return types of the two helpers, any static_cast in their return statements): 16 = uint16_t, 64 = size_t;
    pf_escapes_literal_braces: _generate_fmt_format_string doubles '{' / '}' of the literal text (outside %(...))
    before the rewriting loop; skeletons of the methods M-PAT's MacroMetadata part and pre-pass were written against"""
    global MACRO_ARGS
    p = os.path.join(repo, 'include', 'quill', 'core', 'MacroMetadata.h')
    docs = run_clang('#include "quill/core/MacroMetadata.h"\n', 'MacroMetadata', repo)
    for m in ('_calc_file_name_pos', '_calc_colon_separator_pos', 'line', 'full_path', 'file_name', 'short_source_location'):
        sk['c12_mm_' + m.lstrip('_')] = method_skeleton(docs, p, m) or []
    WIDTH = {'uint8_t': 8, 'unsigned char': 8, 'uint16_t': 16, 'unsigned short': 16, 'uint32_t': 32, 'unsigned int': 32,
             'unsigned': 32, 'uint64_t': 64, 'size_t': 64, 'std::size_t': 64, 'unsigned long': 64, 'unsigned long long': 64}
    def width(t):
        t = re.sub(r'\bconst\b', '', t).strip()
        return WIDTH.get(t, 0)
    ws = [width(field_type(docs, '_colon_separator_pos')), width(field_type(docs, '_file_name_pos'))]
    for m in ('_calc_file_name_pos', '_calc_colon_separator_pos'):
        fm = find_method(docs, m)
        rt = (fm or {}).get('type', {}).get('qualType', '')
        ws.append(width(rt.split('(')[0]))
        rets = [l for l in sk['c12_mm_' + m.lstrip('_')] if l.lstrip().startswith('RET ')]
        if len(rets) != 1: ws.append(0)
        for l in rets:
            for c in re.findall(r'static_cast<\s*([^>]+?)\s*>', l): ws.append(width(c))
    facts['mm_pos_bits'] = int(min(ws))
    # the accessors read the members directly (no narrowing in between)
    acc = {'line': ['RET return _source_location + _colon_separator_pos + 1'],
           'full_path': ['RET return std::string_view{_source_location, _colon_separator_pos}'],
           'file_name': ['RET return std::string_view{_source_location + _file_name_pos, static_cast<size_t>(_colon_separator_pos - _file_name_pos)}'],
           'short_source_location': ['RET return _source_location + _file_name_pos']}
    if any(sk['c12_mm_' + k] != v for k, v in acc.items()):
        facts['mm_pos_bits'] = 0; notes.append('C12: a MacroMetadata accessor is not the one M-PAT was written against')
    p = os.path.join(repo, 'include', 'quill', 'backend', 'PatternFormatter.h')
    docs = run_clang('#include "quill/backend/PatternFormatter.h"\n', 'PatternFormatter', repo)
    MACRO_ARGS = True
    try:
        g = method_skeleton(docs, p, '_generate_fmt_format_string') or []
    finally:
        MACRO_ARGS = False
    g = [re.sub(r'QUILL_THROW\(\s*(\w+)\s*\{.*$', r'QUILL_THROW(\1)', l) for l in g]      # the wording of the errors is not part of the skeleton
    sk['c12_pf_generate_fmt_format_string'] = g
    pre = ['FOR for (size_t i = 0; i < pattern.size()',
           "  IF (pattern[i] == '%') && (i + 1 < pattern.size()) && (pattern[i + 1] == '(')",
           "    EXPR i = pattern.find_first_of(')', i)",
           '    IF i == std::string::npos',
           '      BREAK',
           '  ELSE',
           "    IF (pattern[i] == '{') || (pattern[i] == '}')",
           '      EXPR pattern.insert(i, 1, pattern[i])',
           '      EXPR ++i']
    ok = False
    try:
        i_nl = g.index('EXPR pattern += "\\n"')
        i_for = g.index(pre[0])
        src = open(p, 'rb').read().decode('utf8', 'replace')
        hdr = re.search(r'for\s*\(\s*size_t\s+i\s*=\s*0\s*;\s*i\s*<\s*pattern\.size\(\)\s*;\s*\+\+i\s*\)', src) is not None
        # the pre-pass is the first statement that touches the pattern, directly before the newline is appended
        ok = (g[i_for:i_for + len(pre)] == pre and i_nl == i_for + len(pre) and hdr
              and not any('pattern' in l for l in g[:i_for] if not l.startswith('DECL static_assert')))
    except ValueError:
        ok = False
    facts['pf_escapes_literal_braces'] = ok
# ===== C12 block end =====


# ===== C11 repair block begin (how the map codecs reach the members of an element; add-only, owned by props/c11.py) =====
def c11f_facts(repo, sk, facts, notes):
    """the flag of the model Alloc/AllocModel.v (map_copies = not c11_map_elems_in_place): compute_encoded_size and
    encode of BOTH map codecs (std/Map.h, std/UnorderedMap.h) iterate `for (auto const& elem : arg)` and call
    Codec<Key> on elem.first, then Codec<T> on elem.second, and nothing in those two functions mentions a std::pair
    (passing elem to Codec<std::pair<Key, T>> converts it to a temporary pair: Key and T are copied on the caller).
    The comment-stripped, white-space-normalised text of the four bodies is emitted as well; TieC11.v pins it."""
    inc = os.path.join(repo, 'include', 'quill', 'std')
    size_rx = (r'for \(auto const& elem : arg\) \{ '
               r'total_size \+= Codec<Key>::compute_encoded_size\(conditional_arg_size_cache, elem\.first\); '
               r'total_size \+= Codec<T>::compute_encoded_size\(conditional_arg_size_cache, elem\.second\); \}')
    enc_rx = (r'for \(auto const& elem : arg\) \{ '
              r'Codec<Key>::encode\(buffer, conditional_arg_size_cache, conditional_arg_size_cache_index, elem\.first\); '
              r'Codec<T>::encode\(buffer, conditional_arg_size_cache, conditional_arg_size_cache_index, elem\.second\); \}')
    ok = True; texts = []
    for h in ('Map.h', 'UnorderedMap.h'):
        try:
            txt = open(os.path.join(inc, h)).read()
        except OSError:
            ok = False; texts += ['', '']; continue
        bodies = _c11_fn_bodies(txt, ['compute_encoded_size', 'encode'])
        for name, rx in (('compute_encoded_size', size_rx), ('encode', enc_rx)):
            b = [x for n, x in bodies if n == name]
            if len(b) != 1:
                ok = False; texts.append(''); continue
            b = b[0]; texts.append(b)
            ok = ok and len(re.findall(rx, b)) == 1 and 'pair' not in b and len(re.findall(r'\belem\b', b)) == 3
    facts['c11_map_elems_in_place'] = bool(ok)
    sk['c11_map_codec_bodies'] = texts
# ===== C11 repair block end =====


# ===== C14/C15 block begin (RotatingSink size accounting and daily next point; add-only, owned by props/c14.py, props/c15.py) =====
def rot_facts(repo, sk, facts, notes):
    """which variant of M-ROT stands for the code.
    rot_size_counts_written_bytes (C14, D10): RotatingSink::write_log neither hands log_statement.size() to
    _size_rotation nor adds it to _file_size; both happen in the override before_stream_write(bytes, ..), which
    StreamSink::write_log calls with exactly the byte count of the safe_fwrite that follows it (the json line of a
    JsonSink, the result of before_write).
    rot_daily_tomorrow_via_mktime (C15-daily-dst): _calculate_initial_rotation_tp sets tm_isdst = -1 with the daily
    HH:MM and, when that instant is not ahead, in local time, takes tm_mday + 1 HH:MM:00 tm_isdst = -1 through
    mktime (the + 24 h stays for GmtTime / as the fallback).
    The skeletons are emitted so that TieC14.v / TieC15.v pin them to the text the model was written against."""
    inc = os.path.join(repo, 'include', 'quill', 'sinks')
    p = os.path.join(inc, 'RotatingSink.h')
    try:
        docs = run_clang('#include "quill/sinks/RotatingSink.h"\n', 'RotatingSink', repo)
        tdocs = [d for d in docs if d.get('kind') == 'ClassTemplateDecl'] or docs
        sk['rot_write_log'] = method_skeleton(tdocs, p, 'write_log') or []
        sk['rot_before_stream_write'] = method_skeleton(tdocs, p, 'before_stream_write') or []
        sk['rot_size_rotation'] = method_skeleton(tdocs, p, '_size_rotation') or []
        sk['rot_initial_rotation_tp'] = method_skeleton(tdocs, p, '_calculate_initial_rotation_tp') or []
    except Exception as e:
        notes.append('rot_facts: RotatingSink.h: %s' % str(e)[:200])
        for k in ('rot_write_log', 'rot_before_stream_write', 'rot_size_rotation', 'rot_initial_rotation_tp'):
            sk.setdefault(k, [])
    p2 = os.path.join(inc, 'StreamSink.h')
    try:
        docs2 = run_clang('#include "quill/sinks/StreamSink.h"\n', 'StreamSink', repo)
        sk['rot_stream_write_log'] = method_skeleton(docs2, p2, 'write_log') or []
    except Exception as e:
        notes.append('rot_facts: StreamSink.h: %s' % str(e)[:200])
        sk.setdefault('rot_stream_write_log', [])
    w = [l.strip() for l in sk['rot_write_log']]
    b = [l.strip() for l in sk['rot_before_stream_write']]
    z = [l.strip() for l in sk['rot_size_rotation']]
    st = [l.strip() for l in sk['rot_stream_write_log']]
    def before(lines, a, bb):
        """every line starting with bb is directly preceded by the line a(bb)"""
        idx = [i for i, l in enumerate(lines) if l.startswith(bb)]
        return bool(idx) and all(i > 0 and lines[i - 1] == a(lines[i]) for i in idx)
    def hook_of(fw):
        m = re.match(r'EXPR safe_fwrite\((\w+)\.data\(\), sizeof\(char\), (\w+)\.size\(\), _file\)$', fw)
        return 'EXPR before_stream_write(%s.size(), log_timestamp)' % m.group(1) if (m and m.group(1) == m.group(2)) else None
    facts['rot_size_counts_written_bytes'] = bool(
        w and not any('log_statement.size()' in l or re.search(r'(?<!\w)_file_size\b', l) or re.search(r'(?<!\w)_size_rotation\(', l) for l in w)
        and any(l == 'EXPR _check_size_rotation = !time_rotation && _config.rotation_max_file_size() != 0' for l in w)
        and b == ['IF _check_size_rotation', 'EXPR _size_rotation(bytes, log_timestamp)', 'EXPR _file_size += bytes']
        and z == ['IF _file_size + log_msg_size > _config.rotation_max_file_size()', 'EXPR _rotate_files(record_timestamp_ns)']
        and before(st, hook_of, 'EXPR safe_fwrite('))
    t = [l.strip() for l in sk['rot_initial_rotation_tp']]
    def has_seq(lines, seq):
        return any(lines[i:i + len(seq)] == seq for i in range(len(lines)))
    hh = 'EXPR date.tm_hour = static_cast<decltype(date.tm_hour)>(config.daily_rotation_time().first.count())'
    mm = 'EXPR date.tm_min = static_cast<decltype(date.tm_min)>(config.daily_rotation_time().second.count())'
    facts['rot_daily_tomorrow_via_mktime'] = bool(
        has_seq(t, [hh, mm, 'EXPR date.tm_sec = 0', 'EXPR date.tm_isdst = -1'])
        and has_seq(t, ['IF (rotation_time <= time_now) && (config.timezone() != Timezone::GmtTime) && '
                        '(config.rotation_frequency() == RotatingFileSinkConfig::RotationFrequency::Daily)',
                        'EXPR date.tm_mday += 1', hh, mm, 'EXPR date.tm_sec = 0', 'EXPR date.tm_isdst = -1',
                        'EXPR rotation_time = std::mktime(&date)']))
# ===== C14/C15 block end =====


# ===== C04 repair block begin (which codec decodes the elements of a std::tuple; add-only, owned by props/c04.py) =====
def c04t_facts(repo, sk, facts, notes):
    """the flag `disp` of Codec/CodecDefs.v: Codec<std::tuple<Types...>>::decode_arg decodes element i with
    Codec<Types_i> (shape 1: the codec that encoded it), or with the codec of the element's *decoded* type
    (shape 2, the pinned code: Codec<std::decay_t<decltype(elems)>> on a tuple of decoded types); 0 = neither
    text recognised. The comment-stripped body is emitted as well."""
    try:
        txt = open(os.path.join(repo, 'include', 'quill', 'std', 'Tuple.h')).read()
    except OSError:
        txt = ''
    b = [x for n, x in _c11_fn_bodies(txt, ['decode_arg'])]
    body = b[0] if len(b) == 1 else ''
    by_elem = bool(re.fullmatch(r'\{ return std::tuple<decltype\(Codec<Types>::decode_arg\(buffer\)\)\.\.\.>\{Codec<Types>::decode_arg\(buffer\)\.\.\.\}; \}', body))
    by_decoded = ('Codec<std::decay_t<decltype(elems)>>::decode_arg(buffer)' in body) and ('Codec<Types>::decode_arg(buffer)...}' not in body)
    facts['codec_tuple_decode_shape'] = 1 if by_elem else 2 if by_decoded else 0
    sk['codec_tuple_decode_body'] = [body]
# ===== C04 repair block end =====


# ===== C12/C16 formatter sharing block begin (add-only, owned by props/c12.py) =====
def pfo_facts(repo, sk, facts, notes):
    """the backend shares one PatternFormatter among loggers whose PatternFormatterOptions compare equal
    (_dispatch_transit_event_to_sinks): operator== has to compare every data member, or a logger is handed another
    logger's formatter. Fact: the set of members compared `x == other.x` (joined by &&) is the set of data members."""
    try:
        txt = open(os.path.join(repo, 'include', 'quill', 'core', 'PatternFormatterOptions.h')).read()
    except OSError:
        txt = ''
    txt = re.sub(r'//[^\n]*', ' ', txt); txt = re.sub(r'/\*.*?\*/', ' ', txt, flags=re.S)
    m = re.search(r'bool operator==\(PatternFormatterOptions const& other\) const noexcept\s*\{\s*return (.*?);\s*\}', txt, re.S)
    body = re.sub(r'\s+', ' ', m.group(1)) if m else ''
    cmp_members = re.findall(r'\b(\w+) == other\.(\w+)', body)
    members = re.findall(r'^\s*(?:std::string|Timezone|bool)\s+(\w+)\s*(?:\{[^;]*\})?;', txt, re.M)
    ok = bool(body) and bool(members) and all(a == b for a, b in cmp_members) and sorted(a for a, _ in cmp_members) == sorted(members) \
        and re.fullmatch(r'(?:\w+ == other\.\w+)(?: && \w+ == other\.\w+)*', body) is not None
    facts['pfo_eq_compares_every_member'] = bool(ok)
    sk['pfo_members'] = sorted(members)
# ===== C12/C16 formatter sharing block end =====


# ===== TEB block begin (TransitEventBuffer skeletons and the facts that select the variant of M-TEB; C03 / C20) =====
def teb_facts(repo, sk, facts, notes):
    inc = os.path.join(repo, 'include', 'quill')
    p = os.path.join(inc, 'backend', 'TransitEventBuffer.h')
    docs = run_clang('#include "quill/backend/TransitEventBuffer.h"\n', 'TransitEventBuffer', repo)
    for m in ('front', 'pop_front', 'back', 'push_back', 'size', 'capacity', 'empty', 'request_shrink', 'try_shrink', '_expand'):
        sk['teb_' + m] = method_skeleton(docs, p, m) or []
    ex = sk['teb__expand']; ts = sk['teb_try_shrink']; bk = sk['teb_back']
    g = [re.match(r'DECL size_t const new_capacity = _capacity \* (\d+);$', l) for l in ex]
    g = [m for m in g if m]
    facts['teb_grow'] = int(g[0].group(1)) if len(g) == 1 else 0
    def after(lines, a, b):
        ia = [i for i, l in enumerate(lines) if l.strip() == a]
        ib = [i for i, l in enumerate(lines) if l.strip() == b]
        return bool(len(ia) == 1 and len(ib) == 1 and ia[0] < ib[0])
    facts['teb_mask_upd'] = (after(ex, 'EXPR _capacity = new_capacity', 'EXPR _mask = _capacity - 1') and
                             after(ts, 'EXPR _capacity = _initial_capacity', 'EXPR _mask = _capacity - 1'))
    facts['teb_move_from_reader'] = any(l.strip() == 'EXPR new_storage[i] = std::move(_storage[(_reader_pos + i) & _mask])' for l in ex)
    facts['teb_shrink_needs_empty'] = bool(ts and ts[0] == 'IF _shrink_requested && empty()')
    facts['teb_full_test_exact'] = bool(bk and bk[0] == 'IF _capacity == size()')
    # the constructor's member initialisers (not a method body in the AST dump): capacity rounded up to a power of two,
    # mask = capacity - 1
    src = open(p).read()
    m = re.search(r'explicit TransitEventBuffer\(size_t initial_capacity\)\s*:(.*?)\{', src, re.S)
    init = re.sub(r'\s+', ' ', m.group(1)).strip() if m else ''
    facts['teb_ctor_ok'] = (init == '_initial_capacity(next_power_of_two(initial_capacity)), _capacity(_initial_capacity), '
                                    '_storage(std::make_unique<TransitEvent[]>(_capacity)), _mask(_capacity - 1u)')
    # the backend asks the buffer to shrink when the frontend queue was shrunk, and tries it on the idle path
    bw = open(os.path.join(inc, 'backend', 'BackendWorker.h')).read()
    facts['teb_backend_requests_shrink'] = bool(re.search(
        r'if \(\(read_result\.new_capacity < read_result\.previous_capacity\) && thread_context->_transit_event_buffer\)\s*\{[^}]*'
        r'thread_context->_transit_event_buffer->request_shrink\(\);', bw, re.S))
    facts['teb_backend_tries_shrink_when_idle'] = bool(re.search(
        r'if \(queues_and_events_empty\)\s*\{\s*_cleanup_invalidated_thread_contexts\(\);\s*_cleanup_invalidated_loggers\(\);\s*'
        r'_try_shrink_empty_transit_event_buffers\(\);', bw))
# ===== TEB block end =====

def main():
    repo = REPO; out = os.path.join(os.path.dirname(os.path.abspath(__file__)), '..', 'coq', 'gen', 'SrcFacts.v')
    a = sys.argv[1:]
    dump = False
    while a:
        x = a.pop(0)
        if x == '--repo': repo = a.pop(0)
        elif x == '--out': out = a.pop(0)
        elif x == '--dump': dump = True
    sk, facts, notes = generate(repo)
    uq_facts(repo, sk, facts, notes)   # C02 block
    failc_facts(repo, sk, facts, notes)   # C08 block
    c12d_facts(repo, sk, facts, notes)   # C12d block
    c17_facts(repo, sk, facts, notes)   # C17 block
    c13_facts(repo, sk, facts, notes)   # C13 block
    c19_facts(repo, sk, facts, notes)   # C19 block
    c12_facts(repo, sk, facts, notes)   # C12 block
    reg_facts(repo, sk, facts, notes)   # C03 block
    c11f_facts(repo, sk, facts, notes)   # C11 repair block
    rot_facts(repo, sk, facts, notes)   # C14/C15 block
    c04t_facts(repo, sk, facts, notes)   # C04 repair block
    pfo_facts(repo, sk, facts, notes)   # C12/C16 formatter sharing block
    teb_facts(repo, sk, facts, notes)   # TEB block (C03/C20)
    txt = emit(sk, facts, notes, os.path.normpath(out))
    if dump:
        for k in sorted(sk):
            print('==', k); print('\n'.join(sk[k]))
        print(json.dumps(facts, indent=1)); print(notes)

if __name__ == '__main__':
    main()
