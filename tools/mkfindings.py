#!/usr/bin/env python3
"""Assemble known_findings.json from known_findings.d/*.json (run by hand before committing;
never at check time)."""
import json, os
V = os.path.dirname(os.path.dirname(os.path.abspath(__file__)))
out = []
for f in sorted(os.listdir(os.path.join(V, 'known_findings.d'))):
    if f.endswith('.json'):
        out += json.load(open(os.path.join(V, 'known_findings.d', f)))
json.dump(out, open(os.path.join(V, 'known_findings.json'), 'w'), indent=1)
print(len(out), 'findings')
