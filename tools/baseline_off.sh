#!/bin/bash
# Runs quill's own test suite from /repo's current working tree with the QUILL_VERIF guard OFF
# (it is never defined by the repo's build) in a scratch copy, and compares with BASELINE.json.
# usage: tools/baseline_off.sh [repo_dir]   exit 0 iff every stable_pass test passed.
set -u
REPO=${1:-/repo}
SCR=$(mktemp -d "${TMPDIR:-/tmp}/quill_baseline.XXXXXX")
trap 'rm -rf "$SCR"' EXIT
mkdir -p "$SCR/src"
rsync -a --exclude _build --exclude .git "$REPO/" "$SCR/src/"
cd "$SCR"
cmake -G Ninja -S src -B b -DCMAKE_BUILD_TYPE=RelWithDebInfo -DCMAKE_CXX_FLAGS=-Wno-error \
  -DQUILL_BUILD_TESTS=ON -DQUILL_ENABLE_EXTENSIVE_TESTS=ON > cmake.log 2>&1 || { tail -20 cmake.log; echo "BASELINE: configure failed"; exit 2; }
cmake --build b -j"$(nproc)" > build.log 2>&1 || { tail -40 build.log; echo "BASELINE: build failed"; exit 2; }
ctest --test-dir b -j8 --timeout 900 --output-junit "$SCR/junit.xml" > ctest.log 2>&1
tail -5 ctest.log
python3 - "$SCR/junit.xml" <<'PY'
import sys, json, xml.etree.ElementTree as ET
base=json.load(open('/root/.vp/BASELINE.json'))
want=set(x.split('::')[0] for x in base['stable_pass'])
t=ET.parse(sys.argv[1]).getroot()
ok=set(); bad=set()
for tc in t.iter('testcase'):
    n=tc.get('name')
    failed = tc.find('failure') is not None or tc.find('error') is not None or tc.get('status') in ('fail','failed')
    (bad if failed else ok).add(n)
missing=sorted(want-ok)
print(f"BASELINE: {len(want&ok)}/{len(want)} stable tests passed; failing-or-missing: {missing}")
sys.exit(0 if not missing else 1)
PY
