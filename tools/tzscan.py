#!/usr/bin/env python3
"""tzscan: parse the TZif files under /usr/share/zoneinfo and check the zone hypothesis of C13
(`zone_ok` in coq/theories/Time/TimeSpec.v) for 2001-01-01 .. 2100-12-31:

   every change of the local time type (utc offset, is-dst, abbreviation) happens at an instant that
   is a multiple of 900 s since the epoch, and every utc offset in force is a multiple of 900 s.

StringFromTime rebuilds its cached string only at epoch-aligned quarter hours in local-time mode,
so a zone violating this shows stale hour/offset/date fields until the next quarter hour (D9).

usage: tools/tzscan.py [--json] [--root DIR] [ZONE ...]
As a module: zones(root), load(zone, root) -> Zone, violations(zone_obj) -> list of dicts."""
import json, os, struct, sys, calendar

ROOT = '/usr/share/zoneinfo'
T_LO = calendar.timegm((2001, 1, 1, 0, 0, 0))
T_HI = calendar.timegm((2101, 1, 1, 0, 0, 0))
SKIP_DIRS = {'posix', 'right'}          # duplicates / leap-second variants (tm_sec = 60 is outside the model)


def zones(root=ROOT):
    out = []
    for d, dirs, files in os.walk(root):
        rel = os.path.relpath(d, root)
        top = rel.split(os.sep)[0]
        if top in SKIP_DIRS:
            dirs[:] = []; continue
        for f in files:
            p = os.path.join(d, f)
            try:
                with open(p, 'rb') as fh:
                    if fh.read(4) != b'TZif': continue
            except OSError:
                continue
            name = os.path.relpath(p, root)
            if name in ('localtime', 'posixrules', 'Factory'): continue
            out.append(name)
    return sorted(out)


class Zone:
    def __init__(self, name):
        self.name = name
        self.trans = []      # [(t, (utoff, isdst, abbr))] all explicit + rule-generated, sorted
        self.first = None    # type in force before the first transition


def _parse_block(data, pos, tsz):
    magic, ver, isutcnt, isstdcnt, leapcnt, timecnt, typecnt, charcnt = struct.unpack('>4sc15x6l', data[pos:pos + 44])
    pos += 44
    fmt = '>%d%s' % (timecnt, 'q' if tsz == 8 else 'l')
    times = list(struct.unpack(fmt, data[pos:pos + timecnt * tsz])); pos += timecnt * tsz
    idx = list(data[pos:pos + timecnt]); pos += timecnt
    types = []
    for i in range(typecnt):
        utoff, isdst, ai = struct.unpack('>lBB', data[pos:pos + 6]); pos += 6
        types.append((utoff, isdst, ai))
    chars = data[pos:pos + charcnt]; pos += charcnt
    pos += leapcnt * (tsz + 4) + isstdcnt + isutcnt
    def ab(ai):
        e = chars.index(b'\0', ai)
        return chars[ai:e].decode('ascii', 'replace')
    types = [(u, d, ab(a)) for (u, d, a) in types]
    return ver, times, idx, types, pos


# ---------------------------------------------------------------- POSIX TZ footer (RFC 8536 3.3)
def _p_name(s, i):
    if s[i] == '<':
        j = s.index('>', i)
        return s[i + 1:j], j + 1
    j = i
    while j < len(s) and s[j].isalpha(): j += 1
    return s[i:j], j


def _p_time(s, i):
    """[+-]hh[:mm[:ss]] -> seconds"""
    sign = 1
    if i < len(s) and s[i] in '+-':
        sign = -1 if s[i] == '-' else 1; i += 1
    parts = []; j = i
    while True:
        k = j
        while k < len(s) and s[k].isdigit(): k += 1
        parts.append(int(s[j:k])); j = k
        if j < len(s) and s[j] == ':' and len(parts) < 3: j += 1
        else: break
    parts += [0] * (3 - len(parts))
    return sign * (parts[0] * 3600 + parts[1] * 60 + parts[2]), j


def _p_rule(s, i):
    """Mm.w.d | Jn | n, optional /time -> (kind, args, secs), pos"""
    if s[i] == 'M':
        j = i + 1; nums = []
        for _ in range(3):
            k = j
            while k < len(s) and s[k].isdigit(): k += 1
            nums.append(int(s[j:k])); j = k + 1 if (k < len(s) and s[k] == '.') else k
        r = ('M', tuple(nums))
    elif s[i] == 'J':
        k = i + 1
        while k < len(s) and s[k].isdigit(): k += 1
        r = ('J', int(s[i + 1:k])); j = k
    else:
        k = i
        while k < len(s) and s[k].isdigit(): k += 1
        r = ('N', int(s[i:k])); j = k
    secs = 7200
    if j < len(s) and s[j] == '/':
        secs, j = _p_time(s, j + 1)
    return (r[0], r[1], secs), j


def parse_posix_tz(s):
    """-> (std_abbr, std_utoff, dst_abbr|None, dst_utoff, start_rule, end_rule)"""
    std, i = _p_name(s, 0)
    off, i = _p_time(s, i)
    stdoff = -off
    if i >= len(s):
        return (std, stdoff, None, None, None, None)
    dst, i = _p_name(s, i)
    dstoff = stdoff + 3600
    if i < len(s) and s[i] != ',':
        o, i = _p_time(s, i); dstoff = -o
    if i >= len(s):
        # no rule given: POSIX default rules are implementation defined; glibc uses posixrules/US rules
        return (std, stdoff, dst, dstoff, ('M', (3, 2, 0), 7200), ('M', (11, 1, 0), 7200))
    assert s[i] == ','
    r1, i = _p_rule(s, i + 1)
    assert s[i] == ','
    r2, i = _p_rule(s, i + 1)
    return (std, stdoff, dst, dstoff, r1, r2)


def _rule_day(year, rule):
    """days since epoch of the rule's date in that year (local calendar)"""
    kind, arg, _ = rule
    jan1 = calendar.timegm((year, 1, 1, 0, 0, 0)) // 86400
    leap = calendar.isleap(year)
    if kind == 'J':      # 1..365, Feb 29 never counted
        d = arg - 1
        if leap and arg >= 60: d += 1
        return jan1 + d
    if kind == 'N':      # 0..365, leap days counted
        return jan1 + arg
    m, w, dow = arg
    first = calendar.timegm((year, m, 1, 0, 0, 0)) // 86400
    wd = (first + 4) % 7          # 1970-01-01 was a Thursday (4); 0 = Sunday
    d = first + (dow - wd) % 7 + (w - 1) * 7
    mdays = calendar.monthrange(year, m)[1]
    while d >= first + mdays: d -= 7
    return d


def _posix_transitions(tz, y0, y1):
    std, stdoff, dst, dstoff, r1, r2 = tz
    out = []
    if dst is None: return out
    for y in range(y0, y1 + 1):
        t1 = _rule_day(y, r1) * 86400 + r1[2] - stdoff     # start of DST, expressed in standard time
        t2 = _rule_day(y, r2) * 86400 + r2[2] - dstoff     # end of DST, expressed in DST
        out.append((t1, (dstoff, 1, dst)))
        out.append((t2, (stdoff, 0, std)))
    out.sort()
    return out


def load(name, root=ROOT):
    data = open(os.path.join(root, name), 'rb').read()
    ver, times, idx, types, pos = _parse_block(data, 0, 4)
    footer = None
    if ver >= b'2':
        ver, times, idx, types, pos = _parse_block(data, pos, 8)
        ft = data[pos:].split(b'\n')
        if len(ft) >= 2 and ft[1]:
            footer = ft[1].decode('ascii')
    z = Zone(name)
    z.footer = footer
    # type before the first transition: first standard-time type, else type 0 (RFC 8536 / glibc)
    if types:
        z.first = types[0]
        if times and idx and idx[0] == 0 or not times:
            z.first = types[0]
        else:
            z.first = next((ty for ty in types if not ty[1]), types[0])
    tr = [(t, types[i]) for t, i in zip(times, idx)]
    if footer:
        tz = parse_posix_tz(footer)
        last = tr[-1][0] if tr else -2 ** 62
        import time as _t
        y0 = max(1970, _t.gmtime(max(last, 0)).tm_year) if tr else 1970
        gen = [(t, ty) for (t, ty) in _posix_transitions(tz, max(y0 - 1, 1970), 2101) if t > last]
        if tz[2] is None and (not tr or tr[-1][1] != (tz[1], 0, tz[0])):
            # fixed rule after the last transition: the footer type takes over at `last` (already)
            pass
        tr += gen
        if not tr:
            z.first = (tz[1], 0, tz[0])
    z.trans = tr
    return z


def type_at(z, t):
    """local time type in force at instant t"""
    cur = z.first
    lo, hi = 0, len(z.trans)
    while lo < hi:
        mid = (lo + hi) // 2
        if z.trans[mid][0] <= t: lo = mid + 1
        else: hi = mid
    if lo > 0: cur = z.trans[lo - 1][1]
    return cur


def changes(z, lo=T_LO, hi=T_HI):
    """[(t, before, after)] real changes of the local time type within [lo, hi)"""
    out = []
    prev = z.first
    for t, ty in z.trans:
        if ty != prev and lo <= t < hi:
            out.append((t, prev, ty))
        prev = ty
    return out


def violations(z, lo=T_LO, hi=T_HI):
    out = []
    for t, a, b in changes(z, lo, hi):
        if t % 900 != 0:
            kind = 'offset' if a[0] != b[0] else 'abbr/isdst'
            out.append({'zone': z.name, 'kind': 'off-grid ' + kind + ' change', 't': t, 'from': list(a), 'to': list(b),
                        'stale_until': (t // 900 + 1) * 900})
    seen = set()
    for ty in [type_at(z, lo)] + [b for (_, _, b) in changes(z, lo, hi)]:
        if ty[0] % 900 != 0 and ty not in seen:
            seen.add(ty)
            out.append({'zone': z.name, 'kind': 'offset not a multiple of 900 s', 't': None, 'from': list(ty), 'to': list(ty), 'stale_until': None})
    return out


def scan(names=None, root=ROOT):
    res = {}
    for n in (names or zones(root)):
        try:
            v = violations(load(n, root))
        except Exception as e:          # unreadable file: report, do not hide
            v = [{'zone': n, 'kind': 'unparsable: %r' % (e,), 't': None}]
        if v: res[n] = v
    return res


def main():
    a = sys.argv[1:]; js = False; root = ROOT; names = []
    while a:
        x = a.pop(0)
        if x == '--json': js = True
        elif x == '--root': root = a.pop(0)
        else: names.append(x)
    res = scan(names or None, root)
    if js:
        json.dump(res, sys.stdout, indent=1); print()
        return 0
    allz = names or zones(root)
    print('zones scanned: %d, violating zone_ok in 2001..2100: %d' % (len(allz), len(res)))
    for n in sorted(res):
        ts = [v['t'] for v in res[n] if v['t'] is not None]
        import time as _t
        span = ''
        if ts:
            span = ' first %s last %s' % (_t.strftime('%Y-%m-%d %H:%M:%S', _t.gmtime(min(ts))), _t.strftime('%Y-%m-%d %H:%M:%S', _t.gmtime(max(ts))))
        kinds = sorted(set(v['kind'] for v in res[n]))
        print('%-32s %3d instants%s  [%s]' % (n, len(ts), span, '; '.join(kinds)))
    return 0


if __name__ == '__main__':
    sys.exit(main())
