#!/usr/bin/env python3
"""Writes MANIFEST.json from the table below (kept in one place so it is always schema-valid)."""
import json, os
V = os.path.dirname(os.path.dirname(os.path.abspath(__file__)))
PROOF_NOTE = ('Trusted: Coq 8.16.1 kernel (vm_compute, no native_compute), no axioms beyond those printed per theorem in the evidence; '
              'the hand-written Gallina model is tied to /repo by T-corr (extracted OCaml model vs the real code on generated cases, sampled) '
              'and where stated by T-src (tools/srcfacts.py over clang JSON AST, regenerated each run); extraction uses ExtrOcamlBasic only.')
CLAIMED = {
 'C18': dict(text='Machine-checked refinement (Coq): for every capacity and every history of store/flush/re-init the ring buffer emits exactly the most recent min(cap, stored) events, oldest first, once, with no out-of-bounds access (C18_bt_refines + spec lemmas; refutations of the two unfixed configurations). Tied to BacktraceStorage by differential runs of the extracted model against the real class plus a direct property monitor. The backend-level clauses (held back when logged, replay right after the trigger) are covered by the M-BE checks when present; see DESIGN §5 C18.',
             design='§5 C18', technique='Coq refinement proof (ring -> most-recent-N spec) + extracted-model/implementation differential correspondence'),
}
REASON_NOT_YET = 'not claimed yet: model and proof not built at this commit (planned in DESIGN §5); no check is registered rather than registering a weaker technique'
props = [json.loads(l) for l in open(os.path.join(V, 'properties.jsonl'))]
checks = []; na = []
for p in props:
    i = p['id']
    if i in CLAIMED:
        c = CLAIMED[i]
        checks.append({
            'property_id': i,
            'quick_cmd': './check %s --tier quick' % i,
            'thorough_cmd': './check %s --tier thorough' % i,
            'evidence_file': '/verif/evidence/%s.json' % i,
            'replay_cmd_template': './check %s --replay {path}' % i,
            'engine': 'coq-proof+correspondence',
            'level_claimed': {'category': 'proof', 'text': c['text'], 'design_ref': c['design']},
            'level_note': c.get('note', PROOF_NOTE),
            'technique': c['technique'],
        })
    else:
        na.append({'property_id': i, 'reason': REASON_NOT_YET})
m = {
 'version': 1,
 'setup_cmd': 'bash setup.sh',
 'hooks': {'guard': 'QUILL_VERIF', 'enable': 'harnesses are compiled with -DQUILL_VERIF -I/repo/include (header-only library); with the guard undefined the hook macros expand to nothing',
           'baseline_off_cmd': 'bash tools/baseline_off.sh', 'source_commits': json.load(open(os.path.join(V, 'hooks_commits.json'))) if os.path.exists(os.path.join(V, 'hooks_commits.json')) else [],
           'add_only': True},
 'engines': [{'name': 'coq-proof+correspondence', 'path': 'check', 'serves_properties': sorted(CLAIMED),
              'kind_free_text': 'Coq 8.16 theorems about executable Gallina models (coq/theories), extracted to OCaml (extract/modelrun) and compared with the real code built from /repo on every run (harness/*.cpp); tools/srcfacts.py regenerates source facts (coq/gen/SrcFacts.v)'}],
 'checks': checks,
 'not_applicable': na,
 'notes': 'See DESIGN.md. known_findings.json lists defects found (fixed ones are recorded with their fix: commit and suppress nothing).',
}
json.dump(m, open(os.path.join(V, 'MANIFEST.json'), 'w'), indent=1)
print('claimed', sorted(CLAIMED), 'unclaimed', len(na))
