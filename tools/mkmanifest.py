#!/usr/bin/env python3
"""Writes MANIFEST.json from the table below (kept in one place so it is always schema-valid)."""
import json, os
V = os.path.dirname(os.path.dirname(os.path.abspath(__file__)))
PROOF_NOTE = ('Trusted: Coq 8.16.1 kernel (vm_compute, no native_compute), no axioms beyond those printed per theorem in the evidence; '
              'the hand-written Gallina model is tied to /repo by T-corr (extracted OCaml model vs the real code on generated cases, sampled) '
              'and where stated by T-src (tools/srcfacts.py over clang JSON AST, regenerated each run); extraction uses ExtrOcamlBasic only.')
import importlib, sys
sys.path.insert(0, os.path.join(V, 'lib')); sys.path.insert(0, V); sys.path.insert(0, os.path.join(V, 'props'))
CLAIMED = {}
for f in sorted(os.listdir(os.path.join(V, 'props'))):
    if f.startswith('c') and f.endswith('.py'):
        mod = importlib.import_module('props.' + f[:-3])
        if getattr(mod, 'MANIFEST', None):
            CLAIMED[mod.PID] = mod.MANIFEST
REASON_NOT_YET = 'not claimed yet: model and proof not built at this commit (planned in DESIGN §5); no check is registered rather than registering a weaker technique'
props = [json.loads(l) for l in open(os.path.join(V, 'properties.jsonl'))]
checks = []; na = []
for p in props:
    i = p['id']
    if i in CLAIMED:
        c = CLAIMED[i]
        checks.append({
            'property_id': i,
            'quick_cmd': './check %s --tier quick' % i,
            'thorough_cmd': './check %s --tier thorough' % i,
            'evidence_file': '/verif/evidence/%s.json' % i,
            'replay_cmd_template': './check %s --replay {path}' % i,
            'engine': 'coq-proof+correspondence',
            'level_claimed': {'category': c.get('category', 'proof'), 'text': c['text'], 'design_ref': c['design']},
            'level_note': c.get('note', PROOF_NOTE),
            'technique': c['technique'],
        })
    else:
        na.append({'property_id': i, 'reason': REASON_NOT_YET})
m = {
 'version': 1,
 'setup_cmd': 'bash setup.sh',
 'hooks': {'guard': 'QUILL_VERIF', 'enable': 'harnesses are compiled with -DQUILL_VERIF -I/repo/include (header-only library); with the guard undefined the hook macros expand to nothing',
           'baseline_off_cmd': 'bash tools/baseline_off.sh', 'source_commits': json.load(open(os.path.join(V, 'hooks_commits.json'))) if os.path.exists(os.path.join(V, 'hooks_commits.json')) else [],
           'add_only': True},
 'engines': [{'name': 'coq-proof+correspondence', 'path': 'check', 'serves_properties': sorted(CLAIMED),
              'kind_free_text': 'Coq 8.16 theorems about executable Gallina models (coq/theories), extracted to OCaml (extract/modelrun) and compared with the real code built from /repo on every run (harness/*.cpp); tools/srcfacts.py regenerates source facts (coq/gen/SrcFacts.v)'}],
 'checks': checks,
 'not_applicable': na,
 'notes': 'See DESIGN.md. known_findings.json lists defects found (fixed ones are recorded with their fix: commit and suppress nothing).',
}
json.dump(m, open(os.path.join(V, 'MANIFEST.json'), 'w'), indent=1)
print('claimed', sorted(CLAIMED), 'unclaimed', len(na))
