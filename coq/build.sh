#!/bin/bash
# (re)generate the Makefile from the current file list and build everything (full .vo build)
cd "$(dirname "$0")"
{ cat _CoqProject.in; find theories gen -name '*.v' | sort; } > _CoqProject
coq_makefile -f _CoqProject -o Makefile > /dev/null
timeout ${COQ_BUILD_TIMEOUT:-1800} make -k -j16 "$@"
