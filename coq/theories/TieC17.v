(* T-src tie for C17: the skeletons of the registry / removal-protocol methods regenerated from /repo on every run
   (tools/srcfacts.py, clang AST) are the ones Registry/RegModel.v mirrors, and the facts the theorems take as the
   model configuration (the clean-up guard looks at every queue and every transit buffer, it is evaluated again for each
   invalid logger and is the backend's emptiness check, order erase -> cleanup_unused_sinks -> flag store with the flag
   stored nowhere else, removal request enqueued before the logger is invalidated, get_logger tests validity) hold.
   A source edit that changes one of them makes this file stop compiling. *)
From Coq Require Import String List NArith Bool.
From QuillGen Require SrcFacts.
From Quill Require ExpectedC17.
From Quill Require Import Registry.RegModel.
Import ListNotations.

Definition c17_skeletons_stmt : Prop :=
  SrcFacts.sk_c17_be_cleanup_invalidated_loggers = ExpectedC17.sk_c17_be_cleanup_invalidated_loggers /\
  SrcFacts.sk_c17_fe_remove_logger = ExpectedC17.sk_c17_fe_remove_logger /\
  SrcFacts.sk_c17_fe_remove_logger_blocking = ExpectedC17.sk_c17_fe_remove_logger_blocking /\
  SrcFacts.sk_c17_lb_is_valid_logger = ExpectedC17.sk_c17_lb_is_valid_logger /\
  SrcFacts.sk_c17_lb_mark_invalid = ExpectedC17.sk_c17_lb_mark_invalid /\
  SrcFacts.sk_c17_lm__find_logger = ExpectedC17.sk_c17_lm__find_logger /\
  SrcFacts.sk_c17_lm__insert_logger = ExpectedC17.sk_c17_lm__insert_logger /\
  SrcFacts.sk_c17_lm_cleanup_invalidated_loggers = ExpectedC17.sk_c17_lm_cleanup_invalidated_loggers /\
  SrcFacts.sk_c17_lm_create_or_get_logger = ExpectedC17.sk_c17_lm_create_or_get_logger /\
  SrcFacts.sk_c17_lm_get_all_loggers = ExpectedC17.sk_c17_lm_get_all_loggers /\
  SrcFacts.sk_c17_lm_get_logger = ExpectedC17.sk_c17_lm_get_logger /\
  SrcFacts.sk_c17_lm_get_number_of_loggers = ExpectedC17.sk_c17_lm_get_number_of_loggers /\
  SrcFacts.sk_c17_lm_remove_logger = ExpectedC17.sk_c17_lm_remove_logger /\
  SrcFacts.sk_c17_sm__find_sink = ExpectedC17.sk_c17_sm__find_sink /\
  SrcFacts.sk_c17_sm__insert_sink = ExpectedC17.sk_c17_sm__insert_sink /\
  SrcFacts.sk_c17_sm_cleanup_unused_sinks = ExpectedC17.sk_c17_sm_cleanup_unused_sinks /\
  SrcFacts.sk_c17_sm_create_or_get_sink = ExpectedC17.sk_c17_sm_create_or_get_sink /\
  SrcFacts.sk_c17_spin_lock = ExpectedC17.sk_c17_spin_lock /\
  SrcFacts.sk_c17_spin_unlock = ExpectedC17.sk_c17_spin_unlock.
Lemma c17_skeletons_ok : c17_skeletons_stmt.
Proof. vm_compute. repeat split; reflexivity. Qed.

(* the model configuration read from the source *)
Definition src_cfg : cfg :=
  {| c_guard_q := SrcFacts.c17_guard_queues; c_guard_tb := SrcFacts.c17_guard_tbufs;
     c_recheck := SrcFacts.c17_recheck_per_logger; c_flag_late := SrcFacts.c17_flag_after_erase;
     c_prune := SrcFacts.c17_prune_after_erase; c_get_valid := SrcFacts.c17_get_checks_valid |}.

Lemma src_cfg_good : good src_cfg = true.
Proof. vm_compute. reflexivity. Qed.

(* the documented order inside remove_logger_blocking (the model's FRbReq before FRbMark before FWait) and the ownership
   structure the use-count model stands for *)
Lemma c17_protocol_facts_ok :
  SrcFacts.c17_request_before_invalidate = true /\ SrcFacts.c17_sink_table_weak = true /\
  SrcFacts.c17_logger_shares_sinks = true /\ SrcFacts.c17_registry_owns_loggers = true.
Proof. vm_compute. repeat split; reflexivity. Qed.

(* memory orders: spinlock (acquire exchange / release store), logger validity flag and the "has invalidated loggers" flag *)
Lemma c17_orders_ok :
  SrcFacts.c17_spin_exchange = SrcFacts.Acq /\ SrcFacts.c17_spin_unlock_store = SrcFacts.Rel /\
  SrcFacts.c17_valid_store = SrcFacts.Rel /\ SrcFacts.c17_valid_load = SrcFacts.Acq /\
  SrcFacts.c17_inv_flag_set = SrcFacts.Rel /\ SrcFacts.c17_inv_flag_load = SrcFacts.Acq.
Proof. vm_compute. repeat split; reflexivity. Qed.

(* the spinlock's orders as the view model of Registry/SpinModel.v takes them *)
From Quill Require Import Registry.SpinModel.
Definition mo_acq (m : SrcFacts.mo) : bool := match m with SrcFacts.Acq | SrcFacts.AcqRel | SrcFacts.Sc => true | _ => false end.
Definition mo_rel (m : SrcFacts.mo) : bool := match m with SrcFacts.Rel | SrcFacts.AcqRel | SrcFacts.Sc => true | _ => false end.
Definition src_sorders : sorders := {| x_acq := mo_acq SrcFacts.c17_spin_exchange; u_rel := mo_rel SrcFacts.c17_spin_unlock_store |}.
Lemma src_spin_sufficient : ssufficient src_sorders = true.
Proof. vm_compute. reflexivity. Qed.
