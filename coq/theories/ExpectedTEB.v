(* Expected skeletons of TransitEventBuffer: the shape of the source that TEB/TEBModel.v mirrors, frozen
   (taken from /repo at 06846d2, on which the correspondence run of harness/teb.cpp passed).
   TieTEB.v proves QuillGen.SrcFacts.sk_teb_* = these. *)
From Coq Require Import String List.
Import ListNotations.
Local Open Scope string_scope.
Definition sk_teb__expand : list string := [
    "DECL size_t const new_capacity = _capacity * 2;";
    "DECL auto new_storage = std::make_unique<TransitEvent[]>(new_capacity);";
    "DECL size_t const current_size = size();";
    "FOR for (size_t i = 0; i < current_size; ++i)";
    "  EXPR new_storage[i] = std::move(_storage[(_reader_pos + i) & _mask])";
    "EXPR _storage = std::move(new_storage)";
    "EXPR _capacity = new_capacity";
    "EXPR _mask = _capacity - 1";
    "EXPR _writer_pos = current_size";
    "EXPR _reader_pos = 0"].
Definition sk_teb_back : list string := [
    "IF _capacity == size()";
    "  EXPR _expand()";
    "RET return &_storage[_writer_pos & _mask]"].
Definition sk_teb_capacity : list string := [
    "RET return _capacity"].
Definition sk_teb_empty : list string := [
    "RET return _reader_pos == _writer_pos"].
Definition sk_teb_front : list string := [
    "IF _reader_pos == _writer_pos";
    "  RET return nullptr";
    "RET return &_storage[_reader_pos & _mask]"].
Definition sk_teb_pop_front : list string := [
    "EXPR ++_reader_pos"].
Definition sk_teb_push_back : list string := [
    "EXPR ++_writer_pos"].
Definition sk_teb_request_shrink : list string := [
    "EXPR _shrink_requested = true"].
Definition sk_teb_size : list string := [
    "RET return _writer_pos - _reader_pos"].
Definition sk_teb_try_shrink : list string := [
    "IF _shrink_requested && empty()";
    "  IF _capacity > _initial_capacity";
    "    EXPR _storage = std::make_unique<TransitEvent[]>(_initial_capacity)";
    "    EXPR _capacity = _initial_capacity";
    "    EXPR _mask = _capacity - 1";
    "    EXPR _writer_pos = 0";
    "    EXPR _reader_pos = 0";
    "  EXPR _shrink_requested = false"].
