(* T-src tie for C15 (time rotation): which variant of M-ROT stands for the code, as far as the daily
   next point goes (finding C15-daily-dst).  tools/srcfacts.py (rot_facts) regenerates from the repository on
   every run
     - the skeleton of RotatingSink::_calculate_initial_rotation_tp;
     - the fact rot_daily_tomorrow_via_mktime: the daily branch sets tm_isdst = -1 with HH:MM:00 and, when the
       converted instant is not ahead, in local time, tm_mday + 1 / HH:MM:00 / tm_isdst = -1 goes through
       mktime again; + 24 h remains for GmtTime (and as the fallback).
   The model variant is  c_plus24 = src_plus24 = false  (Rotate/RotModel.v: init_tp, dst_fixed).
   Closed by vm_compute.  On a tree that still adds 24 h this file does not compile and the theorems of
   Properties_C15 about the code variant are not discharged. *)
From Coq Require Import String List Bool NArith.
From QuillGen Require SrcFacts.
Import ListNotations.
Local Open Scope string_scope.

Definition exp_rot_initial_rotation_tp : list string := [
    "DECL time_t const time_now = static_cast<time_t>(start_time_ns) / 1000000000;";
    "DECL tm date;";
    "IF config.timezone() == Timezone::GmtTime";
    "  EXPR detail::gmtime_rs(&time_now, &date)";
    "ELSE";
    "  EXPR detail::localtime_rs(&time_now, &date)";
    "IF config.rotation_frequency() == RotatingFileSinkConfig::RotationFrequency::Minutely";
    "  EXPR date.tm_min += 1";
    "  EXPR date.tm_sec = 0";
    "ELSE";
    "  IF config.rotation_frequency() == RotatingFileSinkConfig::RotationFrequency::Hourly";
    "    EXPR date.tm_hour += 1";
    "    EXPR date.tm_min = 0";
    "    EXPR date.tm_sec = 0";
    "  ELSE";
    "    IF config.rotation_frequency() == RotatingFileSinkConfig::RotationFrequency::Daily";
    "      EXPR date.tm_hour = static_cast<decltype(date.tm_hour)>(config.daily_rotation_time().first.count())";
    "      EXPR date.tm_min = static_cast<decltype(date.tm_min)>(config.daily_rotation_time().second.count())";
    "      EXPR date.tm_sec = 0";
    "      EXPR date.tm_isdst = -1";
    "    ELSE";
    "      EXPR QUILL_THROW";
    "DECL time_t rotation_time = (config.timezone() == Timezone::GmtTime) ? detail::timegm(&date) : std::mktime(&date);";
    "IF (rotation_time <= time_now) && (config.timezone() != Timezone::GmtTime) && (config.rotation_frequency() == RotatingFileSinkConfig::RotationFrequency::Daily)";
    "  EXPR date.tm_mday += 1";
    "  EXPR date.tm_hour = static_cast<decltype(date.tm_hour)>(config.daily_rotation_time().first.count())";
    "  EXPR date.tm_min = static_cast<decltype(date.tm_min)>(config.daily_rotation_time().second.count())";
    "  EXPR date.tm_sec = 0";
    "  EXPR date.tm_isdst = -1";
    "  EXPR rotation_time = std::mktime(&date)";
    "DECL uint64_t const rotation_time_seconds = (rotation_time > time_now) ? static_cast<uint64_t>(rotation_time) : static_cast<uint64_t>(rotation_time + std::chrono::seconds{std::chrono::hours{24}}.count());";
    "RET return static_cast<uint64_t>( std::chrono::nanoseconds{std::chrono::seconds{rotation_time_seconds}}.count())"].

Local Close Scope string_scope.

(* the model flag that corresponds to the source *)
Definition src_plus24 : bool := negb SrcFacts.rot_daily_tomorrow_via_mktime.

Lemma src_plus24_false : src_plus24 = false.
Proof. vm_compute. reflexivity. Qed.

Lemma c15_skeleton_ok : SrcFacts.sk_rot_initial_rotation_tp = exp_rot_initial_rotation_tp.
Proof. vm_compute. reflexivity. Qed.
