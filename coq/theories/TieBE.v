(* T-src tie of the backend loop as a whole: every BackendWorker method that M-BE models is, statement by statement, the
   one the model was written against and compared with (ExpectedBE.v). A change to any of them - also a harmless one -
   breaks the corresponding lemma; the checks then search for a failing input with the driver. *)
From Coq Require Import List String.
From QuillGen Require SrcFacts.
From Quill Require ExpectedBE.

Lemma src_be_poll : SrcFacts.sk_be_poll = ExpectedBE.sk_be_poll.
Proof. vm_compute. reflexivity. Qed.
Lemma src_be_populate_transit_events_from_frontend_queues : SrcFacts.sk_be_populate_transit_events_from_frontend_queues = ExpectedBE.sk_be_populate_transit_events_from_frontend_queues.
Proof. vm_compute. reflexivity. Qed.
Lemma src_be_read_unbounded_frontend_queue : SrcFacts.sk_be_read_unbounded_frontend_queue = ExpectedBE.sk_be_read_unbounded_frontend_queue.
Proof. vm_compute. reflexivity. Qed.
Lemma src_be_populate_transit_event_from_frontend_queue : SrcFacts.sk_be_populate_transit_event_from_frontend_queue = ExpectedBE.sk_be_populate_transit_event_from_frontend_queue.
Proof. vm_compute. reflexivity. Qed.
Lemma src_be_populate_formatted_log_message : SrcFacts.sk_be_populate_formatted_log_message = ExpectedBE.sk_be_populate_formatted_log_message.
Proof. vm_compute. reflexivity. Qed.
Lemma src_be_process_lowest_timestamp_transit_event : SrcFacts.sk_be_process_lowest_timestamp_transit_event = ExpectedBE.sk_be_process_lowest_timestamp_transit_event.
Proof. vm_compute. reflexivity. Qed.
Lemma src_be_process_transit_event : SrcFacts.sk_be_process_transit_event = ExpectedBE.sk_be_process_transit_event.
Proof. vm_compute. reflexivity. Qed.
Lemma src_behas_pending_events_for_caching_when_transit_event_buffer_empty : SrcFacts.sk_behas_pending_events_for_caching_when_transit_event_buffer_empty = ExpectedBE.sk_behas_pending_events_for_caching_when_transit_event_buffer_empty.
Proof. vm_compute. reflexivity. Qed.
Lemma src_be_check_frontend_queues_and_cached_transit_events_empty : SrcFacts.sk_be_check_frontend_queues_and_cached_transit_events_empty = ExpectedBE.sk_be_check_frontend_queues_and_cached_transit_events_empty.
Proof. vm_compute. reflexivity. Qed.
Lemma src_be_update_active_thread_contexts_cache : SrcFacts.sk_be_update_active_thread_contexts_cache = ExpectedBE.sk_be_update_active_thread_contexts_cache.
Proof. vm_compute. reflexivity. Qed.
Lemma src_be_cleanup_invalidated_thread_contexts : SrcFacts.sk_be_cleanup_invalidated_thread_contexts = ExpectedBE.sk_be_cleanup_invalidated_thread_contexts.
Proof. vm_compute. reflexivity. Qed.
Lemma src_be_flush_and_run_active_sinks : SrcFacts.sk_be_flush_and_run_active_sinks = ExpectedBE.sk_be_flush_and_run_active_sinks.
Proof. vm_compute. reflexivity. Qed.
