(* C04 — async-formatted message = formatting the arguments at the call site; deep copy;
   reserved = written = consumed.
   This file holds only the property theorems (each closed by [exact]) and their assumptions.
   Model: Codec/CodecDefs.v (M-CODEC), Codec/Sanitize.v, Codec/InlVec.v (M-IV).
   [reinsert] stands for the standard library rebuilding a set/map/unordered container from the
   decoded elements, [render] for libfmt on the decoded values, [mem] for the caller's memory at
   the time the backend formats; [disp] = which codec decodes the elements of a std::tuple: true = the codec
   of their decoded type (the pinned code, finding C04-F3), false = the codec that encoded them (the repaired
   code). [src_disp] (TieC04.v) is the variant the source tree has now, read from std/Tuple.h on every run. *)
From Coq Require Import List NArith Bool.
From Quill Require Import Base.Bytes Codec.CodecDefs Codec.CodecProofs Codec.Sanitize Codec.SanitizeProofs
  Codec.InlVec Codec.InlVecProofs TieC04.
Import ListNotations.
Local Open Scope N_scope.

(* T-src: Codec<std::tuple<Types...>>::decode_arg decodes element i with Codec<Types_i> *)
Theorem C04_tie_tuple_decoder : src_disp = false /\
  QuillGen.SrcFacts.sk_codec_tuple_decode_body = expected_tuple_decode_body.
Proof. exact (conj src_tuple_decodes_with_element_codecs src_tuple_decode_body). Qed.
Print Assumptions C04_tie_tuple_decoder.

(* the fixed-width integer codec is proved, not assumed *)
Theorem bytes_codec : forall w n tl,
  length (encn w n) = w /\ decn w (encn w n ++ tl) = Some (n mod 256 ^ N.of_nat w, tl).
Proof. exact (fun w n tl => conj (encn_len w n) (decn_encn_mod w n tl)). Qed.
Print Assumptions bytes_codec.

(* reserved = written, for every type (arbitrary nesting) and every well-typed value, at any
   address, whatever follows in the cache *)
Theorem codec_size_exact : forall t v, wt t v -> forall off rest,
  exists bs, enc t v off (snd (size t v) ++ rest) = Some (bs, rest) /\ lenN bs = fst (size t v).
Proof. exact codec_size_cache_exact. Qed.
Print Assumptions codec_size_exact.

(* the variable-length arguments of one statement share the size cache: for any mix of argument
   types and any stale content [cache0] of the thread-local vector, after the size pass the vector
   is [pushed ++ stale]; the encode pass starts at index 0, never indexes out of bounds (Some),
   consumes exactly [pushed], in order, and writes exactly the reserved number of bytes *)
Theorem codec_cache_sync : forall ts vs, wt_zip (map wt ts) vs -> forall cache0 off,
  exists bs,
    snd (args_size true cache0 ts vs) = snd (size_zip (map size ts) vs) ++ stale cache0 ts
    /\ args_encode ts vs off (snd (args_size true cache0 ts vs)) = Some (bs, stale cache0 ts)
    /\ lenN bs = fst (args_size true cache0 ts vs).
Proof. exact args_cache_sync. Qed.
Print Assumptions codec_cache_sync.

(* decode (encode v ++ rest) = (canon v, rest): written = consumed and the value read back is the
   canonical one (C string / char array cut at the first NUL, null pointer -> "", embedded NULs of
   std::string kept, sets/maps re-inserted).  The hypothesis ok_ty (no StringRef below a std::tuple when the tuple
   decoder dispatches on decoded types) holds for every type in the source variant: C04_no_side_condition. *)
Theorem codec_roundtrip : forall reinsert dd t, ok_ty src_disp dd t = true -> forall v, wt t v ->
  forall off rest tl,
  exists bs, enc t v off (snd (size t v) ++ rest) = Some (bs, rest)
             /\ dec reinsert src_disp dd t off (bs ++ tl) = Some (canon reinsert t v, tl).
Proof. exact (fun reinsert => codec_roundtrip_thm reinsert src_disp). Qed.
Print Assumptions codec_roundtrip.

(* whole statement: header (32) + arguments + optional dynamic level;
   reserved = written = consumed, header / arguments / level read back *)
Theorem stmt_size_exact : forall reinsert ts vs, forallb (ok_ty src_disp false) ts = true -> wt_zip (map wt ts) vs ->
  forall h, h_ok h -> forall dyn cache0 base tl,
  exists bs,
    stmt_encode h ts vs dyn base (snd (stmt_reserved true cache0 ts vs dyn)) = Some bs
    /\ lenN bs = fst (stmt_reserved true cache0 ts vs dyn)
    /\ stmt_decode reinsert src_disp ts (is_some dyn) base (bs ++ tl)
       = Some (h, can_zip (map (canon reinsert) ts) vs, dyn, tl).
Proof. exact (fun reinsert => stmt_exact reinsert src_disp). Qed.
Print Assumptions stmt_size_exact.

(* for any libfmt [render]: the text made from the decoded arguments is the text made from the
   canonical values *)
Theorem C04_text_equal : forall (render : list byte -> list val -> list byte) reinsert ts vs,
  forallb (ok_ty src_disp false) ts = true -> wt_zip (map wt ts) vs ->
  forall f cache0 off tl,
  exists bs decoded,
    args_encode ts vs off (snd (args_size true cache0 ts vs)) = Some (bs, stale cache0 ts)
    /\ args_decode reinsert src_disp ts off (bs ++ tl) = Some (decoded, tl)
    /\ render f decoded = render f (can_zip (map (canon reinsert) ts) vs).
Proof. exact (fun render reinsert => text_equal render reinsert src_disp). Qed.
Print Assumptions C04_text_equal.

(* full-strength clause: = the text of the caller's own view of the arguments, when no unordered
   container occurs and std::set / std::map re-insert their own iteration sequence to itself *)
Theorem C04_callsite_text_equal : forall reinsert,
  (forall l, reinsert (CSeq KSet) l = l) -> (forall l, reinsert (CMap KMap) l = l) ->
  forall (render : list byte -> list val -> list byte) ts vs,
  forallb (ok_ty src_disp false) ts = true -> forallb ordered_ty ts = true -> wt_zip (map wt ts) vs ->
  forall f cache0 off tl,
  exists bs decoded,
    args_encode ts vs off (snd (args_size true cache0 ts vs)) = Some (bs, stale cache0 ts)
    /\ args_decode reinsert src_disp ts off (bs ++ tl) = Some (decoded, tl)
    /\ render f decoded = render f (can_zip (map view ts) vs).
Proof. exact (fun reinsert Hs Hm render => callsite_text_equal reinsert Hs Hm render src_disp). Qed.
Print Assumptions C04_callsite_text_equal.

(* deep copy: without StringRef among the argument types, what the backend formats does not
   depend on the caller's memory at that time *)
Theorem C04_deep_copy : forall reinsert, (forall c l x, In x (reinsert c l) -> In x l) ->
  forall ts vs, forallb noref ts = true -> wt_zip (map wt ts) vs ->
  forall cache0 off tl,
  exists bs decoded,
    args_encode ts vs off (snd (args_size true cache0 ts vs)) = Some (bs, stale cache0 ts)
    /\ args_decode reinsert src_disp ts off (bs ++ tl) = Some (decoded, tl)
    /\ forall mem, map (resolve mem) decoded = can_zip (map (canon reinsert) ts) vs.
Proof. exact (fun reinsert Hi => deep_copy reinsert Hi src_disp). Qed.
Print Assumptions C04_deep_copy.

(* deferred non-trivially-copyable types are constructed at an aligned address inside their
   worst-case reservation *)
Theorem codec_aligned_placement : forall off a, 0 < a -> apad off a < a /\ (off + apad off a) mod a = 0.
Proof. exact (fun off a H => conj (apad_lt off a H) (apad_aligned off a H)). Qed.
Print Assumptions codec_aligned_placement.

Theorem sanitize_spec : forall s,
  sanitize s = flat_map (fun c => if printable c then [c] else esc c) s /\
  (forallb printable s = true -> sanitize s = s).
Proof. exact sanitize_spec_thm. Qed.
Print Assumptions sanitize_spec.

Theorem sanitize_printable_out : forall s, forallb printable (sanitize s) = true.
Proof. exact sanitize_output_printable. Qed.
Print Assumptions sanitize_printable_out.

Theorem iv_no_alloc_le_inline : forall ops, peak 0 ops <= IV_INLINE ->
  Forall (fun a => a = false) (snd (iv_run iv_init ops)) /\ iv_cap (fst (iv_run iv_init ops)) = IV_INLINE.
Proof. exact iv_no_alloc_le_inline_thm. Qed.
Print Assumptions iv_no_alloc_le_inline.

Theorem iv_alloc_at_13 :
  (forall x s, iv_size s = iv_cap s -> snd (iv_push x s) = true /\ iv_cap (fst (iv_push x s)) = 2 * iv_cap s) /\
  snd (iv_run iv_init (repeat (IPush 7) 13)) = repeat false 12 ++ [true] /\
  iv_cap (fst (iv_run iv_init (repeat (IPush 7) 13))) = 24.
Proof. exact (conj iv_alloc_when_full iv_alloc_at_13_thm). Qed.
Print Assumptions iv_alloc_at_13.

Theorem iv_clear_keeps_capacity :
  (forall s, iv_cap (iv_clear s) = iv_cap s /\ iv_size (iv_clear s) = 0) /\
  (forall ops s, iv_cap s <= iv_cap (fst (iv_run s ops))).
Proof. exact (conj iv_clear_keeps_capacity_thm iv_cap_monotone). Qed.
Print Assumptions iv_clear_keeps_capacity.

(* in the variant the source tree has (T-src: src_disp = false) the side condition on the types is void: every
   type of the universe, std::tuple<StringRef, ...> included, is decoded by the codec that encoded it *)
Theorem C04_no_side_condition : forall ts, forallb (ok_ty src_disp false) ts = true.
Proof. rewrite src_tuple_decodes_with_element_codecs. exact ok_tys_element_codecs. Qed.
Print Assumptions C04_no_side_condition.

(* hence, for the source tree: every argument list over the type universe, no premise on the types *)
Theorem C04_text_equal_code : forall (render : list byte -> list val -> list byte) reinsert ts vs,
  wt_zip (map wt ts) vs ->
  forall f cache0 off tl,
  exists bs decoded,
    args_encode ts vs off (snd (args_size true cache0 ts vs)) = Some (bs, stale cache0 ts)
    /\ args_decode reinsert src_disp ts off (bs ++ tl) = Some (decoded, tl)
    /\ render f decoded = render f (can_zip (map (canon reinsert) ts) vs).
Proof. exact (fun render reinsert ts vs => C04_text_equal render reinsert ts vs (C04_no_side_condition ts)). Qed.
Print Assumptions C04_text_equal_code.

Theorem stmt_size_exact_code : forall reinsert ts vs, wt_zip (map wt ts) vs ->
  forall h, h_ok h -> forall dyn cache0 base tl,
  exists bs,
    stmt_encode h ts vs dyn base (snd (stmt_reserved true cache0 ts vs dyn)) = Some bs
    /\ lenN bs = fst (stmt_reserved true cache0 ts vs dyn)
    /\ stmt_decode reinsert src_disp ts (is_some dyn) base (bs ++ tl)
       = Some (h, can_zip (map (canon reinsert) ts) vs, dyn, tl).
Proof. exact (fun reinsert ts vs => stmt_size_exact reinsert ts vs (C04_no_side_condition ts)). Qed.
Print Assumptions stmt_size_exact_code.

(* ------------------------------------------------------------------ refutations *)
(* std::tuple<StringRef, ...> in the pinned variant (disp = true, finding C04-F3, fixed): the decoder fails on the
   bytes the encoder wrote; the variant dispatching on the element types reads the value back *)
Theorem codec_roundtrip_refuted_tuple_stringref :
  wt rf_t rf_v /\ ok_ty true false rf_t = false /\
  exists bs, enc rf_t rf_v 0 [] = Some (bs, []) /\ lenN bs = fst (size rf_t rf_v) /\
             dec id_reinsert true false rf_t 0 bs = None /\
             dec id_reinsert false false rf_t 0 bs = Some (rf_v, []).
Proof. exact roundtrip_refuted_tuple_stringref. Qed.
Print Assumptions codec_roundtrip_refuted_tuple_stringref.

Theorem codec_roundtrip_refuted_tuple_stringref_replay :
  wt rf_t rf_v2 /\
  exists bs rest, enc rf_t rf_v2 0 [] = Some (bs, []) /\ lenN bs = 20 /\
                  dec id_reinsert true false rf_t 0 bs = Some (VL [VB []; VB [0; 32; 0; 0]], rest) /\ lenN rest = 12.
Proof. exact roundtrip_refuted_tuple_stringref_replay. Qed.
Print Assumptions codec_roundtrip_refuted_tuple_stringref_replay.

(* the clearing rule is needed *)
Theorem codec_cache_sync_refuted_noclear :
  let ts := [CStr] in let vs := [VB [97; 98; 99]] in let stale0 := [2] in
  wt_zip (map wt ts) vs /\
  fst (args_size false stale0 ts vs) = 4 /\
  args_encode ts vs 0 (snd (args_size false stale0 ts vs)) = Some ([97; 0], [4]) /\
  args_decode id_reinsert true ts 0 [97; 0] = Some ([VB [97]], []).
Proof. exact cache_sync_refuted_noclear. Qed.
Print Assumptions codec_cache_sync_refuted_noclear.

(* unordered containers: the full-strength text clause fails with the library's re-insertion order *)
Theorem C04_text_equal_refuted_unordered :
  let ts := [Seq KUSet (Arith 1)] in let vs := [VL [VB [3]; VB [2]; VB [1]]] in
  wt_zip (map wt ts) vs /\ forallb (ok_ty true false) ts = true /\ forallb ordered_ty ts = false /\
  exists bs decoded,
    args_encode ts vs 0 (snd (args_size true [] ts vs)) = Some (bs, []) /\
    args_decode rev_reinsert true ts 0 bs = Some (decoded, []) /\
    flat_render [] decoded = [1; 2; 3] /\ flat_render [] (can_zip (map view ts) vs) = [3; 2; 1].
Proof. exact text_equal_refuted_unordered. Qed.
Print Assumptions C04_text_equal_refuted_unordered.

(* StringRef is the documented opt-out *)
Theorem C04_deep_copy_refuted_stringref :
  let ts := [StringRef] in let vs := [VRef 4096 1] in
  wt_zip (map wt ts) vs /\ forallb noref ts = false /\
  exists bs decoded,
    args_encode ts vs 0 (snd (args_size true [] ts vs)) = Some (bs, []) /\
    args_decode id_reinsert true ts 0 bs = Some (decoded, []) /\
    map (resolve (fun _ _ => [65])) decoded <> map (resolve (fun _ _ => [66])) decoded.
Proof. exact deep_copy_refuted_stringref. Qed.
Print Assumptions C04_deep_copy_refuted_stringref.

(* non-vacuity: a ten-argument statement with nested containers satisfies every hypothesis above *)
Example C04_nonvacuous :
  wt_zip (map wt ex_ts) ex_vs /\ forallb (ok_ty true false) ex_ts = true /\ forallb noref ex_ts = true /\
  forallb ordered_ty ex_ts = true /\ (forall c l x, In x (id_reinsert c l) -> In x l) /\
  (forall l, id_reinsert (CSeq KSet) l = l) /\ (forall l, id_reinsert (CMap KMap) l = l) /\
  h_ok {| h_ts := 5; h_meta := 6; h_logger := 7; h_decoder := 8 |}.
Proof.
  split; [exact ex_wt|]. destruct ex_ok as (A & B & C). repeat split; auto; reflexivity.
Qed.
