(* C08 — dropping queue: a statement is delivered intact or reported dropped, never both.
   Only property theorems and their assumptions. (Delivered-intact-in-order is C03_conservation, which
   holds for dropping queues too: it quantifies over every configuration.) *)
From Coq Require Import List NArith Bool.
From Quill Require Import Queue.BQDefs Backend.BEDefs Backend.BEExec Backend.BEInv Backend.BECount TieC08.
Import ListNotations.
Local Open Scope N_scope.
From Quill Require TieMBE.
From Quill Require TieBE ExpectedBE TieC11.

(* T-src: the BackendWorker methods this property's part of M-BE re-states are, statement by statement, the ones the model
   was written against and compared with (ExpectedBE.v; the whole loop is tied in Properties_C03.C03_tie_backend_loop) *)
(* T-src: LoggerImpl::log_statement - which refused calls count as a drop (ordinary Log events only), the drop / retry
   branches and their order - is the function FClock / FReg / FTry of M-BE re-state *)
Theorem C08_tie_log_statement : QuillGen.SrcFacts.sk_logger_log_statement = Quill.TieC11.expected_log_statement.
Proof. exact Quill.TieC11.src_log_statement_skeleton. Qed.
Print Assumptions C08_tie_log_statement.

(* T-src: the two abstractions M-BE makes - a thread's queue is an atomic FIFO (C01 / C02), registration and cache refresh
   are atomic steps (registration protocol of C03) - hold for the memory orders, statement orders and shapes found in the
   source (TieMBE.v spells the facts out) *)
Theorem C08_tie_MBE_abstractions : Quill.TieMBE.MBE_abstractions_hold.
Proof. exact Quill.TieMBE.mbe_abstractions. Qed.
Print Assumptions C08_tie_MBE_abstractions.

Theorem C08_tie_backend_methods :
  QuillGen.SrcFacts.sk_be_cleanup_invalidated_thread_contexts = Quill.ExpectedBE.sk_be_cleanup_invalidated_thread_contexts /\
  QuillGen.SrcFacts.sk_be_poll = Quill.ExpectedBE.sk_be_poll.
Proof. exact (conj TieBE.src_be_cleanup_invalidated_thread_contexts TieBE.src_be_poll). Qed.
Print Assumptions C08_tie_backend_methods.

(* T-src: the source reports pending failure counters right before it removes an exited thread's context *)
Theorem C08_tie_report_before_removal : QuillGen.SrcFacts.be_report_before_ctx_removal = true.
Proof. exact src_be_report_before_ctx_removal. Qed.
Print Assumptions C08_tie_report_before_removal.

(* every op list, every configuration: refused reservations of ordinary statements (dropping queue:
   discarded statements; blocking queue: blocking occurrences) = counts passed to the notifier
   + counts lost with destroyed contexts + counts still pending in the per-thread counters;
   and with the report-before-removal order of the source nothing is ever lost *)
Theorem C08_count : forall K s0 ops, init_like s0 ->
  let s := run K s0 ops in
  g_denied (gh s) = g_reported (gh s) + g_lost (gh s) + sumf (th s) (registered s) /\
  (c_report_first K = true -> g_lost (gh s) = 0).
Proof. exact be_count. Qed.
Print Assumptions C08_count.

(* the log call returns false exactly when the statement is discarded: one reservation attempt of an
   ordinary statement on a dropping queue either commits it (issued grows, nothing counted) or discards
   it (not issued, queue untouched, counted once) - and the call is over in both cases *)
Theorem C08_return_iff : forall K s t e, c_dropping K = true -> pend (th s t) = Some e -> ekind e = KLog ->
  memb t (registered s) = true ->
  let s' := fstep K s (FTry t) in
  pend (th s' t) = None /\
  ((issued s' t = issued s t ++ [eid e] /\ gh s' = gh s /\ failc (th s' t) = failc (th s t)) \/
   (issued s' t = issued s t /\ qev (th s' t) = qev (th s t) /\
    g_denied (gh s') = g_denied (gh s) + (if counted (th s t) then 0 else 1) /\
    failc (th s' t) = failc (th s t) + (if counted (th s t) then 0 else 1))).
Proof. exact ftry_dropping. Qed.
Print Assumptions C08_return_iff.

(* control requests (flush, backtrace init/flush) are never discarded nor counted: a refused one stays
   pending until it is committed *)
Theorem C08_control_kept : forall K s t e, pend (th s t) = Some e -> ekind e <> KLog -> memb t (registered s) = true ->
  let s' := fstep K s (FTry t) in
  gh s' = gh s /\ failc (th s' t) = failc (th s t) /\
  (pend (th s' t) = None -> issued s' t = issued s t ++ [eid e]) /\
  (pend (th s' t) <> None -> issued s' t = issued s t).
Proof. exact ftry_control. Qed.
Print Assumptions C08_control_kept.

(* D15 (fixed): without report-before-removal a drop count is lost when the dropping thread exits and
   another thread's flush is processed before the next idle poll *)
Definition K_d15 (rf : bool) : cfg :=
  {| c_cap := 256; c_batch := 12; c_pub := {| on_batch := true; on_drain := true |}; c_dropping := true;
     c_tinit := 4; c_soft := 4; c_hard := 8; c_grace := 0; c_bits := 32; c_refresh2 := true; c_catch_all := true;
     c_report_first := rf; c_bt := {| BT.BTModel.reset_index_in_process := true; BT.BTModel.cap0_guard := true |}; c_bt_catch := true; c_flush_iv := 0; c_follow := true |}.
Definition d15_cmds : list cmd :=
  map (fun i => CLog 0 (mk_ev i 0 4 51 0) false) [1; 2; 3; 4; 5; 6; 7] ++
  [CTick 1; CFlush 1 (mk_flush 8 0 40); CExit 0] ++ repeat (CPoll []) 8.
Definition d15_state (rf : bool) : st :=
  fst (exec_all (K_d15 rf) (st0 1000 1 1 (fun _ => mk_lgr 0 [0%nat]) (fun _ => mk_snk 0 [])) d15_cmds).

Theorem C08_lost_refuted_without_report_before_removal :
  g_denied (gh (d15_state false)) = 2 /\ g_reported (gh (d15_state false)) = 0 /\ g_lost (gh (d15_state false)) = 2 /\
  g_denied (gh (d15_state true)) = 2 /\ g_reported (gh (d15_state true)) = 2 /\ g_lost (gh (d15_state true)) = 0.
Proof. vm_compute. repeat split; reflexivity. Qed.
Print Assumptions C08_lost_refuted_without_report_before_removal.

(* ---------------------------------------------------------------------------------------------
   The count clause below the granularity of M-BE: the failure counter protocol of one ThreadContext
   at micro-step granularity (Backend/FailCounter.v). M-BE increments failc in one frontend step and
   reads-and-resets it in one backend step; these theorems are what justifies that: with the
   increment one atomic read-modify-write and the reset one atomic exchange (what tools/srcfacts.py
   reads from ThreadContextManager.h on every run) every interleaving of the micro-steps is exact and
   is a run of the atomic machine. *)
From Quill Require Import Backend.FailCounter Backend.FailCounterProofs.

(* T-src: increment_failure_counter is one atomic read-modify-write (+1) of the std::atomic counter *)
Theorem C08_failc_tie_inc_atomic : QuillGen.SrcFacts.tcm_failc_inc_atomic = true.
Proof. exact src_tcm_failc_inc_atomic. Qed.
Print Assumptions C08_failc_tie_inc_atomic.

(* T-src: get_and_reset_failure_counter is one atomic exchange(0), after a load == 0 early return or not *)
Theorem C08_failc_tie_reset_atomic : QuillGen.SrcFacts.tcm_failc_reset_atomic = true.
Proof. exact src_tcm_failc_reset_atomic. Qed.
Print Assumptions C08_failc_tie_reset_atomic.

(* every schedule of micro-steps (every list: steps out of program order are not enabled), guard or no
   guard: reported + pending = discarded in every reachable state, the values returned by get_and_reset
   (what _check_failure_counter passes to the notifier) add up to reported, and one more whole
   get_and_reset call drains the counter: the returned values then add up exactly to the discarded statements *)
Theorem C08_failc_exact : forall g ops,
  let fl := {| inc_atomic := true; reset_guarded := g; reset_atomic := true |} in
  let s := fc_run fl fc0 ops in
  rep s + ctr s = disc s /\ nsum (rets s) = rep s /\
  (let d := fc_run fl s (get_and_reset_call fl) in ctr d = 0 /\ disc d = disc s /\ nsum (rets d) = disc s).
Proof. exact fc_exact. Qed.
Print Assumptions C08_failc_exact.

(* the same for the flags read from the source (the statement is about the code as it is now) *)
Theorem C08_failc_exact_src : forall ops,
  let s := fc_run fc_src_flags fc0 ops in
  rep s + ctr s = disc s /\ nsum (rets s) = rep s /\
  (let d := fc_run fc_src_flags s (get_and_reset_call fc_src_flags) in
   ctr d = 0 /\ disc d = disc s /\ nsum (rets d) = disc s).
Proof. exact fc_exact_src. Qed.
Print Assumptions C08_failc_exact_src.

(* the micro-step protocol of the source refines the atomic machine (one step per call): this is the
   granularity at which M-BE (BEDefs.fstep / report_failures, theorem C08_count) treats the counter *)
Theorem C08_failc_refines_atomic : forall ops, exists aops, a_run afc0 aops = abs (fc_run fc_src_flags fc0 ops).
Proof. exact fc_refines_atomic_src. Qed.
Print Assumptions C08_failc_refines_atomic.

(* any number of thread contexts, one schedule over all of them: exact per context and in total *)
Theorem C08_failc_any_contexts : forall g ops l,
  let M := mfc_run {| inc_atomic := true; reset_guarded := g; reset_atomic := true |} (fun _ => fc0) ops in
  (forall t, rep (M t) + ctr (M t) = disc (M t) /\ nsum (rets (M t)) = rep (M t)) /\
  tsum rep M l + tsum ctr M l = tsum disc M l.
Proof. exact mfc_exact. Qed.
Print Assumptions C08_failc_any_contexts.

(* increment written as load ; store(+1): the exchange falls between the two, the reset is overwritten,
   the same discarded statement is reported twice (reported > discarded) *)
Theorem C08_failc_split_increment_refuted :
  let s := fc_run fl_split_inc fc0 [FLoad; FStore; FLoad; BGuard; BExchange; FStore] in
  let d := fc_run fl_split_inc s (get_and_reset_call fl_split_inc) in
  disc s = 2 /\ rep s = 1 /\ ctr s = 2 /\ disc s < rep s + ctr s /\
  ctr d = 0 /\ disc d = 2 /\ rets d = [1; 2] /\ disc d < nsum (rets d).
Proof. exact fc_split_inc_refuted. Qed.
Print Assumptions C08_failc_split_increment_refuted.

(* reset written as load ; store(0): an increment between the two is overwritten and never reported *)
Theorem C08_failc_split_reset_refuted :
  let s := fc_run fl_split_reset fc0 [FInc; BGuard; BLoad; FInc; BStore] in
  let d := fc_run fl_split_reset s (get_and_reset_call fl_split_reset) in
  disc s = 2 /\ rep s = 1 /\ ctr s = 0 /\ rep s + ctr s < disc s /\
  ctr d = 0 /\ disc d = 2 /\ rets d = [1; 0] /\ nsum (rets d) < disc d.
Proof. exact fc_split_reset_refuted. Qed.
Print Assumptions C08_failc_split_reset_refuted.

(* non-vacuity: drops while the backend is between its guard and its exchange, all reported once *)
Example C08_failc_nonvacuous :
  let s := fc_run fl_src fc0 [FInc; BGuard; FInc; BExchange; FInc; BGuard; BGuard; BExchange; BGuard] in
  disc s = 3 /\ rets s = [2; 1; 0] /\ ctr s = 0 /\ rep s = 3.
Proof. exact fc_nonvacuous. Qed.
