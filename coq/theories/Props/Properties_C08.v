(* C08 — dropping queue: a statement is delivered intact or reported dropped, never both.
   Only property theorems and their assumptions. (Delivered-intact-in-order is C03_conservation, which
   holds for dropping queues too: it quantifies over every configuration.) *)
From Coq Require Import List NArith Bool.
From Quill Require Import Queue.BQDefs Backend.BEDefs Backend.BEExec Backend.BEInv Backend.BECount TieC08.
Import ListNotations.
Local Open Scope N_scope.

(* T-src: the source reports pending failure counters right before it removes an exited thread's context *)
Theorem C08_tie_report_before_removal : QuillGen.SrcFacts.be_report_before_ctx_removal = true.
Proof. exact src_be_report_before_ctx_removal. Qed.
Print Assumptions C08_tie_report_before_removal.

(* every op list, every configuration: refused reservations of ordinary statements (dropping queue:
   discarded statements; blocking queue: blocking occurrences) = counts passed to the notifier
   + counts lost with destroyed contexts + counts still pending in the per-thread counters;
   and with the report-before-removal order of the source nothing is ever lost *)
Theorem C08_count : forall K s0 ops, init_like s0 ->
  let s := run K s0 ops in
  g_denied (gh s) = g_reported (gh s) + g_lost (gh s) + sumf (th s) (registered s) /\
  (c_report_first K = true -> g_lost (gh s) = 0).
Proof. exact be_count. Qed.
Print Assumptions C08_count.

(* the log call returns false exactly when the statement is discarded: one reservation attempt of an
   ordinary statement on a dropping queue either commits it (issued grows, nothing counted) or discards
   it (not issued, queue untouched, counted once) - and the call is over in both cases *)
Theorem C08_return_iff : forall K s t e, c_dropping K = true -> pend (th s t) = Some e -> ekind e = KLog ->
  memb t (registered s) = true ->
  let s' := fstep K s (FTry t) in
  pend (th s' t) = None /\
  ((issued s' t = issued s t ++ [eid e] /\ gh s' = gh s /\ failc (th s' t) = failc (th s t)) \/
   (issued s' t = issued s t /\ qev (th s' t) = qev (th s t) /\
    g_denied (gh s') = g_denied (gh s) + (if counted (th s t) then 0 else 1) /\
    failc (th s' t) = failc (th s t) + (if counted (th s t) then 0 else 1))).
Proof. exact ftry_dropping. Qed.
Print Assumptions C08_return_iff.

(* control requests (flush, backtrace init/flush) are never discarded nor counted: a refused one stays
   pending until it is committed *)
Theorem C08_control_kept : forall K s t e, pend (th s t) = Some e -> ekind e <> KLog -> memb t (registered s) = true ->
  let s' := fstep K s (FTry t) in
  gh s' = gh s /\ failc (th s' t) = failc (th s t) /\
  (pend (th s' t) = None -> issued s' t = issued s t ++ [eid e]) /\
  (pend (th s' t) <> None -> issued s' t = issued s t).
Proof. exact ftry_control. Qed.
Print Assumptions C08_control_kept.

(* D15 (fixed): without report-before-removal a drop count is lost when the dropping thread exits and
   another thread's flush is processed before the next idle poll *)
Definition K_d15 (rf : bool) : cfg :=
  {| c_cap := 256; c_batch := 12; c_pub := {| on_batch := true; on_drain := true |}; c_dropping := true;
     c_tinit := 4; c_soft := 4; c_hard := 8; c_grace := 0; c_bits := 32; c_refresh2 := true; c_catch_all := true;
     c_report_first := rf; c_bt := {| BT.BTModel.reset_index_in_process := true; BT.BTModel.cap0_guard := true |}; c_bt_catch := true; c_flush_iv := 0 |}.
Definition d15_cmds : list cmd :=
  map (fun i => CLog 0 (mk_ev i 0 4 51 0) false) [1; 2; 3; 4; 5; 6; 7] ++
  [CTick 1; CFlush 1 (mk_flush 8 0 40); CExit 0] ++ repeat (CPoll []) 8.
Definition d15_state (rf : bool) : st :=
  fst (exec_all (K_d15 rf) (st0 1000 1 1 (fun _ => mk_lgr 0 [0%nat]) (fun _ => mk_snk 0 [])) d15_cmds).

Theorem C08_lost_refuted_without_report_before_removal :
  g_denied (gh (d15_state false)) = 2 /\ g_reported (gh (d15_state false)) = 0 /\ g_lost (gh (d15_state false)) = 2 /\
  g_denied (gh (d15_state true)) = 2 /\ g_reported (gh (d15_state true)) = 2 /\ g_lost (gh (d15_state true)) = 0.
Proof. vm_compute. repeat split; reflexivity. Qed.
Print Assumptions C08_lost_refuted_without_report_before_removal.
