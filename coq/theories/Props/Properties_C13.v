(* C13 — rendered time = strftime of the instant + exact fractional digits.
   This file holds only the property theorems (each closed by [exact]) and their assumptions.
   Model: Time/TimeModel.v (StringFromTime + TimestampFormatter, libc as an oracle).
   Spec and hypotheses (H1 H2 H2s H3 zone_gmt zone_ok wf_items): Time/TimeSpec.v.
   The model flag [strict] selects the code variant: true = the repaired constructor (init() scans
   for conversions that embed the time of day but are not patched in the cached string, the
   constructor rejects a repeated specifier), false = the pinned earlier behaviour.  The variant that
   stands for /repo is TieC13.src_strict (T-src, last theorem of this file). *)
From Coq Require Import List NArith ZArith.
From Quill Require Import Time.TimeModel Time.TimeSpec Time.TimeStrings Time.TimeStrict Time.TimeInit Time.TimeDigits
  Time.TimeProofs Time.TimeTF Time.TimeRefute Time.TimeMain.
Import ListNotations.

(* GMT mode. For every libc oracle satisfying H1-H3 (offset 0), every pattern
   items1 [%Qms|%Qus|%Qns] items2 over literals and handled / coarse / rewritten conversions (no %%
   directly before a literal starting with H M S I k l s r R T X Q; %s only under H2s and for
   ten-digit epochs) and EVERY sequence of non-negative instants - increasing, repeated or going
   backwards - the constructor accepts the pattern and each rendering equals strftime of the two
   segments at that instant with the specifier replaced by the exact zero-padded fraction.
   Both code variants. *)
Theorem C13_gmt : forall strf sodf off zid,
  H1 strf -> H2 strf sodf off -> H3 strf off zid -> zone_gmt off zid ->
  forall strict items1 k items2 nss, wf_items items1 -> wf_items items2 -> instants_ok items1 items2 strf nss ->
  renders_like_strftime strict false strf sodf items1 k items2 nss.
Proof. exact c13_gmt. Qed.
Print Assumptions C13_gmt.

(* Local-time mode: the same for every zone whose local time type (offset, is-dst, abbreviation)
   only changes at epoch-aligned quarter hours and whose offsets are multiples of 900 s. *)
Theorem C13_local : forall strf sodf off zid,
  H1 strf -> H2 strf sodf off -> H3 strf off zid -> zone_ok off zid ->
  forall strict items1 k items2 nss, wf_items items1 -> wf_items items2 -> instants_ok items1 items2 strf nss ->
  renders_like_strftime strict true strf sodf items1 k items2 nss.
Proof. exact c13_local. Qed.
Print Assumptions C13_local.

(* The fraction: the bytes _write_fractional_seconds leaves behind the first part are exactly
   [frac_width k] decimal digits whose value is (ns mod 10^9) / 10^6, / 10^3 or / 1. *)
Theorem C13_frac : forall buf k ns, (0 <= ns)%Z ->
  write_frac buf (frac_width k)
    (Z.to_N ((ns - ns / 1000000000 * 1000000000) mod 4294967296) / frac_unit k) = buf ++ frac_digits k ns /\
  length (frac_digits k ns) = frac_width k /\
  digits_value (frac_digits k ns) = (Z.to_N (ns mod 1000000000) / frac_unit k)%N /\
  Forall (fun d => 48 <= d <= 57)%N (frac_digits k ns).
Proof. exact c13_frac. Qed.
Print Assumptions C13_frac.

(* Two specifiers of different kinds anywhere in the pattern, or a %X conversion, make the
   constructor throw (both variants); the repaired constructor also throws when a specifier occurs
   twice, whatever stands around and between the two occurrences. *)
Theorem C13_rejects :
  (forall strict items k1 k2, k1 <> k2 -> In (Frac k1) items -> In (Frac k2) items ->
     tf_init strict (flat items) = inr ErrExclusive) /\
  (forall strict items1 k items2,
     Forall wf_itemX items1 -> Forall wf_itemX items2 ->
     adj_ok sp_special items1 = true -> adj_ok sp_special items2 = true ->
     In (Conv [88%N]) (match k with Some _ => items1 ++ items2 | None => items1 end) ->
     tf_init strict (pattern_of items1 k items2) = inr ErrX) /\
  (forall a k b c, tf_init true (flat (a ++ Frac k :: b ++ Frac k :: c)) = inr ErrExclusive).
Proof. exact c13_rejects. Qed.
Print Assumptions C13_rejects.

(* The repaired constructor rejects the conversions that embed the time of day and that the cache
   cannot patch.  (1) In the classified universe: a pattern over well-formed items, %X and the fine
   conversions %c %Ec %EX %OH %OM %OS %OI that contains a fine one throws.  (2) At the level of
   StringFromTime::init, for ANY tokens (literals without '%', conversions '%' flags/width/E/O final
   byte, specifiers): a conversion whose final byte is c, or one of H M S I k l s r R T X behind a
   non-empty run of the bytes - _ 0 ^ # 1..9 E O, throws.  (3) The scan computes exactly "some
   conversion is such a one" on every token list.  (4) Whatever the bytes of the pattern: when the
   constructor accepts, each segment handed to StringFromTime holds no "%X", passes the scan, and
   the specifier does not occur again behind its first occurrence. *)
Theorem C13_rejects_unpatchable :
  (forall items1 k items2 b,
     Forall wf_itemF items1 -> Forall wf_itemF items2 ->
     adj_ok sp_special items1 = true -> adj_ok sp_special items2 = true ->
     classify b = Some Fine ->
     In (Conv b) (match k with Some _ => items1 ++ items2 | None => items1 end) ->
     tf_init true (pattern_of items1 k items2) = inr ErrX) /\
  (forall items p c,
     Forall tok_item items -> Forall (fun x => memN x skip_chars = true) p ->
     (c = 99%N \/ (p <> [] /\ memN c time_chars = true)) ->
     In (Conv (p ++ [c])) items -> sft_init true (flat items) = None) /\
  (forall items, Forall tok_item items -> unpatchable (flat items) = existsb fine_item items) /\
  (forall f x, tf_init true f = inl x ->
     (tspec x = None /\ clean_segment f) \/
     (exists k f1 f2, tspec x = Some k /\ f = f1 ++ spec_name k ++ f2 /\
        clean_segment f1 /\ clean_segment f2 /\ find_sub (spec_name k) f2 = None)).
Proof. exact c13_rejects_unpatchable. Qed.
Print Assumptions C13_rejects_unpatchable.

(* D8 (fixed by the repair), kept as documentation of the PINNED behaviour: %c %Ec %EX %OH %OM %OS %OI.
   strict = true: init throws.  strict = false: they are cached like date fields; whatever libc is,
   if such a conversion renders differently at two instants of one recalculation window, the second
   rendering is stale. *)
Theorem C13_fine_pinned :
  Forall (fun b => classify b = Some Fine) fine_bodies /\
  (forall b, In b fine_bodies -> sft_init true (37%N :: b) = None) /\
  forall strf sodf local b t1 t2, In b fine_bodies ->
    (0 <= t1 <= t2)%Z -> (t2 < next_recalc local t1)%Z ->
    strf (37%N :: b) t1 <> strf (37%N :: b) t2 -> stale_second strf sodf local b t1 t2.
Proof. exact c13_fine_pinned. Qed.
Print Assumptions C13_fine_pinned.

(* N3 (fixed by the repair), pinned behaviour: one of the glibc flags - _ 0 ^ # before one of
   H M S I k l s r R T c (55 forms).  strict = true: init throws (the general rule is clause (2) of
   C13_rejects_unpatchable).  strict = false: one cached part, stale like D8. *)
Theorem C13_flagged_pinned :
  (forall b, In b flagged_bodies -> sft_init true (37%N :: b) = None) /\
  forall strf sodf local b t1 t2, In b flagged_bodies ->
    (0 <= t1 <= t2)%Z -> (t2 < next_recalc local t1)%Z ->
    strf (37%N :: b) t1 <> strf (37%N :: b) t2 -> stale_second strf sodf local b t1 t2.
Proof. exact c13_flagged_pinned. Qed.
Print Assumptions C13_flagged_pinned.

(* D9: a zone whose offset changes at t = 960 (60 s off the quarter-hour grid): H2 holds, zone_ok
   does not, and "%H" at 900 then 960 shows "00" "00" where strftime gives "01" for the second. *)
Theorem C13_offgrid_refuted :
  H2 d9_strf d9_sodf d9_off /\ ~ zone_ok d9_off (fun _ => 0%Z) /\
  forall strict, exists st, sft_init strict m_H = Some st /\
    sft_run d9_strf d9_sodf true st [900; 960]%Z = [[48;48]; [48;48]]%N /\
    d9_strf m_H 960 = [48;49]%N.
Proof. exact offgrid_refuted. Qed.
Print Assumptions C13_offgrid_refuted.

(* N1 (fixed by the repair), pinned behaviour: the same specifier twice.  strict = true: the
   constructor throws (the general rule is clause (3) of C13_rejects).  strict = false: accepted;
   the second one reaches strftime as text. *)
Theorem C13_same_spec_pinned :
  (forall k, tf_init true (spec_name k ++ spec_name k) = inr ErrExclusive) /\
  exists x b, tf_init false (spec_name Qms ++ spec_name Qms) = inl x /\ tp2 x = Some b /\ tfmt b = spec_name Qms.
Proof. exact c13_same_spec_pinned. Qed.
Print Assumptions C13_same_spec_pinned.

(* N2: a literal %% directly before T (likewise r R), X or Q.. is not treated as an escape (both
   variants: the repair leaves the %% handling as it is). *)
Theorem C13_pct_refuted : forall strict,
  (exists st, sft_init strict [37;37;84]%N = Some st /\ parts st = [[37]; m_H; [58]; m_M; [58]; m_S]%N) /\
  tf_init strict [37;37;88]%N = inr ErrX /\
  (exists x, tf_init strict (37%N :: spec_name Qms) = inl x /\ tspec x = Some Qms /\ tfmt (tp1 x) = [37%N]).
Proof. exact pct_refuted. Qed.
Print Assumptions C13_pct_refuted.

(* Non-vacuity: one concrete oracle satisfies all hypotheses of C13_gmt (resp. C13_local with a
   constant +05:45 offset) together with a concrete pattern and instants; and the theorem then
   computes the rendering. *)
Example C13_gmt_nonvacuous :
  H1 (mini 0) /\ H2 (mini 0) (msod 0) (fun _ => 0%Z) /\ H3 (mini 0) (fun _ => 0%Z) (fun _ => 0%Z) /\
  zone_gmt (fun _ => 0%Z) (fun _ => 0%Z) /\ H2s (mini 0) /\ wf_items ex_items1 /\ wf_items ex_items2 /\
  instants_ok ex_items1 ex_items2 (mini 0) [1000000000123456789; 1000000001000000000; 999999999000000001]%Z.
Proof. exact c13_gmt_nonvacuous. Qed.
Example C13_local_nonvacuous :
  H1 (mini 20700) /\ H2 (mini 20700) (msod 20700) (fun _ => 20700%Z) /\
  H3 (mini 20700) (fun _ => 20700%Z) (fun _ => 0%Z) /\
  zone_ok (fun _ => 20700%Z) (fun _ => 0%Z) /\ wf_items ex_items1 /\ wf_items ex_items2.
Proof. exact c13_local_nonvacuous. Qed.
Example C13_gmt_example : forall strict,
  exists x, tf_init strict (pattern_of ex_items1 (Some Qms) ex_items2) = inl x /\
    nth 0 (tf_run (mini 0) (msod 0) false x [1000000000123456789; 1000000001000000000; 999999999000000001]%Z) []
    = [63;45;63;45;63;32;48;49;58;52;54;58;52;48;46;49;50;51;32;63]%N.
Proof. exact c13_gmt_example. Qed.

(* T-src: the variant that stands for /repo.  TieC13 proves, from the skeletons and facts
   tools/srcfacts.py regenerates from the source tree on every run, that init() contains the scan
   (with the model's character sets) and the constructor the repeated-specifier test, i.e.
   src_strict = true; so the rejection rules above are statements about the code variant of /repo.
   (On a tree without the repair TieC13 does not compile and this theorem is not discharged.) *)
From Quill Require TieC13.
Theorem C13_code_variant_rejects :
  TieC13.src_strict = true /\
  (forall a k b c, tf_init TieC13.src_strict (flat (a ++ Frac k :: b ++ Frac k :: c)) = inr ErrExclusive) /\
  (forall items p c,
     Forall tok_item items -> Forall (fun x => memN x skip_chars = true) p ->
     (c = 99%N \/ (p <> [] /\ memN c time_chars = true)) ->
     In (Conv (p ++ [c])) items -> sft_init TieC13.src_strict (flat items) = None) /\
  (forall b, In b fine_bodies \/ In b flagged_bodies -> sft_init TieC13.src_strict (37%N :: b) = None).
Proof. exact TieC13.c13_code_variant_rejects. Qed.
Print Assumptions C13_code_variant_rejects.
