From Quill Require Import Time.TimeModel.
