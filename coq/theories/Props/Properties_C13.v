(* C13 — rendered time = strftime of the instant + exact fractional digits.
   This file holds only the property theorems (each closed by [exact]) and their assumptions.
   Model: Time/TimeModel.v (StringFromTime + TimestampFormatter, libc as an oracle).
   Spec and hypotheses (H1 H2 H2s H3 zone_gmt zone_ok wf_items): Time/TimeSpec.v. *)
From Coq Require Import List NArith ZArith.
From Quill Require Import Time.TimeModel Time.TimeSpec Time.TimeStrings Time.TimeInit Time.TimeDigits
  Time.TimeProofs Time.TimeTF Time.TimeRefute Time.TimeMain.
Import ListNotations.

(* GMT mode. For every libc oracle satisfying H1-H3 (offset 0), every pattern
   items1 [%Qms|%Qus|%Qns] items2 over literals and handled / coarse / rewritten conversions (no %%
   directly before a literal starting with H M S I k l s r R T X Q; %s only under H2s and for
   ten-digit epochs) and EVERY sequence of non-negative instants - increasing, repeated or going
   backwards - the constructor accepts the pattern and each rendering equals strftime of the two
   segments at that instant with the specifier replaced by the exact zero-padded fraction. *)
Theorem C13_gmt : forall strf sodf off zid,
  H1 strf -> H2 strf sodf off -> H3 strf off zid -> zone_gmt off zid ->
  forall items1 k items2 nss, wf_items items1 -> wf_items items2 -> instants_ok items1 items2 strf nss ->
  renders_like_strftime false strf sodf items1 k items2 nss.
Proof. exact c13_gmt. Qed.
Print Assumptions C13_gmt.

(* Local-time mode: the same for every zone whose local time type (offset, is-dst, abbreviation)
   only changes at epoch-aligned quarter hours and whose offsets are multiples of 900 s. *)
Theorem C13_local : forall strf sodf off zid,
  H1 strf -> H2 strf sodf off -> H3 strf off zid -> zone_ok off zid ->
  forall items1 k items2 nss, wf_items items1 -> wf_items items2 -> instants_ok items1 items2 strf nss ->
  renders_like_strftime true strf sodf items1 k items2 nss.
Proof. exact c13_local. Qed.
Print Assumptions C13_local.

(* The fraction: the bytes _write_fractional_seconds leaves behind the first part are exactly
   [frac_width k] decimal digits whose value is (ns mod 10^9) / 10^6, / 10^3 or / 1. *)
Theorem C13_frac : forall buf k ns, (0 <= ns)%Z ->
  write_frac buf (frac_width k)
    (Z.to_N ((ns - ns / 1000000000 * 1000000000) mod 4294967296) / frac_unit k) = buf ++ frac_digits k ns /\
  length (frac_digits k ns) = frac_width k /\
  digits_value (frac_digits k ns) = (Z.to_N (ns mod 1000000000) / frac_unit k)%N /\
  Forall (fun d => 48 <= d <= 57)%N (frac_digits k ns).
Proof. exact c13_frac. Qed.
Print Assumptions C13_frac.

(* Two specifiers of different kinds anywhere in the pattern, or a %X conversion, make the
   constructor throw. *)
Theorem C13_rejects :
  (forall items k1 k2, k1 <> k2 -> In (Frac k1) items -> In (Frac k2) items ->
     tf_init (flat items) = inr ErrExclusive) /\
  (forall items1 k items2,
     Forall wf_itemX items1 -> Forall wf_itemX items2 ->
     adj_ok sp_special items1 = true -> adj_ok sp_special items2 = true ->
     In (Conv [88%N]) (match k with Some _ => items1 ++ items2 | None => items1 end) ->
     tf_init (pattern_of items1 k items2) = inr ErrX).
Proof. exact c13_rejects. Qed.
Print Assumptions C13_rejects.

(* D8: %c %Ec %EX %OH %OM %OS %OI are cached like date fields. Whatever libc is, if such a
   conversion renders differently at two instants of one recalculation window, the second
   rendering is stale. *)
Theorem C13_fine_refuted :
  Forall (fun b => classify b = Some Fine) fine_bodies /\
  forall strf sodf local b t1 t2, In b fine_bodies ->
    (0 <= t1 <= t2)%Z -> (t2 < next_recalc local t1)%Z ->
    strf (37%N :: b) t1 <> strf (37%N :: b) t2 ->
    exists st, sft_init (37%N :: b) = Some st /\
               nth 1 (sft_run strf sodf local st [t1; t2]) [] <> strf (37%N :: b) t2.
Proof. exact c13_fine_refuted. Qed.
Print Assumptions C13_fine_refuted.

(* D9: a zone whose offset changes at t = 960 (60 s off the quarter-hour grid): H2 holds, zone_ok
   does not, and "%H" at 900 then 960 shows "00" "00" where strftime gives "01" for the second. *)
Theorem C13_offgrid_refuted :
  H2 d9_strf d9_sodf d9_off /\ ~ zone_ok d9_off (fun _ => 0%Z) /\
  exists st, sft_init m_H = Some st /\
    sft_run d9_strf d9_sodf true st [900; 960]%Z = [[48;48]; [48;48]]%N /\
    d9_strf m_H 960 = [48;49]%N.
Proof. exact offgrid_refuted. Qed.
Print Assumptions C13_offgrid_refuted.

(* N1: the same specifier twice is accepted; the second one reaches strftime as text. *)
Theorem C13_same_spec_refuted :
  exists x b, tf_init (spec_name Qms ++ spec_name Qms) = inl x /\ tp2 x = Some b /\ tfmt b = spec_name Qms.
Proof. exact same_spec_refuted. Qed.
Print Assumptions C13_same_spec_refuted.

(* N2: a literal %% directly before T (likewise r R), X or Q.. is not treated as an escape. *)
Theorem C13_pct_refuted :
  (exists st, sft_init [37;37;84]%N = Some st /\ parts st = [[37]; m_H; [58]; m_M; [58]; m_S]%N) /\
  tf_init [37;37;88]%N = inr ErrX /\
  (exists x, tf_init (37%N :: spec_name Qms) = inl x /\ tspec x = Some Qms /\ tfmt (tp1 x) = [37%N]).
Proof. exact pct_refuted. Qed.
Print Assumptions C13_pct_refuted.

(* Non-vacuity: one concrete oracle satisfies all hypotheses of C13_gmt (resp. C13_local with a
   constant +05:45 offset) together with a concrete pattern and instants; and the theorem then
   computes the rendering. *)
Example C13_gmt_nonvacuous :
  H1 (mini 0) /\ H2 (mini 0) (msod 0) (fun _ => 0%Z) /\ H3 (mini 0) (fun _ => 0%Z) (fun _ => 0%Z) /\
  zone_gmt (fun _ => 0%Z) (fun _ => 0%Z) /\ H2s (mini 0) /\ wf_items ex_items1 /\ wf_items ex_items2 /\
  instants_ok ex_items1 ex_items2 (mini 0) [1000000000123456789; 1000000001000000000; 999999999000000001]%Z.
Proof. exact c13_gmt_nonvacuous. Qed.
Example C13_local_nonvacuous :
  H1 (mini 20700) /\ H2 (mini 20700) (msod 20700) (fun _ => 20700%Z) /\
  H3 (mini 20700) (fun _ => 20700%Z) (fun _ => 0%Z) /\
  zone_ok (fun _ => 20700%Z) (fun _ => 0%Z) /\ wf_items ex_items1 /\ wf_items ex_items2.
Proof. exact c13_local_nonvacuous. Qed.
Example C13_gmt_example :
  exists x, tf_init (pattern_of ex_items1 (Some Qms) ex_items2) = inl x /\
    nth 0 (tf_run (mini 0) (msod 0) false x [1000000000123456789; 1000000001000000000; 999999999000000001]%Z) []
    = [63;45;63;45;63;32;48;49;58;52;54;58;52;48;46;49;50;51;32;63]%N.
Proof. exact c13_gmt_example. Qed.
