(* C03 — every accepted statement reaches each sink of its logger once, in thread order.
   Only property theorems and their assumptions. *)
From Coq Require Import List NArith Bool.
From Quill Require Import Queue.BQDefs Backend.BEDefs Backend.BEInv Backend.BEDispatch.
From Quill Require TieCtx TieBE ExpectedBE Tie TieC02.
From Quill Require Queue.UQDefs.
Import ListNotations.
Local Open Scope N_scope.

(* T-src: an exited thread's context is removed only when its queue and its transit event buffer are both empty *)
(* T-src: the backend loop M-BE models - _poll, the populate / read / decode passes, the processing of the lowest
   timestamp, the two emptiness questions, the context cache refresh and clean-up, the sink flush - is, statement by
   statement, the code the model was written against and compared with (ExpectedBE.v) *)
Theorem C03_tie_backend_loop :
  QuillGen.SrcFacts.sk_be_poll = Quill.ExpectedBE.sk_be_poll /\
  QuillGen.SrcFacts.sk_be_populate_transit_events_from_frontend_queues = Quill.ExpectedBE.sk_be_populate_transit_events_from_frontend_queues /\
  QuillGen.SrcFacts.sk_be_read_unbounded_frontend_queue = Quill.ExpectedBE.sk_be_read_unbounded_frontend_queue /\
  QuillGen.SrcFacts.sk_be_populate_transit_event_from_frontend_queue = Quill.ExpectedBE.sk_be_populate_transit_event_from_frontend_queue /\
  QuillGen.SrcFacts.sk_be_populate_formatted_log_message = Quill.ExpectedBE.sk_be_populate_formatted_log_message /\
  QuillGen.SrcFacts.sk_be_process_lowest_timestamp_transit_event = Quill.ExpectedBE.sk_be_process_lowest_timestamp_transit_event /\
  QuillGen.SrcFacts.sk_be_process_transit_event = Quill.ExpectedBE.sk_be_process_transit_event /\
  QuillGen.SrcFacts.sk_behas_pending_events_for_caching_when_transit_event_buffer_empty = Quill.ExpectedBE.sk_behas_pending_events_for_caching_when_transit_event_buffer_empty /\
  QuillGen.SrcFacts.sk_be_check_frontend_queues_and_cached_transit_events_empty = Quill.ExpectedBE.sk_be_check_frontend_queues_and_cached_transit_events_empty /\
  QuillGen.SrcFacts.sk_be_update_active_thread_contexts_cache = Quill.ExpectedBE.sk_be_update_active_thread_contexts_cache /\
  QuillGen.SrcFacts.sk_be_cleanup_invalidated_thread_contexts = Quill.ExpectedBE.sk_be_cleanup_invalidated_thread_contexts /\
  QuillGen.SrcFacts.sk_be_flush_and_run_active_sinks = Quill.ExpectedBE.sk_be_flush_and_run_active_sinks.
Proof.
  exact (conj TieBE.src_be_poll (conj TieBE.src_be_populate_transit_events_from_frontend_queues (conj TieBE.src_be_read_unbounded_frontend_queue
        (conj TieBE.src_be_populate_transit_event_from_frontend_queue (conj TieBE.src_be_populate_formatted_log_message
        (conj TieBE.src_be_process_lowest_timestamp_transit_event (conj TieBE.src_be_process_transit_event
        (conj TieBE.src_behas_pending_events_for_caching_when_transit_event_buffer_empty
        (conj TieBE.src_be_check_frontend_queues_and_cached_transit_events_empty (conj TieBE.src_be_update_active_thread_contexts_cache
        (conj TieBE.src_be_cleanup_invalidated_thread_contexts TieBE.src_be_flush_and_run_active_sinks))))))))))).
Qed.
Print Assumptions C03_tie_backend_loop.

(* T-src: M-BE treats a thread's queue as an atomic FIFO of records (micro-step granularity). That abstraction is what
   C01 / C02 prove of the real queues under release/acquire, for the memory orders, the method skeletons and the
   statement orders (re-check of the old node before it is left, commit before delete, publish before switch) read
   from the source on every run: *)
Theorem C03_tie_queue_abstraction :
  Quill.Queue.BQDefs.sufficient Quill.Tie.src_orders = true /\
  Quill.Queue.UQDefs.usufficient Quill.TieC02.src_ucfg = true /\
  (QuillGen.SrcFacts.uq_publish_before_switch = true /\ QuillGen.SrcFacts.uq_commit_write_before_publish = true /\
   QuillGen.SrcFacts.uq_delete_before_switch = true /\ QuillGen.SrcFacts.uq_recheck_present = true /\
   QuillGen.SrcFacts.uq_commit_before_delete = true /\ QuillGen.SrcFacts.uq_next_load_after_empty = true).
Proof. exact (conj Quill.Tie.src_orders_sufficient (conj Quill.TieC02.src_ucfg_sufficient Quill.TieC02.uq_order_facts_ok)). Qed.
Print Assumptions C03_tie_queue_abstraction.

Theorem C03_tie_ctx_removal_guard : QuillGen.SrcFacts.be_ctx_removal_requires_empty_buffer = true.
Proof. exact TieCtx.src_be_ctx_removal_requires_empty_buffer. Qed.
Print Assumptions C03_tie_ctx_removal_guard.

(* Conservation, for every configuration (capacity, limits, grace, queue kind, with or without the
   fixes), every number of threads and every interleaving of frontend and backend micro-steps:
   what a thread committed = what the backend processed from it ++ what sits in its transit buffer ++
   what sits in its queue. Nothing is lost, duplicated or reordered by queue reads, buffer growth,
   the soft/hard limit exits of the read loop, or the removal of an exited thread's context (the
   model destroys the context's content on removal, so a premature removal would break this). *)
Theorem C03_conservation : forall K s0 ops,
  (forall t, fresh_thr (th s0 t) /\ issued s0 t = [] /\ delivered s0 t = []) -> pos_ops ops ->
  let s := run K s0 ops in
  forall t, issued s t = delivered s t ++ map eid (tbuf (th s t)) ++ map eid (qev (th s t)).
Proof. exact be_conservation. Qed.
Print Assumptions C03_conservation.

(* the premise covers bounded frontends and unbounded frontends with any initial node (fresh_thr): *)
Example C03_fresh_thread_contexts :
  fresh_thr thr0 /\ fresh_thr (set_thr_uqs thr0 (Some (Queue.UQDefs.uq_init 256))).
Proof. split; [exists None|eexists]; reflexivity. Qed.

(* the sink loop: the observations appended by dispatching one statement are exactly one write per
   sink in [written], in the logger's sink order *)
Theorem C03_sink_loop : forall e ks s, NoDup ks ->
  obs (fst (dispatch s e ks)) = obs s ++ flat_map (fun k => [O_WRITE; N.of_nat k; wid e; elvl e; snamed e]) (written s e ks) /\
  snd (dispatch s e ks) = some_throws s e ks.
Proof. exact dispatch_spec. Qed.
Print Assumptions C03_sink_loop.

(* ... and a sink is in [written] iff it passes its own level filter and neither it nor an earlier
   passing sink throws (with no throwing sink: iff it passes its own filter) *)
Theorem C03_sink_gets_line_iff : forall s e ks k, NoDup ks -> In k ks ->
  (In k (written s e ks) <->
   passes_sink s e k = true /\ throws_now s k = false /\
   forall pre post, ks = pre ++ k :: post -> some_throws s e pre = false).
Proof. exact written_iff. Qed.
Print Assumptions C03_sink_gets_line_iff.

(* ---------------------------------------------------------------------------------------------
   "... including threads logging for the first time": the thread-context registration / cache-refresh
   protocol below the granularity of M-BE (Backend/RegProto.v).  M-BE registers a context in ONE
   frontend step (FReg: append to the registry + raise the flag) and refreshes the backend's cache in
   ONE backend step (refresh: if the flag is up, clear it and copy the registry).  In the code a
   registration is lock ; push_back ; unlock, then a store to the flag, and a refresh is a load of the
   flag, a separate store(false), then the rebuild under the lock.  These theorems are what justifies
   the atomic steps: with append-before-flag and consume-before-rebuild (what tools/srcfacts.py reads
   from ThreadContextManager.h / BackendWorker.h on every run) no interleaving of the micro-steps loses
   a context, and every micro-step run is a run of the atomic machine, call by call. *)
From Quill Require Import Backend.RegProto Backend.RegProtoProofs.
From Quill Require TieC03.

(* T-src: register_thread_context appends under the lock, then raises the flag *)
Theorem C03_reg_tie_append_before_flag : QuillGen.SrcFacts.tcm_register_append_before_flag = true.
Proof. exact TieC03.src_tcm_register_append_before_flag. Qed.
Print Assumptions C03_reg_tie_append_before_flag.

(* T-src: _update_active_thread_contexts_cache consumes the flag, then rebuilds the cache *)
Theorem C03_reg_tie_consume_before_rebuild : QuillGen.SrcFacts.be_cache_rebuild_after_flag_consume = true.
Proof. exact TieC03.src_be_cache_rebuild_after_flag_consume. Qed.
Print Assumptions C03_reg_tie_consume_before_rebuild.

(* T-src: new_thread_context_flag() is an exchange(false), a load followed by store(false), or a
   compare_exchange_strong(true -> false): the shapes the model covers *)
Theorem C03_reg_tie_consume_shape : TieC03.flag_consume_known QuillGen.SrcFacts.tcm_flag_consume_shape = true.
Proof. exact TieC03.src_tcm_flag_consume_shape_known. Qed.
Print Assumptions C03_reg_tie_consume_shape.

(* T-src: the registry is only touched inside critical sections of the spinlock, whose lock is an
   acquire and whose unlock is a release (what makes FAppend / BRebuild single steps) *)
Theorem C03_reg_tie_lock : QuillGen.SrcFacts.tcm_for_each_under_lock = true /\ QuillGen.SrcFacts.spinlock_acquire_release = true.
Proof. exact (conj TieC03.src_tcm_for_each_under_lock TieC03.src_spinlock_acquire_release). Qed.
Print Assumptions C03_reg_tie_lock.

(* every schedule of micro-steps (every list: steps out of program order are not enabled), any number
   of registering threads, the flag consumed by one exchange (ca = true) or by load ; store (ca = false):
   in every reachable state the cache is a duplicate-free prefix of the duplicate-free registry (each
   context once, in registration order, nothing that is not registered); a context whose registration
   call is over (its flag store is done) is in the registry and is cached already or a rebuild is due
   (the flag is up or the backend is between its load and its rebuild); one more whole refresh call
   caches it and it stays cached whatever happens next; and if no registration is half-way the cache
   then equals the registry *)
Theorem C03_reg_no_context_lost : forall ca ops,
  let fl := {| append_first := true; consume_atomic := ca; consume_first := true |} in
  let s := rp_run fl rp0 ops in
  NoDup (reg s) /\ NoDup (cache s) /\ (exists suf, reg s = cache s ++ suf) /\
  (forall t, In t (flagged s) ->
     In t (reg s) /\ (In t (cache s) \/ flag s = true \/ rbst s = RSaw \/ rbst s = RCleared)) /\
  (let d := rp_run fl s (refresh_call fl) in
   reg d = reg s /\
   (forall t, In t (flagged s) -> forall more, In t (cache (rp_run fl d more))) /\
   ((forall t, In t (reg s) -> In t (flagged s)) -> cache d = reg s)).
Proof. exact rp_no_lost. Qed.
Print Assumptions C03_reg_no_context_lost.

(* the same for the flags read from the source (the statement is about the code as it is now) *)
Theorem C03_reg_no_context_lost_src : forall ops,
  let fl := TieC03.rp_src_flags in
  let s := rp_run fl rp0 ops in
  NoDup (reg s) /\ NoDup (cache s) /\ (exists suf, reg s = cache s ++ suf) /\
  (forall t, In t (flagged s) ->
     In t (reg s) /\ (In t (cache s) \/ flag s = true \/ rbst s = RSaw \/ rbst s = RCleared)) /\
  (let d := rp_run fl s (refresh_call fl) in
   reg d = reg s /\
   (forall t, In t (flagged s) -> forall more, In t (cache (rp_run fl d more))) /\
   ((forall t, In t (reg s) -> In t (flagged s)) -> cache d = reg s)).
Proof. exact TieC03.rp_no_lost_src. Qed.
Print Assumptions C03_reg_no_context_lost_src.

(* the micro-step protocol of the source refines the atomic machine, call by call: the atomic trace
   (rp_trace: AReg t inside the interval of t's registration call, ARefresh at the last micro-step of
   each refresh call) reaches the abstraction of the micro state (same cache), registers exactly the
   effective registrations in registry order, each once, has one ARefresh per completed refresh call,
   and what is registered but not yet effective are exactly appended contexts whose flag store is
   still to come *)
Theorem C03_reg_refines_atomic : forall ops,
  let fl := TieC03.rp_src_flags in
  let s := rp_run fl rp0 ops in
  let tr := rp_trace fl rp0 ops in
  ra_run arp0 tr = rabs s /\
  regs_of tr = areg s /\ NoDup (regs_of tr) /\
  refreshes_of tr = calls_done fl rp0 ops /\
  (exists suf, reg s = areg s ++ suf /\ forall t, In t suf -> ~ In t (flagged s)) /\
  (exists suf, areg s = cache s ++ suf).
Proof. exact TieC03.rp_refines_atomic_src. Qed.
Print Assumptions C03_reg_refines_atomic.

(* ... and that atomic machine is the registration / refresh part of M-BE: on (registered, newflag,
   cache), FReg of a live thread is AReg and refresh is ARefresh *)
Theorem C03_reg_atomic_is_MBE : forall K s,
  (forall t, tvalid (th s t) = true -> be_proj (fstep K s (FReg t)) = ra_step (be_proj s) (AReg t)) /\
  be_proj (refresh K s) = ra_step (be_proj s) ARefresh.
Proof. exact (fun K s => conj (be_freg_is_areg K s) (be_refresh_is_arefresh K s)). Qed.
Print Assumptions C03_reg_atomic_is_MBE.

(* flag before append (register_thread_context raising the flag before it takes the lock): the backend
   consumes the flag and rebuilds between the two steps; the registration completes, the flag is down,
   and no number of later refresh calls ever caches the context: its queue is never read *)
Theorem C03_reg_flag_before_append_refuted : forall ca,
  let fl := {| append_first := false; consume_atomic := ca; consume_first := true |} in
  let s := rp_run fl rp0 ([FFlag 0] ++ refresh_call fl ++ [FAppend 0]) in
  reg s = [0]%nat /\ flagged s = [0]%nat /\ cache s = [] /\ flag s = false /\ rbst s = RIdle /\
  forall n, let d := rp_run fl s (refresh_calls fl n) in reg d = [0]%nat /\ cache d = [].
Proof. exact rp_flag_first_refuted. Qed.
Print Assumptions C03_reg_flag_before_append_refuted.

(* rebuild before the flag is cleared: a registration completing in between is wiped out with the flag *)
Theorem C03_reg_rebuild_before_consume_refuted : forall ca,
  let fl := {| append_first := true; consume_atomic := ca; consume_first := false |} in
  let s := rp_run fl rp0 [FAppend 0; FFlag 0; BLoad; BRebuild; FAppend 1; FFlag 1; if ca then BExchange else BStore] in
  reg s = [0; 1]%nat /\ flagged s = [1; 0]%nat /\ cache s = [0]%nat /\ flag s = false /\ rbst s = RIdle /\
  forall n, let d := rp_run fl s (refresh_calls fl n) in reg d = [0; 1]%nat /\ cache d = [0]%nat.
Proof. exact rp_rebuild_first_refuted. Qed.
Print Assumptions C03_reg_rebuild_before_consume_refuted.

(* non-vacuity: the source's protocol (load ; store) with a registration completing between the
   backend's load and its store, and one appended between the store and the rebuild and flagged later *)
Example C03_reg_nonvacuous :
  let s := rp_run rfl_src rp0 rp_nonvacuous_schedule in
  reg s = [0; 1; 2]%nat /\ cache s = [0; 1; 2]%nat /\ flag s = false /\ rbst s = RIdle /\
  cache (rp_run rfl_src rp0 (firstn 8 rp_nonvacuous_schedule)) = [0; 1; 2]%nat /\
  rp_trace rfl_src rp0 rp_nonvacuous_schedule = [AReg 0; AReg 1; AReg 2; ARefresh; ARefresh; ARefresh; ARefresh] /\
  calls_done rfl_src rp0 rp_nonvacuous_schedule = 4%nat.
Proof. exact rp_nonvacuous. Qed.

(* ---- backend buffer growth: the slot array of TransitEventBuffer (M-TEB) refines the list M-BE uses ---- *)
From Quill Require TEB.TEBModel TEB.TEBProofs TieTEB.

(* T-src: the TransitEventBuffer methods are, statement by statement, the ones M-TEB mirrors, and the variant of the
   model the source selects (growth factor 2, mask updated, copy from the reader position, shrink only when empty,
   expansion exactly when full) is the one the theorems below are about *)
Theorem C03_tie_transit_buffer : Quill.TieTEB.TEB_tie_holds.
Proof. exact Quill.TieTEB.TEB_tie. Qed.
Print Assumptions C03_tie_transit_buffer.

(* for every initial capacity and every history of the calls the backend makes on the buffer (commit an event,
   fill a slot and abandon it, pop, request / try a shrink), whatever the fill level at which the ring wraps, grows
   or shrinks: front(), size() and capacity() after every call are those of a plain list whose capacity doubles
   when it is full - the buffer M-BE (and so C03_conservation) is stated on *)
Theorem C03_transit_buffer_refines_fifo : forall (A : Type) (dflt : A) (c0 : N) (ops : list (TEB.TEBModel.top A)),
  TEB.TEBModel.teb_run A dflt TEB.TEBModel.tcfg_good (TEB.TEBModel.teb_init A dflt c0) ops =
  TEB.TEBModel.fifo_run A (TEB.TEBModel.fifo_init A c0) ops.
Proof. exact TEB.TEBProofs.teb_refines_fifo. Qed.
Print Assumptions C03_transit_buffer_refines_fifo.

(* in every reachable buffer a committed event is appended behind all queued events and an abandoned fill changes none *)
Theorem C03_transit_buffer_growth_keeps_all : forall (A : Type) (dflt : A) (c0 : N) (ops : list (TEB.TEBModel.top A)) (v : A),
  let s := TEB.TEBProofs.teb_exec A dflt (TEB.TEBModel.teb_init A dflt c0) ops in
  TEB.TEBModel.teb_abs A dflt (TEB.TEBModel.teb_step A dflt TEB.TEBModel.tcfg_good s (TEB.TEBModel.OPut v)) =
    TEB.TEBModel.teb_abs A dflt s ++ [v] /\
  TEB.TEBModel.teb_abs A dflt (TEB.TEBModel.teb_step A dflt TEB.TEBModel.tcfg_good s (TEB.TEBModel.OTouch v)) =
    TEB.TEBModel.teb_abs A dflt s.
Proof. exact TEB.TEBProofs.teb_put_keeps_all. Qed.
Print Assumptions C03_transit_buffer_growth_keeps_all.

(* capacity is a power of two, never below the initial one, never below the number of queued events *)
Theorem C03_transit_buffer_bounds : forall (A : Type) (dflt : A) (c0 : N) (ops : list (TEB.TEBModel.top A)),
  let s := TEB.TEBProofs.teb_exec A dflt (TEB.TEBModel.teb_init A dflt c0) ops in
  TEB.TEBProofs.pow2 (TEB.TEBModel.cap s) /\ TEB.TEBModel.icap s <= TEB.TEBModel.cap s /\
  TEB.TEBModel.teb_size A s <= TEB.TEBModel.cap s /\ length (TEB.TEBModel.sto s) = N.to_nat (TEB.TEBModel.cap s).
Proof. exact TEB.TEBProofs.teb_cap_bounds. Qed.
Print Assumptions C03_transit_buffer_bounds.

(* each of these details of _expand() / back() is needed: without it a history exists on which the buffer differs
   from the list (events lost, overwritten or reordered) *)
Theorem C03_transit_buffer_refuted_without_mask_update :
  exists c0 ops, TEB.TEBProofs.differs TEB.TEBProofs.K_no_mask c0 ops = true.
Proof. exact TEB.TEBProofs.teb_refuted_without_mask_update. Qed.
Print Assumptions C03_transit_buffer_refuted_without_mask_update.
Theorem C03_transit_buffer_refuted_expand_from_slot0 :
  exists c0 ops, TEB.TEBProofs.differs TEB.TEBProofs.K_move0 c0 ops = true.
Proof. exact TEB.TEBProofs.teb_refuted_expand_from_slot0. Qed.
Print Assumptions C03_transit_buffer_refuted_expand_from_slot0.
Theorem C03_transit_buffer_refuted_late_expand :
  exists c0 ops, TEB.TEBProofs.differs TEB.TEBProofs.K_late_full c0 ops = true.
Proof. exact TEB.TEBProofs.teb_refuted_late_expand. Qed.
Print Assumptions C03_transit_buffer_refuted_late_expand.

(* the link from M-BE to the list machine the slot array refines: what a read pass of M-BE does to a thread's transit
   buffer is a sequence of commits (one per record taken in) and abandoned fills (a record beyond the timestamp cut-off,
   a formatter's exception that escapes), and popping the processed event is OPop - for every fuel, limit, cut-off and
   thread record *)
From Quill Require Backend.BETeb.
Theorem C03_MBE_buffer_steps_are_list_machine_steps : forall (K : cfg) (ic : N) (sr : bool) (fuel : nat) (lim tn : N) (x : thr)
    (total : N) (notes : list N),
  exists ops, Forall Backend.BETeb.put_or_touch ops /\
    Backend.BETeb.fifo_of ic sr (fst (fst (fst (read_loop K fuel lim tn x total notes)))) =
    Backend.BETeb.fifo_exec (Backend.BETeb.fifo_of ic sr x) ops.
Proof. exact Backend.BETeb.read_loop_is_fifo_ops. Qed.
Print Assumptions C03_MBE_buffer_steps_are_list_machine_steps.

Theorem C03_MBE_pop_is_list_machine_pop : forall (ic : N) (sr : bool) (s : st) (u : nat) (e : ev),
  Backend.BETeb.fifo_of ic sr (th (pop_event s u e) u) =
  TEB.TEBModel.fifo_step ev (Backend.BETeb.fifo_of ic sr (th s u)) TEB.TEBModel.OPop.
Proof. exact Backend.BETeb.pop_event_is_OPop. Qed.
Print Assumptions C03_MBE_pop_is_list_machine_pop.

(* the refinement for the variant of M-TEB the translator reads from the source on this run *)
Theorem C03_transit_buffer_refines_fifo_src : forall (A : Type) (dflt : A) (c0 : N) (ops : list (TEB.TEBModel.top A)),
  TEB.TEBModel.teb_run A dflt Quill.TieTEB.src_tcfg (TEB.TEBModel.teb_init A dflt c0) ops =
  TEB.TEBModel.fifo_run A (TEB.TEBModel.fifo_init A c0) ops.
Proof. exact Quill.TieTEB.teb_refines_fifo_src. Qed.
Print Assumptions C03_transit_buffer_refines_fifo_src.
