(* C03 — every accepted statement reaches each sink of its logger once, in thread order.
   Only property theorems and their assumptions. *)
From Coq Require Import List NArith Bool.
From Quill Require Import Queue.BQDefs Backend.BEDefs Backend.BEInv Backend.BEDispatch.
From Quill Require TieCtx.
From Quill Require Queue.UQDefs.
Import ListNotations.
Local Open Scope N_scope.

(* T-src: an exited thread's context is removed only when its queue and its transit event buffer are both empty *)
Theorem C03_tie_ctx_removal_guard : QuillGen.SrcFacts.be_ctx_removal_requires_empty_buffer = true.
Proof. exact TieCtx.src_be_ctx_removal_requires_empty_buffer. Qed.
Print Assumptions C03_tie_ctx_removal_guard.

(* Conservation, for every configuration (capacity, limits, grace, queue kind, with or without the
   fixes), every number of threads and every interleaving of frontend and backend micro-steps:
   what a thread committed = what the backend processed from it ++ what sits in its transit buffer ++
   what sits in its queue. Nothing is lost, duplicated or reordered by queue reads, buffer growth,
   the soft/hard limit exits of the read loop, or the removal of an exited thread's context (the
   model destroys the context's content on removal, so a premature removal would break this). *)
Theorem C03_conservation : forall K s0 ops,
  (forall t, fresh_thr (th s0 t) /\ issued s0 t = [] /\ delivered s0 t = []) -> pos_ops ops ->
  let s := run K s0 ops in
  forall t, issued s t = delivered s t ++ map eid (tbuf (th s t)) ++ map eid (qev (th s t)).
Proof. exact be_conservation. Qed.
Print Assumptions C03_conservation.

(* the premise covers bounded frontends and unbounded frontends with any initial node (fresh_thr): *)
Example C03_fresh_thread_contexts :
  fresh_thr thr0 /\ fresh_thr (set_thr_uqs thr0 (Some (Queue.UQDefs.uq_init 256))).
Proof. split; [exists None|eexists]; reflexivity. Qed.

(* the sink loop: the observations appended by dispatching one statement are exactly one write per
   sink in [written], in the logger's sink order *)
Theorem C03_sink_loop : forall e ks s, NoDup ks ->
  obs (fst (dispatch s e ks)) = obs s ++ flat_map (fun k => [O_WRITE; N.of_nat k; wid e; elvl e; snamed e]) (written s e ks) /\
  snd (dispatch s e ks) = some_throws s e ks.
Proof. exact dispatch_spec. Qed.
Print Assumptions C03_sink_loop.

(* ... and a sink is in [written] iff it passes its own level filter and neither it nor an earlier
   passing sink throws (with no throwing sink: iff it passes its own filter) *)
Theorem C03_sink_gets_line_iff : forall s e ks k, NoDup ks -> In k ks ->
  (In k (written s e ks) <->
   passes_sink s e k = true /\ throws_now s k = false /\
   forall pre post, ks = pre ++ k :: post -> some_throws s e pre = false).
Proof. exact written_iff. Qed.
Print Assumptions C03_sink_gets_line_iff.
