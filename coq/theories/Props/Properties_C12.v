(* C12 — sink line = pattern with every attribute substituted for the statement, plus newline.
   This file holds only the property theorems (each closed by [exact]) and their assumptions.

   Vocabulary (Format/PatModel.v, Format/PatProofs.v):
     pat = list (Lit text | Attr a spec);  print p = the concrete "%(name:spec)" syntax;
     generate = PatternFormatter::_generate_fmt_format_string (constructor);  gen_of p = the
     expected rewriting (fmt string, slot table, is-set bits);  format_env / format =
     PatternFormatter::format;  apply_spec fs v = what fmtquill renders for ONE field "{fs}" with
     argument v: an ORACLE, universally quantified in every theorem (never re-implemented);
     line_spec p env = concat (map (subst env) p) ++ "\n", subst env (Attr a sp) =
     apply_spec (fspec sp) (env a).
     wf p := attributes pairwise distinct /\ literals without '{' '}' "%(" /\ specs without
     ')' '{' '}' "%(" /\ normal form (the text between two attributes is one Lit item).
     wfg p := the same with ANY braces in the literal text (still no "%(").
     v : pvar = the variant of the code the model stands for (PatModel.v):
       pv_bits v = width of MacroMetadata::_colon_separator_pos / _file_name_pos (16 = the pinned
                   uint16_t, >= 64 = size_t);   pv_esc v = _generate_fmt_format_string doubles the
                   braces of the literal text before the attributes are rewritten.
       pv_pinned = (16, false), pv_repaired = (64, true);  TieC12.src_variant = the variant read
       from the T-src facts of the checked tree;  wfv v p = if pv_esc v then wfg p else wf p.
     Statements with "forall v" hold for every variant; the refutations name the variant. *)
From Coq Require Import List NArith Bool.
From Quill Require Import Format.PatFmt Format.PatModel Format.PatProofs TieC12.
Import ListNotations.

(* ---- T-src: the variant of the checked tree (size_t positions, literal braces doubled); the
   methods are the ones the model was written against ---- *)
Theorem C12_tie_mm_positions_size_t : QuillGen.SrcFacts.mm_pos_bits = 64%N.
Proof. exact src_mm_pos_bits. Qed.
Print Assumptions C12_tie_mm_positions_size_t.

Theorem C12_tie_literal_braces_escaped : QuillGen.SrcFacts.pf_escapes_literal_braces = true.
Proof. exact src_pf_escapes_literal_braces. Qed.
Print Assumptions C12_tie_literal_braces_escaped.

Theorem C12_tie_variant : src_variant = pv_repaired.
Proof. exact src_variant_repaired. Qed.
Print Assumptions C12_tie_variant.

Theorem C12_tie_skeletons :
  QuillGen.SrcFacts.sk_c12_mm_calc_file_name_pos = exp_c12_mm_calc_file_name_pos /\
  QuillGen.SrcFacts.sk_c12_mm_calc_colon_separator_pos = exp_c12_mm_calc_colon_separator_pos /\
  QuillGen.SrcFacts.sk_c12_mm_line = exp_c12_mm_line /\
  QuillGen.SrcFacts.sk_c12_mm_full_path = exp_c12_mm_full_path /\
  QuillGen.SrcFacts.sk_c12_mm_file_name = exp_c12_mm_file_name /\
  QuillGen.SrcFacts.sk_c12_mm_short_source_location = exp_c12_mm_short_source_location /\
  QuillGen.SrcFacts.sk_c12_pf_generate_fmt_format_string = exp_c12_pf_generate_fmt_format_string.
Proof. exact c12_skeletons_ok. Qed.
Print Assumptions C12_tie_skeletons.

(* ---- creation: the rewriting of a printed pattern (the re-scan from position 0 after each
   replacement skips the already rewritten prefix, which may contain and end in '%') ---- *)
Theorem C12_gen_print : forall v p, wf p -> generate v (print p) = GOk (gen_of p).
Proof. exact gen_print. Qed.
Print Assumptions C12_gen_print.

(* literal text with braces, on the code that doubles them: the attributes are rewritten as
   before and every brace of the literal text arrives doubled (esc_pat p) ... *)
Theorem C12_gen_print_braces : forall v p, pv_esc v = true -> wfg p ->
  generate v (print p) = GOk (gen_of (esc_pat p)).
Proof. exact gen_print_esc. Qed.
Print Assumptions C12_gen_print_braces.

(* ... because the pre-pass is exactly "double the braces of the literal items" on a printed
   pattern (it skips each %(...) up to its ')', and a literal '%' in front of an attribute) *)
Theorem C12_escape_prepass : forall p, wfg p -> esc_scan false (print p) = print (esc_pat p).
Proof. exact (fun p H => esc_scan_print_nil p (proj1 (proj2 H)) (proj2 (proj2 H))). Qed.
Print Assumptions C12_escape_prepass.

(* brace-free literal text: the pre-pass changes nothing (patterns that worked keep their fmt string) *)
Theorem C12_escape_prepass_identity : forall p, wf p -> esc_scan false (print p) = print p.
Proof.
  exact (fun p H => eq_trans (esc_scan_print_nil p (proj1 (proj2 (wf_wfg p H))) (proj2 (proj2 H)))
                             (f_equal print (esc_pat_wf p (proj1 (proj2 H))))).
Qed.
Print Assumptions C12_escape_prepass_identity.

(* the explicit fuel of the re-scan is never exhausted, for any pattern text whatsoever *)
Theorem C12_generate_total : forall v s, generate v s <> GErr GE_fuel.
Proof. exact generate_fuel_ok. Qed.
Print Assumptions C12_generate_total.

(* ---- the line: for every oracle, every attribute value, every spec ---- *)
Theorem C12_line : forall apply_spec p env, wf p -> print p <> [] ->
  format_env apply_spec (gen_of p) env = FOk (line_spec apply_spec p env).
Proof. exact format_env_line. Qed.
Print Assumptions C12_line.

(* literal text with any braces, formatter of the code that doubles them: the braces are rendered
   as written *)
Theorem C12_line_braces : forall apply_spec p env, wfg p -> print p <> [] ->
  format_env apply_spec (gen_of (esc_pat p)) env = FOk (line_spec apply_spec p env).
Proof. exact format_env_line_esc. Qed.
Print Assumptions C12_line_braces.

(* creation and formatting together, on statements (env_of st = the sixteen values of st) *)
Theorem C12_line_created : forall v apply_spec p, wf p -> print p <> [] ->
  exists g, generate v (print p) = GOk g /\
            forall st, format v apply_spec g st = FOk (line_spec apply_spec p (env_of v st)).
Proof. exact line_created. Qed.
Print Assumptions C12_line_created.

(* ... for the valid patterns of each variant (wfv: with the braces doubled, any literal text) *)
Theorem C12_line_created_variant : forall v apply_spec p, wfv v p -> print p <> [] ->
  exists g, generate v (print p) = GOk g /\
            forall st, format v apply_spec g st = FOk (line_spec apply_spec p (env_of v st)).
Proof. exact line_created_v. Qed.
Print Assumptions C12_line_created_variant.

(* ... and for the variant the source selects: arbitrary literal text (no "%(") *)
Theorem C12_line_created_code_variant : forall apply_spec p, wfg p -> print p <> [] ->
  exists g, generate src_variant (print p) = GOk g /\
            forall st, format src_variant apply_spec g st
                       = FOk (line_spec apply_spec p (env_of src_variant st)).
Proof. exact line_created_code. Qed.
Print Assumptions C12_line_created_code_variant.

(* item lists that are not in normal form: adjacent literals are merged first *)
Theorem C12_line_normalized : forall apply_spec p, wf (normalize p) -> print p <> [] ->
  forall v, exists g, generate v (print p) = GOk g /\
            forall env, format_env apply_spec g env = FOk (line_spec apply_spec p env).
Proof. exact line_created_normalized. Qed.
Print Assumptions C12_line_normalized.

(* which value stands for which attribute *)
Theorem C12_env_fields : forall v st,
  env_of v st Time = s_time st /\ env_of v st LogLevel = s_level st /\
  env_of v st LogLevelShortCode = s_short st /\ env_of v st Logger = s_logger st /\
  env_of v st ThreadId = s_thread_id st /\ env_of v st ThreadName = s_thread_name st /\
  env_of v st ProcessId = s_process_id st /\ env_of v st CallerFunction = s_func st /\
  env_of v st Message = s_msg st /\
  env_of v st Tags = match s_tags st with Some t => t | None => [] end /\
  env_of v st NamedArgs = match s_nargs st with Some l => join_nargs l | None => [] end /\
  env_of v st SourceLocation = s_srcloc st /\
  env_of v st FullPath = mm_full_path v (s_srcloc st) /\ env_of v st LineNumber = mm_line v (s_srcloc st) /\
  env_of v st FileName = mm_file_name v (s_srcloc st) /\
  env_of v st ShortSourceLocation = mm_short_source_location v (s_srcloc st).
Proof. exact env_of_fields. Qed.
Print Assumptions C12_env_fields.

Theorem C12_named_args_join : forall l,
  join_nargs l = join_str [44; 32]%N (map (fun kv => fst kv ++ [58; 32]%N ++ snd kv) l).
Proof. exact join_nargs_spec. Qed.
Print Assumptions C12_named_args_join.

(* ---- the slot table ---- *)
Theorem C12_slot_injective : forall p, NoDup (attrs p) ->
  (forall a b, In a (attrs p) -> In b (attrs p) ->
               slot_of (gen_of p) a = slot_of (gen_of p) b -> a = b) /\
  (forall a, In a (attrs p) -> slot_of (gen_of p) a < length (attrs p) /\
                                nth_error (attrs p) (slot_of (gen_of p) a) = Some a) /\
  (forall a, ~ In a (attrs p) -> slot_of (gen_of p) a = ATTR_NR_ITEMS - 1 /\
                                  length (attrs p) <= ATTR_NR_ITEMS - 1).
Proof. exact slot_injective. Qed.
Print Assumptions C12_slot_injective.

(* ---- rejection when the formatter is created ---- *)
(* (for every variant; the well-formed prefix may hold braces in its literal text) *)
Theorem C12_gen_rejects_unterminated : forall v p rest, wfg p -> ~ In c_rp rest ->
  generate v (print p ++ [c_pct; c_lp] ++ rest) = GErr GE_unterminated.
Proof. exact gen_rejects_unterminated. Qed.
Print Assumptions C12_gen_rejects_unterminated.

Theorem C12_gen_rejects_unknown : forall v p name sp post, wfg p ->
  ~ In c_rp name -> ~ In c_colon name -> attr_of_name name = None -> ~ In c_rp (fspec sp) ->
  generate v (print p ++ [c_pct; c_lp] ++ name ++ fspec sp ++ [c_rp] ++ post) = GErr (GE_unknown name).
Proof. exact gen_rejects_unknown. Qed.
Print Assumptions C12_gen_rejects_unknown.

(* ---- multi-line messages ---- *)
(* option on, no named args: one complete line per message line (segments between newlines
   without a final empty segment; an empty message is one statement) *)
Theorem C12_multiline_on : forall v apply_spec p st, wf p -> print p <> [] ->
  nargs_empty (s_nargs st) = true ->
  sink_lines v apply_spec true (gen_of p) st =
  Some (map (fun m => FOk (line_spec apply_spec p (env_of v (with_msg st m))))
            (match s_msg st with [] => [[]] | _ => drop_last_empty (split_on c_nl (s_msg st)) end)).
Proof. exact sink_lines_on. Qed.
Print Assumptions C12_multiline_on.

Theorem C12_multiline_on_braces : forall v apply_spec p st, wfg p -> print p <> [] ->
  nargs_empty (s_nargs st) = true ->
  sink_lines v apply_spec true (gen_of (esc_pat p)) st =
  Some (map (fun m => FOk (line_spec apply_spec p (env_of v (with_msg st m))))
            (match s_msg st with [] => [[]] | _ => drop_last_empty (split_on c_nl (s_msg st)) end)).
Proof. exact sink_lines_on_esc. Qed.
Print Assumptions C12_multiline_on_braces.

(* option off (or named args present): a single statement, at most one trailing newline removed *)
Theorem C12_multiline_off : forall v apply_spec add_meta p st, wf p -> print p <> [] ->
  add_meta && nargs_empty (s_nargs st) = false ->
  sink_lines v apply_spec add_meta (gen_of p) st =
  Some [FOk (line_spec apply_spec p (env_of v (with_msg st (strip_one_nl (s_msg st)))))].
Proof. exact sink_lines_off. Qed.
Print Assumptions C12_multiline_off.

Theorem C12_multiline_off_braces : forall v apply_spec add_meta p st, wfg p -> print p <> [] ->
  add_meta && nargs_empty (s_nargs st) = false ->
  sink_lines v apply_spec add_meta (gen_of (esc_pat p)) st =
  Some [FOk (line_spec apply_spec p (env_of v (with_msg st (strip_one_nl (s_msg st)))))].
Proof. exact sink_lines_off_esc. Qed.
Print Assumptions C12_multiline_off_braces.

Theorem C12_strip_one_newline : forall msg,
  (exists m, msg = m ++ [c_nl] /\ strip_one_nl msg = m) \/
  (strip_one_nl msg = msg /\ forall m, msg <> m ++ [c_nl]).
Proof. exact strip_one_nl_spec. Qed.
Print Assumptions C12_strip_one_newline.

(* split_on is the split: no separator inside a segment, joining gives the message back *)
Theorem C12_split_lines_spec : forall msg,
  Forall (fun l => ~ In c_nl l) (split_on c_nl msg) /\ join_with c_nl (split_on c_nl msg) = msg.
Proof. exact (fun msg => conj (split_on_segments c_nl msg) (split_on_join c_nl msg)). Qed.
Print Assumptions C12_split_lines_spec.

(* ---- MacroMetadata derived fields; runtime-metadata split ---- *)
(* size_t position members (pv_bits >= 64, the repaired code): every source location, of any
   length *)
Theorem C12_mm_fields : forall v dir fname line,
  (64 <= pv_bits v)%N ->
  (dir = [] \/ exists d, dir = d ++ [c_slash]) ->
  ~ In c_slash fname -> ~ In c_slash line -> ~ In c_colon line ->
  let sl := dir ++ fname ++ [c_colon] ++ line in
  mm_source_location sl = (dir ++ fname) ++ [c_colon] ++ line /\
  mm_full_path v sl = dir ++ fname /\
  mm_line v sl = line /\
  mm_file_name v sl = fname /\
  mm_short_source_location v sl = fname ++ [c_colon] ++ line /\
  mm_in_bounds v sl = true.
Proof. exact mm_fields_wide. Qed.
Print Assumptions C12_mm_fields.

(* ... for the variant the source selects *)
Theorem C12_mm_fields_code_variant : forall dir fname line,
  (dir = [] \/ exists d, dir = d ++ [c_slash]) ->
  ~ In c_slash fname -> ~ In c_slash line -> ~ In c_colon line ->
  let sl := dir ++ fname ++ [c_colon] ++ line in
  mm_source_location sl = (dir ++ fname) ++ [c_colon] ++ line /\
  mm_full_path src_variant sl = dir ++ fname /\
  mm_line src_variant sl = line /\
  mm_file_name src_variant sl = fname /\
  mm_short_source_location src_variant sl = fname ++ [c_colon] ++ line /\
  mm_in_bounds src_variant sl = true.
Proof. exact mm_fields_code. Qed.
Print Assumptions C12_mm_fields_code_variant.

(* members of any narrower width (16: the pinned uint16_t; 32: uint32_t): the source locations
   shorter than 2^width.  fits v n := 64 <= pv_bits v \/ n < 2 ^ pv_bits v *)
Theorem C12_mm_fields_any_width : forall v dir fname line,
  (dir = [] \/ exists d, dir = d ++ [c_slash]) ->
  ~ In c_slash fname -> ~ In c_slash line -> ~ In c_colon line ->
  let sl := dir ++ fname ++ [c_colon] ++ line in
  fits v (N.of_nat (length sl)) ->
  mm_source_location sl = (dir ++ fname) ++ [c_colon] ++ line /\
  mm_full_path v sl = dir ++ fname /\
  mm_line v sl = line /\
  mm_file_name v sl = fname /\
  mm_short_source_location v sl = fname ++ [c_colon] ++ line /\
  mm_in_bounds v sl = true.
Proof. exact mm_fields. Qed.
Print Assumptions C12_mm_fields_any_width.

Theorem C12_rt_split : forall msg file line func,
  find_sep msg = None -> find_sep file = None -> find_sep line = None ->
  rt_split (msg ++ sep ++ file ++ sep ++ line ++ sep ++ func) = Some (msg, file, line, func).
Proof. exact rt_split_fields. Qed.
Print Assumptions C12_rt_split.

(* ---- non-vacuity: the default-like pattern
   "%(time) [%(thread_id)] %%(short_source_location:<28) LOG_():%(log_level:%<9) %(logger) %%(message)"
   satisfies the hypotheses (literals with '%', '(', ')', ':'; a spec with fill '%') ---- *)
Example C12_nonvacuous : wf ex_pat /\ print ex_pat <> [].
Proof. exact (conj ex_pat_wf ex_pat_nonempty). Qed.
Print Assumptions C12_nonvacuous.

(* ---- refutations: where the faithful model shows the unrestricted statement false ---- *)
(* the empty pattern (wf) is special-cased by format(): empty string, no final newline *)
Theorem C12_refuted_empty_pattern : forall v,
  wf [] /\ generate v (print []) = GOk (gen_of []) /\
  format_env id_spec (gen_of []) env0 = FOk [] /\
  format_env id_spec (gen_of []) env0 <> FOk (line_spec id_spec [] env0).
Proof. exact empty_pattern_refuted. Qed.
Print Assumptions C12_refuted_empty_pattern.

(* the PINNED variant (no pre-pass; finding C12-brace-literal, fixed): braces in literal text are
   fmt syntax: "{{" is rendered "{", a lone "{" makes format() throw *)
Theorem C12_refuted_brace_literal :
  generate pv_pinned (print [Lit [c_lb; c_lb]; Attr Message None]) = GOk (gen_of [Lit [c_lb; c_lb]; Attr Message None]) /\
  format_env id_spec (gen_of [Lit [c_lb; c_lb]; Attr Message None]) env0
    = FOk (c_lb :: attr_name Message ++ [c_nl]) /\
  line_spec id_spec [Lit [c_lb; c_lb]; Attr Message None] env0
    = c_lb :: c_lb :: attr_name Message ++ [c_nl] /\
  generate pv_pinned (print [Lit [c_lb]; Attr Message None]) = GOk (gen_of [Lit [c_lb]; Attr Message None]) /\
  format_env id_spec (gen_of [Lit [c_lb]; Attr Message None]) env0 = FErr FE_unmatched_rb.
Proof. exact brace_literal_refuted. Qed.
Print Assumptions C12_refuted_brace_literal.

(* the same two patterns on the repaired variant: rendered as written *)
Example C12_brace_literal_repaired :
  (exists g, generate pv_repaired (print [Lit [c_lb; c_lb]; Attr Message None]) = GOk g /\
             format_env id_spec g env0 = FOk (c_lb :: c_lb :: attr_name Message ++ [c_nl])) /\
  (exists g, generate pv_repaired (print [Lit [c_lb]; Attr Message None]) = GOk g /\
             format_env id_spec g env0 = FOk (c_lb :: attr_name Message ++ [c_nl])).
Proof. exact brace_literal_repaired. Qed.
Print Assumptions C12_brace_literal_repaired.

(* an attribute used twice (excluded by the property): accepted, then format() throws *)
Theorem C12_refuted_duplicate_attr :
  forall v, let p := [Attr Message None; Lit [32%N]; Attr Message None] in
  generate v (print p) = GOk (gen_of p) /\
  format_env id_spec (gen_of p) env0 = FErr FE_arg_not_found.
Proof. exact duplicate_attr_refuted. Qed.
Print Assumptions C12_refuted_duplicate_attr.

(* the PINNED variant (uint16_t positions; finding C12-srcloc-64k, fixed): a source location of
   >= 65536 bytes gives wrong path / line *)
Theorem C12_refuted_long_source_location :
  let sl := long_path ++ [c_colon] ++ [49%N] in
  mm_full_path pv_pinned sl = [] /\ mm_full_path pv_pinned sl <> long_path /\
  N.of_nat (length (mm_line pv_pinned sl)) = 65537%N.
Proof. exact mm_long_path_refuted. Qed.
Print Assumptions C12_refuted_long_source_location.

(* the same source location with size_t positions *)
Example C12_long_source_location_repaired : forall v, (64 <= pv_bits v)%N ->
  let sl := long_path ++ [c_colon] ++ [49%N] in
  mm_full_path v sl = long_path /\ mm_line v sl = [49%N] /\ mm_file_name v sl = long_path /\
  mm_in_bounds v sl = true.
Proof. exact mm_long_path_repaired. Qed.
Print Assumptions C12_long_source_location_repaired.

(* why wf asks for normal form: two adjacent literals can print as "%(" *)
Theorem C12_adjacent_literals_need_normal_form :
  forall v, let p := [Lit [c_pct]; Lit (c_lp :: attr_name Message ++ [c_rp])] in
  Forall wf_item p /\ NoDup (attrs p) /\
  generate v (print p) = GOk (gen_of [Attr Message None]) /\
  ~ Forall wf_item (normalize p).
Proof. exact adjacent_literals_need_normal_form. Qed.
Print Assumptions C12_adjacent_literals_need_normal_form.

(* the C++ adjacency test  find_first_of('(', pos) - pos == 1  at a '%' is the test find_attr makes *)
Theorem C12_adjacency_test : forall t,
  find_first c_lp (c_pct :: t) = Some 1 <-> exists r, t = c_lp :: r.
Proof. exact adjacency_test. Qed.
Print Assumptions C12_adjacency_test.

(* ---- more non-vacuity: the premises of the rejection, MacroMetadata and multi-line theorems
   are satisfiable, with the computed outcomes ---- *)
Example C12_rejects_nonvacuous : forall v,
  ~ In c_rp ex_name /\ ~ In c_colon ex_name /\ attr_of_name ex_name = None /\
  ~ In c_rp (fspec (Some [62; 53]%N)) /\
  generate v (print ex_pat ++ [c_pct; c_lp] ++ ex_name ++ fspec (Some [62; 53]%N) ++ [c_rp] ++ [33%N])
    = GErr (GE_unknown ex_name) /\
  generate v (print ex_pat ++ [c_pct; c_lp] ++ ex_name) = GErr GE_unterminated.
Proof. exact ex_unknown_name. Qed.
Print Assumptions C12_rejects_nonvacuous.

Example C12_mm_nonvacuous :
  (ex_dir = [] \/ exists d, ex_dir = d ++ [c_slash]) /\
  ~ In c_slash ex_fname /\ ~ In c_slash ex_line /\ ~ In c_colon ex_line /\
  fits pv_pinned (N.of_nat (length (ex_dir ++ ex_fname ++ [c_colon] ++ ex_line))) /\
  fits pv_repaired (N.of_nat (length (ex_dir ++ ex_fname ++ [c_colon] ++ ex_line))) /\
  mm_file_name pv_pinned (ex_dir ++ ex_fname ++ [c_colon] ++ ex_line) = ex_fname /\
  mm_file_name pv_repaired (ex_dir ++ ex_fname ++ [c_colon] ++ ex_line) = ex_fname.
Proof. exact ex_mm. Qed.
Print Assumptions C12_mm_nonvacuous.

(* a JSON-like pattern {"level": "%(log_level)", "msg": "%(message)"}: literal text with braces,
   valid for the variant that doubles them (wfg), outside wf *)
Example C12_braces_nonvacuous : wfg ex_json_pat /\ print ex_json_pat <> [] /\ ~ wf ex_json_pat.
Proof. exact ex_json_pat_wfg. Qed.
Print Assumptions C12_braces_nonvacuous.

Example C12_multiline_nonvacuous :
  nargs_empty None = true /\
  dispatch_msgs true None [97; 10; 10; 98; 10]%N = Some [[97%N]; []; [98%N]] /\
  dispatch_msgs false None [97; 10; 10]%N = Some [[97; 10]%N] /\
  dispatch_msgs true (Some [([107%N], [118%N])]) [97; 10; 98]%N = Some [[97; 10; 98]%N].
Proof. exact ex_multiline. Qed.
Print Assumptions C12_multiline_nonvacuous.
