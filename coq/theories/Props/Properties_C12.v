(* C12 — sink line = pattern with every attribute substituted for the statement, plus newline.
   This file holds only the property theorems (each closed by [exact]) and their assumptions.

   Vocabulary (Format/PatModel.v, Format/PatProofs.v):
     pat = list (Lit text | Attr a spec);  print p = the concrete "%(name:spec)" syntax;
     generate = PatternFormatter::_generate_fmt_format_string (constructor);  gen_of p = the
     expected rewriting (fmt string, slot table, is-set bits);  format_env / format =
     PatternFormatter::format;  apply_spec fs v = what fmtquill renders for ONE field "{fs}" with
     argument v: an ORACLE, universally quantified in every theorem (never re-implemented);
     line_spec p env = concat (map (subst env) p) ++ "\n", subst env (Attr a sp) =
     apply_spec (fspec sp) (env a).
     wf p := attributes pairwise distinct /\ literals without '{' '}' "%(" /\ specs without
     ')' '{' '}' "%(" /\ normal form (the text between two attributes is one Lit item). *)
From Coq Require Import List NArith Bool.
From Quill Require Import Format.PatFmt Format.PatModel Format.PatProofs.
Import ListNotations.

(* ---- creation: the rewriting of a printed pattern (the re-scan from position 0 after each
   replacement skips the already rewritten prefix, which may contain and end in '%') ---- *)
Theorem C12_gen_print : forall p, wf p -> generate (print p) = GOk (gen_of p).
Proof. exact gen_print. Qed.
Print Assumptions C12_gen_print.

(* the explicit fuel of the re-scan is never exhausted, for any pattern text whatsoever *)
Theorem C12_generate_total : forall s, generate s <> GErr GE_fuel.
Proof. exact generate_fuel_ok. Qed.
Print Assumptions C12_generate_total.

(* ---- the line: for every oracle, every attribute value, every spec ---- *)
Theorem C12_line : forall apply_spec p env, wf p -> print p <> [] ->
  format_env apply_spec (gen_of p) env = FOk (line_spec apply_spec p env).
Proof. exact format_env_line. Qed.
Print Assumptions C12_line.

(* creation and formatting together, on statements (env_of st = the sixteen values of st) *)
Theorem C12_line_created : forall apply_spec p, wf p -> print p <> [] ->
  exists g, generate (print p) = GOk g /\
            forall st, format apply_spec g st = FOk (line_spec apply_spec p (env_of st)).
Proof. exact line_created. Qed.
Print Assumptions C12_line_created.

(* item lists that are not in normal form: adjacent literals are merged first *)
Theorem C12_line_normalized : forall apply_spec p, wf (normalize p) -> print p <> [] ->
  exists g, generate (print p) = GOk g /\
            forall env, format_env apply_spec g env = FOk (line_spec apply_spec p env).
Proof. exact line_created_normalized. Qed.
Print Assumptions C12_line_normalized.

(* which value stands for which attribute *)
Theorem C12_env_fields : forall st,
  env_of st Time = s_time st /\ env_of st LogLevel = s_level st /\
  env_of st LogLevelShortCode = s_short st /\ env_of st Logger = s_logger st /\
  env_of st ThreadId = s_thread_id st /\ env_of st ThreadName = s_thread_name st /\
  env_of st ProcessId = s_process_id st /\ env_of st CallerFunction = s_func st /\
  env_of st Message = s_msg st /\
  env_of st Tags = match s_tags st with Some t => t | None => [] end /\
  env_of st NamedArgs = match s_nargs st with Some l => join_nargs l | None => [] end /\
  env_of st SourceLocation = s_srcloc st /\
  env_of st FullPath = mm_full_path (s_srcloc st) /\ env_of st LineNumber = mm_line (s_srcloc st) /\
  env_of st FileName = mm_file_name (s_srcloc st) /\
  env_of st ShortSourceLocation = mm_short_source_location (s_srcloc st).
Proof. exact env_of_fields. Qed.
Print Assumptions C12_env_fields.

Theorem C12_named_args_join : forall l,
  join_nargs l = join_str [44; 32]%N (map (fun kv => fst kv ++ [58; 32]%N ++ snd kv) l).
Proof. exact join_nargs_spec. Qed.
Print Assumptions C12_named_args_join.

(* ---- the slot table ---- *)
Theorem C12_slot_injective : forall p, NoDup (attrs p) ->
  (forall a b, In a (attrs p) -> In b (attrs p) ->
               slot_of (gen_of p) a = slot_of (gen_of p) b -> a = b) /\
  (forall a, In a (attrs p) -> slot_of (gen_of p) a < length (attrs p) /\
                                nth_error (attrs p) (slot_of (gen_of p) a) = Some a) /\
  (forall a, ~ In a (attrs p) -> slot_of (gen_of p) a = ATTR_NR_ITEMS - 1 /\
                                  length (attrs p) <= ATTR_NR_ITEMS - 1).
Proof. exact slot_injective. Qed.
Print Assumptions C12_slot_injective.

(* ---- rejection when the formatter is created ---- *)
Theorem C12_gen_rejects_unterminated : forall p rest, wf p -> ~ In c_rp rest ->
  generate (print p ++ [c_pct; c_lp] ++ rest) = GErr GE_unterminated.
Proof. exact gen_rejects_unterminated. Qed.
Print Assumptions C12_gen_rejects_unterminated.

Theorem C12_gen_rejects_unknown : forall p name sp post, wf p ->
  ~ In c_rp name -> ~ In c_colon name -> attr_of_name name = None -> ~ In c_rp (fspec sp) ->
  generate (print p ++ [c_pct; c_lp] ++ name ++ fspec sp ++ [c_rp] ++ post) = GErr (GE_unknown name).
Proof. exact gen_rejects_unknown. Qed.
Print Assumptions C12_gen_rejects_unknown.

(* ---- multi-line messages ---- *)
(* option on, no named args: one complete line per message line (segments between newlines
   without a final empty segment; an empty message is one statement) *)
Theorem C12_multiline_on : forall apply_spec p st, wf p -> print p <> [] ->
  nargs_empty (s_nargs st) = true ->
  sink_lines apply_spec true (gen_of p) st =
  Some (map (fun m => FOk (line_spec apply_spec p (env_of (with_msg st m))))
            (match s_msg st with [] => [[]] | _ => drop_last_empty (split_on c_nl (s_msg st)) end)).
Proof. exact sink_lines_on. Qed.
Print Assumptions C12_multiline_on.

(* option off (or named args present): a single statement, at most one trailing newline removed *)
Theorem C12_multiline_off : forall apply_spec add_meta p st, wf p -> print p <> [] ->
  add_meta && nargs_empty (s_nargs st) = false ->
  sink_lines apply_spec add_meta (gen_of p) st =
  Some [FOk (line_spec apply_spec p (env_of (with_msg st (strip_one_nl (s_msg st)))))].
Proof. exact sink_lines_off. Qed.
Print Assumptions C12_multiline_off.

Theorem C12_strip_one_newline : forall msg,
  (exists m, msg = m ++ [c_nl] /\ strip_one_nl msg = m) \/
  (strip_one_nl msg = msg /\ forall m, msg <> m ++ [c_nl]).
Proof. exact strip_one_nl_spec. Qed.
Print Assumptions C12_strip_one_newline.

(* split_on is the split: no separator inside a segment, joining gives the message back *)
Theorem C12_split_lines_spec : forall msg,
  Forall (fun l => ~ In c_nl l) (split_on c_nl msg) /\ join_with c_nl (split_on c_nl msg) = msg.
Proof. exact (fun msg => conj (split_on_segments c_nl msg) (split_on_join c_nl msg)). Qed.
Print Assumptions C12_split_lines_spec.

(* ---- MacroMetadata derived fields; runtime-metadata split ---- *)
Theorem C12_mm_fields : forall dir fname line,
  (dir = [] \/ exists d, dir = d ++ [c_slash]) ->
  ~ In c_slash fname -> ~ In c_slash line -> ~ In c_colon line ->
  let sl := dir ++ fname ++ [c_colon] ++ line in
  (N.of_nat (length sl) < 65536)%N ->
  mm_source_location sl = (dir ++ fname) ++ [c_colon] ++ line /\
  mm_full_path sl = dir ++ fname /\
  mm_line sl = line /\
  mm_file_name sl = fname /\
  mm_short_source_location sl = fname ++ [c_colon] ++ line /\
  mm_in_bounds sl = true.
Proof. exact mm_fields. Qed.
Print Assumptions C12_mm_fields.

Theorem C12_rt_split : forall msg file line func,
  find_sep msg = None -> find_sep file = None -> find_sep line = None ->
  rt_split (msg ++ sep ++ file ++ sep ++ line ++ sep ++ func) = Some (msg, file, line, func).
Proof. exact rt_split_fields. Qed.
Print Assumptions C12_rt_split.

(* ---- non-vacuity: the default-like pattern
   "%(time) [%(thread_id)] %%(short_source_location:<28) LOG_():%(log_level:%<9) %(logger) %%(message)"
   satisfies the hypotheses (literals with '%', '(', ')', ':'; a spec with fill '%') ---- *)
Example C12_nonvacuous : wf ex_pat /\ print ex_pat <> [].
Proof. exact (conj ex_pat_wf ex_pat_nonempty). Qed.
Print Assumptions C12_nonvacuous.

(* ---- refutations: where the faithful model shows the unrestricted statement false ---- *)
(* the empty pattern (wf) is special-cased by format(): empty string, no final newline *)
Theorem C12_refuted_empty_pattern :
  wf [] /\ generate (print []) = GOk (gen_of []) /\
  format_env id_spec (gen_of []) env0 = FOk [] /\
  format_env id_spec (gen_of []) env0 <> FOk (line_spec id_spec [] env0).
Proof. exact empty_pattern_refuted. Qed.
Print Assumptions C12_refuted_empty_pattern.

(* braces in literal text are fmt syntax: "{{" is rendered "{", a lone "{" makes format() throw *)
Theorem C12_refuted_brace_literal :
  generate (print [Lit [c_lb; c_lb]; Attr Message None]) = GOk (gen_of [Lit [c_lb; c_lb]; Attr Message None]) /\
  format_env id_spec (gen_of [Lit [c_lb; c_lb]; Attr Message None]) env0
    = FOk (c_lb :: attr_name Message ++ [c_nl]) /\
  line_spec id_spec [Lit [c_lb; c_lb]; Attr Message None] env0
    = c_lb :: c_lb :: attr_name Message ++ [c_nl] /\
  generate (print [Lit [c_lb]; Attr Message None]) = GOk (gen_of [Lit [c_lb]; Attr Message None]) /\
  format_env id_spec (gen_of [Lit [c_lb]; Attr Message None]) env0 = FErr FE_unmatched_rb.
Proof. exact brace_literal_refuted. Qed.
Print Assumptions C12_refuted_brace_literal.

(* an attribute used twice (excluded by the property): accepted, then format() throws *)
Theorem C12_refuted_duplicate_attr :
  let p := [Attr Message None; Lit [32%N]; Attr Message None] in
  generate (print p) = GOk (gen_of p) /\
  format_env id_spec (gen_of p) env0 = FErr FE_arg_not_found.
Proof. exact duplicate_attr_refuted. Qed.
Print Assumptions C12_refuted_duplicate_attr.

(* uint16_t positions: a source location of >= 65536 bytes gives wrong path / line *)
Theorem C12_refuted_long_source_location :
  let sl := long_path ++ [c_colon] ++ [49%N] in
  mm_full_path sl = [] /\ mm_full_path sl <> long_path /\
  N.of_nat (length (mm_line sl)) = 65537%N.
Proof. exact mm_long_path_refuted. Qed.
Print Assumptions C12_refuted_long_source_location.

(* why wf asks for normal form: two adjacent literals can print as "%(" *)
Theorem C12_adjacent_literals_need_normal_form :
  let p := [Lit [c_pct]; Lit (c_lp :: attr_name Message ++ [c_rp])] in
  Forall wf_item p /\ NoDup (attrs p) /\
  generate (print p) = GOk (gen_of [Attr Message None]) /\
  ~ Forall wf_item (normalize p).
Proof. exact adjacent_literals_need_normal_form. Qed.
Print Assumptions C12_adjacent_literals_need_normal_form.

(* the C++ adjacency test  find_first_of('(', pos) - pos == 1  at a '%' is the test find_attr makes *)
Theorem C12_adjacency_test : forall t,
  find_first c_lp (c_pct :: t) = Some 1 <-> exists r, t = c_lp :: r.
Proof. exact adjacency_test. Qed.
Print Assumptions C12_adjacency_test.

(* ---- more non-vacuity: the premises of the rejection, MacroMetadata and multi-line theorems
   are satisfiable, with the computed outcomes ---- *)
Example C12_rejects_nonvacuous :
  ~ In c_rp ex_name /\ ~ In c_colon ex_name /\ attr_of_name ex_name = None /\
  ~ In c_rp (fspec (Some [62; 53]%N)) /\
  generate (print ex_pat ++ [c_pct; c_lp] ++ ex_name ++ fspec (Some [62; 53]%N) ++ [c_rp] ++ [33%N])
    = GErr (GE_unknown ex_name) /\
  generate (print ex_pat ++ [c_pct; c_lp] ++ ex_name) = GErr GE_unterminated.
Proof. exact ex_unknown_name. Qed.
Print Assumptions C12_rejects_nonvacuous.

Example C12_mm_nonvacuous :
  (ex_dir = [] \/ exists d, ex_dir = d ++ [c_slash]) /\
  ~ In c_slash ex_fname /\ ~ In c_slash ex_line /\ ~ In c_colon ex_line /\
  (N.of_nat (length (ex_dir ++ ex_fname ++ [c_colon] ++ ex_line)) < 65536)%N /\
  mm_file_name (ex_dir ++ ex_fname ++ [c_colon] ++ ex_line) = ex_fname.
Proof. exact ex_mm. Qed.
Print Assumptions C12_mm_nonvacuous.

Example C12_multiline_nonvacuous :
  nargs_empty None = true /\
  dispatch_msgs true None [97; 10; 10; 98; 10]%N = Some [[97%N]; []; [98%N]] /\
  dispatch_msgs false None [97; 10; 10]%N = Some [[97; 10]%N] /\
  dispatch_msgs true (Some [([107%N], [118%N])]) [97; 10; 98]%N = Some [[97; 10; 98]%N].
Proof. exact ex_multiline. Qed.
Print Assumptions C12_multiline_nonvacuous.
