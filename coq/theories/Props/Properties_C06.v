(* C06 — flush_log() returns only after all earlier statements are written and flushed.
   Only property theorems and their assumptions. The caller returns when it reads its flag set
   (FWaitFlush in the model); the theorems say what holds in every state in which a flag is set. *)
From Coq Require Import List NArith Bool.
From Quill Require Import Queue.BQDefs Backend.BEDefs Backend.BEExec Backend.BEInv Backend.BECount Backend.BEFlush Backend.OrdSim TieC06.
Import ListNotations.
Local Open Scope N_scope.
From Quill Require TieMBE.
From Quill Require TieBE ExpectedBE.

(* T-src: the BackendWorker methods this property's part of M-BE re-states are, statement by statement, the ones the model
   was written against and compared with (ExpectedBE.v; the whole loop is tied in Properties_C03.C03_tie_backend_loop) *)
(* T-src: the two abstractions M-BE makes - a thread's queue is an atomic FIFO (C01 / C02), registration and cache refresh
   are atomic steps (registration protocol of C03) - hold for the memory orders, statement orders and shapes found in the
   source (TieMBE.v spells the facts out) *)
Theorem C06_tie_MBE_abstractions : Quill.TieMBE.MBE_abstractions_hold.
Proof. exact Quill.TieMBE.mbe_abstractions. Qed.
Print Assumptions C06_tie_MBE_abstractions.

Theorem C06_tie_backend_methods :
  QuillGen.SrcFacts.sk_be_process_transit_event = Quill.ExpectedBE.sk_be_process_transit_event /\
  QuillGen.SrcFacts.sk_be_flush_and_run_active_sinks = Quill.ExpectedBE.sk_be_flush_and_run_active_sinks /\
  QuillGen.SrcFacts.sk_be_process_lowest_timestamp_transit_event = Quill.ExpectedBE.sk_be_process_lowest_timestamp_transit_event.
Proof. exact (conj TieBE.src_be_process_transit_event (conj TieBE.src_be_flush_and_run_active_sinks TieBE.src_be_process_lowest_timestamp_transit_event)). Qed.
Print Assumptions C06_tie_backend_methods.

(* T-src: the source pops the flush event from its transit buffer before it stores the caller's flag *)
Theorem C06_tie_pop_before_flag : QuillGen.SrcFacts.be_pop_before_flag = true.
Proof. exact src_be_pop_before_flag. Qed.
Print Assumptions C06_tie_pop_before_flag.

(* T-src: the Flush event calls _flush_and_run_active_sinks(false, 0ms) before it captures the caller's flag,
   and a zero interval means every active sink is flushed (no dependence on sink_min_flush_interval) *)
Theorem C06_tie_flush_event_unconditional : QuillGen.SrcFacts.be_flush_event_unconditional = true.
Proof. exact src_be_flush_event_unconditional. Qed.
Print Assumptions C06_tie_flush_event_unconditional.

(* own thread, every configuration, every interleaving of frontend and backend micro-steps: a flag that
   is set belongs to a flush request f the backend has processed, and everything its thread committed
   before f has been processed (= dispatched to the sinks, C03_sink_loop) before it: the processed
   sequence of the thread is a prefix of what it committed and contains f *)
Theorem C06_own_thread : forall K s0 ops,
  (forall t, fresh_thr (th s0 t) /\ issued s0 t = [] /\ delivered s0 t = []) -> flags s0 = [] -> pos_ops ops ->
  let s := run K s0 ops in
  forall f, In f (flags s) -> exists t d1 d2,
    delivered s t = d1 ++ f :: d2 /\
    issued s t = d1 ++ f :: d2 ++ map eid (tbuf (th s t)) ++ map eid (qev (th s t)).
Proof.
  intros K s0 ops H0 Hf Hp s f Hin.
  assert (FI : FInv s) by (apply run_finv; intros x Hx; rewrite Hf in Hx; destruct Hx).
  destruct (FI f Hin) as [t Ht]. destruct (in_split _ _ Ht) as (d1 & d2 & Hd). exists t, d1, d2. split; [exact Hd|].
  pose proof (be_conservation K s0 ops H0 Hp t) as Hc. cbv zeta in Hc. fold s in Hc. rewrite Hc, Hd, <- app_assoc. reflexivity.
Qed.
Print Assumptions C06_own_thread.

(* processing a flush event flushes every active sink after everything written so far (a sink whose flush throws
   is reported and does not keep the others from being flushed: flush_tokens is per sink), writes nothing,
   and (process_min) the flag is stored only after that and after the event left the transit buffer *)
Theorem C06_flush_event_flushes_sinks : forall K s e, ekind e = KFlush ->
  obs (process_event K s e) = obs s ++ flat_map (flush_tokens s) (active_sinks s (nloggers s) 0 []).
Proof. exact flush_event_flushes. Qed.
Print Assumptions C06_flush_event_flushes_sinks.

(* other threads, with timestamp ordering (non-zero grace period, cache refreshed again after the clock
   read, formatter exceptions contained, every statement committed within the grace period of its
   timestamp): in every reachable state no statement still pending in any queue or transit buffer is older
   than any processed event - in particular, once a flush request is processed (its flag can only be set
   then, C06_own_thread), every committed statement with a smaller timestamp has been processed *)
Theorem C06_other_threads : forall K, c_grace K <> 0 -> c_refresh2 K = true -> c_catch_all K = true ->
  forall s0 ops, init_ok K s0 -> pos_ops ops -> WG K s0 ops ->
  let s := run K s0 ops in
  forall e t e', In e (plog s) -> In e' (tbuf (th s t) ++ qev (th s t)) -> ets e <= ets e'.
Proof. exact processed_before_pending. Qed.
Print Assumptions C06_other_threads.

(* never discarded, even with a dropping queue: a refused control request stays pending (the retry loop of
   flush_log) and is neither dropped nor counted *)
Theorem C06_never_discarded : forall K s t e, pend (th s t) = Some e -> ekind e <> KLog -> memb t (registered s) = true ->
  let s' := fstep K s (FTry t) in
  gh s' = gh s /\ failc (th s' t) = failc (th s t) /\
  (pend (th s' t) = None -> issued s' t = issued s t ++ [eid e]) /\
  (pend (th s' t) <> None -> issued s' t = issued s t).
Proof. exact ftry_control. Qed.
Print Assumptions C06_never_discarded.

(* non-vacuity: two threads log, thread 1 flushes on a dropping queue; after some polls its flag is set *)
Definition K_c06 : cfg :=
  {| c_cap := 256; c_batch := 12; c_pub := {| on_batch := true; on_drain := true |}; c_dropping := true;
     c_tinit := 4; c_soft := 4; c_hard := 8; c_grace := 1000; c_bits := 32; c_refresh2 := true; c_catch_all := true;
     c_report_first := true; c_bt := {| BT.BTModel.reset_index_in_process := true; BT.BTModel.cap0_guard := true |}; c_bt_catch := true; c_flush_iv := 0; c_follow := true |}.
Definition c06_state : st :=
  fst (exec_all K_c06 (st0 100000 1 1 (fun _ => mk_lgr 0 [0%nat]) (fun _ => mk_snk 0 []))
     ([CLog 0 (mk_ev 1 0 4 51 0) false; CTick 1; CLog 1 (mk_ev 2 0 4 51 0) false; CTick 1; CFlush 1 (mk_flush 3 0 40); CTick 5000] ++ repeat (CPoll []) 6)).
Example C06_flag_is_set : flags c06_state = [3] /\ delivered c06_state 1%nat = [2; 3] /\ delivered c06_state 0%nat = [1].
Proof. vm_compute. repeat split; reflexivity. Qed.
