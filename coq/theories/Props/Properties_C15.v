(* C15 — time rotation separates statements at the configured daily/hourly/minute points.
   Only the property theorems (each closed by [exact]) and their assumptions.  Model: Rotate/RotModel.v.

   [pt] is the set of rotation points of the schedule (instants in ns).  The two premises tying the
   model's next-point computations to it,
       NA_ok rtm c start pt     : after a rotation at record ts the next point is the first point after ts
       INIT_ok rtm c start pt   : the constructor's first point is the first point after start,
   are theorems for hourly / minutely rotation with pt = P0 + j * period (C15_schedule_hourly_minutely;
   premise on libc: the adjusted broken-down time lies in the future).  For daily rotation they follow from
   the grid property of the next-point function (C15_schedule_daily), and that property is
     - a theorem in GMT (timegm is arithmetic), for every variant of the code: C15_schedule_daily_gmt;
     - a theorem in local time for the code variant (TieC15.src_plus24 = false: HH:MM is converted with
       tm_isdst = -1, and when it has passed, tomorrow's HH:MM is taken through mktime with tm_mday + 1), from
       premises on libc's calendar only - no premise about DST, a local day may have 23, 24 or 25 hours:
       C15_schedule_daily_local;
     - FALSE for the earlier variant (c_plus24 = true: + 24 h, tm_isdst of the current instant) in local zones
       on DST-change days: daily_dst_grid_refuted (finding C15-daily-dst, repaired).
   [rtm k t]: k = 0 the single mktime of the hourly / minutely / earlier daily code, k = 1 HH:MM:00 of t's day
   with tm_isdst = -1, k = 2 HH:MM:00 of the next day.
   Other premises: the fixed code (c_prefix = false, inside NA_ok), overwrite on (otherwise rotation
   may stop and statements pile up in the live file), one run (ops are writes with positive sizes and
   non-decreasing timestamps: [mono 0 ops]), directory without files named stem.*.ext, live file
   initially empty. *)
From Coq Require Import List NArith.
From Quill Require Import Rotate.RotFS Rotate.RotModel Rotate.RotChain Rotate.RotInv Rotate.RotRun Rotate.RotRestart
  Rotate.RotProps Rotate.RotSched Rotate.RotTheorems Rotate.RotWitness.
From Quill Require TieC15.
Import ListNotations.
Open Scope N_scope.

(* C15_separates: no file holds two statements with a rotation point g, start < g, ts a < g <= ts b *)
Theorem C15_separates : forall strf rtm c, (forall k t, strf k t <> []) -> forall wm rm start d0 pt,
  c_over c = true -> c_freq c <> FDisabled ->
  NA_ok rtm c start pt -> INIT_ok rtm c start pt ->
  clean c d0 -> (wm = false -> fs_content (live_path c) d0 = []) ->
  forall ops, mono 0 ops ->
  forall f, In f (dq (run0 strf rtm c wm rm start d0 ops)) ->
  forall a b g, In a (fs_content (fname f) (fs (run0 strf rtm c wm rm start d0 ops))) ->
                In b (fs_content (fname f) (fs (run0 strf rtm c wm rm start d0 ops))) ->
                pt g -> start < g -> ~ (sts a < g /\ g <= sts b).
Proof. exact separates_thm. Qed.
Print Assumptions C15_separates.

(* C15_shares: a statement stays in the live file — together with everything written after it — as
   long as no size rotation fires ([quiet]) and no rotation point lies in (ts, hi], hi bounding the
   later timestamps *)
Theorem C15_shares : forall strf rtm c, (forall k t, strf k t <> []) -> forall wm rm start d0 pt,
  c_over c = true -> c_freq c <> FDisabled ->
  NA_ok rtm c start pt -> INIT_ok rtm c start pt ->
  clean c d0 -> (wm = false -> fs_content (live_path c) d0 = []) ->
  forall ops1 id ts wr cnt mid hi,
  mono 0 (ops1 ++ Write id ts wr cnt :: mid) ->
  quiet strf rtm c (run0 strf rtm c wm rm start d0 (ops1 ++ [Write id ts wr cnt])) mid ->
  below hi mid ->
  (forall g, pt g -> start < g -> ts < g -> hi < g) ->
  In (mkStmt id ts wr)
     (fs_content (live_path c) (fs (run0 strf rtm c wm rm start d0 (ops1 ++ Write id ts wr cnt :: mid)))).
Proof. exact shares_thm. Qed.
Print Assumptions C15_shares.

(* C15_name: the head of the deque is the live file opened at _open_file_timestamp; a rotated file
   carries strftime (under the scheme) of the instant it was opened (ghost g_open), and its name is
   _get_filename(base, index, that suffix).  Holds for every frequency and overwrite setting. *)
Theorem C15_name : forall strf rtm c, (forall k t, strf k t <> []) -> forall wm rm start d0,
  clean c d0 -> (wm = false -> fs_content (live_path c) d0 = []) ->
  forall ops, mono 0 ops ->
  let sN := run0 strf rtm c wm rm start d0 ops in
  (exists rest, dq sN = mk_live c (ots sN) :: rest) /\
  forall f, In f (tl (dq sN)) ->
    fdt f = suffix strf c (g_open f) /\
    fname f = get_filename (live_path c) (fidx f) (suffix strf c (g_open f)).
Proof. exact name_thm. Qed.
Print Assumptions C15_name.

(* index bump on collision: files with equal suffix carry strictly increasing indices towards the back
   of the deque, hence pairwise distinct names *)
Theorem C15_name_index_bump : forall strf rtm c, (forall k t, strf k t <> []) -> forall wm rm start d0 ops,
  init_ok c wm d0 -> Forall (ok_op c) ops ->
  ordp (dq (run0 strf rtm c wm rm start d0 ops)) /\ NoDup (names (dq (run0 strf rtm c wm rm start d0 ops))).
Proof.
  exact (fun strf rtm c H1 wm rm start d0 ops H2 H3 =>
    conj (I_ord c _ (F_inv c d0 _ (G_full c d0 _ (sN_good strf rtm c H1 wm rm start d0 ops H2 H3))))
         (proj1 (proj2 (rot_count_thm strf rtm c H1 wm rm start d0 ops H2 H3)))).
Qed.
Print Assumptions C15_name_index_bump.

(* C15_compose: the C14 theorems hold for every frequency (time rotation goes through the same
   _rotate_files): order / nothing lost, limit, count *)
Theorem C15_compose : forall strf rtm c, (forall k t, strf k t <> []) -> forall wm rm start d0 ops,
  init_ok c wm d0 -> Forall (ok_op c) ops -> c_freq c <> FDisabled ->
  let sN := run0 strf rtm c wm rm start d0 ops in
  (exists del, del ++ retained sN = fs_content (live_path c) (fs (construct strf rtm c wm rm start d0)) ++ writes_of ops /\
               (c_over c = false -> Forall no_w ops -> del = [])) /\
  (c_limit c <> 0 -> Lim c sN) /\
  (exists t rest, dq sN = mk_live c t :: rest /\ N.of_nat (length rest) <= c_maxb c).
Proof.
  exact (fun strf rtm c H1 wm rm start d0 ops H2 H3 _ =>
    conj (rot_order_thm strf rtm c H1 wm rm start d0 ops H2 H3)
         (conj (rot_limit_thm strf rtm c H1 wm rm start d0 ops H2 H3)
               (proj1 (rot_count_thm strf rtm c H1 wm rm start d0 ops H2 H3)))).
Qed.
Print Assumptions C15_compose.

(* the schedule premises, hourly / minutely: pt = P0 + j * period *)
Theorem C15_schedule_hourly_minutely : forall rtm c start,
  c_prefix c = false -> (c_freq c = FHourly \/ c_freq c = FMinutely) -> 0 < c_interval c ->
  start / NS < rtm 0 (start / NS) ->
  NA_ok rtm c start (grid_pt rtm c start) /\ INIT_ok rtm c start (grid_pt rtm c start).
Proof.
  exact (fun rtm c start H1 H2 H3 H4 =>
    conj (NA_hourly_minutely rtm c start H1 H2 H3) (INIT_hourly_minutely rtm c start H2 H4)).
Qed.
Print Assumptions C15_schedule_hourly_minutely.

(* the schedule premises, daily: from the grid property  next t > t /\ is_HHMM (next t) /\ first such *)
Theorem C15_schedule_daily : forall rtm c start is_pt,
  c_prefix c = false -> c_freq c = FDaily -> grid_property rtm c start is_pt ->
  NA_ok rtm c start is_pt /\ INIT_ok rtm c start is_pt.
Proof.
  exact (fun rtm c start is_pt H1 H2 H3 =>
    conj (NA_daily rtm c start H1 is_pt H2 H3) (INIT_daily rtm c start is_pt H3)).
Qed.
Print Assumptions C15_schedule_daily.

(* T-src: the variant that stands for the source tree takes tomorrow's HH:MM through mktime
   (c_plus24 = false); the regenerated skeleton of _calculate_initial_rotation_tp is the one the model was
   written against.  (On a tree without the repair of C15-daily-dst TieC15 does not compile and this
   theorem and C15_schedule_daily_local are not discharged.) *)
Theorem C15_code_variant :
  TieC15.src_plus24 = false /\
  QuillGen.SrcFacts.sk_rot_initial_rotation_tp = TieC15.exp_rot_initial_rotation_tp.
Proof. exact (conj TieC15.src_plus24_false TieC15.c15_skeleton_ok). Qed.
Print Assumptions C15_code_variant.

(* the schedule premises, daily, LOCAL time, the code variant - without the grid property as a premise.
   libc is described by the local calendar: [day t] = local day number of instant t (s), [at_hm d] = the
   instant mktime returns for HH:MM:00 of local day d with tm_isdst = -1.  Premises (libc only): local days
   do not go backwards; the instant returned for day d lies in day d; the two mktime calls of the code are
   at_hm of the day of "now" and of the next day.  The rotation points are the instants at_hm d. *)
Theorem C15_schedule_daily_local : forall rtm c start (day at_hm : N -> N),
  c_prefix c = false -> c_freq c = FDaily -> c_plus24 c = TieC15.src_plus24 -> c_gmt c = false ->
  (forall t1 t2, t1 <= t2 -> day t1 <= day t2) ->
  (forall d, day (at_hm d) = d) ->
  (forall t, start / NS <= t -> rtm 1 t = at_hm (day t)) ->
  (forall t, start / NS <= t -> rtm 2 t = at_hm (day t + 1)) ->
  NA_ok rtm c start (hm_pt at_hm) /\ INIT_ok rtm c start (hm_pt at_hm).
Proof.
  exact (fun rtm c start day at_hm H1 H2 H3 H4 L1 L2 L3 L4 =>
    let G := daily_grid_fixed rtm c start H2 (eq_trans H3 TieC15.src_plus24_false) H4 day at_hm L1 L2 L3 L4 in
    conj (NA_daily rtm c start H1 (hm_pt at_hm) H2 G) (INIT_daily rtm c start (hm_pt at_hm) G)).
Qed.
Print Assumptions C15_schedule_daily_local.

(* the schedule premises, daily, GMT: timegm is arithmetic (hm = seconds after midnight); every variant *)
Theorem C15_schedule_daily_gmt : forall rtm c start hm,
  c_prefix c = false -> c_freq c = FDaily -> c_gmt c = true -> hm < 86400 ->
  (forall k t, k <> 2 -> rtm k t = t / 86400 * 86400 + hm) ->
  NA_ok rtm c start (day_pt hm) /\ INIT_ok rtm c start (day_pt hm).
Proof.
  exact (fun rtm c start hm H1 H2 H3 H4 H5 =>
    let G := daily_grid_gmt rtm c hm start H4 H3 H5 in
    conj (NA_daily rtm c start H1 (day_pt hm) H2 G) (INIT_daily rtm c start (day_pt hm) G)).
Qed.
Print Assumptions C15_schedule_daily_gmt.

(* D7: with the pre-fix behaviour (next point = record timestamp + period) separation fails: minutely
   schedule 60 s + j * 60 s, statements at 90 s, 100 s, 125 s: 100 s and 125 s share the live file
   although the point 120 s lies between them. *)
Theorem sched_drift_refuted :
  mono 0 drift_ops /\ grid_pt toy_rtm_min (drift_cfg true) 0 (120 * S) /\
  ~ cell_ok 0 (grid_pt toy_rtm_min (drift_cfg true) 0)
      (fs_content (live_path (drift_cfg true)) (fs (drift_final true))).
Proof. exact sched_drift_refuted_lem. Qed.
Print Assumptions sched_drift_refuted.

(* finding C15-daily-dst (repaired; kept as a statement about the earlier variant berlin_cfg true,
   c_plus24 = true): for the real libc (Europe/Berlin, daily 12:00, values returned by glibc on
   2023-10-28/29) that variant's next point after 28 Oct 12:00 CEST is 29 Oct 11:00 CET, not a 12:00
   instant: the grid property - the premise of C15_schedule_daily - is false there. *)
Theorem daily_dst_grid_refuted :
  c_plus24 (berlin_cfg true) = true /\
  init_tp berlin_rtm (berlin_cfg true) (1698487200 * NS) = 1698573600 * NS /\
  ~ berlin_noon (1698573600 * NS) /\
  ~ grid_property berlin_rtm (berlin_cfg true) (1698487200 * NS) berlin_noon.
Proof. exact (conj eq_refl daily_dst_grid_refuted_lem). Qed.
Print Assumptions daily_dst_grid_refuted.

(* ... and the repaired code on the same libc values: 29 Oct 12:00 CET *)
Theorem daily_dst_code_example :
  init_tp berlin_rtm (berlin_cfg false) (1698487200 * NS) = 1698577200 * NS /\ berlin_noon (1698577200 * NS).
Proof. exact daily_dst_fixed_example. Qed.
Print Assumptions daily_dst_code_example.

(* non-vacuity: the premises hold for a GMT-like oracle (minutely schedule; daily grid property) *)
Theorem C15_premises_satisfiable :
  (NA_ok toy_rtm_min (drift_cfg false) 0 (grid_pt toy_rtm_min (drift_cfg false) 0) /\
   INIT_ok toy_rtm_min (drift_cfg false) 0 (grid_pt toy_rtm_min (drift_cfg false) 0) /\ mono 0 drift_ops) /\
  (forall c hm start, hm < 86400 -> c_gmt c = true -> grid_property (toy_rtm_day hm) c start (day_pt hm)) /\
  (forall hm start, hm < 86400 ->
     let day := fun t => t / 86400 in
     let at_hm := fun d => d * 86400 + hm in
     (forall t1 t2, t1 <= t2 -> day t1 <= day t2) /\ (forall d, day (at_hm d) = d) /\
     (forall t, start / NS <= t -> toy_rtm_day hm 1 t = at_hm (day t)) /\
     (forall t, start / NS <= t -> toy_rtm_day hm 2 t = at_hm (day t + 1))).
Proof. exact (conj C15_premises_minutely (conj toy_daily_grid daily_fixed_premises_satisfiable)). Qed.
Print Assumptions C15_premises_satisfiable.
