(* C11 - a steady-state log call neither allocates nor formats on the calling thread  (PARTIAL).
   This file holds only the property theorems (each closed by [exact]) and their assumptions.
   Model: Alloc/AllocModel.v (M-ALLOC: one thread's log path as a step function with an [allocs]
   and a [fmts] output), built from M-IV (Codec/InlVec.v), the size pass of M-CODEC
   (Codec/CodecDefs.v) and prepare_write of M-BQ (Queue/BQDefs.v).

   What is proved: for ALL inputs, the *modelled* allocation sources (thread-context creation,
   InlinedVector growth, unbounded-queue node allocation / shrink, the argument's own copy
   constructor / fs::path::string(), and - found by the runtime part, then modelled - the
   temporary std::pair a map codec made of every element) are silent in a steady-state call, and only Direct arguments
   are formatted in a frontend step.
   The model carries a code-variant flag map_copies (first argument of log_step / t_step / t_run /
   reachable): false = the repaired map codecs (Codec<Key> / Codec<T> on elem.first / elem.second, no
   temporary), true = the pinned earlier ones (finding C11-F1: every element converted to a temporary
   std::pair<Key, T>).  The variant that stands for the source tree is TieC11.src_map_copies (T-src,
   C11_tie_map_codecs: it is false).  What is NOT proved: that the real code has no other
   allocation source (a temporary inside a codec, inside libfmt, inside a macro).  That part is
   sampled on the real binary by harness/alloc.cpp (props/c11.py). *)
From Coq Require Import List NArith Bool String.
From QuillGen Require SrcFacts.
From Quill Require Import Base.Bytes Codec.CodecDefs Codec.CodecProofs Codec.InlVec Codec.InlVecProofs
  Queue.BQDefs Alloc.AllocModel Alloc.AllocProofs TieC11.
Import ListNotations.
Local Open Scope N_scope.

(* ------------------------------------------------------------------ T-src ties *)
(* the inline capacity (12) and growth factor (2) of the model are the ones in the source; the
   cache lives inside the thread context *)
Theorem C11_tie_inline_capacity :
  SrcFacts.iv_inline_capacity = INLINE_CAP /\ SrcFacts.tc_size_cache_by_value = true /\
  SrcFacts.iv_growth_factor = GROWTH.
Proof. exact (conj (proj1 src_iv_inline_capacity) (conj (proj2 src_iv_inline_capacity) src_iv_growth_factor)). Qed.
Print Assumptions C11_tie_inline_capacity.

(* push_back / clear / the cache-clearing rule / log_statement have the modelled shape; only
   DirectFormatCodec calls libfmt and only Codec<fs::path> builds a temporary at the call site *)
Theorem C11_tie_code_shape :
  SrcFacts.sk_iv_push_back = expected_iv_push_back /\ SrcFacts.sk_iv_clear = expected_iv_clear /\
  SrcFacts.sk_codec_size_pass = expected_size_pass /\
  SrcFacts.sk_logger_log_statement = expected_log_statement /\
  SrcFacts.sk_c11_caller_fmt_headers = ["quill/DirectFormatCodec.h"%string] /\
  SrcFacts.sk_c11_caller_temp_headers = ["quill/std/FilesystemPath.h"%string].
Proof.
  exact (conj (proj1 src_iv_skeletons) (conj (proj2 src_iv_skeletons) (conj src_size_pass_skeleton
        (conj src_log_statement_skeleton src_caller_side_codecs)))).
Qed.
Print Assumptions C11_tie_code_shape.

(* the map codecs of the source are the repaired ones: compute_encoded_size / encode of std/Map.h and
   std/UnorderedMap.h reach the members of an element in place (the four bodies are pinned), so the
   variant of the model that stands for the source is map_copies = false.  (On a tree without the
   repair TieC11 does not compile and nothing below is discharged.) *)
Theorem C11_tie_map_codecs :
  SrcFacts.c11_map_elems_in_place = true /\ src_map_copies = false /\
  SrcFacts.sk_c11_map_codec_bodies =
  [expected_map_size_body; expected_map_encode_body; expected_map_size_body; expected_map_encode_body].
Proof. exact (conj src_map_elems_in_place (conj src_map_copies_false src_map_codec_bodies)). Qed.
Print Assumptions C11_tie_map_codecs.

(* ------------------------------------------------------------------ the property, modelled part *)
(* For the variant of the code the source tree selects (src_map_copies; C11_tie_map_codecs: false),
   every frontend configuration, every state [s] a thread can reach by any sequence of
   preallocate / log / shrink / backend-drain operations, every argument list [ts] / [vs] over
   the type universe of M-CODEC (arbitrary nesting, std::map / unordered_map of strings, containers
   and nested maps included) and with or without a dynamic level:
     registered (after the first log call or preallocate())
     -> the statement pushes at most INLINE_CAP (= 12) lengths into the size cache
     -> its encoded size (header + arguments + level) is granted by the current queue buffer
     -> no argument type contains a not trivially copyable deferred type or a filesystem path
     -> the call allocates nothing (modelled sources) and the statement is enqueued. *)
Theorem C11_steady_no_alloc : forall cf s ts vs dyn,
  reachable src_map_copies cf s -> t_reg s = true ->
  N.of_nat (stmt_cached ts vs) <= INLINE_CAP ->
  fits (t_node s) (stmt_total ts vs dyn) = true ->
  forallb no_excluded ts = true ->
  allocs (snd (log_step src_map_copies cf s ts vs dyn)) = [] /\
  res (snd (log_step src_map_copies cf s ts vs dyn)) = LEnqueued.
Proof. exact steady_no_alloc_code_variant. Qed.
Print Assumptions C11_steady_no_alloc.

(* the same with the *current* capacity of the cache instead of the inline one: once a thread has
   logged a statement with k > 12 lengths, statements up to the grown capacity are silent too *)
Theorem C11_steady_no_alloc_capacity : forall cf s ts vs dyn,
  reachable src_map_copies cf s -> t_reg s = true ->
  N.of_nat (stmt_cached ts vs) <= iv_cap (t_cache s) ->
  fits (t_node s) (stmt_total ts vs dyn) = true ->
  forallb no_excluded ts = true ->
  allocs (snd (log_step src_map_copies cf s ts vs dyn)) = [] /\
  res (snd (log_step src_map_copies cf s ts vs dyn)) = LEnqueued /\
  iv_cap (t_cache (fst (log_step src_map_copies cf s ts vs dyn))) = iv_cap (t_cache s).
Proof. exact steady_no_alloc_cap_code_variant. Qed.
Print Assumptions C11_steady_no_alloc_capacity.

(* the same two statements with the flag spelled out (repaired variant), and: the variant changes
   what a step allocates, never the state it leaves - both variants reach the same states *)
Theorem C11_steady_no_alloc_repaired : forall cf s ts vs dyn,
  reachable false cf s -> t_reg s = true ->
  N.of_nat (stmt_cached ts vs) <= INLINE_CAP ->
  fits (t_node s) (stmt_total ts vs dyn) = true ->
  forallb no_excluded ts = true ->
  allocs (snd (log_step false cf s ts vs dyn)) = [] /\ res (snd (log_step false cf s ts vs dyn)) = LEnqueued.
Proof. exact steady_no_alloc_reachable. Qed.
Print Assumptions C11_steady_no_alloc_repaired.

Theorem C11_variant_same_states : forall mc cf,
  (forall s, reachable mc cf s <-> reachable false cf s) /\
  (forall s ts vs dyn, fst (log_step mc cf s ts vs dyn) = fst (log_step false cf s ts vs dyn) /\
     res (snd (log_step mc cf s ts vs dyn)) = res (snd (log_step false cf s ts vs dyn)) /\
     fmts (snd (log_step mc cf s ts vs dyn)) = fmts (snd (log_step false cf s ts vs dyn))).
Proof. exact (fun mc cf => conj (reachable_variant mc cf) (log_step_state_variant mc cf)). Qed.
Print Assumptions C11_variant_same_states.

(* ------------------------------------------------------------------ the pinned variant (finding C11-F1, fixed by the repair) *)
(* PARTIAL, pinned variant (map_copies = true): what held of the code before the repair.  The extra
   hypothesis - every std::map / unordered_map inside the argument types has arithmetic key and mapped
   type, or a key and a mapped type whose copies cannot allocate - is NOT in the property: that code
   copied every element of other maps at the call site (C11_steady_no_alloc_refuted_map). *)
Theorem C11_steady_no_alloc_pinned_partial : forall cf s ts vs dyn,
  reachable true cf s -> t_reg s = true ->
  N.of_nat (stmt_cached ts vs) <= INLINE_CAP ->
  fits (t_node s) (stmt_total ts vs dyn) = true ->
  forallb no_excluded ts = true -> forallb map_ok ts = true ->
  allocs (snd (log_step true cf s ts vs dyn)) = [] /\ res (snd (log_step true cf s ts vs dyn)) = LEnqueued.
Proof. exact steady_no_alloc_reachable_pinned. Qed.
Print Assumptions C11_steady_no_alloc_pinned_partial.

Theorem C11_steady_no_alloc_capacity_pinned_partial : forall cf s ts vs dyn,
  reachable true cf s -> t_reg s = true ->
  N.of_nat (stmt_cached ts vs) <= iv_cap (t_cache s) ->
  fits (t_node s) (stmt_total ts vs dyn) = true ->
  forallb no_excluded ts = true -> forallb map_ok ts = true ->
  allocs (snd (log_step true cf s ts vs dyn)) = [] /\ res (snd (log_step true cf s ts vs dyn)) = LEnqueued /\
  iv_cap (t_cache (fst (log_step true cf s ts vs dyn))) = iv_cap (t_cache s).
Proof. exact (fun cf s ts vs dyn Hre Hr => steady_no_alloc_cap_pinned cf s ts vs dyn Hr (reachable_wf true cf s Hre)). Qed.
Print Assumptions C11_steady_no_alloc_capacity_pinned_partial.

(* refutation of the full-strength statement for the PINNED variant (finding C11-F1, kept as
   documentation of the behaviour before the repair): std::map<uint32_t, std::string> with a
   16-character string, registered thread, nothing cached, fits, listed kinds only - and the pinned
   call copies the string twice into a temporary std::pair; the repaired call allocates nothing.
   Replayed on the real code by corpus/C11/f1_map_string.case (which must now be silent). *)
Theorem C11_steady_no_alloc_refuted_map :
  let s := after_pre ex_bounded in
  reachable true ex_bounded s /\ t_reg s = true /\ wt_zip (map wt rf11_ts) rf11_vs /\
  stmt_cached rf11_ts rf11_vs = 0%nat /\ fits (t_node s) (stmt_total rf11_ts rf11_vs false) = true /\
  forallb no_excluded rf11_ts = true /\ forallb map_ok rf11_ts = false /\
  allocs (snd (log_step true ex_bounded s rf11_ts rf11_vs false)) = [ATempCopy Str (VB (repeat 97 16)); ATempCopy Str (VB (repeat 97 16))] /\
  allocs (snd (log_step false ex_bounded s rf11_ts rf11_vs false)) = [].
Proof. exact steady_no_alloc_refuted_map. Qed.
Print Assumptions C11_steady_no_alloc_refuted_map.

(* "registered" is what the first log call or preallocate() establishes, for good; the size the
   queue is asked for is the statement size of C04 (reserved = written = consumed).  Both variants
   ([mc]); so are the theorems below that quantify over [mc]. *)
Theorem C11_registered_after_first_call : forall mc cf s,
  t_reg (fst (t_step mc cf s OPre)) = true /\
  (forall ts vs dyn, t_reg (fst (t_step mc cf s (OLog ts vs dyn))) = true) /\
  (forall o, t_reg s = true -> t_reg (fst (t_step mc cf s o)) = true) /\
  (forall ts vs dyn cache0, reserved (snd (log_step mc cf s ts vs dyn)) = stmt_total ts vs dyn /\
     stmt_total ts vs dyn = fst (stmt_reserved true cache0 ts vs (if dyn then Some 0 else None))).
Proof.
  exact (fun mc cf s => conj (proj1 (registered_after_first mc cf s)) (conj (proj2 (registered_after_first mc cf s))
        (conj (fun o => t_step_reg_mono mc cf s o)
              (fun ts vs dyn cache0 => conj (log_step_total mc cf s ts vs dyn) (stmt_total_codec ts vs dyn cache0))))).
Qed.
Print Assumptions C11_registered_after_first_call.

(* ------------------------------------------------------------------ non-vacuity / the boundary *)
(* the first call of a thread (and preallocate()) does allocate *)
Theorem C11_first_call_allocates : forall mc cf s ts vs dyn, t_reg s = false ->
  In ACtx (allocs (snd (log_step mc cf s ts vs dyn))) /\ In ACtx (allocs (snd (t_step mc cf s OPre))).
Proof. exact first_call_allocates. Qed.
Print Assumptions C11_first_call_allocates.

(* more cached lengths than the cache holds, in a statement that clears the cache: it allocates *)
Theorem C11_over_capacity_allocates : forall mc cf s ts vs dyn,
  reachable mc cf s -> t_reg s = true -> needs_clear ts = true ->
  iv_cap (t_cache s) < N.of_nat (stmt_cached ts vs) ->
  exists newcap, In (AIvGrow newcap) (allocs (snd (log_step mc cf s ts vs dyn))).
Proof. exact (fun mc cf s ts vs dyn Hre Hr => over_capacity_allocates mc cf s ts vs dyn Hr (reachable_wf mc cf s Hre)). Qed.
Print Assumptions C11_over_capacity_allocates.

(* twelve C strings do not allocate, thirteen do - also when the thirteen lengths come from one
   argument: a std::vector<char const*> of 13 elements is outside "up to twelve variable-length
   C-string arguments" although it is a single listed argument *)
Theorem C11_vector_of_13_cstrings_allocates :
  let s := after_pre ex_bounded in
  allocs (snd (log_step false ex_bounded s (repeat CStr 12) (repeat (cstr 20) 12) false)) = [] /\
  allocs (snd (log_step false ex_bounded s (repeat CStr 13) (repeat (cstr 20) 13) false)) = [AIvGrow 24] /\
  forallb no_excluded [Vec CStr] = true /\ cached_lengths (Vec CStr) (VL (repeat (cstr 3) 13)) = 13%nat /\
  fits (t_node s) (stmt_total [Vec CStr] [VL (repeat (cstr 3) 13)] false) = true /\
  allocs (snd (log_step false ex_bounded s [Vec CStr] [VL (repeat (cstr 3) 13)] false)) = [AIvGrow 24] /\
  allocs (snd (log_step false ex_bounded s [Vec CStr] [VL (repeat (cstr 3) 12)] false)) = [].
Proof. exact twelve_fit_thirteen_allocate. Qed.
Print Assumptions C11_vector_of_13_cstrings_allocates.

(* clear() keeps the grown buffer: the same 13-length statement is silent the second time *)
Theorem C11_grown_cache_is_kept :
  let s1 := fst (log_step false ex_bounded (after_pre ex_bounded) (repeat CStr 13) (repeat (cstr 20) 13) false) in
  iv_cap (t_cache s1) = 24 /\
  allocs (snd (log_step false ex_bounded s1 (repeat CStr 13) (repeat (cstr 20) 13) false)) = [] /\
  iv_cap (t_cache (fst (log_step false ex_bounded s1 [CStr] [cstr 1] false))) = 24.
Proof. exact grown_cache_is_kept. Qed.
Print Assumptions C11_grown_cache_is_kept.

(* the queue: a record that does not fit the current node of an unbounded queue allocates a node
   (when the doubled capacity is allowed); a bounded queue never allocates in a log call *)
Theorem C11_queue_growth : forall mc cf s ts vs dyn, t_reg s = true ->
  (c_unbounded cf = true -> fits (t_node s) (stmt_total ts vs dyn) = false ->
   c_max cf <? grow_cap 64 (n_cap (t_node s) * 2) (stmt_total ts vs dyn) = false ->
   exists cap, In (ANode cap) (allocs (snd (log_step mc cf s ts vs dyn)))) /\
  (c_unbounded cf = false -> forall a, In a (allocs (snd (log_step mc cf s ts vs dyn))) ->
   match a with ANode _ | AShrinkNode _ | AThrowMsg | ACtx => False | _ => True end).
Proof.
  exact (fun mc cf s ts vs dyn Hr => conj (fun Hu => no_fit_grows mc cf s ts vs dyn Hr Hu)
                                          (fun Hb => bounded_never_grows mc cf s ts vs dyn Hb Hr)).
Qed.
Print Assumptions C11_queue_growth.

(* exact fit / miss by one / after the backend drained / shrink, computed on the model *)
Theorem C11_fit_boundary :
  let s := fst (t_run false ex_unbounded (t_init ex_unbounded) [OPre; fill (2048 - 100 - 36)]) in
  stmt_total [StrView] [VB (repeat 120 64)] false = 100 /\
  fits (t_node s) 100 = true /\ fits (t_node s) 101 = false /\
  allocs (snd (log_step false ex_unbounded s [StrView] [VB (repeat 120 64)] false)) = [] /\
  allocs (snd (log_step false ex_unbounded s [StrView] [VB (repeat 120 65)] false)) = [ANode 4096] /\
  allocs (snd (log_step false ex_unbounded (fst (t_step false ex_unbounded s ODrain)) [StrView] [VB (repeat 120 65)] false)) = [] /\
  allocs (snd (t_step false ex_unbounded s (OShrink 1024))) = [AShrinkNode 1024] /\
  allocs (snd (t_step false ex_unbounded s (OShrink 2048))) = [] /\
  (let b := fst (t_run false ex_bounded (t_init ex_bounded) [OPre; fill (8192 - 100 - 36)]) in
   allocs (snd (log_step false ex_bounded b [StrView] [VB (repeat 120 65)] false)) = [] /\
   res (snd (log_step false ex_bounded b [StrView] [VB (repeat 120 65)] false)) = LDropped).
Proof. exact fit_boundary. Qed.
Print Assumptions C11_fit_boundary.

(* the excluded kinds are allocation sources of the model (so the exclusion is visible) *)
Theorem C11_excluded_kinds_allocate :
  let s := after_pre ex_bounded in
  allocs (snd (log_step false ex_bounded s [DeferredAligned 40 8] [VB (repeat 1 40)] false)) = [AUserCopy 40 8] /\
  allocs (snd (log_step false ex_bounded s [Path] [VB (repeat 47 30)] false)) = [APathString 30; APathString 30] /\
  allocs (snd (log_step false ex_bounded s [Vec (Opt Path)] [VL [VO (Some (VB (repeat 47 30)))]] false)) = [APathString 30; APathString 30].
Proof. exact excluded_kinds_allocate. Qed.
Print Assumptions C11_excluded_kinds_allocate.

(* ------------------------------------------------------------------ where formatting runs *)
(* in a frontend step the only user formatters invoked are those of Direct (DirectFormatCodec)
   leaves; a statement without a direct-format type formats nothing on the caller; the backend
   step formats every argument.  Every other kind - in particular every deferred-format kind -
   has formats_on_caller = false. *)
Theorem C11_format_on_backend : forall mc cf s ts vs dyn,
  Forall (fun e => e = (Caller, Direct)) (frontend_fmt_events mc cf s ts vs dyn) /\
  (forallb (fun t => negb (has_direct t)) ts = true -> frontend_fmt_events mc cf s ts vs dyn = []) /\
  (forall t, In t ts -> In (Backend, t) (backend_fmt_events ts)).
Proof. exact format_on_backend. Qed.
Print Assumptions C11_format_on_backend.

Theorem C11_deferred_kinds_not_on_caller :
  (forall k w, formats_on_caller (Fixed k w) = false) /\ formats_on_caller CStr = false /\
  (forall n, formats_on_caller (CharArr n) = false) /\ (forall k, formats_on_caller (LenStr k) = false) /\
  formats_on_caller StringRef = false /\ (forall w a, formats_on_caller (DeferredAligned w a) = false) /\
  (forall t, formats_on_caller t = true -> t = Direct).
Proof. exact deferred_kinds_not_on_caller. Qed.
Print Assumptions C11_deferred_kinds_not_on_caller.

(* ------------------------------------------------------------------ M-IV, re-exported *)
Theorem iv_no_alloc_le_inline : forall ops, peak 0 ops <= IV_INLINE ->
  Forall (fun a => a = false) (snd (iv_run iv_init ops)) /\ iv_cap (fst (iv_run iv_init ops)) = IV_INLINE.
Proof. exact iv_no_alloc_le_inline_thm. Qed.
Print Assumptions iv_no_alloc_le_inline.

Theorem iv_alloc_at_13 :
  (forall x s, iv_size s = iv_cap s -> snd (iv_push x s) = true /\ iv_cap (fst (iv_push x s)) = 2 * iv_cap s) /\
  snd (iv_run iv_init (repeat (IPush 7) 13)) = repeat false 12 ++ [true] /\
  iv_cap (fst (iv_run iv_init (repeat (IPush 7) 13))) = 24.
Proof. exact (conj iv_alloc_when_full iv_alloc_at_13_thm). Qed.
Print Assumptions iv_alloc_at_13.

Theorem iv_clear_keeps_capacity :
  (forall s, iv_cap (iv_clear s) = iv_cap s /\ iv_size (iv_clear s) = 0) /\
  (forall ops s, iv_cap s <= iv_cap (fst (iv_run s ops))).
Proof. exact (conj iv_clear_keeps_capacity_thm iv_cap_monotone). Qed.
Print Assumptions iv_clear_keeps_capacity.

(* ------------------------------------------------------------------ non-vacuity *)
(* a reachable, registered state and a well-typed ten-argument nested statement (with a dynamic level,
   10 cached lengths, a 40-byte std::string, a std::map<std::string, ..> with a 20-byte key - so
   map_ok is false -, a direct-format element) satisfy every hypothesis of C11_steady_no_alloc
   (repaired variant) *)
Example C11_nonvacuous :
  reachable false ex_unbounded (after_pre ex_unbounded) /\ t_reg (after_pre ex_unbounded) = true /\
  wt_zip (map wt ex11_ts) ex11_vs /\
  stmt_cached ex11_ts ex11_vs = 10%nat /\
  fits (t_node (after_pre ex_unbounded)) (stmt_total ex11_ts ex11_vs true) = true /\
  forallb no_excluded ex11_ts = true /\ forallb map_ok ex11_ts = false /\ existsb has_direct ex11_ts = true /\
  allocs (snd (log_step false ex_unbounded (after_pre ex_unbounded) ex11_ts ex11_vs true)) = [].
Proof. exact steady_no_alloc_nonvacuous. Qed.

(* the hypotheses of the pinned statement are satisfiable too (the map keyed by an integer) *)
Example C11_nonvacuous_pinned :
  reachable true ex_unbounded (after_pre ex_unbounded) /\ t_reg (after_pre ex_unbounded) = true /\
  wt_zip (map wt ex11p_ts) ex11p_vs /\
  stmt_cached ex11p_ts ex11p_vs = 10%nat /\
  fits (t_node (after_pre ex_unbounded)) (stmt_total ex11p_ts ex11p_vs true) = true /\
  forallb no_excluded ex11p_ts = true /\ forallb map_ok ex11p_ts = true /\ existsb has_direct ex11p_ts = true /\
  allocs (snd (log_step true ex_unbounded (after_pre ex_unbounded) ex11p_ts ex11p_vs true)) = [].
Proof. exact steady_no_alloc_nonvacuous_pinned. Qed.

Example C11_direct_formats_on_caller :
  frontend_fmt_events false ex_bounded (after_pre ex_bounded) [Arith 4; Direct; DeferredPOD 8; Vec Direct]
    [VB [1; 0; 0; 0]; VB [65]; VB (repeat 0 8); VL [VB [66]; VB [67]]] false
  = repeat (Caller, Direct) 6.
Proof. exact direct_formats_on_caller. Qed.

Example C11_oversize_throws :
  let out := snd (log_step false ex_unbounded (after_pre ex_unbounded) [StrView] [VB (repeat 120 (N.to_nat 70000))] false) in
  allocs out = [AThrowMsg] /\ res out = LThrow.
Proof. exact oversize_throws. Qed.
