(* C09, unbounded-queue clause — a log call whose encoded size does not exceed the queue's maximum capacity
   is not refused for ever on an empty queue.  (Properties_C09.v holds the bounded-queue part.)
   True when the maximum capacity is a power of two, or for records up to the largest power of two not above
   the maximum; refuted otherwise (D13, open finding). *)
From Coq Require Import List NArith Arith Bool.
From Quill Require Import Queue.BQDefs Queue.UQDefs Queue.UQProofs TieC09 TieC02.
Import ListNotations.
Local Open Scope N_scope.

(* For every initial/maximum capacity and history of complete statements, reads, commit_reads and shrinks:
   once the consumer has read everything written and has run commit_read since its last read, every record
   that is at most some power of two not exceeding the maximum is granted (in the current node, or in a
   freshly allocated one) *)
Theorem C09_unbounded_no_stall_general : forall maxc pct recheck c0 ops n m,
  next_pow2 c0 <= maxc -> Forall okop ops ->
  let s := reach maxc pct src_pub_rule recheck src_cbd c0 ops in
  consumed s = written s -> dirty (nq (getn s (cons s))) = false -> 0 < n -> n <= 2 ^ m -> 2 ^ m <= maxc ->
  exists off, snd (uq_prepare_write maxc s n) = WSome off.
Proof.
  exact (fun maxc pct recheck c0 ops n m H Hok =>
           uq_no_stall maxc pct src_pub_rule recheck src_cbd c0 H src_cbd_true ops n m src_publishes_on_drain Hok).
Qed.
Print Assumptions C09_unbounded_no_stall_general.

(* the property as stated, under the hypothesis that the maximum capacity is a power of two *)
Theorem C09_unbounded_no_stall : forall maxc pct recheck c0 ops n,
  next_pow2 c0 <= maxc -> Forall okop ops -> pow2 maxc ->
  let s := reach maxc pct src_pub_rule recheck src_cbd c0 ops in
  consumed s = written s -> dirty (nq (getn s (cons s))) = false -> 0 < n -> n <= maxc ->
  exists off, snd (uq_prepare_write maxc s n) = WSome off.
Proof.
  exact (fun maxc pct recheck c0 ops n H =>
           uq_no_stall_pow2 maxc pct src_pub_rule recheck src_cbd c0 ops n H src_cbd_true src_publishes_on_drain).
Qed.
Print Assumptions C09_unbounded_no_stall.

(* any maximum: records up to prev_pow2(max) = 2^floor(log2 max) *)
Theorem C09_unbounded_no_stall_prev_pow2 : forall maxc pct recheck c0 ops n,
  next_pow2 c0 <= maxc -> Forall okop ops -> 0 < maxc ->
  let s := reach maxc pct src_pub_rule recheck src_cbd c0 ops in
  consumed s = written s -> dirty (nq (getn s (cons s))) = false -> 0 < n -> n <= 2 ^ N.log2 maxc ->
  exists off, snd (uq_prepare_write maxc s n) = WSome off.
Proof.
  exact (fun maxc pct recheck c0 ops n H =>
           uq_no_stall_prev_pow2 maxc pct src_pub_rule recheck src_cbd c0 ops n H src_cbd_true src_publishes_on_drain).
Qed.
Print Assumptions C09_unbounded_no_stall_prev_pow2.

(* D13 (open): maximum 3000 (not a power of two), initial 1024, empty queue, quiescent consumer: a record of
   2500 <= 3000 bytes is refused however often the call is retried, 3001 is rejected with the error, 2048
   (= prev_pow2 3000) is granted *)
Theorem uq_nonpow2_refuted :
  let s := uq_init 1024 in
  consumed s = written s /\ dirty (nq (getn s (cons s))) = false /\ 2500 <= 3000 /\
  (forall k, snd (uq_prepare_write 3000 (retry k s) 2500) = WNone) /\
  snd (uq_prepare_write 3000 s 3001) = WThrow /\ snd (uq_prepare_write 3000 s 2048) = WSome 0.
Proof. exact UQProofs.uq_nonpow2_refuted. Qed.
Print Assumptions uq_nonpow2_refuted.

(* non-vacuity: with maximum 4096 the same request is granted *)
Theorem C09_unbounded_example : snd (uq_prepare_write 4096 (uq_init 1024) 2500) = WSome 0.
Proof. exact uq_pow2_granted. Qed.
Print Assumptions C09_unbounded_example.
