(* C19 — named args: matching text, ordered key/value pairs, one JSON object per line.
   This file holds only the property theorems (each closed by [exact]) and their assumptions.
   Model: Format/NaFmt.v (mini-fmt, sanitising), Format/NaModel.v (scan, contains_named,
   format_and_split, cache, process), Format/NaJson.v (json_line, JSON recogniser).
   libfmt is the Section oracle [apply_spec] (what one replacement field renders to) — it appears
   as a universally quantified function in the statements below.
   The model has two variant flags: [skip] (NaModel.scan_hole: true = the scanner as pinned, which
   steps over a "}}" directly after a placeholder, D11; false = the first '}' closes the placeholder)
   and [esc] (NaJson.json_sink_line: false = the sink as pinned, keys and values appended raw,
   D16; true = every newline of a key or value written as backslash n).  The variant that stands for
   the code is read from the source on every run: TieC19.src_scan_skip, TieC19.src_json_esc (T-src,
   closed by vm_compute).  Theorems about "the code" are stated for these two; the refutations are
   statements about the pinned variants. *)
From Coq Require Import String.
From Coq Require Import List NArith Arith Bool.
From Quill Require Import Format.NaFmt Format.NaModel Format.NaJson Format.NaProofs Format.NaJsonProofs Format.NaExamples.
From Quill Require Import TieC19.
Import ListNotations.

(* For every well-formed template the backend's scanner returns the template with the names removed
   and the (name, spec) list. *)
Theorem C19_scan_print : forall r : tpl,
  wf_tpl r = true -> scan src_scan_skip (print r) = (positional r, holes r).
Proof. exact scan_print_src. Qed.
Print Assumptions C19_scan_print.

(* the T-src facts behind src_scan_skip / src_json_esc *)
Theorem C19_src_variant :
  src_scan_skip = false /\ src_json_esc = true /\
  QuillGen.SrcFacts.sk_c19_scan_text = exp_c19_scan_text /\
  QuillGen.SrcFacts.sk_c19_json_generate_json_message = exp_c19_json_generate_json_message /\
  QuillGen.SrcFacts.sk_c19_json_append_escaping_newlines_text = exp_c19_json_append_escaping_newlines_text.
Proof.
  exact (conj src_scan_skip_false (conj src_json_esc_true
        (conj (proj2 (proj2 (proj2 (proj2 (proj2 c19_skeletons_ok)))))
        (conj (proj1 (proj2 c19_skeletons_ok)) (proj1 (proj2 (proj2 (proj2 c19_skeletons_ok)))))))).
Qed.
Print Assumptions C19_src_variant.

(* the scanner as pinned (skip = true) did so only when no escaped "}}" directly follows a placeholder *)
Theorem C19_scan_print_pinned_partial : forall r : tpl,
  wf_tpl r = true -> ok_adj r = true -> scan true (print r) = (positional r, holes r).
Proof. exact scan_print_pinned. Qed.
Print Assumptions C19_scan_print_pinned_partial.

(* the explicit fuel of the two re-scanning loops of the model (length + 1) is never exhausted, on
   any byte string: more fuel gives the same result *)
Theorem C19_scan_fuel : forall (skip : bool) (s : str) (f : nat) (st : scan_st),
  length s < f ->
  scan_loop skip f s (find_from LB s 0) st = scan_loop skip (S (length s)) s (find_from LB s 0) st.
Proof. exact scan_fuel_irrelevant. Qed.
Print Assumptions C19_scan_fuel.

Theorem C19_contains_fuel : forall (f1 f2 : nat) (s : str) (found : bool),
  length s <= f1 -> length s <= f2 -> cn_outer f1 s found = cn_outer f2 s found.
Proof. exact contains_fuel_irrelevant. Qed.
Print Assumptions C19_contains_fuel.

(* D11 (the pinned scanner, skip = true): without that premise it is false — "braces {{{name}}} end" with 7 *)
Theorem C19_scan_adj_refuted :
  wf_tpl d11_tpl = true /\ ok_adj d11_tpl = false /\
  print d11_tpl = B "braces {{{name}}} end" /\
  (positional d11_tpl, holes d11_tpl) = (B "braces {{{}}} end", [(B "name", [])]) /\
  scan true (print d11_tpl) = (B "braces {{{} end", [(B "name}}", [])]) /\
  scan true (print d11_tpl) <> (positional d11_tpl, holes d11_tpl) /\
  snd (process N dec_oracle no_strings true [] (print d11_tpl) [7%N])
  = {| r_text := Some (B "braces {7 end"); r_named := Some [(B "name}}", B "7")] |} /\
  render N dec_oracle d11_tpl [7%N] = Some (B "braces {7} end").
Proof. exact scan_adj_refuted. Qed.
Print Assumptions C19_scan_adj_refuted.

(* The text handed to the sinks for a named template = the text the positional path produces for
   the name-free template and the same arguments = per-field renderings in template order
   (sanitised when an argument is string related, one trailing newline dropped) — whatever the
   state of the template cache. *)
Theorem C19_text : forall (arg : Type) (apply_spec : str -> arg -> option str) (is_string : arg -> bool)
    (c : cache) (r : tpl) (args : list arg),
  wf_tpl r = true -> first_hole_named r = true -> has_hole r = true -> cache_ok src_scan_skip c ->
  r_text (snd (process arg apply_spec is_string src_scan_skip c (print r) args))
  = sink_text arg apply_spec is_string (positional r) args
  /\ sink_text arg apply_spec is_string (positional r) args
     = option_map (fun x => strip_nl (sanitize_if (has_string arg is_string args) x)) (render arg apply_spec r args).
Proof. exact text_clause_src. Qed.
Print Assumptions C19_text.

(* mini-fmt of the positional string is the structural rendering, for every template and arguments *)
Theorem C19_text_positional : forall (arg : Type) (apply_spec : str -> arg -> option str) (r : tpl) (args : list arg),
  wf_tpl r = true -> mini_fmt arg apply_spec (positional r) args = render arg apply_spec r args.
Proof. exact mini_fmt_positional. Qed.
Print Assumptions C19_text_positional.

(* The structured list: one pair per argument, in argument order, keyed by the placeholder names
   (then _i for surplus arguments), each value rendered with its own spec — provided every field
   renders and no rendering holds the three separator bytes. *)
Theorem C19_pairs : forall (arg : Type) (apply_spec : str -> arg -> option str) (is_string : arg -> bool)
    (c : cache) (r : tpl) (args : list arg) (rs : list str),
  wf_tpl r = true -> first_hole_named r = true -> has_hole r = true -> cache_ok src_scan_skip c ->
  length (holes r) <= length args ->
  renders arg apply_spec (named_specs (holes r) (length args)) args rs ->
  Forall (fun x => has_sep x = false) rs ->
  r_named (snd (process arg apply_spec is_string src_scan_skip c (print r) args))
  = Some (combine (named_keys (holes r) (length args)) (map (sanitize_if (has_string arg is_string args)) rs))
  /\ length rs = length args
  /\ length (named_keys (holes r) (length args)) = length args.
Proof. exact pairs_clause_src. Qed.
Print Assumptions C19_pairs.

(* D12: a value holding \x01\x02\x03 is cut there and every later value shifts (either scanner) *)
Theorem C19_sep_refuted : forall skip : bool,
  wf_tpl d12_tpl = true /\ ok_adj d12_tpl = true /\ first_hole_named d12_tpl = true /\
  renders N d12_oracle (named_specs (holes d12_tpl) 3) [0; 1; 2]%N d12_values /\
  existsb has_sep d12_values = true /\
  r_named (snd (process N d12_oracle no_strings skip [] (print d12_tpl) [0; 1; 2]%N))
  = Some [(B "x", B "1"); (B "y", B "s"); (B "z", B "t")] /\
  r_named (snd (process N d12_oracle no_strings skip [] (print d12_tpl) [0; 1; 2]%N))
  <> Some (combine (named_keys (holes d12_tpl) 3) d12_values) /\
  r_text (snd (process N d12_oracle no_strings skip [] (print d12_tpl) [0; 1; 2]%N))
  = Some ([97; 32; 49; 32; 98; 32; 115; 1; 2; 3; 116; 32; 99; 32; 50; 46; 53]%N).
Proof. exact sep_refuted. Qed.
Print Assumptions C19_sep_refuted.

(* The per-template cache is transparent: what a statement produces does not depend on which
   statements (templates) were processed before it, in which order. *)
Theorem C19_cache_transparent : forall (arg : Type) (apply_spec : str -> arg -> option str) (is_string : arg -> bool)
    (skip : bool) (h1 h2 : list (str * list arg)) (t : str) (args : list arg),
  snd (process arg apply_spec is_string skip (cache_after arg apply_spec is_string skip [] h1) t args)
  = snd (process arg apply_spec is_string skip (cache_after arg apply_spec is_string skip [] h2) t args).
Proof. exact cache_transparent. Qed.
Print Assumptions C19_cache_transparent.

Theorem C19_cache_batch : forall (arg : Type) (apply_spec : str -> arg -> option str) (is_string : arg -> bool)
    (skip : bool) (l : list (str * list arg)) (c : cache),
  cache_ok skip c ->
  process_all arg apply_spec is_string skip c l
  = map (fun ta => snd (process arg apply_spec is_string skip [] (fst ta) (snd ta))) l.
Proof. exact process_all_indep. Qed.
Print Assumptions C19_cache_batch.

(* _contains_named_args says "named" exactly when there is a placeholder, for every well-formed
   template whose first placeholder has a letter-initial name *)
Theorem C19_contains_agrees : forall r : tpl,
  wf_tpl r = true -> first_hole_named r = true -> contains_named (print r) = has_hole r.
Proof. exact contains_agrees. Qed.
Print Assumptions C19_contains_agrees.

(* ... and not in general: the byte following a placeholder is skipped by the detector *)
Theorem C19_contains_refuted :
  (wf_tpl [Hole (B "_a") None; Hole (B "b") None] = true /\
   print [Hole (B "_a") None; Hole (B "b") None] = B "{_a}{b}" /\
   contains_named (B "{_a}{b}") = false) /\
  (wf_tpl [Hole (B "1") None; EscL; Text (B "abc"); EscR] = true /\
   print [Hole (B "1") None; EscL; Text (B "abc"); EscR] = B "{1}{{abc}}" /\
   contains_named (B "{1}{{abc}}") = true).
Proof. exact contains_refuted. Qed.
Print Assumptions C19_contains_refuted.

(* The JSON sink line (either variant of the sink): '{', the seven fixed members in their order
   (message = the original template with every newline replaced by a space), then one member per
   pair the sink was handed (key and value after esc_if: unchanged for esc = false, every newline
   replaced by the two bytes backslash n for esc = true, nothing else touched), then "}\n" *)
Theorem C19_json_shape : forall (esc : bool) (h : hdr) (t : str) (named : option (list (str * str))),
  json_sink_line esc h t named = LB :: join [COMMA] (map mtext (sink_members_of esc h t named)) ++ [RB; NL]
  /\ sink_members_of esc h t named
     = [ (k_timestamp, h_ts h); (k_file_name, h_file h); (k_line, h_line h); (k_thread_id, h_tid h);
         (k_logger, h_logger h); (k_log_level, h_level h); (k_message, no_newlines t) ]
       ++ map (fun kv => (esc_if esc (fst kv), esc_if esc (snd kv))) (opt_pairs named)
  /\ length (no_newlines t) = length t /\ no_nl (no_newlines t) = true
  /\ (forall i, nth i (no_newlines t) 0%N = if N.eqb (nth i t 0%N) NL then SP else nth i t 0%N)
  /\ (forall s, esc_if false s = s)
  /\ (forall s, esc_if true s = flat_map (fun c => if N.eqb c NL then [BSL; 110%N] else [c]) s)
  /\ (forall s, no_nl s = true -> esc_if true s = s).
Proof.
  exact (fun esc h t named => conj (json_sink_line_shape esc h t named) (conj eq_refl
          (conj (proj1 (no_newlines_spec t)) (conj (proj1 (proj2 (no_newlines_spec t))) (conj (proj2 (proj2 (no_newlines_spec t)))
          (conj (fun s => eq_refl) (conj (fun s => eq_refl) esc_nl_id))))))).
Qed.
Print Assumptions C19_json_shape.

(* exactly one '\n', the last byte — for EVERY template and EVERY list of keys and values (the other
   fields come from std::to_string, the file name, the logger name and the level description) *)
Theorem C19_json_one_line : forall (h : hdr) (t : str) (named : option (list (str * str))),
  hdr_ok no_nl h = true ->
  exists body, json_sink_line src_json_esc h t named = body ++ [NL] /\ no_nl body = true.
Proof. exact json_one_line_src. Qed.
Print Assumptions C19_json_one_line.

(* the sink as pinned (esc = false) had that only when no key or value holds a newline ... *)
Theorem C19_json_one_line_pinned_partial : forall (h : hdr) (t : str) (named : option (list (str * str))),
  hdr_ok no_nl h = true -> pairs_ok no_nl (opt_pairs named) = true ->
  exists body, json_sink_line false h t named = body ++ [NL] /\ no_nl body = true.
Proof. exact json_one_line_pinned. Qed.
Print Assumptions C19_json_one_line_pinned_partial.

(* ... D16 (the pinned sink): a newline inside a value is written raw, two lines for one statement *)
Theorem C19_json_nl_refuted :
  hdr_ok no_nl ex_hdr = true /\
  count_occ N.eq_dec (json_sink_line false ex_hdr (B "nl {x}") (Some [(B "x", [97; 10; 98]%N)])) NL = 2 /\
  ~ (exists body, json_sink_line false ex_hdr (B "nl {x}") (Some [(B "x", [97; 10; 98]%N)]) = body ++ [NL]
                  /\ no_nl body = true).
Proof. exact json_nl_refuted. Qed.
Print Assumptions C19_json_nl_refuted.

(* when no byte of any field needs escaping, the line is recognised as the JSON object with
   exactly these members in this order (either variant of the sink) *)
Theorem C19_json_parses : forall (esc : bool) (h : hdr) (t : str) (named : option (list (str * str))),
  hdr_ok plain_str h = true -> plain_str (no_newlines t) = true ->
  pairs_ok plain_str (opt_pairs named) = true ->
  json_parse_line (json_sink_line esc h t named) = Some (members_of h t named).
Proof. exact json_sink_parses. Qed.
Print Assumptions C19_json_parses.

(* with newlines inside keys / values (and otherwise no byte that needs escaping) the line is
   recognised as the JSON object holding the ORIGINAL keys and values: the escape backslash n decodes
   to the newline *)
Theorem C19_json_parses_nl : forall (h : hdr) (t : str) (named : option (list (str * str))),
  hdr_ok plain_str h = true -> plain_str (no_newlines t) = true ->
  pairs_ok (forallb (fun c => plain c || N.eqb c NL)) (opt_pairs named) = true ->
  json_parse_line (json_sink_line src_json_esc h t named) = Some (members_of h t named).
Proof. exact json_parses_nl_src. Qed.
Print Assumptions C19_json_parses_nl.

(* non-vacuity: the premises above are satisfiable together (examples closed by computation) *)
Theorem C19_nonvacuous :
  (wf_tpl ex_tpl_adj = true /\ ok_adj ex_tpl_adj = false /\ first_hole_named ex_tpl_adj = true /\ has_hole ex_tpl_adj = true) /\
  (wf_tpl ex_tpl = true /\ ok_adj ex_tpl = true /\ first_hole_named ex_tpl = true /\ has_hole ex_tpl = true) /\
  (length (holes ex_tpl) <= 5 /\
   renders N dec_oracle (named_specs (holes ex_tpl) 5) [10; 20; 30; 40; 50]%N
           [B "10"; B "20"; B "30"; B "40"; B "50"] /\
   Forall (fun x => has_sep x = false) [B "10"; B "20"; B "30"; B "40"; B "50"]) /\
  (hdr_ok plain_str ex_hdr = true /\ hdr_ok no_nl ex_hdr = true /\
   pairs_ok plain_str [(B "x", B "10")] = true /\ pairs_ok no_nl [(B "x", B "10")] = true) /\
  cache_ok src_scan_skip [] /\
  pairs_ok (forallb (fun c => plain c || N.eqb c NL)) [(B "k", [97; 10; 98]%N)] = true.
Proof.
  exact (conj (conj (proj1 ex_tpl_adj_hyps) (conj (proj1 (proj2 ex_tpl_adj_hyps)) (conj (proj1 (proj2 (proj2 ex_tpl_adj_hyps))) (proj1 (proj2 (proj2 (proj2 ex_tpl_adj_hyps)))))))
        (conj (conj (proj1 ex_tpl_hyps) (conj (proj1 (proj2 ex_tpl_hyps)) (conj (proj1 (proj2 (proj2 ex_tpl_hyps))) (proj1 (proj2 (proj2 (proj2 ex_tpl_hyps)))))))
        (conj (conj (proj1 ex_pairs_hyps) (conj (proj1 (proj2 ex_pairs_hyps)) (proj1 (proj2 (proj2 ex_pairs_hyps)))))
        (conj (conj (proj1 ex_json_hyps) (conj (proj1 (proj2 ex_json_hyps)) (conj (proj1 (proj2 (proj2 (proj2 ex_json_hyps)))) (proj1 (proj2 (proj2 (proj2 (proj2 ex_json_hyps))))))))
              (conj cache_ok_nil_src eq_refl))))).
Qed.
Print Assumptions C19_nonvacuous.

(* ---- the named-argument vector of a reused transit event slot (Format/NaSlot.v) ---- *)
From Quill Require Format.NaSlot ExpectedNaSlot TieBE ExpectedBE.
From QuillGen Require SrcFacts.

(* whatever pairs the slot held (a transit event is reused; an earlier statement's pairs may still be there), after
   _populate_formatted_named_args it holds exactly this statement's (placeholder name, formatted value) pairs, in order *)
Theorem C19_slot_pairs_exact : forall (S : Type) (empty : S) (stale : list (S * S)) (names vals : list S),
  length vals = length names ->
  Format.NaSlot.populate S empty true stale names vals = combine names vals.
Proof. exact Format.NaSlot.populate_exact. Qed.
Print Assumptions C19_slot_pairs_exact.

Theorem C19_slot_refuted_without_resize :
  exists stale names vals, length vals = length names /\
    Format.NaSlot.populate nat 0 false stale names vals <> combine names vals.
Proof. exact Format.NaSlot.populate_refuted_without_resize. Qed.
Print Assumptions C19_slot_refuted_without_resize.

(* T-src: the source resizes the vector to the number of names and assigns keys by index (the variant proved above), and
   the function, the processing of the lowest-timestamp event (which clears the vector after the try/catch) and
   _process_transit_event are, statement by statement, the ones the model was written against *)
Theorem C19_tie_slot :
  QuillGen.SrcFacts.c19_named_args_resized = true /\
  QuillGen.SrcFacts.sk_c19_populate_named_args = Quill.ExpectedNaSlot.sk_c19_populate_named_args /\
  QuillGen.SrcFacts.sk_be_process_lowest_timestamp_transit_event = Quill.ExpectedBE.sk_be_process_lowest_timestamp_transit_event /\
  QuillGen.SrcFacts.sk_be_process_transit_event = Quill.ExpectedBE.sk_be_process_transit_event.
Proof.
  split; [vm_compute; reflexivity|]. split; [vm_compute; reflexivity|].
  exact (conj Quill.TieBE.src_be_process_lowest_timestamp_transit_event Quill.TieBE.src_be_process_transit_event).
Qed.
Print Assumptions C19_tie_slot.
