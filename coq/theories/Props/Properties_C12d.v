(* C12 (d) — WHICH formatted line each sink of a logger is handed.
   This file holds only the property theorems (each closed by [exact]) and their assumptions.

   Vocabulary (Format/PatDispatch.v, Format/PatDispatchProofs.v; formatters: Format/PatModel.v):
     popts = (format pattern, add_metadata_to_multi_line_logs);  sink = (id, optional override
     options, sk_pass = apply_all_filters as a function of level, message line and the LOGGER's
     statement);  dispatch_event hoist v apply_spec lo sinks st lv = the model of
     BackendWorker::_dispatch_transit_event_to_sinks + _process_multi_line_message +
     _write_log_statement: (the (sink id, line) pairs handed to Sink::write_log in order,
     Some code when an exception left the event).  hoist = true is the DEFECTIVE variant in which
     `std::string_view log_to_write = log_statement;` is declared outside the per-sink loop.
     ssink = a sink whose override pattern is given as items (to_sink prints it);
     eff_pat lp s = the override pattern of s if it has one, else the logger's lp;
     spec_line p st m = line_spec p (env_of (with_msg st m)) = the right-hand side of C12_line for
     message line m;  spec_msgs am st = the message lines of C12_multiline_on/off for the LOGGER's
     option am;  spec_sink lp am s st lv = for each message line that passes s's filters, the
     line of s's effective pattern;  lines_for id w = the lines sink id was handed.
     apply_spec = the fmt field-rendering oracle, universally quantified (as in Properties_C12).
     v : pvar = the variant of the formatter code (PatModel.v: width of the MacroMetadata position
     members, literal braces escaped or not): every statement here holds for every variant;
     wfv v p = the valid patterns of the variant (PatProofs.v: wf p, and with the literal braces
     escaped also literal text that holds braces; wf p -> wfv v p for every v). *)
From Coq Require Import List NArith Bool Permutation.
From Quill Require Import Format.PatFmt Format.PatModel Format.PatProofs.
From Quill Require Import Format.PatDispatch Format.PatDispatchProofs TieC12d.
Import ListNotations.

(* ---- T-src: the per-sink loop of the code re-initialises log_to_write; the three methods are
   the ones the model was written against ---- *)
Theorem C12d_tie_reinit_per_sink : QuillGen.SrcFacts.be_log_to_write_reinit_per_sink = true.
Proof. exact src_log_to_write_reinit_per_sink. Qed.
Print Assumptions C12d_tie_reinit_per_sink.

(* T-src: loggers share a formatter only when every member of their pattern options is equal *)
Theorem C12d_tie_formatter_sharing : QuillGen.SrcFacts.pfo_eq_compares_every_member = true.
Proof. exact src_pfo_eq_compares_every_member. Qed.
Print Assumptions C12d_tie_formatter_sharing.

Theorem C12d_tie_skeletons :
  QuillGen.SrcFacts.sk_c12d_write_log_statement = exp_c12d_write_log_statement /\
  QuillGen.SrcFacts.sk_c12d_process_multi_line_message = exp_c12d_process_multi_line_message /\
  QuillGen.SrcFacts.sk_c12d_dispatch_transit_event_to_sinks = exp_c12d_dispatch_transit_event_to_sinks.
Proof. exact c12d_skeletons_ok. Qed.
Print Assumptions C12d_tie_skeletons.

(* ---- the whole event: every write, in order, and no exception ---- *)
Theorem C12d_dispatch : forall v apply_spec lp am ss st lv,
  wfv v lp -> print lp <> [] -> Forall (ssink_wf v) ss ->
  dispatch_event false v apply_spec {| po_pattern := print lp; po_add_meta := am |}
                 (map to_sink ss) st lv
  = (spec_writes v apply_spec lp am ss st lv, None).
Proof. exact dispatch_spec. Qed.
Print Assumptions C12d_dispatch.

(* ... for the variant the source selects (src_hoist = negb of the T-src fact) *)
Theorem C12d_dispatch_code_variant : forall v apply_spec lp am ss st lv,
  wfv v lp -> print lp <> [] -> Forall (ssink_wf v) ss ->
  dispatch_event src_hoist v apply_spec {| po_pattern := print lp; po_add_meta := am |}
                 (map to_sink ss) st lv
  = (spec_writes v apply_spec lp am ss st lv, None).
Proof. exact dispatch_spec_code_variant. Qed.
Print Assumptions C12d_dispatch_code_variant.

(* ---- every sink of the logger receives exactly the lines of ITS OWN effective pattern for the
   message lines its filters pass; the other sinks do not appear on the right-hand side ---- *)
Theorem C12d_sink_receives : forall v apply_spec lp am ss st lv s,
  wfv v lp -> print lp <> [] -> Forall (ssink_wf v) ss -> NoDup (map ss_id ss) -> In s ss ->
  lines_for (ss_id s)
    (fst (dispatch_event false v apply_spec {| po_pattern := print lp; po_add_meta := am |}
                         (map to_sink ss) st lv))
  = spec_sink v apply_spec lp am s st lv.
Proof. exact sink_receives. Qed.
Print Assumptions C12d_sink_receives.

(* independence of the other sinks: the same sink among two different sets of sinks *)
Theorem C12d_sink_independent : forall v apply_spec lp am ss ss' st lv s,
  wfv v lp -> print lp <> [] ->
  Forall (ssink_wf v) ss -> NoDup (map ss_id ss) -> In s ss ->
  Forall (ssink_wf v) ss' -> NoDup (map ss_id ss') -> In s ss' ->
  lines_for (ss_id s)
    (fst (dispatch_event false v apply_spec {| po_pattern := print lp; po_add_meta := am |}
                         (map to_sink ss) st lv))
  = lines_for (ss_id s)
    (fst (dispatch_event false v apply_spec {| po_pattern := print lp; po_add_meta := am |}
                         (map to_sink ss') st lv)).
Proof. exact sink_independent. Qed.
Print Assumptions C12d_sink_independent.

(* independence of the order: any permutation of the logger's sinks *)
Theorem C12d_sink_order_irrelevant : forall v apply_spec lp am ss ss' st lv id,
  wfv v lp -> print lp <> [] -> Forall (ssink_wf v) ss -> NoDup (map ss_id ss) -> Permutation ss ss' ->
  lines_for id
    (fst (dispatch_event false v apply_spec {| po_pattern := print lp; po_add_meta := am |}
                         (map to_sink ss) st lv))
  = lines_for id
    (fst (dispatch_event false v apply_spec {| po_pattern := print lp; po_add_meta := am |}
                         (map to_sink ss') st lv)).
Proof. exact sink_order_irrelevant. Qed.
Print Assumptions C12d_sink_order_irrelevant.

(* a sink whose filters reject the statement receives nothing; nor does a sink of another logger *)
Theorem C12d_sink_filtered_out : forall v apply_spec lp am ss st lv s,
  wfv v lp -> print lp <> [] -> Forall (ssink_wf v) ss -> NoDup (map ss_id ss) -> In s ss ->
  (forall m l, ss_pass s lv m l = false) ->
  lines_for (ss_id s)
    (fst (dispatch_event false v apply_spec {| po_pattern := print lp; po_add_meta := am |}
                         (map to_sink ss) st lv)) = [].
Proof. exact sink_filtered_out. Qed.
Print Assumptions C12d_sink_filtered_out.

Theorem C12d_sink_absent : forall v apply_spec lp am ss st lv id,
  wfv v lp -> print lp <> [] -> Forall (ssink_wf v) ss -> ~ In id (map ss_id ss) ->
  lines_for id
    (fst (dispatch_event false v apply_spec {| po_pattern := print lp; po_add_meta := am |}
                         (map to_sink ss) st lv)) = [].
Proof. exact sink_absent. Qed.
Print Assumptions C12d_sink_absent.

(* the formatter looked up in the other loggers (equal options) is a formatter for the logger's
   own options *)
Theorem C12d_logger_formatter : forall existing o, logger_formatter existing o = o.
Proof. exact logger_formatter_eq. Qed.
Print Assumptions C12d_logger_formatter.

(* ---- non-vacuity: an override sink followed by a plain sink, with the computed outcome ---- *)
Example C12d_nonvacuous : forall v,
  (wfv v pat_L /\ print pat_L <> []) /\
  (Forall (ssink_wf v) [ex_over; ex_plain] /\ NoDup (map ss_id [ex_over; ex_plain])) /\
  dispatch_event false v id_spec (ex_lo true) (map to_sink [ex_over; ex_plain]) (ex_stmt [104; 105]%N) 4
  = ([(0%N, [79; 32; 104; 105; 10]%N); (1%N, [76; 32; 104; 105; 10]%N)], None).
Proof.
  exact (fun v => conj (conj (wf_wfv v _ (proj1 pat_L_wf)) (proj2 pat_L_wf))
                      (conj (ex_sinks_wf v) (ex_dispatch_good v))).
Qed.
Print Assumptions C12d_nonvacuous.

(* ---- refutation of the defective variant (declaration hoisted out of the loop): the plain sink
   behind an override sink is handed the override line, and the order of the sinks matters ---- *)
Theorem C12d_hoisted_refuted : forall v,
  let r := dispatch_event true v id_spec (ex_lo true) (map to_sink [ex_over; ex_plain])
                          (ex_stmt [104; 105]%N) 4 in
  lines_for 1 (fst r) = [[79; 32; 104; 105; 10]%N] /\
  spec_sink v id_spec pat_L true ex_plain (ex_stmt [104; 105]%N) 4 = [[76; 32; 104; 105; 10]%N] /\
  lines_for 1 (fst r) <> spec_sink v id_spec pat_L true ex_plain (ex_stmt [104; 105]%N) 4 /\
  lines_for 1 (fst (dispatch_event true v id_spec (ex_lo true) (map to_sink [ex_plain; ex_over])
                                   (ex_stmt [104; 105]%N) 4)) = [[76; 32; 104; 105; 10]%N].
Proof. exact hoisted_refuted. Qed.
Print Assumptions C12d_hoisted_refuted.

(* ---- the add_metadata_to_multi_line_logs of a sink's OVERRIDE options is never read: the
   splitting follows the logger's option (spec_msgs am above).  Stated for both variants. ---- *)
Theorem C12d_override_add_meta_ignored : forall v hoist apply_spec lo sinks st lv,
  dispatch_event hoist v apply_spec lo (map clear_am sinks) st lv
  = dispatch_event hoist v apply_spec lo sinks st lv.
Proof. exact override_add_meta_ignored. Qed.
Print Assumptions C12d_override_add_meta_ignored.

(* read per sink ("... when add_metadata_to_multi_line_logs is on / off" for the options the sink
   formats with) this refutes the multi-line clause: an override sink with the option off on a
   logger with the option on gets "a\nb" as two statements, and the other way round as one *)
Theorem C12d_refuted_override_multiline_option : forall v,
  lines_for 0 (fst (dispatch_event false v id_spec (ex_lo true) (map to_sink [ex_over_noml])
                                   (ex_stmt [97; 10; 98]%N) 4))
    = [[79; 32; 97; 10]%N; [79; 32; 98; 10]%N] /\
  lines_for 0 (fst (dispatch_event false v id_spec (ex_lo false) (map to_sink [ex_over])
                                   (ex_stmt [97; 10; 98]%N) 4))
    = [[79; 32; 97; 10; 98; 10]%N].
Proof. exact override_multiline_option_refuted. Qed.
Print Assumptions C12d_refuted_override_multiline_option.

(* ---- outside the property's quantifier (an override pattern that is rejected at creation):
   the sink's formatter is created inside the loop, the exception leaves the event, and the sinks
   BEHIND that sink receive nothing (independence of order needs valid override patterns) ---- *)
Theorem C12d_invalid_override_starves_later_sinks : forall v,
  dispatch_event false v id_spec (ex_lo true) [ex_bad; to_sink ex_plain] (ex_stmt [104; 105]%N) 4
  = ([], Some 12%N) /\
  dispatch_event false v id_spec (ex_lo true) [to_sink ex_plain; ex_bad] (ex_stmt [104; 105]%N) 4
  = ([(1%N, [76; 32; 104; 105; 10]%N)], Some 12%N).
Proof. exact invalid_override_starves_later_sinks. Qed.
Print Assumptions C12d_invalid_override_starves_later_sinks.
