(* C18 — backtrace: held back, then the most recent N replayed once, in order.
   This file holds only the property theorems (each closed by [exact]) and their assumptions. *)
From Coq Require Import List NArith.
From Quill Require Import BT.BTModel BT.BTProofs.
Import ListNotations.

(* the configuration the model is run with in the correspondence check (the fixed tree) *)
Definition bt_cfg_fixed := {| reset_index_in_process := true; cap0_guard := true |}.

(* For every capacity and every history of store / flush / re-initialisation, the callbacks the
   storage issues are exactly: nothing on store, and on a flush the most recent min(cap, stored
   since the previous flush) events, oldest first, once; never an out-of-bounds access. *)
Theorem C18_bt_refines : forall ops,
  bt_run bt_cfg_fixed bt_init ops = map (map Some) (spec_run spec_init ops).
Proof. exact (bt_refines bt_cfg_fixed eq_refl). Qed.
Print Assumptions C18_bt_refines.

Theorem C18_flush_emits_most_recent : forall sp,
  snd (spec_step sp Process) = lastn (scap sp) (recent sp) /\
  length (snd (spec_step sp Process)) = Nat.min (scap sp) (length (recent sp)) /\
  recent (fst (spec_step sp Process)) = [].
Proof. exact spec_process_emits. Qed.
Print Assumptions C18_flush_emits_most_recent.

Theorem C18_replayed_once : forall sp,
  snd (spec_step (fst (spec_step sp Process)) Process) = [].
Proof. exact spec_process_twice. Qed.
Print Assumptions C18_replayed_once.

(* the two defects found on the pinned tree, as refutations of the unfixed configurations *)
Theorem C18_refuted_without_index_reset :
  bt_run cfg_noreset bt_init d1_ops <> map (map Some) (spec_run spec_init d1_ops) /\
  nth 10 (bt_run cfg_noreset bt_init d1_ops) [] = [Some 7; Some 5; Some 8]%N /\
  nth 12 (bt_run cfg_noreset bt_init d1_ops) [] = [None].
Proof. exact bt_refuted_index. Qed.
Print Assumptions C18_refuted_without_index_reset.

Theorem C18_refuted_without_cap0_guard :
  bt_run cfg_noguard bt_init [SetCap 0; Store 1; Process]%N
  <> map (map Some) (spec_run spec_init [SetCap 0; Store 1; Process]%N).
Proof. exact bt_refuted_cap0. Qed.
Print Assumptions C18_refuted_without_cap0_guard.
