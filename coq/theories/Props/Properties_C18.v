(* C18 — backtrace: held back, then the most recent N replayed once, in order.
   This file holds only the property theorems (each closed by [exact]) and their assumptions. *)
From Coq Require Import List NArith.
From Quill Require Import BT.BTModel BT.BTProofs Queue.BQDefs Backend.BEDefs Backend.BEDispatch Backend.BEFault Backend.BEBt.
Import ListNotations.
From Quill Require TieMBE.
From Quill Require TieBE ExpectedBE.

(* T-src: the BackendWorker methods this property's part of M-BE re-states are, statement by statement, the ones the model
   was written against and compared with (ExpectedBE.v; the whole loop is tied in Properties_C03.C03_tie_backend_loop) *)
(* T-src: the two abstractions M-BE makes - a thread's queue is an atomic FIFO (C01 / C02), registration and cache refresh
   are atomic steps (registration protocol of C03) - hold for the memory orders, statement orders and shapes found in the
   source (TieMBE.v spells the facts out) *)
Theorem C18_tie_MBE_abstractions : Quill.TieMBE.MBE_abstractions_hold.
Proof. exact Quill.TieMBE.mbe_abstractions. Qed.
Print Assumptions C18_tie_MBE_abstractions.

Theorem C18_tie_backend_methods :
  QuillGen.SrcFacts.sk_be_process_transit_event = Quill.ExpectedBE.sk_be_process_transit_event.
Proof. exact TieBE.src_be_process_transit_event. Qed.
Print Assumptions C18_tie_backend_methods.

(* the configuration the model is run with in the correspondence check (the fixed tree) *)
Definition bt_cfg_fixed := {| reset_index_in_process := true; cap0_guard := true |}.

(* For every capacity and every history of store / flush / re-initialisation, the callbacks the
   storage issues are exactly: nothing on store, and on a flush the most recent min(cap, stored
   since the previous flush) events, oldest first, once; never an out-of-bounds access. *)
Theorem C18_bt_refines : forall (A : Type) (ops : list (bop A)),
  bt_run bt_cfg_fixed bt_init ops = map (map Some) (spec_run spec_init ops).
Proof. exact (fun A => bt_refines A bt_cfg_fixed eq_refl). Qed.
Print Assumptions C18_bt_refines.

Theorem C18_flush_emits_most_recent : forall (A : Type) (sp : btspec A),
  snd (spec_step sp Process) = lastn (scap sp) (recent sp) /\
  length (snd (spec_step sp Process)) = Nat.min (scap sp) (length (recent sp)) /\
  recent (fst (spec_step sp Process)) = [].
Proof. exact spec_process_emits. Qed.
Print Assumptions C18_flush_emits_most_recent.

Theorem C18_replayed_once : forall (A : Type) (sp : btspec A),
  snd (spec_step (fst (spec_step sp Process)) Process) = [].
Proof. exact spec_process_twice. Qed.
Print Assumptions C18_replayed_once.

(* ---- backend level: every access of the backend to a logger's storage is one of the three operations
   above, at the right moment, so C18_bt_refines applies to each logger's storage for every history *)
Theorem C18_held_back : forall K s e, ekind e = KLog -> elvl e = LV_BACKTRACE ->
  let s' := process_event K s e in
  sk s' = sk s /\
  match lbt (lg s (elg e)) with
  | Some b => obs s' = obs s /\ lbt (lg s' (elg e)) = Some (fst (store (c_bt K) e b))
  | None => obs s' = obs s ++ [O_NOTE; 6; 0]%N /\ lg s' = lg s
  end.
Proof. exact bt_held_back. Qed.
Print Assumptions C18_held_back.

Theorem C18_replay_after_trigger : forall K s e, ekind e = KLog -> elvl e <> LV_BACKTRACE ->
  let d := dispatch s e (lsinks (lg s (elg e))) in
  process_event K s e =
    if snd d then add_obs (fst d) [O_NOTE; 5; 0]%N
    else if (lbtlvl (lg (fst d) (elg e)) <=? elvl e)%N
         then (let r := replay_bt K (fst d) (elg e) in if snd r then add_obs (fst r) [O_NOTE; 5; 0]%N else fst r)
         else fst d.
Proof. exact bt_trigger_after_statement. Qed.
Print Assumptions C18_replay_after_trigger.

Theorem C18_flush_replays_process_output : forall K s e b, ekind e = KFlushBt -> lbt (lg s (elg e)) = Some b -> c_bt_catch K = true ->
  process_event K s e = set_lg (fst (replay_events K s (lsinks (lg s (elg e))) (snd (process (c_bt K) b))))
                               (upd (lg (fst (replay_events K s (lsinks (lg s (elg e))) (snd (process (c_bt K) b))))) (elg e)
                                    (set_lbt (lg (fst (replay_events K s (lsinks (lg s (elg e))) (snd (process (c_bt K) b)))) (elg e))
                                             (Some (fst (process (c_bt K) b))))).
Proof. exact bt_flush_event. Qed.
Print Assumptions C18_flush_replays_process_output.

Theorem C18_init_sets_capacity : forall K s e cap fl, ekind e = KInitBt cap fl ->
  lbt (lg (process_event K s e) (elg e)) =
    Some (fst (set_capacity cap (match lbt (lg s (elg e)) with Some b => b | None => bt_init end))) /\
  obs (process_event K s e) = obs s.
Proof. exact bt_init_event. Qed.
Print Assumptions C18_init_sets_capacity.

(* the two defects found on the pinned tree, as refutations of the unfixed configurations *)
Theorem C18_refuted_without_index_reset :
  bt_run cfg_noreset bt_init d1_ops <> map (map Some) (spec_run spec_init d1_ops) /\
  nth 10 (bt_run cfg_noreset bt_init d1_ops) [] = [Some 7; Some 5; Some 8]%N /\
  nth 12 (bt_run cfg_noreset bt_init d1_ops) [] = [None].
Proof. exact bt_refuted_index. Qed.
Print Assumptions C18_refuted_without_index_reset.

Theorem C18_refuted_without_cap0_guard :
  bt_run cfg_noguard bt_init [SetCap 0; Store 1; Process]%N
  <> map (map Some) (spec_run spec_init [SetCap 0; Store 1; Process]%N).
Proof. exact bt_refuted_cap0. Qed.
Print Assumptions C18_refuted_without_cap0_guard.
