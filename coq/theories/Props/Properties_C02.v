(* C02 — unbounded queue: the record stream stays intact across growth / shrink, a retired buffer is never
   accessed again, allocations stay within the configured maximum.
   Only property theorems (closed by [exact]) and their assumptions.
   Two layers: the release/acquire transition system (every interleaving of micro-steps, every legal load
   result; `src_ucfg` = memory orders, re-check and statement orders read from the source on every run) and
   the sequential layer that the correspondence check runs against the real queue. *)
From Coq Require Import List NArith Arith Bool.
From Quill Require Import Queue.BQDefs Queue.BQProofs Queue.UQDefs Queue.UQProofs Queue.UQRAProofs Tie TieC09 TieC02.
Import ListNotations.
Local Open Scope N_scope.

(* ---------------- T-src *)
Theorem C02_tie_skeletons :
  QuillGen.SrcFacts.sk_uq_prepare_write = Quill.ExpectedUQ.sk_uq_prepare_write /\
  QuillGen.SrcFacts.sk_uq__handle_full_queue = Quill.ExpectedUQ.sk_uq__handle_full_queue /\
  QuillGen.SrcFacts.sk_uq_shrink = Quill.ExpectedUQ.sk_uq_shrink /\
  QuillGen.SrcFacts.sk_uq_prepare_read = Quill.ExpectedUQ.sk_uq_prepare_read /\
  QuillGen.SrcFacts.sk_uq__read_next_queue = Quill.ExpectedUQ.sk_uq__read_next_queue /\
  QuillGen.SrcFacts.sk_uq_empty = Quill.ExpectedUQ.sk_uq_empty /\
  QuillGen.SrcFacts.sk_uq_finish_write = Quill.ExpectedUQ.sk_uq_finish_write /\
  QuillGen.SrcFacts.sk_uq_commit_write = Quill.ExpectedUQ.sk_uq_commit_write /\
  QuillGen.SrcFacts.sk_uq_finish_and_commit_write = Quill.ExpectedUQ.sk_uq_finish_and_commit_write /\
  QuillGen.SrcFacts.sk_uq_finish_read = Quill.ExpectedUQ.sk_uq_finish_read /\
  QuillGen.SrcFacts.sk_uq_commit_read = Quill.ExpectedUQ.sk_uq_commit_read /\
  QuillGen.SrcFacts.sk_uq_producer_capacity = Quill.ExpectedUQ.sk_uq_producer_capacity /\
  QuillGen.SrcFacts.sk_uq_capacity = Quill.ExpectedUQ.sk_uq_capacity.
Proof. exact uq_skeletons_ok. Qed.
Print Assumptions C02_tie_skeletons.

(* release store and acquire load of `next`, re-check present, commit_read before delete, and the four
   orders of the bounded queue *)
Theorem C02_tie_config : usufficient src_ucfg = true.
Proof. exact src_ucfg_sufficient. Qed.
Print Assumptions C02_tie_config.

Theorem C02_tie_order_facts :
  QuillGen.SrcFacts.uq_publish_before_switch = true /\ QuillGen.SrcFacts.uq_commit_write_before_publish = true /\
  QuillGen.SrcFacts.uq_delete_before_switch = true /\ QuillGen.SrcFacts.uq_recheck_present = true /\
  QuillGen.SrcFacts.uq_commit_before_delete = true /\ QuillGen.SrcFacts.uq_next_load_after_empty = true.
Proof. exact uq_order_facts_ok. Qed.
Print Assumptions C02_tie_order_facts.

(* ---------------- release/acquire layer: all interleavings, all legal load values, all capacities *)

(* every committed record is received exactly once and in order: the stream the consumer read is a prefix
   of the stream the producer wrote (records tagged with node and start position; no record twice) *)
Theorem C02_fifo : forall maxc c0 ops, next_pow2 c0 <= maxc ->
  let s := rrun maxc src_ucfg c0 ops in (exists k, cglog s = firstn k (wglog s)) /\ NoDup (wglog s).
Proof. exact (fun maxc c0 ops H => uq_fifo maxc src_ucfg src_ucfg_sufficient c0 H ops). Qed.
Print Assumptions C02_fifo.

(* the consumer switches from node j to node j+1 only when every record written to node j has been read
   (`rlost` collects, at every switch, the records of the node being left that were not read) *)
Theorem C02_old_before_new : forall maxc c0 ops, next_pow2 c0 <= maxc -> rlost (rrun maxc src_ucfg c0 ops) = [].
Proof. exact (fun maxc c0 ops H => uq_old_before_new maxc src_ucfg src_ucfg_sufficient c0 H ops). Qed.
Print Assumptions C02_old_before_new.

Theorem C02_node_order : forall maxc c0 ops j nd, next_pow2 c0 <= maxc ->
  let s := rrun maxc src_ucfg c0 ops in nth_error (rnodes s) j = Some nd ->
  ((j < rcons s)%nat -> nread (rn_st nd) = length (wlog (rn_st nd)) /\ rn_freed nd = true) /\
  ((rcons s < j)%nat -> nread (rn_st nd) = 0%nat) /\ ((rcons s <= j)%nat -> rn_freed nd = false).
Proof. exact (fun maxc c0 ops j nd H => uq_node_order maxc src_ucfg src_ucfg_sufficient c0 H ops j nd). Qed.
Print Assumptions C02_node_order.

(* this is what the re-check after the acquiring load of `next` is for: without it, or with a relaxed
   publish / load of `next`, a short schedule loses a committed record (ready-made replays) *)
Theorem C02_old_before_new_needs_recheck :
  rlost (rrun 4096 cfg_norecheck 64 tr_lose) = [(0%nat, (0, 4))] /\
  rlost (rrun 4096 cfg_rlx_next 64 tr_stale) = [(0%nat, (0, 4))] /\
  rlost (rrun 4096 cfg_rlx_load 64 tr_stale) = [(0%nat, (0, 4))].
Proof. exact (conj uq_norecheck_loses (conj uq_relaxed_next_loses uq_relaxed_load_loses)). Qed.
Print Assumptions C02_old_before_new_needs_recheck.

(* neither side ever touches a node after it was deleted *)
Theorem C02_no_uaf : forall maxc c0 ops, next_pow2 c0 <= maxc ->
  ruaf (rrun maxc src_ucfg c0 ops) = false /\ (rcons (rrun maxc src_ucfg c0 ops) <= rprod (rrun maxc src_ucfg c0 ops))%nat.
Proof. exact (fun maxc c0 ops H => uq_no_uaf maxc src_ucfg src_ucfg_sufficient c0 H ops). Qed.
Print Assumptions C02_no_uaf.

(* node-wise the bounded queue's safety invariant holds: no data race on payload bytes in any node *)
Theorem uq_race_free : forall maxc c0 ops j nd, next_pow2 c0 <= maxc ->
  nth_error (rnodes (rrun maxc src_ucfg c0 ops)) j = Some nd -> race (rn_st nd) = false.
Proof. exact (fun maxc c0 ops j nd H => UQRAProofs.uq_race_free maxc src_ucfg src_ucfg_sufficient c0 H ops j nd). Qed.
Print Assumptions uq_race_free.

Theorem C02_node_safety : forall maxc c0 ops j nd, next_pow2 c0 <= maxc ->
  nth_error (rnodes (rrun maxc src_ucfg c0 ops)) j = Some nd -> Inv (rn_cap nd) (rn_st nd).
Proof. exact (fun maxc c0 ops j nd H => uq_node_safety maxc src_ucfg src_ucfg_sufficient c0 H ops j nd). Qed.
Print Assumptions C02_node_safety.

(* every allocation is a power of two and at most the maximum capacity *)
Theorem C02_alloc_bound : forall maxc c0 ops, next_pow2 c0 <= maxc ->
  Forall (fun c => c <= maxc /\ pow2 c) (rallocs (rrun maxc src_ucfg c0 ops)).
Proof. exact (fun maxc c0 ops H => uq_alloc_bound maxc src_ucfg src_ucfg_sufficient c0 H ops). Qed.
Print Assumptions C02_alloc_bound.

(* ---------------- sequential layer (validated against the real queue on every run): all op lists whose
   writes are complete statements (finish_and_commit_write, at least one byte), all capacities *)
Theorem C02_fifo_seq : forall maxc pct recheck c0 ops, next_pow2 c0 <= maxc -> Forall okop ops ->
  let s := reach maxc pct src_pub_rule recheck src_cbd c0 ops in
  consumed s ++ pend (nodes s) = written s /\ consumed s = firstn (length (consumed s)) (written s).
Proof. exact (fun maxc pct recheck c0 ops H => uq_fifo_seq maxc pct src_pub_rule recheck src_cbd c0 H src_cbd_true ops). Qed.
Print Assumptions C02_fifo_seq.

Theorem C02_old_before_new_seq : forall maxc pct recheck c0 ops, next_pow2 c0 <= maxc -> Forall okop ops ->
  lost (reach maxc pct src_pub_rule recheck src_cbd c0 ops) = [].
Proof. exact (fun maxc pct recheck c0 ops H => uq_old_before_new_seq maxc pct src_pub_rule recheck src_cbd c0 H src_cbd_true ops). Qed.
Print Assumptions C02_old_before_new_seq.

Theorem C02_no_uaf_seq : forall maxc pct recheck c0 ops, next_pow2 c0 <= maxc -> Forall okop ops ->
  let s := reach maxc pct src_pub_rule recheck src_cbd c0 ops in
  uaf s = false /\ (cons s <= prod s)%nat /\
  forall j nd, nth_error (nodes s) j = Some nd -> nfreed nd = (j <? cons s)%nat.
Proof. exact (fun maxc pct recheck c0 ops H => uq_no_uaf_seq maxc pct src_pub_rule recheck src_cbd c0 H src_cbd_true ops). Qed.
Print Assumptions C02_no_uaf_seq.

Theorem C02_alloc_bound_seq : forall maxc pct recheck c0 ops, next_pow2 c0 <= maxc -> Forall okop ops ->
  let s := reach maxc pct src_pub_rule recheck src_cbd c0 ops in
  Forall (fun c => c <= maxc /\ pow2 c) (allocs s) /\ frees s = firstn (length (frees s)) (allocs s).
Proof. exact (fun maxc pct recheck c0 ops H => uq_alloc_bound_seq maxc pct src_pub_rule recheck src_cbd c0 H src_cbd_true ops). Qed.
Print Assumptions C02_alloc_bound_seq.

(* a record larger than the maximum is rejected with the error; nothing but the producer's cached reader
   position changes *)
Theorem C02_reject : forall maxc pct recheck c0 ops n, next_pow2 c0 <= maxc -> Forall okop ops -> maxc < n ->
  let s := reach maxc pct src_pub_rule recheck src_cbd c0 ops in
  uq_prepare_write maxc s n = (reloaded s, WThrow).
Proof. exact (fun maxc pct recheck c0 ops n H => uq_reject_seq maxc pct src_pub_rule recheck src_cbd c0 H src_cbd_true ops n). Qed.
Print Assumptions C02_reject.

(* a record within the maximum whose node would exceed the maximum: the reservation fails (caller blocks or
   drops) and nothing else changes *)
Theorem C02_defer : forall maxc pct recheck c0 ops n, next_pow2 c0 <= maxc -> Forall okop ops -> n <= maxc ->
  let s := reach maxc pct src_pub_rule recheck src_cbd c0 ops in
  let y := getn s (prod s) in
  snd (prepare_write ideal (ncap y) (nq y) n) = None -> maxc < grow_cap (ncap y) n ->
  uq_prepare_write maxc s n = (reloaded s, WNone).
Proof. exact (fun maxc pct recheck c0 ops n H => uq_defer_seq maxc pct src_pub_rule recheck src_cbd c0 H src_cbd_true ops n). Qed.
Print Assumptions C02_defer.

Theorem C02_granted_le_max : forall maxc pct recheck c0 ops n off, next_pow2 c0 <= maxc -> Forall okop ops ->
  snd (uq_prepare_write maxc (reach maxc pct src_pub_rule recheck src_cbd c0 ops) n) = WSome off -> n <= maxc.
Proof. exact (fun maxc pct recheck c0 ops n off H => uq_granted_le_max maxc pct src_pub_rule recheck src_cbd c0 H src_cbd_true ops n off). Qed.
Print Assumptions C02_granted_le_max.

(* shrink(c) takes effect iff c <= capacity/2; the producer then continues in a node of next_pow2 c <= capacity/2... *)
Theorem C02_shrink_effect : forall maxc pct recheck c0 ops c, next_pow2 c0 <= maxc -> Forall okop ops ->
  let s := reach maxc pct src_pub_rule recheck src_cbd c0 ops in
  (c <= producer_capacity s / 2 ->
     producer_capacity (uq_shrink s c) = next_pow2 c /\ allocs (uq_shrink s c) = allocs s ++ [next_pow2 c] /\
     next_pow2 c <= producer_capacity s /\ written (uq_shrink s c) = written s /\ consumed (uq_shrink s c) = consumed s) /\
  (producer_capacity s / 2 < c ->
     nodes (uq_shrink s c) = nodes s /\ prod (uq_shrink s c) = prod s /\ allocs (uq_shrink s c) = allocs s).
Proof. exact (fun maxc pct recheck c0 ops c H => uq_shrink_effect_seq maxc pct src_pub_rule recheck src_cbd c0 H src_cbd_true ops c). Qed.
Print Assumptions C02_shrink_effect.

(* non-vacuity of the premises and a history that exercises every mechanism *)
Theorem C02_example_history :
  (Forall okop ex_ops /\ next_pow2 1024 <= 4096) /\
  let s := fst (urun 4096 5 pr_src true true (uq_init 1024) ex_ops) in
  allocs s = [1024; 2048; 256; 4096] /\ frees s = [1024; 2048; 256] /\ consumed s = [1000; 100; 10; 4000] /\
  written s = [1000; 100; 10; 4000] /\ uaf s = false /\ lost s = [].
Proof. exact (conj ex_ok ex_run). Qed.
Print Assumptions C02_example_history.

Theorem C02_example_schedule :
  let s := rrun 4096 cfg_ok 64 tr_keep in
  rlost s = [] /\ cglog s = [(0%nat, (0, 4)); (1%nat, (0, 100))] /\ wglog s = cglog s /\ rcons s = 1%nat /\ ruaf s = false /\
  rallocs s = [64; 128].
Proof. exact uq_recheck_keeps. Qed.
Print Assumptions C02_example_schedule.
