(* C14 — size rotation keeps every statement whole and in order within size/count bounds.
   Only the property theorems (each closed by [exact]) and their assumptions.  Model: Rotate/RotModel.v.

   Reading guide.  [run0 strf rtm c wm rm start d0 ops] = the sink constructed (open mode wm, clean-up
   flag rm, start instant) over directory d0, then the ops (Write id ts wr cnt | Restart wm rm start).
   [strf], [rtm] stand for libc (strftime of an instant; mktime of the adjusted broken-down time).
   Premises that are scope notes of DESIGN section 5 C14, visible in every statement:
     - [strf k t <> []]            strftime("%Y%m%d"...) never returns the empty string;
     - [init_ok c wm d0]           d0 holds no file named stem.*.ext other than possibly the live file
                                   (unrelated files may be present), names are unique, and a pre-existing
                                   live file opened in append mode is within the limit;
     - [Forall (ok_op c) ops]      every restart after the constructor happens under the Index scheme in mode
                                   "a", or in mode "w" with remove_old_files (Date / DateAndTime restarts: not
                                   proved, see report); and, ONLY for the earlier variant of the code that
                                   accounted log_statement.size() (c_cntacct c = true, finding D10), every
                                   write has cnt = wr (bytes written = log_statement.size(); false for
                                   RotatingJsonFileSink, see rot_json_refuted).  For the repaired code
                                   (c_cntacct c = false: size check and _file_size use the bytes the base sink
                                   writes) there is no premise on the writes: rot_ops_code, rot_limit_code.
   The variant that stands for the source tree is TieC14.src_cntacct, read from the source on every run
   (T-src: tools/srcfacts.py rot_facts, TieC14.v by vm_compute): rot_code_variant. *)
From Coq Require Import List NArith Sorted.
From Quill Require Import Rotate.RotFS Rotate.RotModel Rotate.RotChain Rotate.RotInv Rotate.RotRun Rotate.RotRestart
  Rotate.RotProps Rotate.RotSched Rotate.RotTheorems Rotate.RotWitness.
From Quill Require TieC14.
Import ListNotations.
Open Scope N_scope.

(* rot_order: the retained files read oldest first (deque order) are the written sequence minus a prefix
   [del] — the contents of the files deleted at the back of the deque, always the oldest; with overwrite
   off and no restart in mode "w" nothing is missing. *)
Theorem rot_order : forall strf rtm c, (forall k t, strf k t <> []) -> forall wm rm start d0 ops,
  init_ok c wm d0 -> Forall (ok_op c) ops ->
  exists del,
    del ++ retained (run0 strf rtm c wm rm start d0 ops)
      = fs_content (live_path c) (fs (construct strf rtm c wm rm start d0)) ++ writes_of ops /\
    (c_over c = false -> Forall no_w ops -> del = []).
Proof. exact rot_order_thm. Qed.
Print Assumptions rot_order.

(* rot_whole: every retained statement is a written one and, ids being distinct, lies in exactly one
   place of exactly one file (a statement is one element of one file's content: never split). *)
Theorem rot_whole : forall strf rtm c, (forall k t, strf k t <> []) -> forall wm rm start d0 ops,
  init_ok c wm d0 -> Forall (ok_op c) ops ->
  let hist := fs_content (live_path c) (fs (construct strf rtm c wm rm start d0)) ++ writes_of ops in
  NoDup (map sid hist) ->
  NoDup (map sid (retained (run0 strf rtm c wm rm start d0 ops))) /\
  incl (retained (run0 strf rtm c wm rm start d0 ops)) hist.
Proof. exact rot_whole_thm. Qed.
Print Assumptions rot_whole.

(* rot_limit: every rotated file, and the live file while rotation is not stopped, is within the limit
   or exceeds it only by the single statement written into an empty file. *)
Theorem rot_limit : forall strf rtm c, (forall k t, strf k t <> []) -> forall wm rm start d0 ops,
  init_ok c wm d0 -> Forall (ok_op c) ops -> c_limit c <> 0 ->
  let sN := run0 strf rtm c wm rm start d0 ops in
  (forall f, In f (tl (dq sN)) -> ok_size c (fs_content (fname f) (fs sN))) /\
  (stopped c sN = false -> ok_size c (fs_content (live_path c) (fs sN))).
Proof. exact rot_limit_thm. Qed.
Print Assumptions rot_limit.

(* reading of ok_size when statement sizes are positive: within the limit, or one single statement *)
Theorem rot_limit_single : forall c cs, (forall a, In a cs -> 0 < swr a) -> ok_size c cs ->
  fsize cs <= c_limit c \/ length cs = 1%nat.
Proof. exact ok_size_single. Qed.
Print Assumptions rot_limit_single.

(* rot_count: at most max_backup_files rotated files; the files named stem.*.ext on disk are exactly
   the (pairwise distinct) names of the deque; with overwrite off nothing is ever deleted. *)
Theorem rot_count : forall strf rtm c, (forall k t, strf k t <> []) -> forall wm rm start d0 ops,
  init_ok c wm d0 -> Forall (ok_op c) ops ->
  let sN := run0 strf rtm c wm rm start d0 ops in
  (exists t rest, dq sN = mk_live c t :: rest /\ N.of_nat (length rest) <= c_maxb c) /\
  NoDup (names (dq sN)) /\
  (forall p, related c p -> (fs_get p (fs sN) <> None <-> In p (names (dq sN)))) /\
  (c_over c = false -> Forall no_w ops ->
     retained sN = fs_content (live_path c) (fs (construct strf rtm c wm rm start d0)) ++ writes_of ops).
Proof. exact rot_count_thm. Qed.
Print Assumptions rot_count.

(* ... and once the count is reached with overwrite off, _rotate_files changes nothing any more *)
Theorem rot_stops : forall strf c ts s,
  c_over c = false -> c_maxb c < N.of_nat (length (dq s)) -> rotate_files strf c ts s = s.
Proof. exact rot_stops. Qed.
Print Assumptions rot_stops.

(* rot_append_restart (Index scheme): a restart in append mode finds the directory unchanged and
   rebuilds exactly the deque (ghost open instants aside), so the sequence continues. *)
Theorem rot_append_restart : forall strf rtm c, (forall k t, strf k t <> []) -> forall wm rm start d0 ops,
  init_ok c wm d0 -> Forall (ok_op c) ops -> is_index c = true ->
  forall rm' st,
  let sN := run0 strf rtm c wm rm start d0 ops in
  let s' := construct strf rtm c false rm' st (fs sN) in
  fs s' = fs sN /\ dq s' = mk_live c st :: map forget (tl (dq sN)) /\ retained s' = retained sN /\ Good c d0 s'.
Proof. exact rot_append_restart_thm. Qed.
Print Assumptions rot_append_restart.

(* rot_append_restart, Date scheme — PARTIAL: an append-mode restart finds the directory unchanged and
   recovers exactly today's files, in order (premises: strftime("%Y%m%d") gives at least 8 characters,
   no index in use renders as today's date).  Missing: the all-history invariant carrying the
   unrecovered files of earlier dates (they are never renamed or deleted again; with timestamps that
   go backwards they can be overwritten: open finding C14-date-restart-backwards). *)
Theorem rot_append_restart_date_partial : forall strf rtm c, (forall k t, strf k t <> []) -> forall wm rm start d0 ops,
  init_ok c wm d0 -> Forall (ok_op c) ops -> c_scheme c = SDate ->
  forall rm' st,
  let sN := run0 strf rtm c wm rm start d0 ops in
  8 <= N.of_nat (length (strf 0 (st / NS))) ->
  (forall f, In f (tl (dq sN)) -> dec (fidx f) <> strf 0 (st / NS)) ->
  let s' := construct strf rtm c false rm' st (fs sN) in
  fs s' = fs sN /\
  dq s' = mk_live c st :: map forget (filter (today_of (strf 0 (st / NS))) (tl (dq sN))).
Proof. exact rot_append_restart_date_thm. Qed.
Print Assumptions rot_append_restart_date_partial.

(* rot_w_restart: what a constructor in mode "w" with remove_old_files leaves on disk *)
Theorem rot_w_restart : forall strf rtm c start d p,
  fs_get p (fs (construct strf rtm c true true start d)) =
  if path_eqb p (live_path c) then Some []
  else match c_scheme c with
       | SDateTime => fs_get p d
       | _ => if clean_hit c (strf 0 (start / NS)) p then None else fs_get p d
       end.
Proof. exact w_restart_disk. Qed.
Print Assumptions rot_w_restart.

(* rot_names_order, Index scheme: along the deque (newest first) the index strictly increases and a
   rotated file is named stem.<index>.ext — larger index = older. *)
Theorem rot_names_order_index : forall strf rtm c, (forall k t, strf k t <> []) -> forall wm rm start d0 ops,
  init_ok c wm d0 -> Forall (ok_op c) ops -> is_index c = true ->
  let sN := run0 strf rtm c wm rm start d0 ops in
  StronglySorted (fun a b => fidx a < fidx b) (dq sN) /\
  Forall (fun f => fname f = [c_stem c; dec (fidx f); c_ext c]) (tl (dq sN)).
Proof. exact rot_names_index_thm. Qed.
Print Assumptions rot_names_order_index.

(* rot_names_order, Date / DateAndTime (scope note (i) as explicit premises: one run with non-decreasing
   timestamps from the start instant on, strftime monotone w.r.t. an order [dle] on suffixes):
   a newer file never has an earlier suffix, and files with equal suffix have increasing indices. *)
Theorem rot_names_order_date : forall strf rtm c, (forall k t, strf k t <> []) -> forall wm rm start d0,
  clean c d0 -> (wm = false -> fs_content (live_path c) d0 = []) ->
  forall (dle : comp -> comp -> Prop) ops,
  (forall t1 t2, t1 <= t2 -> dle (suffix strf c t1) (suffix strf c t2)) ->
  mono start ops ->
  let sN := run0 strf rtm c wm rm start d0 ops in
  StronglySorted (fun a b => dle (fdt b) (fdt a)) (tl (dq sN)) /\ ordp (dq sN).
Proof. exact names_order_date_thm. Qed.
Print Assumptions rot_names_order_date.

(* unrelated files are never touched *)
Theorem rot_decoys_untouched : forall strf rtm c, (forall k t, strf k t <> []) -> forall wm rm start d0 ops,
  init_ok c wm d0 -> Forall (ok_op c) ops ->
  forall p, ~ related c p -> fs_get p (fs (run0 strf rtm c wm rm start d0 ops)) = fs_get p d0.
Proof. exact rot_decoys_untouched_thm. Qed.
Print Assumptions rot_decoys_untouched.

(* T-src: the variant that stands for the source tree accounts the bytes written (c_cntacct = false), and
   the regenerated skeletons of RotatingSink::write_log / before_stream_write / _size_rotation and
   StreamSink::write_log are the ones the model was written against.  (On a tree without the repair of D10
   TieC14 does not compile and this theorem and the two below are not discharged.) *)
Theorem rot_code_variant :
  TieC14.src_cntacct = false /\
  QuillGen.SrcFacts.sk_rot_write_log = TieC14.exp_rot_write_log /\
  QuillGen.SrcFacts.sk_rot_before_stream_write = TieC14.exp_rot_before_stream_write /\
  QuillGen.SrcFacts.sk_rot_size_rotation = TieC14.exp_rot_size_rotation /\
  QuillGen.SrcFacts.sk_rot_stream_write_log = TieC14.exp_rot_stream_write_log.
Proof. exact (conj TieC14.src_cntacct_false TieC14.c14_skeletons_ok). Qed.
Print Assumptions rot_code_variant.

(* for the code variant the premise of the theorems above is a premise on the restarts only: every
   write - whatever log_statement.size() is (cnt), RotatingJsonFileSink included - is covered *)
Theorem rot_ops_code : forall c ops, c_cntacct c = TieC14.src_cntacct ->
  Forall (ok_restart c) ops -> Forall (ok_op c) ops.
Proof. exact TieC14.ok_ops_src. Qed.
Print Assumptions rot_ops_code.

(* rot_limit for the code variant, without "bytes written = log_statement.size()" *)
Theorem rot_limit_code : forall strf rtm c, (forall k t, strf k t <> []) -> forall wm rm start d0 ops,
  c_cntacct c = TieC14.src_cntacct ->
  init_ok c wm d0 -> Forall (ok_restart c) ops -> c_limit c <> 0 ->
  let sN := run0 strf rtm c wm rm start d0 ops in
  (forall f, In f (tl (dq sN)) -> ok_size c (fs_content (fname f) (fs sN))) /\
  (stopped c sN = false -> ok_size c (fs_content (live_path c) (fs sN))).
Proof.
  exact (fun strf rtm c H1 wm rm start d0 ops E H2 H3 =>
    rot_limit_thm strf rtm c H1 wm rm start d0 ops H2 (TieC14.ok_ops_src c ops E H3)).
Qed.
Print Assumptions rot_limit_code.

(* the seven JSON statements of rot_json_refuted below (200 bytes each, log_statement empty) under the
   repaired code: the sixth write rotates, rot.1.log holds 1000 bytes, the live file 400 *)
Theorem rot_json_code_example :
  Forall (ok_op json_cfg_fixed) json_ops /\
  map (fun e => (fst e, fsize (snd e))) (fs (run0 toy_strf toy_rtm_min json_cfg_fixed true true 0 [] json_ops)) =
  [([[114; 111; 116]; [49]; [108; 111; 103]], 1000); ([[114; 111; 116]; [108; 111; 103]], 400)].
Proof. exact rot_json_fixed_example. Qed.
Print Assumptions rot_json_code_example.

(* D10 (repaired; kept as a statement about the earlier variant json_cfg, c_cntacct = true): accounting
   log_statement.size() instead of the bytes written, rot_limit fails (RotatingJsonFileSink: cnt = 0):
   limit 1024, seven statements of 200 bytes -> one live file of 1400 bytes, never rotated. *)
Theorem rot_json_refuted :
  c_cntacct json_cfg = true /\
  init_ok json_cfg true [] /\ c_limit json_cfg <> 0 /\ stopped json_cfg json_final = false /\
  length (fs_content (live_path json_cfg) (fs json_final)) = 7%nat /\
  fsize (fs_content (live_path json_cfg) (fs json_final)) = 1400 /\
  ~ Lim json_cfg json_final.
Proof. exact (conj eq_refl rot_json_refuted_lem). Qed.
Print Assumptions rot_json_refuted.

(* scope note (i): under the Date scheme the age read off the names needs non-decreasing open instants *)
Theorem rot_date_backwards_refuted :
  Forall (ok_op back_cfg) back_ops /\
  map (fun f => (fdt f, fidx f, map sid (fs_content (fname f) (fs (run0 toy_strf toy_rtm_min back_cfg true true (86400 * S) [] back_ops)))))
      (dq (run0 toy_strf toy_rtm_min back_cfg true true (86400 * S) [] back_ops)) =
  [([], 0, [4]); ([48], 0, [3]); ([49], 0, [1; 2])].
Proof. exact rot_date_backwards_refuted_lem. Qed.
Print Assumptions rot_date_backwards_refuted.
