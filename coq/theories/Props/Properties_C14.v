(* placeholder during development; replaced by the real theorems *)
From Coq Require Import List NArith.
From Quill Require Import Rotate.RotFS Rotate.RotModel.
Theorem C14_placeholder : fsize nil = 0%N.
Proof. exact eq_refl. Qed.
Print Assumptions C14_placeholder.
