(* C05 — output is in global timestamp order when enqueues respect the grace period.
   Only property theorems and their assumptions. *)
From Coq Require Import List NArith Bool Sorting.Sorted.
From Quill Require Import Queue.BQDefs BT.BTModel Backend.BEDefs Backend.BEExec Backend.BEInv Backend.OrdSim TieC05.
From Quill Require Queue.UQDefs.
From Quill Require Backend.Ord.
Import ListNotations.
Local Open Scope N_scope.
From Quill Require TieMBE.
From Quill Require TieBE ExpectedBE.

(* T-src: the BackendWorker methods this property's part of M-BE re-states are, statement by statement, the ones the model
   was written against and compared with (ExpectedBE.v; the whole loop is tied in Properties_C03.C03_tie_backend_loop) *)
(* T-src: the two abstractions M-BE makes - a thread's queue is an atomic FIFO (C01 / C02), registration and cache refresh
   are atomic steps (registration protocol of C03) - hold for the memory orders, statement orders and shapes found in the
   source (TieMBE.v spells the facts out) *)
Theorem C05_tie_MBE_abstractions : Quill.TieMBE.MBE_abstractions_hold.
Proof. exact Quill.TieMBE.mbe_abstractions. Qed.
Print Assumptions C05_tie_MBE_abstractions.

Theorem C05_tie_backend_methods :
  QuillGen.SrcFacts.sk_be_populate_transit_events_from_frontend_queues = Quill.ExpectedBE.sk_be_populate_transit_events_from_frontend_queues /\
  QuillGen.SrcFacts.sk_be_populate_transit_event_from_frontend_queue = Quill.ExpectedBE.sk_be_populate_transit_event_from_frontend_queue /\
  QuillGen.SrcFacts.sk_behas_pending_events_for_caching_when_transit_event_buffer_empty = Quill.ExpectedBE.sk_behas_pending_events_for_caching_when_transit_event_buffer_empty /\
  QuillGen.SrcFacts.sk_be_process_lowest_timestamp_transit_event = Quill.ExpectedBE.sk_be_process_lowest_timestamp_transit_event /\
  QuillGen.SrcFacts.sk_be_poll = Quill.ExpectedBE.sk_be_poll.
Proof. exact (conj TieBE.src_be_populate_transit_events_from_frontend_queues (conj TieBE.src_be_populate_transit_event_from_frontend_queue (conj TieBE.src_behas_pending_events_for_caching_when_transit_event_buffer_empty (conj TieBE.src_be_process_lowest_timestamp_transit_event TieBE.src_be_poll)))). Qed.
Print Assumptions C05_tie_backend_methods.

(* T-src: in the source the thread-context cache is refreshed again after ts_now is read *)
Theorem C05_tie_refresh_after_clock : QuillGen.SrcFacts.be_refresh_after_clock = true.
Proof. exact src_be_refresh_after_clock. Qed.
Print Assumptions C05_tie_refresh_after_clock.

(* Every interleaving of timestamp reads, registrations, enqueues and backend micro-steps across any
   number of threads (op list), every capacity, transit-buffer size, soft/hard limit, blocking or dropping
   queues, level/filter/backtrace activity: if the grace period is non-zero, the cache is refreshed after
   the clock read, formatter exceptions are contained, and every statement is committed no later than
   grace after its timestamp was taken (WG: checked at each commit; trivially true when clock read and
   enqueue are one step), then the sequence of events the backend processes - hence the sequence of
   statements it writes, backtrace replays aside - is sorted by timestamp.
   For unbounded queues WG also asks, at the backend steps concerned, that the queue's answers agree with its
   content: no read pass starts on a queue whose read would return nothing although a later node holds records
   (u_blocked: only without chain following, D17 below), and at the batch-loop test empty() does not answer
   "not empty" for a queue that holds nothing (nospur: a drained node whose unused successor has not been
   switched to yet - the backend then only waits one more poll, which delays but cannot reorder on its own;
   the premise is what the simulation proof needs). Both hold vacuously for bounded queues. *)
Theorem C05_sorted : forall K, c_grace K <> 0 -> c_refresh2 K = true -> c_catch_all K = true ->
  forall s0 ops, init_ok K s0 -> pos_ops ops -> WG K s0 ops ->
  StronglySorted N.le (map ets (plog (run K s0 ops))).
Proof. exact be_sorted. Qed.
Print Assumptions C05_sorted.

(* the same for the timestamp skeleton on its own (all op lists, no premise but the fixed order) *)
Theorem C05_skeleton_sorted : forall grace ops, StronglySorted N.le (Ord.out (Ord.run grace true ops)).
Proof. exact Ord.ord_sorted. Qed.
Print Assumptions C05_skeleton_sorted.

(* D5 (fixed): with the pinned tree's order (cache refreshed only before the clock read) a thread that
   registers and enqueues in between is skipped by the pass, and a later-stamped statement of another
   thread is written first *)
Definition K_d5 (rf2 : bool) : cfg :=
  {| c_cap := 1024; c_batch := 51; c_pub := {| on_batch := true; on_drain := true |}; c_dropping := false;
     c_tinit := 4; c_soft := 4; c_hard := 8; c_grace := 1; c_bits := 32; c_refresh2 := rf2; c_catch_all := true;
     c_report_first := true; c_bt := {| reset_index_in_process := true; cap0_guard := true |}; c_bt_catch := true; c_flush_iv := 0; c_follow := true |}.
Definition d5_cmds : list cmd :=
  [CLog 0 (mk_ev 1 0 4 50 0) false; CTick 5; CPoll []; CPoll [];
   CPoll [(1, 0, [CLog 1 (mk_ev 2 0 4 50 0) false; CTick 1; CLog 0 (mk_ev 3 0 4 50 0) false; CTick 2])];
   CPoll []; CPoll []; CPoll []].
Definition d5_out (rf2 : bool) : list N :=
  map ets (plog (fst (exec_all (K_d5 rf2) (st0 1000 1 1 (fun _ => mk_lgr 0 [0%nat]) (fun _ => mk_snk 0 [])) d5_cmds))).

Theorem C05_refuted_old_order : d5_out false = [1000; 1006; 1005] /\ d5_out true = [1000; 1005; 1006].
Proof. vm_compute. split; reflexivity. Qed.
Print Assumptions C05_refuted_old_order.

(* with a zero grace period the mechanism is switched off (ts_now = max, the documented meaning of 0):
   a pass that has read thread 0's queue, then both threads enqueue, then reads thread 1's queue, writes the
   later stamp first - so the premise grace <> 0 of C05_sorted is needed *)
Definition K_g0 : cfg :=
  {| c_cap := 1024; c_batch := 51; c_pub := {| on_batch := true; on_drain := true |}; c_dropping := false;
     c_tinit := 4; c_soft := 4; c_hard := 8; c_grace := 0; c_bits := 32; c_refresh2 := true; c_catch_all := true;
     c_report_first := true; c_bt := {| reset_index_in_process := true; cap0_guard := true |}; c_bt_catch := true; c_flush_iv := 0; c_follow := true |}.
Definition g0_cmds : list cmd :=
  [CLog 0 (mk_ev 1 0 4 50 0) false; CLog 1 (mk_ev 2 0 4 50 0) false; CPoll []; CPoll []; CPoll []; CTick 5;
   CPoll [(3, 1, [CTick 1; CLog 0 (mk_ev 3 0 4 50 0) false; CTick 1; CLog 1 (mk_ev 4 0 4 50 0) false])];
   CPoll []; CPoll []].
Theorem C05_grace0_refuted :
  map ets (plog (fst (exec_all K_g0 (st0 1000 1 1 (fun _ => mk_lgr 0 [0%nat]) (fun _ => mk_snk 0 [])) g0_cmds)))
  = [1000; 1000; 1007; 1006].
Proof. vm_compute. reflexivity. Qed.
Print Assumptions C05_grace0_refuted.

(* T-src: the backend's read of an unbounded queue keeps following the node chain while the node it switched
   to is empty (otherwise a pass can miss an eligible statement: D17 below) *)
Theorem C05_tie_unbounded_read_follows_chain : QuillGen.SrcFacts.be_unbounded_read_follows_chain = true.
Proof. exact src_be_unbounded_read_follows_chain. Qed.
Print Assumptions C05_tie_unbounded_read_follows_chain.

(* D17 (found by the correspondence on the pinned tree, fixed): an unbounded queue whose thread shrank it to 128
   bytes and then logged a 145-byte statement has a drained node, the unused 128-byte node and a third node
   holding the statement; prepare_read follows one link per call, so the pass that should have read statement 1
   (stamp 1000) reads nothing from that thread and the single-event path writes thread 1's later statement
   (stamp 1001) first. With chain following the order is right. (This is the state excluded by the premise
   "not u_blocked" inside WG; with chain following it does not arise in any run compared with the real code.) *)
Definition K_d17 (follow : bool) : cfg :=
  {| c_cap := 2 ^ 40; c_batch := 2 ^ 40 / 20; c_pub := {| on_batch := true; on_drain := true |}; c_dropping := false;
     c_tinit := 4; c_soft := 4; c_hard := 8; c_grace := 1000; c_bits := 32; c_refresh2 := true; c_catch_all := true;
     c_report_first := true; c_bt := {| reset_index_in_process := true; cap0_guard := true |}; c_bt_catch := true; c_flush_iv := 0; c_follow := follow |}.
Definition d17_cmds : list cmd :=
  [CShrink 0 128; CLog 0 (mk_ev 1 0 4 145 0) false; CTick 1; CLog 1 (mk_ev 2 0 4 45 0) false; CTick 5000;
   CPoll []; CPoll []; CPoll []; CPoll []].
Definition d17_out (follow : bool) : list N :=
  let s0 := st0 1000 1 1 (fun _ => mk_lgr 0 [0%nat]) (fun _ => mk_snk 0 []) in
  let s0 := set_th s0 (fun _ => set_thr_uqs thr0 (Some (Queue.UQDefs.uq_init 256))) in
  map ets (plog (fst (exec_all (K_d17 follow) s0 d17_cmds))).
Theorem C05_refuted_without_chain_following : d17_out false = [1001; 1000] /\ d17_out true = [1000; 1001].
Proof. vm_compute. split; reflexivity. Qed.
Print Assumptions C05_refuted_without_chain_following.
