(* C10 — a statement that cannot be formatted or a sink that throws disturbs nothing else.
   Only property theorems and their assumptions. (Every other statement delivered exactly once and in
   order = C03_conservation, which quantifies over all formatter outcomes and throw plans.) *)
From Coq Require Import List NArith Bool.
From Quill Require Import Queue.BQDefs BT.BTModel Backend.BEDefs Backend.BEExec Backend.BEInv Backend.BEDispatch Backend.BEFault TieC10.
Import ListNotations.
Local Open Scope N_scope.
From Quill Require TieMBE.
From Quill Require TieBE ExpectedBE.

(* T-src: the BackendWorker methods this property's part of M-BE re-states are, statement by statement, the ones the model
   was written against and compared with (ExpectedBE.v; the whole loop is tied in Properties_C03.C03_tie_backend_loop) *)
(* T-src: the two abstractions M-BE makes - a thread's queue is an atomic FIFO (C01 / C02), registration and cache refresh
   are atomic steps (registration protocol of C03) - hold for the memory orders, statement orders and shapes found in the
   source (TieMBE.v spells the facts out) *)
Theorem C10_tie_MBE_abstractions : Quill.TieMBE.MBE_abstractions_hold.
Proof. exact Quill.TieMBE.mbe_abstractions. Qed.
Print Assumptions C10_tie_MBE_abstractions.

Theorem C10_tie_backend_methods :
  QuillGen.SrcFacts.sk_be_populate_formatted_log_message = Quill.ExpectedBE.sk_be_populate_formatted_log_message /\
  QuillGen.SrcFacts.sk_be_populate_transit_event_from_frontend_queue = Quill.ExpectedBE.sk_be_populate_transit_event_from_frontend_queue /\
  QuillGen.SrcFacts.sk_be_process_lowest_timestamp_transit_event = Quill.ExpectedBE.sk_be_process_lowest_timestamp_transit_event /\
  QuillGen.SrcFacts.sk_be_flush_and_run_active_sinks = Quill.ExpectedBE.sk_be_flush_and_run_active_sinks.
Proof. exact (conj TieBE.src_be_populate_formatted_log_message (conj TieBE.src_be_populate_transit_event_from_frontend_queue (conj TieBE.src_be_process_lowest_timestamp_transit_event TieBE.src_be_flush_and_run_active_sinks))). Qed.
Print Assumptions C10_tie_backend_methods.

Theorem C10_tie_catches :
  QuillGen.SrcFacts.be_format_catch_all = true /\ QuillGen.SrcFacts.be_format_catch_std = true /\
  QuillGen.SrcFacts.be_bt_replay_catch = true.
Proof. exact (conj src_be_format_catch_all (conj src_be_format_catch_std src_be_bt_replay_catch)). Qed.
Print Assumptions C10_tie_catches.

(* whatever a user formatter throws, nothing escapes the decode loop ... *)
Theorem C10_no_escape : forall K fuel lim tn, c_catch_all K = true -> forall x total notes,
  snd (read_loop K fuel lim tn x total notes) = false.
Proof. exact read_loop_no_escape. Qed.
Print Assumptions C10_no_escape.

(* ... and the record is consumed: it moves to the transit buffer with exactly the notifications of
   its own formatting outcome (one for a failing formatter, none otherwise) *)
Theorem C10_record_consumed : forall K lim tn x e rest q1 off, c_catch_all K = true -> u_blocked K x = false ->
  prepare_read ideal (c_cap K) (q x) = (q1, Some off) -> qev x = e :: rest ->
  (negb (c_grace K =? 0) && (tn <? ets e)) = false ->
  exists x1 total notes, read_loop K 1 lim tn x 0 [] = (x1, total, notes, false) /\
    qev x1 = rest /\ tbuf x1 = tbuf x ++ [e] /\ total = esz e /\ notes = fmt_notes e.
Proof. exact read_one_consumes. Qed.
Print Assumptions C10_record_consumed.

Theorem C10_one_notification_per_failing_statement : forall e, fmt_notes e =
  match ekind e, efmt e with KFlush, _ => [] | _, FOk => [] | _, _ => [O_NOTE; 3; 0] end.
Proof. exact fmt_notes_spec. Qed.
Print Assumptions C10_one_notification_per_failing_statement.

(* processing pops exactly the chosen event whatever the sinks do (no retry of the same event) *)
Theorem C10_process_pops_one : forall K s u e, min_front s (cache s) None = Some (u, e) ->
  match ekind e with KFlush => True | _ =>
    let s' := fst (process_min K s) in
    tbuf (th s' u) = tl (tbuf (th s u)) /\ (forall v, v <> u -> th s' v = th s v) /\
    delivered s' u = delivered s u ++ [eid e] /\ plog s' = plog s ++ [e]
  end.
Proof. exact process_min_pops. Qed.
Print Assumptions C10_process_pops_one.

(* a throwing sink: at most that one statement is missing from that sink and the sinks after it *)
Theorem C10_sink_throw_scope : forall s e ks k, NoDup ks -> In k ks ->
  (In k (written s e ks) <->
   passes_sink s e k = true /\ throws_now s k = false /\
   forall pre post, ks = pre ++ k :: post -> some_throws s e pre = false).
Proof. exact written_iff. Qed.
Print Assumptions C10_sink_throw_scope.

(* F6: a sink failure during a backtrace replay is contained per event; the storage is always cleared *)
Theorem C10_bt_replay_clears : forall K s l b, c_bt_catch K = true -> lbt (lg s l) = Some b ->
  snd (replay_bt K s l) = false /\ lbt (lg (fst (replay_bt K s l)) l) = Some (fst (process (c_bt K) b)).
Proof. exact replay_bt_clears. Qed.
Print Assumptions C10_bt_replay_clears.

(* D4 (fixed): without the catch-all a non-std exception of a user formatter is never consumed: every poll
   re-reads the same record and reports again; the poll is aborted before anything is processed, so nothing
   is ever written (not even the statement logged before the failing one) *)
Definition K_d4 (ca : bool) : cfg :=
  {| c_cap := 1024; c_batch := 51; c_pub := {| on_batch := true; on_drain := true |}; c_dropping := false;
     c_tinit := 4; c_soft := 4; c_hard := 8; c_grace := 0; c_bits := 32; c_refresh2 := true; c_catch_all := ca;
     c_report_first := true; c_bt := {| reset_index_in_process := true; cap0_guard := true |}; c_bt_catch := true; c_flush_iv := 0; c_follow := true |}.
Definition d4_cmds : list cmd :=
  [CLog 0 (mk_ev 1 0 4 50 0) false; CLog 0 (mk_ev 2 0 4 50 2) false; CLog 0 (mk_ev 3 0 4 50 0) false] ++ repeat (CPoll []) 6.
Definition d4_state (ca : bool) : st :=
  fst (exec_all (K_d4 ca) (st0 1000 1 1 (fun _ => mk_lgr 0 [0%nat]) (fun _ => mk_snk 0 [])) d4_cmds).
Theorem C10_reread_refuted_without_catch_all :
  length (qev (th (d4_state false) 0)) = 2%nat /\ delivered (d4_state false) 0 = [] /\
  length (qev (th (d4_state true) 0)) = 0%nat /\ delivered (d4_state true) 0 = [1; 2; 3].
Proof. vm_compute. repeat split; reflexivity. Qed.
Print Assumptions C10_reread_refuted_without_catch_all.
