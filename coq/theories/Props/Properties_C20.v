(* C20 — exited threads: drained, then reclaimed. Only property theorems and their assumptions.
   (Shrinking concerns the unbounded queue, which M-BE does not model yet: not covered here.) *)
From Coq Require Import List NArith Bool.
From Quill Require Import Queue.BQDefs Backend.BEDefs Backend.BEInv Backend.BECount Backend.BECtx TieC20.
From Quill Require Backend.BEUnreg Backend.BEInv.
From Quill Require TieCtx.
Import ListNotations.
Local Open Scope N_scope.
From Quill Require TieMBE.
From Quill Require TieBE ExpectedBE.

(* T-src: the BackendWorker methods this property's part of M-BE re-states are, statement by statement, the ones the model
   was written against and compared with (ExpectedBE.v; the whole loop is tied in Properties_C03.C03_tie_backend_loop) *)
(* T-src: the two abstractions M-BE makes - a thread's queue is an atomic FIFO (C01 / C02), registration and cache refresh
   are atomic steps (registration protocol of C03) - hold for the memory orders, statement orders and shapes found in the
   source (TieMBE.v spells the facts out) *)
Theorem C20_tie_MBE_abstractions : Quill.TieMBE.MBE_abstractions_hold.
Proof. exact Quill.TieMBE.mbe_abstractions. Qed.
Print Assumptions C20_tie_MBE_abstractions.

Theorem C20_tie_backend_methods :
  QuillGen.SrcFacts.sk_be_cleanup_invalidated_thread_contexts = Quill.ExpectedBE.sk_be_cleanup_invalidated_thread_contexts /\
  QuillGen.SrcFacts.sk_be_update_active_thread_contexts_cache = Quill.ExpectedBE.sk_be_update_active_thread_contexts_cache /\
  QuillGen.SrcFacts.sk_be_check_frontend_queues_and_cached_transit_events_empty = Quill.ExpectedBE.sk_be_check_frontend_queues_and_cached_transit_events_empty.
Proof. exact (conj TieBE.src_be_cleanup_invalidated_thread_contexts (conj TieBE.src_be_update_active_thread_contexts_cache TieBE.src_be_check_frontend_queues_and_cached_transit_events_empty)). Qed.
Print Assumptions C20_tie_backend_methods.

(* T-src: an exited thread's context is removed only when its queue and its transit event buffer are both empty *)
Theorem C20_tie_ctx_removal_guard : QuillGen.SrcFacts.be_ctx_removal_requires_empty_buffer = true.
Proof. exact TieCtx.src_be_ctx_removal_requires_empty_buffer. Qed.
Print Assumptions C20_tie_ctx_removal_guard.

(* T-src: the dead-context counter is at least 32 bits wide *)
Theorem C20_tie_counter_width : 32 <= QuillGen.SrcFacts.tcm_invalid_count_bits.
Proof. exact src_counter_width. Qed.
Print Assumptions C20_tie_counter_width.

(* for every op list (any number of thread starts/exits, any interleaving with backend steps): the
   registry holds each context once, the counter equals the number of registered contexts whose
   thread has exited (mod 2^bits), and the backend's cache only holds registered contexts *)
Theorem C20_counter_tracks : forall K s0 ops, registered s0 = [] -> cache s0 = [] -> invalid_cnt s0 = 0 ->
  let s := run K s0 ops in
  NoDup (registered s) /\ invalid_cnt s = ndead (th s) (registered s) mod 2 ^ c_bits K /\ incl (cache s) (registered s).
Proof. exact be_counter. Qed.
Print Assumptions C20_counter_tracks.

(* clean-up is attempted (counter non-zero) exactly when a dead context is registered, provided fewer
   than 2^bits exited threads are waiting for reclamation (2^32 with the width read from the source) *)
Theorem C20_cleanup_triggered_iff : forall K s, CInv K s -> ndead (th s) (registered s) < 2 ^ c_bits K ->
  (invalid_cnt s = 0 <-> ndead (th s) (registered s) = 0).
Proof. exact counter_zero_iff. Qed.
Print Assumptions C20_cleanup_triggered_iff.

(* drained first: a context is only ever removed when its thread is dead, its queue empty and its
   transit buffer empty (find_dead is the only way into the removal), so by C03_conservation every
   statement of an exited thread is delivered before its context goes *)
Theorem C20_removed_only_when_drained : forall K s l, Good K s ->
  forall u, snd (find_dead s l) = Some u ->
  qev (th (fst (find_dead s l)) u) = [] /\ tbuf (th (fst (find_dead s l)) u) = [].
Proof. exact (fun K s l G => proj1 (proj2 (find_dead_good K s l G))). Qed.
Print Assumptions C20_removed_only_when_drained.

(* D2 (fixed): with the pinned tree's 8-bit counter, 256 exits between two clean-ups wrap it to zero:
   256 dead contexts registered, counter 0, no clean-up is ever attempted *)
Definition K_d2 (bits : N) : cfg :=
  {| c_cap := 1024; c_batch := 51; c_pub := {| on_batch := true; on_drain := true |}; c_dropping := false;
     c_tinit := 4; c_soft := 4; c_hard := 8; c_grace := 0; c_bits := bits; c_refresh2 := true; c_catch_all := true;
     c_report_first := true; c_bt := {| BT.BTModel.reset_index_in_process := true; BT.BTModel.cap0_guard := true |}; c_bt_catch := true; c_flush_iv := 0; c_follow := true |}.
Definition d2_ops : list op :=
  flat_map (fun t => [F (FClock t {| eid := N.of_nat t; ets := 0; ekind := KLog; elg := 0; elvl := 4; esz := 50; efmt := FOk; enamed := 0 |});
                      F (FReg t); F (FTry t); F (FExit t)]) (seq 0 256).
Definition d2_init : st :=
  {| clock := 0; th := fun _ => thr0; registered := []; newflag := false; invalid_cnt := 0; cache := []; pc := PIdle;
     tsnow := 0; lg := fun _ => mk_lgr 0 []; sk := fun _ => mk_snk 0 [];
     nsinks := 0; nloggers := 1; lastfl := 0; flags := []; obs := []; issued := fun _ => []; delivered := fun _ => []; plog := [];
     gh := {| g_denied := 0; g_reported := 0; g_lost := 0 |} |}.

Theorem C20_wrap_refuted_with_8_bits :
  let s8 := run (K_d2 8) d2_init d2_ops in let s32 := run (K_d2 32) d2_init d2_ops in
  ndead (th s8) (registered s8) = 256 /\ invalid_cnt s8 = 0 /\
  ndead (th s32) (registered s32) = 256 /\ invalid_cnt s32 = 256.
Proof. vm_compute. repeat split; reflexivity. Qed.
Print Assumptions C20_wrap_refuted_with_8_bits.

(* a thread without a registered context - it never registered, or it exited and its context was reclaimed -
   holds nothing: queue and transit buffer are empty and everything it committed has been processed; for
   every configuration and every interleaving *)
Theorem C20_reclaimed_lost_nothing : forall K s0 ops,
  (forall t, fresh_thr (th s0 t) /\ issued s0 t = [] /\ delivered s0 t = []) -> pos_ops ops ->
  let s := run K s0 ops in
  forall t, ~ In t (registered s) ->
    qev (th s t) = [] /\ tbuf (th s t) = [] /\ issued s t = delivered s t.
Proof.
  intros K s0 ops H0 Hp s t Hn.
  assert (P0 : Backend.BEUnreg.PU s0) by (intro u; right; destruct (H0 u) as ((v & ->) & _); split; reflexivity).
  destruct (Backend.BEUnreg.run_pu K ops s0 P0 t) as [Hin|[A B]]; [contradiction|].
  split; [exact A|]. split; [exact B|].
  pose proof (be_conservation K s0 ops H0 Hp t) as Hc. cbv zeta in Hc. fold s in Hc. unfold s in A, B. fold s in A, B.
  rewrite A, B in Hc. cbn in Hc. now rewrite app_nil_r in Hc.
Qed.
Print Assumptions C20_reclaimed_lost_nothing.

(* ---- shrinking the backend buffer: the slot array of TransitEventBuffer (M-TEB) ---- *)
From Quill Require TEB.TEBModel TEB.TEBProofs TieTEB.

(* T-src: the TransitEventBuffer methods are the ones M-TEB mirrors (variant selected by the source = the proved one);
   the backend requests a shrink when the frontend queue was shrunk and tries it when everything is empty *)
Theorem C20_tie_transit_buffer : Quill.TieTEB.TEB_tie_holds.
Proof. exact Quill.TieTEB.TEB_tie. Qed.
Print Assumptions C20_tie_transit_buffer.

(* in every reachable buffer (any initial capacity, any history of commits, abandoned fills, pops, shrink requests
   and shrink attempts): try_shrink() changes no queued event; it acts exactly when a shrink was requested and the
   buffer is empty, and the capacity is then the initial capacity (the requested one rounded up to a power of two) *)
Theorem C20_backend_buffer_shrink_exact : forall (A : Type) (dflt : A) (c0 : N) (ops : list (TEB.TEBModel.top A)),
  let s := TEB.TEBProofs.teb_exec A dflt (TEB.TEBModel.teb_init A dflt c0) ops in
  let s' := TEB.TEBModel.teb_step A dflt TEB.TEBModel.tcfg_good s TEB.TEBModel.OShrink in
  TEB.TEBModel.teb_abs A dflt s' = TEB.TEBModel.teb_abs A dflt s /\
  (if TEB.TEBModel.shr s && TEB.TEBModel.teb_empty A s
   then TEB.TEBModel.cap s' = TEB.TEBModel.icap s /\ TEB.TEBModel.shr s' = false else s' = s) /\
  TEB.TEBModel.icap s = TEB.TEBModel.tnext_pow2 c0.
Proof. exact TEB.TEBProofs.teb_shrink_exact. Qed.
Print Assumptions C20_backend_buffer_shrink_exact.

(* the whole history, shrinks included, shows what a plain list shows: nothing lost, duplicated or reordered *)
Theorem C20_backend_buffer_refines_fifo : forall (A : Type) (dflt : A) (c0 : N) (ops : list (TEB.TEBModel.top A)),
  TEB.TEBModel.teb_run A dflt TEB.TEBModel.tcfg_good (TEB.TEBModel.teb_init A dflt c0) ops =
  TEB.TEBModel.fifo_run A (TEB.TEBModel.fifo_init A c0) ops.
Proof. exact TEB.TEBProofs.teb_refines_fifo. Qed.
Print Assumptions C20_backend_buffer_refines_fifo.

(* the emptiness guard of try_shrink() is needed: without it queued events are lost *)
Theorem C20_backend_buffer_refuted_shrink_nonempty :
  exists c0 ops, TEB.TEBProofs.differs TEB.TEBProofs.K_shrink_any c0 ops = true.
Proof. exact TEB.TEBProofs.teb_refuted_shrink_nonempty. Qed.
Print Assumptions C20_backend_buffer_refuted_shrink_nonempty.

(* non-vacuity: a history in which the ring wraps, grows while wrapped and shrinks back *)
Theorem C20_backend_buffer_example :
  map TEB.TEBModel.teb_enc_obs (TEB.TEBModel.teb_run N 0 TEB.TEBModel.tcfg_good (TEB.TEBModel.teb_init N 0 2)
    [TEB.TEBModel.OPut 1; TEB.TEBModel.OPop; TEB.TEBModel.OPut 2; TEB.TEBModel.OPut 3; TEB.TEBModel.OPut 4;
     TEB.TEBModel.OReq; TEB.TEBModel.OPop; TEB.TEBModel.OPop; TEB.TEBModel.OPop; TEB.TEBModel.OShrink])
  = [[2;1;2]; [0;0;2]; [3;1;2]; [3;2;2]; [3;3;4]; [3;3;4]; [4;2;4]; [5;1;4]; [0;0;4]; [0;0;2]].
Proof. exact TEB.TEBProofs.teb_history_wraps_grows_shrinks. Qed.
Print Assumptions C20_backend_buffer_example.

(* the same for the variant of M-TEB the translator reads from the source on this run *)
Theorem C20_backend_buffer_refines_fifo_src : forall (A : Type) (dflt : A) (c0 : N) (ops : list (TEB.TEBModel.top A)),
  TEB.TEBModel.teb_run A dflt Quill.TieTEB.src_tcfg (TEB.TEBModel.teb_init A dflt c0) ops =
  TEB.TEBModel.fifo_run A (TEB.TEBModel.fifo_init A c0) ops.
Proof. exact Quill.TieTEB.teb_refines_fifo_src. Qed.
Print Assumptions C20_backend_buffer_refines_fifo_src.
