(* C20 — exited threads: drained, then reclaimed. Only property theorems and their assumptions.
   (Shrinking concerns the unbounded queue, which M-BE does not model yet: not covered here.) *)
From Coq Require Import List NArith Bool.
From Quill Require Import Queue.BQDefs Backend.BEDefs Backend.BEInv Backend.BECount Backend.BECtx TieC20.
From Quill Require Backend.BEUnreg Backend.BEInv.
From Quill Require TieCtx.
Import ListNotations.
Local Open Scope N_scope.
From Quill Require TieMBE.
From Quill Require TieBE ExpectedBE.

(* T-src: the BackendWorker methods this property's part of M-BE re-states are, statement by statement, the ones the model
   was written against and compared with (ExpectedBE.v; the whole loop is tied in Properties_C03.C03_tie_backend_loop) *)
(* T-src: the two abstractions M-BE makes - a thread's queue is an atomic FIFO (C01 / C02), registration and cache refresh
   are atomic steps (registration protocol of C03) - hold for the memory orders, statement orders and shapes found in the
   source (TieMBE.v spells the facts out) *)
Theorem C20_tie_MBE_abstractions : Quill.TieMBE.MBE_abstractions_hold.
Proof. exact Quill.TieMBE.mbe_abstractions. Qed.
Print Assumptions C20_tie_MBE_abstractions.

Theorem C20_tie_backend_methods :
  QuillGen.SrcFacts.sk_be_cleanup_invalidated_thread_contexts = Quill.ExpectedBE.sk_be_cleanup_invalidated_thread_contexts /\
  QuillGen.SrcFacts.sk_be_update_active_thread_contexts_cache = Quill.ExpectedBE.sk_be_update_active_thread_contexts_cache /\
  QuillGen.SrcFacts.sk_be_check_frontend_queues_and_cached_transit_events_empty = Quill.ExpectedBE.sk_be_check_frontend_queues_and_cached_transit_events_empty.
Proof. exact (conj TieBE.src_be_cleanup_invalidated_thread_contexts (conj TieBE.src_be_update_active_thread_contexts_cache TieBE.src_be_check_frontend_queues_and_cached_transit_events_empty)). Qed.
Print Assumptions C20_tie_backend_methods.

(* T-src: an exited thread's context is removed only when its queue and its transit event buffer are both empty *)
Theorem C20_tie_ctx_removal_guard : QuillGen.SrcFacts.be_ctx_removal_requires_empty_buffer = true.
Proof. exact TieCtx.src_be_ctx_removal_requires_empty_buffer. Qed.
Print Assumptions C20_tie_ctx_removal_guard.

(* T-src: the dead-context counter is at least 32 bits wide *)
Theorem C20_tie_counter_width : 32 <= QuillGen.SrcFacts.tcm_invalid_count_bits.
Proof. exact src_counter_width. Qed.
Print Assumptions C20_tie_counter_width.

(* for every op list (any number of thread starts/exits, any interleaving with backend steps): the
   registry holds each context once, the counter equals the number of registered contexts whose
   thread has exited (mod 2^bits), and the backend's cache only holds registered contexts *)
Theorem C20_counter_tracks : forall K s0 ops, registered s0 = [] -> cache s0 = [] -> invalid_cnt s0 = 0 ->
  let s := run K s0 ops in
  NoDup (registered s) /\ invalid_cnt s = ndead (th s) (registered s) mod 2 ^ c_bits K /\ incl (cache s) (registered s).
Proof. exact be_counter. Qed.
Print Assumptions C20_counter_tracks.

(* clean-up is attempted (counter non-zero) exactly when a dead context is registered, provided fewer
   than 2^bits exited threads are waiting for reclamation (2^32 with the width read from the source) *)
Theorem C20_cleanup_triggered_iff : forall K s, CInv K s -> ndead (th s) (registered s) < 2 ^ c_bits K ->
  (invalid_cnt s = 0 <-> ndead (th s) (registered s) = 0).
Proof. exact counter_zero_iff. Qed.
Print Assumptions C20_cleanup_triggered_iff.

(* drained first: a context is only ever removed when its thread is dead, its queue empty and its
   transit buffer empty (find_dead is the only way into the removal), so by C03_conservation every
   statement of an exited thread is delivered before its context goes *)
Theorem C20_removed_only_when_drained : forall K s l, Good K s ->
  forall u, snd (find_dead s l) = Some u ->
  qev (th (fst (find_dead s l)) u) = [] /\ tbuf (th (fst (find_dead s l)) u) = [].
Proof. exact (fun K s l G => proj1 (proj2 (find_dead_good K s l G))). Qed.
Print Assumptions C20_removed_only_when_drained.

(* D2 (fixed): with the pinned tree's 8-bit counter, 256 exits between two clean-ups wrap it to zero:
   256 dead contexts registered, counter 0, no clean-up is ever attempted *)
Definition K_d2 (bits : N) : cfg :=
  {| c_cap := 1024; c_batch := 51; c_pub := {| on_batch := true; on_drain := true |}; c_dropping := false;
     c_tinit := 4; c_soft := 4; c_hard := 8; c_grace := 0; c_bits := bits; c_refresh2 := true; c_catch_all := true;
     c_report_first := true; c_bt := {| BT.BTModel.reset_index_in_process := true; BT.BTModel.cap0_guard := true |}; c_bt_catch := true; c_flush_iv := 0; c_follow := true |}.
Definition d2_ops : list op :=
  flat_map (fun t => [F (FClock t {| eid := N.of_nat t; ets := 0; ekind := KLog; elg := 0; elvl := 4; esz := 50; efmt := FOk; enamed := 0 |});
                      F (FReg t); F (FTry t); F (FExit t)]) (seq 0 256).
Definition d2_init : st :=
  {| clock := 0; th := fun _ => thr0; registered := []; newflag := false; invalid_cnt := 0; cache := []; pc := PIdle;
     tsnow := 0; lg := fun _ => mk_lgr 0 []; sk := fun _ => mk_snk 0 [];
     nsinks := 0; nloggers := 1; lastfl := 0; flags := []; obs := []; issued := fun _ => []; delivered := fun _ => []; plog := [];
     gh := {| g_denied := 0; g_reported := 0; g_lost := 0 |} |}.

Theorem C20_wrap_refuted_with_8_bits :
  let s8 := run (K_d2 8) d2_init d2_ops in let s32 := run (K_d2 32) d2_init d2_ops in
  ndead (th s8) (registered s8) = 256 /\ invalid_cnt s8 = 0 /\
  ndead (th s32) (registered s32) = 256 /\ invalid_cnt s32 = 256.
Proof. vm_compute. repeat split; reflexivity. Qed.
Print Assumptions C20_wrap_refuted_with_8_bits.

(* a thread without a registered context - it never registered, or it exited and its context was reclaimed -
   holds nothing: queue and transit buffer are empty and everything it committed has been processed; for
   every configuration and every interleaving *)
Theorem C20_reclaimed_lost_nothing : forall K s0 ops,
  (forall t, fresh_thr (th s0 t) /\ issued s0 t = [] /\ delivered s0 t = []) -> pos_ops ops ->
  let s := run K s0 ops in
  forall t, ~ In t (registered s) ->
    qev (th s t) = [] /\ tbuf (th s t) = [] /\ issued s t = delivered s t.
Proof.
  intros K s0 ops H0 Hp s t Hn.
  assert (P0 : Backend.BEUnreg.PU s0) by (intro u; right; destruct (H0 u) as ((v & ->) & _); split; reflexivity).
  destruct (Backend.BEUnreg.run_pu K ops s0 P0 t) as [Hin|[A B]]; [contradiction|].
  split; [exact A|]. split; [exact B|].
  pose proof (be_conservation K s0 ops H0 Hp t) as Hc. cbv zeta in Hc. fold s in Hc. unfold s in A, B. fold s in A, B.
  rewrite A, B in Hc. cbn in Hc. now rewrite app_nil_r in Hc.
Qed.
Print Assumptions C20_reclaimed_lost_nothing.
