(* C07 — stopping loses no completed statement (the drain-on-stop clause; the process-level clauses - atexit,
   restart, signal handler, wait status - are decided by the fault enumeration of props/c07.py).
   Only property theorems and their assumptions. *)
From Coq Require Import List NArith Bool String.
From Quill Require Import Queue.BQDefs Backend.BEDefs Backend.BEExec Backend.BEInv Backend.OrdSim Backend.BEExit Backend.BEUnreg TieC07.
From Quill Require TieCtx.
Import ListNotations.
Local Open Scope N_scope.
From Quill Require TieMBE.
From Quill Require TieBE ExpectedBE.

(* T-src: the BackendWorker methods this property's part of M-BE re-states are, statement by statement, the ones the model
   was written against and compared with (ExpectedBE.v; the whole loop is tied in Properties_C03.C03_tie_backend_loop) *)
(* T-src: the two abstractions M-BE makes - a thread's queue is an atomic FIFO (C01 / C02), registration and cache refresh
   are atomic steps (registration protocol of C03) - hold for the memory orders, statement orders and shapes found in the
   source (TieMBE.v spells the facts out) *)
Theorem C07_tie_MBE_abstractions : Quill.TieMBE.MBE_abstractions_hold.
Proof. exact Quill.TieMBE.mbe_abstractions. Qed.
Print Assumptions C07_tie_MBE_abstractions.

Theorem C07_tie_backend_methods :
  QuillGen.SrcFacts.sk_be_check_frontend_queues_and_cached_transit_events_empty = Quill.ExpectedBE.sk_be_check_frontend_queues_and_cached_transit_events_empty /\
  QuillGen.SrcFacts.sk_be_populate_transit_events_from_frontend_queues = Quill.ExpectedBE.sk_be_populate_transit_events_from_frontend_queues /\
  QuillGen.SrcFacts.sk_behas_pending_events_for_caching_when_transit_event_buffer_empty = Quill.ExpectedBE.sk_behas_pending_events_for_caching_when_transit_event_buffer_empty.
Proof. exact (conj TieBE.src_be_check_frontend_queues_and_cached_transit_events_empty (conj TieBE.src_be_populate_transit_events_from_frontend_queues TieBE.src_behas_pending_events_for_caching_when_transit_event_buffer_empty)). Qed.
Print Assumptions C07_tie_backend_methods.

(* T-src: BackendWorker::_exit is the loop that exit_drain models *)
Theorem C07_tie_exit_loop : QuillGen.SrcFacts.sk_be_exit = [
    "WHILE true";
    "  DECL bool const queues_and_events_empty = (!_options.wait_for_queues_to_empty_before_exit) || _check_frontend_queues_and_cached_transit_events_empty();";
    "  IF queues_and_events_empty";
    "    EXPR _check_failure_counter(_options.error_notifier)";
    "    EXPR _flush_and_run_active_sinks(false, std::chrono::milliseconds{0})";
    "    BREAK";
    "  DECL uint64_t const cached_transit_events_count = _populate_transit_events_from_frontend_queues();";
    "  IF cached_transit_events_count > 0";
    "    WHILE !has_pending_events_for_caching_when_transit_event_buffer_empty() && _process_lowest_timestamp_transit_event()";
    "EXPR _cleanup_invalidated_thread_contexts()";
    "EXPR _cleanup_invalidated_loggers()"]%string.
Proof. exact src_be_exit_skeleton. Qed.
Print Assumptions C07_tie_exit_loop.

(* T-src: an exited thread's context is removed only when its queue and its transit event buffer are both empty *)
Theorem C07_tie_ctx_removal_guard : QuillGen.SrcFacts.be_ctx_removal_requires_empty_buffer = true.
Proof. exact TieCtx.src_be_ctx_removal_requires_empty_buffer. Qed.
Print Assumptions C07_tie_ctx_removal_guard.

(* T-src: the emptiness question the drain loop asks of an unbounded queue covers the node's successor *)
Theorem C07_tie_unbounded_empty_checks_successor : QuillGen.SrcFacts.sk_uq_empty = [
    "RET return _consumer->bounded_queue.empty() && (_consumer->next.load(std::memory_order_relaxed) == nullptr)";
    "  ATOMIC _consumer->next load [memory_order_relaxed]"]%string.
Proof. exact TieC07.src_uq_empty_checks_successor. Qed.
Print Assumptions C07_tie_unbounded_empty_checks_successor.

(* every configuration, every history before the stop (any interleaving of frontend and backend micro-steps,
   threads that have exited included), every pace of the clock while the drain loop spins: when the loop
   leaves (through its only exit, the "everything is empty" branch), no thread - registered, never registered,
   or exited with its context already removed - holds a queued record or a buffered event, everything every
   thread committed before the stop has been processed (dispatched to its sinks, C03), nothing was committed
   by the drain itself, and the last thing the backend did was to flush every active sink. Partial: that the loop does leave is not proved here - it needs real time to
   pass the grace period; the fault enumeration observes it (no child hangs). *)
Theorem C07_stop_drains_partial : forall K s0 ops ticks s',
  (forall t, fresh_thr (th s0 t) /\ issued s0 t = [] /\ delivered s0 t = []) ->
  (newflag s0 = false -> cache s0 = registered s0) -> pos_ops ops ->
  let s := run K s0 ops in
  exit_drain K ticks s = (s', true) ->
  (forall t, qev (th s' t) = [] /\ tbuf (th s' t) = [] /\ delivered s' t = issued s t) /\
  exists sa, s' = flush_sinks sa /\ plog sa = plog s'.
Proof.
  intros K s0 ops ticks s' H0 Hf Hp s Hd.
  assert (G0 : Good K s0).
  { split; [intro u; destruct (H0 u) as ((v & ->) & -> & ->); apply TInv_fresh|intros u e; destruct (H0 u) as ((v & ->) & _); discriminate]. }
  assert (P0 : PU s0) by (intro t; right; destruct (H0 t) as ((v & ->) & _); split; reflexivity).
  pose proof (run_good K ops Hp s0 G0) as G. pose proof (run_flag K ops s0 Hf) as Fl.
  pose proof (exit_drain_pu K ticks _ (run_pu K ops s0 P0)) as Pu. fold s in Pu. rewrite Hd in Pu. cbn [fst] in Pu.
  destruct (exit_drain_spec K ticks _ _ G Fl Hd) as (G' & Hall & Hfl).
  split; [|exact Hfl]. intros t.
  pose proof (exit_drain_iss K ticks (run K s0 ops)) as Hi. fold s in Hi. rewrite Hd in Hi. cbn [fst] in Hi.
  destruct (Pu t) as [Ht|[A B]].
  - destruct (Hall t Ht) as (A & B & Cc). split; [exact A|]. split; [exact B|]. rewrite <- Cc. now rewrite Hi.
  - split; [exact A|]. split; [exact B|].
    pose proof (t_cons _ _ _ _ (proj1 G' t)) as Hcons. rewrite A, B in Hcons. cbn in Hcons. rewrite app_nil_r in Hcons.
    rewrite <- Hcons. now rewrite Hi.
Qed.
Print Assumptions C07_stop_drains_partial.

(* non-vacuity: two threads log, one of them exits, the backend has not polled at all when stop is requested
   (grace period 1000 ticks, the clock moves 600 ticks per iteration of the drain loop): the loop leaves after
   three iterations with everything delivered *)
Definition K_c07 : cfg :=
  {| c_cap := 256; c_batch := 12; c_pub := {| on_batch := true; on_drain := true |}; c_dropping := false;
     c_tinit := 4; c_soft := 4; c_hard := 8; c_grace := 1000; c_bits := 32; c_refresh2 := true; c_catch_all := true;
     c_report_first := true; c_bt := {| BT.BTModel.reset_index_in_process := true; BT.BTModel.cap0_guard := true |}; c_bt_catch := true; c_flush_iv := 0; c_follow := true |}.
Definition c07_before_stop : st :=
  fst (exec_all K_c07 (st0 100000 1 1 (fun _ => mk_lgr 0 [0%nat]) (fun _ => mk_snk 0 []))
     [CLog 0 (mk_ev 1 0 4 51 0) false; CTick 1; CLog 1 (mk_ev 2 0 4 51 0) false; CTick 1; CLog 0 (mk_ev 3 0 4 51 0) false; CExit 0]).
Example C07_drain_example :
  let r := exit_drain K_c07 [600; 600; 600; 600] c07_before_stop in
  snd r = true /\ delivered (fst r) 0%nat = [1; 3] /\ delivered (fst r) 1%nat = [2] /\
  delivered c07_before_stop 0%nat = [] /\ snd (exit_drain K_c07 [600] c07_before_stop) = false.
Proof. vm_compute. repeat split; reflexivity. Qed.
