(* C17 — removing / re-creating loggers never loses statements nor frees state in use.
   Only property theorems and their assumptions. Model: Registry/RegModel.v (M-REG): LoggerManager (name-sorted vector,
   create_or_get / get / remove_logger / cleanup_invalidated_loggers), SinkManager (weak table, create_or_get_sink,
   cleanup_unused_sinks), the LoggerRemovalRequest of remove_logger_blocking and the backend's _logger_removal_flags,
   per-thread FIFO queues and transit buffers, backend micro-steps, sink use counts. A schedule is a list of micro-ops
   (frontend calls of any thread and backend steps in any order): "forall ops" = every interleaving, any number of
   remove / re-create cycles, every sharing pattern. K is the configuration read from the source (TieC17.src_cfg). *)
From Coq Require Import List NArith Arith Bool Sorted.
From Quill Require Import Registry.RegModel Registry.RegExec Registry.RegLemmas Registry.RegInv Registry.RegSafe Registry.RegTheorems
  Registry.RegWitness Registry.SpinModel Registry.SpinProofs TieC17.
Import ListNotations.
Local Open Scope N_scope.

(* ------------------------------------------------------------------ T-src *)
(* the source has the whole protocol: guard over queues and transit buffers, re-checked per invalid logger, flag stored
   after erase + cleanup_unused_sinks and nowhere else, get_logger tests validity *)
Theorem C17_tie_cfg : good src_cfg = true.
Proof. exact src_cfg_good. Qed.
Print Assumptions C17_tie_cfg.

(* the 19 method skeletons regenerated from /repo equal the ones the model was written against (ExpectedC17.v) *)
Theorem C17_tie_skeletons : c17_skeletons_stmt.
Proof. exact c17_skeletons_ok. Qed.
Print Assumptions C17_tie_skeletons.

Theorem C17_tie_orders :
  QuillGen.SrcFacts.c17_spin_exchange = QuillGen.SrcFacts.Acq /\ QuillGen.SrcFacts.c17_spin_unlock_store = QuillGen.SrcFacts.Rel /\
  QuillGen.SrcFacts.c17_valid_store = QuillGen.SrcFacts.Rel /\ QuillGen.SrcFacts.c17_valid_load = QuillGen.SrcFacts.Acq /\
  QuillGen.SrcFacts.c17_inv_flag_set = QuillGen.SrcFacts.Rel /\ QuillGen.SrcFacts.c17_inv_flag_load = QuillGen.SrcFacts.Acq.
Proof. exact c17_orders_ok. Qed.
Print Assumptions C17_tie_orders.

Theorem C17_tie_protocol :
  QuillGen.SrcFacts.c17_request_before_invalidate = true /\ QuillGen.SrcFacts.c17_sink_table_weak = true /\
  QuillGen.SrcFacts.c17_logger_shares_sinks = true /\ QuillGen.SrcFacts.c17_registry_owns_loggers = true.
Proof. exact c17_protocol_facts_ok. Qed.
Print Assumptions C17_tie_protocol.

Theorem C17_tie_spin_orders : ssufficient src_sorders = true.
Proof. exact src_spin_sufficient. Qed.
Print Assumptions C17_tie_spin_orders.

(* ------------------------------------------------------------------ (a) nothing logged through a logger is lost *)
(* a logger is erased only by the clean-up loop, only when invalid, and only in a state in which every queue and every
   transit buffer is empty and every committed record of every thread has been processed *)
Theorem C17_erase_step_drained : forall K s o u, good K = true -> Reach K s -> In u (elog (mstep K s o)) -> ~ In u (elog s) ->
  o = BClean1 /\ (forall t, pend (th s t) = []) /\ (forall t, proj t (clog s) = proj t (plog s)) /\
  (exists L, In L (lgs s) /\ l_uid L = u /\ l_valid L = false).
Proof. exact erase_step_drained. Qed.
Print Assumptions C17_erase_step_drained.

(* every schedule: every record ever committed through an erased logger has been processed, and a statement has been
   written to every sink the logger was created with (committing through an erased logger is impossible: C17_no_dangling) *)
Theorem C17_delivered_before_free : forall K nt ops, good K = true -> let s := mrun K (st0 nt) ops in
  forall u, In u (elog s) -> forall t r, In (t, r) (clog s) -> r_lg r = u ->
    In (t, r) (plog s) /\
    (r_kind r = KLog -> forall L0, In L0 (glog s) -> l_uid L0 = u -> forall S, In S (l_sinks L0) -> In (S, u, r_val r) (wlog s)).
Proof. exact delivered_before_free. Qed.
Print Assumptions C17_delivered_before_free.

(* per thread, what was processed is a prefix of what was committed; the rest is exactly transit buffer ++ queue (any configuration) *)
Theorem C17_thread_order : forall K nt ops t, let s := mrun K (st0 nt) ops in
  proj t (clog s) = proj t (plog s) ++ t_tb (th s t) ++ t_q (th s t).
Proof. exact thread_order. Qed.
Print Assumptions C17_thread_order.

(* ------------------------------------------------------------------ (b) no dangling use *)
(* every queued record and every buffered event refers to a logger object that is still in the registry *)
Theorem C17_refs_present : forall K nt ops, good K = true -> let s := mrun K (st0 nt) ops in
  forall t r, In r (t_tb (th s t) ++ t_q (th s t)) -> exists L, In L (lgs s) /\ l_uid L = r_lg r /\ l_name L = r_name r.
Proof. exact refs_present. Qed.
Print Assumptions C17_refs_present.

(* under the documented contract (a logger is used for logging / removal only while it has not been removed) no step of
   any thread ever dereferences a freed logger or writes to a destroyed sink *)
Theorem C17_no_dangling : forall K ops s, good K = true -> Reach K s -> bad s = false -> contract K s ops -> bad (mrun K s ops) = false.
Proof. exact no_dangling. Qed.
Print Assumptions C17_no_dangling.

Theorem C17_no_dangling_from_start : forall K nt ops, good K = true -> contract K (st0 nt) ops -> bad (mrun K (st0 nt) ops) = false.
Proof. exact no_dangling_init. Qed.
Print Assumptions C17_no_dangling_from_start.

(* ------------------------------------------------------------------ (c) sink lifetime (any configuration) *)
(* use count = user handles + loggers in the registry holding it; a created sink is destroyed iff nothing references it,
   once *)
Theorem C17_sink_lifetime : forall K nt ops, let s := mrun K (st0 nt) ops in
  (forall S, cnt S (live s) = (cnt S (map snd (hnd s)) + cnt S (flat_map l_sinks (lgs s)))%nat) /\
  (forall S, In S (live s) <-> referenced s S) /\
  (forall S, 1 <= S -> S < nsk s -> (In S (dlog s) <-> ~ referenced s S)) /\
  NoDup (dlog s).
Proof. exact sink_lifetime. Qed.
Print Assumptions C17_sink_lifetime.

(* the step that destroys a sink is the one that took its last owner away *)
Theorem C17_destroy_step : forall K s o S, Inv s -> In S (dlog (mstep K s o)) -> ~ In S (dlog s) ->
  In S (live s) /\ ~ In S (live (mstep K s o)).
Proof. exact destroy_step. Qed.
Print Assumptions C17_destroy_step.

(* ------------------------------------------------------------------ (d) remove_logger_blocking *)
(* a flag that is set belongs to a request whose logger object has been erased and is not in the registry *)
Theorem C17_flag_after_erase : forall K nt ops, good K = true -> let s := mrun K (st0 nt) ops in
  forall t r, In (t, r) (clog s) -> r_kind r = KRem -> In (r_val r) (fset s) ->
    In (r_lg r) (elog s) /\ (forall L, In L (lgs s) -> l_uid L <> r_lg r).
Proof. exact flag_after_erase. Qed.
Print Assumptions C17_flag_after_erase.

(* the step that stores a flag is the end of the clean-up: lock released, no expired sink entry left, the logger of the
   request erased and its name free *)
Theorem C17_blocking_returns_after : forall K nt ops o f, good K = true -> let s := mrun K (st0 nt) ops in
  In f (fset (mstep K s o)) -> ~ In f (fset s) ->
  let s' := mstep K s o in
  o = BClean2 /\ locked s' = false /\ (forall e, In e (stab s') -> In (e_uid e) (live s')) /\
  (forall t r, In (t, r) (clog s) -> r_kind r = KRem -> r_val r = f -> In (r_lg r) (elog s') /\ ~ In (r_name r) (names s')).
Proof. exact blocking_returns_after. Qed.
Print Assumptions C17_blocking_returns_after.

(* the caller is released only by its own look at the flag, and then its logger has been erased *)
Theorem C17_unblock_step : forall K s o t u f b, good K = true -> Reach K s ->
  t_blk (th s t) = Some (u, f, b) -> t_blk (th (mstep K s o) t) = None -> o = FWait t /\ In u (elog s) /\ In f (fset s).
Proof. exact unblock_step. Qed.
Print Assumptions C17_unblock_step.

(* once the name is free create_or_get_logger builds a new object (an identity never used before) over the sinks it is given *)
Theorem C17_create_after : forall K s v name hs, Inv s -> locked s = false -> ~ In name (names s) ->
  let s' := mstep K s (FCreate v name hs) in
  let L := {| l_name := name; l_uid := nlg s; l_valid := true; l_sinks := handles_of hs (hnd s) |} in
  In L (lgs s') /\ aget v (vars s') = Some (nlg s) /\ lb_find l_name name (lgs s') = Some L /\
  (forall L', In L' (lgs s) -> l_uid L' <> nlg s) /\ (forall L', In L' (glog s) -> l_uid L' <> nlg s).
Proof. exact create_after. Qed.
Print Assumptions C17_create_after.

(* ------------------------------------------------------------------ (e) registries *)
(* logger vector strictly sorted by name (unique names); sink vector sorted, at most the first entry of a name is live;
   lookups find the entry of a name whenever there is one (any configuration, every schedule) *)
Theorem C17_reg_sorted_unique : forall K nt ops, let s := mrun K (st0 nt) ops in
  StronglySorted N.lt (map l_name (lgs s)) /\ NoDup (map l_name (lgs s)) /\
  StronglySorted N.le (map e_name (stab s)) /\ FLp (live s) (stab s) /\
  (forall n, match sink_lookup n s with
             | Some u => In u (live s) /\ exists e, In e (stab s) /\ e_name e = n /\ e_uid e = u
             | None => forall e, In e (stab s) -> e_name e = n -> ~ In (e_uid e) (live s)
             end) /\
  (forall n, match lb_find l_name n (lgs s) with
             | Some L => In L (lgs s) /\ l_name L = n
             | None => ~ In n (map l_name (lgs s))
             end).
Proof. exact reg_sorted_unique. Qed.
Print Assumptions C17_reg_sorted_unique.

Theorem C17_create_get_idem : forall K s v v' name hs hs', locked s = false ->
  let s1 := mstep K s (FCreate v name hs) in
  let s2 := mstep K s1 (FCreate v' name hs') in
  lgs s2 = lgs s1 /\ live s2 = live s1 /\ glog s2 = glog s1 /\ nlg s2 = nlg s1 /\
  exists L, lb_find l_name name (lgs s1) = Some L /\ aget v (vars s1) = Some (l_uid L) /\ aget v' (vars s2) = Some (l_uid L).
Proof. exact create_get_idem. Qed.
Print Assumptions C17_create_get_idem.

Theorem C17_get_idem : forall K s v name, c_get_valid K = true -> locked s = false ->
  let s1 := mstep K s (FGet v name) in
  lgs s1 = lgs s /\ live s1 = live s /\
  aget v (vars s1) = match lb_find l_name name (lgs s) with Some L => if l_valid L then Some (l_uid L) else None | None => None end.
Proof. exact get_idem. Qed.
Print Assumptions C17_get_idem.

Theorem C17_get_removed_none : forall K s v v' name L, c_get_valid K = true -> locked s = false ->
  lb_find l_name name (lgs s) = Some L -> aget v (vars s) = Some (l_uid L) -> find_uid (l_uid L) (lgs s) = Some L ->
  aget v' (vars (mstep K (mstep K s (FRemove v)) (FGet v' name))) = None.
Proof. exact get_removed_none. Qed.
Print Assumptions C17_get_removed_none.

Theorem C17_create_sink_idem : forall K s h h' name, aget h (hnd s) = None -> aget h' (hnd s) = None -> h' <> h ->
  let s1 := mstep K s (FCreateSink h name) in
  let s2 := mstep K s1 (FCreateSink h' name) in
  stab s2 = stab s1 /\ nsk s2 = nsk s1 /\
  exists u, aget h (hnd s1) = Some u /\ aget h' (hnd s2) = Some u /\ aget h (hnd s2) = Some u /\ In u (live s1).
Proof. exact create_sink_idem. Qed.
Print Assumptions C17_create_sink_idem.

(* ------------------------------------------------------------------ (f) the spinlock around the registries *)
Theorem C17_spin_mutex : forall o nt ops, ssufficient o = true -> let s := srun o (sp0 nt) ops in
  overlap s = false /\ race s = false /\ (forall t t', in_cs (sth s t) = true -> in_cs (sth s t') = true -> t = t').
Proof. exact spin_mutex. Qed.
Print Assumptions C17_spin_mutex.

(* ------------------------------------------------------------------ the commands run against the implementation are schedules *)
Theorem C17_exec_refines : forall K cs s, exists ops, exec K s cs = mrun K s ops.
Proof. exact exec_refines. Qed.
Print Assumptions C17_exec_refines.

(* ------------------------------------------------------------------ refutations of the defective variants (vm_compute witnesses) *)
Theorem C17_guard_tbuf_refuted : exists ops, contract cfg_no_tb (st0 1) ops /\ bad (mrun cfg_no_tb (st0 1) ops) = true.
Proof. exact guard_tbuf_refuted. Qed.
Print Assumptions C17_guard_tbuf_refuted.
Theorem C17_guard_queue_refuted : exists ops, contract cfg_no_q (st0 1) ops /\ bad (mrun cfg_no_q (st0 1) ops) = true.
Proof. exact guard_queue_refuted. Qed.
Print Assumptions C17_guard_queue_refuted.
Theorem C17_recheck_refuted : exists ops, contract cfg_no_recheck (st0 1) ops /\ bad (mrun cfg_no_recheck (st0 1) ops) = true.
Proof. exact recheck_refuted. Qed.
Print Assumptions C17_recheck_refuted.
Theorem C17_flag_before_erase_refuted :
  let s := mrun cfg_flag_early (st0 1) w_flag_early in
  contract cfg_flag_early (st0 1) w_flag_early /\ t_blk (th s 0) = None /\ elog s = [] /\ aget 0 (vars s) = Some 1 /\
  lgs s = [{| l_name := 0; l_uid := 1; l_valid := false; l_sinks := [1] |}].
Proof. exact flag_before_erase_refuted. Qed.
Print Assumptions C17_flag_before_erase_refuted.
Theorem C17_recreate_while_pending_refuted :
  contractb cfg_good (st0 1) w_limbo = false /\ bad (mrun cfg_good (st0 1) w_limbo) = true /\
  aget 0 (vars (mrun cfg_good (st0 1) (firstn 4 w_limbo))) = Some 1.
Proof. exact recreate_while_pending_refuted. Qed.
Print Assumptions C17_recreate_while_pending_refuted.
Theorem C17_get_invalid_refuted :
  aget 1 (vars (mrun cfg_get_any (st0 1) [FCreateSink 0 0; FCreate 0 0 [0]; FRemove 0; FGet 1 0])) = Some 1 /\
  aget 1 (vars (mrun cfg_good (st0 1) [FCreateSink 0 0; FCreate 0 0 [0]; FRemove 0; FGet 1 0])) = None.
Proof. exact get_invalid_refuted. Qed.
Print Assumptions C17_get_invalid_refuted.
Theorem C17_no_prune_refuted :
  let s := mrun cfg_no_prune (st0 1) w_no_prune in
  fset s = [1] /\ dlog s = [1] /\ stab s = [{| e_name := 0; e_uid := 1 |}] /\ live s = [] /\
  stab (mrun cfg_good (st0 1) w_no_prune) = [].
Proof. exact no_prune_refuted. Qed.
Print Assumptions C17_no_prune_refuted.
Theorem C17_spin_relaxed_exchange_refuted : race (srun {| x_acq := false; u_rel := true |} (sp0 2) sp_trace) = true.
Proof. exact spin_relaxed_exchange_refuted. Qed.
Print Assumptions C17_spin_relaxed_exchange_refuted.
Theorem C17_spin_relaxed_unlock_refuted : race (srun {| x_acq := true; u_rel := false |} (sp0 2) sp_trace) = true.
Proof. exact spin_relaxed_unlock_refuted. Qed.
Print Assumptions C17_spin_relaxed_unlock_refuted.

(* ------------------------------------------------------------------ non-vacuity: a schedule within the contract in which everything happens
   (two threads, a shared sink, a blocking removal, erase, sink destruction, flag, return, re-creation with a new sink) *)
Theorem C17_nonvacuous_run :
  let s := mrun cfg_good (st0 2) w_good in
  contract cfg_good (st0 2) w_good /\ bad s = false /\ elog s = [1] /\ fset s = [1] /\ dlog s = [1] /\
  t_blk (th s 0) = None /\ map l_uid (lgs s) = [3; 2] /\ live s = [3; 3; 2] /\
  wlog s = [(1, 1, 100); (2, 1, 100); (1, 1, 101); (2, 1, 101); (2, 2, 102); (3, 3, 103); (2, 2, 104)].
Proof. exact good_run. Qed.
Print Assumptions C17_nonvacuous_run.
Theorem C17_reachable_nonempty : forall K nt ops, good K = true -> Reach K (mrun K (st0 nt) ops).
Proof. exact reach_from_init. Qed.
Print Assumptions C17_reachable_nonempty.
