(* C16 — a statement reaches a sink iff its level passes logger, sink and sink filters.
   Only property theorems and their assumptions. *)
From Coq Require Import List NArith Bool.
From Quill Require Import Queue.BQDefs Backend.BEDefs Backend.BEInv Backend.BEDispatch Backend.BEFault.
From Quill Require Backend.BEExec.
Import ListNotations.
Local Open Scope N_scope.
From Quill Require TieMBE.
From Quill Require TieBE ExpectedBE.

(* T-src: the BackendWorker methods this property's part of M-BE re-states are, statement by statement, the ones the model
   was written against and compared with (ExpectedBE.v; the whole loop is tied in Properties_C03.C03_tie_backend_loop) *)
(* T-src: the two abstractions M-BE makes - a thread's queue is an atomic FIFO (C01 / C02), registration and cache refresh
   are atomic steps (registration protocol of C03) - hold for the memory orders, statement orders and shapes found in the
   source (TieMBE.v spells the facts out) *)
Theorem C16_tie_MBE_abstractions : Quill.TieMBE.MBE_abstractions_hold.
Proof. exact Quill.TieMBE.mbe_abstractions. Qed.
Print Assumptions C16_tie_MBE_abstractions.

Theorem C16_tie_backend_methods :
  QuillGen.SrcFacts.sk_be_process_transit_event = Quill.ExpectedBE.sk_be_process_transit_event /\
  QuillGen.SrcFacts.sk_be_populate_transit_event_from_frontend_queue = Quill.ExpectedBE.sk_be_populate_transit_event_from_frontend_queue.
Proof. exact (conj TieBE.src_be_process_transit_event TieBE.src_be_populate_transit_event_from_frontend_queue). Qed.
Print Assumptions C16_tie_backend_methods.

(* enqueued iff the level (static or supplied at run time) is at or above the logger's level at the
   moment of the call (control requests always); otherwise nothing at all happens - no timestamp, no
   registration, no reservation, the arguments are never looked at *)
Theorem C16_enqueue_iff : forall K s t e, pend (th s t) = None ->
  let s' := fstep K s (FClock t e) in
  (pend (th s' t) <> None <-> tvalid (th s t) = true /\ passes_logger s e = true) /\
  (pend (th s' t) = None -> s' = s).
Proof. exact fclock_iff. Qed.
Print Assumptions C16_enqueue_iff.

(* one write per sink that is in [written], in the logger's sink order (the observations of the sink loop) *)
Theorem C16_sink_loop : forall e ks s, NoDup ks ->
  obs (fst (dispatch s e ks)) = obs s ++ flat_map (fun k => [O_WRITE; N.of_nat k; wid e; elvl e; snamed e]) (written s e ks) /\
  snd (dispatch s e ks) = some_throws s e ks.
Proof. exact dispatch_spec. Qed.
Print Assumptions C16_sink_loop.

(* written to a sink iff the statement's level is at or above that sink's level filter and every filter
   attached to that sink accepts it - independently of the logger's other sinks (when no sink throws) *)
Theorem C16_sink_iff_independent : forall s e ks k, NoDup ks -> In k ks ->
  (forall j, In j ks -> throws_now s j = false) ->
  (In k (written s e ks) <-> sink_accepts (sk s k) e = true).
Proof. exact written_no_throw. Qed.
Print Assumptions C16_sink_iff_independent.

(* a statement is reported with exactly the level it was given (the macro's static level, or the level
   supplied at run time for a dynamic statement), for every previous content of the reused transit-event
   slot and whether or not the decoder resets the stale field *)
Theorem C16_dynamic_exact : forall reset old meta_lvl given,
  eff_level (decode_level reset old meta_lvl given) meta_lvl = if meta_lvl =? LV_DYNAMIC then given else meta_lvl.
Proof. exact slot_level_exact. Qed.
Print Assumptions C16_dynamic_exact.

(* macro level: the test the LOG_* macros make before touching their arguments (should_log_statement) is the test
   of the model's enqueue step: for an ordinary statement passes_logger is level_passes of the two levels *)
Theorem C16_macro_guard_is_enqueue_guard : forall s e, ekind e = KLog ->
  passes_logger s e = Quill.Backend.BEExec.level_passes (llevel (lg s (elg e))) (elvl e).
Proof. intros s e H. unfold passes_logger, Quill.Backend.BEExec.level_passes. rewrite H. reflexivity. Qed.
Print Assumptions C16_macro_guard_is_enqueue_guard.
