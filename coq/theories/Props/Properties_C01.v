(* C01 — bounded SPSC queue: exactly once, in order, intact, never over capacity.
   Only property theorems (closed by [exact]) and their assumptions. *)
From Coq Require Import List NArith Bool.
From Quill Require Import Queue.BQDefs Queue.BQProofs Queue.BQSeqProofs Tie.
Import ListNotations.
Local Open Scope N_scope.

(* T-src: skeletons and memory orders of the source are the ones the model mirrors *)
Theorem C01_tie_skeletons : 
  QuillGen.SrcFacts.sk_bq_prepare_write = Quill.Expected.sk_bq_prepare_write /\
  QuillGen.SrcFacts.sk_bq_finish_write = Quill.Expected.sk_bq_finish_write /\
  QuillGen.SrcFacts.sk_bq_commit_write = Quill.Expected.sk_bq_commit_write /\
  QuillGen.SrcFacts.sk_bq_finish_and_commit_write = Quill.Expected.sk_bq_finish_and_commit_write /\
  QuillGen.SrcFacts.sk_bq_prepare_read = Quill.Expected.sk_bq_prepare_read /\
  QuillGen.SrcFacts.sk_bq_finish_read = Quill.Expected.sk_bq_finish_read /\
  QuillGen.SrcFacts.sk_bq_commit_read_atomics = Quill.Expected.sk_bq_commit_read_atomics /\
  QuillGen.SrcFacts.sk_bq_empty = Quill.Expected.sk_bq_empty.
Proof. exact bq_skeletons_ok. Qed.
Print Assumptions C01_tie_skeletons.

Theorem C01_tie_orders : sufficient src_orders = true.
Proof. exact src_orders_sufficient. Qed.
Print Assumptions C01_tie_orders.

(* Every interleaving (op list) and every legal load result (the index carried by each load op),
   every capacity, with the memory orders read from the source: no data race ever happens - the
   consumer never reads bytes that were not written and committed before something it
   synchronised with, and the producer never overwrites bytes the consumer has not released. *)
Theorem C01_safety : forall C ops, race (run C src_orders ops) = false.
Proof. exact (fun C ops => no_race C src_orders src_orders_sufficient ops). Qed.
Print Assumptions C01_safety.

(* none lost, duplicated or reordered: what the consumer has read is the first [nread] records the
   producer wrote, its position is a record boundary, and it never passes a commit it synchronised with *)
Theorem C01_consumed_is_prefix : forall C ops, let s := run C src_orders ops in
  (nread s <= length (wlog s))%nat /\
  contig 0 (firstn (nread s) (wlog s)) = Some (r_rpos s) /\
  r_rpos s <= r_wcache s /\ r_wcache s <= c_know s /\ c_know s <= r_wpos s.
Proof. exact (fun C ops => consumed_prefix C src_orders src_orders_sufficient ops). Qed.
Print Assumptions C01_consumed_is_prefix.

(* a reservation is granted only within the space the consumer really released (never more than C) *)
Theorem C01_grant_fits : forall C ops n, let s := run C src_orders ops in
  granted s = Some n ->
  r_wpos s + n <= r_rpos s + C /\ exists v k, In (v, k) (histR s) /\ r_wpos s + n <= v + C.
Proof. exact (fun C ops n => grant_fits C src_orders src_orders_sufficient ops n). Qed.
Print Assumptions C01_grant_fits.

(* the record is one contiguous interval of the 2C storage, disjoint from every unreleased record *)
Theorem C01_contiguous_disjoint : forall C p1 n1 p2 n2, 0 < C -> 0 < n2 ->
  p1 + n1 <= p2 -> p2 + n2 <= p1 + C ->
  let a1 := p1 mod C in let a2 := p2 mod C in
  a1 + n1 <= 2 * C /\ a2 + n2 <= 2 * C /\ (a1 + n1 <= a2 \/ a2 + n2 <= a1).
Proof. exact phys_disjoint. Qed.
Print Assumptions C01_contiguous_disjoint.

(* integer wrap-around: in every reachable state the positions stay within one window ... *)
Theorem C01_window : forall C ops, let s := run C src_orders ops in
  r_rcache s <= r_wpos s /\ r_wpos s <= r_rcache s + C /\
  r_rpos s <= r_wcache s /\ r_wcache s <= r_rpos s + C /\
  (forall v k, last (histR s) (0, 0) = (v, k) -> v <= r_rpos s /\ r_rpos s <= v + C).
Proof. exact (fun C ops => window C src_orders src_orders_sufficient ops). Qed.
Print Assumptions C01_window.

(* ... and within a window every guard the code evaluates on wrapped counters is exact *)
Theorem C01_wrap_guards : forall wb k, k < wb ->
  (forall w r n, r <= w -> w <= r + 2 ^ k ->
     nofit (conc wb) (2 ^ k) (w mod 2 ^ wb) (r mod 2 ^ wb) n = nofit ideal (2 ^ k) w r n) /\
  (forall a b, b <= a -> a <= b + 2 ^ k -> (a mod 2 ^ wb =? b mod 2 ^ wb) = (a =? b)) /\
  (forall p, a_off (conc wb) (p mod 2 ^ wb) (2 ^ k) = a_off ideal p (2 ^ k)) /\
  (forall rp arv b, arv <= rp -> rp <= arv + 2 ^ k ->
     (b <=? a_sub (conc wb) (rp mod 2 ^ wb) (arv mod 2 ^ wb)) = (b <=? a_sub ideal rp arv)).
Proof.
  exact (fun wb k Hk => conj (nofit_wrap_exact wb k Hk) (conj (eq_wrap_exact wb k Hk)
          (conj (off_wrap_exact wb k Hk) (batch_wrap_exact wb k Hk)))).
Qed.
Print Assumptions C01_wrap_guards.

(* sequential layer (the one the correspondence check runs against the real queue): for every
   history the mod-2^wb model gives the same observations as the ideal one *)
Theorem C01_seq_wrap_exact : forall wb k batch pr, k < wb -> forall ops,
  srun (conc wb) (2 ^ k) batch pr (wr wb bq_init) ops =
  (wr wb (fst (srun ideal (2 ^ k) batch pr bq_init ops)), snd (srun ideal (2 ^ k) batch pr bq_init ops)).
Proof. exact (fun wb k batch pr Hk ops => seq_wrap_exact wb k batch pr Hk ops bq_init (SInv_init (2 ^ k))). Qed.
Print Assumptions C01_seq_wrap_exact.

(* sensitivity: weakening any one of the four orders makes a race reachable (ready-made replays) *)
Theorem C01_each_order_needed :
  race (run 8 weak_cw tr_consumer) = true /\ race (run 8 weak_em tr_consumer) = true /\
  race (run 8 weak_cr tr_producer) = true /\ race (run 8 weak_pw tr_producer) = true.
Proof. exact (conj weak_cw_races (conj weak_em_races (conj weak_cr_races weak_pw_races))). Qed.
Print Assumptions C01_each_order_needed.
