(* C09 — a blocked log call resumes once the backend made room; no stall on an empty queue.
   (bounded queue part; the unbounded queue part is in Properties_C02/C09 when present) *)
From Coq Require Import List NArith Bool String.
From Quill Require Import Queue.BQDefs Queue.BQProofs Queue.BQSeqProofs TieC09.
From Quill Require Import BT.BTModel Backend.BEDefs Backend.BEExec Backend.BEInv Backend.BEPub.
Import ListNotations.
Local Open Scope N_scope.

Theorem C09_tie_commit_read_guard : QuillGen.SrcFacts.sk_bq_commit_read = Quill.Expected.sk_bq_commit_read.
Proof. exact bq_commit_read_guard_ok. Qed.
Print Assumptions C09_tie_commit_read_guard.

Theorem C09_tie_publish_rule : on_drain src_pub_rule = true.
Proof. exact src_publishes_on_drain. Qed.
Print Assumptions C09_tie_publish_rule.

(* For every capacity, batch threshold and history of writes, commits, reads and commit_reads:
   once the consumer has read everything written and has run its commit_read since the last read
   (the discipline of the backend's read pass), every record that fits the capacity is granted
   (blocking queue: the producer resumes; dropping queue: the statement is accepted). *)
Theorem C09_no_stall : forall C batch ops n,
  let s := fst (srun ideal C batch src_pub_rule bq_init ops) in
  dirty s = false -> rpos s = wpos s -> n <= C ->
  snd (prepare_write ideal C s n) <> None.
Proof. exact (fun C batch ops n => no_stall C batch src_pub_rule src_publishes_on_drain ops n). Qed.
Print Assumptions C09_no_stall.

(* the published reader position is exact whenever the consumer is quiescent on a drained queue *)
Theorem C09_published_exact : forall C batch ops,
  let s := fst (srun ideal C batch src_pub_rule bq_init ops) in
  dirty s = false -> wcache s = rpos s -> ar s = rpos s.
Proof. exact (fun C batch ops => published_exact C batch src_pub_rule src_publishes_on_drain ops). Qed.
Print Assumptions C09_published_exact.

(* D3 (fixed): with the pinned tree's guard (batch only) the statement is false *)
Theorem C09_stall_refuted_without_drain_publish :
  let s := fst (srun ideal 1024 51 pr_unfixed bq_init [W 36 true; R; CR]) in
  dirty s = false /\ rpos s = wpos s /\ 996 <= 1024 /\ snd (prepare_write ideal 1024 s 996) = None.
Proof. exact bq_stall_refuted. Qed.
Print Assumptions C09_stall_refuted_without_drain_publish.

(* ---------------------------------------------------------------------------------------------------------
   The same clause at the level of the backend (M-BE, bounded queues). *)

(* T-src: the backend's read pass ends with commit_read whenever it consumed anything (the loop read_queue models) *)
Theorem C09_tie_read_pass_commits : QuillGen.SrcFacts.sk_be_read_and_decode_frontend_queue = [
    "DECL size_t const queue_capacity = frontend_queue.capacity();";
    "DECL size_t total_bytes_read{0};";
    "DO";
    "  DECL std::byte* read_pos;";
    "  IF std::is_same_v<TFrontendQueue, UnboundedSPSCQueue>";
    "    EXPR read_pos = _read_unbounded_frontend_queue(frontend_queue, thread_context)";
    "  ELSE";
    "    EXPR read_pos = frontend_queue.prepare_read()";
    "  IF !read_pos";
    "    BREAK";
    "  DECL std::byte const* const read_begin = read_pos;";
    "  IF !_populate_transit_event_from_frontend_queue(read_pos, thread_context, ts_now)";
    "    BREAK";
    "  EXPR assert";
    "  DECL auto const bytes_read = static_cast<size_t>(read_pos - read_begin);";
    "  EXPR frontend_queue.finish_read(bytes_read)";
    "  EXPR total_bytes_read += bytes_read";
    "DOWHILE (total_bytes_read < queue_capacity) && (thread_context->_transit_event_buffer->size() < _options.transit_events_hard_limit)";
    "IF total_bytes_read != 0";
    "  EXPR frontend_queue.commit_read()";
    "RET return thread_context->_transit_event_buffer->size()"]%string.
Proof. exact src_be_read_pass_commits. Qed.
Print Assumptions C09_tie_read_pass_commits.

(* Every configuration whose commit_read publishes on drain (tied above), every history of frontend and backend
   micro-steps (any interleaving of any number of threads, polls cut anywhere, limits, grace period, exits, context
   clean-ups), every thread: if the thread's queue holds nothing - the backend has consumed whatever was ahead - then
   its pending statement (parked in the retry loop of a blocking queue, or offered to a dropping one) is granted at
   its next try whenever it fits the capacity: the record is enqueued and the call returns. The producer is never
   left waiting on an empty queue; no premise about the backend being idle or about commit_read having run is
   needed: that discipline is an invariant of the backend model (Backend/BEPub.v, PubI). *)
Theorem C09_backend_empty_queue_grants : forall (K : cfg) (s0 : st) ops t e0,
  on_drain (c_pub K) = true ->
  (forall u, fresh_thr (th s0 u) /\ issued s0 u = [] /\ delivered s0 u = []) -> pos_ops ops ->
  let s := run K s0 ops in
  pend (th s t) = Some e0 -> memb t (registered s) = true -> qev (th s t) = [] -> esz e0 <= c_cap K ->
  let s' := fstep K s (FTry t) in
  pend (th s' t) = None /\ issued s' t = issued s t ++ [eid e0] /\ map eid (qev (th s' t)) = [eid e0].
Proof. intros K s0 ops t e0 Hd. exact (be_empty_queue_grants K Hd s0 ops t e0). Qed.
Print Assumptions C09_backend_empty_queue_grants.

(* non-vacuity: capacity 256, a 200-byte statement is granted, a 100-byte one parks; three polls later the backend
   has consumed everything: the producer is still parked (pending statement 2, queue empty) and its retry is
   granted. With the pinned commit_read (no publish-on-drain; 50 bytes consumed, below the batch threshold) a
   250-byte statement parks on an empty queue and its retry is refused for ever: D3 at backend level. *)
Definition K_c09 (od : bool) : cfg :=
  {| c_cap := 256; c_batch := 100; c_pub := {| on_batch := true; on_drain := od |}; c_dropping := false;
     c_tinit := 4; c_soft := 4; c_hard := 8; c_grace := 0; c_bits := 32; c_refresh2 := true; c_catch_all := true;
     c_report_first := true; c_bt := {| BT.BTModel.reset_index_in_process := true; BT.BTModel.cap0_guard := true |}; c_bt_catch := true; c_flush_iv := 0; c_follow := true |}.
Definition c09_init : st := st0 100000 1 1 (fun _ => mk_lgr 0 [0%nat]) (fun _ => mk_snk 0 []).
Definition c09_parked : st :=
  fst (exec_all (K_c09 true) c09_init
     [CLog 0 (mk_ev 1 0 4 200 0) false; CLog 0 (mk_ev 2 0 4 100 0) false; CPoll []; CPoll []; CPoll []]).
Definition c09_stalled : st :=
  fst (exec_all (K_c09 false) c09_init
     [CLog 0 (mk_ev 1 0 4 50 0) false; CPoll []; CPoll []; CLog 0 (mk_ev 2 0 4 250 0) false; CPoll []; CPoll []; CPoll []]).
Example C09_backend_example :
  (option_map eid (pend (th c09_parked 0%nat)) = Some 2 /\ qev (th c09_parked 0%nat) = [] /\ memb 0%nat (registered c09_parked) = true /\
   delivered c09_parked 0%nat = [1]) /\
  pend (th (fstep (K_c09 true) c09_parked (FTry 0%nat)) 0%nat) = None /\
  (option_map eid (pend (th c09_stalled 0%nat)) = Some 2 /\ qev (th c09_stalled 0%nat) = [] /\
   option_map eid (pend (th (fstep (K_c09 false) c09_stalled (FTry 0%nat)) 0%nat)) = Some 2).
Proof. vm_compute. repeat split; reflexivity. Qed.
