(* C09 — a blocked log call resumes once the backend made room; no stall on an empty queue.
   (bounded queue part; the unbounded queue part is in Properties_C02/C09 when present) *)
From Coq Require Import List NArith Bool.
From Quill Require Import Queue.BQDefs Queue.BQProofs Queue.BQSeqProofs TieC09.
Import ListNotations.
Local Open Scope N_scope.

Theorem C09_tie_commit_read_guard : QuillGen.SrcFacts.sk_bq_commit_read = Quill.Expected.sk_bq_commit_read.
Proof. exact bq_commit_read_guard_ok. Qed.
Print Assumptions C09_tie_commit_read_guard.

Theorem C09_tie_publish_rule : on_drain src_pub_rule = true.
Proof. exact src_publishes_on_drain. Qed.
Print Assumptions C09_tie_publish_rule.

(* For every capacity, batch threshold and history of writes, commits, reads and commit_reads:
   once the consumer has read everything written and has run its commit_read since the last read
   (the discipline of the backend's read pass), every record that fits the capacity is granted
   (blocking queue: the producer resumes; dropping queue: the statement is accepted). *)
Theorem C09_no_stall : forall C batch ops n,
  let s := fst (srun ideal C batch src_pub_rule bq_init ops) in
  dirty s = false -> rpos s = wpos s -> n <= C ->
  snd (prepare_write ideal C s n) <> None.
Proof. exact (fun C batch ops n => no_stall C batch src_pub_rule src_publishes_on_drain ops n). Qed.
Print Assumptions C09_no_stall.

(* the published reader position is exact whenever the consumer is quiescent on a drained queue *)
Theorem C09_published_exact : forall C batch ops,
  let s := fst (srun ideal C batch src_pub_rule bq_init ops) in
  dirty s = false -> wcache s = rpos s -> ar s = rpos s.
Proof. exact (fun C batch ops => published_exact C batch src_pub_rule src_publishes_on_drain ops). Qed.
Print Assumptions C09_published_exact.

(* D3 (fixed): with the pinned tree's guard (batch only) the statement is false *)
Theorem C09_stall_refuted_without_drain_publish :
  let s := fst (srun ideal 1024 51 pr_unfixed bq_init [W 36 true; R; CR]) in
  dirty s = false /\ rpos s = wpos s /\ 996 <= 1024 /\ snd (prepare_write ideal 1024 s 996) = None.
Proof. exact bq_stall_refuted. Qed.
Print Assumptions C09_stall_refuted_without_drain_publish.
