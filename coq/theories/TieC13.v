(* T-src tie for C13 (what the constructor rejects): the skeletons of StringFromTime::init and of
   the TimestampFormatter constructor regenerated from /repo on every run (tools/srcfacts.py,
   c13_facts) are the ones the repaired variant of M-TIME (Time/TimeModel.v, strict = true) was
   written against: init() runs the scan [unpatch] behind the %X test and before the rewrites of
   %r %R %T, with exactly the model's character sets, and the constructor throws when the specifier
   it found occurs again ([dup_spec]).  The model flag of the correspondence run is
   src_strict = c13_rejects_unpatchable && c13_rejects_repeated_spec. *)
From Coq Require Import String Ascii List NArith Bool.
From QuillGen Require SrcFacts.
From Quill Require Import Time.TimeModel Time.TimeSpec Time.TimeStrict Time.TimeTF Time.TimeRefute.
Import ListNotations.
Local Open Scope string_scope.

Definition exp_c13_sft_init : list string := [
    "EXPR _timestamp_format = std::move(timestamp_format)";
    "EXPR _time_zone = timezone";
    "IF _timestamp_format.find(""%X"") != std::string::npos";
    "  EXPR QUILL_THROW(QuillError)";
    "FOR for (size_t pos = _timestamp_format.find('%')";
    "  DECL size_t const end = _timestamp_format.find_first_not_of(""-_0^#123456789EO"", pos + 1);";
    "  IF end == std::string::npos";
    "    BREAK";
    "  IF (_timestamp_format[end] == 'c') || ((end != pos + 1) && (std::string{""HMSIklsrRTX""}.find(_timestamp_format[end]) != std::string::npos))";
    "    EXPR QUILL_THROW(QuillError)";
    "  EXPR pos = _timestamp_format.find('%', end + 1)";
    "EXPR _replace_all(_timestamp_format, ""%r"", ""%I:%M:%S %p"")";
    "EXPR _replace_all(_timestamp_format, ""%R"", ""%H:%M"")";
    "EXPR _replace_all(_timestamp_format, ""%T"", ""%H:%M:%S"")";
    "EXPR _populate_initial_parts(_timestamp_format)"].

Definition exp_c13_tf_ctor : list string := [
    "EXPR assert";
    "DECL size_t specifier_begin{std::string::npos};";
    "IF size_t const search_qms = _time_format.find(specifier_name[AdditionalSpecifier::Qms]);";
    "  EXPR search_qms != std::string::npos";
    "IF size_t const search_qus = _time_format.find(specifier_name[AdditionalSpecifier::Qus]);";
    "  EXPR search_qus != std::string::npos";
    "IF size_t const search_qns = _time_format.find(specifier_name[AdditionalSpecifier::Qns]);";
    "  EXPR search_qns != std::string::npos";
    "IF (specifier_begin != std::string::npos) && (_time_format.find(specifier_name[_additional_format_specifier], specifier_begin + specifier_length) != std::string::npos)";
    "  EXPR QUILL_THROW(QuillError)";
    "IF specifier_begin == std::string::npos";
    "  EXPR assert";
    "  EXPR _strftime_part_1.init(_time_format, _timestamp_timezone)";
    "ELSE";
    "  DECL std::string const format_part_1 = _time_format.substr(0, specifier_begin);";
    "  EXPR _strftime_part_1.init(format_part_1, _timestamp_timezone)";
    "  DECL size_t const specifier_end = specifier_begin + specifier_length;";
    "  DECL std::string const format_part_2 = _time_format.substr(specifier_end, _time_format.length() - specifier_end);";
    "  IF !format_part_2.empty()";
    "    EXPR _strftime_part_2.init(format_part_2, _timestamp_timezone)";
    "    EXPR _has_format_part_2 = true"].

Definition bytes_of (s : string) : list N := map N_of_ascii (list_ascii_of_string s).

(* the model flag that corresponds to the source *)
Definition src_strict : bool := SrcFacts.c13_rejects_unpatchable && SrcFacts.c13_rejects_repeated_spec.

Lemma src_rejects_unpatchable : SrcFacts.c13_rejects_unpatchable = true.
Proof. vm_compute. reflexivity. Qed.

Lemma src_rejects_repeated_spec : SrcFacts.c13_rejects_repeated_spec = true.
Proof. vm_compute. reflexivity. Qed.

Lemma src_strict_true : src_strict = true.
Proof. vm_compute. reflexivity. Qed.

Lemma c13_skeletons_ok :
  SrcFacts.sk_c13_sft_init = exp_c13_sft_init /\ SrcFacts.sk_c13_tf_ctor = exp_c13_tf_ctor.
Proof. vm_compute. split; reflexivity. Qed.

(* the character sets of the source are the model's: the skipped flag / width / modifier bytes, the
   time-of-day letters, and the letter rejected on its own *)
Lemma c13_charsets_ok : map bytes_of SrcFacts.sk_c13_charsets = [skip_chars; time_chars; [99%N]].
Proof. vm_compute. reflexivity. Qed.

(* the rejection rules of the repaired model, for the variant the source selects *)
Local Close Scope string_scope.
Local Open Scope list_scope.
Lemma c13_code_variant_rejects :
  src_strict = true /\
  (forall a k b c, tf_init src_strict (flat (a ++ Frac k :: b ++ Frac k :: c)) = inr ErrExclusive) /\
  (forall items p c,
     Forall tok_item items -> Forall (fun x => memN x skip_chars = true) p ->
     (c = 99%N \/ (p <> [] /\ memN c time_chars = true)) ->
     In (Conv (p ++ [c])) items -> sft_init src_strict (flat items) = None) /\
  (forall b, In b fine_bodies \/ In b flagged_bodies -> sft_init src_strict (37%N :: b) = None).
Proof.
  rewrite src_strict_true. split; [reflexivity|]. split; [exact rejects_same_twice|].
  split; [exact flagged_rejected_gen|]. intros b [H|H]; [now apply fine_rejected|now apply flagged_rejected].
Qed.
