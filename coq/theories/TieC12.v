(* T-src tie for C12 (formatter part): the variant of M-PAT (Format/PatModel.v, record pvar) that
   stands for the checked tree is read from facts regenerated from the source on every run
   (tools/srcfacts.py, c12_facts):
     SrcFacts.mm_pos_bits                = width of the narrowest unsigned type a source-location position
                                           passes through in MacroMetadata (the members _colon_separator_pos /
                                           _file_name_pos, the return types of _calc_colon_separator_pos /
                                           _calc_file_name_pos, the static_casts of their return statements)
     SrcFacts.pf_escapes_literal_braces  = PatternFormatter::_generate_fmt_format_string doubles the '{' / '}'
                                           of the literal text (outside %(...)) before the rewriting loop
   and the skeletons of the methods are the ones the model was written against.
   The lemmas below hold for the repaired code (size_t positions, pre-pass present); on the pinned
   code (uint16_t, no pre-pass) the first two fail: C12_refuted_long_source_location and
   C12_refuted_brace_literal (Properties_C12.v) are the statements about that variant. *)
From Coq Require Import String List Bool NArith.
From QuillGen Require SrcFacts.
From Quill Require Import Format.PatFmt Format.PatModel Format.PatProofs.
Import ListNotations.
Local Open Scope string_scope.

Definition exp_c12_mm_calc_file_name_pos : list string := [
    "DECL char const* source_location = _source_location;";
    "DECL char const* file = source_location;";
    "WHILE *source_location";
    "  DECL char cur = *source_location++;";
    "  IF cur == '/' || cur == PATH_PREFERRED_SEPARATOR";
    "    EXPR file = source_location";
    "RET return static_cast<size_t>(file - _source_location)"].

Definition exp_c12_mm_calc_colon_separator_pos : list string := [
    "DECL std::string_view const source_loc{_source_location};";
    "RET return source_loc.rfind(':')"].

Definition exp_c12_mm_line : list string := [
    "RET return _source_location + _colon_separator_pos + 1"].

Definition exp_c12_mm_full_path : list string := [
    "RET return std::string_view{_source_location, _colon_separator_pos}"].

Definition exp_c12_mm_file_name : list string := [
    "RET return std::string_view{_source_location + _file_name_pos, static_cast<size_t>(_colon_separator_pos - _file_name_pos)}"].

Definition exp_c12_mm_short_source_location : list string := [
    "RET return _source_location + _file_name_pos"].

Definition exp_c12_pf_generate_fmt_format_string : list string := [
    "DECL static_assert(PatternFormatter::Attribute::ATTR_NR_ITEMS == sizeof...(Args));";
    "FOR for (size_t i = 0; i < pattern.size()";
    "  IF (pattern[i] == '%') && (i + 1 < pattern.size()) && (pattern[i + 1] == '(')";
    "    EXPR i = pattern.find_first_of(')', i)";
    "    IF i == std::string::npos";
    "      BREAK";
    "  ELSE";
    "    IF (pattern[i] == '{') || (pattern[i] == '}')";
    "      EXPR pattern.insert(i, 1, pattern[i])";
    "      EXPR ++i";
    "EXPR pattern += ""\n""";
    "DECL std::array<size_t, PatternFormatter::Attribute::ATTR_NR_ITEMS> order_index{};";
    "EXPR order_index.fill(PatternFormatter::Attribute::ATTR_NR_ITEMS - 1)";
    "DECL std::array<fmtquill::detail::named_arg_info<char>, PatternFormatter::Attribute::ATTR_NR_ITEMS> named_args{};";
    "EXPR _store_named_args<0, 0>(named_args, args...)";
    "DECL uint8_t arg_idx = 0;";
    "DECL size_t arg_identifier_pos = pattern.find_first_of('%');";
    "WHILE arg_identifier_pos != std::string::npos";
    "  IF size_t const open_paren_pos = pattern.find_first_of('(', arg_identifier_pos);";
    "    EXPR open_paren_pos != std::string::npos && (open_paren_pos - arg_identifier_pos) == 1";
    "  ELSE";
    "    DECL size_t const closed_paren_pos = pattern.find_first_of(')', open_paren_pos);";
    "    IF closed_paren_pos == std::string::npos";
    "      EXPR QUILL_THROW(QuillError)";
    "    DECL std::string attr = pattern.substr(arg_identifier_pos, (closed_paren_pos + 1) - arg_identifier_pos);";
    "    DECL size_t const pos = attr.find(':');";
    "    DECL std::string attr_name;";
    "    IF pos != std::string::npos";
    "      DECL std::string custom_format_specifier = attr.substr(pos);";
    "      EXPR custom_format_specifier.pop_back()";
    "      DECL std::string value;";
    "      EXPR value += ""{""";
    "      EXPR value += custom_format_specifier";
    "      EXPR value += ""}""";
    "      EXPR pattern.replace(arg_identifier_pos, attr.length(), value)";
    "      EXPR attr_name = attr.substr(2, pos - 2)";
    "    ELSE";
    "      EXPR pattern.replace(arg_identifier_pos, attr.length(), ""{}"")";
    "      EXPR attr.pop_back()";
    "      EXPR attr_name = attr.substr(2, attr.size())";
    "    DECL int id = -1;";
    "    FOR for (size_t i = 0; i < PatternFormatter::Attribute::ATTR_NR_ITEMS; ++i)";
    "      IF named_args[i].name == attr_name";
    "        EXPR id = named_args[i].id";
    "        BREAK";
    "    IF id < 0";
    "      EXPR QUILL_THROW(QuillError)";
    "    EXPR order_index[static_cast<size_t>(id)] = arg_idx++";
    "    DECL PatternFormatter::Attribute const attr_enum_value = _attribute_from_string(attr_name);";
    "    EXPR is_set_in_pattern.set(attr_enum_value)";
    "    EXPR arg_identifier_pos = pattern.find_first_of('%')";
    "RET return std::make_pair(pattern, order_index)"].

(* the variant of the model that corresponds to the source *)
Definition src_variant : pvar :=
  {| pv_bits := SrcFacts.mm_pos_bits; pv_esc := SrcFacts.pf_escapes_literal_braces |}.

Lemma src_mm_pos_bits : SrcFacts.mm_pos_bits = 64%N.
Proof. vm_compute. reflexivity. Qed.

Lemma src_pf_escapes_literal_braces : SrcFacts.pf_escapes_literal_braces = true.
Proof. vm_compute. reflexivity. Qed.

Lemma src_variant_repaired : src_variant = pv_repaired.
Proof. unfold src_variant. now rewrite src_mm_pos_bits, src_pf_escapes_literal_braces. Qed.

Lemma c12_skeletons_ok :
  SrcFacts.sk_c12_mm_calc_file_name_pos = exp_c12_mm_calc_file_name_pos /\
  SrcFacts.sk_c12_mm_calc_colon_separator_pos = exp_c12_mm_calc_colon_separator_pos /\
  SrcFacts.sk_c12_mm_line = exp_c12_mm_line /\
  SrcFacts.sk_c12_mm_full_path = exp_c12_mm_full_path /\
  SrcFacts.sk_c12_mm_file_name = exp_c12_mm_file_name /\
  SrcFacts.sk_c12_mm_short_source_location = exp_c12_mm_short_source_location /\
  SrcFacts.sk_c12_pf_generate_fmt_format_string = exp_c12_pf_generate_fmt_format_string.
Proof. vm_compute. repeat split; reflexivity. Qed.

(* ---- the statements of C12 for the variant the source selects ---- *)
Local Close Scope string_scope.

(* MacroMetadata fields: no premise on the length of the source location *)
Lemma mm_fields_code dir fname line :
  (dir = [] \/ exists d, dir = d ++ [c_slash]) ->
  ~ In c_slash fname -> ~ In c_slash line -> ~ In c_colon line ->
  let sl := dir ++ fname ++ [c_colon] ++ line in
  mm_source_location sl = (dir ++ fname) ++ [c_colon] ++ line /\
  mm_full_path src_variant sl = dir ++ fname /\
  mm_line src_variant sl = line /\
  mm_file_name src_variant sl = fname /\
  mm_short_source_location src_variant sl = fname ++ [c_colon] ++ line /\
  mm_in_bounds src_variant sl = true.
Proof. apply mm_fields_wide. rewrite src_variant_repaired. discriminate. Qed.

(* creation and formatting together, literal text with any braces *)
Lemma line_created_code apply_spec p : wfg p -> print p <> [] ->
  exists g, generate src_variant (print p) = GOk g /\
            forall st, format src_variant apply_spec g st
                       = FOk (line_spec apply_spec p (env_of src_variant st)).
Proof. apply line_created_esc. now rewrite src_variant_repaired. Qed.

Lemma gen_print_code p : wfg p -> generate src_variant (print p) = GOk (gen_of (esc_pat p)).
Proof. apply gen_print_esc. now rewrite src_variant_repaired. Qed.
