(* T-src tie for C20: width of ThreadContextManager::_invalid_thread_context_count *)
From Coq Require Import NArith.
From QuillGen Require SrcFacts.
Lemma src_counter_width : (32 <= SrcFacts.tcm_invalid_count_bits)%N.
Proof. vm_compute. discriminate. Qed.
