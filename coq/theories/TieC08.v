(* T-src tie for C08: the fact read from /repo's BackendWorker.h on every run (tools/srcfacts.py) *)
From QuillGen Require SrcFacts.
Lemma src_be_report_before_ctx_removal : SrcFacts.be_report_before_ctx_removal = true.
Proof. vm_compute. reflexivity. Qed.

(* T-src tie for the count clause at micro-step granularity (Backend/FailCounter.v): the flags of the
   model are the booleans tools/srcfacts.py reads from ThreadContextManager.h on every run:
   increment_failure_counter is ONE atomic read-modify-write of _failure_counter by 1,
   get_and_reset_failure_counter is ONE atomic exchange(0) of it (after a load == 0 early return or
   not: tcm_failc_reset_guarded, the theorem holds for both), and _failure_counter is a std::atomic. *)
From Coq Require Import List NArith.
From Quill Require Import Backend.FailCounter Backend.FailCounterProofs.
Local Open Scope N_scope.
Lemma src_tcm_failc_inc_atomic : SrcFacts.tcm_failc_inc_atomic = true.
Proof. vm_compute. reflexivity. Qed.
Lemma src_tcm_failc_reset_atomic : SrcFacts.tcm_failc_reset_atomic = true.
Proof. vm_compute. reflexivity. Qed.
Definition fc_src_flags : fc_flags :=
  {| inc_atomic := SrcFacts.tcm_failc_inc_atomic;
     reset_guarded := SrcFacts.tcm_failc_reset_guarded;
     reset_atomic := SrcFacts.tcm_failc_reset_atomic |}.
(* the protocol as it is in the source now is exact for every schedule *)
Lemma fc_exact_src : forall ops,
  let s := fc_run fc_src_flags fc0 ops in
  rep s + ctr s = disc s /\ nsum (rets s) = rep s /\
  (let d := fc_run fc_src_flags s (get_and_reset_call fc_src_flags) in
   ctr d = 0 /\ disc d = disc s /\ nsum (rets d) = disc s).
Proof.
  intro ops. apply fc_exact_flags; [exact src_tcm_failc_inc_atomic|exact src_tcm_failc_reset_atomic].
Qed.
(* and it is a run of the atomic machine, the granularity of M-BE's counter steps *)
Lemma fc_refines_atomic_src : forall ops, exists aops, a_run afc0 aops = abs (fc_run fc_src_flags fc0 ops).
Proof.
  intro ops. unfold fc_src_flags. rewrite src_tcm_failc_inc_atomic, src_tcm_failc_reset_atomic.
  exact (fc_refines_atomic SrcFacts.tcm_failc_reset_guarded ops).
Qed.
