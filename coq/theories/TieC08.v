(* T-src tie for C08: the fact read from /repo's BackendWorker.h on every run (tools/srcfacts.py) *)
From QuillGen Require SrcFacts.
Lemma src_be_report_before_ctx_removal : SrcFacts.be_report_before_ctx_removal = true.
Proof. vm_compute. reflexivity. Qed.
