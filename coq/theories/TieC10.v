(* T-src tie for C10: the fact read from /repo's BackendWorker.h on every run (tools/srcfacts.py) *)
From QuillGen Require SrcFacts.
Lemma src_be_format_catch_all : SrcFacts.be_format_catch_all = true.
Proof. vm_compute. reflexivity. Qed.
Lemma src_be_format_catch_std : SrcFacts.be_format_catch_std = true.
Proof. vm_compute. reflexivity. Qed.
Lemma src_be_bt_replay_catch : SrcFacts.be_bt_replay_catch = true.
Proof. vm_compute. reflexivity. Qed.
