(* T-src tie for C14 (size rotation): which variant of M-ROT stands for the code, as far as the size
   accounting goes (finding D10).  tools/srcfacts.py (rot_facts) regenerates from the repository on every run
     - the skeletons of RotatingSink::write_log, RotatingSink::before_stream_write, RotatingSink::_size_rotation
       and StreamSink::write_log;
     - the fact rot_size_counts_written_bytes: write_log neither hands log_statement.size() to _size_rotation nor
       adds it to _file_size; both happen in before_stream_write(bytes, ..), which StreamSink::write_log calls
       with exactly the byte count of the safe_fwrite that follows (JsonSink::write_log reaches
       StreamSink::write_log with the json line as log_statement: TieC19 pins that call).
   The model variant is  c_cntacct = src_cntacct = false  (Rotate/RotModel.v: acct = the bytes written).
   The lemma and the equality of the regenerated skeletons with the ones the model was written against are
   closed by vm_compute.  On a tree that still accounts log_statement.size() this file does not compile and
   the theorems of Properties_C14 about the code variant are not discharged. *)
From Coq Require Import String List Bool NArith.
From QuillGen Require SrcFacts.
From Quill Require Import Rotate.RotFS Rotate.RotModel Rotate.RotProps.
Import ListNotations.
Local Open Scope string_scope.

Definition exp_rot_write_log : list string := [
    "IF this->is_null()";
    "  EXPR base_type::write_log(log_metadata, log_timestamp, thread_id, thread_name, process_id, logger_name, log_level, log_level_description, log_level_short_code, named_args, log_message, log_statement)";
    "  RET return";
    "DECL bool time_rotation = false;";
    "IF _config.rotation_frequency() != RotatingFileSinkConfig::RotationFrequency::Disabled";
    "  EXPR time_rotation = _time_rotation(log_timestamp)";
    "EXPR _check_size_rotation = !time_rotation && _config.rotation_max_file_size() != 0";
    "EXPR base_type::write_log(log_metadata, log_timestamp, thread_id, thread_name, process_id, logger_name, log_level, log_level_description, log_level_short_code, named_args, log_message, log_statement)"].

Definition exp_rot_before_stream_write : list string := [
    "IF _check_size_rotation";
    "  EXPR _size_rotation(bytes, log_timestamp)";
    "EXPR _file_size += bytes"].

Definition exp_rot_size_rotation : list string := [
    "IF _file_size + log_msg_size > _config.rotation_max_file_size()";
    "  EXPR _rotate_files(record_timestamp_ns)"].

Definition exp_rot_stream_write_log : list string := [
    "IF QUILL_UNLIKELY";
    "  RET return";
    "IF _file_event_notifier.before_write";
    "  DECL std::string const user_log_statement = _file_event_notifier.before_write(log_statement);";
    "  EXPR before_stream_write(user_log_statement.size(), log_timestamp)";
    "  EXPR safe_fwrite(user_log_statement.data(), sizeof(char), user_log_statement.size(), _file)";
    "ELSE";
    "  EXPR before_stream_write(log_statement.size(), log_timestamp)";
    "  EXPR safe_fwrite(log_statement.data(), sizeof(char), log_statement.size(), _file)";
    "EXPR _write_occurred = true"].

Local Close Scope string_scope.

(* the model flag that corresponds to the source *)
Definition src_cntacct : bool := negb SrcFacts.rot_size_counts_written_bytes.

Lemma src_cntacct_false : src_cntacct = false.
Proof. vm_compute. reflexivity. Qed.

Lemma c14_skeletons_ok :
  SrcFacts.sk_rot_write_log = exp_rot_write_log /\
  SrcFacts.sk_rot_before_stream_write = exp_rot_before_stream_write /\
  SrcFacts.sk_rot_size_rotation = exp_rot_size_rotation /\
  SrcFacts.sk_rot_stream_write_log = exp_rot_stream_write_log.
Proof. vm_compute. repeat split; reflexivity. Qed.

(* for the variant the source selects no premise on the writes is needed: restarts aside, every op is covered *)
Lemma ok_ops_src : forall c ops, c_cntacct c = src_cntacct -> Forall (ok_restart c) ops -> Forall (ok_op c) ops.
Proof. intros c ops E. rewrite src_cntacct_false in E. apply ok_restart_fixed. exact E. Qed.
