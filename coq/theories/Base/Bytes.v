(* Base/Bytes.v — bytes as N, the fixed-width little-endian integer codec used by every
   memcpy of a size_t / uint32_t / uintptr_t in the quill codecs (x86-64 byte order), proved
   (not assumed): length and round trip.  Plus the list facts the codec proofs need. *)
From Coq Require Import List NArith Lia Arith PeanoNat.
Import ListNotations.

Definition byte := N.

(* encn w n : the w low-order bytes of n, least significant first *)
Fixpoint encn (w : nat) (n : N) : list byte :=
  match w with
  | O => []
  | S w' => (n mod 256)%N :: encn w' (n / 256)%N
  end.

(* decn w bs : read w bytes (little endian); fails iff fewer than w bytes are available *)
Fixpoint decn (w : nat) (bs : list byte) : option (N * list byte) :=
  match w with
  | O => Some (0%N, bs)
  | S w' =>
    match bs with
    | [] => None
    | b :: r =>
      match decn w' r with
      | None => None
      | Some (n, r') => Some ((b + 256 * n)%N, r')
      end
    end
  end.

Definition zeros (n : nat) : list byte := repeat 0%N n.

Lemma encn_len : forall w n, length (encn w n) = w.
Proof. induction w as [|w IH]; intro n; cbn [encn length]; [reflexivity | now rewrite IH]. Qed.

Lemma zeros_len : forall n, length (zeros n) = n.
Proof. intro n. unfold zeros. apply repeat_length. Qed.

(* general form: what comes back is n truncated to w bytes *)
Lemma decn_encn_mod : forall w n tl,
  decn w (encn w n ++ tl) = Some ((n mod 256 ^ N.of_nat w)%N, tl).
Proof.
  induction w as [|w IH]; intros n tl.
  - cbn [encn decn app]. rewrite N.pow_0_r, N.mod_1_r. reflexivity.
  - cbn [encn decn app]. rewrite IH. f_equal. f_equal.
    rewrite Nat2N.inj_succ, N.pow_succ_r'.
    assert (H256 : (256 <> 0)%N) by discriminate.
    assert (Hp : (256 ^ N.of_nat w <> 0)%N) by (apply N.pow_nonzero; discriminate).
    rewrite (N.mod_mul_r n 256 (256 ^ N.of_nat w)) by assumption.
    reflexivity.
Qed.

Lemma decn_encn : forall w n tl, (n < 256 ^ N.of_nat w)%N ->
  decn w (encn w n ++ tl) = Some (n, tl).
Proof. intros w n tl H. rewrite decn_encn_mod, N.mod_small by assumption. reflexivity. Qed.

(* decn consumes exactly w bytes when it succeeds *)
Lemma decn_consumes : forall w bs n r, decn w bs = Some (n, r) -> length bs = w + length r.
Proof.
  induction w as [|w IH]; intros bs n r H; cbn [decn] in H.
  - inversion H; subst. reflexivity.
  - destruct bs as [|b bs']; [discriminate|].
    destruct (decn w bs') as [[n' r']|] eqn:E; [|discriminate].
    inversion H; subst. apply IH in E. cbn [length]. lia.
Qed.

(* list facts *)
Lemma firstn_app_exact {A} (a b : list A) : firstn (length a) (a ++ b) = a.
Proof. rewrite firstn_app, Nat.sub_diag, firstn_all. cbn. apply app_nil_r. Qed.
Lemma skipn_app_exact {A} (a b : list A) : skipn (length a) (a ++ b) = b.
Proof. rewrite skipn_app, Nat.sub_diag, skipn_all. reflexivity. Qed.
Lemma firstn_app_exact' {A} n (a b : list A) : n = length a -> firstn n (a ++ b) = a.
Proof. intros ->. apply firstn_app_exact. Qed.
Lemma skipn_app_exact' {A} n (a b : list A) : n = length a -> skipn n (a ++ b) = b.
Proof. intros ->. apply skipn_app_exact. Qed.
