(* The two abstractions every property decided on M-BE rests on, as T-src obligations:
   (1) a thread's queue is an atomic FIFO of records at micro-step granularity - what C01 / C02 prove of the real queues
       under release/acquire for the memory orders and statement orders found in the source (Tie.v, TieC02.v);
   (2) registering a thread context and refreshing the backend's cache are atomic steps (FReg, refresh) - what the
       registration protocol model proves for the order "append under the lock, then raise the flag", the shape of the
       flag's consumption and "consume the flag, then rebuild" found in the source (RegProto, TieC03.v). *)
From Coq Require Import List NArith Bool.
From QuillGen Require SrcFacts.
From Quill Require Import Queue.BQDefs Queue.UQDefs.
From Quill Require Tie TieC02 TieC03.

Definition MBE_abstractions_hold : Prop :=
  (sufficient Tie.src_orders = true /\ usufficient TieC02.src_ucfg = true /\
   SrcFacts.uq_publish_before_switch = true /\ SrcFacts.uq_commit_write_before_publish = true /\
   SrcFacts.uq_delete_before_switch = true /\ SrcFacts.uq_recheck_present = true /\
   SrcFacts.uq_commit_before_delete = true /\ SrcFacts.uq_next_load_after_empty = true) /\
  (SrcFacts.tcm_register_append_before_flag = true /\ SrcFacts.be_cache_rebuild_after_flag_consume = true /\
   SrcFacts.tcm_for_each_under_lock = true /\ SrcFacts.spinlock_acquire_release = true).

Lemma mbe_abstractions : MBE_abstractions_hold.
Proof.
  split.
  - split; [exact Tie.src_orders_sufficient|]. split; [exact TieC02.src_ucfg_sufficient|]. exact TieC02.uq_order_facts_ok.
  - split; [exact TieC03.src_tcm_register_append_before_flag|]. split; [exact TieC03.src_be_cache_rebuild_after_flag_consume|].
    split; [exact TieC03.src_tcm_for_each_under_lock|exact TieC03.src_spinlock_acquire_release].
Qed.
