(* T-src tie for C06: the fact read from /repo's BackendWorker.h on every run (tools/srcfacts.py) *)
From QuillGen Require SrcFacts.
Lemma src_be_pop_before_flag : SrcFacts.be_pop_before_flag = true.
Proof. vm_compute. reflexivity. Qed.
Lemma src_be_flush_event_unconditional : SrcFacts.be_flush_event_unconditional = true.
Proof. vm_compute. reflexivity. Qed.
