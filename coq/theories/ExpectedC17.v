(* Expected skeletons of the C17 anchor methods (LoggerManager, SinkManager, Spinlock, FrontendImpl::remove_logger[_blocking],
   BackendWorker::_cleanup_invalidated_loggers, LoggerBase::mark_invalid / is_valid_logger): the shape of the source that
   Registry/RegModel.v mirrors, frozen by hand. TieC17.v proves QuillGen.SrcFacts.sk_c17_* = these. *)
From Coq Require Import String List.
Import ListNotations.
Local Open Scope string_scope.
Definition sk_c17_be_cleanup_invalidated_loggers : list string := [
    "DECL std::vector<std::string> const removed_loggers = _logger_manager.cleanup_invalidated_loggers( [this]() { return _check_frontend_queues_and_cached_transit_events_empty(); });";
    "IF !removed_loggers.empty()";
    "  EXPR _sink_manager.cleanup_unused_sinks()";
    "  FOR for (auto const& removed_logger_name : removed_loggers)";
    "    DECL auto search_it = _logger_removal_flags.find(removed_logger_name);";
    "    IF search_it != _logger_removal_flags.end()";
    "      EXPR search_it->second->store(true)";
    "        ATOMIC search_it->second store []";
    "      EXPR _logger_removal_flags.erase(search_it)"].
Definition sk_c17_fe_remove_logger : list string := [
    "EXPR detail::LoggerManager::instance().remove_logger(logger)"].
Definition sk_c17_fe_remove_logger_blocking : list string := [
    "DECL static constexpr MacroMetadata macro_metadata{ """", """", """", nullptr, LogLevel::Critical, MacroMetadata::Event::LoggerRemovalRequest};";
    "DECL std::atomic<bool> logger_removal_complete{false};";
    "DECL std::atomic<bool>* logger_removal_complete_ptr = &logger_removal_complete;";
    "WHILE !logger->template log_statement<false, false>( LogLevel::None, &macro_metadata, reinterpret_cast<uintptr_t>(logger_removal_complete_ptr), logger->get_logger_name())";
    "  IF sleep_duration_ns > 0";
    "    EXPR std::this_thread::sleep_for(std::chrono::nanoseconds{sleep_duration_ns})";
    "  ELSE";
    "    EXPR std::this_thread::yield()";
    "EXPR detail::LoggerManager::instance().remove_logger(logger)";
    "WHILE !logger_removal_complete.load()";
    "  ATOMIC logger_removal_complete load []";
    "  IF sleep_duration_ns > 0";
    "    EXPR std::this_thread::sleep_for(std::chrono::nanoseconds{sleep_duration_ns})";
    "  ELSE";
    "    EXPR std::this_thread::yield()"].
Definition sk_c17_lb_is_valid_logger : list string := [
    "RET return valid.load(std::memory_order_acquire)";
    "  ATOMIC valid load [memory_order_acquire]"].
Definition sk_c17_lb_mark_invalid : list string := [
    "EXPR valid.store(false, std::memory_order_release)";
    "  ATOMIC valid store [memory_order_release]"].
Definition sk_c17_lm__find_logger : list string := [
    "DECL auto search_it = std::lower_bound(_loggers.begin(), _loggers.end(), target, [](std::unique_ptr<LoggerBase> const& a, std::string const& b) { return a->get_logger_name() < b; });";
    "RET return (search_it != std::end(_loggers) && search_it->get()->get_logger_name() == target) ? search_it->get() : nullptr"].
Definition sk_c17_lm__insert_logger : list string := [
    "DECL auto search_it = std::lower_bound(_loggers.begin(), _loggers.end(), logger->get_logger_name(), [](std::unique_ptr<LoggerBase> const& a, std::string const& b) { return a->get_logger_name() < b; });";
    "EXPR _loggers.insert(search_it, static_cast<std::unique_ptr<LoggerBase>&&>(logger))"].
Definition sk_c17_lm_cleanup_invalidated_loggers : list string := [
    "DECL std::vector<std::string> removed_loggers;";
    "IF _has_invalidated_loggers.load(std::memory_order_acquire)";
    "  ATOMIC _has_invalidated_loggers load [memory_order_acquire]";
    "  EXPR _has_invalidated_loggers.store(false, std::memory_order_release)";
    "    ATOMIC _has_invalidated_loggers store [memory_order_release]";
    "  DECL LockGuard const lock{_spinlock};";
    "  FOR for (auto it = _loggers.begin()";
    "    IF !it->get()->is_valid_logger()";
    "      IF !check_queues_empty()";
    "        EXPR ++it";
    "        EXPR _has_invalidated_loggers.store(true, std::memory_order_release)";
    "          ATOMIC _has_invalidated_loggers store [memory_order_release]";
    "      ELSE";
    "        EXPR removed_loggers.push_back(it->get()->get_logger_name())";
    "        EXPR it = _loggers.erase(it)";
    "    ELSE";
    "      EXPR ++it";
    "RET return removed_loggers"].
Definition sk_c17_lm_create_or_get_logger : list string := [
    "DECL LockGuard const lock{_spinlock};";
    "DECL LoggerBase* logger_ptr = _find_logger(logger_name);";
    "IF !logger_ptr";
    "  DECL std::unique_ptr<LoggerBase> new_logger{ new TLogger{logger_name, static_cast<std::vector<std::shared_ptr<Sink>>&&>(sinks), pattern_formatter_options, clock_source, user_clock}};";
    "  EXPR _insert_logger(static_cast<std::unique_ptr<LoggerBase>&&>(new_logger))";
    "  EXPR logger_ptr = _find_logger(logger_name)";
    "  IF logger_ptr && _env_log_level";
    "    EXPR logger_ptr->set_log_level(*_env_log_level)";
    "EXPR assert(logger_ptr)";
    "EXPR assert(logger_ptr->is_valid_logger())";
    "RET return logger_ptr"].
Definition sk_c17_lm_get_all_loggers : list string := [
    "DECL LockGuard const lock{_spinlock};";
    "DECL std::vector<LoggerBase*> loggers;";
    "FOR for (auto const& elem : _loggers)";
    "  IF elem->is_valid_logger()";
    "    EXPR loggers.push_back(elem.get())";
    "RET return loggers"].
Definition sk_c17_lm_get_logger : list string := [
    "DECL LockGuard const lock{_spinlock};";
    "DECL LoggerBase* logger = _find_logger(logger_name);";
    "RET return logger && logger->is_valid_logger() ? logger : nullptr"].
Definition sk_c17_lm_get_number_of_loggers : list string := [
    "DECL LockGuard const lock{_spinlock};";
    "RET return _loggers.size()"].
Definition sk_c17_lm_remove_logger : list string := [
    "EXPR logger->mark_invalid()";
    "EXPR _has_invalidated_loggers.store(true, std::memory_order_release)";
    "  ATOMIC _has_invalidated_loggers store [memory_order_release]"].
Definition sk_c17_sm__find_sink : list string := [
    "DECL std::shared_ptr<Sink> sink;";
    "DECL auto search_it = std::lower_bound(_sinks.begin(), _sinks.end(), target, [](SinkInfo const& elem, std::string const& b) { return elem.sink_id < b; });";
    "IF search_it != std::end(_sinks) && search_it->sink_id == target";
    "  EXPR sink = search_it->sink_ptr.lock()";
    "RET return sink"].
Definition sk_c17_sm__insert_sink : list string := [
    "DECL auto search_it = std::lower_bound(_sinks.begin(), _sinks.end(), sink_name, [](SinkInfo const& elem, std::string const& b) { return elem.sink_id < b; });";
    "EXPR _sinks.insert(search_it, SinkInfo{sink_name, sink})"].
Definition sk_c17_sm_cleanup_unused_sinks : list string := [
    "DECL LockGuard const lock{_spinlock};";
    "DECL uint32_t cnt{0};";
    "FOR for (auto it = _sinks.begin()";
    "  IF it->sink_ptr.expired()";
    "    EXPR it = _sinks.erase(it)";
    "    EXPR ++cnt";
    "  ELSE";
    "    EXPR ++it";
    "RET return cnt"].
Definition sk_c17_sm_create_or_get_sink : list string := [
    "DECL static_assert(std::is_base_of_v<Sink, TSink>, ""TSink must derive from Sink"");";
    "DECL LockGuard const lock{_spinlock};";
    "DECL std::shared_ptr<Sink> sink = _find_sink(sink_name);";
    "IF !sink";
    "  IF std::disjunction_v<std::is_same<FileSink, TSink>, std::is_base_of<FileSink, TSink>>";
    "    EXPR sink = std::make_shared<TSink>(sink_name, static_cast<Args&&>(args)...)";
    "  ELSE";
    "    EXPR sink = std::make_shared<TSink>(static_cast<Args&&>(args)...)";
    "  EXPR _insert_sink(sink_name, sink)";
    "RET return sink"].
Definition sk_c17_spin_lock : list string := [
    "DO";
    "  WHILE _flag.load(std::memory_order_relaxed) == State::Locked";
    "    ATOMIC _flag load [memory_order_relaxed]";
    "DOWHILE _flag.exchange(State::Locked, std::memory_order_acquire) == State::Locked";
    "  ATOMIC _flag exchange [memory_order_acquire]"].
Definition sk_c17_spin_unlock : list string := [
    "EXPR _flag.store(State::Free, std::memory_order_release)";
    "  ATOMIC _flag store [memory_order_release]"].
