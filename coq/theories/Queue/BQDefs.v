(* M-BQ: executable model of quill::detail::BoundedSPSCQueueImpl<T>
   (include/quill/core/BoundedSPSCQueue.h).  Definitions only.

   - the arithmetic of the guards, in ideal (unbounded N) and concrete (mod 2^wb) form;
   - BQSeq: the six methods as functions on the private fields (sequential layer), generic in the
     arithmetic, with composite ops W/R/CR/E used by the correspondence harness;
   - BQRA: the two-thread release/acquire transition system on ideal positions. *)
From Coq Require Import List NArith Arith Bool.
Import ListNotations.
Local Open Scope N_scope.

(* ------------------------------------------------------------------ arithmetic *)
Record arith := {
  a_add : N -> N -> N;      (* x + y   in integer_type *)
  a_sub : N -> N -> N;      (* x - y   in integer_type (wraps) *)
  a_off : N -> N -> N       (* pos & mask, given the capacity *)
}.

Definition ideal : arith :=
  {| a_add := N.add; a_sub := N.sub; a_off := fun x C => x mod C |}.

Definition conc (wb : N) : arith :=
  {| a_add := fun x y => (x + y) mod 2 ^ wb;
     a_sub := fun x y => (x + 2 ^ wb - y) mod 2 ^ wb;
     a_off := fun x C => N.land x (C - 1) |}.

(* what commit_read's guard looks like in the source (facts regenerated from /repo) *)
Record pub_rule := { on_batch : bool; on_drain : bool }.

Section Seq.
Variable A : arith.
Variable C : N.          (* capacity, a power of two *)
Variable batch : N.      (* _bytes_per_batch *)
Variable pr : pub_rule.

Record bq := { wpos : N; rcache : N; rpos : N; wcache : N; aw : N; ar : N;
               recs : list N  (* ghost: sizes of finished, not yet read records, oldest first *);
               dirty : bool   (* ghost: a record was read since the last commit_read *) }.
Definition bq_init : bq := {| wpos := 0; rcache := 0; rpos := 0; wcache := 0; aw := 0; ar := 0; recs := []; dirty := false |}.

(* (_capacity - static_cast<integer_type>(_writer_pos - _reader_pos_cache)) < n *)
Definition nofit (w r n : N) : bool := a_sub A C (a_sub A w r) <? n.

(* prepare_write(n): Some offset (granted) or None; the reload uses the current atomic value *)
Definition prepare_write (s : bq) (n : N) : bq * option N :=
  if nofit (wpos s) (rcache s) n then
    let s' := {| wpos := wpos s; rcache := ar s; rpos := rpos s; wcache := wcache s; aw := aw s; ar := ar s; recs := recs s; dirty := dirty s |} in
    if nofit (wpos s') (rcache s') n then (s', None) else (s', Some (a_off A (wpos s') C))
  else (s, Some (a_off A (wpos s) C)).

Definition finish_write (s : bq) (n : N) : bq :=
  {| wpos := a_add A (wpos s) n; rcache := rcache s; rpos := rpos s; wcache := wcache s; aw := aw s; ar := ar s; recs := recs s ++ [n]; dirty := dirty s |}.
Definition commit_write (s : bq) : bq :=
  {| wpos := wpos s; rcache := rcache s; rpos := rpos s; wcache := wcache s; aw := wpos s; ar := ar s; recs := recs s; dirty := dirty s |}.

(* empty(): reloads the writer position only when the cache says empty *)
Definition empty (s : bq) : bq * bool :=
  if wcache s =? rpos s then
    let s' := {| wpos := wpos s; rcache := rcache s; rpos := rpos s; wcache := aw s; aw := aw s; ar := ar s; recs := recs s; dirty := dirty s |} in
    (s', wcache s' =? rpos s')
  else (s, false).

Definition prepare_read (s : bq) : bq * option N :=
  let (s', e) := empty s in if e then (s', None) else (s', Some (a_off A (rpos s') C)).

Definition finish_read (s : bq) (n : N) : bq :=
  {| wpos := wpos s; rcache := rcache s; rpos := a_add A (rpos s) n; wcache := wcache s; aw := aw s; ar := ar s; recs := tl (recs s); dirty := true |}.

Definition should_publish (s : bq) : bool :=
  (on_batch pr && (batch <=? a_sub A (rpos s) (ar s))) || (on_drain pr && (rpos s =? wcache s)).

Definition commit_read (s : bq) : bq :=
  if should_publish s then
    {| wpos := wpos s; rcache := rcache s; rpos := rpos s; wcache := wcache s; aw := aw s; ar := rpos s; recs := recs s; dirty := false |}
  else {| wpos := wpos s; rcache := rcache s; rpos := rpos s; wcache := wcache s; aw := aw s; ar := ar s; recs := recs s; dirty := false |}.

(* composite ops of the correspondence harness *)
Inductive sop :=
| W (n : N) (commit : bool)   (* prepare_write n; if granted: fill, finish_write n, [commit_write] *)
| CW                          (* commit_write *)
| R                           (* prepare_read; if non-null: read the oldest record, finish_read its size *)
| CR                          (* commit_read *)
| E.                          (* empty() *)

(* observation: W -> 0 | offset+1 ; R -> 0 | offset+1, size ; E -> 0/1 ; CW, CR -> nothing *)
Definition sstep (s : bq) (o : sop) : bq * list N :=
  match o with
  | W n c =>
      let (s1, r) := prepare_write s n in
      match r with
      | None => (s1, [0])
      | Some off => let s2 := finish_write s1 n in ((if c then commit_write s2 else s2), [N.succ off])
      end
  | CW => (commit_write s, [])
  | R =>
      let (s1, r) := prepare_read s in
      match r with
      | None => (s1, [0])
      | Some off => match recs s1 with
                    | [] => (s1, [N.succ off; 0])     (* unreachable under the protocol *)
                    | n :: _ => (finish_read s1 n, [N.succ off; n])
                    end
      end
  | CR => (commit_read s, [])
  | E => let (s1, e) := empty s in (s1, [if e then 1 else 0])
  end.

Fixpoint srun (s : bq) (ops : list sop) : bq * list N :=
  match ops with
  | [] => (s, [])
  | o :: ops' => let (s1, out) := sstep s o in let (s2, outs) := srun s1 ops' in (s2, out ++ outs)
  end.
End Seq.



(* ------------------------------------------------------------------ encoded entry point
   case: bq <wb> <k> <batch> <on_batch> <on_drain> <pct> ops...   (capacity = 2^k; wb = 0 selects the ideal
   arithmetic; pct = reader_store_percent, used only by the C++ harness: batch = floor(2^k * pct / 100))
   ops : 0 n c = W n c ; 1 = CW ; 2 = R ; 3 = CR ; 4 = E *)
Fixpoint sdecode (fuel : nat) (l : list N) : list sop :=
  match fuel with
  | O => []
  | S f =>
    match l with
    | 0 :: n :: c :: r => W n (negb (c =? 0)) :: sdecode f r
    | 1 :: r => CW :: sdecode f r
    | 2 :: r => R :: sdecode f r
    | 3 :: r => CR :: sdecode f r
    | 4 :: r => E :: sdecode f r
    | _ => []
    end
  end.

Definition bq_run_enc (l : list N) : list N :=
  match l with
  | wb :: k :: batch :: ob :: od :: _pct :: ops =>
      let A := if wb =? 0 then ideal else conc wb in
      let pr := {| on_batch := negb (ob =? 0); on_drain := negb (od =? 0) |} in
      snd (srun A (2 ^ k) batch pr (bq_init) (sdecode (length ops) ops))
  | _ => []
  end.

(* ------------------------------------------------------------------ BQRA: release/acquire layer *)
Inductive mo := Rlx | Acq | Rel.
Definition is_acq m := match m with Acq => true | _ => false end.
Definition is_rel m := match m with Rel => true | _ => false end.
(* the four orders that matter: prepare_write reload, commit_write store, empty() load, commit_read store *)
Record orders := { o_pw_load : mo; o_cw_store : mo; o_em_load : mo; o_cr_store : mo }.
Definition sufficient o :=
  is_acq (o_pw_load o) && is_rel (o_cw_store o) && is_acq (o_em_load o) && is_rel (o_cr_store o).

Section RA.
Variable C : N.
Variable ord : orders.

(* ideal positions. histW/histR: modification order of the two atomics (single writer each,
   newest last), each message = (value, view it carries: the value itself if stored with release,
   0 otherwise). p_seen/c_seen: index of the last message this thread read (coherence);
   p_know/c_know: the thread's view collapsed to one number (see DESIGN section 4, M-BQ). *)
Record st := {
  r_wpos : N; r_rcache : N; p_seen : nat; p_know : N; granted : option N;
  r_rpos : N; r_wcache : N; c_seen : nat; c_know : N;
  histW : list (N * N); histR : list (N * N);
  wlog : list (N * N) (* start, len of every record written, in order *);
  nread : nat; race : bool }.

Definition ra_init : st :=
  {| r_wpos := 0; r_rcache := 0; p_seen := 0; p_know := 0; granted := None;
     r_rpos := 0; r_wcache := 0; c_seen := 0; c_know := 0;
     histW := [(0, 0)]; histR := [(0, 0)]; wlog := []; nread := 0; race := false |}.

Inductive op :=
| PAskCached (n : N)            (* prepare_write, first test passes on the cached reader position *)
| PAskLoad (n : N) (i : nat)    (* first test fails: reload, reading message i of histR *)
| PWriteFinishCommit            (* memcpy the record, finish_write, commit_write *)
| CLoad (i : nat)               (* empty(): cache says empty, load message i of histW *)
| CRead                         (* read + decode the record at rpos, finish_read *)
| CCommit (publish : bool).     (* commit_read: publishes or not (any publish rule) *)

Definition upd_p s w rc ps pk g hw wl rc' :=
  {| r_wpos := w; r_rcache := rc; p_seen := ps; p_know := pk; granted := g;
     r_rpos := r_rpos s; r_wcache := r_wcache s; c_seen := c_seen s; c_know := c_know s;
     histW := hw; histR := histR s; wlog := wl; nread := nread s; race := rc' |}.
Definition upd_c s r wc cs ck hr nr rc' :=
  {| r_wpos := r_wpos s; r_rcache := r_rcache s; p_seen := p_seen s; p_know := p_know s; granted := granted s;
     r_rpos := r; r_wcache := wc; c_seen := cs; c_know := ck;
     histW := histW s; histR := hr; wlog := wlog s; nread := nr; race := rc' |}.

(* the ideal form of the guard: the same function the sequential layer uses *)
Definition fits (w r n : N) : bool := negb (nofit ideal C w r n).

Definition step (s : st) (o : op) : st :=
  match o with
  | PAskCached n =>
      match granted s with Some _ => s | None =>
      if fits (r_wpos s) (r_rcache s) n
      then upd_p s (r_wpos s) (r_rcache s) (p_seen s) (p_know s) (Some n) (histW s) (wlog s) (race s)
      else s end
  | PAskLoad n i =>
      match granted s with Some _ => s | None =>
      if fits (r_wpos s) (r_rcache s) n then s else
      if Nat.leb (p_seen s) i then
        match nth_error (histR s) i with
        | None => s
        | Some (v, k) =>
            let pk := if is_acq (o_pw_load ord) then N.max (p_know s) k else p_know s in
            upd_p s (r_wpos s) v i pk (if fits (r_wpos s) v n then Some n else None) (histW s) (wlog s) (race s)
        end
      else s end
  | PWriteFinishCommit =>
      match granted s with
      | None => s
      | Some n =>
          (* writing [wpos, wpos+n) is race free iff every byte it overwrites is known released *)
          let bad := negb (r_wpos s + n <=? p_know s + C) in
          let w' := r_wpos s + n in
          upd_p s w' (r_rcache s) (p_seen s) (p_know s) None
                (histW s ++ [(w', if is_rel (o_cw_store ord) then w' else 0)])
                (wlog s ++ [(r_wpos s, n)]) (race s || bad)
      end
  | CLoad i =>
      if r_wcache s =? r_rpos s then
        if Nat.leb (c_seen s) i then
          match nth_error (histW s) i with
          | None => s
          | Some (v, k) =>
              upd_c s (r_rpos s) v i (if is_acq (o_em_load ord) then N.max (c_know s) k else c_know s)
                    (histR s) (nread s) (race s)
          end
        else s
      else s
  | CRead =>
      if r_wcache s =? r_rpos s then s else
      match nth_error (wlog s) (nread s) with
      | None => (* the consumer believes there is a record that was never written: torn / garbage read *)
          upd_c s (r_rpos s) (r_wcache s) (c_seen s) (c_know s) (histR s) (nread s) true
      | Some (st0, len) =>
          (* race free iff the record really starts here and all its bytes are known written *)
          let bad := negb ((st0 =? r_rpos s) && (st0 + len <=? c_know s)) in
          upd_c s (r_rpos s + len) (r_wcache s) (c_seen s) (c_know s) (histR s) (S (nread s)) (race s || bad)
      end
  | CCommit pub =>
      if pub then
        upd_c s (r_rpos s) (r_wcache s) (c_seen s) (c_know s)
              (histR s ++ [(r_rpos s, if is_rel (o_cr_store ord) then r_rpos s else 0)]) (nread s) (race s)
      else s
  end.

Definition run (ops : list op) : st := fold_left step ops ra_init.
End RA.
