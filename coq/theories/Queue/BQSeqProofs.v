(* Sequential layer of M-BQ:
   - invariant of the ideal model over every sequence of harness ops;
   - C09: at consumer quiescence the published reader position equals the real one, so a fitting
     reservation succeeds (no stall on an empty queue) - needs the publish-on-drain rule;
   - refutation for the unfixed guard (D3);
   - the concrete (mod 2^wb) model yields the same observations as the ideal one. *)
From Coq Require Import List NArith ZArith Arith Bool Lia.
From Quill Require Import Queue.BQDefs Queue.BQProofs.
Import ListNotations.
Local Open Scope N_scope.

Fixpoint sum (l : list N) : N := match l with [] => 0 | x :: t => x + sum t end.
Lemma sum_app a b : sum (a ++ b) = sum a + sum b.
Proof. induction a; cbn; lia. Qed.

Definition is_boundary (r : N) (recs : list N) (v : N) := exists j, v = r + sum (firstn j recs).

Lemma boundary_snoc r recs x v : is_boundary r recs v -> is_boundary r (recs ++ [x]) v.
Proof.
  intros [j ->]. destruct (Nat.le_gt_cases j (length recs)).
  - exists j. rewrite firstn_app. replace (j - length recs)%nat with 0%nat by lia. cbn. now rewrite app_nil_r.
  - exists (length recs). rewrite firstn_all2 by lia. rewrite firstn_app, Nat.sub_diag, firstn_all. cbn. now rewrite app_nil_r.
Qed.

Lemma boundary_all r recs : is_boundary r recs (r + sum recs).
Proof. exists (length recs). now rewrite firstn_all. Qed.

Lemma boundary_tl r x recs v : is_boundary r (x :: recs) v -> r < v -> is_boundary (r + x) recs v /\ r + x <= v.
Proof.
  intros [j ->] Hlt. destruct j; cbn in *; [lia|]. split; [exists j; lia|lia].
Qed.

Section SeqIdeal.
Variable C batch : N.
Variable pr : pub_rule.
Notation step := (sstep ideal C batch pr).
Notation run := (srun ideal C batch pr).

Record SInv (s : bq) : Prop := {
  s1 : rcache s <= ar s; s2 : ar s <= rpos s; s3 : rpos s <= wcache s;
  s4 : wcache s <= aw s; s5 : aw s <= wpos s; s6 : wpos s <= rcache s + C;
  s7 : wpos s = rpos s + sum (recs s);
  s8 : is_boundary (rpos s) (recs s) (wcache s);
  s9 : is_boundary (rpos s) (recs s) (aw s)
}.

Lemma SInv_init : SInv bq_init.
Proof. constructor; cbn; try lia; exists 0%nat; reflexivity. Qed.

Lemma nofit_ideal w r n : r <= w -> w <= r + C -> nofit ideal C w r n = false -> w + n <= r + C.
Proof. unfold nofit; cbn [a_sub ideal]. intros ? ? H. apply N.ltb_ge in H. lia. Qed.

Lemma pw_inv s n : SInv s -> SInv (fst (prepare_write ideal C s n)) /\
  (forall off, snd (prepare_write ideal C s n) = Some off ->
     wpos s + n <= rcache (fst (prepare_write ideal C s n)) + C /\ off = wpos s mod C) /\
  wpos (fst (prepare_write ideal C s n)) = wpos s /\ recs (fst (prepare_write ideal C s n)) = recs s.
Proof.
  intros I. unfold prepare_write.
  destruct (nofit ideal C (wpos s) (rcache s) n) eqn:F1.
  - cbn [wpos rcache].
    assert (I' : SInv {| wpos := wpos s; rcache := ar s; rpos := rpos s; wcache := wcache s; aw := aw s; ar := ar s; recs := recs s; dirty := dirty s |}).
    { destruct I as [h1 h2 h3 h4 h5 h6 h7 h8 h9]. constructor; cbn; auto; lia. }
    destruct (nofit ideal C (wpos s) (ar s) n) eqn:F2; cbn [fst snd].
    + split; [exact I'|]. split; [intros; discriminate|]. auto.
    + split; [exact I'|]. split; [|auto]. intros off E; inversion E; subst. cbn [rcache a_off ideal wpos].
      destruct I as [h1 h2 h3 h4 h5 h6 h7 h8 h9]. split; [|reflexivity]. apply nofit_ideal; auto; lia.
  - cbn [fst snd]. split; [exact I|]. split; [|auto]. intros off E; inversion E; subst. cbn [a_off ideal].
    destruct I as [h1 h2 h3 h4 h5 h6 h7 h8 h9]. split; [|reflexivity]. apply nofit_ideal; auto; lia.
Qed.

Lemma empty_inv s : SInv s -> SInv (fst (empty s)) /\
  (snd (empty s) = false -> rpos s < wcache (fst (empty s))) /\
  rpos (fst (empty s)) = rpos s /\ recs (fst (empty s)) = recs s /\ dirty (fst (empty s)) = dirty s /\
  ar (fst (empty s)) = ar s /\ wpos (fst (empty s)) = wpos s /\
  (wcache (fst (empty s)) = wcache s \/ (wcache s = rpos s /\ wcache (fst (empty s)) = aw s)).
Proof.
  intros I. unfold empty. destruct (N.eqb_spec (wcache s) (rpos s)) as [E|NE]; cbn [fst snd wcache rpos recs dirty ar wpos].
  - split. { destruct I as [h1 h2 h3 h4 h5 h6 h7 h8 h9]. constructor; cbn; auto; lia. }
    split. { intro H. apply N.eqb_neq in H. destruct I as [h1 h2 h3 h4 h5 h6 h7 h8 h9]. lia. }
    repeat split; auto.
  - split; [exact I|]. split. { intros _. destruct I as [h1 h2 h3 h4 h5 h6 h7 h8 h9]. lia. } repeat split; auto.
Qed.

Lemma step_inv s o : SInv s -> SInv (fst (step s o)).
Proof.
  intros I. destruct o as [n c| | | |]; cbn [sstep].
  - destruct (pw_inv s n I) as (I1 & Hg & Hw & Hr).
    destruct (prepare_write ideal C s n) as [s1 [off|]] eqn:E; cbn [fst snd] in *; [|exact I1].
    destruct (Hg off eq_refl) as [Hfit _].
    assert (I2 : SInv (finish_write ideal s1 n)).
    { destruct I1 as [h1 h2 h3 h4 h5 h6 h7 h8 h9]. constructor; cbn [finish_write wpos rcache rpos wcache aw ar recs a_add ideal]; try lia.
      - rewrite sum_app. cbn. lia.
      - now apply boundary_snoc.
      - now apply boundary_snoc. }
    destruct c; cbn [fst]; [|exact I2].
    destruct I2 as [h1 h2 h3 h4 h5 h6 h7 h8 h9]. constructor; cbn [commit_write wpos rcache rpos wcache aw ar recs]; auto; try lia.
    rewrite h7. apply boundary_all.
  - destruct I as [h1 h2 h3 h4 h5 h6 h7 h8 h9]. constructor; cbn; auto; try lia. rewrite h7. apply boundary_all.
  - unfold prepare_read. destruct (empty_inv s I) as (I1 & Hne & Hrp & Hrc & _).
    destruct (empty s) as [s1 e] eqn:E; cbn [fst snd] in *.
    destruct e; cbn [fst]; [exact I1|].
    specialize (Hne eq_refl). rewrite <- Hrp in Hne.
    destruct (recs s1) as [|x t] eqn:ER; cbn [fst]; [exact I1|].
    destruct I1 as [h1 h2 h3 h4 h5 h6 h7 h8 h9]. rewrite ER in *.
    destruct (boundary_tl _ _ _ _ h8 Hne) as [B8 L8].
    destruct (boundary_tl _ _ _ _ h9 ltac:(lia)) as [B9 L9].
    constructor; cbn [finish_read wpos rcache rpos wcache aw ar recs a_add ideal tl]; try lia.
    + rewrite ER. cbn [tl]. cbn [sum] in h7. lia.
    + rewrite ER; exact B8.
    + rewrite ER; exact B9.
  - unfold commit_read. destruct I as [h1 h2 h3 h4 h5 h6 h7 h8 h9]. destruct (should_publish ideal batch pr s); constructor; cbn; auto; lia.
  - destruct (empty_inv s I) as (I1 & _). destruct (empty s); exact I1.
Qed.

Lemma run_inv ops : forall s, SInv s -> SInv (fst (run s ops)).
Proof.
  induction ops as [|o ops IH]; intros s I; cbn [srun]; [exact I|].
  pose proof (step_inv s o I) as I1. destruct (step s o) as [s1 out].
  specialize (IH s1 I1). destruct (run s1 ops). exact IH.
Qed.

(* ---------------- C09: publish-on-drain makes the published position exact at quiescence *)
Hypothesis Hdrain : on_drain pr = true.

Definition PubInv (s : bq) : Prop := dirty s = false -> ar s = rpos s \/ rpos s <> wcache s.

Lemma w_consumer_fields s n c : let s' := fst (step s (W n c)) in
  dirty s' = dirty s /\ ar s' = ar s /\ rpos s' = rpos s /\ wcache s' = wcache s.
Proof.
  cbn [sstep]. unfold prepare_write.
  destruct (nofit ideal C (wpos s) (rcache s) n);
    [cbn [wpos rcache]; destruct (nofit ideal C (wpos s) (ar s) n)|]; cbn; try (destruct c); cbn; auto.
Qed.

Lemma step_pub s o : SInv s -> PubInv s -> PubInv (fst (step s o)).
Proof.
  intros I P. destruct o as [n c| | | |].
  - destruct (w_consumer_fields s n c) as (E1 & E2 & E3 & E4). unfold PubInv. rewrite E1, E2, E3, E4. exact P.
  - exact P.
  - cbn [sstep]. unfold prepare_read. destruct (empty_inv s I) as (I1 & Hne & Hrp & Hrc & Hd & Har & _ & Hwc).
    destruct (empty s) as [s1 e] eqn:E; cbn [fst snd] in *.
    assert (P1 : PubInv s1).
    { intro D. rewrite Hd in D. specialize (P D). rewrite Har, Hrp.
      destruct Hwc as [->|[Eq ->]]; [exact P|].
      destruct P as [P|P]; [now left|congruence]. }
    destruct e; cbn [fst]; [exact P1|].
    destruct (recs s1); cbn [fst]; [exact P1|].
    intro D. cbn in D. discriminate.
  - cbn [sstep fst]. unfold commit_read, should_publish. rewrite Hdrain. cbn [andb].
    destruct (N.eqb_spec (rpos s) (wcache s)) as [Eq|Ne].
    + rewrite orb_true_r. intros _. now left.
    + rewrite orb_false_r. destruct (on_batch pr && (batch <=? a_sub ideal (rpos s) (ar s))); intros _; cbn; [now left|now right].
  - cbn [sstep]. destruct (empty_inv s I) as (I1 & Hne & Hrp & Hrc & Hd & Har & _ & Hwc).
    destruct (empty s) as [s1 e] eqn:E; cbn [fst snd] in *.
    intro D. rewrite Hd in D. specialize (P D). rewrite Har, Hrp.
    destruct Hwc as [->|[Eq ->]]; [exact P|].
    destruct P as [P|P]; [now left|congruence].
Qed.

Lemma run_pub ops : forall s, SInv s -> PubInv s -> PubInv (fst (run s ops)).
Proof.
  induction ops as [|o ops IH]; intros s I P; cbn [srun]; [exact P|].
  pose proof (step_inv s o I) as I1. pose proof (step_pub s o I P) as P1.
  destruct (step s o) as [s1 out]. specialize (IH s1 I1 P1). destruct (run s1 ops). exact IH.
Qed.

(* For every history: when the consumer has read everything that was written and has run its
   commit_read since the last read, any record that fits the capacity is granted. *)
Theorem no_stall ops n : let s := fst (run bq_init ops) in
  dirty s = false -> rpos s = wpos s -> n <= C ->
  snd (prepare_write ideal C s n) <> None.
Proof.
  intros s D Hall Hn.
  assert (I : SInv s) by (apply run_inv, SInv_init).
  assert (P : PubInv s) by (apply run_pub; [apply SInv_init|intros _; now left]).
  destruct I as [h1 h2 h3 h4 h5 h6 h7 h8 h9]. assert (Hwc : wcache s = rpos s) by lia.
  destruct (P D) as [Har|Hne]; [|congruence].
  unfold prepare_write. destruct (nofit ideal C (wpos s) (rcache s) n); cbn [wpos rcache].
  - assert (F : nofit ideal C (wpos s) (ar s) n = false).
    { unfold nofit; cbn [a_sub ideal]. apply N.ltb_ge. lia. }
    rewrite F. cbn. discriminate.
  - cbn. discriminate.
Qed.

(* more generally: at quiescence the space the producer sees after its reload is the real free space *)
Theorem published_exact ops : let s := fst (run bq_init ops) in
  dirty s = false -> wcache s = rpos s -> ar s = rpos s.
Proof.
  intros s D Hwc.
  assert (P : PubInv s) by (apply run_pub; [apply SInv_init|intros _; now left]).
  destruct (P D); congruence.
Qed.
End SeqIdeal.

(* ---------------- D3: without publish-on-drain the theorem is false (witness replayed on the real queue) *)
Definition pr_unfixed := {| on_batch := true; on_drain := false |}.
Definition pr_fixed := {| on_batch := true; on_drain := true |}.

Example bq_stall_refuted :
  let s := fst (srun ideal 1024 51 pr_unfixed bq_init [W 36 true; R; CR]) in
  dirty s = false /\ rpos s = wpos s /\ 996 <= 1024 /\ snd (prepare_write ideal 1024 s 996) = None.
Proof. vm_compute. repeat split; discriminate. Qed.

Example bq_no_stall_fixed :
  let s := fst (srun ideal 1024 51 pr_fixed bq_init [W 36 true; R; CR]) in
  dirty s = false /\ rpos s = wpos s /\ snd (prepare_write ideal 1024 s 996) = Some 36.
Proof. vm_compute. repeat split; discriminate. Qed.

(* ---------------- wrap-around: the concrete model computes what the ideal one does *)
Section SeqWrap.
Variables wb k batch : N.
Variable pr : pub_rule.
Hypothesis Hk : k < wb.

Definition wr (s : bq) : bq :=
  {| wpos := wpos s mod 2 ^ wb; rcache := rcache s mod 2 ^ wb; rpos := rpos s mod 2 ^ wb;
     wcache := wcache s mod 2 ^ wb; aw := aw s mod 2 ^ wb; ar := ar s mod 2 ^ wb;
     recs := recs s; dirty := dirty s |}.

Lemma add_mod_wrap a b : (a mod 2 ^ wb + b) mod 2 ^ wb = (a + b) mod 2 ^ wb.
Proof. pose proof (pow2_pos wb). rewrite N.add_mod_idemp_l by lia. reflexivity. Qed.

Lemma pw_wrap s n : SInv (2 ^ k) s ->
  prepare_write (conc wb) (2 ^ k) (wr s) n =
  (wr (fst (prepare_write ideal (2 ^ k) s n)), snd (prepare_write ideal (2 ^ k) s n)).
Proof.
  intros [h1 h2 h3 h4 h5 h6 h7 h8 h9]. unfold prepare_write. cbn [wr wpos rcache ar].
  rewrite (nofit_wrap_exact wb k Hk) by lia.
  destruct (nofit ideal (2 ^ k) (wpos s) (rcache s) n).
  - cbn [wpos rcache]. rewrite (nofit_wrap_exact wb k Hk) by lia.
    destruct (nofit ideal (2 ^ k) (wpos s) (ar s) n); cbn [fst snd wpos].
    + reflexivity.
    + rewrite (off_wrap_exact wb k Hk). reflexivity.
  - cbn [fst snd]. rewrite (off_wrap_exact wb k Hk). reflexivity.
Qed.

Lemma fw_wrap s n : finish_write (conc wb) (wr s) n = wr (finish_write ideal s n).
Proof. unfold finish_write, wr; cbn [wpos rcache rpos wcache aw ar recs dirty a_add conc ideal]. now rewrite add_mod_wrap. Qed.

Lemma cw_wrap s : commit_write (wr s) = wr (commit_write s).
Proof. reflexivity. Qed.

Lemma empty_wrap s : SInv (2 ^ k) s -> empty (wr s) = (wr (fst (empty s)), snd (empty s)).
Proof.
  intros [h1 h2 h3 h4 h5 h6 h7 h8 h9]. unfold empty. cbn [wr wcache rpos aw].
  rewrite (eq_wrap_exact wb k Hk) by lia.
  destruct (wcache s =? rpos s); cbn [fst snd wcache rpos]; [|reflexivity].
  rewrite (eq_wrap_exact wb k Hk) by lia. reflexivity.
Qed.

Lemma fr_wrap s n : finish_read (conc wb) (wr s) n = wr (finish_read ideal s n).
Proof. unfold finish_read, wr; cbn [wpos rcache rpos wcache aw ar recs dirty a_add conc ideal]. now rewrite add_mod_wrap. Qed.

Lemma pr_wrap s : SInv (2 ^ k) s ->
  prepare_read (conc wb) (2 ^ k) (wr s) = (wr (fst (prepare_read ideal (2 ^ k) s)), snd (prepare_read ideal (2 ^ k) s)).
Proof.
  intros I. unfold prepare_read. rewrite (empty_wrap s I).
  destruct (empty s) as [s1 e]. cbn [fst snd]. destruct e; cbn [fst snd]; [reflexivity|].
  cbn [wr rpos]. rewrite (off_wrap_exact wb k Hk). reflexivity.
Qed.

Lemma cr_wrap s : SInv (2 ^ k) s ->
  commit_read (conc wb) batch pr (wr s) = wr (commit_read ideal batch pr s).
Proof.
  intros [h1 h2 h3 h4 h5 h6 h7 h8 h9]. unfold commit_read, should_publish. cbn [wr rpos ar wcache].
  rewrite (batch_wrap_exact wb k Hk) by lia.
  rewrite (N.eqb_sym (rpos s mod 2 ^ wb)). rewrite (eq_wrap_exact wb k Hk) by lia.
  rewrite (N.eqb_sym (wcache s)).
  destruct ((on_batch pr && (batch <=? a_sub ideal (rpos s) (ar s))) || (on_drain pr && (rpos s =? wcache s)));
    reflexivity.
Qed.

Lemma step_wrap s o : SInv (2 ^ k) s ->
  sstep (conc wb) (2 ^ k) batch pr (wr s) o =
  (wr (fst (sstep ideal (2 ^ k) batch pr s o)), snd (sstep ideal (2 ^ k) batch pr s o)).
Proof.
  intros I. destruct o as [n c| | | |]; cbn [sstep].
  - rewrite (pw_wrap s n I). destruct (prepare_write ideal (2 ^ k) s n) as [s1 [off|]]; cbn [fst snd]; [|reflexivity].
    rewrite fw_wrap. destruct c; reflexivity.
  - reflexivity.
  - rewrite (pr_wrap s I).
    pose proof (empty_inv (2 ^ k) s I) as (I1 & _).
    unfold prepare_read in *. destruct (empty s) as [s1 e]. cbn [fst snd] in *.
    destruct e; cbn [fst snd]; [reflexivity|].
    cbn [wr recs]. destruct (recs s1); [reflexivity|]. rewrite fr_wrap. reflexivity.
  - rewrite (cr_wrap s I). reflexivity.
  - rewrite (empty_wrap s I). destruct (empty s). reflexivity.
Qed.

(* every history: same observations, and the concrete state is the ideal state mod 2^wb *)
Theorem seq_wrap_exact ops : forall s, SInv (2 ^ k) s ->
  srun (conc wb) (2 ^ k) batch pr (wr s) ops =
  (wr (fst (srun ideal (2 ^ k) batch pr s ops)), snd (srun ideal (2 ^ k) batch pr s ops)).
Proof.
  induction ops as [|o ops IH]; intros s I; cbn [srun]; [reflexivity|].
  rewrite (step_wrap s o I).
  pose proof (step_inv (2 ^ k) batch pr s o I) as I1.
  destruct (sstep ideal (2 ^ k) batch pr s o) as [s1 out]. cbn [fst snd] in *.
  rewrite (IH s1 I1). destruct (srun ideal (2 ^ k) batch pr s1 ops). reflexivity.
Qed.
End SeqWrap.
