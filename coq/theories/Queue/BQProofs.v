(* Proofs about M-BQ:
   - RA safety invariant for every op list (= every interleaving and every legal load result);
   - wrap-around exactness of every guard the code evaluates, in every reachable state;
   - grants fit, records are contiguous and physically disjoint from unreleased records;
   - sensitivity: each of the four orders weakened gives a racy trace. *)
From Coq Require Import List NArith ZArith Arith Bool Lia.
From Quill Require Import Queue.BQDefs.
Import ListNotations.
Local Open Scope N_scope.

(* ------------------------------------------------------------------ modular arithmetic *)
Lemma sub_mod_exact_Z (m a b : Z) : (0 < m)%Z -> (0 <= a - b < m)%Z ->
  ((a mod m + m - b mod m) mod m = a - b)%Z.
Proof.
  intros. rewrite Zminus_mod_idemp_r.
  replace (a mod m + m - b)%Z with (a mod m + (m - b))%Z by lia.
  rewrite Zplus_mod_idemp_l.
  replace (a + (m - b))%Z with ((a - b) + 1 * m)%Z by lia.
  rewrite Z_mod_plus_full. apply Z.mod_small. lia.
Qed.

Lemma sub_mod_exact (M w r : N) : 0 < M -> r <= w -> w - r < M ->
  (w mod M + M - r mod M) mod M = w - r.
Proof.
  intros HM Hrw Hd.
  assert (Hr : r mod M < M) by (apply N.mod_lt; lia).
  assert (Hle : r mod M <= w mod M + M).
  { remember (r mod M) as x. remember (w mod M) as y. lia. }
  apply N2Z.inj.
  rewrite N2Z.inj_mod. rewrite (N2Z.inj_sub _ _ Hle).
  rewrite N2Z.inj_add, !N2Z.inj_mod. rewrite (N2Z.inj_sub _ _ Hrw).
  apply sub_mod_exact_Z; lia.
Qed.

Lemma pow2_pos k : 0 < 2 ^ k.
Proof. apply N.neq_0_lt_0. apply N.pow_nonzero. lia. Qed.

Lemma land_mask_mod x k : N.land x (2 ^ k - 1) = x mod 2 ^ k.
Proof. rewrite <- N.land_ones. f_equal. rewrite N.ones_equiv. symmetry. apply N.pred_sub. Qed.

Lemma mod_mod_pow x k wb : k <= wb -> (x mod 2 ^ wb) mod 2 ^ k = x mod 2 ^ k.
Proof.
  intros H. apply N2Z.inj. rewrite !N2Z.inj_mod, !N2Z.inj_pow. cbn [Z.of_N].
  symmetry. apply Znumtheory.Zmod_div_mod; try (apply Z.pow_pos_nonneg; lia).
  exists (2 ^ (Z.of_N wb - Z.of_N k))%Z. rewrite <- Z.pow_add_r by lia. f_equal. lia.
Qed.

Section Wrap.
Variables wb k : N.
Hypothesis Hk : k < wb.
Let M := 2 ^ wb.
Let C := 2 ^ k.

Lemma C_lt_M : C < M.
Proof. unfold C, M. apply N.pow_lt_mono_r; lia. Qed.

(* the producer's space test: exact when rcache <= wpos <= rcache + C *)
Lemma nofit_wrap_exact w r n : r <= w -> w <= r + C ->
  nofit (conc wb) C (w mod M) (r mod M) n = nofit ideal C w r n.
Proof.
  intros H1 H2. pose proof C_lt_M. pose proof (pow2_pos wb).
  unfold nofit, conc, ideal; cbn [a_sub]. fold M.
  rewrite (sub_mod_exact M w r) by lia.
  assert (E : (C + M - (w - r)) mod M = C - (w - r)).
  { replace (C + M - (w - r)) with ((C - (w - r)) + 1 * M) by lia.
    rewrite N.mod_add by lia. apply N.mod_small. lia. }
  rewrite E. reflexivity.
Qed.

(* the consumer's emptiness test *)
Lemma eq_wrap_exact a b : b <= a -> a <= b + C -> (a mod M =? b mod M) = (a =? b).
Proof.
  intros H1 H2. pose proof C_lt_M. pose proof (pow2_pos wb).
  destruct (N.eqb_spec a b) as [->|Hne]; [apply N.eqb_refl|].
  apply N.eqb_neq. intro E.
  pose proof (sub_mod_exact M a b ltac:(lia) H1 ltac:(lia)) as S.
  rewrite E in S. remember (b mod M) as bm.
  replace (bm + M - bm) with (1 * M) in S by lia.
  rewrite N.mod_mul in S by lia. lia.
Qed.

(* pos & mask *)
Lemma off_wrap_exact p : a_off (conc wb) (p mod M) C = a_off ideal p C.
Proof. cbn [a_off conc ideal]. unfold C, M. rewrite land_mask_mod. apply mod_mod_pow. lia. Qed.

(* commit_read's batch test *)
Lemma batch_wrap_exact rp arv b : arv <= rp -> rp <= arv + C ->
  (b <=? a_sub (conc wb) (rp mod M) (arv mod M)) = (b <=? a_sub ideal rp arv).
Proof.
  intros H1 H2. pose proof C_lt_M. pose proof (pow2_pos wb).
  cbn [a_sub conc ideal]. fold M. rewrite sub_mod_exact by lia. reflexivity.
Qed.
End Wrap.

(* ------------------------------------------------------------------ physical layout *)
(* two records inside one window of C logical bytes never share a cell of the 2C storage *)
Lemma phys_disjoint (C p1 n1 p2 n2 : N) : 0 < C -> 0 < n2 ->
  p1 + n1 <= p2 -> p2 + n2 <= p1 + C ->
  let a1 := p1 mod C in let a2 := p2 mod C in
  a1 + n1 <= 2 * C /\ a2 + n2 <= 2 * C /\ (a1 + n1 <= a2 \/ a2 + n2 <= a1).
Proof.
  intros HC Hn H1 H2. cbv zeta.
  assert (Ha1 : p1 mod C < C) by (apply N.mod_lt; lia).
  assert (Ha2 : p2 mod C < C) by (apply N.mod_lt; lia).
  set (d := p2 - p1). assert (Hd : p2 = p1 + d) by (unfold d; lia). clearbody d.
  assert (Hp1 : p1 = C * (p1 / C) + p1 mod C) by (apply N.div_mod; lia).
  remember (p1 mod C) as a1. remember (p1 / C) as q1.
  assert (Hcase : (a1 + d < C /\ p2 mod C = a1 + d) \/ (C <= a1 + d /\ p2 mod C = a1 + d - C)).
  { destruct (N.lt_ge_cases (a1 + d) C) as [Hlt|Hge]; [left|right]; (split; [assumption|]).
    - rewrite Hd, Hp1. replace (C * q1 + a1 + d) with ((a1 + d) + q1 * C) by lia.
      rewrite N.mod_add by lia. apply N.mod_small. lia.
    - rewrite Hd, Hp1. replace (C * q1 + a1 + d) with ((a1 + d - C) + (q1 + 1) * C) by lia.
      rewrite N.mod_add by lia. apply N.mod_small. lia. }
  remember (p2 mod C) as a2. clear Heqa2 Heqa1 Heqq1 Hp1.
  destruct Hcase as [[? ->]|[? ->]]; repeat split; lia.
Qed.

(* ------------------------------------------------------------------ RA safety *)
Section P.
Variable C : N.
Variable ord : orders.
Hypothesis Hsuf : sufficient ord = true.

Lemma suf4 : is_acq (o_pw_load ord) = true /\ is_rel (o_cw_store ord) = true /\
             is_acq (o_em_load ord) = true /\ is_rel (o_cr_store ord) = true.
Proof.
  unfold sufficient in Hsuf. apply andb_prop in Hsuf as [H3 H4].
  apply andb_prop in H3 as [H2 H3]. apply andb_prop in H2 as [H1 H2]. auto.
Qed.

(* end position after the records of l, when contiguous from acc *)
Fixpoint contig (acc : N) (l : list (N * N)) : option N :=
  match l with
  | [] => Some acc
  | (s0, len) :: t => if s0 =? acc then contig (acc + len) t else None
  end.

Definition boundary (wl : list (N * N)) (v : N) := exists j, contig 0 (firstn j wl) = Some v.

Definition mono (h : list (N * N)) :=
  forall i j a b, (i <= j)%nat -> nth_error h i = Some a -> nth_error h j = Some b -> fst a <= fst b.

Record Inv (s : st) : Prop := {
  i_race : race s = false;
  i_contig : contig 0 (wlog s) = Some (r_wpos s);
  i_nread : (nread s <= length (wlog s))%nat;
  i_rpos : contig 0 (firstn (nread s) (wlog s)) = Some (r_rpos s);
  i_hw : forall v k, In (v, k) (histW s) -> k = v /\ boundary (wlog s) v /\ v <= r_wpos s;
  i_hr : forall v k, In (v, k) (histR s) -> k = v /\ v <= r_rpos s;
  i_mw : mono (histW s); i_mr : mono (histR s);
  i_ps : exists k, nth_error (histR s) (p_seen s) = Some (r_rcache s, k);
  i_cs : exists k, nth_error (histW s) (c_seen s) = Some (r_wcache s, k);
  i_pk : r_rcache s = p_know s /\ p_know s <= r_rpos s;
  i_ck : r_wcache s <= c_know s /\ c_know s <= r_wpos s;
  i_rw : r_rpos s <= r_wcache s /\ r_rpos s <= r_wpos s;
  i_cap : r_wpos s <= p_know s + C;
  i_gr : forall n, granted s = Some n -> r_wpos s + n <= p_know s + C;
  i_lastW : exists k, last (histW s) (0, 0) = (r_wpos s, k);
  i_lastR : exists v k, last (histR s) (0, 0) = (v, k) /\ p_know s <= v;
  i_wcb : boundary (wlog s) (r_wcache s)
}.

Lemma contig_app a l1 l2 m : contig a l1 = Some m -> contig a (l1 ++ l2) = contig m l2.
Proof.
  revert a; induction l1 as [|[s0 len] t IH]; cbn; intros a H; [now inversion H|].
  destruct (s0 =? a); [eauto|discriminate].
Qed.

Lemma contig_firstn_mono a l j m : contig a l = Some m ->
  exists v, contig a (firstn j l) = Some v /\ a <= v /\ v <= m.
Proof.
  revert a j; induction l as [|[s0 len] t IH]; intros a j H; cbn in *.
  - inversion H; subst. rewrite firstn_nil. cbn. exists m. repeat split; lia.
  - destruct j; cbn.
    { exists a. split; auto. destruct (s0 =? a); try discriminate.
      destruct (IH _ 0%nat H) as (v & _ & ? & ?). lia. }
    destruct (s0 =? a); try discriminate.
    destruct (IH _ j H) as (v & ? & ? & ?). exists v. repeat split; auto; lia.
Qed.

Lemma boundary_app wl x v : boundary wl v -> boundary (wl ++ [x]) v.
Proof.
  intros [j Hj]. destruct (Nat.le_gt_cases j (length wl)).
  - exists j. rewrite firstn_app. replace (j - length wl)%nat with 0%nat by lia.
    cbn. now rewrite app_nil_r.
  - exists (length wl). rewrite firstn_all2 in Hj by lia.
    rewrite firstn_app, Nat.sub_diag, firstn_all. cbn. now rewrite app_nil_r.
Qed.

Lemma mono_app h x : mono h -> (forall a, In a h -> fst a <= fst x) -> mono (h ++ [x]).
Proof.
  intros Hm Hx i j a b Hij Hi Hj.
  destruct (Nat.lt_ge_cases j (length h)).
  - rewrite nth_error_app1 in Hi, Hj by lia. eauto.
  - rewrite nth_error_app2 in Hj by lia.
    destruct (j - length h)%nat eqn:E; cbn in Hj; [|destruct n; discriminate].
    inversion Hj; subst b. destruct (Nat.lt_ge_cases i (length h)).
    + rewrite nth_error_app1 in Hi by lia. apply Hx. eapply nth_error_In; eauto.
    + rewrite nth_error_app2 in Hi by lia.
      destruct (i - length h)%nat; cbn in Hi; [inversion Hi; lia|destruct n; discriminate].
Qed.

Lemma nth_app_keep {A} (h : list A) x i v : nth_error h i = Some v -> nth_error (h ++ [x]) i = Some v.
Proof. intro H. rewrite nth_error_app1; auto. apply nth_error_Some. congruence. Qed.

Lemma mono_le_last h i a : mono h -> nth_error h i = Some a -> fst a <= fst (last h (0, 0)).
Proof.
  intros Hm Hi. assert (Hl : (i < length h)%nat) by (apply nth_error_Some; congruence).
  destruct h as [|h0 h'] using rev_ind; [cbn in Hl; lia|].
  rewrite last_last. eapply (Hm i (length h')); eauto.
  - rewrite app_length in Hl; cbn in Hl; lia.
  - rewrite nth_error_app2, Nat.sub_diag by lia. reflexivity.
Qed.

Lemma fits_spec w r n : fits C w r n = true -> n <= C - (w - r).
Proof.
  unfold fits, nofit; cbn [a_sub ideal]. intro H. apply negb_true_iff in H.
  apply N.ltb_ge in H. exact H.
Qed.

Lemma step_write s : Inv s -> Inv (step C ord s PWriteFinishCommit).
Proof.
  intros I. destruct suf4 as (A1 & A2 & A3 & A4). cbn.
  destruct (granted s) as [n|] eqn:G; [|exact I].
  destruct I. pose proof (i_gr0 _ G) as Hg. rewrite A2.
  assert (Hb : (r_wpos s + n <=? p_know s + C) = true) by (apply N.leb_le; lia).
  constructor; cbn; rewrite ?Hb, ?i_race0; cbn.
  - reflexivity.
  - erewrite contig_app by eauto. cbn. now rewrite N.eqb_refl.
  - rewrite app_length; cbn; lia.
  - rewrite firstn_app. replace (nread s - length (wlog s))%nat with 0%nat by lia.
    cbn. now rewrite app_nil_r.
  - intros v k Hin. apply in_app_or in Hin as [Hin|[Hin|[]]].
    + destruct (i_hw0 _ _ Hin) as (? & ? & ?). repeat split; auto. now apply boundary_app. lia.
    + inversion Hin; subst. repeat split; try lia. exists (S (length (wlog s))).
      rewrite firstn_all2 by (rewrite app_length; cbn; lia).
      erewrite contig_app by eauto. cbn. now rewrite N.eqb_refl.
  - exact i_hr0.
  - apply mono_app; auto. intros [v k] Hin. cbn. destruct (i_hw0 _ _ Hin) as (? & ? & ?). lia.
  - exact i_mr0.
  - exact i_ps0.
  - destruct i_cs0 as [k Hk]. exists k. now apply nth_app_keep.
  - exact i_pk0.
  - lia.
  - lia.
  - lia.
  - intros ? H; discriminate.
  - rewrite last_last. eauto.
  - exact i_lastR0.
  - now apply boundary_app.
Qed.

Lemma contig_step a l m : contig a l = Some m -> forall nr r j v,
  contig a (firstn nr l) = Some r -> contig a (firstn j l) = Some v -> r < v ->
  exists len, nth_error l nr = Some (r, len) /\ r + len <= v.
Proof.
  revert a m. induction l as [|[s0 len] t IH]; intros a m H nr r j v Hr Hv Hlt.
  - rewrite firstn_nil in *. cbn in *. inversion Hr; inversion Hv; lia.
  - cbn in H. destruct (N.eqb_spec s0 a); try discriminate. subst s0.
    destruct nr; cbn in Hr.
    + inversion Hr; subst r. destruct j; cbn in Hv. inversion Hv; lia.
      rewrite N.eqb_refl in Hv. exists len. split; auto.
      destruct (contig_firstn_mono _ _ j _ H) as (v' & E & ? & ?). rewrite E in Hv. inversion Hv; subst. lia.
    + rewrite N.eqb_refl in Hr. destruct j; cbn in Hv.
      * inversion Hv; subst v. destruct (contig_firstn_mono _ _ nr _ H) as (v' & E & ? & ?).
        rewrite E in Hr. inversion Hr; subst. lia.
      * rewrite N.eqb_refl in Hv. cbn. eapply IH; eauto.
Qed.

Lemma firstn_S_nth (n : nat) (l : list (N * N)) x :
  nth_error l n = Some x -> firstn (S n) l = firstn n l ++ [x].
Proof.
  revert l; induction n as [|n IHn]; destruct l as [|p l]; cbn; intros Hx; try discriminate.
  - now inversion Hx.
  - f_equal. now apply IHn.
Qed.

Lemma step_cread s : Inv s -> Inv (step C ord s CRead).
Proof.
  intros I. cbn. destruct (N.eqb_spec (r_wcache s) (r_rpos s)) as [|Hne]; [exact I|].
  destruct I. destruct i_wcb0 as [j Hj].
  assert (Hlt : r_rpos s < r_wcache s) by lia.
  destruct (contig_step _ _ _ i_contig0 _ _ _ _ i_rpos0 Hj Hlt) as (len & Hn & Hle).
  rewrite Hn. rewrite N.eqb_refl. cbn.
  assert (Hb : (r_rpos s + len <=? c_know s) = true) by (apply N.leb_le; lia). rewrite Hb, i_race0.
  assert (Hnr : (nread s < length (wlog s))%nat) by (apply nth_error_Some; congruence).
  constructor; cbn [race wlog r_wpos nread r_rpos histW histR p_seen r_rcache c_seen r_wcache p_know c_know granted upd_c]; auto; try lia.
  - rewrite (firstn_S_nth _ _ _ Hn). erewrite contig_app by eauto. cbn. now rewrite N.eqb_refl.
  - intros v k Hin. destruct (i_hr0 _ _ Hin). split; auto. lia.
  - exists j; auto.
Qed.

Lemma step_cload s i : Inv s -> Inv (step C ord s (CLoad i)).
Proof.
  intros I. destruct suf4 as (A1 & A2 & A3 & A4). cbn.
  destruct (N.eqb_spec (r_wcache s) (r_rpos s)) as [He|]; [|exact I].
  destruct (Nat.leb_spec (c_seen s) i) as [Hle|]; [|exact I].
  destruct (nth_error (histW s) i) as [[v k]|] eqn:Hi; [|exact I]. rewrite A3.
  destruct I. destruct i_cs0 as [k0 Hk0].
  pose proof (i_mw0 _ _ _ _ Hle Hk0 Hi) as Hm. cbn in Hm.
  destruct (i_hw0 _ _ (nth_error_In _ _ Hi)) as (? & Hb & ?). subst k.
  constructor; cbn; auto; try lia; eauto.
Qed.

Lemma step_pload s n i : Inv s -> Inv (step C ord s (PAskLoad n i)).
Proof.
  intros I. destruct suf4 as (A1 & A2 & A3 & A4). cbn. destruct (granted s) eqn:G; [exact I|].
  destruct (fits C (r_wpos s) (r_rcache s) n) eqn:F0; [exact I|].
  destruct (Nat.leb_spec (p_seen s) i) as [Hle|]; [|exact I].
  destruct (nth_error (histR s) i) as [[v k]|] eqn:Hi; [|exact I]. rewrite A1.
  destruct I. destruct i_ps0 as [k0 Hk0].
  pose proof (i_mr0 _ _ _ _ Hle Hk0 Hi) as Hm. cbn in Hm.
  destruct (i_hr0 _ _ (nth_error_In _ _ Hi)) as (? & ?). subst k.
  pose proof (mono_le_last _ _ _ i_mr0 Hi) as Hlast. cbn in Hlast.
  destruct i_lastR0 as (lv & lk & Hl & Hlv). rewrite Hl in Hlast. cbn in Hlast.
  constructor; cbn; auto; try lia; eauto.
  - intros n0 Hn0. destruct (fits C (r_wpos s) v n) eqn:F; inversion Hn0; subst n0.
    apply fits_spec in F. lia.
  - exists lv, lk. split; auto. lia.
Qed.

Lemma step_pcached s n : Inv s -> Inv (step C ord s (PAskCached n)).
Proof.
  intros I. cbn. destruct (granted s) eqn:G; [exact I|].
  destruct (fits C (r_wpos s) (r_rcache s) n) eqn:F; [|exact I].
  destruct I. constructor; cbn; auto.
  intros n0 Hn0; inversion Hn0; subst n0. apply fits_spec in F. lia.
Qed.

Lemma step_ccommit s b : Inv s -> Inv (step C ord s (CCommit b)).
Proof.
  intros I. destruct suf4 as (A1 & A2 & A3 & A4). cbn. destruct b; [|exact I]. rewrite A4.
  destruct I. constructor; cbn; auto.
  - intros v k Hin. apply in_app_or in Hin as [Hin|[Hin|[]]]; [eauto|]. inversion Hin; subst. split; auto; lia.
  - apply mono_app; auto. intros [v k] Hin. cbn. destruct (i_hr0 _ _ Hin). lia.
  - destruct i_ps0 as [k Hk]. exists k. now apply nth_app_keep.
  - rewrite last_last. exists (r_rpos s), (r_rpos s). split; auto. lia.
Qed.

Lemma step_inv s o : Inv s -> Inv (step C ord s o).
Proof.
  destruct o; auto using step_pcached, step_pload, step_write, step_cload, step_cread, step_ccommit.
Qed.

Lemma init_inv : Inv ra_init.
Proof.
  constructor; cbn; auto; try lia.
  - intros v k [H|[]]; inversion H; subst. repeat split; try lia. exists 0%nat. reflexivity.
  - intros v k [H|[]]; inversion H; subst. split; lia.
  - intros [|[|?]] [|[|?]] a b; cbn; intros; try discriminate; try lia.
    inversion H0; inversion H1; subst; cbn; lia.
  - intros [|[|?]] [|[|?]] a b; cbn; intros; try discriminate; try lia.
    inversion H0; inversion H1; subst; cbn; lia.
  - eauto.
  - eauto.
  - intros; discriminate.
  - eauto.
  - exists 0, 0. split; auto; lia.
  - exists 0%nat; reflexivity.
Qed.

Theorem safety ops : Inv (run C ord ops).
Proof.
  unfold run. generalize init_inv. generalize ra_init.
  induction ops as [|o ops IH]; cbn; intros s I; auto. apply IH, step_inv, I.
Qed.

Corollary no_race ops : race (run C ord ops) = false.
Proof. apply safety. Qed.

(* the consumed stream is a prefix of the written stream: none lost, duplicated, reordered;
   the consumer's position is always a record boundary no later than a commit it synchronised with *)
Corollary consumed_prefix ops : let s := run C ord ops in
  (nread s <= length (wlog s))%nat /\
  contig 0 (firstn (nread s) (wlog s)) = Some (r_rpos s) /\
  r_rpos s <= r_wcache s /\ r_wcache s <= c_know s /\ c_know s <= r_wpos s.
Proof. intro s. destruct (safety ops). fold s in i_ck0, i_rw0. repeat split; auto; lia. Qed.

(* a grant never exceeds the space the consumer really released, hence never the capacity *)
Corollary grant_fits ops n : let s := run C ord ops in
  granted s = Some n -> r_wpos s + n <= r_rpos s + C /\ exists v k, In (v, k) (histR s) /\ r_wpos s + n <= v + C.
Proof.
  intros s G. destruct (safety ops). fold s in i_gr0, i_pk0, i_ps0.
  pose proof (i_gr0 _ G). split; [lia|].
  destruct i_ps0 as [k Hk]. exists (r_rcache s), k. split; [eapply nth_error_In; eauto|lia].
Qed.

(* positions stay within one window: what makes the wrapped arithmetic exact *)
Corollary window ops : let s := run C ord ops in
  r_rcache s <= r_wpos s /\ r_wpos s <= r_rcache s + C /\
  r_rpos s <= r_wcache s /\ r_wcache s <= r_rpos s + C /\
  (forall v k, last (histR s) (0, 0) = (v, k) -> v <= r_rpos s /\ r_rpos s <= v + C).
Proof.
  intro s. destruct (safety ops). fold s in i_pk0, i_rw0, i_cap0, i_ck0, i_lastR0, i_hr0.
  repeat split; try lia.
  - intros. destruct i_lastR0 as (lv & lk & Hl & Hlv). rewrite H in Hl. inversion Hl; subst.
    assert (Hin : In (lv, lk) (histR s)).
    { rewrite <- H. destruct (histR s) eqn:E; [|apply exists_last in E as (l' & a & ->) || idtac].
      - cbn in H. destruct i_ps0 as [? Hn]. fold s in Hn. rewrite E in Hn. destruct (p_seen s); discriminate.
      - rewrite <- E. clear - E. assert (histR s <> []) by congruence.
        destruct (exists_last H) as (l' & a & ->). rewrite last_last. apply in_or_app; right; now left. }
    destruct (i_hr0 _ _ Hin). lia.
  - intros. destruct i_lastR0 as (lv & lk & Hl & Hlv). rewrite H in Hl. inversion Hl; subst. lia.
Qed.
End P.

(* ------------------------------------------------------------------ sensitivity: each order matters *)
Definition ord_ok := {| o_pw_load := Acq; o_cw_store := Rel; o_em_load := Acq; o_cr_store := Rel |}.
Definition weak_cw := {| o_pw_load := Acq; o_cw_store := Rlx; o_em_load := Acq; o_cr_store := Rel |}.
Definition weak_em := {| o_pw_load := Acq; o_cw_store := Rel; o_em_load := Rlx; o_cr_store := Rel |}.
Definition weak_cr := {| o_pw_load := Acq; o_cw_store := Rel; o_em_load := Acq; o_cr_store := Rlx |}.
Definition weak_pw := {| o_pw_load := Rlx; o_cw_store := Rel; o_em_load := Acq; o_cr_store := Rel |}.

Definition tr_consumer := [PAskCached 4; PWriteFinishCommit; CLoad 1; CRead].
Definition tr_producer := [PAskCached 8; PWriteFinishCommit; CLoad 1; CRead; CCommit true;
                           PAskLoad 4 1; PWriteFinishCommit].

Example weak_cw_races : race (run 8 weak_cw tr_consumer) = true.
Proof. vm_compute. reflexivity. Qed.
Example weak_em_races : race (run 8 weak_em tr_consumer) = true.
Proof. vm_compute. reflexivity. Qed.
Example weak_cr_races : race (run 8 weak_cr tr_producer) = true.
Proof. vm_compute. reflexivity. Qed.
Example weak_pw_races : race (run 8 weak_pw tr_producer) = true.
Proof. vm_compute. reflexivity. Qed.
(* and the same traces are race free, and make progress, under the orders of the source *)
Example ok_traces : race (run 8 ord_ok tr_consumer) = false /\ nread (run 8 ord_ok tr_consumer) = 1%nat /\
                    race (run 8 ord_ok tr_producer) = false /\ length (wlog (run 8 ord_ok tr_producer)) = 2%nat.
Proof. vm_compute. auto. Qed.
