(* Proofs about M-UQ, release/acquire layer: for every list of micro-steps (= every interleaving of
   producer and consumer steps and every value each atomic load may legally return), with the
   memory orders, the re-check and the commit-before-delete order of the source:
   - every node satisfies the safety invariant of the bounded queue (no data race, node-wise);
   - the consumer leaves a node only when every record written to it has been read
     (this is where the re-check after the acquiring load of `next` is needed; refuted without it
     and with a relaxed `next` store);
   - the global consumed stream is a prefix of the global written stream; no record twice;
   - no step touches a deleted node; allocations are powers of two within the maximum. *)
From Coq Require Import List NArith ZArith Arith Bool Lia.
From Quill Require Import Queue.BQDefs Queue.BQProofs Queue.UQDefs Queue.UQProofs.
Import ListNotations.
Local Open Scope N_scope.

(* ------------------------------------------------------------------ per-node facts *)
Section Node.
Variable C : N.
Variable ord : orders.
Hypothesis Hsuf : sufficient ord = true.

(* frames of the bounded-queue steps *)
Lemma frame_cons x o : match o with CLoad _ | CRead | CCommit _ => True | _ => False end ->
  let x1 := step C ord x o in
  wlog x1 = wlog x /\ histW x1 = histW x /\ r_wpos x1 = r_wpos x /\ granted x1 = granted x.
Proof.
  destruct o as [n|n i| |i| |b]; intros []; cbn.
  - destruct (r_wcache x =? r_rpos x); auto. destruct (Nat.leb (c_seen x) i); auto.
    destruct (nth_error (histW x) i) as [[v k]|]; cbn; auto.
  - destruct (r_wcache x =? r_rpos x); auto. destruct (nth_error (wlog x) (nread x)) as [[s0 len]|]; cbn; auto.
  - destruct b; cbn; auto.
Qed.

Lemma frame_cons_nread x o : match o with CLoad _ | CCommit _ => True | _ => False end ->
  nread (step C ord x o) = nread x /\ r_rpos (step C ord x o) = r_rpos x.
Proof.
  destruct o as [n|n i| |i| |b]; intros []; cbn.
  - destruct (r_wcache x =? r_rpos x); auto. destruct (Nat.leb (c_seen x) i); auto.
    destruct (nth_error (histW x) i) as [[v k]|]; cbn; auto.
  - destruct b; cbn; auto.
Qed.

Lemma frame_ask x o : match o with PAskCached _ | PAskLoad _ _ => True | _ => False end ->
  let x1 := step C ord x o in
  wlog x1 = wlog x /\ histW x1 = histW x /\ r_wpos x1 = r_wpos x /\ nread x1 = nread x /\
  (forall m, granted x1 = Some m -> granted x = Some m \/ m = match o with PAskCached n | PAskLoad n _ => n | _ => 0 end).
Proof.
  assert (T : forall y : st, wlog y = wlog x -> histW y = histW x -> r_wpos y = r_wpos x -> nread y = nread x ->
              forall n, (forall m, granted y = Some m -> granted x = Some m \/ m = n) ->
              wlog y = wlog x /\ histW y = histW x /\ r_wpos y = r_wpos x /\ nread y = nread x /\
              (forall m, granted y = Some m -> granted x = Some m \/ m = n)) by (intros; auto 6).
  Ltac fin_ask := intros m E; first [left; congruence | right; congruence | congruence | (inversion E; auto)].
  destruct o as [n|n i| |i| |b]; intros []; cbn.
  - destruct (granted x) eqn:G; [apply T; auto; fin_ask|].
    destruct (fits C (r_wpos x) (r_rcache x) n); apply T; cbn; auto; fin_ask.
  - destruct (granted x) eqn:G; [apply T; auto; fin_ask|].
    destruct (fits C (r_wpos x) (r_rcache x) n); [apply T; auto; fin_ask|].
    destruct (Nat.leb (p_seen x) i); [|apply T; auto; fin_ask].
    destruct (nth_error (histR x) i) as [[v k]|]; [|apply T; auto; fin_ask].
    apply T; cbn; auto. intros m E. destruct (fits C (r_wpos x) v n); inversion E; auto.
Qed.

Lemma frame_write x n : granted x = Some n ->
  let x1 := step C ord x PWriteFinishCommit in
  wlog x1 = wlog x ++ [(r_wpos x, n)] /\ nread x1 = nread x /\ granted x1 = None.
Proof. intro G. cbn. rewrite G. cbn. auto. Qed.

(* the CRead step either does nothing to the read count or consumes exactly the next record of the log *)
Lemma cread_cases x : let x1 := step C ord x CRead in
  nread x1 = nread x \/ (nread x1 = S (nread x) /\ exists r, nth_error (wlog x) (nread x) = Some r).
Proof.
  cbn. destruct (r_wcache x =? r_rpos x); auto.
  destruct (nth_error (wlog x) (nread x)) as [[s0 len]|] eqn:E; cbn; auto. right. eauto.
Qed.

(* the effect of a valid load by the consumer whose cache says empty *)
Lemma cload_effect x i v k : r_wcache x = r_rpos x -> Nat.leb (c_seen x) i = true -> nth_error (histW x) i = Some (v, k) ->
  r_wcache (step C ord x (CLoad i)) = v /\ r_rpos (step C ord x (CLoad i)) = r_rpos x.
Proof. intros E L H. cbn. rewrite E, N.eqb_refl, L, H. cbn. auto. Qed.

(* commit_write once more: storing the writer position again *)
Lemma inv_recommit x : Inv C x ->
  Inv C (upd_p x (r_wpos x) (r_rcache x) (p_seen x) (p_know x) (granted x)
               (histW x ++ [(r_wpos x, if is_rel (o_cw_store ord) then r_wpos x else 0)]) (wlog x) (race x)).
Proof.
  intros I. destruct (suf4 ord Hsuf) as (A1 & A2 & A3 & A4). rewrite A2. destruct I as [ir ico inr irp ihw ihr imw imr ips ics ipk ick irw icap igr ilw ilr iwcb].
  constructor; cbn [upd_p race wlog r_wpos nread r_rpos histW histR p_seen r_rcache c_seen r_wcache p_know c_know granted]; auto.
  - intros v k Hin. apply in_app_or in Hin as [Hin|[Hin|[]]]; [auto|].
    inversion Hin; subst. split; [reflexivity|]. split; [|lia].
    exists (length (wlog x)). now rewrite firstn_all.
  - apply mono_app; auto. intros [v k] Hin. cbn. destruct (ihw v k Hin) as (_ & _ & ?). lia.
  - destruct ics as [k Hk]. exists k. now apply nth_app_keep.
  - rewrite last_last. eauto.
Qed.

(* a freshly constructed node, possibly with the reservation _handle_full_queue makes in it *)
Lemma inv_fresh g : (forall n, g = Some n -> n <= C) -> Inv C (upd_p ra_init 0 0 0%nat 0 g [(0, 0)] [] false).
Proof.
  intro Hg. constructor; cbn; auto; try lia.
  - intros v k [H|[]]; inversion H; subst. repeat split; try lia. exists 0%nat. reflexivity.
  - intros v k [H|[]]; inversion H; subst. split; lia.
  - intros [|[|?]] [|[|?]] a b; cbn; intros; try discriminate; try lia.
    inversion H0; inversion H1; subst; cbn; lia.
  - intros [|[|?]] [|[|?]] a b; cbn; intros; try discriminate; try lia.
    inversion H0; inversion H1; subst; cbn; lia.
  - eauto.
  - eauto.
  - eauto.
  - exists 0, 0. split; auto; lia.
  - exists 0%nat; reflexivity.
Qed.

(* the acquiring load of `next` raises the consumer's knowledge up to the final writer position *)
Lemma inv_raise_know x : Inv C x ->
  Inv C (upd_c x (r_rpos x) (r_wcache x) (c_seen x) (N.max (c_know x) (r_wpos x)) (histR x) (nread x) (race x)).
Proof.
  intros I. destruct I as [ir ico inr irp ihw ihr imw imr ips ics ipk ick irw icap igr ilw ilr iwcb].
  constructor; cbn [upd_c race wlog r_wpos nread r_rpos histW histR p_seen r_rcache c_seen r_wcache p_know c_know granted]; auto.
  lia.
Qed.

Lemma contig_ge a l m : contig a l = Some m -> a <= m.
Proof. intro H. destruct (contig_firstn_mono a l 0 m H) as (v & _ & ? & ?). lia. Qed.

(* when the reader position has reached the writer position, every record has been read *)
Lemma contig_full l : (forall r, In r l -> 0 < snd r) -> forall a k m, (k <= length l)%nat ->
  contig a l = Some m -> contig a (firstn k l) = Some m -> k = length l.
Proof.
  intros Hpos a k m Hk Hl Hf.
  rewrite <- (firstn_skipn k l) in Hl. rewrite (contig_app _ _ _ _ Hf) in Hl.
  destruct (skipn k l) as [|[s0 len] t] eqn:E.
  - pose proof (f_equal (@length _) E) as EL. rewrite skipn_length in EL. cbn in EL. lia.
  - exfalso. cbn in Hl. destruct (s0 =? m); [|discriminate]. apply contig_ge in Hl.
    assert (Hin : In (s0, len) l) by (rewrite <- (firstn_skipn k l), E; apply in_or_app; right; now left).
    specialize (Hpos _ Hin). cbn in Hpos. lia.
Qed.

Lemma read_all x : Inv C x -> (forall r, In r (wlog x) -> 0 < snd r) -> r_rpos x = r_wpos x -> nread x = length (wlog x).
Proof.
  intros I Hpos E. destruct I as [ir ico inr irp ihw ihr imw imr ips ics ipk ick irw icap igr ilw ilr iwcb]. apply (contig_full _ Hpos 0 _ (r_wpos x)); auto. now rewrite <- E.
Qed.

Lemma nth_error_last {A} (l : list A) d : l <> [] -> nth_error l (Nat.pred (length l)) = Some (last l d).
Proof.
  intro H. destruct (exists_last H) as (l' & a & ->). rewrite last_last, app_length. cbn.
  rewrite Nat.add_1_r. cbn. rewrite nth_error_app2, Nat.sub_diag by lia. reflexivity.
Qed.

(* a load that is not older than the newest message returns the writer position *)
Lemma load_newest x i v k : Inv C x -> (Nat.pred (length (histW x)) <= i)%nat -> nth_error (histW x) i = Some (v, k) -> v = r_wpos x.
Proof.
  intros I Hi Hn. assert (Hl : (i < length (histW x))%nat) by (apply nth_error_Some; congruence).
  assert (i = Nat.pred (length (histW x))) by lia. subst i.
  assert (Hne : histW x <> []) by (intro E; rewrite E in Hl; cbn in Hl; lia).
  rewrite (nth_error_last _ (0, 0) Hne) in Hn. destruct (i_lastW _ _ I) as [k' Hk']. rewrite Hk' in Hn. now inversion Hn.
Qed.
End Node.

(* ------------------------------------------------------------------ global streams as functions of the nodes *)
Definition tagged := (nat * (N * N))%type.
Fixpoint gl (j : nat) (l : list rnode) : list tagged :=
  match l with [] => [] | nd :: t => map (pair j) (wlog (rn_st nd)) ++ gl (S j) t end.
Fixpoint cl (j : nat) (l : list rnode) : list tagged :=
  match l with [] => [] | nd :: t => map (pair j) (firstn (nread (rn_st nd)) (wlog (rn_st nd))) ++ cl (S j) t end.

Lemma gl_app j a b : gl j (a ++ b) = gl j a ++ gl (j + length a) b.
Proof.
  revert j; induction a as [|h t IH]; intro j; cbn [gl app length]; [now rewrite Nat.add_0_r|].
  rewrite IH, <- app_assoc. replace (S j + length t)%nat with (j + S (length t))%nat by lia. reflexivity.
Qed.
Lemma cl_app j a b : cl j (a ++ b) = cl j a ++ cl (j + length a) b.
Proof.
  revert j; induction a as [|h t IH]; intro j; cbn [cl app length]; [now rewrite Nat.add_0_r|].
  rewrite IH, <- app_assoc. replace (S j + length t)%nat with (j + S (length t))%nat by lia. reflexivity.
Qed.

Lemma cl_nil j l : (forall k nd, nth_error l k = Some nd -> nread (rn_st nd) = 0%nat) -> cl j l = [].
Proof.
  revert j; induction l as [|h t IH]; intros j H; [reflexivity|]. cbn [cl].
  rewrite (H 0%nat h eq_refl). cbn. apply IH. intros k nd Hk. apply (H (S k)). exact Hk.
Qed.

Lemma gl_upd_same j l i y x : nth_error l i = Some y -> wlog (rn_st x) = wlog (rn_st y) -> gl j (upd l i x) = gl j l.
Proof.
  intros H E. destruct (upd_split l i y x H) as (l1 & l2 & -> & _ & ->). rewrite !gl_app. cbn [gl]. now rewrite E.
Qed.

Lemma cl_upd_same j l i y x : nth_error l i = Some y ->
  firstn (nread (rn_st x)) (wlog (rn_st x)) = firstn (nread (rn_st y)) (wlog (rn_st y)) -> cl j (upd l i x) = cl j l.
Proof.
  intros H E. destruct (upd_split l i y x H) as (l1 & l2 & -> & _ & ->). rewrite !cl_app. cbn [cl]. now rewrite E.
Qed.

Lemma gl_upd_last l i y x r : nth_error l i = Some y -> S i = length l -> wlog (rn_st x) = wlog (rn_st y) ++ [r] ->
  gl 0 (upd l i x) = gl 0 l ++ [(i, r)].
Proof.
  intros H L E. destruct (upd_split l i y x H) as (l1 & l2 & -> & Hl & ->).
  rewrite app_length in L. cbn in L. assert (l2 = []) by (destruct l2; cbn in L; [auto|lia]). subst l2.
  rewrite !gl_app. cbn [gl]. rewrite E, map_app, !app_nil_r. cbn [map Nat.add]. rewrite Hl. now rewrite app_assoc.
Qed.

Lemma cl_upd_read l i y x r : nth_error l i = Some y ->
  (forall k nd, (i < k)%nat -> nth_error l k = Some nd -> nread (rn_st nd) = 0%nat) ->
  firstn (nread (rn_st x)) (wlog (rn_st x)) = firstn (nread (rn_st y)) (wlog (rn_st y)) ++ [r] ->
  cl 0 (upd l i x) = cl 0 l ++ [(i, r)].
Proof.
  intros H F E. destruct (upd_split l i y x H) as (l1 & l2 & -> & Hl & ->).
  assert (N2 : forall j, cl j l2 = []).
  { intro j. apply cl_nil. intros k nd Hk. apply (F (S (i + k))); [lia|].
    rewrite nth_error_app2 by lia. replace (S (i + k) - length l1)%nat with (S k) by lia. exact Hk. }
  rewrite !cl_app. cbn [cl]. rewrite !N2, E, map_app, !app_nil_r. cbn [map Nat.add]. rewrite Hl. now rewrite app_assoc.
Qed.

Lemma gl_snoc j l x : wlog (rn_st x) = [] -> gl j (l ++ [x]) = gl j l.
Proof. intro E. rewrite gl_app. cbn [gl]. rewrite E. cbn. now rewrite app_nil_r. Qed.
Lemma cl_snoc j l x : wlog (rn_st x) = [] -> cl j (l ++ [x]) = cl j l.
Proof. intro E. rewrite cl_app. cbn [cl]. rewrite E, firstn_nil. cbn. now rewrite app_nil_r. Qed.

(* consumed-by-node is a prefix of written-by-node when earlier nodes are fully read and later ones untouched *)
Lemma cl_prefix_gl c : forall l j,
  (forall i nd, nth_error l i = Some nd ->
     (nread (rn_st nd) <= length (wlog (rn_st nd)))%nat /\
     ((j + i < c)%nat -> nread (rn_st nd) = length (wlog (rn_st nd))) /\ ((c < j + i)%nat -> nread (rn_st nd) = 0%nat)) ->
  exists k, cl j l = firstn k (gl j l).
Proof.
  induction l as [|nd t IH]; intros j H; [exists 0%nat; reflexivity|].
  destruct (H 0%nat nd eq_refl) as (Hle & Hlt & Hgt). rewrite Nat.add_0_r in Hlt, Hgt.
  assert (Ht : forall i nd0, nth_error t i = Some nd0 ->
     (nread (rn_st nd0) <= length (wlog (rn_st nd0)))%nat /\
     ((S j + i < c)%nat -> nread (rn_st nd0) = length (wlog (rn_st nd0))) /\ ((c < S j + i)%nat -> nread (rn_st nd0) = 0%nat)).
  { intros i nd0 Hi. destruct (H (S i) nd0 Hi) as (A & B & D). split; [auto|]. split; intro; [apply B|apply D]; lia. }
  cbn [cl gl]. destruct (lt_eq_lt_dec j c) as [[Hjc|Hjc]|Hjc].
  - destruct (IH (S j) Ht) as [k Hk]. rewrite (Hlt Hjc), firstn_all, Hk.
    exists (length (map (pair j) (wlog (rn_st nd))) + k)%nat. now rewrite firstn_app_2.
  - assert (E : cl (S j) t = []).
    { apply cl_nil. intros i nd0 Hi. destruct (Ht i nd0 Hi) as (_ & _ & D). apply D. lia. }
    rewrite E, app_nil_r. exists (nread (rn_st nd)). rewrite firstn_app, map_length.
    replace (nread (rn_st nd) - length (wlog (rn_st nd)))%nat with 0%nat by lia.
    cbn [firstn]. rewrite app_nil_r. symmetry. apply firstn_map.
  - assert (E : cl (S j) t = []).
    { apply cl_nil. intros i nd0 Hi. destruct (Ht i nd0 Hi) as (_ & _ & D). apply D. lia. }
    rewrite E, (Hgt Hjc). exists 0%nat. reflexivity.
Qed.

(* ------------------------------------------------------------------ the invariant of the release/acquire layer *)
Section RA.
Variable maxc : N.
Variable cfg : ucfg.
Hypothesis Hsuf : usufficient cfg = true.
Notation ord := (u_ord cfg).
Notation rstep' := (rstep maxc cfg).

Lemma usuf : sufficient ord = true /\ is_rel (o_next_grow (u_nord cfg)) = true /\ is_rel (o_next_shrink (u_nord cfg)) = true /\
             is_acq (o_next_load (u_nord cfg)) = true /\ u_recheck cfg = true /\ u_cbd cfg = true.
Proof.
  pose proof Hsuf as H. unfold usufficient in H.
  apply andb_prop in H as [H H6]. apply andb_prop in H as [H H5]. apply andb_prop in H as [H H4].
  apply andb_prop in H as [H H3]. apply andb_prop in H as [H1 H2]. auto 10.
Qed.

Record RNodeP (p c j : nat) (nd : rnode) : Prop := {
  rp_inv : Inv (rn_cap nd) (rn_st nd);
  rp_freed : rn_freed nd = (j <? c)%nat;
  rp_next : rn_next nd = if (j <? p)%nat then Some (S j, (Nat.pred (length (histW (rn_st nd))), r_wpos (rn_st nd))) else None;
  rp_pos : forall r, In r (wlog (rn_st nd)) -> 0 < snd r;
  rp_gpos : forall n, granted (rn_st nd) = Some n -> 0 < n;
  rp_done : (j < c)%nat -> nread (rn_st nd) = length (wlog (rn_st nd));
  rp_fresh : (c < j)%nat -> nread (rn_st nd) = 0%nat;
  rp_cap : pow2 (rn_cap nd) /\ rn_cap nd <= maxc }.

Definition StageP (s : ruq) : Prop :=
  match cstg s with
  | CIdle => True
  | CNext j => exists nd, nth_error (rnodes s) (rcons s) = Some nd /\ j = S (rcons s) /\ (rcons s < rprod s)%nat /\
                 (Nat.pred (length (histW (rn_st nd))) <= cfloor s)%nat
  | CChecked j => exists nd, nth_error (rnodes s) (rcons s) = Some nd /\ j = S (rcons s) /\ (rcons s < rprod s)%nat /\
                 (Nat.pred (length (histW (rn_st nd))) <= cfloor s)%nat /\ r_rpos (rn_st nd) = r_wpos (rn_st nd)
  end.

Record RInv (s : ruq) : Prop := {
  ri_last : S (rprod s) = length (rnodes s);
  ri_cons : (rcons s <= rprod s)%nat;
  ri_node : forall j nd, nth_error (rnodes s) j = Some nd -> RNodeP (rprod s) (rcons s) j nd;
  ri_uaf : ruaf s = false;
  ri_lost : rlost s = [];
  ri_wg : wglog s = gl 0 (rnodes s);
  ri_cg : cglog s = cl 0 (rnodes s);
  ri_stage : StageP s;
  ri_allocs : rallocs s = map rn_cap (rnodes s) }.

Lemma rget_eq s i y : nth_error (rnodes s) i = Some y -> rget s i = y.
Proof. apply nth_of_nth_error. Qed.

Lemma rprod_node s : RInv s -> exists y, nth_error (rnodes s) (rprod s) = Some y.
Proof.
  intros I. destruct (nth_error (rnodes s) (rprod s)) eqn:E; [eauto|].
  apply nth_error_None in E. pose proof (ri_last s I). lia.
Qed.
Lemma rcons_node s : RInv s -> exists y, nth_error (rnodes s) (rcons s) = Some y.
Proof.
  intros I. destruct (nth_error (rnodes s) (rcons s)) eqn:E; [eauto|].
  apply nth_error_None in E. pose proof (ri_last s I). pose proof (ri_cons s I). lia.
Qed.
Lemma rprod_live s y : RInv s -> nth_error (rnodes s) (rprod s) = Some y -> rn_freed y = false.
Proof. intros I H. rewrite (rp_freed _ _ _ _ (ri_node s I _ _ H)). apply Nat.ltb_ge. apply (ri_cons s I). Qed.
Lemma rcons_live s y : RInv s -> nth_error (rnodes s) (rcons s) = Some y -> rn_freed y = false.
Proof. intros I H. rewrite (rp_freed _ _ _ _ (ri_node s I _ _ H)). apply Nat.ltb_irrefl. Qed.

(* A: node i gets a new queue state; producer and consumer stay where they are *)
Lemma rinv_setnode s i y x u wg cg g fl :
  RInv s -> nth_error (rnodes s) i = Some y ->
  RNodeP (rprod s) (rcons s) i (set_st y x) -> u = false ->
  wg = gl 0 (upd (rnodes s) i (set_st y x)) -> cg = cl 0 (upd (rnodes s) i (set_st y x)) ->
  StageP {| rnodes := upd (rnodes s) i (set_st y x); rprod := rprod s; rcons := rcons s; cstg := g; cfloor := fl; ruaf := u;
            rallocs := rallocs s; wglog := wg; cglog := cg; rlost := rlost s |} ->
  RInv {| rnodes := upd (rnodes s) i (set_st y x); rprod := rprod s; rcons := rcons s; cstg := g; cfloor := fl; ruaf := u;
          rallocs := rallocs s; wglog := wg; cglog := cg; rlost := rlost s |}.
Proof.
  intros I Hy NP Hu Hw Hc HS. destruct I.
  assert (Hi : (i < length (rnodes s))%nat) by (apply nth_error_Some; congruence).
  constructor; cbn [rnodes rprod rcons cstg cfloor ruaf rallocs wglog cglog rlost]; auto.
  - now rewrite upd_length.
  - intros j nd H. destruct (Nat.eq_dec i j) as [<-|NE].
    + rewrite nth_error_upd_same in H by exact Hi. now inversion H; subst.
    + rewrite nth_error_upd_other in H by exact NE. auto.
  - rewrite ri_allocs0. symmetry. apply (map_upd_eq rn_cap _ _ y); auto.
Qed.

(* the stage invariant survives a change of a node other than the consumer's, or any change while idle *)
Lemma stage_keep s l' u wg cg al lo p' :
  StageP s -> (rprod s <= p')%nat ->
  (cstg s <> CIdle -> nth_error l' (rcons s) = nth_error (rnodes s) (rcons s)) ->
  StageP {| rnodes := l'; rprod := p'; rcons := rcons s; cstg := cstg s; cfloor := cfloor s; ruaf := u;
            rallocs := al; wglog := wg; cglog := cg; rlost := lo |}.
Proof.
  unfold StageP. cbn [rnodes rprod rcons cstg cfloor]. intros HS Hp Hn.
  destruct (cstg s) as [|j|j]; auto.
  - destruct HS as (nd & A & B & D & E). exists nd. rewrite Hn by discriminate. repeat split; auto; lia.
  - destruct HS as (nd & A & B & D & E & F). exists nd. rewrite Hn by discriminate. repeat split; auto; lia.
Qed.

Lemma stage_nonidle_lt s : StageP s -> cstg s <> CIdle -> (rcons s < rprod s)%nat.
Proof.
  unfold StageP. intros HS Hn. destruct (cstg s) as [|j|j]; [congruence| |].
  - destruct HS as (nd & A & B & D & E); auto.
  - destruct HS as (nd & A & B & D & E & F); auto.
Qed.

Lemma rinv_same s u : RInv s -> u = false -> RInv (with_nodes s (rnodes s) u).
Proof. intros [] ->. constructor; cbn; auto. Qed.

Lemma nodep_set_same p c j y : RNodeP p c j y -> RNodeP p c j (set_st y (rn_st y)).
Proof. intros []. constructor; cbn [set_st rn_st rn_cap rn_next rn_freed]; auto. Qed.

(* a bounded-queue step on the producer's node that keeps log and read count *)
Lemma rinv_prod_step s y x :
  RInv s -> nth_error (rnodes s) (rprod s) = Some y ->
  Inv (rn_cap y) x -> wlog x = wlog (rn_st y) -> nread x = nread (rn_st y) ->
  (forall n, granted x = Some n -> 0 < n) ->
  RInv (rset s (rprod s) x).
Proof.
  intros I Hy Hi Hw Hn Hg. unfold rset, with_nodes. rewrite (rget_eq _ _ _ Hy).
  pose proof (ri_node s I _ _ Hy) as NP. pose proof (rprod_live s y I Hy) as Hfr.
  apply (rinv_setnode s (rprod s) y); auto.
  - destruct NP. constructor; cbn [set_st rn_st rn_cap rn_next rn_freed]; auto.
    + rewrite rp_next0, Nat.ltb_irrefl. reflexivity.
    + now rewrite Hw.
    + intro. pose proof (ri_cons s I). lia.
    + now rewrite Hn.
  - rewrite Hfr, (ri_uaf s I). reflexivity.
  - rewrite (gl_upd_same _ _ _ y) by auto. apply (ri_wg s I).
  - rewrite (cl_upd_same _ _ _ y) by (cbn [set_st rn_st]; congruence). apply (ri_cg s I).
  - apply stage_keep; [apply (ri_stage s I)|lia|].
    intro Hne. pose proof (stage_nonidle_lt s (ri_stage s I) Hne). apply nth_error_upd_other. lia.
Qed.

(* B: the producer publishes a new node behind its node (with a release store) and moves on *)
Lemma rinv_link s y x m c g :
  RInv s -> nth_error (rnodes s) (rprod s) = Some y ->
  Inv (rn_cap y) x -> wlog x = wlog (rn_st y) -> nread x = nread (rn_st y) -> granted x = None ->
  is_rel m = true -> next_pow2 c <= maxc -> (forall n, g = Some n -> 0 < n /\ n <= next_pow2 c) ->
  RInv (rlink s x m c g).
Proof.
  intros I Hy Hi Hw Hn Hg Hm Hc Hgn. unfold rlink. rewrite (rget_eq _ _ _ Hy), Hm.
  pose proof (ri_node s I _ _ Hy) as NP. pose proof (ri_last s I) as HL. pose proof (ri_cons s I) as HC.
  pose proof (rprod_live s y I Hy) as Hfr.
  assert (Hp : (rprod s < length (rnodes s))%nat) by lia.
  constructor; cbn [rnodes rprod rcons cstg cfloor ruaf rallocs wglog cglog rlost].
  - rewrite app_length, upd_length. cbn. lia.
  - lia.
  - intros j nd H. rewrite nth_error_snoc, upd_length in H.
    destruct (Nat.ltb_spec j (length (rnodes s))) as [Hj|Hj].
    + destruct (Nat.eq_dec (rprod s) j) as [<-|NE].
      * rewrite nth_error_upd_same in H by exact Hp. inversion H; subst nd. destruct NP.
        constructor; cbn [rn_st rn_cap rn_next rn_freed]; auto.
        -- assert (E : (rprod s <? length (rnodes s))%nat = true) by (apply Nat.ltb_lt; lia). rewrite E. do 2 f_equal. lia.
        -- now rewrite Hw.
        -- intros n E. congruence.
        -- intro. lia.
        -- now rewrite Hn.
      * rewrite nth_error_upd_other in H by exact NE. destruct (ri_node s I _ _ H).
        constructor; auto. rewrite rp_next0.
        assert (E : (j <? rprod s)%nat = true) by (apply Nat.ltb_lt; lia).
        assert (E' : (j <? length (rnodes s))%nat = true) by (apply Nat.ltb_lt; lia). now rewrite E, E'.
    + destruct (Nat.eqb_spec j (length (rnodes s))) as [->|]; [|discriminate]. inversion H; subst nd.
      destruct (next_pow2_spec c) as [P _].
      constructor; cbn [mk_rnode rn_st rn_cap rn_next rn_freed]; auto.
      * apply inv_fresh. intros n E. apply (Hgn n E).
      * symmetry. apply Nat.ltb_ge. lia.
      * now rewrite Nat.ltb_irrefl.
      * intros r [].
      * intros n E. cbn in E. apply (Hgn n E).
  - rewrite Hfr, (ri_uaf s I). reflexivity.
  - apply (ri_lost s I).
  - rewrite gl_snoc by reflexivity. rewrite (gl_upd_same _ _ _ y) by auto. apply (ri_wg s I).
  - rewrite cl_snoc by reflexivity. rewrite (cl_upd_same _ _ _ y) by (cbn [rn_st]; congruence). apply (ri_cg s I).
  - apply stage_keep; [apply (ri_stage s I)|lia|].
    intro Hne. pose proof (stage_nonidle_lt s (ri_stage s I) Hne).
    rewrite nth_error_app1 by (rewrite upd_length; lia). apply nth_error_upd_other. lia.
  - rewrite map_app, (map_upd_eq rn_cap _ _ y) by auto. cbn. now rewrite (ri_allocs s I).
Qed.

Lemma rinv_init c0 : next_pow2 c0 <= maxc -> RInv (ruq_init c0).
Proof.
  intro H. destruct (next_pow2_spec c0) as [P _].
  constructor; cbn; auto.
  intros [|[|j]] nd E; cbn in E; try discriminate. inversion E; subst nd.
  constructor; cbn [mk_rnode rn_st rn_cap rn_next rn_freed]; auto.
  - apply inv_fresh. intros; discriminate.
  - intros r [].
  - intros n E'. cbn in E'. discriminate.
Qed.

(* a bounded-queue step of the consumer on its node (idle stage) that keeps the read count *)
Lemma rinv_cons_step s y o :
  RInv s -> cstg s = CIdle -> nth_error (rnodes s) (rcons s) = Some y ->
  match o with CLoad _ | CCommit _ => True | _ => False end ->
  RInv (node_step cfg s (rcons s) o).
Proof.
  intros I Hidle Hy Ho. destruct usuf as (S1 & _). unfold node_step, rset, with_nodes. rewrite (rget_eq _ _ _ Hy).
  pose proof (ri_node s I _ _ Hy) as NP. pose proof (rcons_live s y I Hy) as Hfr.
  assert (Ho' : match o with CLoad _ | CRead | CCommit _ => True | _ => False end) by (destruct o; auto).
  destruct (frame_cons (rn_cap y) ord (rn_st y) o Ho') as (F1 & F2 & F3 & F4).
  destruct (frame_cons_nread (rn_cap y) ord (rn_st y) o Ho) as (F5 & F6).
  apply (rinv_setnode s (rcons s) y); auto.
  - destruct NP. constructor; cbn [set_st rn_st rn_cap rn_next rn_freed]; auto.
    + now apply step_inv.
    + now rewrite F2, F3.
    + now rewrite F1.
    + now rewrite F4.
    + intro; lia.
    + intro; lia.
  - rewrite Hfr, (ri_uaf s I). reflexivity.
  - rewrite (gl_upd_same _ _ _ y) by auto. apply (ri_wg s I).
  - rewrite (cl_upd_same _ _ _ y) by (cbn [set_st rn_st]; congruence). apply (ri_cg s I).
  - unfold StageP. cbn [cstg]. now rewrite Hidle.
Qed.

Lemma stage_idle_any l p c fl u al wg cg lo :
  StageP {| rnodes := l; rprod := p; rcons := c; cstg := CIdle; cfloor := fl; ruaf := u; rallocs := al; wglog := wg; cglog := cg; rlost := lo |}.
Proof. exact I. Qed.

Lemma rstep_inv s o : RInv s -> RInv (rstep' s o).
Proof.
  intros I. destruct usuf as (S1 & S2 & S3 & S4 & S5 & S6).
  destruct (rprod_node s I) as [yp Hyp]. destruct (rcons_node s I) as [yc Hyc].
  pose proof (ri_node s I _ _ Hyp) as NPp. pose proof (ri_node s I _ _ Hyc) as NPc.
  pose proof (rprod_live s yp I Hyp) as Hfp. pose proof (rcons_live s yc I Hyc) as Hfc.
  destruct o as [n|n i| |n|c0|i| |pub|newest|i|pub]; cbn [rstep].
  - (* UPAskCached *)
    destruct (n =? 0) eqn:En; [exact I|]. apply N.eqb_neq in En. unfold node_step. rewrite (rget_eq _ _ _ Hyp).
    destruct (frame_ask (rn_cap yp) ord (rn_st yp) (PAskCached n) Logic.I) as (F1 & F2 & F3 & F4 & F5).
    apply (rinv_prod_step s yp); auto; [apply step_inv; auto; apply NPp|].
    intros m E. destruct (F5 m E) as [G| ->]; [apply (rp_gpos _ _ _ _ NPp m G)|lia].
  - (* UPAskLoad *)
    destruct (n =? 0) eqn:En; [exact I|]. apply N.eqb_neq in En. unfold node_step. rewrite (rget_eq _ _ _ Hyp).
    destruct (frame_ask (rn_cap yp) ord (rn_st yp) (PAskLoad n i) Logic.I) as (F1 & F2 & F3 & F4 & F5).
    apply (rinv_prod_step s yp); auto; [apply step_inv; auto; apply NPp|].
    intros m E. destruct (F5 m E) as [G| ->]; [apply (rp_gpos _ _ _ _ NPp m G)|lia].
  - (* UPWrite *)
    rewrite (rget_eq _ _ _ Hyp). destruct (granted (rn_st yp)) as [n|] eqn:G; [|exact I].
    destruct (frame_write (rn_cap yp) ord (rn_st yp) n G) as (F1 & F2 & F3).
    unfold node_step, rset, with_nodes. rewrite (rget_eq _ _ _ Hyp).
    cbn [rnodes rprod rcons cstg cfloor ruaf rallocs wglog cglog rlost].
    destruct NPp as [npi npf npn npo npg npd npr npc].
    apply (rinv_setnode s (rprod s) yp); auto.
    + constructor; cbn [set_st rn_st rn_cap rn_next rn_freed]; auto.
      * apply step_inv; auto.
      * rewrite npn, Nat.ltb_irrefl. reflexivity.
      * rewrite F1. intros r Hin. apply in_app_or in Hin as [Hin|[<-|[]]]; [auto|]. cbn. apply (npg n G).
      * rewrite F3. intros; discriminate.
      * intro. pose proof (ri_cons s I). lia.
      * now rewrite F2.
    + rewrite Hfp, (ri_uaf s I). reflexivity.
    + rewrite (gl_upd_last _ _ yp _ (r_wpos (rn_st yp), n)); auto.
      * now rewrite (ri_wg s I).
      * apply (ri_last s I).
    + rewrite (cl_upd_same _ _ _ yp); auto; [apply (ri_cg s I)|]. cbn [set_st rn_st]. rewrite F1, F2.
      pose proof (i_nread _ _ npi). rewrite firstn_app.
      replace (nread (rn_st yp) - length (wlog (rn_st yp)))%nat with 0%nat by lia. cbn. now rewrite app_nil_r.
    + apply stage_keep; [apply (ri_stage s I)|lia|].
      intro Hne. pose proof (stage_nonidle_lt s (ri_stage s I) Hne). apply nth_error_upd_other. lia.
  - (* UPGrow *)
    rewrite (rget_eq _ _ _ Hyp). destruct (granted (rn_st yp)) eqn:G; [exact I|].
    destruct (n =? 0) eqn:En; [exact I|]. apply N.eqb_neq in En.
    destruct NPp as [npi npf npn npo npg npd npr [npc1 npc2]].
    destruct (N.ltb_spec maxc (grow_cap (rn_cap yp) n)) as [Hgt|Hle].
    + apply rinv_same; auto. rewrite Hfp, (ri_uaf s I). reflexivity.
    + pose proof (grow_cap_pow2 _ n npc1) as Pc. pose proof (next_pow2_pow2 _ Pc) as Enp.
      destruct (grow_cap_spec (rn_cap yp) n (pow2_ge1 _ npc1)) as (Hge & _ & _ & _).
      apply (rinv_link s yp); auto.
      * unfold recommit. apply inv_recommit; auto.
      * rewrite Enp. exact Hle.
      * intros m E. inversion E; subst m. rewrite Enp. split; [lia|exact Hge].
  - (* UPShrink *)
    rewrite (rget_eq _ _ _ Hyp). destruct (granted (rn_st yp)) eqn:G; [exact I|].
    destruct NPp as [npi npf npn npo npg npd npr [npc1 npc2]].
    destruct (N.ltb_spec (rn_cap yp / 2) c0) as [Hgt|Hle].
    + apply rinv_same; auto. rewrite Hfp, (ri_uaf s I). reflexivity.
    + apply (rinv_link s yp); auto.
      * destruct (half_pow2_bound _ _ npc1 Hle). lia.
      * intros; discriminate.
  - (* UCLoad *)
    destruct (is_idle (cstg s)) eqn:Hid; [|exact I].
    assert (Hidle : cstg s = CIdle) by (destruct (cstg s); auto; discriminate).
    rewrite (rget_eq _ _ _ Hyc). destruct (valid_cload s (rn_st yc) i); [|exact I].
    apply (rinv_cons_step s yc); auto.
  - (* UCRead *)
    destruct (is_idle (cstg s)) eqn:Hid; [|exact I].
    assert (Hidle : cstg s = CIdle) by (destruct (cstg s); auto; discriminate).
    rewrite (rget_eq _ _ _ Hyc).
    unfold node_step, rset, with_nodes. rewrite (rget_eq _ _ _ Hyc).
    cbn [rnodes rprod rcons cstg cfloor ruaf rallocs wglog cglog rlost].
    set (x1 := step (rn_cap yc) ord (rn_st yc) CRead).
    assert (Hi : (rcons s < length (rnodes s))%nat) by (apply nth_error_Some; congruence).
    assert (Eg : rget {| rnodes := upd (rnodes s) (rcons s) (set_st yc x1); rprod := rprod s; rcons := rcons s; cstg := cstg s;
                         cfloor := cfloor s; ruaf := ruaf s || rn_freed yc; rallocs := rallocs s; wglog := wglog s;
                         cglog := cglog s; rlost := rlost s |} (rcons s) = set_st yc x1).
    { apply rget_eq. cbn [rnodes]. apply nth_error_upd_same. exact Hi. }
    rewrite Eg. cbn [set_st rn_st].
    destruct (frame_cons (rn_cap yc) ord (rn_st yc) CRead Logic.I) as (F1 & F2 & F3 & F4). fold x1 in F1, F2, F3, F4.
    destruct NPc as [npi npf npn npo npg npd npr npc].
    assert (NP1 : RNodeP (rprod s) (rcons s) (rcons s) (set_st yc x1)).
    { constructor; cbn [set_st rn_st rn_cap rn_next rn_freed]; auto.
      - apply step_inv; auto.
      - now rewrite F2, F3.
      - now rewrite F1.
      - now rewrite F4.
      - intro; lia.
      - intro; lia. }
    destruct (cread_cases (rn_cap yc) ord (rn_st yc)) as [Esame|[Esucc [r Hr]]]; fold x1 in Esame || fold x1 in Esucc.
    + assert (E : Nat.eqb (nread x1) (S (nread (rn_st yc))) = false) by (apply Nat.eqb_neq; lia). rewrite E.
      apply (rinv_setnode s (rcons s) yc); auto.
      * rewrite Hfc, (ri_uaf s I). reflexivity.
      * rewrite (gl_upd_same _ _ _ yc) by auto. apply (ri_wg s I).
      * rewrite (cl_upd_same _ _ _ yc) by (cbn [set_st rn_st]; congruence). apply (ri_cg s I).
      * rewrite Hidle. apply stage_idle_any.
    + assert (E : Nat.eqb (nread x1) (S (nread (rn_st yc))) = true) by (apply Nat.eqb_eq; lia). rewrite E.
      cbn [rnodes rprod rcons cstg cfloor ruaf rallocs wglog cglog rlost].
      apply (rinv_setnode s (rcons s) yc); auto.
      * rewrite Hfc, (ri_uaf s I). reflexivity.
      * rewrite (gl_upd_same _ _ _ yc) by auto. apply (ri_wg s I).
      * rewrite (cl_upd_read _ _ yc _ r); auto.
        -- rewrite (ri_cg s I). do 3 f_equal. now apply nth_of_nth_error.
        -- intros k nd Hk Hnd. apply (rp_fresh _ _ _ _ (ri_node s I _ _ Hnd)). exact Hk.
        -- cbn [set_st rn_st]. rewrite F1, Esucc. now apply firstn_snoc_nth.
      * rewrite Hidle. apply stage_idle_any.
  - (* UCCommit *)
    destruct (is_idle (cstg s)) eqn:Hid; [|exact I].
    assert (Hidle : cstg s = CIdle) by (destruct (cstg s); auto; discriminate).
    apply (rinv_cons_step s yc); auto.
  - (* UCLoadNext *)
    destruct (is_idle (cstg s)) eqn:Hid; [|exact I].
    assert (Hidle : cstg s = CIdle) by (destruct (cstg s); auto; discriminate).
    rewrite (rget_eq _ _ _ Hyc).
    assert (Isame : RInv (with_nodes s (rnodes s) (ruaf s || rn_freed yc))).
    { apply rinv_same; auto. rewrite Hfc, (ri_uaf s I). reflexivity. }
    destruct newest; [|exact Isame].
    destruct NPc as [npi npf npn npo npg npd npr npc].
    destruct (rn_next yc) as [[j [vs vk]]|] eqn:Hnx; [|exact Isame].
    destruct (Nat.ltb_spec (rcons s) (rprod s)) as [Hlt|]; [|discriminate]. inversion npn; subst j vs vk.
    rewrite S4. unfold rset, with_nodes. rewrite (rget_eq _ _ _ Hyc).
    cbn [rnodes rprod rcons cstg cfloor ruaf rallocs wglog cglog rlost].
    assert (Hi : (rcons s < length (rnodes s))%nat) by (apply nth_error_Some; congruence).
    apply (rinv_setnode s (rcons s) yc); auto.
    + constructor; cbn [set_st rn_st rn_cap rn_next rn_freed upd_c histW r_wpos wlog granted nread]; auto.
      * apply inv_raise_know; auto.
      * rewrite Hnx. assert (E : (rcons s <? rprod s)%nat = true) by (apply Nat.ltb_lt; lia). now rewrite E.
    + rewrite Hfc, (ri_uaf s I). reflexivity.
    + rewrite (gl_upd_same _ _ _ yc) by auto. apply (ri_wg s I).
    + rewrite (cl_upd_same _ _ _ yc) by auto. apply (ri_cg s I).
    + unfold StageP. cbn [rnodes rprod rcons cstg cfloor]. eexists. split; [apply nth_error_upd_same; exact Hi|].
      cbn [set_st rn_st upd_c histW]. repeat split; auto. apply Nat.le_max_r.
  - (* UCRecheck *)
    destruct (cstg s) as [|j|j] eqn:Hst; try exact I. rewrite S5.
    rewrite (rget_eq _ _ _ Hyc).
    pose proof (ri_stage s I) as HS. unfold StageP in HS. rewrite Hst in HS.
    destruct HS as (nd & Hnd & Ej & Hlt & Hfl). rewrite Hyc in Hnd. inversion Hnd; subst nd. clear Hnd.
    assert (Hi : (rcons s < length (rnodes s))%nat) by (apply nth_error_Some; congruence).
    destruct NPc as [npi npf npn npo npg npd npr npc].
    destruct (N.eqb_spec (r_wcache (rn_st yc)) (r_rpos (rn_st yc))) as [Ewc|Nwc].
    + destruct (valid_cload s (rn_st yc) i) eqn:Hv; [|exact I].
      unfold valid_cload in Hv. apply andb_prop in Hv as [Hv Hv3]. apply andb_prop in Hv as [Hv1 Hv2].
      destruct (nth_error (histW (rn_st yc)) i) as [[v k]|] eqn:Hn; [|discriminate].
      apply Nat.leb_le in Hv2.
      assert (Hfi : (Nat.pred (length (histW (rn_st yc))) <= i)%nat) by lia.
      pose proof (load_newest _ _ _ _ _ npi Hfi Hn) as Ev.
      destruct (cload_effect (rn_cap yc) ord _ _ _ _ Ewc Hv1 Hn) as (E1 & E2).
      unfold node_step, rset, with_nodes, with_stage. rewrite (rget_eq _ _ _ Hyc).
      cbn [rnodes rprod rcons cstg cfloor ruaf rallocs wglog cglog rlost].
      set (x1 := step (rn_cap yc) ord (rn_st yc) (CLoad i)) in *.
      assert (Eg : rget {| rnodes := upd (rnodes s) (rcons s) (set_st yc x1); rprod := rprod s; rcons := rcons s; cstg := cstg s;
                           cfloor := cfloor s; ruaf := ruaf s || rn_freed yc; rallocs := rallocs s; wglog := wglog s;
                           cglog := cglog s; rlost := rlost s |} (rcons s) = set_st yc x1).
      { apply rget_eq. cbn [rnodes]. apply nth_error_upd_same. exact Hi. }
      rewrite Eg. cbn [set_st rn_st].
      destruct (frame_cons (rn_cap yc) ord (rn_st yc) (CLoad i) Logic.I) as (F1 & F2 & F3 & F4). fold x1 in F1, F2, F3, F4.
      destruct (frame_cons_nread (rn_cap yc) ord (rn_st yc) (CLoad i) Logic.I) as (F5 & F6). fold x1 in F5, F6.
      apply (rinv_setnode s (rcons s) yc); auto.
      * constructor; cbn [set_st rn_st rn_cap rn_next rn_freed]; auto.
        -- apply step_inv; auto.
        -- now rewrite F2, F3.
        -- now rewrite F1.
        -- now rewrite F4.
        -- intro; lia.
        -- intro; lia.
      * rewrite Hfc, (ri_uaf s I). reflexivity.
      * rewrite (gl_upd_same _ _ _ yc) by auto. apply (ri_wg s I).
      * rewrite (cl_upd_same _ _ _ yc) by (cbn [set_st rn_st]; congruence). apply (ri_cg s I).
      * destruct (N.eqb_spec (r_wcache x1) (r_rpos x1)) as [Ee|Ne]; [|apply stage_idle_any].
        unfold StageP. cbn [rnodes rprod rcons cstg cfloor]. eexists. split; [apply nth_error_upd_same; exact Hi|].
        cbn [set_st rn_st]. rewrite F2, F3. repeat split; auto. congruence.
    + unfold rset, with_nodes, with_stage. rewrite (rget_eq _ _ _ Hyc).
      cbn [rnodes rprod rcons cstg cfloor ruaf rallocs wglog cglog rlost].
      apply (rinv_setnode s (rcons s) yc); auto.
      * apply nodep_set_same. constructor; auto.
      * rewrite Hfc, (ri_uaf s I). reflexivity.
      * rewrite (gl_upd_same _ _ _ yc) by auto. apply (ri_wg s I).
      * rewrite (cl_upd_same _ _ _ yc) by auto. apply (ri_cg s I).
      * apply stage_idle_any.
  - (* UCSwitch *)
    pose proof (ri_stage s I) as HS. unfold StageP in HS.
    destruct (cstg s) as [|j|j] eqn:Hst; cbn [can_switch]; try exact I; [rewrite S5; exact I|].
    destruct HS as (nd & Hnd & Ej & Hlt & Hfl & Hrw). rewrite Hyc in Hnd. inversion Hnd; subst nd. clear Hnd.
    rewrite (rget_eq _ _ _ Hyc). subst j.
    assert (Hi : (rcons s < length (rnodes s))%nat) by (apply nth_error_Some; congruence).
    destruct NPc as [npi npf npn npo npg npd npr npc].
    pose proof (read_all _ _ npi npo Hrw) as Hall.
    set (x1 := step (rn_cap yc) ord (rn_st yc) (CCommit pub)).
    destruct (frame_cons (rn_cap yc) ord (rn_st yc) (CCommit pub) Logic.I) as (F1 & F2 & F3 & F4). fold x1 in F1, F2, F3, F4.
    destruct (frame_cons_nread (rn_cap yc) ord (rn_st yc) (CCommit pub) Logic.I) as (F5 & F6). fold x1 in F5, F6.
    pose proof (ri_cons s I) as HC. pose proof (ri_last s I) as HL.
    constructor; cbn [rnodes rprod rcons cstg cfloor ruaf rallocs wglog cglog rlost].
    + now rewrite upd_length.
    + lia.
    + intros k nd H. destruct (Nat.eq_dec (rcons s) k) as [<-|NE].
      * rewrite nth_error_upd_same in H by exact Hi. inversion H; subst nd.
        constructor; cbn [rn_st rn_cap rn_next rn_freed]; auto.
        -- apply step_inv; auto.
        -- symmetry. apply Nat.ltb_lt. lia.
        -- now rewrite F2, F3.
        -- now rewrite F1.
        -- now rewrite F4.
        -- intros _. rewrite F5, F1. exact Hall.
        -- intro; lia.
      * rewrite nth_error_upd_other in H by exact NE. destruct (ri_node s I _ _ H).
        constructor; auto.
        -- rewrite rp_freed0. destruct (Nat.ltb_spec k (rcons s)), (Nat.ltb_spec k (S (rcons s))); auto; lia.
        -- intro. apply rp_done0. lia.
        -- intro. apply rp_fresh0. lia.
    + rewrite Hfc, (ri_uaf s I), S6. reflexivity.
    + rewrite (ri_lost s I), Hall, skipn_all. reflexivity.
    + rewrite (gl_upd_same _ _ _ yc) by auto. apply (ri_wg s I).
    + rewrite (cl_upd_same _ _ _ yc) by (cbn [rn_st]; congruence). apply (ri_cg s I).
    + exact Logic.I.
    + rewrite (ri_allocs s I). symmetry. apply (map_upd_eq rn_cap _ _ yc); auto.
Qed.

Theorem rrun_inv c0 ops : next_pow2 c0 <= maxc -> RInv (rrun maxc cfg c0 ops).
Proof.
  intro H. unfold rrun. generalize (rinv_init c0 H). generalize (ruq_init c0).
  induction ops as [|o ops IH]; cbn; intros s I; auto. apply IH, rstep_inv, I.
Qed.

(* ------------------------------------------------------------------ no record appears twice in the written stream *)
Lemma nodup_app {A} (a b : list A) : NoDup a -> NoDup b -> (forall x, In x a -> In x b -> False) -> NoDup (a ++ b).
Proof.
  induction a as [|h t IH]; intros Ha Hb Hd; cbn; [exact Hb|]. inversion Ha; subst. constructor.
  - intro Hin. apply in_app_or in Hin as [Hin|Hin]; [auto|]. apply (Hd h); [now left|exact Hin].
  - apply IH; auto. intros x Hx. apply Hd. now right.
Qed.

Lemma nodup_map_pair {A B} (j : A) (l : list B) : NoDup l -> NoDup (map (pair j) l).
Proof.
  induction 1; cbn; constructor; auto. intro Hin. apply in_map_iff in Hin as (y & E & Hy). inversion E; subst. auto.
Qed.

Lemma contig_nodup l : (forall r, In r l -> 0 < snd r) -> forall a m, contig a l = Some m ->
  NoDup l /\ forall r, In r l -> a <= fst r.
Proof.
  induction l as [|[s0 len] t IH]; intros Hpos a m H; [split; [constructor|intros r []]|].
  cbn in H. destruct (N.eqb_spec s0 a) as [->|]; [|discriminate].
  destruct (IH (fun r Hr => Hpos r (or_intror Hr)) _ _ H) as [ND LB].
  pose proof (Hpos (a, len) (or_introl eq_refl)) as Hl. cbn in Hl. split.
  - constructor; auto. intro Hin. specialize (LB _ Hin). cbn in LB. lia.
  - intros r [<-|Hr]; cbn; [lia|]. specialize (LB _ Hr). lia.
Qed.

Lemma gl_tags j l k r : In (k, r) (gl j l) -> (j <= k)%nat.
Proof.
  revert j; induction l as [|nd t IH]; intros j H; [destruct H|]. cbn [gl] in H.
  apply in_app_or in H as [H|H].
  - apply in_map_iff in H as (y & E & _). inversion E. lia.
  - specialize (IH _ H). lia.
Qed.

Lemma gl_nodup l : forall j, (forall nd, In nd l -> NoDup (wlog (rn_st nd))) -> NoDup (gl j l).
Proof.
  induction l as [|nd t IH]; intros j H; [constructor|]. cbn [gl]. apply nodup_app.
  - apply nodup_map_pair. apply H. now left.
  - apply IH. intros nd' Hin. apply H. now right.
  - intros [k r] H1 H2. apply in_map_iff in H1 as (y & E & _). inversion E; subst k. apply gl_tags in H2. lia.
Qed.

(* ------------------------------------------------------------------ theorems of the release/acquire layer *)
Section Reach.
Variable c0 : N.
Hypothesis Hinit : next_pow2 c0 <= maxc.
Notation run := (rrun maxc cfg c0).

(* node-wise, the safety invariant of the bounded queue: in particular no data race on payload bytes *)
Theorem uq_node_safety ops j nd : nth_error (rnodes (run ops)) j = Some nd -> Inv (rn_cap nd) (rn_st nd).
Proof. intro H. apply (rp_inv _ _ _ _ (ri_node _ (rrun_inv c0 ops Hinit) _ _ H)). Qed.

Theorem uq_race_free ops j nd : nth_error (rnodes (run ops)) j = Some nd -> race (rn_st nd) = false.
Proof. intro H. apply (i_race _ _ (uq_node_safety ops j nd H)). Qed.

(* the consumer leaves node j for node j+1 only when every record written to node j has been read *)
Theorem uq_old_before_new ops : rlost (run ops) = [].
Proof. apply (ri_lost _ (rrun_inv c0 ops Hinit)). Qed.

(* the nodes before the consumer's are exactly the ones read to the end (and deleted); later ones are untouched *)
Theorem uq_node_order ops j nd : let s := run ops in nth_error (rnodes s) j = Some nd ->
  ((j < rcons s)%nat -> nread (rn_st nd) = length (wlog (rn_st nd)) /\ rn_freed nd = true) /\
  ((rcons s < j)%nat -> nread (rn_st nd) = 0%nat) /\ ((rcons s <= j)%nat -> rn_freed nd = false).
Proof.
  intros s H. destruct (ri_node _ (rrun_inv c0 ops Hinit) _ _ H). fold s in rp_freed0, rp_done0, rp_fresh0.
  split; [|split]; intro Hj; auto.
  - split; auto. rewrite rp_freed0. now apply Nat.ltb_lt.
  - rewrite rp_freed0. apply Nat.ltb_ge. lia.
Qed.

(* no step of either side touches a deleted node *)
Theorem uq_no_uaf ops : ruaf (run ops) = false /\ (rcons (run ops) <= rprod (run ops))%nat.
Proof. pose proof (rrun_inv c0 ops Hinit) as I. split; [apply (ri_uaf _ I)|apply (ri_cons _ I)]. Qed.

(* the stream the consumer read, in its program order, is a prefix of the stream the producer wrote,
   in its program order (records tagged with their node and start position), and no record is written twice *)
Theorem uq_fifo ops : let s := run ops in (exists k, cglog s = firstn k (wglog s)) /\ NoDup (wglog s).
Proof.
  intro s. pose proof (rrun_inv c0 ops Hinit) as I. fold s in I. rewrite (ri_wg s I), (ri_cg s I). split.
  - apply (cl_prefix_gl (rcons s)). intros i nd Hi. destruct (ri_node s I _ _ Hi).
    split; [apply (i_nread _ _ rp_inv0)|]. split; auto.
  - apply gl_nodup. intros nd Hin. apply In_nth_error in Hin as [j Hj]. destruct (ri_node s I _ _ Hj).
    apply (contig_nodup _ rp_pos0 0 _ (i_contig _ _ rp_inv0)).
Qed.

Theorem uq_alloc_bound ops : Forall (fun c => c <= maxc /\ pow2 c) (rallocs (run ops)).
Proof.
  pose proof (rrun_inv c0 ops Hinit) as I. rewrite (ri_allocs _ I). apply Forall_forall. intros c Hc.
  apply in_map_iff in Hc as (nd & <- & Hin). apply In_nth_error in Hin as [j Hj].
  destruct (ri_node _ I _ _ Hj) as [_ _ _ _ _ _ _ [A B]]. auto.
Qed.
End Reach.
End RA.

(* ------------------------------------------------------------------ sensitivity: what each ingredient is for *)
Definition nord_ok := {| o_next_grow := Rel; o_next_shrink := Rel; o_next_load := Acq |}.
Definition cfg_ok := {| u_ord := ord_ok; u_nord := nord_ok; u_recheck := true; u_cbd := true |}.
Definition cfg_norecheck := {| u_ord := ord_ok; u_nord := nord_ok; u_recheck := false; u_cbd := true |}.
Definition cfg_rlx_next := {| u_ord := ord_ok; u_nord := {| o_next_grow := Rlx; o_next_shrink := Rel; o_next_load := Acq |};
                              u_recheck := true; u_cbd := true |}.
Definition cfg_rlx_load := {| u_ord := ord_ok; u_nord := {| o_next_grow := Rel; o_next_shrink := Rel; o_next_load := Rlx |};
                              u_recheck := true; u_cbd := true |}.
Definition cfg_delete_first := {| u_ord := ord_ok; u_nord := nord_ok; u_recheck := true; u_cbd := false |}.

Example cfg_ok_sufficient : usufficient cfg_ok = true.
Proof. reflexivity. Qed.

(* the consumer saw the old node empty, then the producer wrote a record into it and grew; the consumer
   loads `next`, sees the new node and - without the re-check - leaves the old node with the record unread *)
Definition tr_lose := [UPAskCached 4; UPWrite; UPGrow 100; UCLoadNext true; UCSwitch false].
Example uq_norecheck_loses : rlost (rrun 4096 cfg_norecheck 64 tr_lose) = [(0%nat, (0, 4))].
Proof. vm_compute. reflexivity. Qed.

(* with the re-check the same schedule cannot switch: the re-check finds the record, which is then read first *)
Definition tr_keep := [UPAskCached 4; UPWrite; UPGrow 100; UCLoadNext true; UCSwitch false; UCRecheck 2; UCRead;
                       UCLoadNext true; UCRecheck 2; UCSwitch false; UPWrite; UCLoad 1; UCRead].
Example uq_recheck_keeps :
  let s := rrun 4096 cfg_ok 64 tr_keep in
  rlost s = [] /\ cglog s = [(0%nat, (0, 4)); (1%nat, (0, 100))] /\ wglog s = cglog s /\ rcons s = 1%nat /\ ruaf s = false /\
  rallocs s = [64; 128].
Proof. vm_compute. repeat split. Qed.

(* a relaxed publish of `next` (or a relaxed load of it) transfers no view: the re-check may legally read the
   stale writer position (message 0) and the record is lost all the same *)
Definition tr_stale := [UPAskCached 4; UPWrite; UPGrow 100; UCLoadNext true; UCRecheck 0; UCSwitch false].
Example uq_relaxed_next_loses : rlost (rrun 4096 cfg_rlx_next 64 tr_stale) = [(0%nat, (0, 4))].
Proof. vm_compute. reflexivity. Qed.
Example uq_relaxed_load_loses : rlost (rrun 4096 cfg_rlx_load 64 tr_stale) = [(0%nat, (0, 4))].
Proof. vm_compute. reflexivity. Qed.
Example uq_release_acquire_forbids_stale : rlost (rrun 4096 cfg_ok 64 tr_stale) = [] /\ rcons (rrun 4096 cfg_ok 64 tr_stale) = 0%nat.
Proof. vm_compute. auto. Qed.

(* commit_read after delete touches the deleted node *)
Example uq_delete_first_touches_freed :
  ruaf (rrun 4096 cfg_delete_first 64 [UPGrow 100; UCLoadNext true; UCRecheck 1; UCSwitch false]) = true.
Proof. vm_compute. reflexivity. Qed.
