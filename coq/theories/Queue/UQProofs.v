(* Proofs about M-UQ, sequential layer (the layer the correspondence check runs against the real
   queue): for every list of harness ops
   - the consumed stream followed by what is still pending is the written stream (FIFO, once);
   - the consumer leaves a node only when nothing is left in it;
   - no step touches a deleted node;
   - every allocation is a power of two and at most the maximum capacity;
   - oversize records are rejected, growth beyond the maximum is deferred without side effect;
   - shrink takes effect exactly when asked for at most half the capacity;
   - C09 (unbounded clause): at consumer quiescence every record up to a power of two that is at
     most the maximum is granted; refuted for the rest when the maximum is not a power of two (D13). *)
From Coq Require Import List NArith ZArith Arith Bool Lia.
From Quill Require Import Queue.BQDefs Queue.BQProofs Queue.BQSeqProofs Queue.UQDefs.
Import ListNotations.
Local Open Scope N_scope.

(* ------------------------------------------------------------------ lists *)
Lemma upd_length {A} (l : list A) i x : length (upd l i x) = length l.
Proof. revert i; induction l as [|h t IH]; intros [|i]; cbn; auto. Qed.

Lemma nth_error_upd_same {A} (l : list A) i x : (i < length l)%nat -> nth_error (upd l i x) i = Some x.
Proof. revert i; induction l as [|h t IH]; intros [|i] H; cbn in *; try lia; auto. apply IH; lia. Qed.

Lemma nth_error_upd_other {A} (l : list A) i j x : i <> j -> nth_error (upd l i x) j = nth_error l j.
Proof. revert i j; induction l as [|h t IH]; intros [|i] [|j] H; cbn; auto; try congruence. Qed.

Lemma upd_upd {A} (l : list A) i x y : upd (upd l i x) i y = upd l i y.
Proof. revert i; induction l as [|h t IH]; intros [|i]; cbn; auto. now rewrite IH. Qed.

Lemma upd_split {A} (l : list A) i y x : nth_error l i = Some y ->
  exists l1 l2, l = l1 ++ y :: l2 /\ length l1 = i /\ upd l i x = l1 ++ x :: l2.
Proof.
  revert i; induction l as [|h t IH]; intros [|i] H; cbn in *; try discriminate.
  - inversion H; subst. exists [], t. auto.
  - destruct (IH _ H) as (l1 & l2 & E1 & E2 & E3). exists (h :: l1), l2. cbn. rewrite <- E1, E3, E2. auto.
Qed.

Lemma upd_app_l {A} (l l' : list A) i x : (i < length l)%nat -> upd (l ++ l') i x = upd l i x ++ l'.
Proof. revert i; induction l as [|h t IH]; intros [|i] H; cbn in *; try lia; auto. now rewrite IH by lia. Qed.

Lemma nth_of_nth_error {A} (l : list A) i d y : nth_error l i = Some y -> nth i l d = y.
Proof. revert i; induction l as [|h t IH]; intros [|i] H; cbn in *; try discriminate; auto. now inversion H. Qed.

Lemma nth_error_snoc {A} (l : list A) x j : nth_error (l ++ [x]) j =
  if (j <? length l)%nat then nth_error l j else if (j =? length l)%nat then Some x else None.
Proof.
  destruct (Nat.ltb_spec j (length l)).
  - now rewrite nth_error_app1.
  - rewrite nth_error_app2 by lia. destruct (Nat.eqb_spec j (length l)) as [->|].
    + now rewrite Nat.sub_diag.
    + destruct (j - length l)%nat eqn:E; [lia|]. cbn. now destruct n0.
Qed.

(* ------------------------------------------------------------------ capacities *)
Definition pow2 (c : N) := exists k, c = 2 ^ k.

Lemma pow2_ge1 c : pow2 c -> 1 <= c.
Proof. intros [k ->]. pose proof (pow2_pos k). lia. Qed.

Lemma next_pow2_spec n : pow2 (next_pow2 n) /\ n <= next_pow2 n.
Proof.
  unfold next_pow2. destruct (N.eqb_spec n 0) as [->|Hn].
  - split; [exists 0; reflexivity|lia].
  - split; [eexists; reflexivity|]. destruct (N.le_gt_cases n 1).
    + assert (n = 1) by lia. subst. cbn. lia.
    + apply N.log2_up_spec in H. lia.
Qed.

Lemma next_pow2_pow2 c : pow2 c -> next_pow2 c = c.
Proof.
  intros [k ->]. unfold next_pow2. pose proof (pow2_pos k).
  destruct (N.eqb_spec (2 ^ k) 0); [lia|]. now rewrite N.log2_up_pow2 by lia.
Qed.

(* the smallest power of two that is >= n is <= any power of two >= n *)
Lemma next_pow2_least n m : n <= 2 ^ m -> next_pow2 n <= 2 ^ m.
Proof.
  intro H. unfold next_pow2. destruct (N.eqb_spec n 0) as [->|Hn].
  - pose proof (pow2_pos m). lia.
  - apply N.pow_le_mono_r; [lia|]. destruct (N.le_gt_cases n 1).
    + assert (n = 1) by lia. subst. cbn. lia.
    + apply N.log2_up_le_pow2; lia.
Qed.

Lemma grow_loop_spec fuel : forall cap n, 1 <= cap -> n < cap * 2 ^ N.of_nat fuel ->
  let r := grow_loop fuel cap n in
  n <= r /\ cap <= r /\ (exists j, r = cap * 2 ^ j) /\ (cap < r -> r < 2 * n).
Proof.
  induction fuel as [|f IH]; intros cap n Hc Hn; cbn [grow_loop].
  - cbn in Hn. cbv zeta. split; [lia|]. split; [lia|]. split; [exists 0; cbn; lia|lia].
  - destruct (N.ltb_spec cap n) as [Hlt|Hge].
    + assert (Hn' : n < cap * 2 * 2 ^ N.of_nat f).
      { rewrite Nat2N.inj_succ, N.pow_succ_r' in Hn. lia. }
      destruct (IH (cap * 2) n ltac:(lia) Hn') as (A & B & (j & Ej) & D). cbv zeta.
      split; [lia|]. split; [lia|]. split.
      * exists (N.succ j). rewrite Ej, N.pow_succ_r'. lia.
      * intros _. destruct (N.eq_dec (grow_loop f (cap * 2) n) (cap * 2)) as [E|NE]; [lia|]. apply D. lia.
    + cbv zeta. split; [lia|]. split; [lia|]. split; [exists 0; cbn; lia|lia].
Qed.

Lemma size_gt n : n < 2 ^ N.size n.
Proof. destruct n; [cbn; lia|]. apply N.size_gt. Qed.

(* grow_cap cap n: a doubling of cap, at least 2*cap, at least n, and minimal *)
Lemma grow_cap_spec cap n : 1 <= cap ->
  let r := grow_cap cap n in
  n <= r /\ 2 * cap <= r /\ (exists j, r = cap * 2 ^ N.succ j) /\ (2 * cap < r -> r < 2 * n).
Proof.
  intro Hc. unfold grow_cap.
  assert (Hn : n < cap * 2 * 2 ^ N.of_nat (S (N.to_nat (N.size n)))).
  { rewrite Nat2N.inj_succ, N2Nat.id, N.pow_succ_r'. pose proof (size_gt n). nia. }
  destruct (grow_loop_spec _ (cap * 2) n ltac:(lia) Hn) as (A & B & (j & Ej) & D). cbv zeta.
  split; [lia|]. split; [lia|]. split.
  - exists j. rewrite Ej, N.pow_succ_r'. lia.
  - intro. apply D. lia.
Qed.

Lemma grow_cap_pow2 cap n : pow2 cap -> pow2 (grow_cap cap n).
Proof.
  intros [k ->]. destruct (grow_cap_spec (2 ^ k) n) as (_ & _ & (j & ->) & _).
  - pose proof (pow2_pos k); lia.
  - exists (k + N.succ j). now rewrite N.pow_add_r.
Qed.

(* a power of two below 2n is at most any power of two that is >= n *)
Lemma pow2_lt_twice a m n : n <= 2 ^ m -> 2 ^ a < 2 * n -> 2 ^ a <= 2 ^ m.
Proof.
  intros H1 H2. assert (H : 2 ^ a < 2 ^ N.succ m) by (rewrite N.pow_succ_r'; lia).
  apply N.pow_lt_mono_r_iff in H; [|lia]. apply N.pow_le_mono_r; lia.
Qed.

(* ------------------------------------------------------------------ bounded-queue steps, one by one *)
Definition allpos (l : list N) := Forall (fun n => 0 < n) l.

Lemma sum_pos_nil l : allpos l -> sum l = 0 -> l = [].
Proof. intros H E. destruct l as [|x t]; auto. inversion H; subst. cbn in E. lia. Qed.

Definition set_rcache (q : bq) (v : N) : bq :=
  {| wpos := wpos q; rcache := v; rpos := rpos q; wcache := wcache q; aw := aw q; ar := ar q; recs := recs q; dirty := dirty q |}.
Definition set_wcache (q : bq) (v : N) : bq :=
  {| wpos := wpos q; rcache := rcache q; rpos := rpos q; wcache := v; aw := aw q; ar := ar q; recs := recs q; dirty := dirty q |}.

Lemma bq_eta q : {| wpos := wpos q; rcache := rcache q; rpos := rpos q; wcache := wcache q; aw := aw q; ar := ar q; recs := recs q; dirty := dirty q |} = q.
Proof. now destruct q. Qed.

(* prepare_write only moves the producer's cache of the reader position *)
Lemma pw_frame C q n : exists v, fst (prepare_write ideal C q n) = set_rcache q v /\ (v = rcache q \/ v = ar q).
Proof.
  unfold prepare_write. destruct (nofit ideal C (wpos q) (rcache q) n).
  - cbn [wpos rcache]. destruct (nofit ideal C (wpos q) (ar q) n); cbn [fst]; exists (ar q); auto.
  - cbn [fst]. exists (rcache q). split; auto. unfold set_rcache. now rewrite bq_eta.
Qed.

Lemma pw_none C q n : snd (prepare_write ideal C q n) = None ->
  fst (prepare_write ideal C q n) = set_rcache q (ar q) /\ nofit ideal C (wpos q) (ar q) n = true.
Proof.
  unfold prepare_write. destruct (nofit ideal C (wpos q) (rcache q) n); [|cbn; discriminate].
  cbn [wpos rcache]. destruct (nofit ideal C (wpos q) (ar q) n) eqn:E; cbn; [auto|discriminate].
Qed.

Lemma empty_frame q : exists v, fst (empty q) = set_wcache q v /\ (v = wcache q \/ (wcache q = rpos q /\ v = aw q)) /\
  (snd (empty q) = (v =? rpos q)) /\ (v = rpos q -> v = aw q).
Proof.
  unfold empty. destruct (N.eqb_spec (wcache q) (rpos q)) as [E|NE]; cbn [fst snd wcache rpos].
  - exists (aw q). auto.
  - exists (wcache q). split; [unfold set_wcache; now rewrite bq_eta|]. split; auto. split.
    + symmetry. now apply N.eqb_neq.
    + intro. congruence.
Qed.

Lemma prepare_read_frame C q : fst (prepare_read ideal C q) = fst (empty q) /\
  (snd (prepare_read ideal C q) = None <-> snd (empty q) = true).
Proof. unfold prepare_read. destruct (empty q) as [q1 [|]]; cbn; split; auto; split; congruence. Qed.

Lemma sinv_set_rcache C q v : SInv C q -> (v = rcache q \/ v = ar q) -> SInv C (set_rcache q v).
Proof. intros [h1 h2 h3 h4 h5 h6 h7 h8 h9] [->| ->]; constructor; cbn; auto; lia. Qed.

Lemma sinv_set_wcache C q v : SInv C q -> (v = wcache q \/ (wcache q = rpos q /\ v = aw q)) -> SInv C (set_wcache q v).
Proof. intros [h1 h2 h3 h4 h5 h6 h7 h8 h9] [->|[E ->]]; constructor; cbn; auto; lia. Qed.

Lemma sinv_finish_write C q n : SInv C q -> wpos q + n <= rcache q + C -> SInv C (finish_write ideal q n).
Proof.
  intros [h1 h2 h3 h4 h5 h6 h7 h8 h9] H.
  constructor; cbn [finish_write wpos rcache rpos wcache aw ar recs a_add ideal]; try lia.
  - rewrite sum_app. cbn. lia.
  - now apply boundary_snoc.
  - now apply boundary_snoc.
Qed.

Lemma sinv_commit_write C q : SInv C q -> SInv C (commit_write q).
Proof.
  intros [h1 h2 h3 h4 h5 h6 h7 h8 h9]. constructor; cbn [commit_write wpos rcache rpos wcache aw ar recs]; auto; try lia.
  rewrite h7. apply boundary_all.
Qed.

Lemma sinv_finish_read C q x t : SInv C q -> rpos q < wcache q -> recs q = x :: t -> SInv C (finish_read ideal q x).
Proof.
  intros [h1 h2 h3 h4 h5 h6 h7 h8 h9] Hne ER. rewrite ER in *.
  destruct (boundary_tl _ _ _ _ h8 Hne) as [B8 L8].
  destruct (boundary_tl _ _ _ _ h9 ltac:(lia)) as [B9 L9].
  constructor; cbn [finish_read wpos rcache rpos wcache aw ar recs a_add ideal tl]; try lia.
  - rewrite ER. cbn [tl]. cbn [sum] in h7. lia.
  - rewrite ER; exact B8.
  - rewrite ER; exact B9.
Qed.

Lemma sinv_commit_read C b pr q : SInv C q -> SInv C (commit_read ideal b pr q).
Proof.
  intros [h1 h2 h3 h4 h5 h6 h7 h8 h9]. unfold commit_read.
  destruct (should_publish ideal b pr q); constructor; cbn; auto; lia.
Qed.

Lemma commit_read_fields b pr q : let q' := commit_read ideal b pr q in
  wpos q' = wpos q /\ aw q' = aw q /\ recs q' = recs q /\ rpos q' = rpos q /\ wcache q' = wcache q /\ rcache q' = rcache q /\ dirty q' = false.
Proof. unfold commit_read. destruct (should_publish ideal b pr q); cbn; auto 10. Qed.

Lemma commit_read_pub C b pr q : on_drain pr = true -> SInv C q -> PubInv (commit_read ideal b pr q).
Proof.
  intros Hd Hs. unfold PubInv, commit_read, should_publish. rewrite Hd. cbn [andb].
  destruct (N.eqb_spec (rpos q) (wcache q)) as [Eq|Ne].
  - rewrite orb_true_r. intros _. now left.
  - rewrite orb_false_r. destruct (on_batch pr && (b <=? a_sub ideal (rpos q) (ar q))); intros _; cbn; [now left|now right].
Qed.

Lemma sinv_init C : SInv C bq_init.
Proof. apply SInv_init. Qed.

(* a fresh node grants whatever fits its capacity *)
Lemma pw_init C n : n <= C -> prepare_write ideal C bq_init n = (bq_init, Some 0).
Proof.
  intro H. unfold prepare_write. cbn [wpos rcache bq_init].
  assert (E : nofit ideal C 0 0 n = false) by (unfold nofit; cbn [a_sub ideal]; apply N.ltb_ge; lia).
  rewrite E. cbn [a_off ideal]. destruct (N.eq_dec C 0) as [->|]; [reflexivity|]. now rewrite N.mod_0_l.
Qed.

(* ------------------------------------------------------------------ invariant of the sequential layer *)
Definition pend (l : list node) : list N := concat (map (fun nd => recs (nq nd)) l).
Definition with_q (y : node) (q : bq) : node := {| nq := q; ncap := ncap y; nnext := nnext y; nfreed := nfreed y |}.

Lemma pend_app a b : pend (a ++ b) = pend a ++ pend b.
Proof. unfold pend. now rewrite map_app, concat_app. Qed.

Lemma pend_cons y l : pend (y :: l) = recs (nq y) ++ pend l.
Proof. reflexivity. Qed.

Lemma pend_upd_same l i y x : nth_error l i = Some y -> recs (nq x) = recs (nq y) -> pend (upd l i x) = pend l.
Proof.
  intros H E. destruct (upd_split l i y x H) as (l1 & l2 & -> & _ & ->).
  rewrite !pend_app, !pend_cons. now rewrite E.
Qed.

Lemma pend_upd_last l i y x n : nth_error l i = Some y -> S i = length l -> recs (nq x) = recs (nq y) ++ [n] ->
  pend (upd l i x) = pend l ++ [n].
Proof.
  intros H L E. destruct (upd_split l i y x H) as (l1 & l2 & -> & Hl & ->).
  rewrite app_length in L. cbn in L. assert (l2 = []) by (destruct l2; cbn in L; [auto|lia]). subst l2.
  rewrite !pend_app, !pend_cons. unfold pend at 2 4. cbn. rewrite E, !app_nil_r. now rewrite app_assoc.
Qed.

Lemma pend_nil l : (forall j nd, nth_error l j = Some nd -> recs (nq nd) = []) -> pend l = [].
Proof.
  induction l as [|h t IH]; intro H; [reflexivity|]. unfold pend. cbn. rewrite (H 0%nat h eq_refl). cbn.
  apply IH. intros j nd Hj. apply (H (S j)). exact Hj.
Qed.

Lemma pend_upd_head l i y x n : nth_error l i = Some y ->
  (forall j nd, (j < i)%nat -> nth_error l j = Some nd -> recs (nq nd) = []) ->
  recs (nq y) = n :: recs (nq x) -> pend l = n :: pend (upd l i x).
Proof.
  intros H D E. destruct (upd_split l i y x H) as (l1 & l2 & -> & Hl & ->).
  assert (P1 : pend l1 = []).
  { apply pend_nil. intros j nd Hj. apply (D j); [subst i; apply nth_error_Some; congruence|].
    rewrite nth_error_app1; [exact Hj|apply nth_error_Some; congruence]. }
  rewrite !pend_app, P1, !pend_cons. cbn. now rewrite E.
Qed.

Lemma map_upd_eq {A B} (f : A -> B) l i y x : nth_error l i = Some y -> f x = f y -> map f (upd l i x) = map f l.
Proof.
  intros H E. destruct (upd_split l i y x H) as (l1 & l2 & -> & _ & ->). rewrite !map_app. cbn. now rewrite E.
Qed.

Section SeqU.
Variables maxc pct : N.
Variable pr : pub_rule.
Variables recheck cbd : bool.
Notation ustep' := (ustep maxc pct pr recheck cbd).
Notation urun' := (urun maxc pct pr recheck cbd).

Record NodeP (p c j : nat) (nd : node) : Prop := {
  np_sinv : SInv (ncap nd) (nq nd);
  np_pow : pow2 (ncap nd);
  np_max : ncap nd <= maxc;
  np_next : nnext nd = if (j <? p)%nat then Some (S j) else None;
  np_freed : nfreed nd = (j <? c)%nat;
  np_aw : aw (nq nd) = wpos (nq nd);
  np_pos : allpos (recs (nq nd));
  np_drained : (j < c)%nat -> recs (nq nd) = [];
  np_fresh : (c < j)%nat -> rpos (nq nd) = 0 /\ ar (nq nd) = 0 /\ wcache (nq nd) = 0 /\ dirty (nq nd) = false;
  (* C09: with publish-on-drain, a consumer that committed its reads has published its position or has more to read *)
  np_pub : on_drain pr = true -> PubInv (nq nd) }.

Record UInv (s : uq) : Prop := {
  u_last : S (prod s) = length (nodes s);
  u_cons : (cons s <= prod s)%nat;
  u_node : forall j nd, nth_error (nodes s) j = Some nd -> NodeP (prod s) (cons s) j nd;
  u_uaf : uaf s = false;
  u_lost : lost s = [];
  u_fifo : consumed s ++ pend (nodes s) = written s;
  u_allocs : allocs s = map ncap (nodes s);
  u_frees : frees s = map ncap (firstn (cons s) (nodes s)) }.

(* A: one node changes, the producer and consumer stay where they are *)
Lemma inv_setnode s i y x u w cn :
  UInv s -> nth_error (nodes s) i = Some y ->
  NodeP (prod s) (cons s) i x -> ncap x = ncap y -> u = false ->
  cn ++ pend (upd (nodes s) i x) = w ->
  UInv {| nodes := upd (nodes s) i x; prod := prod s; cons := cons s; allocs := allocs s; frees := frees s;
          uaf := u; written := w; consumed := cn; lost := lost s |}.
Proof.
  intros I Hy NP Hc Hu Hf. destruct I.
  assert (Hi : (i < length (nodes s))%nat) by (apply nth_error_Some; congruence).
  constructor; cbn [nodes prod cons allocs frees uaf written consumed lost]; auto.
  - now rewrite upd_length.
  - intros j nd H. destruct (Nat.eq_dec i j) as [<-|NE].
    + rewrite nth_error_upd_same in H by exact Hi. now inversion H; subst.
    + rewrite nth_error_upd_other in H by exact NE. auto.
  - rewrite u_allocs0. symmetry. eapply map_upd_eq; eauto.
  - rewrite u_frees0, <- !firstn_map. f_equal. symmetry. eapply map_upd_eq; eauto.
Qed.

Lemma prod_node s : UInv s -> exists y, nth_error (nodes s) (prod s) = Some y.
Proof.
  intros I. destruct (nth_error (nodes s) (prod s)) eqn:E; [eauto|].
  apply nth_error_None in E. pose proof (u_last s I). lia.
Qed.

Lemma cons_node s : UInv s -> exists y, nth_error (nodes s) (cons s) = Some y.
Proof.
  intros I. destruct (nth_error (nodes s) (cons s)) eqn:E; [eauto|].
  apply nth_error_None in E. pose proof (u_last s I). pose proof (u_cons s I). lia.
Qed.

Lemma getn_eq s i y : nth_error (nodes s) i = Some y -> getn s i = y.
Proof. apply nth_of_nth_error. Qed.

Lemma setq_eq s i y q : nth_error (nodes s) i = Some y ->
  setq s i q = {| nodes := upd (nodes s) i (with_q y q); prod := prod s; cons := cons s; allocs := allocs s;
                  frees := frees s; uaf := uaf s || nfreed y; written := written s; consumed := consumed s; lost := lost s |}.
Proof. intro H. unfold setq, set_nodes. now rewrite (getn_eq _ _ _ H). Qed.

(* the producer's node is not freed, nor is the consumer's *)
Lemma prod_live s y : UInv s -> nth_error (nodes s) (prod s) = Some y -> nfreed y = false.
Proof. intros I H. rewrite (np_freed _ _ _ _ (u_node s I _ _ H)). apply Nat.ltb_ge. apply (u_cons s I). Qed.
Lemma cons_live s y : UInv s -> nth_error (nodes s) (cons s) = Some y -> nfreed y = false.
Proof. intros I H. rewrite (np_freed _ _ _ _ (u_node s I _ _ H)). apply Nat.ltb_irrefl. Qed.

(* a change of node i's queue that keeps its record list *)
Lemma inv_setq s i y q : UInv s -> nth_error (nodes s) i = Some y -> nfreed y = false ->
  NodeP (prod s) (cons s) i (with_q y q) -> recs q = recs (nq y) -> UInv (setq s i q).
Proof.
  intros I Hy Hf NP Hr. rewrite (setq_eq _ _ _ _ Hy). apply (inv_setnode s i y); auto.
  - rewrite Hf, (u_uaf s I). reflexivity.
  - rewrite (pend_upd_same _ _ y) by auto. apply (u_fifo s I).
Qed.

(* B: the producer links a new node behind its node and moves on *)
Lemma inv_link s y q c :
  UInv s -> nth_error (nodes s) (prod s) = Some y ->
  SInv (ncap y) q -> aw q = wpos q -> recs q = recs (nq y) ->
  rpos q = rpos (nq y) -> ar q = ar (nq y) -> wcache q = wcache (nq y) -> dirty q = dirty (nq y) ->
  next_pow2 c <= maxc ->
  UInv (link_new s q c).
Proof.
  intros I Hy Hs Ha Hr E1 E2 E3 E4 Hc. unfold link_new. rewrite (getn_eq _ _ _ Hy).
  pose proof (u_node s I _ _ Hy) as NP. pose proof (u_last s I) as HL. pose proof (u_cons s I) as HC.
  pose proof (prod_live s y I Hy) as Hfr.
  assert (Hp : (prod s < length (nodes s))%nat) by lia.
  constructor; cbn [nodes prod cons allocs frees uaf written consumed lost].
  - rewrite app_length, upd_length. cbn. lia.
  - lia.
  - intros j nd H. rewrite nth_error_snoc, upd_length in H.
    destruct (Nat.ltb_spec j (length (nodes s))) as [Hj|Hj].
    + destruct (Nat.eq_dec (prod s) j) as [<-|NE].
      * rewrite nth_error_upd_same in H by exact Hp. inversion H; subst nd. destruct NP.
        constructor; cbn [nq ncap nnext nfreed]; auto.
        -- assert (E : (prod s <? length (nodes s))%nat = true) by (apply Nat.ltb_lt; lia). rewrite E. f_equal. lia.
        -- now rewrite Hr.
        -- intro. rewrite Hr. auto.
        -- intro Hlt. destruct (np_fresh0 Hlt) as (? & ? & ? & ?). rewrite E1, E2, E3, E4. auto.
        -- intros Hd D. unfold PubInv in np_pub0. rewrite E1, E2, E3. rewrite E4 in D. auto.
      * rewrite nth_error_upd_other in H by exact NE. destruct (u_node s I _ _ H).
        constructor; auto. rewrite np_next0.
        assert (E : (j <? prod s)%nat = true) by (apply Nat.ltb_lt; lia).
        assert (E' : (j <? length (nodes s))%nat = true) by (apply Nat.ltb_lt; lia). now rewrite E, E'.
    + destruct (Nat.eqb_spec j (length (nodes s))) as [->|]; [|discriminate]. inversion H; subst nd.
      destruct (next_pow2_spec c) as [P _].
      constructor; cbn [mk_node nq ncap nnext nfreed bq_init aw wpos recs rpos ar wcache dirty]; auto.
      * apply sinv_init.
      * now rewrite Nat.ltb_irrefl.
      * symmetry. apply Nat.ltb_ge. lia.
      * constructor.
      * intros _ _. now left.
  - rewrite Hfr, (u_uaf s I). reflexivity.
  - apply (u_lost s I).
  - rewrite pend_app. rewrite (pend_upd_same _ _ y) by (cbn; auto). unfold pend at 2. cbn. rewrite app_nil_r.
    apply (u_fifo s I).
  - rewrite map_app, (map_upd_eq ncap _ _ y) by auto. cbn. now rewrite (u_allocs s I).
  - rewrite firstn_app, upd_length. replace (cons s - length (nodes s))%nat with 0%nat by lia.
    cbn [firstn]. rewrite app_nil_r, (u_frees s I), <- !firstn_map. f_equal. symmetry.
    apply (map_upd_eq ncap _ _ y); auto.
Qed.

Lemma inv_init c0 : next_pow2 c0 <= maxc -> UInv (uq_init c0).
Proof.
  intro H. destruct (next_pow2_spec c0) as [P _].
  constructor; cbn; auto.
  intros [|[|j]] nd E; cbn in E; try discriminate. inversion E; subst nd.
  constructor; cbn [mk_node nq ncap nnext nfreed bq_init aw wpos recs rpos ar wcache dirty]; auto.
  - apply sinv_init.
  - constructor.
  - intros _ _. now left.
Qed.

(* explicit forms of the primitive steps *)
Lemma finish_write_eq s y n : nth_error (nodes s) (prod s) = Some y ->
  uq_finish_write s n =
  {| nodes := upd (nodes s) (prod s) (with_q y (finish_write ideal (nq y) n)); prod := prod s; cons := cons s; allocs := allocs s;
     frees := frees s; uaf := uaf s || nfreed y; written := written s ++ [n]; consumed := consumed s; lost := lost s |}.
Proof. intro H. unfold uq_finish_write. rewrite (getn_eq _ _ _ H), (setq_eq _ _ _ _ H). reflexivity. Qed.

Lemma commit_write_eq s y : nth_error (nodes s) (prod s) = Some y ->
  uq_commit_write s = setq s (prod s) (commit_write (nq y)).
Proof. intro H. unfold uq_commit_write. now rewrite (getn_eq _ _ _ H). Qed.

Lemma finish_read_eq s y n : nth_error (nodes s) (cons s) = Some y ->
  uq_finish_read s n =
  {| nodes := upd (nodes s) (cons s) (with_q y (finish_read ideal (nq y) n)); prod := prod s; cons := cons s; allocs := allocs s;
     frees := frees s; uaf := uaf s || nfreed y; written := written s; consumed := consumed s ++ [n]; lost := lost s |}.
Proof. intro H. unfold uq_finish_read. rewrite (getn_eq _ _ _ H), (setq_eq _ _ _ _ H). reflexivity. Qed.

Lemma commit_read_eq s y : nth_error (nodes s) (cons s) = Some y ->
  uq_commit_read pct pr s = setq s (cons s) (commit_read ideal (batch_of pct (ncap y)) pr (nq y)).
Proof. intro H. unfold uq_commit_read. now rewrite (getn_eq _ _ _ H). Qed.

(* finish_write n + commit_write on a node that granted n *)
Lemma inv_write s y n : UInv s -> nth_error (nodes s) (prod s) = Some y -> 0 < n ->
  wpos (nq y) + n <= rcache (nq y) + ncap y ->
  UInv (uq_commit_write (uq_finish_write s n)).
Proof.
  intros I Hy Hn Hfit. pose proof (u_node s I _ _ Hy) as NP. pose proof (prod_live s y I Hy) as Hfr.
  assert (Hp : (prod s < length (nodes s))%nat) by (apply nth_error_Some; congruence).
  rewrite (finish_write_eq s y n Hy).
  set (y1 := with_q y (finish_write ideal (nq y) n)).
  match goal with |- UInv (uq_commit_write ?S) => set (S1 := S) end.
  assert (H1 : nth_error (nodes S1) (prod S1) = Some y1) by (apply nth_error_upd_same; exact Hp).
  rewrite (commit_write_eq S1 y1 H1), (setq_eq _ _ _ _ H1).
  cbn [S1 nodes prod cons allocs frees uaf written consumed lost]. rewrite upd_upd.
  apply (inv_setnode s (prod s) y); auto.
  - destruct NP. unfold y1. constructor; cbn [with_q nq ncap nnext nfreed]; auto.
    + apply sinv_commit_write, sinv_finish_write; auto.
    + cbn [commit_write finish_write recs]. apply Forall_app. split; auto.
    + intro. pose proof (u_cons s I). lia.
  - cbn [y1 with_q nfreed]. rewrite Hfr, (u_uaf s I). reflexivity.
  - rewrite (pend_upd_last _ _ y _ n); auto.
    + rewrite app_assoc. now rewrite (u_fifo s I).
    + apply (u_last s I).
Qed.

Lemma nodep_with_rcache p c j y v : NodeP p c j y -> (v = rcache (nq y) \/ v = ar (nq y)) ->
  NodeP p c j (with_q y (set_rcache (nq y) v)).
Proof.
  intros [] Hv. constructor; cbn [with_q set_rcache nq ncap nnext nfreed aw wpos recs rpos ar wcache dirty]; auto.
  now apply sinv_set_rcache.
Qed.

Lemma nodep_with_wcache p c y v : NodeP p c c y ->
  (v = wcache (nq y) \/ (wcache (nq y) = rpos (nq y) /\ v = aw (nq y))) ->
  NodeP p c c (with_q y (set_wcache (nq y) v)).
Proof.
  intros [] Hv. constructor; cbn [with_q set_wcache nq ncap nnext nfreed aw wpos recs rpos ar wcache dirty]; auto.
  - now apply sinv_set_wcache.
  - intro Hlt. lia.
  - intros Hd D. cbn [dirty ar rpos wcache] in *. specialize (np_pub0 Hd D).
    destruct Hv as [->|[E ->]]; [exact np_pub0|]. destruct np_pub0; [now left|congruence].
Qed.

(* what prepare_write leaves behind *)
Lemma inv_prepare_write s n : UInv s -> 0 < n ->
  UInv (fst (uq_prepare_write maxc s n)) /\
  written (fst (uq_prepare_write maxc s n)) = written s /\ consumed (fst (uq_prepare_write maxc s n)) = consumed s /\
  (forall off, snd (uq_prepare_write maxc s n) = WSome off ->
     exists y1, nth_error (nodes (fst (uq_prepare_write maxc s n))) (prod (fst (uq_prepare_write maxc s n))) = Some y1 /\
                wpos (nq y1) + n <= rcache (nq y1) + ncap y1).
Proof.
  intros I Hn. destruct (prod_node s I) as [y Hy]. pose proof (u_node s I _ _ Hy) as NP.
  pose proof (prod_live s y I Hy) as Hfr.
  assert (Hp : (prod s < length (nodes s))%nat) by (apply nth_error_Some; congruence).
  unfold uq_prepare_write. rewrite (getn_eq _ _ _ Hy).
  destruct (pw_inv (ncap y) (nq y) n (np_sinv _ _ _ _ NP)) as (_ & Hg & _ & _).
  destruct (pw_frame (ncap y) (nq y) n) as (v & Ev & Hv).
  destruct (prepare_write ideal (ncap y) (nq y) n) as [q1 r] eqn:E. cbn [fst snd] in *. subst q1.
  set (y1 := with_q y (set_rcache (nq y) v)).
  assert (NP1 : NodeP (prod s) (cons s) (prod s) y1) by (apply nodep_with_rcache; auto).
  assert (I1 : UInv (setq s (prod s) (set_rcache (nq y) v))) by (apply (inv_setq s (prod s) y); auto).
  assert (Hy1 : nth_error (nodes (setq s (prod s) (set_rcache (nq y) v))) (prod s) = Some y1).
  { rewrite (setq_eq _ _ _ _ Hy). cbn [nodes]. apply nth_error_upd_same; exact Hp. }
  assert (Ew : written (setq s (prod s) (set_rcache (nq y) v)) = written s) by (rewrite (setq_eq _ _ _ _ Hy); reflexivity).
  assert (Ec : consumed (setq s (prod s) (set_rcache (nq y) v)) = consumed s) by (rewrite (setq_eq _ _ _ _ Hy); reflexivity).
  assert (Epr : prod (setq s (prod s) (set_rcache (nq y) v)) = prod s) by (rewrite (setq_eq _ _ _ _ Hy); reflexivity).
  destruct r as [off|].
  - cbn [fst snd]. split; [exact I1|]. split; [exact Ew|]. split; [exact Ec|]. intros off' _.
    exists y1. rewrite Epr. split; [exact Hy1|]. destruct (Hg off eq_refl) as [Hfit _]. exact Hfit.
  - set (s1 := setq s (prod s) (set_rcache (nq y) v)) in *. unfold handle_full. rewrite Epr, (getn_eq _ _ _ Hy1).
    change (ncap y1) with (ncap y). change (nq y1) with (set_rcache (nq y) v).
    destruct (maxc <? grow_cap (ncap y) n) eqn:G.
    + destruct (maxc <? n); cbn [fst snd]; (split; [exact I1|]; split; [exact Ew|]; split; [exact Ec|]; intros; discriminate).
    + apply N.ltb_ge in G. destruct NP as [nps npp npm npn npf npa npo npd npr].
      pose proof (grow_cap_pow2 _ n npp) as Pc. pose proof (next_pow2_pow2 _ Pc) as Enp.
      destruct (grow_cap_spec (ncap y) n (pow2_ge1 _ npp)) as (Hge & _ & _ & _).
      assert (I2 : UInv (link_new s1 (commit_write (set_rcache (nq y) v)) (grow_cap (ncap y) n))).
      { rewrite <- Epr in Hy1. apply (inv_link s1 y1); auto.
        - apply sinv_commit_write. apply sinv_set_rcache; auto.
        - rewrite Enp. exact G. }
      set (s2 := link_new s1 (commit_write (set_rcache (nq y) v)) (grow_cap (ncap y) n)) in *.
      assert (Hl1 : length (nodes s1) = length (nodes s)) by (unfold s1; rewrite (setq_eq _ _ _ _ Hy); cbn [nodes]; apply upd_length).
      assert (Ep2 : prod s2 = length (nodes s)) by (unfold s2, link_new; cbn [prod]; exact Hl1).
      assert (Hy2 : nth_error (nodes s2) (prod s2) = Some (mk_node (grow_cap (ncap y) n))).
      { rewrite Ep2. unfold s2, link_new. cbn [nodes]. rewrite nth_error_snoc, upd_length, Hl1, Nat.ltb_irrefl, Nat.eqb_refl.
        now rewrite Enp. }
      rewrite (getn_eq _ _ _ Hy2). cbn [mk_node ncap nq].
      rewrite (pw_init _ _ Hge). cbn [fst snd].
      pose proof (u_node s2 I2 _ _ Hy2) as NP2.
      assert (I3 : UInv (setq s2 (prod s2) bq_init)).
      { apply (inv_setq s2 (prod s2) _ _ I2 Hy2); auto. }
      split; [exact I3|].
      rewrite (setq_eq _ _ _ _ Hy2). cbn [written consumed nodes prod].
      split; [unfold s2, link_new; cbn [written]; exact Ew|].
      split; [unfold s2, link_new; cbn [consumed]; exact Ec|].
      intros off' _. eexists. split.
      * apply nth_error_upd_same. apply nth_error_Some. congruence.
      * cbn [with_q mk_node nq ncap bq_init wpos rcache]. lia.
Qed.

Lemma firstn_snoc_nth {A} (l : list A) i y : nth_error l i = Some y -> firstn (S i) l = firstn i l ++ [y].
Proof.
  revert i; induction l as [|h t IH]; intros [|i] H; cbn in *; try discriminate.
  - now inversion H.
  - f_equal. now apply IH.
Qed.

(* C: the consumer leaves its (empty) node for the next one *)
Lemma inv_switch s y q j : UInv s -> cbd = true -> nth_error (nodes s) (cons s) = Some y -> nnext y = Some j ->
  recs (nq y) = [] -> SInv (ncap y) q -> aw q = wpos q -> recs q = [] -> (on_drain pr = true -> PubInv q) ->
  UInv {| nodes := upd (nodes s) (cons s) {| nq := q; ncap := ncap y; nnext := nnext y; nfreed := true |};
          prod := prod s; cons := j; allocs := allocs s; frees := frees s ++ [ncap y];
          uaf := uaf s || nfreed y || negb cbd; written := written s; consumed := consumed s; lost := lost s ++ recs q |}
  /\ j = S (cons s) /\ (j <= prod s)%nat.
Proof.
  intros I Hcbd Hy Hn Hr Hs Ha Hrq Hpub. pose proof (u_node s I _ _ Hy) as NP. pose proof (cons_live s y I Hy) as Hfr.
  pose proof (u_cons s I) as HC. pose proof (u_last s I) as HL.
  assert (Hc : (cons s < length (nodes s))%nat) by (apply nth_error_Some; congruence).
  assert (Hj : j = S (cons s) /\ (cons s < prod s)%nat).
  { rewrite (np_next _ _ _ _ NP) in Hn. destruct (Nat.ltb_spec (cons s) (prod s)); [|discriminate]. inversion Hn. auto. }
  destruct Hj as [-> Hlt]. split; [|split; [reflexivity|lia]].
  constructor; cbn [nodes prod cons allocs frees uaf written consumed lost].
  - now rewrite upd_length.
  - lia.
  - intros k nd H. destruct (Nat.eq_dec (cons s) k) as [<-|NE].
    + rewrite nth_error_upd_same in H by exact Hc. inversion H; subst nd. destruct NP.
      constructor; cbn [nq ncap nnext nfreed]; auto.
      * symmetry. apply Nat.ltb_lt. lia.
      * rewrite Hrq. constructor.
      * intro. lia.
    + rewrite nth_error_upd_other in H by exact NE. destruct (u_node s I _ _ H).
      constructor; auto.
      * rewrite np_freed0. destruct (Nat.ltb_spec k (cons s)), (Nat.ltb_spec k (S (cons s))); auto; lia.
      * intro. apply np_drained0. lia.
      * intro. apply np_fresh0. lia.
  - rewrite Hfr, (u_uaf s I), Hcbd. reflexivity.
  - rewrite (u_lost s I), Hrq. reflexivity.
  - rewrite (pend_upd_same _ _ y) by (cbn [nq]; auto; congruence). apply (u_fifo s I).
  - rewrite (u_allocs s I). symmetry. apply (map_upd_eq ncap _ _ y); auto.
  - rewrite (firstn_snoc_nth _ _ _ (nth_error_upd_same _ _ _ Hc)), map_app. cbn [map ncap].
    rewrite (u_frees s I), <- !firstn_map. do 2 f_equal. symmetry. apply (map_upd_eq ncap _ _ y); auto.
Qed.

(* bounded prepare_read on the consumer's node *)
Lemma bounded_read s y : UInv s -> nth_error (nodes s) (cons s) = Some y ->
  let q1 := fst (prepare_read ideal (ncap y) (nq y)) in
  let s1 := setq s (cons s) q1 in
  UInv s1 /\ nth_error (nodes s1) (cons s1) = Some (with_q y q1) /\
  prod s1 = prod s /\ cons s1 = cons s /\ written s1 = written s /\ consumed s1 = consumed s /\
  recs q1 = recs (nq y) /\
  (forall off, snd (prepare_read ideal (ncap y) (nq y)) = Some off -> rpos q1 < wcache q1) /\
  (snd (prepare_read ideal (ncap y) (nq y)) = None -> recs q1 = [] /\ wcache q1 = rpos q1 /\ aw q1 = rpos q1).
Proof.
  intros I Hy. cbv zeta. pose proof (u_node s I _ _ Hy) as NP. pose proof (cons_live s y I Hy) as Hfr.
  assert (Hc : (cons s < length (nodes s))%nat) by (apply nth_error_Some; congruence).
  destruct (prepare_read_frame (ncap y) (nq y)) as [Ef Hnone].
  destruct (empty_frame (nq y)) as (v & Ev & Hv & Hs & Hva). rewrite Ef, Ev.
  assert (NP1 : NodeP (prod s) (cons s) (cons s) (with_q y (set_wcache (nq y) v))) by (apply nodep_with_wcache; auto).
  split; [apply (inv_setq s (cons s) y); auto|].
  rewrite (setq_eq _ _ _ _ Hy). cbn [nodes prod cons written consumed set_wcache recs rpos wcache aw].
  split; [apply nth_error_upd_same; exact Hc|]. do 5 (split; [reflexivity|]). split.
  - intros off Hoff. assert (Hf : snd (empty (nq y)) <> true) by (intro E; apply Hnone in E; congruence).
    rewrite Hs in Hf. apply not_true_is_false, N.eqb_neq in Hf. destruct NP1 as [S1 _ _ _ _ _ _ _ _]. destruct S1.
    cbn [with_q set_wcache nq rpos wcache] in *. lia.
  - intro Hn. apply Hnone in Hn. rewrite Hs in Hn. apply N.eqb_eq in Hn.
    pose proof (Hva Hn) as Ea. destruct NP. destruct np_sinv0.
    split; [|split; congruence]. apply sum_pos_nil; auto. lia.
Qed.

Lemma inv_prepare_read s : UInv s -> cbd = true ->
  let s' := fst (uq_prepare_read pct pr recheck cbd s) in
  UInv s' /\ written s' = written s /\ consumed s' = consumed s /\
  (forall off, rr_off (snd (uq_prepare_read pct pr recheck cbd s)) = Some off ->
     exists y', nth_error (nodes s') (cons s') = Some y' /\ rpos (nq y') < wcache (nq y')).
Proof.
  intros I Hcbd. cbv zeta. destruct (cons_node s I) as [y Hy].
  destruct (bounded_read s y I Hy) as (I1 & Hy1 & Ep1 & Ec1 & Ew1 & Eco1 & Er1 & Hsome & Hnone).
  unfold uq_prepare_read. rewrite (getn_eq _ _ _ Hy).
  destruct (prepare_read ideal (ncap y) (nq y)) as [q1 r] eqn:E. cbn [fst snd] in *.
  set (s1 := setq s (cons s) q1) in *.
  destruct r as [off|].
  - cbn [fst snd rr_off]. split; [exact I1|]. split; [exact Ew1|]. split; [exact Eco1|].
    intros off' _. exists (with_q y q1). split; [exact Hy1|]. apply (Hsome off eq_refl).
  - destruct (Hnone eq_refl) as (Hr0 & Hwc & Haw).
    destruct (nnext y) as [j|] eqn:Hnx.
    2:{ cbn [fst snd rr_off]. split; [exact I1|]. split; [exact Ew1|]. split; [exact Eco1|]. intros; discriminate. }
    (* _read_next_queue *)
    unfold read_next. rewrite (getn_eq _ _ _ Hy1). cbn [with_q ncap nq nnext nfreed].
    set (y1 := with_q y q1) in *.
    destruct (bounded_read s1 y1 I1 Hy1) as (I2 & Hy2 & Ep2 & Ec2 & Ew2 & Eco2 & Er2 & Hsome2 & Hnone2).
    change (ncap y1) with (ncap y) in *. change (nq y1) with q1 in *.
    assert (X : exists q2 r2, (if recheck then prepare_read ideal (ncap y) q1 else (q1, None)) = (q2, r2) /\
              (r2 = None -> recs q2 = [] /\ SInv (ncap y) q2 /\ aw q2 = wpos q2) /\
              (forall off, r2 = Some off -> q2 = fst (prepare_read ideal (ncap y) q1) /\ snd (prepare_read ideal (ncap y) q1) = Some off)).
    { destruct recheck.
      - destruct (prepare_read ideal (ncap y) q1) as [q2 r2] eqn:E2. exists q2, r2. split; [reflexivity|]. cbn [fst snd] in *. split.
        + intro Hr2. subst r2. destruct (Hnone2 eq_refl) as (A & B & C).
          pose proof (u_node _ I2 _ _ Hy2) as NP2. destruct NP2. cbn [with_q nq ncap] in *. auto.
        + intros off Ho. auto.
      - exists q1, None. split; [reflexivity|]. split; [|intros; discriminate]. intros _.
        pose proof (u_node _ I1 _ _ Hy1) as NP1. destruct NP1. cbn [y1 with_q nq ncap] in *. auto. }
    destruct X as (q2 & r2 & EX & HXn & HXs). rewrite EX.
    destruct r2 as [off|].
    + destruct (HXs off eq_refl) as [-> Hso]. cbn [fst snd rr_off]. rewrite Ec1.
      split; [exact I2|]. rewrite Ec1 in Ew2, Eco2. split; [congruence|]. split; [congruence|].
      intros off' _. eexists. rewrite Ec1 in Hy2. split; [exact Hy2|]. cbn [with_q nq]. apply (Hsome2 off). exact Hso.
    + destruct (HXn eq_refl) as (Hr2 & Hs2 & Ha2).
      set (q3 := commit_read ideal (batch_of pct (ncap y)) pr q2).
      destruct (commit_read_fields (batch_of pct (ncap y)) pr q2) as (F1 & F2 & F3 & F4 & F5 & F6 & F7). fold q3 in F1, F2, F3, F4, F5, F6, F7.
      destruct (inv_switch s1 y1 q3 j I1 Hcbd Hy1 Hnx) as (I3 & Ej & Hjp).
      * cbn [y1 with_q nq]. exact Hr0.
      * apply sinv_commit_read. exact Hs2.
      * congruence.
      * congruence.
      * intro Hd. unfold q3. apply (commit_read_pub (ncap y) _ _ _ Hd Hs2).
      * cbn [y1 with_q ncap nnext nfreed] in I3.
        match type of I3 with UInv ?S => set (s3 := S) in * end.
        assert (Hj3 : exists y3, nth_error (nodes s3) (cons s3) = Some y3) by (apply cons_node; exact I3).
        destruct Hj3 as [y3 Hy3].
        destruct (bounded_read s3 y3 I3 Hy3) as (I4 & Hy4 & Ep4 & Ec4 & Ew4 & Eco4 & Er4 & Hsome4 & Hnone4).
        change (cons s3) with j in Hy3, I4, Hy4, Ep4, Ec4, Ew4, Eco4 |- *.
        rewrite (getn_eq _ _ _ Hy3).
        destruct (prepare_read ideal (ncap y3) (nq y3)) as [q4 r4] eqn:E4. cbn [fst snd rr_off] in *.
        split; [exact I4|]. split; [rewrite Ew4; exact Ew1|]. split; [rewrite Eco4; exact Eco1|].
        intros off Ho. eexists. rewrite Ec4. split; [exact Hy4|]. cbn [with_q nq]. apply (Hsome4 off). exact Ho.
Qed.

Lemma half_pow2_bound cap c : pow2 cap -> c <= cap / 2 -> next_pow2 c <= cap /\ (1 <= cap / 2 -> next_pow2 c <= cap / 2).
Proof.
  intros [k ->] H. destruct (N.eq_dec k 0) as [->|Hk].
  - cbn in H. assert (c = 0) by lia. subst. cbn. split; [lia|]. cbn. lia.
  - assert (E : 2 ^ k / 2 = 2 ^ (k - 1)).
    { replace k with (N.succ (k - 1)) at 1 by lia. rewrite N.pow_succ_r'. rewrite N.mul_comm, N.div_mul; lia. }
    rewrite E in *. pose proof (next_pow2_least c (k - 1) H).
    assert (2 ^ (k - 1) <= 2 ^ k) by (apply N.pow_le_mono_r; lia). split; [lia|auto].
Qed.

Definition okop (o : uop) : Prop := match o with UW n c => c = true /\ 0 < n | _ => True end.

Lemma inv_same_nodes s u : UInv s -> u = false -> UInv (set_nodes s (nodes s) u).
Proof. intros [] ->. constructor; cbn; auto. Qed.

Lemma ustep_inv s o : cbd = true -> okop o -> UInv s -> UInv (fst (ustep' s o)).
Proof.
  intros Hcbd Hok I. destruct o as [n c| | | | |c]; cbn [ustep].
  - destruct Hok as [-> Hn]. destruct (inv_prepare_write s n I Hn) as (I1 & Ew & Ec & Hg).
    destruct (uq_prepare_write maxc s n) as [s1 r] eqn:E. cbn [fst snd] in *.
    destruct r as [| |off]; cbn [fst]; try exact I1.
    destruct (Hg off eq_refl) as (y1 & Hy1 & Hfit). apply (inv_write s1 y1); auto.
  - destruct (prod_node s I) as [y Hy]. rewrite (commit_write_eq s y Hy). cbn [fst].
    apply (inv_setq s (prod s) y); auto; [apply (prod_live s y I Hy)|].
    destruct (u_node s I _ _ Hy). constructor; cbn [with_q commit_write nq ncap nnext nfreed aw wpos recs rpos ar wcache dirty]; auto.
    now apply sinv_commit_write.
  - destruct (inv_prepare_read s I Hcbd) as (I1 & Ew & Ec & Hsome).
    destruct (uq_prepare_read pct pr recheck cbd s) as [s1 r] eqn:E. cbn [fst snd] in *.
    destruct (rr_off r) as [off|] eqn:Er; cbn [fst]; [|exact I1].
    destruct (Hsome off eq_refl) as (y1 & Hy1 & Hlt).
    pose proof (u_node s1 I1 _ _ Hy1) as NP. pose proof (cons_live s1 y1 I1 Hy1) as Hfr.
    rewrite (getn_eq _ _ _ Hy1).
    assert (Hrec : exists x t, recs (nq y1) = x :: t).
    { destruct NP. destruct np_sinv0. destruct (recs (nq y1)) as [|x t]; [cbn in *; lia|eauto]. }
    destruct Hrec as (x & t & Hrec). rewrite Hrec. cbn [hd].
    rewrite (finish_read_eq s1 y1 x Hy1).
    apply (inv_setnode s1 (cons s1) y1); auto.
    + destruct NP. constructor; cbn [with_q nq ncap nnext nfreed]; auto.
      * eapply sinv_finish_read; eauto.
      * cbn [finish_read recs]. rewrite Hrec. cbn [tl]. rewrite Hrec in np_pos0. now inversion np_pos0.
      * intro; lia.
      * intro; lia.
      * intros _ D. cbn in D. discriminate.
    + rewrite Hfr, (u_uaf s1 I1). reflexivity.
    + rewrite <- (u_fifo s1 I1), <- app_assoc. f_equal. cbn [app]. symmetry.
      apply (pend_upd_head _ _ y1); auto.
      * intros j nd Hj Hnd. apply (np_drained _ _ _ _ (u_node s1 I1 _ _ Hnd)). exact Hj.
      * cbn [with_q nq finish_read recs]. rewrite Hrec. reflexivity.
  - destruct (cons_node s I) as [y Hy]. rewrite (commit_read_eq s y Hy). cbn [fst].
    destruct (commit_read_fields (batch_of pct (ncap y)) pr (nq y)) as (F1 & F2 & F3 & F4 & F5 & F6 & F7).
    apply (inv_setq s (cons s) y); auto; [apply (cons_live s y I Hy)|].
    destruct (u_node s I _ _ Hy). constructor; cbn [with_q nq ncap nnext nfreed]; auto; try congruence.
    + now apply sinv_commit_read.
    + intro; lia.
    + intro; lia.
    + intro Hd. now apply (commit_read_pub (ncap y)).
  - destruct (cons_node s I) as [y Hy]. unfold uq_empty. rewrite (getn_eq _ _ _ Hy).
    destruct (bounded_read s y I Hy) as (I1 & _). destruct (prepare_read_frame (ncap y) (nq y)) as [Ef _].
    rewrite Ef in I1. destruct (empty (nq y)) as [q1 e]. exact I1.
  - destruct (prod_node s I) as [y Hy]. unfold uq_shrink. rewrite (getn_eq _ _ _ Hy). cbn [fst].
    pose proof (prod_live s y I Hy) as Hfr. destruct (u_node s I _ _ Hy) as [nps npp npm npn npf npa npo npd npr].
    destruct (N.ltb_spec (ncap y / 2) c) as [Hlt|Hge].
    + apply inv_same_nodes; auto. rewrite Hfr, (u_uaf s I). reflexivity.
    + apply (inv_link s y); auto. destruct (half_pow2_bound _ _ npp Hge). lia.
Qed.

Lemma urun_inv ops : cbd = true -> forall s, Forall okop ops -> UInv s -> UInv (fst (urun' s ops)).
Proof.
  intro Hcbd. induction ops as [|o ops IH]; intros s Hok I; cbn [urun]; [exact I|].
  pose proof (Forall_inv Hok) as H1. pose proof (Forall_inv_tail Hok) as H2.
  pose proof (ustep_inv s o Hcbd H1 I) as I1.
  destruct (ustep' s o) as [s1 out]. specialize (IH s1 H2 I1). destruct (urun' s1 ops). exact IH.
Qed.

(* ------------------------------------------------------------------ theorems of the sequential layer *)
Lemma pend_nil_inv l : pend l = [] -> forall j nd, nth_error l j = Some nd -> recs (nq nd) = [].
Proof.
  induction l as [|h t IH]; intros H j nd Hj; [destruct j; discriminate|].
  rewrite pend_cons in H. apply app_eq_nil in H as [H1 H2]. destruct j; cbn in Hj; [inversion Hj; subst; auto|eauto].
Qed.

Lemma firstn_app_exact {A} (a b : list A) : firstn (length a) (a ++ b) = a.
Proof. rewrite firstn_app, Nat.sub_diag, firstn_all. cbn. apply app_nil_r. Qed.

(* the record the frame lemmas speak about: only the producer's cache of the reader position moved *)
Definition reloaded (s : uq) : uq :=
  let y := getn s (prod s) in setq s (prod s) (set_rcache (nq y) (ar (nq y))).

Lemma handle_full_grow s y n : UInv s -> nth_error (nodes s) (prod s) = Some y -> 0 < n ->
  grow_cap (ncap y) n <= maxc -> snd (handle_full maxc s n) = WSome 0.
Proof.
  intros I Hy Hn G. pose proof (u_node s I _ _ Hy) as NP. destruct NP as [nps npp npm npn npf npa npo npd npr npu].
  unfold handle_full. rewrite (getn_eq _ _ _ Hy).
  apply N.ltb_ge in G. rewrite G.
  pose proof (grow_cap_pow2 _ n npp) as Pc. pose proof (next_pow2_pow2 _ Pc) as Enp.
  destruct (grow_cap_spec (ncap y) n (pow2_ge1 _ npp)) as (Hge & _ & _ & _).
  set (s2 := link_new s (commit_write (nq y)) (grow_cap (ncap y) n)).
  assert (Hy2 : nth_error (nodes s2) (prod s2) = Some (mk_node (grow_cap (ncap y) n))).
  { unfold s2, link_new. cbn [nodes prod]. rewrite nth_error_snoc, upd_length, Nat.ltb_irrefl, Nat.eqb_refl. now rewrite Enp. }
  rewrite (getn_eq _ _ _ Hy2). cbn [mk_node ncap nq]. rewrite (pw_init _ _ Hge). reflexivity.
Qed.

Section Reach.
Variable c0 : N.
Hypothesis Hinit : next_pow2 c0 <= maxc.   (* the initial node does not exceed the maximum *)
Hypothesis Hcbd : cbd = true.               (* commit_read precedes delete (from the source) *)

Definition reach (ops : list uop) : uq := fst (urun' (uq_init c0) ops).

Lemma reach_inv ops : Forall okop ops -> UInv (reach ops).
Proof. intro H. apply urun_inv; auto. now apply inv_init. Qed.

(* FIFO, exactly once: what was consumed, followed by what is still in the nodes, is what was written *)
Theorem uq_fifo_seq ops : Forall okop ops -> let s := reach ops in
  consumed s ++ pend (nodes s) = written s /\ consumed s = firstn (length (consumed s)) (written s).
Proof.
  intros H s. pose proof (u_fifo s (reach_inv ops H)) as E. split; [exact E|]. rewrite <- E. symmetry. apply firstn_app_exact.
Qed.

(* old node first: whenever the consumer left a node, no record was left in it *)
Theorem uq_old_before_new_seq ops : Forall okop ops -> lost (reach ops) = [].
Proof. intro H. apply (u_lost _ (reach_inv ops H)). Qed.

(* no step touched a deleted node; the deleted nodes are exactly those before the consumer's, which is
   never ahead of the producer's *)
Theorem uq_no_uaf_seq ops : Forall okop ops -> let s := reach ops in
  uaf s = false /\ (cons s <= prod s)%nat /\
  forall j nd, nth_error (nodes s) j = Some nd -> nfreed nd = (j <? cons s)%nat.
Proof.
  intros H s. pose proof (reach_inv ops H) as I. split; [apply (u_uaf s I)|]. split; [apply (u_cons s I)|].
  intros j nd Hj. apply (np_freed _ _ _ _ (u_node s I _ _ Hj)).
Qed.

(* every node ever allocated is a power of two and at most the maximum; nodes are freed in allocation order *)
Theorem uq_alloc_bound_seq ops : Forall okop ops -> let s := reach ops in
  Forall (fun c => c <= maxc /\ pow2 c) (allocs s) /\ frees s = firstn (length (frees s)) (allocs s).
Proof.
  intros H s. pose proof (reach_inv ops H) as I. rewrite (u_allocs s I), (u_frees s I). split.
  - apply Forall_forall. intros c Hc. apply in_map_iff in Hc as (nd & <- & Hin).
    apply In_nth_error in Hin as [j Hj]. destruct (u_node s I _ _ Hj). auto.
  - rewrite map_length, firstn_length. rewrite <- firstn_map.
    pose proof (u_last s I). pose proof (u_cons s I). f_equal. lia.
Qed.

(* a record larger than the maximum capacity is rejected with the error, and nothing but the
   producer's cache of the reader position changes *)
Theorem uq_reject_seq ops n : Forall okop ops -> maxc < n -> let s := reach ops in
  uq_prepare_write maxc s n = (reloaded s, WThrow).
Proof.
  intros H Hn s. pose proof (reach_inv ops H) as I. destruct (prod_node s I) as [y Hy].
  destruct (u_node s I _ _ Hy) as [nps npp npm npn npf npa npo npd npr npu].
  assert (Hno : forall r, nofit ideal (ncap y) (wpos (nq y)) r n = true).
  { intro r. unfold nofit; cbn [a_sub ideal]. apply N.ltb_lt. lia. }
  unfold uq_prepare_write, reloaded. rewrite (getn_eq _ _ _ Hy).
  unfold prepare_write. rewrite Hno. cbn [wpos rcache]. rewrite Hno.
  change {| wpos := wpos (nq y); rcache := ar (nq y); rpos := rpos (nq y); wcache := wcache (nq y); aw := aw (nq y);
            ar := ar (nq y); recs := recs (nq y); dirty := dirty (nq y) |} with (set_rcache (nq y) (ar (nq y))).
  set (s1 := setq s (prod s) (set_rcache (nq y) (ar (nq y)))).
  assert (Hy1 : nth_error (nodes s1) (prod s1) = Some (with_q y (set_rcache (nq y) (ar (nq y))))).
  { unfold s1. rewrite (setq_eq _ _ _ _ Hy). cbn [nodes prod]. apply nth_error_upd_same. apply nth_error_Some. congruence. }
  unfold handle_full. rewrite (getn_eq _ _ _ Hy1). cbn [with_q ncap].
  destruct (grow_cap_spec (ncap y) n (pow2_ge1 _ npp)) as (Hge & _ & _ & _).
  assert (E1 : (maxc <? grow_cap (ncap y) n) = true) by (apply N.ltb_lt; lia).
  assert (E2 : (maxc <? n) = true) by (apply N.ltb_lt; lia). now rewrite E1, E2.
Qed.

(* a record that fits the maximum but would need a node larger than the maximum is deferred: the
   reservation fails, the caller blocks or drops, nothing but the producer's cache changes *)
Theorem uq_defer_seq ops n : Forall okop ops -> n <= maxc -> let s := reach ops in
  let y := getn s (prod s) in
  snd (prepare_write ideal (ncap y) (nq y) n) = None -> maxc < grow_cap (ncap y) n ->
  uq_prepare_write maxc s n = (reloaded s, WNone).
Proof.
  intros H Hn s y0 Hnone Hg. pose proof (reach_inv ops H) as I. destruct (prod_node s I) as [y Hy].
  unfold y0 in *. unfold uq_prepare_write, reloaded. rewrite (getn_eq _ _ _ Hy) in *.
  destruct (pw_none _ _ _ Hnone) as [Ef _].
  destruct (prepare_write ideal (ncap y) (nq y) n) as [q1 r]. cbn [fst snd] in *. subst q1 r.
  set (s1 := setq s (prod s) (set_rcache (nq y) (ar (nq y)))).
  assert (Hy1 : nth_error (nodes s1) (prod s1) = Some (with_q y (set_rcache (nq y) (ar (nq y))))).
  { unfold s1. rewrite (setq_eq _ _ _ _ Hy). cbn [nodes prod]. apply nth_error_upd_same. apply nth_error_Some. congruence. }
  unfold handle_full. rewrite (getn_eq _ _ _ Hy1). cbn [with_q ncap].
  assert (E1 : (maxc <? grow_cap (ncap y) n) = true) by (apply N.ltb_lt; lia).
  assert (E2 : (maxc <? n) = false) by (apply N.ltb_ge; lia). now rewrite E1, E2.
Qed.

(* and conversely a granted reservation never exceeds the maximum *)
Theorem uq_granted_le_max ops n off : Forall okop ops -> snd (uq_prepare_write maxc (reach ops) n) = WSome off -> n <= maxc.
Proof.
  intros H E. destruct (N.le_gt_cases n maxc) as [|Hgt]; auto.
  rewrite (uq_reject_seq ops n H Hgt) in E. discriminate.
Qed.

(* shrink(c): takes effect iff c <= capacity/2, and then the producer continues in a node of next_pow2 c *)
Theorem uq_shrink_effect_seq ops c : Forall okop ops -> let s := reach ops in
  (c <= producer_capacity s / 2 ->
     producer_capacity (uq_shrink s c) = next_pow2 c /\ allocs (uq_shrink s c) = allocs s ++ [next_pow2 c] /\
     next_pow2 c <= producer_capacity s /\ written (uq_shrink s c) = written s /\ consumed (uq_shrink s c) = consumed s) /\
  (producer_capacity s / 2 < c ->
     nodes (uq_shrink s c) = nodes s /\ prod (uq_shrink s c) = prod s /\ allocs (uq_shrink s c) = allocs s).
Proof.
  intros H s. pose proof (reach_inv ops H) as I. destruct (prod_node s I) as [y Hy].
  unfold producer_capacity, uq_shrink. rewrite (getn_eq _ _ _ Hy). split; intro Hc.
  - apply N.ltb_ge in Hc. rewrite Hc. unfold link_new, getn. cbn [nodes prod allocs written consumed].
    rewrite app_nth2; rewrite upd_length; [|lia]. rewrite Nat.sub_diag. cbn [nth mk_node ncap].
    repeat split; auto. apply N.ltb_ge in Hc. destruct (u_node s I _ _ Hy). apply half_pow2_bound; auto.
  - apply N.ltb_lt in Hc. rewrite Hc. cbn. auto.
Qed.

(* C09, unbounded clause: once the consumer has read everything written and has run commit_read since
   its last read, every record that is at most some power of two not exceeding the maximum is granted *)
Theorem uq_no_stall ops n m : on_drain pr = true -> Forall okop ops -> let s := reach ops in
  consumed s = written s -> dirty (nq (getn s (cons s))) = false -> 0 < n -> n <= 2 ^ m -> 2 ^ m <= maxc ->
  exists off, snd (uq_prepare_write maxc s n) = WSome off.
Proof.
  intros Hd H s Hall Hdirty Hn Hm Hmax. pose proof (reach_inv ops H) as I.
  destruct (prod_node s I) as [y Hy]. destruct (cons_node s I) as [yc Hyc]. rewrite (getn_eq _ _ _ Hyc) in Hdirty.
  pose proof (u_fifo s I) as Ef. rewrite Hall in Ef. rewrite <- (app_nil_r (written s)) in Ef at 2. apply app_inv_head in Ef.
  pose proof (pend_nil_inv _ Ef _ _ Hy) as Hr.
  destruct (u_node s I _ _ Hy) as [nps npp npm npn npf npa npo npd npr npu].
  assert (Hdy : dirty (nq y) = false).
  { destruct (Nat.eq_dec (cons s) (prod s)) as [E|NE]; [rewrite E in Hyc; congruence|].
    pose proof (u_cons s I). destruct npr as (_ & _ & _ & D); [lia|exact D]. }
  assert (Har : ar (nq y) = wpos (nq y)).
  { destruct nps. rewrite Hr in *. cbn [sum] in *. destruct (npu Hd Hdy) as [A|A]; lia. }
  unfold uq_prepare_write. rewrite (getn_eq _ _ _ Hy).
  destruct (prepare_write ideal (ncap y) (nq y) n) as [q1 [off|]] eqn:E; [eexists; reflexivity|].
  assert (Hn1 : snd (prepare_write ideal (ncap y) (nq y) n) = None) by (rewrite E; reflexivity).
  destruct (pw_none _ _ _ Hn1) as [Eq Hnf]. rewrite E in Eq. cbn [fst] in Eq. subst q1.
  unfold nofit in Hnf; cbn [a_sub ideal] in Hnf. apply N.ltb_lt in Hnf. rewrite Har in Hnf.
  assert (Hcn : ncap y < n) by lia.
  set (y1 := with_q y (set_rcache (nq y) (ar (nq y)))).
  assert (I1 : UInv (setq s (prod s) (set_rcache (nq y) (ar (nq y))))).
  { apply (inv_setq s (prod s) y); auto; [apply (prod_live s y I Hy)|]. apply nodep_with_rcache; auto. now apply (u_node s I). }
  assert (Hy1 : nth_error (nodes (setq s (prod s) (set_rcache (nq y) (ar (nq y))))) (prod (setq s (prod s) (set_rcache (nq y) (ar (nq y))))) = Some y1).
  { rewrite (setq_eq _ _ _ _ Hy). cbn [nodes prod]. apply nth_error_upd_same. apply nth_error_Some. congruence. }
  exists 0. apply (handle_full_grow _ y1 n I1 Hy1 Hn). cbn [y1 with_q ncap].
  destruct (grow_cap_spec (ncap y) n (pow2_ge1 _ npp)) as (_ & _ & _ & Hmin).
  destruct (grow_cap_pow2 _ n npp) as [a Ea]. destruct npp as [k Ek].
  destruct (N.eq_dec (grow_cap (ncap y) n) (2 * ncap y)) as [E2|NE2].
  - rewrite E2, Ek. rewrite Ek in Hcn. assert (Hk : 2 ^ k < 2 ^ m) by lia.
    apply N.pow_lt_mono_r_iff in Hk; [|lia]. rewrite <- N.pow_succ_r'.
    assert (2 ^ N.succ k <= 2 ^ m) by (apply N.pow_le_mono_r; lia). lia.
  - destruct (grow_cap_spec (ncap y) n ltac:(rewrite Ek; pose proof (pow2_pos k); lia)) as (_ & Hge2 & _ & _).
    rewrite Ea in *. pose proof (pow2_lt_twice a m n Hm ltac:(apply Hmin; lia)). lia.
Qed.
End Reach.
End SeqU.

(* ------------------------------------------------------------------ examples, refutations (sequential layer) *)
Definition pr_src := {| on_batch := true; on_drain := true |}.

(* non-vacuity: a history with a grow, a consumer switch, a shrink taking effect, a refusal at the cap and a rejection *)
Definition ex_ops := [UW 1000 true; UW 100 true; UR; UR; UCR; USh 256; UW 10 true; UR; UCR; UW 4000 true; UW 5000 true; UW 4096 true; UR; UR].
Example ex_ok : Forall okop ex_ops /\ next_pow2 1024 <= 4096.
Proof. split; [repeat constructor; cbn; lia|vm_compute; discriminate]. Qed.
Example ex_run :
  let s := fst (urun 4096 5 pr_src true true (uq_init 1024) ex_ops) in
  allocs s = [1024; 2048; 256; 4096] /\ frees s = [1024; 2048; 256] /\ consumed s = [1000; 100; 10; 4000] /\
  written s = [1000; 100; 10; 4000] /\ uaf s = false /\ lost s = [].
Proof. vm_compute. repeat split. Qed.

(* D13: when the maximum capacity is not a power of two, a record with prev_pow2(max) < n <= max is neither
   rejected nor ever accepted, even on an empty queue with a quiescent consumer: initial 1024, max 3000, n = 2500 *)
Fixpoint retry (k : nat) (s : uq) : uq :=
  match k with O => s | S k' => retry k' (fst (uq_prepare_write 3000 s 2500)) end.

Lemma retry_fix k : forall s, fst (uq_prepare_write 3000 s 2500) = s -> retry k s = s.
Proof. induction k; intros s E; cbn [retry]; auto. rewrite E. auto. Qed.

Example uq_nonpow2_refuted :
  let s := uq_init 1024 in
  consumed s = written s /\ dirty (nq (getn s (cons s))) = false /\ 2500 <= 3000 /\
  (forall k, snd (uq_prepare_write 3000 (retry k s) 2500) = WNone) /\
  snd (uq_prepare_write 3000 s 3001) = WThrow /\ snd (uq_prepare_write 3000 s 2048) = WSome 0.
Proof.
  cbv zeta. split; [reflexivity|]. split; [reflexivity|]. split; [vm_compute; discriminate|]. split; [|split; vm_compute; reflexivity].
  assert (F : fst (uq_prepare_write 3000 (fst (uq_prepare_write 3000 (uq_init 1024) 2500)) 2500) = fst (uq_prepare_write 3000 (uq_init 1024) 2500))
    by (vm_compute; reflexivity).
  intros [|k]; [vm_compute; reflexivity|]. cbn [retry]. rewrite (retry_fix k _ F). vm_compute. reflexivity.
Qed.

(* with a power-of-two maximum the same request is granted (4096) *)
Example uq_pow2_granted : snd (uq_prepare_write 4096 (uq_init 1024) 2500) = WSome 0.
Proof. vm_compute. reflexivity. Qed.

(* API discipline made visible: shrink() does not commit; a record finished but not committed before a
   shrink is never seen by the consumer (the frontend always calls finish_and_commit_write) *)
Example uq_shrink_uncommitted_loses :
  let s := fst (urun 4096 5 pr_src true true (uq_init 1024) [UW 5 false; USh 256; UW 1 true; UR; UR]) in
  consumed s = [1] /\ written s = [5; 1] /\ lost s = [5].
Proof. vm_compute. repeat split. Qed.

(* the rounding of a non-power-of-two initial capacity may exceed a non-power-of-two maximum: the premise
   next_pow2 initial <= max of the allocation bound is needed *)
Example uq_initial_rounding : allocs (uq_init 1500) = [2048] /\ 1500 <= 2000 /\ 2000 < 2048.
Proof. vm_compute. repeat split; discriminate. Qed.

(* deleting before commit_read: the model flags the access to the deleted node *)
Example uq_delete_first_uaf :
  uaf (fst (urun 4096 5 pr_src true false (uq_init 64) [UW 60 true; UW 60 true; UR; UR])) = true.
Proof. vm_compute. reflexivity. Qed.

(* ------------------------------------------------------------------ the two readable forms of the C09 premise *)
Corollary uq_no_stall_pow2 maxc pct pr recheck cbd c0 ops n :
  next_pow2 c0 <= maxc -> cbd = true -> on_drain pr = true -> Forall okop ops -> pow2 maxc ->
  let s := reach maxc pct pr recheck cbd c0 ops in
  consumed s = written s -> dirty (nq (getn s (cons s))) = false -> 0 < n -> n <= maxc ->
  exists off, snd (uq_prepare_write maxc s n) = WSome off.
Proof.
  intros Hi Hc Hd Hok [m Hm] s Ha Hdi Hn Hle. subst maxc.
  apply (uq_no_stall (2 ^ m) pct pr recheck cbd c0 Hi Hc ops n m); auto. lia.
Qed.

Corollary uq_no_stall_prev_pow2 maxc pct pr recheck cbd c0 ops n :
  next_pow2 c0 <= maxc -> cbd = true -> on_drain pr = true -> Forall okop ops -> 0 < maxc ->
  let s := reach maxc pct pr recheck cbd c0 ops in
  consumed s = written s -> dirty (nq (getn s (cons s))) = false -> 0 < n -> n <= 2 ^ N.log2 maxc ->
  exists off, snd (uq_prepare_write maxc s n) = WSome off.
Proof.
  intros Hi Hc Hd Hok Hm s Ha Hdi Hn Hle.
  apply (uq_no_stall maxc pct pr recheck cbd c0 Hi Hc ops n (N.log2 maxc)); auto.
  destruct (N.log2_spec maxc Hm). lia.
Qed.
