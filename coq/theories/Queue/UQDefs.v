(* M-UQ: executable model of quill::detail::UnboundedSPSCQueue
   (include/quill/core/UnboundedSPSCQueue.h).  Definitions only.

   - sequential layer: a list of nodes, each a bounded queue state of BQDefs (ideal arithmetic)
     with its capacity, `next` link and a freed flag; the methods prepare_write /
     _handle_full_queue / shrink / prepare_read / _read_next_queue / finish_* / commit_* / empty
     as functions, mirroring the code as it is now in /repo; composite ops UW/UCW/UR/UCR/UE/USh
     for the correspondence harness (harness/uq.cpp) and `uq_run_enc` for the extracted runner;
   - release/acquire layer: the two-thread transition system of BQDefs per node, plus the `next`
     atomic whose release message carries the producer's whole view of the old node. *)
From Coq Require Import List NArith Arith Bool.
From Quill Require Import Queue.BQDefs.
Import ListNotations.
Local Open Scope N_scope.

(* ------------------------------------------------------------------ capacities *)
(* next_power_of_two (MathUtilities.h), for values below max_power_of_two<size_t> *)
Definition next_pow2 (n : N) : N := if n =? 0 then 1 else 2 ^ N.log2_up n.

(* size_t capacity = cap * 2; while (capacity < nbytes) capacity = capacity * 2; *)
Fixpoint grow_loop (fuel : nat) (cap n : N) : N :=
  match fuel with
  | O => cap
  | S f => if cap <? n then grow_loop f (cap * 2) n else cap
  end.
Definition grow_cap (cap n : N) : N := grow_loop (S (N.to_nat (N.size n))) (cap * 2) n.

(* list update *)
Fixpoint upd {A} (l : list A) (i : nat) (x : A) : list A :=
  match l, i with
  | [], _ => []
  | _ :: t, O => x :: t
  | h :: t, S j => h :: upd t j x
  end.

(* ------------------------------------------------------------------ sequential layer *)
Record node := { nq : bq; ncap : N; nnext : option nat; nfreed : bool }.

Record uq := {
  nodes : list node;      (* every node ever allocated, in allocation order *)
  prod : nat;             (* _producer *)
  cons : nat;             (* _consumer *)
  allocs : list N;        (* capacity of every node allocated (constructor included) *)
  frees : list N;         (* capacity of every node deleted by the consumer *)
  uaf : bool;             (* some step touched a node after it was deleted *)
  written : list N;       (* ghost: size of every record finished by the producer, in order *)
  consumed : list N;      (* ghost: size of every record read by the consumer, in order *)
  lost : list N           (* ghost: records still unread in a node when the consumer left it *)
}.

Inductive wres := WThrow | WNone | WSome (off : N).
Record rres := { rr_off : option N; rr_alloc : bool; rr_new : N; rr_prev : N }.

Definition mk_node (c : N) : node := {| nq := bq_init; ncap := c; nnext := None; nfreed := false |}.
(* reading a node that does not exist counts as touching freed memory *)
Definition dnode : node := {| nq := bq_init; ncap := 0; nnext := None; nfreed := true |}.

Section USeq.
Variable maxc : N.        (* _max_capacity *)
Variable pct : N.         (* reader_store_percent of the nodes' bounded queues (5) *)
Variable pr : pub_rule.   (* guard of BoundedSPSCQueue::commit_read, from the source *)
Variable recheck : bool.  (* _read_next_queue calls prepare_read on the old node again *)
Variable cbd : bool.      (* commit_read on the old node comes before `delete _consumer` *)

Definition batch_of (C : N) : N := (C * pct) / 100.

Definition uq_init (c0 : N) : uq :=
  let c := next_pow2 c0 in
  {| nodes := [mk_node c]; prod := 0; cons := 0; allocs := [c]; frees := []; uaf := false;
     written := []; consumed := []; lost := [] |}.

Definition getn (s : uq) (i : nat) : node := nth i (nodes s) dnode.

Definition set_nodes (s : uq) (l : list node) (u : bool) : uq :=
  {| nodes := l; prod := prod s; cons := cons s; allocs := allocs s; frees := frees s; uaf := u;
     written := written s; consumed := consumed s; lost := lost s |}.

(* replace the bounded queue of node i (an access to node i) *)
Definition setq (s : uq) (i : nat) (q : bq) : uq :=
  let nd := getn s i in
  set_nodes s (upd (nodes s) i {| nq := q; ncap := ncap nd; nnext := nnext nd; nfreed := nfreed nd |})
            (uaf s || nfreed nd).

Definition producer_capacity (s : uq) : N := ncap (getn s (prod s)).
Definition capacity (s : uq) : N := ncap (getn s (cons s)).

(* allocate a node of capacity c behind node p, release-store it into p's `next`, switch the producer *)
Definition link_new (s : uq) (q : bq) (c : N) : uq :=
  let p := prod s in
  let nd := getn s p in
  let newi := length (nodes s) in
  let c' := next_pow2 c in    (* the Node constructor rounds up to a power of two *)
  {| nodes := upd (nodes s) p {| nq := q; ncap := ncap nd; nnext := Some newi; nfreed := nfreed nd |} ++ [mk_node c'];
     prod := newi; cons := cons s; allocs := allocs s ++ [c']; frees := frees s;
     uaf := uaf s || nfreed nd;
     written := written s; consumed := consumed s; lost := lost s |}.

(* _handle_full_queue(nbytes) *)
Definition handle_full (s : uq) (n : N) : uq * wres :=
  let nd := getn s (prod s) in
  let cap := grow_cap (ncap nd) n in
  if maxc <? cap then (if maxc <? n then (s, WThrow) else (s, WNone))
  else
    let s1 := link_new s (commit_write (nq nd)) cap in
    let nn := getn s1 (prod s1) in
    let (q2, r) := prepare_write ideal (ncap nn) (nq nn) n in
    (setq s1 (prod s1) q2, match r with Some off => WSome off | None => WNone end).

(* prepare_write(nbytes) *)
Definition uq_prepare_write (s : uq) (n : N) : uq * wres :=
  let nd := getn s (prod s) in
  let (q1, r) := prepare_write ideal (ncap nd) (nq nd) n in
  let s1 := setq s (prod s) q1 in
  match r with
  | Some off => (s1, WSome off)
  | None => handle_full s1 n
  end.

Definition uq_finish_write (s : uq) (n : N) : uq :=
  let s1 := setq s (prod s) (finish_write ideal (nq (getn s (prod s))) n) in
  {| nodes := nodes s1; prod := prod s1; cons := cons s1; allocs := allocs s1; frees := frees s1; uaf := uaf s1;
     written := written s1 ++ [n]; consumed := consumed s1; lost := lost s1 |}.

Definition uq_commit_write (s : uq) : uq := setq s (prod s) (commit_write (nq (getn s (prod s)))).

(* shrink(capacity) *)
Definition uq_shrink (s : uq) (c : N) : uq :=
  let nd := getn s (prod s) in
  if (ncap nd / 2) <? c then set_nodes s (nodes s) (uaf s || nfreed nd)
  else link_new s (nq nd) c.

(* _read_next_queue(next_node) *)
Definition read_next (s : uq) (j : nat) : uq * rres :=
  let c := cons s in
  let nd := getn s c in
  let (q1, r) := if recheck then prepare_read ideal (ncap nd) (nq nd) else (nq nd, None) in
  match r with
  | Some off => (setq s c q1, {| rr_off := Some off; rr_alloc := false; rr_new := 0; rr_prev := 0 |})
  | None =>
      let q2 := commit_read ideal (batch_of (ncap nd)) pr q1 in
      (* commit_read after delete would touch the freed node *)
      let s1 := {| nodes := upd (nodes s) c {| nq := q2; ncap := ncap nd; nnext := nnext nd; nfreed := true |};
                   prod := prod s; cons := j; allocs := allocs s; frees := frees s ++ [ncap nd];
                   uaf := uaf s || nfreed nd || negb cbd;
                   written := written s; consumed := consumed s; lost := lost s ++ recs q2 |} in
      let nn := getn s1 j in
      let (q3, r3) := prepare_read ideal (ncap nn) (nq nn) in
      (setq s1 j q3, {| rr_off := r3; rr_alloc := true; rr_new := ncap nn; rr_prev := ncap nd |})
  end.

(* prepare_read() *)
Definition uq_prepare_read (s : uq) : uq * rres :=
  let nd := getn s (cons s) in
  let (q1, r) := prepare_read ideal (ncap nd) (nq nd) in
  let s1 := setq s (cons s) q1 in
  match r with
  | Some off => (s1, {| rr_off := Some off; rr_alloc := false; rr_new := 0; rr_prev := 0 |})
  | None =>
      match nnext nd with
      | Some j => read_next s1 j
      | None => (s1, {| rr_off := None; rr_alloc := false; rr_new := 0; rr_prev := 0 |})
      end
  end.

Definition uq_finish_read (s : uq) (n : N) : uq :=
  let s1 := setq s (cons s) (finish_read ideal (nq (getn s (cons s))) n) in
  {| nodes := nodes s1; prod := prod s1; cons := cons s1; allocs := allocs s1; frees := frees s1; uaf := uaf s1;
     written := written s1; consumed := consumed s1 ++ [n]; lost := lost s1 |}.

Definition uq_commit_read (s : uq) : uq :=
  let nd := getn s (cons s) in setq s (cons s) (commit_read ideal (batch_of (ncap nd)) pr (nq nd)).

(* empty(): bounded empty() && next.load(relaxed) == nullptr *)
Definition uq_empty (s : uq) : uq * bool :=
  let nd := getn s (cons s) in
  let (q1, e) := empty (nq nd) in
  (setq s (cons s) q1, e && match nnext nd with None => true | Some _ => false end).

(* composite ops of the correspondence harness *)
Inductive uop :=
| UW (n : N) (commit : bool)   (* prepare_write n; if granted: fill, finish_write n, [commit_write] *)
| UCW                          (* commit_write *)
| UR                           (* prepare_read; if non-null: read the oldest record, finish_read its size *)
| UCR                          (* commit_read *)
| UE                           (* empty() *)
| USh (c : N).                 (* shrink(c) *)

Definition b2n (b : bool) : N := if b then 1 else 0.

(* observations: see harness/uq.cpp *)
Definition ustep (s : uq) (o : uop) : uq * list N :=
  match o with
  | UW n c =>
      let (s1, r) := uq_prepare_write s n in
      match r with
      | WSome off =>
          let s2 := uq_finish_write s1 n in
          let s3 := if c then uq_commit_write s2 else s2 in
          (s3, [1; off; producer_capacity s3; N.of_nat (length (allocs s3))])
      | WNone => (s1, [0; 0; producer_capacity s1; N.of_nat (length (allocs s1))])
      | WThrow => (s1, [2; 0; producer_capacity s1; N.of_nat (length (allocs s1))])
      end
  | UCW => (uq_commit_write s, [])
  | UR =>
      let (s1, r) := uq_prepare_read s in
      match rr_off r with
      | Some off =>
          let n := hd 0 (recs (nq (getn s1 (cons s1)))) in
          let s2 := uq_finish_read s1 n in
          (s2, [1; off; n; b2n (rr_alloc r); rr_new r; rr_prev r; capacity s2; N.of_nat (length (frees s2))])
      | None => (s1, [0; 0; 0; b2n (rr_alloc r); rr_new r; rr_prev r; capacity s1; N.of_nat (length (frees s1))])
      end
  | UCR => (uq_commit_read s, [])
  | UE => let (s1, e) := uq_empty s in (s1, [b2n e])
  | USh c => let s1 := uq_shrink s c in (s1, [producer_capacity s1; N.of_nat (length (allocs s1))])
  end.

Fixpoint urun (s : uq) (ops : list uop) : uq * list N :=
  match ops with
  | [] => (s, [])
  | o :: ops' => let (s1, out) := ustep s o in let (s2, outs) := urun s1 ops' in (s2, out ++ outs)
  end.
End USeq.

(* ------------------------------------------------------------------ encoded entry point
   case: uq <on_batch> <on_drain> <recheck> <commit_before_delete> <pct> <initial> <max> ops...
   ops : 0 n c = UW n c ; 1 = UCW ; 2 = UR ; 3 = UCR ; 4 = UE ; 5 c = USh c
   trailer: #allocs cap... #frees cap... 0 (live nodes after destruction) *)
Fixpoint udecode (fuel : nat) (l : list N) : list uop :=
  match fuel with
  | O => []
  | S f =>
    match l with
    | 0 :: n :: c :: r => UW n (negb (c =? 0)) :: udecode f r
    | 1 :: r => UCW :: udecode f r
    | 2 :: r => UR :: udecode f r
    | 3 :: r => UCR :: udecode f r
    | 4 :: r => UE :: udecode f r
    | 5 :: c :: r => USh c :: udecode f r
    | _ => []
    end
  end.

Definition uq_run_enc (l : list N) : list N :=
  match l with
  | ob :: od :: rc :: cb :: pct :: c0 :: maxc :: ops =>
      let pr := {| on_batch := negb (ob =? 0); on_drain := negb (od =? 0) |} in
      let (s, out) := urun maxc pct pr (negb (rc =? 0)) (negb (cb =? 0)) (uq_init c0) (udecode (length ops) ops) in
      out ++ [N.of_nat (length (allocs s))] ++ allocs s ++ [N.of_nat (length (frees s))] ++ frees s ++ [0]
  | _ => []
  end.

(* ------------------------------------------------------------------ UQRA: release/acquire layer
   One BQDefs.st per node (ideal positions, view model of DESIGN section 4, M-BQ) plus the `next`
   atomic of each node: initially null, stored at most once (by the producer when it leaves the
   node). A release store of `next` carries the producer's whole view of the node it leaves: the
   index of the newest message of its writer-position atomic (coherence floor for later loads of
   an acquiring reader) and the writer position itself (all bytes below it were written before).
   Every step that touches a node checks that the node has not been deleted. *)
Record uorders := { o_next_grow : mo; o_next_shrink : mo; o_next_load : mo }.
Record ucfg := { u_ord : orders; u_nord : uorders;
                 u_recheck : bool;   (* _read_next_queue reads the old node again before leaving it *)
                 u_cbd : bool }.     (* commit_read on the old node precedes its deletion *)
Definition usufficient (c : ucfg) : bool :=
  sufficient (u_ord c) && is_rel (o_next_grow (u_nord c)) && is_rel (o_next_shrink (u_nord c)) &&
  is_acq (o_next_load (u_nord c)) && u_recheck c && u_cbd c.

Record rnode := { rn_st : st; rn_cap : N; rn_next : option (nat * (nat * N)); rn_freed : bool }.
Inductive cstage := CIdle | CNext (j : nat) | CChecked (j : nat).

Record ruq := {
  rnodes : list rnode; rprod : nat; rcons : nat;
  cstg : cstage;          (* where the consumer is inside prepare_read / _read_next_queue *)
  cfloor : nat;           (* coherence floor the consumer got for the writer-position atomic of its node *)
  ruaf : bool;
  rallocs : list N;
  wglog : list (nat * (N * N));   (* ghost: every record written (node, start, len), in program order of the producer *)
  cglog : list (nat * (N * N));   (* ghost: every record read, in program order of the consumer *)
  rlost : list (nat * (N * N))    (* ghost: records of a node not yet read when the consumer left it *)
}.

Definition drnode : rnode := {| rn_st := ra_init; rn_cap := 0; rn_next := None; rn_freed := true |}.
Definition mk_rnode (c : N) (g : option N) : rnode :=
  {| rn_st := upd_p ra_init 0 0 0%nat 0 g [(0, 0)] [] false; rn_cap := c; rn_next := None; rn_freed := false |}.

Definition ruq_init (c0 : N) : ruq :=
  {| rnodes := [mk_rnode (next_pow2 c0) None]; rprod := 0; rcons := 0; cstg := CIdle; cfloor := 0; ruaf := false;
     rallocs := [next_pow2 c0]; wglog := []; cglog := []; rlost := [] |}.

Inductive rop :=
| UPAskCached (n : N)           (* bounded prepare_write on the producer's node, cached reader position *)
| UPAskLoad (n : N) (i : nat)   (* ... reload of the reader position, reading message i *)
| UPWrite                       (* memcpy, finish_write, commit_write *)
| UPGrow (n : N)                (* _handle_full_queue: commit old node, allocate, release-store next, switch, reserve *)
| UPShrink (c : N)              (* shrink *)
| UCLoad (i : nat)              (* bounded empty() load on the consumer's node, reading message i *)
| UCRead                        (* read + finish_read *)
| UCCommit (pub : bool)         (* commit_read *)
| UCLoadNext (newest : bool)    (* load of `next`: null (stale or really null) or the stored pointer *)
| UCRecheck (i : nat)           (* _read_next_queue: prepare_read on the old node again *)
| UCSwitch (pub : bool).        (* commit_read, delete, switch to the next node *)

Section URA.
Variable maxc : N.
Variable cfg : ucfg.
Notation ord := (u_ord cfg).

Definition rget (s : ruq) (i : nat) : rnode := nth i (rnodes s) drnode.

Definition with_nodes (s : ruq) (l : list rnode) (u : bool) : ruq :=
  {| rnodes := l; rprod := rprod s; rcons := rcons s; cstg := cstg s; cfloor := cfloor s; ruaf := u;
     rallocs := rallocs s; wglog := wglog s; cglog := cglog s; rlost := rlost s |}.

Definition set_st (nd : rnode) (x : st) : rnode :=
  {| rn_st := x; rn_cap := rn_cap nd; rn_next := rn_next nd; rn_freed := rn_freed nd |}.

(* node i is accessed and its queue state becomes x *)
Definition rset (s : ruq) (i : nat) (x : st) : ruq :=
  let nd := rget s i in with_nodes s (upd (rnodes s) i (set_st nd x)) (ruaf s || rn_freed nd).

Definition node_step (s : ruq) (i : nat) (o : op) : ruq :=
  let nd := rget s i in rset s i (step (rn_cap nd) ord (rn_st nd) o).

Definition with_stage (s : ruq) (g : cstage) : ruq :=
  {| rnodes := rnodes s; rprod := rprod s; rcons := rcons s; cstg := g; cfloor := cfloor s; ruaf := ruaf s;
     rallocs := rallocs s; wglog := wglog s; cglog := cglog s; rlost := rlost s |}.

(* commit_write again (the store _handle_full_queue performs on the node it leaves) *)
Definition recommit (x : st) : st :=
  upd_p x (r_wpos x) (r_rcache x) (p_seen x) (p_know x) (granted x)
        (histW x ++ [(r_wpos x, if is_rel (o_cw_store ord) then r_wpos x else 0)]) (wlog x) (race x).

(* allocate a node behind the producer's node (whose state becomes x), store `next` with order m, switch *)
Definition rlink (s : ruq) (x : st) (m : mo) (c : N) (g : option N) : ruq :=
  let p := rprod s in
  let nd := rget s p in
  let newi := length (rnodes s) in
  let view := if is_rel m then (Nat.pred (length (histW x)), r_wpos x) else (0%nat, 0) in
  {| rnodes := upd (rnodes s) p {| rn_st := x; rn_cap := rn_cap nd; rn_next := Some (newi, view); rn_freed := rn_freed nd |}
               ++ [mk_rnode (next_pow2 c) g];
     rprod := newi; rcons := rcons s; cstg := cstg s; cfloor := cfloor s; ruaf := ruaf s || rn_freed nd;
     rallocs := rallocs s ++ [next_pow2 c]; wglog := wglog s; cglog := cglog s; rlost := rlost s |}.

Definition is_idle (g : cstage) : bool := match g with CIdle => true | _ => false end.

(* may the consumer leave its node now, and for which node *)
Definition can_switch (g : cstage) : option nat :=
  match g with
  | CChecked j => Some j
  | CNext j => if u_recheck cfg then None else Some j
  | CIdle => None
  end.

Definition valid_cload (s : ruq) (x : st) (i : nat) : bool :=
  Nat.leb (c_seen x) i && Nat.leb (cfloor s) i &&
  match nth_error (histW x) i with Some _ => true | None => false end.

Definition rstep (s : ruq) (o : rop) : ruq :=
  let p := rprod s in let c := rcons s in
  match o with
  | UPAskCached n => if n =? 0 then s else node_step s p (PAskCached n)
  | UPAskLoad n i => if n =? 0 then s else node_step s p (PAskLoad n i)
  | UPWrite =>
      let x := rn_st (rget s p) in
      match granted x with
      | None => s
      | Some n =>
          let s1 := node_step s p PWriteFinishCommit in
          {| rnodes := rnodes s1; rprod := rprod s1; rcons := rcons s1; cstg := cstg s1; cfloor := cfloor s1; ruaf := ruaf s1;
             rallocs := rallocs s1; wglog := wglog s1 ++ [(p, (r_wpos x, n))]; cglog := cglog s1; rlost := rlost s1 |}
      end
  | UPGrow n =>
      let nd := rget s p in
      let x := rn_st nd in
      match granted x with
      | Some _ => s
      | None =>
          if n =? 0 then s else
          let cap := grow_cap (rn_cap nd) n in
          if maxc <? cap then with_nodes s (rnodes s) (ruaf s || rn_freed nd)   (* throw / nullptr: nothing shared changes *)
          else rlink s (recommit x) (o_next_grow (u_nord cfg)) cap (Some n)
      end
  | UPShrink c0 =>
      let nd := rget s p in
      let x := rn_st nd in
      match granted x with
      | Some _ => s
      | None =>
          if (rn_cap nd / 2) <? c0 then with_nodes s (rnodes s) (ruaf s || rn_freed nd)
          else rlink s x (o_next_shrink (u_nord cfg)) c0 None
      end
  | UCLoad i =>
      if is_idle (cstg s) then
        let x := rn_st (rget s c) in
        if valid_cload s x i then node_step s c (CLoad i) else s
      else s
  | UCRead =>
      if is_idle (cstg s) then
        let x := rn_st (rget s c) in
        let s1 := node_step s c CRead in
        let x1 := rn_st (rget s1 c) in
        if Nat.eqb (nread x1) (S (nread x)) then
          {| rnodes := rnodes s1; rprod := rprod s1; rcons := rcons s1; cstg := cstg s1; cfloor := cfloor s1; ruaf := ruaf s1;
             rallocs := rallocs s1; wglog := wglog s1; cglog := cglog s1 ++ [(c, nth (nread x) (wlog x) (0, 0))]; rlost := rlost s1 |}
        else s1
      else s
  | UCCommit pub => if is_idle (cstg s) then node_step s c (CCommit pub) else s
  | UCLoadNext newest =>
      if is_idle (cstg s) then
        let nd := rget s c in
        let x := rn_st nd in
        let s0 := with_nodes s (rnodes s) (ruaf s || rn_freed nd) in
        match newest, rn_next nd with
        | true, Some (j, (vs, vk)) =>
            if is_acq (o_next_load (u_nord cfg)) then
              let x1 := upd_c x (r_rpos x) (r_wcache x) (c_seen x) (N.max (c_know x) vk) (histR x) (nread x) (race x) in
              let s1 := rset s c x1 in
              {| rnodes := rnodes s1; rprod := rprod s1; rcons := rcons s1; cstg := CNext j; cfloor := Nat.max (cfloor s1) vs;
                 ruaf := ruaf s1; rallocs := rallocs s1; wglog := wglog s1; cglog := cglog s1; rlost := rlost s1 |}
            else with_stage s0 (CNext j)
        | _, _ => s0
        end
      else s
  | UCRecheck i =>
      match cstg s with
      | CNext j =>
          if u_recheck cfg then
            let x := rn_st (rget s c) in
            if r_wcache x =? r_rpos x then
              if valid_cload s x i then
                let s1 := node_step s c (CLoad i) in
                let x1 := rn_st (rget s1 c) in
                with_stage s1 (if r_wcache x1 =? r_rpos x1 then CChecked j else CIdle)
              else s
            else with_stage (rset s c x) CIdle
          else s
      | _ => s
      end
  | UCSwitch pub =>
      match can_switch (cstg s) with
      | None => s
      | Some j =>
          let nd := rget s c in
          let x := rn_st nd in
          let x1 := step (rn_cap nd) ord x (CCommit pub) in
          {| rnodes := upd (rnodes s) c {| rn_st := x1; rn_cap := rn_cap nd; rn_next := rn_next nd; rn_freed := true |};
             rprod := rprod s; rcons := j; cstg := CIdle; cfloor := 0;
             ruaf := ruaf s || rn_freed nd || negb (u_cbd cfg);
             rallocs := rallocs s; wglog := wglog s; cglog := cglog s;
             rlost := rlost s ++ map (pair c) (skipn (nread x) (wlog x)) |}
      end
  end.

Definition rrun (c0 : N) (ops : list rop) : ruq := fold_left rstep ops (ruq_init c0).
End URA.
