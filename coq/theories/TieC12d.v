(* T-src tie for C12d (which line each sink is handed): the skeletons of
   BackendWorker::_write_log_statement, _process_multi_line_message and
   _dispatch_transit_event_to_sinks regenerated from /repo on every run (tools/srcfacts.py,
   c12d_facts) are the ones M-PATD (Format/PatDispatch.v) was written against, and the declaration
   `std::string_view log_to_write = log_statement;` sits inside the per-sink loop body, before the
   override test (SrcFacts.be_log_to_write_reinit_per_sink): the model variant that stands for the
   code is  hoist = negb be_log_to_write_reinit_per_sink = false. *)
From Coq Require Import String List Bool.
From QuillGen Require SrcFacts.
From Quill Require Import Format.PatFmt Format.PatModel Format.PatProofs Format.PatDispatch Format.PatDispatchProofs.
Import ListNotations.
Local Open Scope string_scope.

Definition exp_c12d_write_log_statement : list string := [
    "DECL std::string_view const log_statement = transit_event.logger_base->pattern_formatter->format( transit_event.timestamp, thread_id, thread_name, _process_id, transit_event.logger_base->logger_name, log_level_description, log_level_short_code, *transit_event.macro_metadata, transit_event.named_args.get(), log_message);";
    "FOR for (auto& sink : transit_event.logger_base->sinks)";
    "  IF sink->apply_all_filters(transit_event.macro_metadata, transit_event.timestamp, thread_id, thread_name, transit_event.logger_base->logger_name, transit_event.log_level(), log_message, log_statement)";
    "    DECL std::string_view log_to_write = log_statement;";
    "    IF sink->_override_pattern_formatter_options";
    "      IF !sink->_override_pattern_formatter";
    "        EXPR sink->_override_pattern_formatter = std::make_shared<PatternFormatter>(*sink->_override_pattern_formatter_options)";
    "      EXPR log_to_write = sink->_override_pattern_formatter->format( transit_event.timestamp, thread_id, thread_name, _process_id, transit_event.logger_base->logger_name, log_level_description, log_level_short_code, *transit_event.macro_metadata, transit_event.named_args.get(), log_message)";
    "    EXPR sink->write_log(transit_event.macro_metadata, transit_event.timestamp, thread_id, thread_name, _process_id, transit_event.logger_base->logger_name, transit_event.log_level(), log_level_description, log_level_short_code, transit_event.named_args.get(), log_message, log_to_write)"].

Definition exp_c12d_process_multi_line_message : list string := [
    "DECL auto const msg = std::string_view{transit_event.formatted_msg->data(), transit_event.formatted_msg->size()};";
    "IF QUILL_UNLIKELY(msg.empty())";
    "  EXPR _write_log_statement(transit_event, thread_id, thread_name, log_level_description, log_level_short_code, msg)";
    "  RET return";
    "DECL size_t start = 0;";
    "WHILE start < msg.size()";
    "  DECL size_t const end = msg.find_first_of('\n', start);";
    "  IF end == std::string_view::npos";
    "    EXPR _write_log_statement(transit_event, thread_id, thread_name, log_level_description, log_level_short_code, std::string_view(msg.data() + start, msg.size() - start))";
    "    BREAK";
    "  EXPR _write_log_statement(transit_event, thread_id, thread_name, log_level_description, log_level_short_code, std::string_view(msg.data() + start, end - start))";
    "  EXPR start = end + 1"].

Definition exp_c12d_dispatch_transit_event_to_sinks : list string := [
    "IF QUILL_UNLIKELY(!transit_event.logger_base->pattern_formatter)";
    "  EXPR _logger_manager.for_each_logger( [&transit_event](LoggerBase* logger) { if (logger->pattern_formatter && (logger->pattern_formatter->get_options() == transit_event.logger_base->pattern_formatter_options)) { transit_event.logger_base->pattern_formatter = logger->pattern_formatter; return true; } return false; })";
    "  IF !transit_event.logger_base->pattern_formatter";
    "    EXPR transit_event.logger_base->pattern_formatter = std::make_shared<PatternFormatter>(transit_event.logger_base->pattern_formatter_options)";
    "EXPR assert";
    "DECL std::string_view const log_level_description = log_level_to_string(transit_event.log_level(), _options.log_level_descriptions.data(), _options.log_level_descriptions.size());";
    "DECL std::string_view const log_level_short_code = log_level_to_string(transit_event.log_level(), _options.log_level_short_codes.data(), _options.log_level_short_codes.size());";
    "IF transit_event.logger_base->pattern_formatter->get_options().add_metadata_to_multi_line_logs && (!transit_event.named_args || transit_event.named_args->empty())";
    "  EXPR _process_multi_line_message(transit_event, thread_id, thread_name, log_level_description, log_level_short_code)";
    "ELSE";
    "  DECL size_t const log_message_size = ((transit_event.formatted_msg->size() > 0) && (transit_event.formatted_msg->data()[transit_event.formatted_msg->size() - 1] == '\n')) ? transit_event.formatted_msg->size() - 1 : transit_event.formatted_msg->size();";
    "  EXPR _write_log_statement(transit_event, thread_id, thread_name, log_level_description, log_level_short_code, std::string_view{transit_event.formatted_msg->data(), log_message_size})"].

(* the hoisting flag of the model that corresponds to the source *)
Definition src_hoist : bool := negb SrcFacts.be_log_to_write_reinit_per_sink.

Lemma src_log_to_write_reinit_per_sink : SrcFacts.be_log_to_write_reinit_per_sink = true.
Proof. vm_compute. reflexivity. Qed.

Lemma src_hoist_false : src_hoist = false.
Proof. vm_compute. reflexivity. Qed.

Lemma c12d_skeletons_ok :
  SrcFacts.sk_c12d_write_log_statement = exp_c12d_write_log_statement /\
  SrcFacts.sk_c12d_process_multi_line_message = exp_c12d_process_multi_line_message /\
  SrcFacts.sk_c12d_dispatch_transit_event_to_sinks = exp_c12d_dispatch_transit_event_to_sinks.
Proof. vm_compute. repeat split; reflexivity. Qed.

(* the characterisation of the event for the variant the source selects *)
Lemma dispatch_spec_code_variant v apply_spec lp am ss st lv :
  wfv v lp -> print lp <> [] -> Forall (ssink_wf v) ss ->
  dispatch_event src_hoist v apply_spec {| po_pattern := print lp; po_add_meta := am |}
                 (map to_sink ss) st lv
  = (spec_writes v apply_spec lp am ss st lv, None).
Proof. rewrite src_hoist_false. apply dispatch_spec. Qed.

(* the logger's own formatter: _dispatch_transit_event_to_sinks lets loggers with EQUAL PatternFormatterOptions share one
   PatternFormatter object; M-PATD formats with the logger's own options, which is what the code does only if equality
   of the options compares every data member (format pattern, timestamp pattern, time zone, multi-line flag) *)
Lemma src_pfo_eq_compares_every_member : SrcFacts.pfo_eq_compares_every_member = true.
Proof. vm_compute. reflexivity. Qed.
Lemma src_pfo_members : SrcFacts.sk_pfo_members =
  ["add_metadata_to_multi_line_logs"; "format_pattern"; "timestamp_pattern"; "timestamp_timezone"].
Proof. vm_compute. reflexivity. Qed.
