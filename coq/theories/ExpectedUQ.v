(* Expected skeletons of UnboundedSPSCQueue: the shape of the source that Queue/UQDefs.v mirrors, frozen by hand
   (kept apart from Expected.v). TieC02.v proves QuillGen.SrcFacts.sk_uq_* = these. *)
From Coq Require Import String List.
Import ListNotations.
Local Open Scope string_scope.
Definition sk_uq__handle_full_queue : list string := [
    "DECL size_t capacity = _producer->bounded_queue.capacity() * 2ull;";
    "WHILE capacity < nbytes";
    "  EXPR capacity = capacity * 2ull";
    "IF QUILL_UNLIKELY(capacity > _max_capacity)";
    "  IF nbytes > _max_capacity";
    "    EXPR QUILL_THROW(QuillError)";
    "  RET return nullptr";
    "EXPR _producer->bounded_queue.commit_write()";
    "DECL auto const next_node = new Node{capacity, _producer->bounded_queue.huge_pages_policy()};";
    "EXPR _producer->next.store(next_node, std::memory_order_release)";
    "  ATOMIC _producer->next store [memory_order_release]";
    "EXPR _producer = next_node";
    "DECL std::byte* const write_pos = _producer->bounded_queue.prepare_write(nbytes);";
    "EXPR assert(write_pos && ""write_pos is nullptr"")";
    "RET return write_pos"].
Definition sk_uq__read_next_queue : list string := [
    "DECL ReadResult read_result{_consumer->bounded_queue.prepare_read()};";
    "IF read_result.read_pos";
    "  RET return read_result";
    "EXPR _consumer->bounded_queue.commit_read()";
    "DECL auto const previous_capacity = _consumer->bounded_queue.capacity();";
    "EXPR delete _consumer";
    "EXPR _consumer = next_node";
    "EXPR read_result.read_pos = _consumer->bounded_queue.prepare_read()";
    "EXPR read_result.allocation = true";
    "EXPR read_result.new_capacity = _consumer->bounded_queue.capacity()";
    "EXPR read_result.previous_capacity = previous_capacity";
    "RET return read_result"].
Definition sk_uq_capacity : list string := [
    "RET return _consumer->bounded_queue.capacity()"].
Definition sk_uq_commit_read : list string := [
    "EXPR _consumer->bounded_queue.commit_read()"].
Definition sk_uq_commit_write : list string := [
    "EXPR _producer->bounded_queue.commit_write()"].
Definition sk_uq_empty : list string := [
    "RET return _consumer->bounded_queue.empty() && (_consumer->next.load(std::memory_order_relaxed) == nullptr)";
    "  ATOMIC _consumer->next load [memory_order_relaxed]"].
Definition sk_uq_finish_and_commit_write : list string := [
    "EXPR finish_write(nbytes)";
    "EXPR commit_write()"].
Definition sk_uq_finish_read : list string := [
    "EXPR _consumer->bounded_queue.finish_read(nbytes)"].
Definition sk_uq_finish_write : list string := [
    "EXPR _producer->bounded_queue.finish_write(nbytes)"].
Definition sk_uq_prepare_read : list string := [
    "DECL ReadResult read_result{_consumer->bounded_queue.prepare_read()};";
    "IF read_result.read_pos != nullptr";
    "  RET return read_result";
    "DECL Node* const next_node = _consumer->next.load(std::memory_order_acquire);";
    "  ATOMIC _consumer->next load [memory_order_acquire]";
    "IF next_node";
    "  RET return _read_next_queue(next_node)";
    "RET return read_result"].
Definition sk_uq_prepare_write : list string := [
    "DECL std::byte* write_pos = _producer->bounded_queue.prepare_write(nbytes);";
    "IF QUILL_LIKELY(write_pos != nullptr)";
    "  RET return write_pos";
    "RET return _handle_full_queue(nbytes)"].
Definition sk_uq_producer_capacity : list string := [
    "RET return _producer->bounded_queue.capacity()"].
Definition sk_uq_shrink : list string := [
    "IF capacity > (_producer->bounded_queue.capacity() >> 1)";
    "  RET return";
    "DECL auto const next_node = new Node{capacity, _producer->bounded_queue.huge_pages_policy()};";
    "EXPR _producer->next.store(next_node, std::memory_order_release)";
    "  ATOMIC _producer->next store [memory_order_release]";
    "EXPR _producer = next_node"].
