(* Expected skeleton of BackendWorker::_populate_formatted_named_args (the text Format/NaSlot.v was written against,
   taken from /repo at 06846d2). *)
From Coq Require Import String List.
Import ListNotations.
Local Open Scope string_scope.
Definition sk_c19_populate_named_args : list string := [
    "IF !transit_event->named_args";
    "  EXPR transit_event->named_args = std::make_unique<std::vector<std::pair<std::string, std::string>>>()";
    "EXPR transit_event->named_args->resize(arg_names.size())";
    "FOR for (size_t i = 0; i < arg_names.size()";
    "  EXPR (*transit_event->named_args)[i].first = arg_names[i].first";
    "FOR for (size_t i = arg_names.size()";
    "  EXPR transit_event->named_args->push_back( std::pair<std::string, std::string>(fmtquill::format(""_{}"", i), std::string{}))";
    "TRY";
    "  EXPR _format_and_split_arguments(arg_names, *transit_event->named_args, _format_args_store, _options)";
    "CATCH catch (const std::exception &)";
    "CATCH catch (...)"].
