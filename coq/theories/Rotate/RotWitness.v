(* Refutations (vm_compute witnesses) and non-vacuity examples for C14 / C15 over M-ROT, with a small
   concrete libc oracle (GMT-like arithmetic; the real oracle is a table filled from libc). *)
From Coq Require Import List NArith Bool Lia.
From Quill Require Import Rotate.RotFS Rotate.RotFSProofs Rotate.RotModel Rotate.RotChain Rotate.RotInv
  Rotate.RotRun Rotate.RotRestart Rotate.RotProps Rotate.RotSched Rotate.RotTheorems.
Import ListNotations.
Open Scope N_scope.

(* date = day number, date-time = second number, both in decimal *)
Definition toy_strf (k t : N) : comp := if k =? 0 then dec (t / 86400) else dec t.
Definition toy_rtm_min (k t : N) : N := (t / 60 + 1) * 60.           (* tm_min + 1, tm_sec = 0, GMT *)
(* today's HH:MM (k = 0, 1) / tomorrow's HH:MM (k = 2), GMT; hm < 86400 *)
Definition toy_rtm_day (hm : N) (k t : N) : N :=
  if k =? 2 then (t / 86400 + 1) * 86400 + hm else (t / 86400) * 86400 + hm.

Lemma toy_strf_nonempty : forall k t, toy_strf k t <> [].
Proof. intros k t. unfold toy_strf. destruct (k =? 0); apply dec_nonempty. Qed.

Definition S := NS.
(* pf / ca / p24: the variant flags (true = the earlier, defective behaviour: D7 / D10 / C15-daily-dst) *)
Definition mkcfgv (pf ca p24 gmt : bool) (sch : scheme) (fr : freq) (iv lim mb : N) (ov : bool) : cfg :=
  {| c_prefix := pf; c_cntacct := ca; c_plus24 := p24; c_gmt := gmt;
     c_scheme := sch; c_freq := fr; c_interval := iv; c_limit := lim; c_maxb := mb; c_over := ov;
     c_stem := [114; 111; 116]; c_ext := [108; 111; 103] |}.
(* the repaired code (but for pf), GMT *)
Definition mkcfg (pf : bool) := mkcfgv pf false false true.

(* ---------- D10: RotatingJsonFileSink counted log_statement.size() (0), not the bytes written ----------
   json_cfg: the variant before the repair (c_cntacct = true); json_cfg_fixed: the repaired code *)
Definition json_cfg := mkcfgv false true false true SIndex FDisabled 0 1024 4294967295 true.
Definition json_cfg_fixed := mkcfg false SIndex FDisabled 0 1024 4294967295 true.
Definition json_ops := map (fun i => Write i (i * S) 200 0) [1; 2; 3; 4; 5; 6; 7].
Definition json_final := run0 toy_strf toy_rtm_min json_cfg true true 0 [] json_ops.

Lemma rot_json_refuted_lem :
  init_ok json_cfg true [] /\ c_limit json_cfg <> 0 /\ stopped json_cfg json_final = false /\
  length (fs_content (live_path json_cfg) (fs json_final)) = 7%nat /\
  fsize (fs_content (live_path json_cfg) (fs json_final)) = 1400 /\
  ~ Lim json_cfg json_final.
Proof.
  split; [|split; [|split; [|split; [|split]]]].
  - split; [|split]; [intros p _ _; reflexivity | constructor | discriminate].
  - discriminate.
  - vm_compute. reflexivity.
  - vm_compute. reflexivity.
  - vm_compute. reflexivity.
  - intros [_ L]. specialize (L eq_refl). destruct L as [L | [pre [st [E Z]]]].
    + vm_compute in L. apply L. reflexivity.
    + assert (X : fs_content (live_path json_cfg) (fs json_final) =
                  map (fun i => mkStmt i (i * S) 200) [1; 2; 3; 4; 5; 6] ++ [mkStmt 7 (7 * S) 200])
        by (vm_compute; reflexivity).
      rewrite X in E. apply app_inj_tail in E as [E _]. subst pre. vm_compute in Z. discriminate.
Qed.

(* the repaired code on the very same ops (cnt = 0): no premise on the writes is needed, the sixth
   statement rotates (5 * 200 + 200 > 1024): rot.1.log holds 1000 bytes, the live file 400 *)
Example rot_json_fixed_example :
  Forall (ok_op json_cfg_fixed) json_ops /\
  map (fun e => (fst e, fsize (snd e))) (fs (run0 toy_strf toy_rtm_min json_cfg_fixed true true 0 [] json_ops)) =
  [([[114; 111; 116]; [49]; [108; 111; 103]], 1000); ([[114; 111; 116]; [108; 111; 103]], 400)].
Proof.
  split; [|vm_compute; reflexivity].
  apply Forall_forall. intros o Ho. unfold json_ops in Ho. apply in_map_iff in Ho as [i [E _]]. subst o.
  apply ok_op_write_fixed. reflexivity.
Qed.

(* the earlier variant with cnt = wr respects the limit (the premise of rot_limit that the JSON sink broke) *)
Example rot_limit_nonvacuous :
  let ops := map (fun i => Write i (i * S) 200 200) [1; 2; 3; 4; 5; 6; 7] in
  Forall (ok_op json_cfg) ops /\
  map (fun e => (fst e, fsize (snd e))) (fs (run0 toy_strf toy_rtm_min json_cfg true true 0 [] ops)) =
  [([[114; 111; 116]; [49]; [108; 111; 103]], 1000); ([[114; 111; 116]; [108; 111; 103]], 400)].
Proof. split; [repeat constructor | vm_compute; reflexivity]. Qed.

(* ---------- D7: before the fix the next point was record timestamp + period ---------- *)
Definition drift_cfg (pf : bool) := mkcfg pf SDateTime FMinutely 1 0 4294967295 true.
Definition drift_ops := [Write 1 (90 * S) 10 10; Write 2 (100 * S) 10 10; Write 3 (125 * S) 10 10].
Definition drift_final (pf : bool) := run0 toy_strf toy_rtm_min (drift_cfg pf) true true 0 [] drift_ops.

(* pre-fix: statements 2 (100 s) and 3 (125 s) share the live file although the point 120 s of the
   schedule 60 s + j * 60 s lies between them *)
Lemma sched_drift_refuted_lem :
  mono 0 drift_ops /\ grid_pt toy_rtm_min (drift_cfg true) 0 (120 * S) /\
  ~ cell_ok 0 (grid_pt toy_rtm_min (drift_cfg true) 0)
      (fs_content (live_path (drift_cfg true)) (fs (drift_final true))).
Proof.
  split; [|split].
  - cbn [mono drift_ops]. vm_compute. intuition discriminate.
  - exists 1. vm_compute. reflexivity.
  - intro H. apply (H (mkStmt 2 (100 * S) 10) (mkStmt 3 (125 * S) 10) (120 * S)).
    + vm_compute. right. left. reflexivity.
    + vm_compute. right. right. left. reflexivity.
    + exists 1. vm_compute. reflexivity.
    + vm_compute. reflexivity.
    + vm_compute. split; [reflexivity | intro X; discriminate X].
Qed.

(* fixed code: 3 is alone in the live file, 1 and 2 are in the file opened at the start *)
Example sched_fixed_separates :
  map (fun e => (fst e, map sid (snd e))) (fs (drift_final false)) =
  [([[114; 111; 116]; [48]; [108; 111; 103]], [1; 2]); ([[114; 111; 116]; [108; 111; 103]], [3])].
Proof. vm_compute. reflexivity. Qed.

(* ---------- the premises of the C15 theorems are satisfiable ---------- *)
Lemma toy_rtm_min_later : forall k t, t < toy_rtm_min k t.
Proof.
  intros k t. unfold toy_rtm_min.
  pose proof (N.div_mod t 60 ltac:(lia)). pose proof (N.mod_lt t 60 ltac:(lia)). lia.
Qed.

Example C15_premises_minutely :
  NA_ok toy_rtm_min (drift_cfg false) 0 (grid_pt toy_rtm_min (drift_cfg false) 0) /\
  INIT_ok toy_rtm_min (drift_cfg false) 0 (grid_pt toy_rtm_min (drift_cfg false) 0) /\ mono 0 drift_ops.
Proof.
  split; [|split].
  - apply NA_hourly_minutely; [reflexivity | right; reflexivity | reflexivity].
  - apply INIT_hourly_minutely; [right; reflexivity | apply toy_rtm_min_later].
  - cbn [mono drift_ops]. vm_compute. intuition discriminate.
Qed.

(* GMT daily rotation at hm seconds after midnight satisfies the grid property: timegm is arithmetic.
   Holds for every variant of the code (the repaired one asks for HH:MM with tm_isdst = -1, which timegm
   ignores, and in GMT adds 24 h like the earlier one). *)
Definition day_pt (hm : N) (g : N) : Prop := exists d, g = (d * 86400 + hm) * NS.

Lemma daily_grid_gmt : forall rtm c hm start, hm < 86400 -> c_gmt c = true ->
  (forall k t, k <> 2 -> rtm k t = t / 86400 * 86400 + hm) ->
  grid_property rtm c start (day_pt hm).
Proof.
  intros rtm c hm start Hh Hg HR t _.
  assert (IT : init_tp rtm c t =
               (if t / NS <? t / NS / 86400 * 86400 + hm then t / NS / 86400 * 86400 + hm
                else t / NS / 86400 * 86400 + hm + 86400) * NS).
  { unfold init_tp. rewrite Hg. rewrite !HR by discriminate.
    destruct (dst_fixed c); auto. destruct (_ <? _); auto. }
  rewrite IT. clear IT.
  pose proof (N.div_mod t NS ltac:(unfold NS; lia)) as D1. pose proof (N.mod_lt t NS ltac:(unfold NS; lia)) as M1.
  set (now := t / NS) in *. set (fr := t mod NS) in *.
  pose proof (N.div_mod now 86400 ltac:(lia)) as D2. pose proof (N.mod_lt now 86400 ltac:(lia)) as M2.
  set (day := now / 86400) in *. set (sec := now mod 86400) in *.
  assert (NSv : NS = 1000000000) by reflexivity.
  destruct (now <? day * 86400 + hm) eqn:C.
  - apply N.ltb_lt in C. split; [nia|]. split; [exists day; reflexivity|].
    intros g [d Eg] Hgt. subst g.
    assert (d * 86400 + hm > now) by nia.
    assert (day <= d). { destruct (N.le_gt_cases day d); auto. exfalso. assert (d + 1 <= day) by lia. nia. }
    nia.
  - apply N.ltb_ge in C. split; [nia|]. split; [exists (day + 1); f_equal; lia|].
    intros g [d Eg] Hgt. subst g.
    assert (d * 86400 + hm > now) by nia.
    assert (day + 1 <= d). { destruct (N.le_gt_cases (day + 1) d); auto. exfalso. assert (d <= day) by lia. nia. }
    nia.
Qed.

Lemma toy_daily_grid : forall c hm start, hm < 86400 -> c_gmt c = true ->
  grid_property (toy_rtm_day hm) c start (day_pt hm).
Proof.
  intros c hm start Hh Hg. apply daily_grid_gmt; auto.
  intros k t Hk. unfold toy_rtm_day. destruct (k =? 2) eqn:E; auto. apply N.eqb_eq in E. contradiction.
Qed.

(* the premises of daily_grid_fixed (local time, the repaired code) are satisfiable: the GMT calendar *)
Example daily_fixed_premises_satisfiable : forall hm start, hm < 86400 ->
  let day := fun t => t / 86400 in
  let at_hm := fun d => d * 86400 + hm in
  (forall t1 t2, t1 <= t2 -> day t1 <= day t2) /\ (forall d, day (at_hm d) = d) /\
  (forall t, start / NS <= t -> toy_rtm_day hm 1 t = at_hm (day t)) /\
  (forall t, start / NS <= t -> toy_rtm_day hm 2 t = at_hm (day t + 1)).
Proof.
  intros hm start Hh day at_hm. unfold day, at_hm. repeat split.
  - intros t1 t2 H. apply N.div_le_mono; lia.
  - intro d. rewrite N.div_add_l by lia. rewrite N.div_small by lia. lia.
Qed.

(* ---------- C14: a run with rotations, a deletion and restarts satisfies the premises ---------- *)
Definition ex_cfg := mkcfg false SIndex FDisabled 0 512 2 true.
Definition ex_ops :=
  [Write 1 1 300 300; Write 2 2 300 300; Write 3 3 300 300; Restart false true 4; Write 4 5 300 300;
   Write 5 6 300 300; Restart true true 7; Write 6 8 600 600; Write 7 9 10 10].
Example C14_premises_nonvacuous :
  init_ok ex_cfg true [([[111]; [120]], [mkStmt 99 0 5])] /\ Forall (ok_op ex_cfg) ex_ops /\
  map (fun e => (fst e, map sid (snd e)))
      (fs (run0 toy_strf toy_rtm_min ex_cfg true true 0 [([[111]; [120]], [mkStmt 99 0 5])] ex_ops)) =
  [([[111]; [120]], [99]); ([[114; 111; 116]; [49]; [108; 111; 103]], [6]); ([[114; 111; 116]; [108; 111; 103]], [7])] /\
  map (fun e => (fst e, map sid (snd e)))
      (fs (run0 toy_strf toy_rtm_min ex_cfg true true 0 [] (firstn 6 ex_ops))) =
  [([[114; 111; 116]; [50]; [108; 111; 103]], [3]); ([[114; 111; 116]; [49]; [108; 111; 103]], [4]); ([[114; 111; 116]; [108; 111; 103]], [5])].
Proof.
  split; [|split; [|split]].
  - split; [|split].
    + intros p [mid E] NP. subst p. reflexivity.
    + repeat constructor. intros [].
    + discriminate.
  - repeat (apply Forall_cons; [first [intros _; reflexivity | split; [reflexivity | first [left; reflexivity | right; reflexivity]]] |]); apply Forall_nil.
  - vm_compute. reflexivity.
  - vm_compute. reflexivity.
Qed.

(* Date scheme: age read off the names needs non-decreasing open instants.  Here the second file is
   opened with a record stamped one day earlier (a replayed backtrace statement): the deque (real
   age) has rot.0 (day 0, holds 3) newer than rot.1 (day 1, holds 1 2), the names say the opposite. *)
Definition back_cfg := mkcfg false SDate FDisabled 0 512 4294967295 true.
Definition back_ops := [Write 1 (86400 * S + 1) 300 300; Write 2 (86400 * S + 2) 200 200;
                        Write 3 5 300 300; Write 4 (86400 * S + 3) 300 300].
Lemma rot_date_backwards_refuted_lem :
  Forall (ok_op back_cfg) back_ops /\
  map (fun f => (fdt f, fidx f, map sid (fs_content (fname f) (fs (run0 toy_strf toy_rtm_min back_cfg true true (86400 * S) [] back_ops)))))
      (dq (run0 toy_strf toy_rtm_min back_cfg true true (86400 * S) [] back_ops)) =
  [([], 0, [4]); ([48], 0, [3]); ([49], 0, [1; 2])].
Proof. split; [repeat constructor | vm_compute; reflexivity]. Qed.

(* ---------- C15-daily-dst: the variant before the repair breaks the grid property on DST days ----------
   Europe/Berlin, daily 12:00, local time.  What glibc returned (harness/rot.cpp,
   corpus/C15/daily_dst_fall_back.case) for t = 2023-10-28 12:00:00 CEST (1698487200):
     mktime(localtime(t) with 12:00:00, tm_isdst kept)  = 1698487200      (rtm 0)
     the same with tm_isdst = -1                        = 1698487200      (rtm 1)
     then tm_mday + 1, 12:00:00, tm_isdst = -1          = 1698577200      (rtm 2: 2023-10-29 12:00 CET)
   The 12:00 instants of that zone around it: 1698487200 (28th, CEST) and 1698577200 (29th, CET).
   Before the repair the next point after t is 1698487200 + 86400 = 1698573600 = 2023-10-29 11:00 CET;
   the repaired code takes 1698577200. *)
Definition berlin_rtm (k t : N) : N :=
  if t =? 1698487200 then (if k =? 2 then 1698577200 else 1698487200)
  else if t =? 1698573600 then 1698577200 else 0.
Definition berlin_noon (g : N) : Prop := g = 1698487200 * NS \/ g = 1698577200 * NS.
(* p24 = true: the variant before the repair *)
Definition berlin_cfg (p24 : bool) := mkcfgv false false p24 false SIndex FDaily 0 0 4294967295 true.

Lemma daily_dst_grid_refuted_lem :
  init_tp berlin_rtm (berlin_cfg true) (1698487200 * NS) = 1698573600 * NS /\
  ~ berlin_noon (1698573600 * NS) /\
  ~ grid_property berlin_rtm (berlin_cfg true) (1698487200 * NS) berlin_noon.
Proof.
  split; [vm_compute; reflexivity|]. split.
  - intros [H|H]; vm_compute in H; discriminate.
  - intro G. destruct (G (1698487200 * NS) (N.le_refl _)) as [_ [[H|H] _]]; vm_compute in H; discriminate.
Qed.

Example daily_dst_fixed_example :
  init_tp berlin_rtm (berlin_cfg false) (1698487200 * NS) = 1698577200 * NS /\ berlin_noon (1698577200 * NS).
Proof. split; [vm_compute; reflexivity | right; reflexivity]. Qed.

(* ok_size read with positive statement sizes: within the limit or a single statement *)
Lemma ok_size_single : forall c cs, (forall a, In a cs -> 0 < swr a) -> ok_size c cs ->
  fsize cs <= c_limit c \/ length cs = 1%nat.
Proof.
  intros c cs P [H|[pre [st [E Z]]]]; auto. right. subst cs.
  assert (pre = []).
  { destruct pre as [|x pre]; auto. exfalso. rewrite fsize_cons in Z.
    specialize (P x (or_introl eq_refl)). lia. }
  subst. reflexivity.
Qed.
