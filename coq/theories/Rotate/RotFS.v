(* M-ROT, part 1: names and the abstract file system.
   A file name inside the sink's directory is modelled as the list of its dot-separated components
   ("rot.20230101.2.log" = ["rot";"20230101";"2";"log"]); a component is a list of bytes (N) that
   contains no '.' (46).  All string operations RotatingSink performs on names (extension(), stem(),
   find(stem + ".") == 0, find_last_of('.'), substr, "stem.text.ext" concatenation) are operations on
   this list.  Definitions only. *)
From Coq Require Import List NArith Bool Decimal.
Import ListNotations.
Open Scope N_scope.

Definition comp := list N.
Definition path := list comp.

Fixpoint comp_eqb (a b : comp) : bool :=
  match a, b with
  | [], [] => true
  | x :: a', y :: b' => N.eqb x y && comp_eqb a' b'
  | _, _ => false
  end.

Fixpoint path_eqb (a b : path) : bool :=
  match a, b with
  | [], [] => true
  | x :: a', y :: b' => comp_eqb x y && path_eqb a' b'
  | _, _ => false
  end.

Definition comp_empty (a : comp) : bool := match a with [] => true | _ => false end.

(* a statement as it lies in a file: id, timestamp (ns), bytes written *)
Record stmt := mkStmt { sid : N; sts : N; swr : N }.

Definition fsize (c : list stmt) : N := fold_right (fun s a => swr s + a) 0 c.

(* directory = association list name -> content (keys kept unique by fs_put / fs_del) *)
Definition dir := list (path * list stmt).

Fixpoint fs_get (p : path) (d : dir) : option (list stmt) :=
  match d with
  | [] => None
  | (q, c) :: r => if path_eqb p q then Some c else fs_get p r
  end.

Fixpoint fs_del (p : path) (d : dir) : dir :=
  match d with
  | [] => []
  | (q, c) :: r => if path_eqb p q then fs_del p r else (q, c) :: fs_del p r
  end.

Fixpoint fs_put (p : path) (c : list stmt) (d : dir) : dir :=
  match d with
  | [] => [(p, c)]
  | (q, c0) :: r => if path_eqb p q then (q, c) :: r else (q, c0) :: fs_put p c r
  end.

(* fs::rename(old, new, ec): error (ignored by _rename_file) when old does not exist; replaces new *)
Definition fs_rename (o n : path) (d : dir) : dir :=
  match fs_get o d with
  | None => d
  | Some c => if path_eqb o n then d else fs_put n c (fs_del o d)
  end.

Definition fs_content (p : path) (d : dir) : list stmt :=
  match fs_get p d with Some c => c | None => [] end.

(* fopen(.., "w") / fopen(.., "a") *)
Definition fs_open (wmode : bool) (p : path) (d : dir) : dir :=
  if wmode then fs_put p [] d
  else match fs_get p d with Some _ => d | None => fs_put p [] d end.

Definition fs_append (p : path) (s : stmt) (d : dir) : dir :=
  match fs_get p d with Some c => fs_put p (c ++ [s]) d | None => d end.

(* ---- decimal rendering of an index (std::to_string) and std::stoul on a component ---- *)
Fixpoint uint_bytes (u : Decimal.uint) : comp :=
  match u with
  | Nil => []
  | D0 r => 48 :: uint_bytes r | D1 r => 49 :: uint_bytes r | D2 r => 50 :: uint_bytes r
  | D3 r => 51 :: uint_bytes r | D4 r => 52 :: uint_bytes r | D5 r => 53 :: uint_bytes r
  | D6 r => 54 :: uint_bytes r | D7 r => 55 :: uint_bytes r | D8 r => 56 :: uint_bytes r
  | D9 r => 57 :: uint_bytes r
  end.

Definition dec (n : N) : comp := uint_bytes (N.to_uint n).

Definition is_digit (b : N) : bool := (48 <=? b) && (b <=? 57).

Fixpoint of_digits (acc : N) (l : comp) : N :=
  match l with
  | [] => acc
  | b :: r => if is_digit b then of_digits (acc * 10 + (b - 48)) r else acc
  end.

(* The index component of a recovered file name: std::stoul(component, &pos) with pos == size required, i.e.
   the component must be a non-empty digit string (a name such as "5x" is not one of the sink's files).
   Leading white space / sign and values >= 2^32 are not modelled (the generators do not produce them).
   [stoul_lenient] is the pinned tree's parse (maximal leading digit string): finding C14-decoy-index, fixed. *)
Definition stoul_lenient (cp : comp) : option N :=
  match cp with
  | b :: _ => if is_digit b then Some (of_digits 0 cp) else None
  | [] => None
  end.
Definition stoul (cp : comp) : option N :=
  match cp with
  | _ :: _ => if forallb is_digit cp then Some (of_digits 0 cp) else None
  | [] => None
  end.

(* ---- RotatingSink::_get_filename ---- *)
(* "stem.text.ext" from "stem.ext": insert a component before the extension *)
Definition append_comp (p : path) (cp : comp) : path :=
  match p with
  | [] => [cp]
  | _ => removelast p ++ [cp; last p []]
  end.

Definition get_filename (base : path) (idx : N) (dt : comp) : path :=
  let b1 := if comp_empty dt then base else append_comp base dt in
  if idx =? 0 then b1 else append_comp b1 (dec idx).
