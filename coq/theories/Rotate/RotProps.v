(* Run-level statements of C14 over M-ROT: every op sequence from a constructor on a directory that
   holds no file of the sink's shape (other than possibly the live file). *)
From Coq Require Import List NArith Bool Lia Sorted.
From Quill Require Import Rotate.RotFS Rotate.RotFSProofs Rotate.RotModel Rotate.RotChain Rotate.RotInv
  Rotate.RotRun Rotate.RotRestart.
Import ListNotations.
Open Scope N_scope.

Section Props.
Variable strf : N -> N -> comp.
Variable rtm : N -> N -> N.
Variable c : cfg.
Hypothesis strf_nonempty : forall k t, strf k t <> [].

Notation lp := (live_path c).
Notation step := (rot_step strf rtm c).
Notation run := (rot_run strf rtm c).

(* the ops the all-history theorems cover: a restart (after the initial constructor) under the Index
   scheme, in append mode or in mode "w" with remove_old_files; a write: any, when the sink accounts the
   bytes the base sink writes (c_cntacct c = false, the repaired code) - for the earlier variant that
   accounts log_statement.size() (D10) only those with bytes written = log_statement.size() *)
Definition ok_op (o : rop) : Prop :=
  match o with
  | Write _ _ wr cnt => c_cntacct c = true -> cnt = wr
  | Restart wm rm _ => is_index c = true /\ (wm = false \/ rm = true)
  end.
(* the repaired code: no premise on the writes *)
Lemma ok_op_write_fixed : c_cntacct c = false -> forall id ts wr cnt, ok_op (Write id ts wr cnt).
Proof. intros E id ts wr cnt H. rewrite E in H. discriminate. Qed.

(* the restarts covered (the clause of ok_op about restarts) *)
Definition ok_restart (o : rop) : Prop :=
  match o with
  | Write _ _ _ _ => True
  | Restart wm rm _ => is_index c = true /\ (wm = false \/ rm = true)
  end.

Lemma ok_restart_fixed : c_cntacct c = false -> forall ops, Forall ok_restart ops -> Forall ok_op ops.
Proof.
  intros E ops H. induction H as [|o ops Ho _ IH]; constructor; auto.
  destruct o as [id ts wr cnt | wm rm st]; [apply ok_op_write_fixed; auto | exact Ho].
Qed.

Definition no_w (o : rop) : Prop := match o with Restart true _ _ => False | _ => True end.
Definition writes_of (ops : list rop) : list stmt :=
  flat_map (fun o => match o with Write id ts wr _ => [mkStmt id ts wr] | _ => [] end) ops.
(* the retained files read oldest first *)
Definition retained (s : rstate) : list stmt := contents (fs s) (rev (dq s)).

Record Good (d0 : dir) (s : rstate) : Prop := { G_full : Full c d0 s; G_keys : NoDup (keys (fs s)) }.

Lemma step_good : forall d0 s o, Good d0 s -> ok_op o -> Good d0 (step s o).
Proof.
  intros d0 s o [HF HK] OK. constructor; [|apply nodup_keys_step; auto].
  destruct o as [id ts wr cnt | wm rm st]; cbn [rot_step ok_op] in *.
  - assert (EA : acct c wr cnt = wr) by (unfold acct; destruct (c_cntacct c); auto).
    rewrite EA. apply write_log_full; auto.
  - destruct OK as [Hidx [W|R]]; subst.
    + apply (restart_append strf rtm c Hidx d0 rm st s HF HK).
    + destruct wm.
      * apply (restart_w_rm strf rtm c Hidx d0 st s). apply HF.
      * apply (restart_append strf rtm c Hidx d0 true st s HF HK).
Qed.

Lemma run_good : forall d0 ops s, Good d0 s -> Forall ok_op ops -> Good d0 (run s ops).
Proof.
  induction ops as [|o ops IH]; intros s HG HO; cbn [rot_run fold_left]; auto.
  inversion HO; subst. apply IH; auto. apply step_good; auto.
Qed.

Definition init_ok (wm : bool) (d0 : dir) : Prop :=
  clean c d0 /\ NoDup (keys d0) /\ (wm = false -> c_limit c <> 0 -> ok_size c (fs_content lp d0)).

Lemma init_good : forall wm rm start d0, init_ok wm d0 -> Good d0 (construct strf rtm c wm rm start d0).
Proof.
  intros wm rm start d0 [CL [ND OK]]. constructor.
  - apply construct_clean_full; auto.
  - change (construct strf rtm c wm rm start d0) with (step {| fs := d0; dq := []; fsz := 0; ots := 0; nrt := 0; g_hist := []; g_del := [] |} (Restart wm rm start)).
    apply nodup_keys_step. exact ND.
Qed.

(* ---------- order ---------- *)
Lemma rotate_ghosts : forall ts s,
  exists X, g_del (rotate_files strf c ts s) = g_del s ++ X /\ (c_over c = false -> X = []) /\
            g_hist (rotate_files strf c ts s) = g_hist s.
Proof.
  intros ts s. destruct (rot_fires c s) eqn:F.
  - rewrite rotate_fires by auto. cbn [rotated g_del g_hist]. eexists. split; [reflexivity|]. split; auto.
    intro O. pose proof (rotated_gdel_keep strf c ts s F O) as K. cbn [rotated g_del] in K.
    rewrite <- (app_nil_r (g_del s)) in K at 2. apply app_inv_head in K. exact K.
  - rewrite rotate_noop by auto. exists []. rewrite app_nil_r. auto.
Qed.

Lemma write_ghosts : forall id ts wr cnt s,
  exists X, g_del (write_log strf rtm c id ts wr cnt s) = g_del s ++ X /\ (c_over c = false -> X = []) /\
            g_hist (write_log strf rtm c id ts wr cnt s) = g_hist s ++ [mkStmt id ts wr].
Proof.
  intros. rewrite write_log_eq. cbn [do_append g_del g_hist].
  destruct (pre_write_cases strf rtm c ts cnt s) as [[_ E] | [[_ [_ E]] | [_ [_ E]]]]; rewrite E.
  - cbn [set_nrt g_del g_hist]. destruct (rotate_ghosts ts s) as [X [A [B C]]]. exists X. rewrite A, C. auto.
  - destruct (rotate_ghosts ts s) as [X [A [B C]]]. exists X. rewrite A, C. auto.
  - exists []. rewrite app_nil_r. auto.
Qed.

Lemma retained_head : forall s t rest, dq s = mk_live c t :: rest ->
  retained s = contents (fs s) (rev rest) ++ fs_content lp (fs s).
Proof.
  intros s t rest E. unfold retained. rewrite E. cbn [rev]. rewrite contents_app. f_equal.
  unfold contents. cbn [flat_map]. rewrite fname_live. apply app_nil_r.
Qed.

Lemma step_order : forall d0 s o, Good d0 s -> ok_op o ->
  exists X, X ++ retained (step s o) = retained s ++ writes_of [o] /\ (c_over c = false -> no_w o -> X = []).
Proof.
  intros d0 s o HG OK. pose proof (step_good d0 s o HG OK) as HG'.
  destruct HG as [HF HK]. pose proof (F_inv c d0 s HF) as HI.
  destruct o as [id ts wr cnt | wm rm st]; cbn [rot_step ok_op writes_of flat_map app] in *.
  - destruct (write_ghosts id ts wr (acct c wr cnt) s) as [X [A [B C]]]. exists X. split; [|intros O _; auto].
    pose proof (I_hist c s HI) as H1.
    pose proof (I_hist c _ (F_inv c d0 _ (G_full d0 _ HG'))) as H2. cbn [rot_step] in H2.
    rewrite A, C, <- H1, <- !app_assoc in H2. apply app_inv_head in H2. exact H2.
  - destruct OK as [Hidx WR]. rewrite app_nil_r.
    assert (APP : forall rm', retained (construct strf rtm c false rm' st (fs s)) = retained s).
    { intro rm'. destruct (restart_append strf rtm c Hidx d0 rm' st s HF HK) as [E1 [E2 _]].
      destruct (I_head c s HI) as [rest [E F]].
      rewrite (retained_head _ st (map (forget) (tl (dq s))) E2), E1.
      rewrite (retained_head s (ots s) rest E). rewrite E. cbn [tl].
      rewrite <- map_rev, contents_forget. reflexivity. }
    destruct wm.
    + destruct WR as [W|R]; [discriminate|]. subst rm.
      destruct (restart_w_rm strf rtm c Hidx d0 st s (F_unrel c d0 s HF)) as [E1 [E2 _]].
      exists (retained s). split; [|intros _ []].
      rewrite (retained_head _ st [] E1), E2. cbn [rev contents flat_map]. rewrite !app_nil_r. reflexivity.
    + exists []. rewrite APP. auto.
Qed.

Lemma writes_of_cons : forall o ops, writes_of (o :: ops) = writes_of [o] ++ writes_of ops.
Proof. intros. unfold writes_of. cbn [flat_map]. rewrite app_nil_r. reflexivity. Qed.

Lemma run_order : forall d0 ops s, Good d0 s -> Forall ok_op ops ->
  exists X, X ++ retained (run s ops) = retained s ++ writes_of ops /\
            (c_over c = false -> Forall no_w ops -> X = []).
Proof.
  induction ops as [|o ops IH]; intros s HG HO; cbn [rot_run fold_left].
  - exists []. cbn [writes_of flat_map app]. rewrite app_nil_r. auto.
  - inversion HO as [|? ? O1 O2]; subst.
    destruct (step_order d0 s o HG O1) as [X1 [A1 B1]].
    destruct (IH (step s o) (step_good d0 s o HG O1) O2) as [X2 [A2 B2]].
    exists (X1 ++ X2). split.
    + change (fold_left step ops (step s o)) with (run (step s o) ops).
      rewrite writes_of_cons, <- app_assoc, A2, !app_assoc, A1. reflexivity.
    + intros O NW. inversion NW; subst. rewrite B1, B2; auto.
Qed.

(* ---------- names: Index scheme, larger index = older ---------- *)
Lemma index_sorted : forall s, Inv c s -> is_index c = true ->
  StronglySorted (fun a b => fidx a < fidx b) (dq s) /\
  Forall (fun f => fname f = [c_stem c; dec (fidx f); c_ext c]) (tl (dq s)).
Proof.
  intros s HI Hidx. destruct (I_head c s HI) as [rest [E F]]. pose proof (I_ord c s HI) as O.
  pose proof (inv_ent_ok c s HI) as EO.
  assert (DT : forall f, In f (dq s) -> fdt f = []).
  { intros f Hf. rewrite Forall_forall in EO. destruct (EO f Hf) as [[_ X]|[_ [_ X]]]; auto.
    rewrite Hidx in X. tauto. }
  split.
  - revert O DT. generalize (dq s). induction l as [|a l IH]; intros O DT; [constructor|].
    inversion O as [|? ? Oa Ol]; subst. constructor.
    + apply IH; auto. intros; apply DT; right; auto.
    + rewrite Forall_forall in *. intros y Hy. apply Oa; auto. rewrite DT, DT; auto; [right | left]; auto.
  - rewrite E. cbn [tl]. rewrite Forall_forall in *. intros f Hf. destruct (F f Hf) as [Fb Fr].
    rewrite Hidx in Fr. destruct Fr as [Fd Fi]. unfold fname. rewrite Fb, Fd.
    unfold get_filename. cbn [comp_empty]. apply N.eqb_neq in Fi. rewrite Fi. reflexivity.
Qed.

(* rotation stopped: nothing is renamed or removed any more *)
Lemma rot_stops : forall ts s, c_over c = false -> c_maxb c < N.of_nat (length (dq s)) ->
  rotate_files strf c ts s = s.
Proof.
  intros ts s O L. apply rotate_noop. unfold rot_fires. apply N.ltb_lt in L. rewrite L, O. reflexivity.
Qed.

(* what a constructor in mode "w" with remove_old_files leaves on disk *)
Lemma w_restart_disk : forall start d p,
  fs_get p (fs (construct strf rtm c true true start d)) =
  if path_eqb p lp then Some []
  else match c_scheme c with
       | SDateTime => fs_get p d
       | _ => if clean_hit c (strf 0 (start / NS)) p then None else fs_get p d
       end.
Proof.
  intros start d p. rewrite construct_state. cbn zeta. cbn [fs]. unfold fs_open.
  destruct (path_eqb p lp) eqn:E.
  - apply path_eqb_eq in E. subst. apply fs_get_put_same.
  - apply path_eqb_neq in E. rewrite fs_get_put_other by congruence.
    destruct (c_scheme c); cbn [andb]; auto; apply scan_clean_get.
Qed.

End Props.
