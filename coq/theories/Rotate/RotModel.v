(* M-ROT, part 2: executable model of quill::RotatingSink<TBase> (include/quill/sinks/RotatingSink.h):
   constructor (+ _clean_and_recover_files, _calculate_initial_rotation_tp), write_log,
   _time_rotation, _size_rotation, _rotate_files, restart = destroy + construct over the same
   directory.  libc (localtime/gmtime + strftime for the date suffixes, localtime + mktime/timegm for
   the first rotation point) is an ORACLE: Section variables here, table-backed in the extracted
   runner (the case line carries what the real libc returned).  Definitions only.
   Code variants: three flags of the configuration select an earlier, defective behaviour of the code
   (c_prefix: D7; c_cntacct: D10; c_plus24: C15-daily-dst); all false = the repaired code.  Which
   variant stands for the source tree is read from it on every run (T-src, TieC14.v / TieC15.v). *)
From Coq Require Import List NArith Bool.
From Quill Require Import Rotate.RotFS.
Import ListNotations.
Open Scope N_scope.

Inductive scheme := SIndex | SDate | SDateTime.
Inductive freq := FDisabled | FDaily | FHourly | FMinutely.

Record cfg := {
  c_prefix : bool;     (* true = behaviour before the D7 fix: next point = record timestamp + period *)
  c_cntacct : bool;    (* true = behaviour before the D10 fix: the size check and _file_size use
                          log_statement.size() (cnt); false: the bytes the base sink writes (wr) *)
  c_plus24 : bool;     (* true = behaviour before the C15-daily-dst fix: daily, HH:MM set with tm_isdst of
                          "now" and, when it has passed, + 24 h; false: tm_isdst = -1 and, in local time,
                          tomorrow's HH:MM through mktime (tm_mday + 1) *)
  c_gmt : bool;        (* Timezone::GmtTime (timegm) / LocalTime (mktime) *)
  c_scheme : scheme;
  c_freq : freq;
  c_interval : N;      (* minutes / hours; >= 1 when hourly / minutely (the config setter rejects 0) *)
  c_limit : N;         (* rotation_max_file_size, 0 = disabled *)
  c_maxb : N;          (* max_backup_files, 2^32-1 = unlimited *)
  c_over : bool;       (* overwrite_rolled_files *)
  c_stem : comp;
  c_ext : comp }.

(* FileInfo; g_open is a ghost: the instant the file was opened (0 for recovered files) *)
Record finfo := { fbase : path; fidx : N; fdt : comp; g_open : N }.

Definition fname (f : finfo) : path := get_filename (fbase f) (fidx f) (fdt f).

Record rstate := {
  fs : dir;
  dq : list finfo;      (* _created_files, front = newest *)
  fsz : N;              (* _file_size *)
  ots : N;              (* _open_file_timestamp *)
  nrt : N;              (* _next_rotation_time *)
  g_hist : list stmt;   (* ghost: initial content of the live file + every statement written since
                           the last restart in 'w' mode *)
  g_del : list stmt }.  (* ghost: contents of the files removed at the back of the deque *)

Inductive rop :=
| Write (id ts wr cnt : N)                (* wr = bytes written to the file, cnt = log_statement.size() *)
| Restart (wmode rmold : bool) (start : N).

Definition NS : N := 1000000000.

(* stable insertion sort by index (std::sort on <= 16 elements is an insertion sort; with distinct
   indices any sort gives the same result) *)
Fixpoint ins_idx (x : finfo) (l : list finfo) : list finfo :=
  match l with
  | [] => [x]
  | y :: r => if fidx x <=? fidx y then x :: y :: r else y :: ins_idx x r
  end.
Definition sort_idx (l : list finfo) : list finfo := fold_right ins_idx [] l.

Section Rot.
Variable strf : N -> N -> comp.   (* strf 0 t = strftime("%Y%m%d"), strf 1 t = strftime("%Y%m%d_%H%M%S")
                                     of instant t (seconds) in the sink's zone *)
Variable rtm : N -> N -> N.       (* mktime/timegm of {localtime|gmtime}(t) after the field update of
                                     _calculate_initial_rotation_tp for the configured frequency:
                                     rtm 0 t = tm_isdst as localtime gave it (hourly, minutely; daily before the fix)
                                     rtm 1 t = daily: HH:MM:00 of t's day with tm_isdst = -1
                                     rtm 2 t = daily: then tm_mday + 1, HH:MM:00, tm_isdst = -1 (tomorrow's HH:MM) *)
Variable c : cfg.

Definition live_path : path := [c_stem c; c_ext c].
Definition mk_live (t : N) : finfo := {| fbase := live_path; fidx := 0; fdt := []; g_open := t |}.

(* ---------- time ---------- *)
Definition is_daily : bool := match c_freq c with FDaily => true | _ => false end.
Definition dst_fixed : bool := is_daily && negb (c_plus24 c).

Definition init_tp (t_ns : N) : N :=
  let now := t_ns / NS in
  if dst_fixed then
    let r := rtm 1 now in
    if now <? r then r * NS
    else if c_gmt c then (r + 86400) * NS
    else let r2 := rtm 2 now in (if now <? r2 then r2 else r2 + 86400) * NS
  else
    let r := rtm 0 now in
    (if now <? r then r else r + 86400) * NS.

Definition period : N :=
  match c_freq c with
  | FMinutely => c_interval c * 60 * NS
  | FHourly => c_interval c * 3600 * NS
  | _ => 86400 * NS
  end.

(* do { n = n + period } while (n <= ts)  — closed form (period > 0) *)
Definition advance (n ts : N) : N := n + period * ((ts - n) / period + 1).

(* ---------- _rotate_files ---------- *)
Definition suffix (t_ns : N) : comp :=
  match c_scheme c with
  | SIndex => []
  | SDate => strf 0 (t_ns / NS)
  | SDateTime => strf 1 (t_ns / NS)
  end.

Definition is_index : bool := match c_scheme c with SIndex => true | _ => false end.

(* one iteration of the rename loop *)
Definition chain_step (sfx : comp) (f : finfo) (d : dir) : finfo * dir :=
  if is_index || comp_eqb (fdt f) sfx then
    let f' := {| fbase := fbase f; fidx := fidx f + 1; fdt := sfx; g_open := g_open f |} in
    (f', fs_rename (fname f) (fname f') d)
  else if comp_empty (fdt f) then
    let f' := {| fbase := fbase f; fidx := fidx f; fdt := sfx; g_open := g_open f |} in
    (f', fs_rename (fname f) (fname f') d)
  else (f, d).

(* the loop "for (it = rbegin; it != rend; ++it)": l is the deque reversed (oldest first) *)
Fixpoint chain (sfx : comp) (l : list finfo) (d : dir) : list finfo * dir :=
  match l with
  | [] => ([], d)
  | f :: r => let '(f', d1) := chain_step sfx f d in
              let '(r', d2) := chain sfx r d1 in (f' :: r', d2)
  end.

Definition rotate_files (ts : N) (s : rstate) : rstate :=
  if (c_maxb c <? N.of_nat (length (dq s))) && negb (c_over c) then s
  else if fsize (fs_content live_path (fs s)) =? 0 then s
  else
    let sfx := suffix (ots s) in
    let '(l1, d1) := chain sfx (rev (dq s)) (fs s) in
    let dq1 := rev l1 in
    let '(dq2, d2, del) :=
      if c_maxb c <? N.of_nat (length dq1)
      then (removelast dq1,
            fs_del (fname (last dq1 (mk_live 0))) d1,
            fs_content (fname (last dq1 (mk_live 0))) d1)
      else (dq1, d1, []) in
    {| fs := fs_open true live_path d2;
       dq := mk_live ts :: dq2;
       fsz := 0; ots := ts; nrt := nrt s;
       g_hist := g_hist s; g_del := g_del s ++ del |}.

Definition set_nrt (n : N) (s : rstate) : rstate :=
  {| fs := fs s; dq := dq s; fsz := fsz s; ots := ots s; nrt := n; g_hist := g_hist s; g_del := g_del s |}.

Definition time_due (ts : N) (s : rstate) : bool :=
  match c_freq c with FDisabled => false | _ => nrt s <=? ts end.

Definition next_after (ts : N) (s : rstate) : N :=
  if c_prefix c then ts + period
  else match c_freq c with
       | FDaily => init_tp ts
       | _ => advance (nrt s) ts
       end.

Definition time_rotation (ts : N) (s : rstate) : rstate * bool :=
  if time_due ts s
  then (set_nrt (next_after ts s) (rotate_files ts s), true)
  else (s, false).

Definition size_due (cnt : N) (s : rstate) : bool :=
  negb (c_limit c =? 0) && (c_limit c <? fsz s + cnt).

(* cnt = the byte count used for the size check and the accounting (see acct below) *)
Definition write_log (id ts wr cnt : N) (s : rstate) : rstate :=
  let '(s1, tr) := time_rotation ts s in
  let s2 := if negb tr && size_due cnt s1 then rotate_files ts s1 else s1 in
  let st := mkStmt id ts wr in
  {| fs := fs_append live_path st (fs s2); dq := dq s2; fsz := fsz s2 + cnt; ots := ots s2; nrt := nrt s2;
     g_hist := g_hist s2 ++ [st]; g_del := g_del s2 |}.

(* ---------- _clean_and_recover_files ---------- *)
Definition ext_ok (n : path) : bool :=
  match rev n with e :: _ :: _ => comp_eqb e (c_ext c) | _ => false end.
Definition stem_ok (n : path) : bool :=
  match n with s :: _ :: _ => comp_eqb s (c_stem c) | _ => false end.

(* mode "w" with remove_old_files: is this directory entry removed? *)
Definition clean_hit (today : comp) (n : path) : bool :=
  ext_ok n && stem_ok n &&
  match c_scheme c with
  | SIndex => true
  | SDate =>
    match rev n with
    | e :: c2 :: ((p1 :: prest) as pre) =>      (* stem() contains a '.' *)
      if (8 <=? N.of_nat (length c2)) && comp_eqb c2 today then true
      else match prest with
           | _ :: _ => comp_eqb p1 today          (* second last '.' exists: date part *)
           | [] => false
           end
    | _ => false
    end
  | SDateTime => false
  end.

(* mode "a": the FileInfo recovered from a directory entry, if any *)
Definition recover (today : comp) (n : path) : option finfo :=
  if ext_ok n && stem_ok n then
    match rev n with
    | e :: c2 :: ((p1 :: prest) as pre) =>
      match c_scheme c with
      | SIndex =>
        match stoul c2 with
        | Some i => Some {| fbase := rev pre ++ [e]; fidx := i; fdt := []; g_open := 0 |}
        | None => None
        end
      | SDate =>
        if (8 <=? N.of_nat (length c2)) && comp_eqb c2 today
        then Some {| fbase := rev pre ++ [e]; fidx := 0; fdt := c2; g_open := 0 |}
        else match prest with
             | _ :: _ =>
               if comp_eqb p1 today then
                 match stoul c2 with
                 | Some i => Some {| fbase := rev prest ++ [e]; fidx := i; fdt := p1; g_open := 0 |}
                 | None => None
                 end
               else None
             | [] => None
             end
      | SDateTime => None
      end
    | _ => None
    end
  else None.

Definition scan_clean (today : comp) (d : dir) : dir :=
  filter (fun e => negb (clean_hit today (fst e))) d.

Definition scan_recover (today : comp) (d : dir) : list finfo :=
  sort_idx (fold_left (fun acc e => match recover today (fst e) with Some f => f :: acc | None => acc end) d []).

(* constructor over directory d.  The ghosts are re-anchored: the history starts with what the
   recovered files hold (oldest first), nothing deleted yet. *)
Definition construct (wmode rmold : bool) (start : N) (d : dir) : rstate :=
  let today := strf 0 (start / NS) in
  let scans := match c_scheme c with SDateTime => false | _ => true end in
  let d1 := if scans && rmold && wmode then scan_clean today d else d in
  let rec := if scans && negb wmode then scan_recover today d else [] in
  let d2 := fs_open wmode live_path d1 in
  let dq0 := mk_live start :: rec in
  {| fs := d2;
     dq := dq0;
     fsz := fsize (fs_content live_path d2);
     ots := start;
     nrt := match c_freq c with FDisabled => 0 | _ => init_tp start end;
     g_hist := flat_map (fun f => fs_content (fname f) d2) (rev dq0);
     g_del := [] |}.

(* what RotatingSink hands to _size_rotation and adds to _file_size for a statement *)
Definition acct (wr cnt : N) : N := if c_cntacct c then cnt else wr.

Definition rot_step (s : rstate) (o : rop) : rstate :=
  match o with
  | Write id ts wr cnt => write_log id ts wr (acct wr cnt) s
  | Restart wm rm st => construct wm rm st (fs s)
  end.

Definition rot_run (s : rstate) (ops : list rop) : rstate := fold_left rot_step ops s.

(* all intermediate states, for the runner *)
Fixpoint rot_trace (s : rstate) (ops : list rop) : list rstate :=
  match ops with
  | [] => []
  | o :: r => let s' := rot_step s o in s' :: rot_trace s' r
  end.
End Rot.

(* ------------------------------------------------------------------------------------------
   Encoded entry point for the extracted runner.
   case:  rot <variant> <json(ignored)> <zone(ignored)> <scheme> <freq> <interval> <hh(ign)> <mm(ign)> <gmt>
              <limit> <maxb> <over>
              (<variant>: bit 0 = c_prefix, bit 1 = c_cntacct, bit 2 = c_plus24; 0 = the repaired code)
              <nstem> bytes.. <next> bytes..
              <ndecoy> { <ncomp> {<len> bytes..}*  <nst> {<id> <wr>}* }*
              <ntab> { <t_sec> <len> bytes.. <len> bytes.. <rt0> <rt1> <rt2> }*
              ops:  0 id ts wr cnt | 1 wmode rmold start        (the first op must be a restart = construct)
   output per op: <nfiles> { <ncomp> {<len> bytes..}* <size> <nst> ids.. }*   (directory order)      *)
Definition take_n (n : N) (l : list N) : list N * list N :=
  (firstn (N.to_nat n) l, skipn (N.to_nat n) l).

Definition get_comp (l : list N) : comp * list N :=
  match l with
  | len :: r => take_n len r
  | [] => ([], [])
  end.

Fixpoint get_comps (k : nat) (l : list N) : list comp * list N :=
  match k with
  | O => ([], l)
  | S k' => let '(cp, r) := get_comp l in let '(cs, r') := get_comps k' r in (cp :: cs, r')
  end.

Fixpoint get_stmts (k : nat) (l : list N) : list stmt * list N :=
  match k with
  | O => ([], l)
  | S k' => match l with
            | id :: wr :: r => let '(ss, r') := get_stmts k' r in (mkStmt id 0 wr :: ss, r')
            | _ => ([], [])
            end
  end.

Fixpoint get_decoys (k : nat) (l : list N) : dir * list N :=
  match k with
  | O => ([], l)
  | S k' =>
    match l with
    | nc :: r =>
      let '(p, r1) := get_comps (N.to_nat nc) r in
      match r1 with
      | ns :: r2 => let '(ss, r3) := get_stmts (N.to_nat ns) r2 in
                    let '(dd, r4) := get_decoys k' r3 in ((p, ss) :: dd, r4)
      | [] => ([], [])
      end
    | [] => ([], [])
    end
  end.

Record tabrow := { tr_t : N; tr_date : comp; tr_dt : comp; tr_rt : N; tr_rt1 : N; tr_rt2 : N }.

Fixpoint get_tab (k : nat) (l : list N) : list tabrow * list N :=
  match k with
  | O => ([], l)
  | S k' =>
    match l with
    | t :: r =>
      let '(a, r1) := get_comp r in
      let '(b, r2) := get_comp r1 in
      match r2 with
      | x :: x1 :: x2 :: r3 =>
        let '(rows, r4) := get_tab k' r3 in
        ({| tr_t := t; tr_date := a; tr_dt := b; tr_rt := x; tr_rt1 := x1; tr_rt2 := x2 |} :: rows, r4)
      | _ => ([], [])
      end
    | [] => ([], [])
    end
  end.

Fixpoint tab_find (tab : list tabrow) (t : N) : option tabrow :=
  match tab with
  | [] => None
  | r :: tl => if tr_t r =? t then Some r else tab_find tl t
  end.

Definition tab_strf (tab : list tabrow) (k t : N) : comp :=
  match tab_find tab t with
  | Some r => if k =? 0 then tr_date r else tr_dt r
  | None => []
  end.
Definition tab_rtm (tab : list tabrow) (k t : N) : N :=
  match tab_find tab t with
  | Some r => if k =? 0 then tr_rt r else if k =? 1 then tr_rt1 r else tr_rt2 r
  | None => 0
  end.

Fixpoint get_ops (fuel : nat) (l : list N) : list rop :=
  match fuel with
  | O => []
  | S f =>
    match l with
    | 0 :: id :: ts :: wr :: cnt :: r => Write id ts wr cnt :: get_ops f r
    | 1 :: wm :: rm :: st :: r => Restart (negb (wm =? 0)) (negb (rm =? 0)) st :: get_ops f r
    | _ => []
    end
  end.

Definition enc_path (p : path) : list N :=
  N.of_nat (length p) :: flat_map (fun cp => N.of_nat (length cp) :: cp) p.

Definition enc_dir (d : dir) : list N :=
  N.of_nat (length d) ::
  flat_map (fun e => enc_path (fst e) ++ [fsize (snd e); N.of_nat (length (snd e))] ++ map sid (snd e)) d.

Definition rot_run_enc (l : list N) : list N :=
  match l with
  | pf :: _json :: _zone :: sch :: fr :: iv :: _hh :: _mm :: gmt :: lim :: mb :: ov :: r0 =>
    let '(stem, r1) := get_comp r0 in
    let '(ext, r2) := get_comp r1 in
    match r2 with
    | nd :: r3 =>
      let '(d0, r4) := get_decoys (N.to_nat nd) r3 in
      match r4 with
      | nt :: r5 =>
        let '(tab, r6) := get_tab (N.to_nat nt) r5 in
        let cf := {| c_prefix := N.testbit pf 0; c_cntacct := N.testbit pf 1; c_plus24 := N.testbit pf 2;
                     c_gmt := negb (gmt =? 0);
                     c_scheme := if sch =? 0 then SIndex else if sch =? 1 then SDate else SDateTime;
                     c_freq := if fr =? 0 then FDisabled else if fr =? 1 then FDaily
                               else if fr =? 2 then FHourly else FMinutely;
                     c_interval := iv; c_limit := lim; c_maxb := mb; c_over := negb (ov =? 0);
                     c_stem := stem; c_ext := ext |} in
        let s0 := {| fs := d0; dq := []; fsz := 0; ots := 0; nrt := 0; g_hist := []; g_del := [] |} in
        flat_map (fun s => enc_dir (fs s))
                 (rot_trace (tab_strf tab) (tab_rtm tab) cf s0 (get_ops (length r6) r6))
      | [] => []
      end
    | [] => []
    end
  | _ => []
  end.
