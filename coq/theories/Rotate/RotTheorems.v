(* Closed statements of C14 / C15 over M-ROT (all premises explicit), used by Props/Properties_C14.v
   and Props/Properties_C15.v. *)
From Coq Require Import List NArith Bool Lia Sorted.
From Quill Require Import Rotate.RotFS Rotate.RotFSProofs Rotate.RotModel Rotate.RotChain Rotate.RotInv
  Rotate.RotRun Rotate.RotRestart Rotate.RotProps Rotate.RotSched.
Import ListNotations.
Open Scope N_scope.

Lemma NoDup_app_r : forall A (l1 l2 : list A), NoDup (l1 ++ l2) -> NoDup l2.
Proof. induction l1 as [|a l1 IH]; intros l2 H; auto. inversion H; subst. apply IH; auto. Qed.

Definition run0 (strf : N -> N -> comp) (rtm : N -> N -> N) (c : cfg) (wm rm : bool) (start : N) (d0 : dir)
  (ops : list rop) : rstate :=
  rot_run strf rtm c (construct strf rtm c wm rm start d0) ops.

Lemma run_app : forall strf rtm c s a b,
  rot_run strf rtm c s (a ++ b) = rot_run strf rtm c (rot_run strf rtm c s a) b.
Proof. intros. unfold rot_run. apply fold_left_app. Qed.

Section C14.
Variable strf : N -> N -> comp.
Variable rtm : N -> N -> N.
Variable c : cfg.
Hypothesis strf_nonempty : forall k t, strf k t <> [].
Variables (wm rm : bool) (start : N) (d0 : dir) (ops : list rop).
Hypothesis Hinit : init_ok c wm d0.
Hypothesis Hops : Forall (ok_op c) ops.

Notation s0 := (construct strf rtm c wm rm start d0).
Notation sN := (run0 strf rtm c wm rm start d0 ops).
Notation L0 := (fs_content (live_path c) (fs s0)).

Lemma sN_good : Good c d0 sN.
Proof. unfold run0. apply run_good; auto. apply init_good; auto. Qed.

Lemma retained_s0 : retained s0 = L0.
Proof.
  destruct Hinit as [CL [ND OK]].
  destruct (construct_clean_full strf rtm c wm rm start d0 CL OK) as [_ DQ].
  rewrite (retained_head c s0 start [] DQ). reflexivity.
Qed.

Theorem rot_order_thm :
  exists del, del ++ retained sN = L0 ++ writes_of ops /\
              (c_over c = false -> Forall no_w ops -> del = []).
Proof.
  destruct (run_order strf rtm c strf_nonempty d0 ops s0 (init_good strf rtm c wm rm start d0 Hinit) Hops) as [X [A B]].
  exists X. rewrite retained_s0 in A. auto.
Qed.

Theorem rot_whole_thm :
  NoDup (map sid (L0 ++ writes_of ops)) ->
  NoDup (map sid (retained sN)) /\ incl (retained sN) (L0 ++ writes_of ops).
Proof.
  intro ND. destruct rot_order_thm as [del [E _]]. rewrite <- E in *. split.
  - rewrite map_app in ND. apply NoDup_app_r in ND. exact ND.
  - apply incl_appr. apply incl_refl.
Qed.

Theorem rot_limit_thm : c_limit c <> 0 -> Lim c sN.
Proof. intro L. apply (F_lim c d0 sN (G_full c d0 sN sN_good) L). Qed.

Theorem rot_count_thm :
  (exists t rest, dq sN = mk_live c t :: rest /\ N.of_nat (length rest) <= c_maxb c) /\
  NoDup (names (dq sN)) /\
  (forall p, related c p -> (fs_get p (fs sN) <> None <-> In p (names (dq sN)))) /\
  (c_over c = false -> Forall no_w ops -> retained sN = L0 ++ writes_of ops).
Proof.
  pose proof (G_full c d0 sN sN_good) as HF. pose proof (F_inv c d0 sN HF) as HI.
  split; [|split; [|split]].
  - destruct (I_head c sN HI) as [rest [E _]]. exists (ots sN), rest. split; auto.
    pose proof (F_cnt c d0 sN HF) as HC. unfold Cnt in HC. rewrite E in HC. cbn [length] in HC. lia.
  - apply (inv_nodup c); auto.
  - apply (I_disk c sN HI).
  - intros O NW. destruct rot_order_thm as [del [E D]]. rewrite (D O NW) in E. exact E.
Qed.

Theorem rot_append_restart_thm : is_index c = true -> forall rm' st,
  let s' := construct strf rtm c false rm' st (fs sN) in
  fs s' = fs sN /\ dq s' = mk_live c st :: map forget (tl (dq sN)) /\ retained s' = retained sN /\ Good c d0 s'.
Proof.
  intros Hidx rm' st. pose proof sN_good as HG.
  destruct (restart_append strf rtm c Hidx d0 rm' st sN (G_full c d0 sN HG) (G_keys c d0 sN HG)) as [E1 [E2 E3]].
  cbn zeta. split; auto. split; auto. split.
  - destruct (step_order strf rtm c strf_nonempty d0 sN (Restart false rm' st) HG) as [X [A B]].
    + cbn [ok_op]. auto.
    + cbn [rot_step writes_of flat_map] in A. rewrite app_nil_r in A.
      pose proof (I_head c sN (F_inv c d0 sN (G_full c d0 sN HG))) as [rest [E F]].
      rewrite (retained_head c _ st _ E2), E1, (retained_head c sN (ots sN) rest E), E. cbn [tl].
      rewrite <- map_rev, contents_forget. reflexivity.
  - constructor; auto. rewrite E1. apply (G_keys c d0 sN HG).
Qed.

(* Date scheme, partial: what an append-mode restart recovers (the all-history invariant with the
   unrecovered older files is not proved) *)
Theorem rot_append_restart_date_thm : c_scheme c = SDate -> forall rm' st,
  8 <= N.of_nat (length (strf 0 (st / NS))) ->
  (forall f, In f (tl (dq sN)) -> dec (fidx f) <> strf 0 (st / NS)) ->
  let s' := construct strf rtm c false rm' st (fs sN) in
  fs s' = fs sN /\
  dq s' = mk_live c st :: map forget (filter (today_of (strf 0 (st / NS))) (tl (dq sN))).
Proof.
  intros Hd rm' st L8 Hdi. pose proof sN_good as HG.
  pose proof (F_inv c d0 sN (G_full c d0 sN HG)) as HI.
  destruct (inv_live_exists c sN HI) as [cl G].
  cbn zeta. rewrite construct_state. cbn zeta. rewrite Hd. cbn [andb negb fs dq]. rewrite andb_false_r.
  assert (FS : fs_open false (live_path c) (fs sN) = fs sN) by (unfold fs_open; rewrite G; auto).
  rewrite FS. split; auto.
  rewrite (recover_date c Hd _ sN HI (G_keys c d0 sN HG) L8 Hdi). reflexivity.
Qed.

Theorem rot_names_index_thm : is_index c = true ->
  StronglySorted (fun a b => fidx a < fidx b) (dq sN) /\
  Forall (fun f => fname f = [c_stem c; dec (fidx f); c_ext c]) (tl (dq sN)).
Proof. intro Hidx. apply index_sorted; auto. apply (F_inv c d0 sN (G_full c d0 sN sN_good)). Qed.

Theorem rot_decoys_untouched_thm : forall p, ~ related c p -> fs_get p (fs sN) = fs_get p d0.
Proof. apply (F_unrel c d0 sN (G_full c d0 sN sN_good)). Qed.

End C14.

Section C15.
Variable strf : N -> N -> comp.
Variable rtm : N -> N -> N.
Variable c : cfg.
Hypothesis strf_nonempty : forall k t, strf k t <> [].
Variables (wm rm : bool) (start : N) (d0 : dir).
Variable pt : N -> Prop.
Hypothesis Hover : c_over c = true.
Hypothesis Hfreq : c_freq c <> FDisabled.
Hypothesis HNA : NA_ok rtm c start pt.
Hypothesis HINIT : INIT_ok rtm c start pt.
Hypothesis Hclean : clean c d0.
Hypothesis Hempty : wm = false -> fs_content (live_path c) d0 = [].

Notation s0 := (construct strf rtm c wm rm start d0).

Lemma s0_inv : Inv c s0.
Proof.
  apply (F_inv c d0). apply construct_clean_full; auto.
  intros W _. rewrite (Hempty W). apply ok_size_nil.
Qed.

Lemma s0_tinv : TInv c start pt (N.max start 0) s0.
Proof. replace (N.max start 0) with start by lia. apply construct_tinv; auto. Qed.

Lemma s0_dq : dq s0 = [mk_live c start].
Proof.
  apply construct_clean_full; auto. intros W _. rewrite (Hempty W). apply ok_size_nil.
Qed.

Theorem separates_thm : forall ops, mono 0 ops ->
  forall f, In f (dq (run0 strf rtm c wm rm start d0 ops)) ->
  cell_ok start pt (fs_content (fname f) (fs (run0 strf rtm c wm rm start d0 ops))).
Proof.
  intros ops HM f Hf.
  destruct (run_tinv strf rtm c strf_nonempty start pt HNA Hover Hfreq ops 0 s0 s0_inv s0_tinv HM) as [_ HT].
  apply (T_cell c start pt _ _ HT f Hf).
Qed.

Theorem shares_thm : forall ops1 id ts wr cnt mid hi,
  mono 0 (ops1 ++ Write id ts wr cnt :: mid) ->
  quiet strf rtm c (run0 strf rtm c wm rm start d0 (ops1 ++ [Write id ts wr cnt])) mid ->
  below hi mid ->
  (forall g, pt g -> start < g -> ts < g -> hi < g) ->
  In (mkStmt id ts wr) (fs_content (live_path c) (fs (run0 strf rtm c wm rm start d0 (ops1 ++ Write id ts wr cnt :: mid)))).
Proof.
  intros ops1 id ts wr cnt mid hi HM HQ HB NP.
  change (ops1 ++ Write id ts wr cnt :: mid) with (ops1 ++ [Write id ts wr cnt] ++ mid) in *.
  rewrite app_assoc in HM. rewrite app_assoc. unfold run0 in *. rewrite run_app.
  apply mono_app in HM as [M1 M2].
  destruct (run_tinv strf rtm c strf_nonempty start pt HNA Hover Hfreq _ 0 s0 s0_inv s0_tinv M1) as [HI1 HT1].
  apply (shares_run strf rtm c strf_nonempty start pt HNA Hover Hfreq mid _ _ _ hi HI1 HT1 M2 HQ HB); [|exact NP].
  (* the statement is in the live file right after its write *)
  rewrite run_app. unfold rot_run at 1. cbn [fold_left rot_step]. rewrite write_log_eq.
  apply mono_app in M1 as [M1a _].
  destruct (run_tinv strf rtm c strf_nonempty start pt HNA Hover Hfreq ops1 0 s0 s0_inv s0_tinv M1a) as [HIa _].
  pose proof (pre_write_inv strf rtm c strf_nonempty ts (acct c wr cnt) _ HIa) as HI2.
  unfold fs_content. cbn [do_append fs]. rewrite append_get by auto. rewrite path_eqb_refl.
  apply in_or_app. right. left. reflexivity.
Qed.

End C15.

Section C15name.
Variable strf : N -> N -> comp.
Variable rtm : N -> N -> N.
Variable c : cfg.
Hypothesis strf_nonempty : forall k t, strf k t <> [].
Variables (wm rm : bool) (start : N) (d0 : dir).
Hypothesis Hclean : clean c d0.
Hypothesis Hempty : wm = false -> fs_content (live_path c) d0 = [].

Notation s0 := (construct strf rtm c wm rm start d0).

Lemma run_inv_mono : forall ops prev s, Inv c s -> mono prev ops -> Inv c (rot_run strf rtm c s ops).
Proof.
  induction ops as [|o ops IH]; intros prev s HI HM; cbn [rot_run fold_left]; auto.
  destruct o as [id ts wr cnt | ? ? ?]; cbn [mono] in HM; [|destruct HM]. destruct HM as [_ [_ M3]].
  apply (IH ts); auto. cbn [rot_step]. apply write_log_inv; auto.
Qed.

Theorem name_thm : forall ops, mono 0 ops ->
  let sN := run0 strf rtm c wm rm start d0 ops in
  (exists rest, dq sN = mk_live c (ots sN) :: rest) /\
  forall f, In f (tl (dq sN)) ->
    fdt f = suffix strf c (g_open f) /\
    fname f = get_filename (live_path c) (fidx f) (suffix strf c (g_open f)).
Proof.
  intros ops HM. cbn zeta.
  assert (OK0 : wm = false -> c_limit c <> 0 -> ok_size c (fs_content (live_path c) d0)).
  { intros W _. rewrite (Hempty W). apply ok_size_nil. }
  destruct (construct_clean_full strf rtm c wm rm start d0 Hclean OK0) as [HF0 DQ0].
  pose proof (F_inv c d0 _ HF0) as HI0.
  pose proof (run_inv_mono ops 0 s0 HI0 HM) as HI.
  fold (run0 strf rtm c wm rm start d0 ops) in HI.
  assert (N0 : name_ok strf c s0) by (intros f Hf; rewrite DQ0 in Hf; destruct Hf).
  pose proof (run_name_ok strf rtm c strf_nonempty ops 0 s0 HI0 N0 HM) as HN.
  fold (run0 strf rtm c wm rm start d0 ops) in HN.
  destruct (I_head c _ HI) as [rest [E F]]. split; [exists rest; auto|].
  intros f Hf. split; [apply HN; auto|].
  rewrite E in Hf. cbn [tl] in Hf. rewrite Forall_forall in F. destruct (F f Hf) as [Fb _].
  unfold fname. rewrite Fb, <- (HN f); auto. rewrite E; auto.
Qed.

(* names carry the age, Date / DateAndTime: newer file => later-or-equal suffix (w.r.t. any order [dle]
   that strftime respects), equal suffix => smaller index *)
Theorem names_order_date_thm : forall (dle : comp -> comp -> Prop) ops,
  (forall t1 t2, t1 <= t2 -> dle (suffix strf c t1) (suffix strf c t2)) ->
  mono start ops ->
  let sN := run0 strf rtm c wm rm start d0 ops in
  StronglySorted (fun a b => dle (fdt b) (fdt a)) (tl (dq sN)) /\ ordp (dq sN).
Proof.
  intros dle ops Hmono HM. cbn zeta.
  assert (OK0 : wm = false -> c_limit c <> 0 -> ok_size c (fs_content (live_path c) d0)).
  { intros W _. rewrite (Hempty W). apply ok_size_nil. }
  destruct (construct_clean_full strf rtm c wm rm start d0 Hclean OK0) as [HF0 DQ0].
  pose proof (F_inv c d0 _ HF0) as HI0.
  assert (HM0 : mono 0 ops).
  { destruct ops as [|[id ts wr cnt|? ? ?] r]; cbn [mono] in *; auto. destruct HM as [_ [A B]]. split; [lia | auto]. }
  destruct (name_thm ops HM0) as [_ HN]. cbn zeta in HN.
  pose proof (run_inv_mono ops start s0 HI0 HM) as HI. fold (run0 strf rtm c wm rm start d0 ops) in HI.
  assert (S0 : open_sorted s0) by (unfold open_sorted; rewrite DQ0; repeat constructor).
  assert (O0 : ots s0 <= start) by (rewrite construct_state; cbn [ots]; lia).
  pose proof (run_open_sorted strf rtm c strf_nonempty ops start s0 HI0 S0 O0 HM) as HS.
  fold (run0 strf rtm c wm rm start d0 ops) in HS. unfold open_sorted in HS.
  split; [|apply (I_ord c _ HI)].
  destruct (I_head c _ HI) as [rest [E _]]. rewrite E in *. cbn [tl] in *.
  inversion HS as [|? ? HS' _]; subst. clear HS E.
  induction HS' as [|a l S IH F]; [constructor|]. constructor.
  - apply IH. intros f Hf. apply HN; right; auto.
  - rewrite Forall_forall in *. intros y Hy.
    destruct (HN a (or_introl eq_refl)) as [Ea _]. destruct (HN y (or_intror Hy)) as [Ey _].
    rewrite Ea, Ey. apply Hmono. apply F; auto.
Qed.

End C15name.
