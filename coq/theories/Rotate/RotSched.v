(* C15: the schedule invariant of M-ROT.  The rotation points of the schedule are an abstract set
   [pt] (instants in ns); what the model computes for the next point is tied to it by two premises
   (NA / INIT) that are discharged below for hourly / minutely rotation (pt = P0 + j * period) and,
   for daily rotation, follow from the grid property of the libc-derived next-point function. *)
From Coq Require Import List NArith Bool Lia Sorted.
From Quill Require Import Rotate.RotFS Rotate.RotFSProofs Rotate.RotModel Rotate.RotChain Rotate.RotInv Rotate.RotRun.
Import ListNotations.
Open Scope N_scope.

Section Sched.
Variable strf : N -> N -> comp.
Variable rtm : N -> N -> N.
Variable c : cfg.
Hypothesis strf_nonempty : forall k t, strf k t <> [].
Variable start : N.
Variable pt : N -> Prop.

Notation lp := (live_path c).
Notation rotate := (rotate_files strf c).
Notation INV := (Inv c).

(* the model's "next point after a rotation at record ts" is the first point of the schedule after ts *)
Definition NA_ok : Prop := forall ts s, pt (nrt s) -> start < nrt s -> nrt s <= ts ->
  let n := next_after rtm c ts s in ts < n /\ pt n /\ (forall g, pt g -> ts < g -> n <= g).
Hypothesis HNA : NA_ok.
Hypothesis Hover : c_over c = true.
Hypothesis Hfreq : c_freq c <> FDisabled.

Definition cell_ok (cs : list stmt) : Prop :=
  forall a b g, In a cs -> In b cs -> pt g -> start < g -> ~ (sts a < g /\ g <= sts b).

Record TInv (lo : N) (s : rstate) : Prop := {
  T_lo : start <= lo;
  T_pt : pt (nrt s);
  T_lt : lo < nrt s;
  T_min : forall g, pt g -> lo < g -> nrt s <= g;
  T_cell : forall f, In f (dq s) -> cell_ok (fs_content (fname f) (fs s));
  T_live : forall a, In a (fs_content lp (fs s)) ->
             sts a <= lo /\ 0 < swr a /\ (forall g, pt g -> start < g -> sts a < g -> nrt s <= g) }.

Lemma fsize_pos_nil : forall cs, (forall a, In a cs -> 0 < swr a) -> fsize cs = 0 -> cs = [].
Proof.
  intros cs H E. destruct cs as [|x cs]; auto. exfalso.
  rewrite fsize_cons in E. specialize (H x (or_introl eq_refl)). lia.
Qed.

Lemma time_due_spec : forall ts s, time_due c ts s = (nrt s <=? ts).
Proof. intros. unfold time_due. destruct (c_freq c); auto. contradiction. Qed.

Lemma not_stopped : forall s, stopped c s = false.
Proof. intro s. unfold stopped. rewrite Hover. apply andb_false_r. Qed.

(* after _rotate_files the live file is empty, whether or not the rotation fired *)
Lemma rotate_live_empty : forall lo ts s, INV s -> TInv lo s ->
  fsize (fs_content lp (fs s)) = 0 \/ rot_fires c s = true ->
  fs_content lp (fs (rotate ts s)) = [].
Proof.
  intros lo ts s HI HT H. destruct (rot_fires c s) eqn:F.
  - rewrite rotate_fires by auto. apply rotated_live; auto.
  - rewrite rotate_noop by auto. destruct H as [H|H]; [|discriminate].
    apply fsize_pos_nil; auto. intros a Ha. apply (T_live lo s HT a Ha).
Qed.

Lemma rotate_cells : forall lo ts s, INV s -> TInv lo s ->
  forall f, In f (dq (rotate ts s)) -> cell_ok (fs_content (fname f) (fs (rotate ts s))).
Proof.
  intros lo ts s HI HT f Hf. destruct (rot_fires c s) eqn:F.
  - rewrite rotate_fires in * by auto.
    assert (Hd : dq (rotated strf c ts s) = mk_live c ts :: tl (dq (rotated strf c ts s))) by reflexivity.
    rewrite Hd in Hf. destruct Hf as [Hf|Hf].
    + subst f. rewrite fname_live, rotated_live by auto. intros a b g [].
    + destruct (rotated_tail strf c strf_nonempty ts s f HI Hf) as [f0 [H0 [_ EC]]].
      rewrite EC. apply (T_cell lo s HT); auto.
  - rewrite rotate_noop in * by auto. apply (T_cell lo s HT); auto.
Qed.

Lemma rot_fires_or_empty : forall s, rot_fires c s = true \/ fsize (fs_content lp (fs s)) = 0.
Proof.
  intro s. destruct (rot_fires c s) eqn:F; auto. right.
  destruct (nofire_cases c s F) as [X|X]; auto. rewrite not_stopped in X. discriminate.
Qed.

(* one write_log step *)
Lemma write_tinv : forall lo id ts wr cnt s,
  INV s -> TInv lo s -> lo <= N.max start ts -> 0 < wr ->
  TInv (N.max start ts) (write_log strf rtm c id ts wr cnt s).
Proof.
  intros lo id ts wr cnt s HI HT Hlo Hwr.
  rewrite write_log_eq.
  set (b := mkStmt id ts wr).
  set (lo' := N.max start ts).
  pose proof (T_lo lo s HT) as L0. pose proof (T_pt lo s HT) as L1. pose proof (T_lt lo s HT) as L2.
  pose proof (T_min lo s HT) as L3.
  pose proof (pre_write_inv strf rtm c strf_nonempty ts cnt s HI) as HI2.
  (* the state before the append: invariant at lo', live file either unchanged (ts before the next point) or empty *)
  assert (PW : TInv lo' (pre_write strf rtm c ts cnt s) /\
               (fs_content lp (fs (pre_write strf rtm c ts cnt s)) = [] \/
                (fs_content lp (fs (pre_write strf rtm c ts cnt s)) = fs_content lp (fs s) /\ ts < nrt s /\
                 nrt (pre_write strf rtm c ts cnt s) = nrt s))).
  { destruct (pre_write_cases strf rtm c ts cnt s) as [[TD E] | [[TD [SD E]] | [TD [SD E]]]]; rewrite E.
    - (* time rotation *)
      rewrite time_due_spec in TD. apply N.leb_le in TD.
      destruct (HNA ts s L1 ltac:(lia) TD) as [N1 [N2 N3]].
      assert (El : lo' = ts) by (unfold lo'; lia).
      assert (LE : fs_content lp (fs (rotate ts s)) = []).
      { apply (rotate_live_empty lo); auto. destruct (rot_fires_or_empty s); auto. }
      split; [|left; exact LE].
      constructor; cbn [set_nrt nrt fs dq]; try rewrite El; auto; try lia.
      + apply (rotate_cells lo); auto.
      + rewrite LE. intros a [].
    - (* size rotation *)
      rewrite time_due_spec in TD. apply N.leb_gt in TD.
      assert (NR : nrt (rotate ts s) = nrt s).
      { destruct (rot_fires c s) eqn:F; [rewrite rotate_fires by auto; reflexivity | rewrite rotate_noop by auto; reflexivity]. }
      destruct (rot_fires c s) eqn:F.
      + assert (LE : fs_content lp (fs (rotate ts s)) = []) by (apply (rotate_live_empty lo); auto).
        split; [|left; exact LE].
        constructor; try rewrite NR; auto; try (unfold lo'; lia).
        * intros g G1 G2. apply L3; auto. unfold lo' in G2. lia.
        * apply (rotate_cells lo); auto.
        * rewrite LE. intros a [].
      + rewrite rotate_noop by auto. split; [|right; auto].
        constructor; auto; try (unfold lo'; lia).
        * intros g G1 G2. apply L3; auto. unfold lo' in G2. lia.
        * apply (T_cell lo s HT).
        * intros a Ha. destruct (T_live lo s HT a Ha) as [A1 [A2 A3]]. repeat split; auto. unfold lo'; lia.
    - rewrite time_due_spec in TD. apply N.leb_gt in TD. split; [|right; auto].
      constructor; auto; try (unfold lo'; lia).
      + intros g G1 G2. apply L3; auto. unfold lo' in G2. lia.
      + apply (T_cell lo s HT).
      + intros a Ha. destruct (T_live lo s HT a Ha) as [A1 [A2 A3]]. repeat split; auto. unfold lo'; lia. }
  destruct PW as [HT2 LV].
  set (s2 := pre_write strf rtm c ts cnt s) in *.
  assert (CL : fs_content lp (fs (do_append c b cnt s2)) = fs_content lp (fs s2) ++ [b]).
  { unfold fs_content at 1. cbn [do_append fs]. rewrite append_get by auto. rewrite path_eqb_refl; auto. }
  assert (Bnew : forall g, pt g -> start < g -> sts b < g -> nrt s2 <= g).
  { intros g G1 G2 G3. apply (T_min lo' s2 HT2); auto. unfold lo'. cbn [b sts] in G3. lia. }
  assert (LiveCell : cell_ok (fs_content lp (fs s2) ++ [b])).
  { intros x y g Hx Hy G1 G2 [G3 G4]. apply in_app_or in Hx. apply in_app_or in Hy.
    destruct Hx as [Hx|[Hx|[]]]; destruct Hy as [Hy|[Hy|[]]].
    - apply (T_cell lo' s2 HT2 (mk_live c (ots s2))) with (a := x) (b := y) (g := g); auto.
      destruct (I_head c s2 HI2) as [rest [E _]]. rewrite E. left; auto.
    - subst y. cbn [b sts] in G4.
      destruct LV as [LV | [LV1 [LV2 LV3]]]; [rewrite LV in Hx; destruct Hx|].
      destruct (T_live lo' s2 HT2 x Hx) as [_ [_ A3]]. specialize (A3 g G1 G2 G3). rewrite LV3 in A3. lia.
    - subst x. cbn [b sts] in G3. destruct (T_live lo' s2 HT2 y Hy) as [A1 _]. unfold lo' in A1. lia.
    - subst x y. lia. }
  constructor; cbn [do_append nrt dq fs]; try apply HT2.
  - intros f Hf. unfold fs_content. rewrite append_get by auto.
    destruct (path_eqb (fname f) lp) eqn:E.
    + exact LiveCell.
    + apply (T_cell lo' s2 HT2 f Hf).
  - intros a Ha. change (fs_append lp b (fs s2)) with (fs (do_append c b cnt s2)) in Ha. rewrite CL in Ha.
    apply in_app_or in Ha. destruct Ha as [Ha|[Ha|[]]].
    + apply (T_live lo' s2 HT2 a Ha).
    + subst a. split; [cbn [b sts]; unfold lo'; lia | split; [exact Hwr | exact Bnew]].
Qed.

(* the constructor establishes the invariant (live file empty) *)
Definition INIT_ok : Prop :=
  let n := init_tp rtm c start in start < n /\ pt n /\ (forall g, pt g -> start < g -> n <= g).

Lemma construct_tinv : forall wm rm d0, INIT_ok -> clean c d0 -> (wm = false -> fs_content lp d0 = []) ->
  TInv start (construct strf rtm c wm rm start d0).
Proof.
  intros wm rm d0 [I1 [I2 I3]] CL E0.
  assert (OK0 : wm = false -> c_limit c <> 0 -> ok_size c (fs_content lp d0)).
  { intros W _. rewrite (E0 W). apply ok_size_nil. }
  destruct (construct_clean_full strf rtm c wm rm start d0 CL OK0) as [HF DQ].
  assert (NRT : nrt (construct strf rtm c wm rm start d0) = init_tp rtm c start).
  { rewrite construct_state. cbn [nrt]. destruct (c_freq c); auto. contradiction. }
  assert (LV : fs_content lp (fs (construct strf rtm c wm rm start d0)) = []).
  { rewrite construct_state. cbn zeta. cbn [fs]. unfold fs_content at 1. rewrite fs_get_open_same.
    destruct wm; auto. rewrite andb_false_r. apply E0; auto. }
  constructor; try rewrite NRT; auto; try lia.
  - rewrite DQ. intros f [Hf|[]]. subst f. rewrite fname_live, LV. intros a b g [].
  - rewrite LV. intros a [].
Qed.

(* ---------- C15_shares: without a point and without a size rotation the statements stay together ---------- *)
Definition size_rotates (ts cnt : N) (s : rstate) : bool :=
  negb (time_due c ts s) && size_due c cnt s && rot_fires c s.

Lemma write_keeps_live : forall lo id ts wr cnt s a,
  INV s -> TInv lo s -> ts < nrt s -> size_rotates ts cnt s = false ->
  In a (fs_content lp (fs s)) ->
  In a (fs_content lp (fs (write_log strf rtm c id ts wr cnt s))).
Proof.
  intros lo id ts wr cnt s a HI HT Hts SR Ha.
  rewrite write_log_eq.
  assert (E : fs_content lp (fs (pre_write strf rtm c ts cnt s)) = fs_content lp (fs s)).
  { unfold size_rotates in SR. rewrite time_due_spec in SR.
    destruct (pre_write_cases strf rtm c ts cnt s) as [[TD _] | [[TD [SD E]] | [TD [SD E]]]].
    - rewrite time_due_spec in TD. apply N.leb_le in TD. lia.
    - rewrite E. rewrite time_due_spec in TD. rewrite TD, SD in SR. cbn [negb andb] in SR.
      rewrite rotate_noop by auto. reflexivity.
    - rewrite E. reflexivity. }
  pose proof (pre_write_inv strf rtm c strf_nonempty ts cnt s HI) as HI2.
  unfold fs_content at 1. cbn [do_append fs]. rewrite append_get by auto. rewrite path_eqb_refl.
  apply in_or_app. left. rewrite E. exact Ha.
Qed.

End Sched.

(* ---------- the premises NA_ok / INIT_ok discharged ---------- *)
Section Grids.
Variable rtm : N -> N -> N.
Variable c : cfg.
Variable start : N.
Hypothesis Hpre : c_prefix c = false.

Lemma NS_pos : 0 < NS. Proof. reflexivity. Qed.

(* hourly / minutely: the schedule is P0 + j * period *)
Definition grid_pt (g : N) : Prop := exists j, g = init_tp rtm c start + j * period c.

Lemma advance_spec : forall n ts, 0 < period c -> n <= ts ->
  let a := advance c n ts in
  ts < a /\ (exists q, a = n + (q + 1) * period c) /\
  (forall k, ts < n + k * period c -> a <= n + k * period c).
Proof.
  intros n ts Hp Hle. unfold advance. cbn zeta.
  set (p := period c) in *. set (d := ts - n).
  pose proof (N.div_mod d p ltac:(lia)) as DM.
  pose proof (N.mod_lt d p ltac:(lia)) as ML.
  set (q := d / p) in *. set (r := d mod p) in *.
  assert (Ets : ts = n + p * q + r) by (unfold d in DM; lia).
  repeat split.
  - nia.
  - exists q. lia.
  - intros k Hk. destruct (N.le_gt_cases (q + 1) k) as [X|X]; [nia|].
    exfalso. assert (k <= q) by lia. assert (k * p <= q * p) by (apply N.mul_le_mono_r; auto). nia.
Qed.

Lemma NA_hourly_minutely :
  (c_freq c = FHourly \/ c_freq c = FMinutely) -> 0 < c_interval c ->
  NA_ok rtm c start grid_pt.
Proof.
  intros Hf Hi ts s [j Ej] _ Hle. cbn zeta.
  assert (Hp : 0 < period c).
  { unfold period. destruct Hf as [E|E]; rewrite E; unfold NS; lia. }
  assert (NX : next_after rtm c ts s = advance c (nrt s) ts).
  { unfold next_after. rewrite Hpre. destruct Hf as [E|E]; rewrite E; reflexivity. }
  rewrite NX. destruct (advance_spec (nrt s) ts Hp Hle) as [A1 [[q A2] A3]].
  repeat split; auto.
  - exists (j + q + 1). rewrite A2, Ej. lia.
  - intros g [k Ek] Hg. rewrite Ek in *. rewrite Ej in *.
    destruct (N.le_gt_cases j k) as [X|X].
    + replace (init_tp rtm c start + k * period c) with (init_tp rtm c start + j * period c + (k - j) * period c) in * by nia.
      apply A3. exact Hg.
    + exfalso. assert (k * period c <= j * period c) by (apply N.mul_le_mono_r; lia). lia.
Qed.

(* hourly / minutely (and daily before the C15-daily-dst fix): one mktime, then + 24 h when it is not ahead *)
Lemma init_tp_plain : dst_fixed c = false -> forall t,
  init_tp rtm c t = (if t / NS <? rtm 0 (t / NS) then rtm 0 (t / NS) else rtm 0 (t / NS) + 86400) * NS.
Proof. intros E t. unfold init_tp. rewrite E. reflexivity. Qed.

Lemma not_daily_plain : (c_freq c = FHourly \/ c_freq c = FMinutely) -> dst_fixed c = false.
Proof. intros [E|E]; unfold dst_fixed, is_daily; rewrite E; reflexivity. Qed.

Lemma init_tp_later : dst_fixed c = false -> forall t, t / NS < rtm 0 (t / NS) -> t < init_tp rtm c t.
Proof.
  intros DF t H. rewrite init_tp_plain by auto. apply N.ltb_lt in H. rewrite H. apply N.ltb_lt in H.
  pose proof (N.div_mod t NS ltac:(unfold NS; lia)) as DM.
  pose proof (N.mod_lt t NS ltac:(unfold NS; lia)) as ML.
  nia.
Qed.

Lemma INIT_hourly_minutely : (c_freq c = FHourly \/ c_freq c = FMinutely) ->
  start / NS < rtm 0 (start / NS) -> INIT_ok rtm c start grid_pt.
Proof.
  intros Hf H. unfold INIT_ok. cbn zeta. repeat split.
  - apply init_tp_later; auto. apply not_daily_plain; auto.
  - exists 0. lia.
  - intros g [j Ej] _. lia.
Qed.

(* daily: the stated hypothesis is the grid property of the libc-derived next-point function *)
Variable is_pt : N -> Prop.     (* "g is an instant HH:MM:00 of the sink's zone" *)
Definition grid_property : Prop :=
  forall t, start <= t -> t < init_tp rtm c t /\ is_pt (init_tp rtm c t) /\
                          (forall g, is_pt g -> t < g -> init_tp rtm c t <= g).

Lemma NA_daily : c_freq c = FDaily -> grid_property -> NA_ok rtm c start is_pt.
Proof.
  intros Hf HG ts s _ H1 H2. unfold next_after. rewrite Hpre, Hf. apply HG; lia.
Qed.

Lemma INIT_daily : grid_property -> INIT_ok rtm c start is_pt.
Proof. intro HG. unfold INIT_ok. apply HG; lia. Qed.

End Grids.

(* ---------- daily rotation, the repaired code (c_plus24 = false), local time ----------
   _calculate_initial_rotation_tp asks mktime for HH:MM:00 of the day of "now" with tm_isdst = -1 and, when
   that instant is not ahead, for HH:MM:00 of the next day (tm_mday + 1, tm_isdst = -1).  libc is described
   by the local calendar: [day t] = the local day (number) of instant t, [at_hm d] = the instant mktime
   returns for HH:MM:00 of local day d.  Premises on libc only: local days do not go backwards in time;
   the instant returned for day d lies in day d; the two oracle calls are [at_hm] of today / tomorrow.
   No premise about DST: a local day may have 23, 24, 25 ... hours.  Conclusion: the grid property for
   the points  { at_hm d }  - the premise of NA_daily / INIT_daily. *)
Section DailyFixed.
Variable rtm : N -> N -> N.
Variable c : cfg.
Variable start : N.
Hypothesis Hdaily : c_freq c = FDaily.
Hypothesis Hfix : c_plus24 c = false.
Hypothesis Hloc : c_gmt c = false.
Variable day : N -> N.
Variable at_hm : N -> N.
Hypothesis day_mono : forall t1 t2, t1 <= t2 -> day t1 <= day t2.
Hypothesis day_at : forall d, day (at_hm d) = d.
Hypothesis rtm_today : forall t, start / NS <= t -> rtm 1 t = at_hm (day t).
Hypothesis rtm_tomorrow : forall t, start / NS <= t -> rtm 2 t = at_hm (day t + 1).

Definition hm_pt (g : N) : Prop := exists d, g = at_hm d * NS.

Lemma dst_fixed_true : dst_fixed c = true.
Proof. unfold dst_fixed, is_daily. rewrite Hdaily, Hfix. reflexivity. Qed.

Lemma at_hm_mono : forall d1 d2, at_hm d1 <= at_hm d2 -> d1 <= d2.
Proof. intros d1 d2 H. rewrite <- (day_at d1), <- (day_at d2). apply day_mono; auto. Qed.

Lemma daily_grid_fixed : grid_property rtm c start hm_pt.
Proof.
  intros t Hst. unfold init_tp. rewrite dst_fixed_true, Hloc.
  pose proof (N.div_mod t NS ltac:(unfold NS; lia)) as DM.
  pose proof (N.mod_lt t NS ltac:(unfold NS; lia)) as ML.
  assert (NSv : NS = 1000000000) by reflexivity.
  assert (Hnow : start / NS <= t / NS) by (apply N.div_le_mono; [unfold NS; lia | auto]).
  set (now := t / NS) in *. set (fr := t mod NS) in *.
  rewrite (rtm_today now Hnow), (rtm_tomorrow now Hnow).
  (* an HH:MM instant after t is after now (in seconds) *)
  assert (AFTER : forall d, t < at_hm d * NS -> now < at_hm d).
  { intros d H. destruct (N.lt_ge_cases now (at_hm d)) as [X|X]; auto. exfalso. nia. }
  assert (DAYLE : forall d, now < at_hm d -> day now <= d).
  { intros d H. rewrite <- (day_at d). apply day_mono. lia. }
  destruct (now <? at_hm (day now)) eqn:C.
  - apply N.ltb_lt in C. split; [nia|]. split; [exists (day now); reflexivity|].
    intros g [d Eg] Hg. subst g. specialize (AFTER d Hg). specialize (DAYLE d AFTER).
    destruct (N.le_gt_cases (at_hm (day now)) (at_hm d)) as [X|X]; [nia|]. exfalso.
    assert (d <= day now) by (apply at_hm_mono; lia).
    assert (d = day now) by lia. subst d. lia.
  - apply N.ltb_ge in C.
    assert (NX : now < at_hm (day now + 1)).
    { destruct (N.lt_ge_cases now (at_hm (day now + 1))) as [X|X]; auto. exfalso.
      pose proof (day_mono _ _ X) as Y. rewrite day_at in Y. lia. }
    apply N.ltb_lt in NX. rewrite NX. apply N.ltb_lt in NX.
    split; [nia|]. split; [exists (day now + 1); reflexivity|].
    intros g [d Eg] Hg. subst g. specialize (AFTER d Hg). specialize (DAYLE d AFTER).
    destruct (N.le_gt_cases (at_hm (day now + 1)) (at_hm d)) as [X|X]; [nia|]. exfalso.
    assert (d <= day now + 1) by (apply at_hm_mono; lia).
    assert (d = day now \/ d = day now + 1) as [E|E] by lia; subst d; lia.
Qed.

End DailyFixed.

(* ---------- run-level statements of C15 ---------- *)
Section Runs.
Variable strf : N -> N -> comp.
Variable rtm : N -> N -> N.
Variable c : cfg.
Hypothesis strf_nonempty : forall k t, strf k t <> [].
Variable start : N.
Variable pt : N -> Prop.
Hypothesis HNA : NA_ok rtm c start pt.
Hypothesis Hover : c_over c = true.
Hypothesis Hfreq : c_freq c <> FDisabled.

Notation lp := (live_path c).
Notation step := (rot_step strf rtm c).
Notation run := (rot_run strf rtm c).
Notation TINV := (TInv c start pt).

(* one run: only writes, positive sizes, non-decreasing timestamps (prev = the previous timestamp) *)
Fixpoint mono (prev : N) (ops : list rop) : Prop :=
  match ops with
  | [] => True
  | Write _ ts wr _ :: r => prev <= ts /\ 0 < wr /\ mono ts r
  | Restart _ _ _ :: _ => False
  end.

Fixpoint last_ts (prev : N) (ops : list rop) : N :=
  match ops with
  | [] => prev
  | Write _ ts _ _ :: r => last_ts ts r
  | Restart _ _ _ :: r => last_ts prev r
  end.

Lemma run_tinv : forall ops prev s, Inv c s -> TINV (N.max start prev) s -> mono prev ops ->
  Inv c (run s ops) /\ TINV (N.max start (last_ts prev ops)) (run s ops).
Proof.
  induction ops as [|o ops IH]; intros prev s HI HT HM; cbn [rot_run fold_left last_ts]; auto.
  destruct o as [id ts wr cnt | wm rm st]; cbn [mono] in HM; [|destruct HM].
  destruct HM as [M1 [M2 M3]].
  apply (IH ts); auto.
  - cbn [rot_step]. apply write_log_inv; auto.
  - cbn [rot_step]. apply (write_tinv strf rtm c strf_nonempty start pt HNA Hover Hfreq (N.max start prev)); auto. lia.
Qed.

Lemma mono_app : forall a b prev, mono prev (a ++ b) <-> mono prev a /\ mono (last_ts prev a) b.
Proof.
  induction a as [|o a IH]; intros b prev; cbn [app mono last_ts]; [tauto|].
  destruct o; [|tauto]. rewrite IH. tauto.
Qed.

(* no size rotation fires along the ops *)
Fixpoint quiet (s : rstate) (ops : list rop) : Prop :=
  match ops with
  | [] => True
  | o :: r => match o with Write _ ts wr cnt => size_rotates c ts (acct c wr cnt) s = false | _ => False end /\ quiet (step s o) r
  end.
Definition below (hi : N) (ops : list rop) : Prop :=
  Forall (fun o => match o with Write _ ts _ _ => ts <= hi | _ => False end) ops.

Lemma shares_run : forall ops prev s a hi, Inv c s -> TINV (N.max start prev) s -> mono prev ops ->
  quiet s ops -> below hi ops -> In a (fs_content lp (fs s)) ->
  (forall g, pt g -> start < g -> sts a < g -> hi < g) ->
  In a (fs_content lp (fs (run s ops))).
Proof.
  induction ops as [|o ops IH]; intros prev s a hi HI HT HM HQ HB Ha NP; cbn [rot_run fold_left]; auto.
  destruct o as [id ts wr cnt | wm rm st]; cbn [mono quiet] in HM, HQ; [|destruct HM].
  destruct HM as [M1 [M2 M3]]. destruct HQ as [Q1 Q2]. inversion HB as [|? ? B1 B2]; subst.
  assert (Lt : ts < nrt s).
  { destruct (N.lt_ge_cases ts (nrt s)) as [X|X]; auto. exfalso.
    destruct (T_live c start pt _ s HT a Ha) as [A1 _].
    pose proof (T_lt c start pt _ s HT) as A2. pose proof (T_lo c start pt _ s HT) as A3.
    specialize (NP (nrt s) (T_pt c start pt _ s HT) ltac:(lia) ltac:(lia)). lia. }
  apply (IH ts) with (hi := hi); auto.
  - cbn [rot_step]. apply write_log_inv; auto.
  - cbn [rot_step]. apply (write_tinv strf rtm c strf_nonempty start pt HNA Hover Hfreq (N.max start prev)); auto. lia.
  - cbn [rot_step]. apply (write_keeps_live strf rtm c strf_nonempty start pt Hfreq (N.max start prev)); auto.
Qed.

(* C15_name: the suffix of a rotated file is strftime of the instant it was opened *)
Definition name_ok (s : rstate) : Prop := forall f, In f (tl (dq s)) -> fdt f = suffix strf c (g_open f).

Lemma bump_gopen : forall sfx f, g_open (bump c sfx f) = g_open f.
Proof. intros. unfold bump. destruct (_ || _); auto. destruct (comp_empty _); auto. Qed.

Lemma rotate_name_ok : forall ts s, Inv c s -> name_ok s -> name_ok (rotate_files strf c ts s).
Proof.
  intros ts s HI HN. destruct (rot_fires c s) eqn:F.
  2:{ rewrite rotate_noop by auto. auto. }
  rewrite rotate_fires by auto. intros f Hf.
  destruct (rotated_tail strf c strf_nonempty ts s f HI Hf) as [f0 [H0 [E _]]]. subst f.
  rewrite bump_gopen. destruct (I_head c s HI) as [rest [Ed Fr]]. rewrite Ed in H0. destruct H0 as [H0|H0].
  - subst f0. destruct (bump_live strf c strf_nonempty (ots s) (ots s)) as [_ [_ X]]. rewrite X. reflexivity.
  - rewrite Forall_forall in Fr. destruct (bump_rot strf c strf_nonempty (ots s) f0 (Fr f0 H0)) as [_ [[Y1 [_ Y3]] | [_ Y2]]].
    + rewrite Y3, <- Y1. apply HN. rewrite Ed; auto.
    + rewrite Y2. apply HN. rewrite Ed; auto.
Qed.

Lemma write_name_ok : forall id ts wr cnt s, Inv c s -> name_ok s -> name_ok (write_log strf rtm c id ts wr cnt s).
Proof.
  intros id ts wr cnt s HI HN. rewrite write_log_eq. unfold name_ok. cbn [do_append dq].
  destruct (pre_write_cases strf rtm c ts cnt s) as [[_ E] | [[_ [_ E]] | [_ [_ E]]]]; rewrite E; auto.
  - cbn [set_nrt dq]. apply rotate_name_ok; auto.
  - apply rotate_name_ok; auto.
Qed.

Lemma run_name_ok : forall ops prev s, Inv c s -> name_ok s -> mono prev ops -> name_ok (run s ops).
Proof.
  induction ops as [|o ops IH]; intros prev s HI HN HM; cbn [rot_run fold_left]; auto.
  destruct o as [id ts wr cnt | wm rm st]; cbn [mono] in HM; [|destruct HM].
  destruct HM as [_ [_ M3]]. apply (IH ts); auto; cbn [rot_step].
  - apply write_log_inv; auto.
  - apply write_name_ok; auto.
Qed.

(* rot_names_order, Date / DateAndTime: with non-decreasing timestamps the deque is sorted by open
   instant, so (strftime being monotone) an earlier date is an older file *)
Definition open_sorted (s : rstate) : Prop := StronglySorted (fun a b => g_open b <= g_open a) (dq s).

Lemma ssorted_map_gopen : forall g l, (forall f, g_open (g f) = g_open f) ->
  StronglySorted (fun a b => g_open b <= g_open a) l -> StronglySorted (fun a b => g_open b <= g_open a) (map g l).
Proof.
  intros g l Hg. induction 1 as [|a l S IH F]; cbn [map]; constructor; auto.
  rewrite Forall_forall in *. intros y Hy. apply in_map_iff in Hy as [z [Ez Hz]]. subst y. rewrite !Hg. auto.
Qed.

Lemma ssorted_removelast : forall A (R : A -> A -> Prop) l, StronglySorted R l -> StronglySorted R (removelast l).
Proof.
  intros A R l. induction 1 as [|a l S IH F]; cbn [removelast]; [constructor|].
  destruct l; [constructor|]. constructor; auto. apply Forall_removelast; auto.
Qed.

Lemma rotate_open_sorted : forall ts s, Inv c s -> open_sorted s -> ots s <= ts ->
  open_sorted (rotate_files strf c ts s) /\ ots (rotate_files strf c ts s) <= ts.
Proof.
  intros ts s HI HS Hle. destruct (rot_fires c s) eqn:F.
  2:{ rewrite rotate_noop by auto. auto. }
  rewrite rotate_fires by auto. split; [|cbn [rotated ots]; lia].
  unfold open_sorted. cbn [rotated dq].
  assert (S1 : StronglySorted (fun a b => g_open b <= g_open a) (dq1_of strf c s)).
  { unfold dq1_of. apply ssorted_map_gopen; auto. intro; apply bump_gopen. }
  assert (B1 : forall f, In f (dq1_of strf c s) -> g_open f <= ots s).
  { intros f Hf. unfold dq1_of in Hf. apply in_map_iff in Hf as [z [Ez Hz]]. subst f. rewrite bump_gopen.
    destruct (I_head c s HI) as [rest [E _]]. unfold open_sorted in HS. rewrite E in *.
    destruct Hz as [Hz|Hz]; [subst; cbn; lia|].
    inversion HS as [|? ? _ Fh]; subst. rewrite Forall_forall in Fh. specialize (Fh z Hz). cbn [mk_live g_open] in Fh. exact Fh. }
  constructor.
  - destruct (del_due strf c s); auto. apply ssorted_removelast; auto.
  - rewrite Forall_forall. intros f Hf. cbn [mk_live g_open].
    assert (In f (dq1_of strf c s)).
    { destruct (del_due strf c s); auto.
      rewrite (app_removelast_last (mk_live c 0) (dq1_nonempty strf c s HI)). apply in_or_app; auto. }
    specialize (B1 f H). lia.
Qed.

Lemma write_open_sorted : forall id ts wr cnt s, Inv c s -> open_sorted s -> ots s <= ts ->
  open_sorted (write_log strf rtm c id ts wr cnt s) /\ ots (write_log strf rtm c id ts wr cnt s) <= ts.
Proof.
  intros id ts wr cnt s HI HS Hle. rewrite write_log_eq. unfold open_sorted. cbn [do_append dq ots].
  destruct (pre_write_cases strf rtm c ts cnt s) as [[_ E] | [[_ [_ E]] | [_ [_ E]]]]; rewrite E; auto.
  - cbn [set_nrt dq ots]. apply rotate_open_sorted; auto.
  - apply rotate_open_sorted; auto.
Qed.

Lemma run_open_sorted : forall ops prev s, Inv c s -> open_sorted s -> ots s <= prev -> mono prev ops ->
  open_sorted (run s ops).
Proof.
  induction ops as [|o ops IH]; intros prev s HI HS Hle HM; cbn [rot_run fold_left]; auto.
  destruct o as [id ts wr cnt | ? ? ?]; cbn [mono] in HM; [|destruct HM]. destruct HM as [M1 [_ M3]].
  destruct (write_open_sorted id ts wr (acct c wr cnt) s HI HS ltac:(lia)) as [A B].
  apply (IH ts); auto. cbn [rot_step]. apply write_log_inv; auto.
Qed.

End Runs.
