(* Restart = destroy + construct over the directory the sink left behind.
   Index scheme: _clean_and_recover_files in mode "a" rebuilds exactly the deque (rot_append_restart);
   in mode "w" with remove_old_files every file of the sink's shape is removed. *)
From Coq Require Import List NArith Bool Lia Sorted.
From Quill Require Import Rotate.RotFS Rotate.RotFSProofs Rotate.RotModel Rotate.RotChain Rotate.RotInv Rotate.RotRun.
Import ListNotations.
Open Scope N_scope.

(* ---------- directory keys stay unique ---------- *)
Lemma keys_del : forall p d, keys (fs_del p d) = filter (fun q => negb (path_eqb p q)) (keys d).
Proof.
  induction d as [|[q cq] r IH]; cbn [fs_del keys map fst filter]; auto.
  destruct (path_eqb p q); cbn [negb map fst]; fold (keys r); fold (keys (fs_del p r)); rewrite IH; auto.
Qed.

Lemma nodup_keys_del : forall p d, NoDup (keys d) -> NoDup (keys (fs_del p d)).
Proof. intros. rewrite keys_del. apply NoDup_filter; auto. Qed.

Lemma nodup_keys_put : forall p cp d, NoDup (keys d) -> NoDup (keys (fs_put p cp d)).
Proof.
  intros p cp d ND. rewrite keys_put. destruct (existsb (path_eqb p) (keys d)) eqn:E; auto.
  apply NoDup_rev in ND. rewrite <- (rev_involutive (keys d ++ [p])). apply NoDup_rev.
  rewrite rev_app_distr. cbn [rev app]. constructor; auto.
  intro H. apply in_rev in H. apply existsb_path_in in H. congruence.
Qed.

Lemma nodup_keys_rename : forall o n d, NoDup (keys d) -> NoDup (keys (fs_rename o n d)).
Proof.
  intros o n d ND. unfold fs_rename. destruct (fs_get o d); auto. destruct (path_eqb o n); auto.
  apply nodup_keys_put. apply nodup_keys_del. auto.
Qed.

Lemma nodup_keys_open : forall w p d, NoDup (keys d) -> NoDup (keys (fs_open w p d)).
Proof. intros w p d ND. unfold fs_open. destruct w; [|destruct (fs_get p d); auto]; apply nodup_keys_put; auto. Qed.

Lemma nodup_keys_append : forall p st d, NoDup (keys d) -> NoDup (keys (fs_append p st d)).
Proof. intros p st d ND. unfold fs_append. destruct (fs_get p d); auto. apply nodup_keys_put; auto. Qed.

Lemma nodup_keys_filter : forall (f : path * list stmt -> bool) d, NoDup (keys d) -> NoDup (keys (filter f d)).
Proof.
  induction d as [|e r IH]; intro ND; cbn [filter keys map]; auto.
  inversion ND as [|? ? N1 N2]; subst. destruct (f e); cbn [keys map]; [|apply IH; auto].
  constructor; [|apply IH; auto]. intro H. apply N1. unfold keys in *. apply in_map_iff in H as [x [Ex Hx]].
  apply filter_In in Hx as [Hx _]. rewrite <- Ex. apply in_map; auto.
Qed.

Section Restart.
Variable strf : N -> N -> comp.
Variable rtm : N -> N -> N.
Variable c : cfg.
Hypothesis strf_nonempty : forall k t, strf k t <> [].

Notation lp := (live_path c).
Notation INV := (Inv c).

Lemma nodup_keys_chain : forall sfx l d, NoDup (keys d) -> NoDup (keys (snd (chain c sfx l d))).
Proof.
  induction l as [|f r IH]; intros d ND; cbn [chain snd]; auto.
  rewrite chain_step_bump.
  specialize (IH (fs_rename (fname f) (fname (bump c sfx f)) d) (nodup_keys_rename _ _ _ ND)).
  destruct (chain c sfx r (fs_rename (fname f) (fname (bump c sfx f)) d)). exact IH.
Qed.

Lemma nodup_keys_rotate : forall ts s, NoDup (keys (fs s)) -> NoDup (keys (fs (rotate_files strf c ts s))).
Proof.
  intros ts s ND. destruct (rot_fires c s) eqn:F.
  - rewrite rotate_fires by auto. cbn [rotated fs]. apply nodup_keys_put.
    destruct (del_due strf c s); [apply nodup_keys_del|]; apply nodup_keys_chain; auto.
  - rewrite rotate_noop by auto. auto.
Qed.

Lemma nodup_keys_step : forall s o, NoDup (keys (fs s)) -> NoDup (keys (fs (rot_step strf rtm c s o))).
Proof.
  intros s o ND. destruct o as [id ts wr cnt | wm rm st]; cbn [rot_step].
  - rewrite write_log_eq. cbn [do_append fs]. apply nodup_keys_append.
    destruct (pre_write_cases strf rtm c ts (acct c wr cnt) s) as [[_ E] | [[_ [_ E]] | [_ [_ E]]]]; rewrite E; auto.
    + cbn [set_nrt fs]. apply nodup_keys_rotate; auto.
    + apply nodup_keys_rotate; auto.
  - rewrite construct_state. cbn zeta. cbn [fs]. apply nodup_keys_open.
    destruct (_ && rm && wm); auto. apply nodup_keys_filter; auto.
Qed.

(* ---------- sorting ---------- *)
Definition ltidx (a b : finfo) : Prop := fidx a < fidx b.

Lemma ins_in : forall x l y, In y (ins_idx x l) <-> x = y \/ In y l.
Proof.
  induction l as [|a l IH]; intro y; cbn [ins_idx In]; [tauto|].
  destruct (fidx x <=? fidx a); cbn [In]; [tauto|]. rewrite IH. tauto.
Qed.

Lemma sort_in : forall l y, In y (sort_idx l) <-> In y l.
Proof.
  induction l as [|a l IH]; intro y; [cbn; tauto|].
  change (sort_idx (a :: l)) with (ins_idx a (sort_idx l)). rewrite ins_in, IH. cbn [In]. tauto.
Qed.

Lemma ins_sorted : forall x l, StronglySorted ltidx l -> (forall y, In y l -> fidx y <> fidx x) ->
  StronglySorted ltidx (ins_idx x l).
Proof.
  induction l as [|a l IH]; intros S D; cbn [ins_idx]; [repeat constructor|].
  inversion S as [|? ? S1 S2]; subst.
  destruct (fidx x <=? fidx a) eqn:E.
  - apply N.leb_le in E. assert (fidx a <> fidx x) by (apply D; left; auto).
    constructor; auto. constructor; [unfold ltidx; lia|].
    rewrite Forall_forall in *. intros y Hy. specialize (S2 y Hy). unfold ltidx in *. lia.
  - apply N.leb_gt in E. constructor.
    + apply IH; auto. intros y Hy. apply D; right; auto.
    + rewrite Forall_forall in *. intros y Hy. apply ins_in in Hy as [Hy|Hy]; [subst; unfold ltidx; lia | auto].
Qed.

Lemma sort_sorted : forall l, NoDup (map fidx l) -> StronglySorted ltidx (sort_idx l).
Proof.
  induction l as [|a l IH]; intro ND; [constructor|].
  change (sort_idx (a :: l)) with (ins_idx a (sort_idx l)). cbn [map] in ND. inversion ND as [|? ? N1 N2]; subst.
  apply ins_sorted; auto. intros y Hy E. apply (proj1 (sort_in _ _)) in Hy. apply N1. rewrite <- E. apply in_map; auto.
Qed.

Lemma ssorted_unique : forall l1 l2 : list finfo,
  StronglySorted ltidx l1 -> StronglySorted ltidx l2 -> (forall x, In x l1 <-> In x l2) -> l1 = l2.
Proof.
  induction l1 as [|a l1 IH]; intros l2 S1 S2 H.
  - destruct l2 as [|b l2]; auto. exfalso. apply (H b). left; auto.
  - destruct l2 as [|b l2]; [exfalso; apply (H a); left; auto|].
    inversion S1 as [|? ? S1a S1b]; subst. inversion S2 as [|? ? S2a S2b]; subst.
    rewrite Forall_forall in S1b, S2b.
    assert (E : a = b).
    { destruct (proj1 (H a) (or_introl eq_refl)) as [X|X]; auto.
      destruct (proj2 (H b) (or_introl eq_refl)) as [Y|Y]; auto.
      specialize (S2b a X). specialize (S1b b Y). unfold ltidx in *. lia. }
    subst b. f_equal. apply IH; auto. intro x. split; intro Hx.
    + destruct (proj1 (H x) (or_intror Hx)) as [X|X]; auto. subst x. specialize (S1b a Hx). unfold ltidx in S1b. lia.
    + destruct (proj2 (H x) (or_intror Hx)) as [X|X]; auto. subst x. specialize (S2b a Hx). unfold ltidx in S2b. lia.
Qed.

(* ---------- what the scan recovers (Index scheme) ---------- *)
Definition forget (f : finfo) : finfo := {| fbase := fbase f; fidx := fidx f; fdt := fdt f; g_open := 0 |}.

Lemma fname_forget : forall f, fname (forget f) = fname f.
Proof. reflexivity. Qed.

Definition fmap (today : comp) (d : dir) : list finfo :=
  flat_map (fun e : path * list stmt => match recover c today (fst e) with Some f => [f] | None => [] end) d.

Lemma fold_recover : forall today (d : dir) acc,
  fold_left (fun acc (e : path * list stmt) => match recover c today (fst e) with Some f => f :: acc | None => acc end) d acc
  = rev (fmap today d) ++ acc.
Proof.
  induction d as [|e d IH]; intro acc; cbn [fold_left fmap flat_map]; auto.
  rewrite IH. fold (fmap today d). destruct (recover c today (fst e)); cbn [app]; auto.
  cbn [rev]. rewrite <- app_assoc. reflexivity.
Qed.

Lemma in_fmap : forall today d x, In x (fmap today d) <-> exists e, In e d /\ recover c today (fst e) = Some x.
Proof.
  intros today d x. unfold fmap. rewrite in_flat_map. split; intros [e [H1 H2]]; exists e; split; auto.
  - destruct (recover c today (fst e)); [destruct H2 as [H2|[]]; subst; auto | destruct H2].
  - rewrite H2. left; auto.
Qed.

Hypothesis Hidx : is_index c = true.

Lemma scheme_index : c_scheme c = SIndex.
Proof. unfold is_index in Hidx. destruct (c_scheme c); auto; discriminate. Qed.

Lemma recover_fname : forall today f0, rot_wf c f0 -> recover c today (fname f0) = Some (forget f0).
Proof.
  intros today f0 [Hb Hr]. rewrite Hidx in Hr. destruct Hr as [Hd Hi].
  destruct f0 as [b i d g]. cbn [fbase fidx fdt] in *. subst b d.
  unfold fname, forget. cbn [fbase fidx fdt g_open].
  unfold get_filename. cbn [comp_empty]. apply N.eqb_neq in Hi. rewrite Hi.
  unfold live_path, append_comp. cbn [removelast last app].
  unfold recover, ext_ok, stem_ok. cbn [rev app]. rewrite !comp_eqb_refl. cbn [andb].
  rewrite scheme_index, stoul_dec. reflexivity.
Qed.

Lemma recovered_is : forall today s n cn x, INV s -> In (n, cn) (fs s) -> recover c today n = Some x ->
  exists f0, In f0 (tl (dq s)) /\ n = fname f0 /\ x = forget f0.
Proof.
  intros today s n cn x HI Hin R.
  pose proof (recover_related c _ _ _ R) as Rn.
  assert (G : fs_get n (fs s) <> None).
  { intro G. apply fs_get_none_keys in G. apply G. unfold keys. apply (in_map fst) in Hin. exact Hin. }
  apply (I_disk c s HI n Rn) in G. unfold names in G. apply in_map_iff in G as [f0 [E0 H0]].
  destruct (I_head c s HI) as [rest [E F]]. rewrite E in H0. destruct H0 as [H0|H0].
  - subst f0. rewrite fname_live in E0. subst n. rewrite recover_lp in R. discriminate.
  - exists f0. rewrite E. cbn [tl]. repeat split; auto.
    rewrite Forall_forall in F. specialize (F f0 H0). rewrite <- E0, (recover_fname today f0 F) in R. congruence.
Qed.

Lemma tail_sorted : forall s, INV s -> StronglySorted ltidx (map forget (tl (dq s))).
Proof.
  intros s HI. destruct (I_head c s HI) as [rest [E F]]. pose proof (I_ord c s HI) as O.
  rewrite E in *. cbn [tl]. inversion O as [|? ? _ OR]; subst. clear O E.
  induction rest as [|a rest IH]; cbn [map]; [constructor|].
  inversion F as [|? ? Fa Fr]; subst. inversion OR as [|? ? Oa Or]; subst.
  constructor; [apply IH; auto|].
  rewrite Forall_forall in *. intros y Hy. apply in_map_iff in Hy as [z [Ez Hz]]. subst y.
  unfold ltidx. cbn [forget fidx]. apply Oa; auto.
  destruct Fa as [_ Fa]. destruct (Fr z Hz) as [_ Fz]. rewrite Hidx in Fa, Fz. destruct Fa, Fz. congruence.
Qed.

Lemma fmap_nodup_idx : forall today s, INV s -> NoDup (keys (fs s)) -> NoDup (map fidx (fmap today (fs s))).
Proof.
  intros today s HI ND.
  assert (P : forall e, In e (fs s) -> forall x, recover c today (fst e) = Some x ->
                fname x = fst e /\ x = {| fbase := lp; fidx := fidx x; fdt := []; g_open := 0 |}).
  { intros [n cn] He x R. cbn [fst] in *. destruct (recovered_is today s n cn x HI He R) as [f0 [H0 [E1 E2]]].
    subst. split; [apply fname_forget|].
    destruct (I_head c s HI) as [rest [E F]]. rewrite E in H0. cbn [tl] in H0.
    rewrite Forall_forall in F. destruct (F f0 H0) as [Fb Fr]. rewrite Hidx in Fr. destruct Fr as [Fd _].
    unfold forget. cbn [fidx]. rewrite Fb, Fd. reflexivity. }
  revert ND P. generalize (fs s). induction d as [|[n cn] d IH]; intros ND P; cbn [fmap flat_map map]; [constructor|].
  fold (fmap today d). cbn [keys map fst] in ND. inversion ND as [|? ? N1 N2]; subst.
  assert (IHd : NoDup (map fidx (fmap today d))) by (apply IH; auto; intros; apply P; auto; right; auto).
  cbn [fst]. destruct (recover c today n) as [x|] eqn:R; cbn [app map]; auto.
  constructor; auto. intro H. apply in_map_iff in H as [y [Ey Hy]].
  apply in_fmap in Hy as [[n' cn'] [He Ry]]. cbn [fst] in Ry.
  destruct (P (n, cn) (or_introl eq_refl) x R) as [X1 X2]. cbn [fst] in X1.
  destruct (P (n', cn') (or_intror He) y Ry) as [Y1 Y2]. cbn [fst] in Y1.
  apply N1. assert (x = y) by (rewrite X2, Y2, Ey; reflexivity). subst y.
  rewrite <- X1, Y1. unfold keys. apply (in_map fst) in He. exact He.
Qed.

(* rot_append_restart, Index scheme: the scan rebuilds the deque *)
Lemma recover_index : forall today s, INV s -> NoDup (keys (fs s)) ->
  scan_recover c today (fs s) = map forget (tl (dq s)).
Proof.
  intros today s HI ND. unfold scan_recover. rewrite fold_recover, app_nil_r.
  apply ssorted_unique.
  - apply sort_sorted. rewrite map_rev. apply NoDup_rev. apply fmap_nodup_idx; auto.
  - apply tail_sorted; auto.
  - intro x. rewrite sort_in, <- in_rev, in_fmap. split.
    + intros [[n cn] [He R]]. cbn [fst] in R. destruct (recovered_is today s n cn x HI He R) as [f0 [H0 [_ E2]]].
      subst. apply in_map; auto.
    + intro Hx. apply in_map_iff in Hx as [f0 [E0 H0]]. subst x.
      destruct (I_head c s HI) as [rest [E F]]. rewrite E in H0. cbn [tl] in H0.
      rewrite Forall_forall in F. specialize (F f0 H0).
      assert (G : fs_get (fname f0) (fs s) <> None).
      { apply (I_disk c s HI); [apply fname_related; left; auto|]. rewrite E. right. unfold names. apply in_map; auto. }
      destruct (fs_get (fname f0) (fs s)) as [cn|] eqn:GG; [|congruence].
      exists (fname f0, cn). split; [apply fs_get_some_in; auto|]. cbn [fst]. apply recover_fname; auto.
Qed.

Lemma names_forget : forall l, names (map forget l) = names l.
Proof. intro l. unfold names. rewrite map_map. apply map_ext. intro; apply fname_forget. Qed.

Lemma contents_forget : forall d l, contents d (map forget l) = contents d l.
Proof. intros d l. apply contents_map. intros; rewrite fname_forget; auto. Qed.

Lemma rot_wf_forget : forall f, rot_wf c f -> rot_wf c (forget f).
Proof. intros f H. exact H. Qed.

Lemma ordp_forget : forall t t' rest, ordp (mk_live c t :: rest) -> ordp (mk_live c t' :: map forget rest).
Proof.
  intros t t' rest O. inversion O as [|? ? O1 O2]; subst. constructor.
  - rewrite Forall_forall in *. intros y Hy. apply in_map_iff in Hy as [z [Ez Hz]]. subst y. apply (O1 z Hz).
  - clear O O1. induction rest as [|a rest IH]; cbn [map]; [constructor|].
    inversion O2 as [|? ? Oa Or]; subst. constructor; [|apply IH; auto].
    rewrite Forall_forall in *. intros y Hy. apply in_map_iff in Hy as [z [Ez Hz]]. subst y. apply (Oa z Hz).
Qed.

(* restart in append mode, Index scheme *)
Lemma restart_append : forall d0 rm start s, Full c d0 s -> NoDup (keys (fs s)) ->
  let s' := construct strf rtm c false rm start (fs s) in
  fs s' = fs s /\ dq s' = mk_live c start :: map forget (tl (dq s)) /\ Full c d0 s'.
Proof.
  intros d0 rm start s HF ND. destruct HF as [HI HS HL HC HN HU].
  destruct (I_head c s HI) as [rest [E F]].
  destruct (inv_live_exists c s HI) as [cl G].
  assert (FS : fs_open false lp (fs s) = fs s) by (unfold fs_open; rewrite G; auto).
  assert (ST : construct strf rtm c false rm start (fs s) =
     {| fs := fs s; dq := mk_live c start :: map forget (tl (dq s));
        fsz := fsize (fs_content lp (fs s)); ots := start;
        nrt := match c_freq c with FDisabled => 0 | _ => init_tp rtm c start end;
        g_hist := contents (fs s) (rev (mk_live c start :: map forget (tl (dq s)))); g_del := [] |}).
  { rewrite construct_state. cbn zeta. rewrite scheme_index. cbn [andb negb]. rewrite andb_false_r.
    rewrite FS. rewrite (recover_index _ s HI ND). reflexivity. }
  cbn zeta. rewrite ST. cbn [fs dq]. split; auto. split; auto.
  rewrite E. cbn [tl].
  constructor.
  - constructor; cbn [fs dq ots g_hist g_del].
    + exists (map forget rest). split; auto. rewrite Forall_forall in *. intros y Hy.
      apply in_map_iff in Hy as [z [Ez Hz]]. subst y. apply rot_wf_forget; auto.
    + apply (ordp_forget (ots s)). rewrite <- E. apply (I_ord c s HI).
    + intros p Rp. rewrite (I_disk c s HI p Rp), E. cbn [names map]. fold (names (map forget rest)). fold (names rest).
      rewrite names_forget, !fname_live. tauto.
    + reflexivity.
  - unfold Sz. reflexivity.
  - intro L0. destruct (HL L0) as [HL1 HL2]. split; cbn [dq fs tl].
    + intros f Hf. apply in_map_iff in Hf as [z [Ez Hz]]. subst f. rewrite fname_forget. apply HL1. rewrite E; auto.
    + intro NS. apply HL2. unfold stopped in *. rewrite E. cbn [dq length] in *. rewrite map_length in NS. exact NS.
  - unfold Cnt in *. cbn [dq length]. rewrite map_length. rewrite E in HC. exact HC.
  - intros _. reflexivity.
  - exact HU.
Qed.

(* restart in mode "w" with remove_old_files, Index scheme: every file of the sink's shape is gone *)
Lemma clean_hit_index : forall today p, clean_hit c today p = ext_ok c p && stem_ok c p.
Proof. intros. unfold clean_hit. rewrite scheme_index. apply andb_true_r. Qed.

Lemma restart_w_rm : forall d0 start s, Unrel c d0 s ->
  let s' := construct strf rtm c true true start (fs s) in
  dq s' = [mk_live c start] /\ fs_content lp (fs s') = [] /\ Full c d0 s'.
Proof.
  intros d0 start s HU. cbn zeta.
  set (today := strf 0 (start / NS)).
  assert (ST : construct strf rtm c true true start (fs s) =
     {| fs := fs_put lp [] (scan_clean c today (fs s)); dq := [mk_live c start];
        fsz := fsize (fs_content lp (fs_put lp [] (scan_clean c today (fs s)))); ots := start;
        nrt := match c_freq c with FDisabled => 0 | _ => init_tp rtm c start end;
        g_hist := contents (fs_put lp [] (scan_clean c today (fs s))) (rev [mk_live c start]); g_del := [] |}).
  { rewrite construct_state. cbn zeta. rewrite scheme_index. reflexivity. }
  rewrite ST. cbn [dq fs].
  assert (GL : fs_content lp (fs_put lp [] (scan_clean c today (fs s))) = []) by apply fs_content_put_same.
  assert (GP : forall p, p <> lp -> fs_get p (fs_put lp [] (scan_clean c today (fs s))) =
                                    if ext_ok c p && stem_ok c p then None else fs_get p (fs s)).
  { intros p NP. rewrite fs_get_put_other by congruence. rewrite scan_clean_get, clean_hit_index. reflexivity. }
  split; auto. split; auto.
  constructor.
  - constructor; cbn [fs dq ots g_hist g_del].
    + exists []. split; auto.
    + repeat constructor.
    + intros p Rp. cbn [names map In]. rewrite fname_live.
      destruct (path_eq_dec p lp) as [EP|EP].
      * subst. rewrite fs_get_put_same. split; [auto | discriminate].
      * rewrite GP by auto. apply (ext_stem_related c) in Rp. rewrite Rp.
        split; [congruence | intros [X|[]]; congruence].
    + reflexivity.
  - unfold Sz. reflexivity.
  - intros _. split; cbn [dq tl fs]; [intros f [] | intros _; rewrite GL; apply ok_size_nil].
  - unfold Cnt. cbn [dq length]. lia.
  - intros _. reflexivity.
  - intros p NR. cbn [fs]. rewrite GP by (apply (related_dec_stem c); auto).
    destruct (ext_ok c p && stem_ok c p) eqn:X; [|apply HU; auto].
    apply (ext_stem_related c) in X. contradiction.
Qed.

End Restart.

(* ---------- Date scheme: the scan in mode "a" recovers exactly today's files (partial: see report) ---------- *)
Section RestartDate.
Variable c : cfg.
Hypothesis Hdate : c_scheme c = SDate.
Notation lp := (live_path c).

Lemma date_not_index : is_index c = false.
Proof. unfold is_index. rewrite Hdate. reflexivity. Qed.

Definition today_of (today : comp) (f : finfo) : bool := comp_eqb (fdt f) today.

Lemma recover_fname_date : forall today f0, rot_wf c f0 -> (8 <= N.of_nat (length today)) ->
  dec (fidx f0) <> today ->
  recover c today (fname f0) = if today_of today f0 then Some (forget f0) else None.
Proof.
  intros today f0 [Hb Hr] L8 Hdi. rewrite date_not_index in Hr.
  destruct f0 as [b i d g]. cbn [fbase fidx fdt] in *. subst b.
  unfold fname, forget, today_of. cbn [fbase fidx fdt g_open].
  unfold get_filename. destruct d as [|d0 dr]; [congruence|]. cbn [comp_empty].
  unfold live_path, append_comp. cbn [removelast last app].
  destruct (i =? 0) eqn:Z.
  - apply N.eqb_eq in Z. subst i.
    unfold recover, ext_ok, stem_ok. cbn [rev app]. rewrite !comp_eqb_refl. cbn [andb]. rewrite Hdate.
    destruct (comp_eqb (d0 :: dr) today) eqn:E.
    + apply comp_eqb_eq in E. rewrite E in *. apply N.leb_le in L8. rewrite L8. reflexivity.
    + rewrite andb_false_r. reflexivity.
  - cbn [removelast last app].
    unfold recover, ext_ok, stem_ok. cbn [rev app]. rewrite !comp_eqb_refl. cbn [andb]. rewrite Hdate.
    assert (X : comp_eqb (dec i) today = false) by (apply comp_eqb_neq; auto).
    rewrite X, andb_false_r.
    destruct (comp_eqb (d0 :: dr) today); auto. rewrite stoul_dec. reflexivity.
Qed.

Lemma filter_sorted : forall today l,
  Forall (rot_wf c) l -> ordp l ->
  StronglySorted ltidx (map forget (filter (today_of today) l)).
Proof.
  induction l as [|a l IH]; intros F O; cbn [filter map]; [constructor|].
  inversion F as [|? ? Fa Fl]; subst. inversion O as [|? ? Oa Ol]; subst.
  destruct (today_of today a) eqn:Ta; [|apply IH; auto].
  cbn [map]. constructor; [apply IH; auto|].
  rewrite Forall_forall in *. intros y Hy. apply in_map_iff in Hy as [z [Ez Hz]]. subst y.
  apply filter_In in Hz as [Hz Tz]. unfold ltidx. cbn [forget fidx]. apply Oa; auto.
  unfold today_of in *. apply comp_eqb_eq in Ta. apply comp_eqb_eq in Tz. congruence.
Qed.

Lemma recover_date : forall today s, Inv c s -> NoDup (keys (fs s)) ->
  8 <= N.of_nat (length today) -> (forall f, In f (tl (dq s)) -> dec (fidx f) <> today) ->
  scan_recover c today (fs s) = map forget (filter (today_of today) (tl (dq s))).
Proof.
  intros today s HI ND L8 Hdi.
  destruct (I_head c s HI) as [rest [E F]]. pose proof (I_ord c s HI) as O.
  assert (REC : forall n cn x, In (n, cn) (fs s) -> recover c today n = Some x ->
                  exists f0, In f0 rest /\ today_of today f0 = true /\ n = fname f0 /\ x = forget f0).
  { intros n cn x Hin R. pose proof (recover_related c _ _ _ R) as Rn.
    assert (G : fs_get n (fs s) <> None).
    { intro G. apply fs_get_none_keys in G. apply G. unfold keys. apply (in_map fst) in Hin. exact Hin. }
    apply (I_disk c s HI n Rn) in G. unfold names in G. apply in_map_iff in G as [f0 [E0 H0]].
    rewrite E in H0. destruct H0 as [H0|H0].
    - subst f0. rewrite fname_live in E0. subst n. rewrite recover_lp in R. discriminate.
    - rewrite Forall_forall in F. pose proof (F f0 H0) as W.
      rewrite <- E0, (recover_fname_date today f0 W L8) in R by (apply Hdi; rewrite E; auto).
      destruct (today_of today f0) eqn:T; [|discriminate]. exists f0. repeat split; auto. congruence. }
  assert (OR : ordp rest) by (rewrite E in O; inversion O; auto).
  unfold scan_recover. rewrite fold_recover, app_nil_r. rewrite E. cbn [tl].
  apply ssorted_unique.
  - apply sort_sorted. rewrite map_rev. apply NoDup_rev.
    (* recovered entries are determined by their index *)
    assert (P : forall e, In e (fs s) -> forall x, recover c today (fst e) = Some x ->
                  fname x = fst e /\ x = {| fbase := lp; fidx := fidx x; fdt := today; g_open := 0 |}).
    { intros [n cn] He x R. cbn [fst] in *. destruct (REC n cn x He R) as [f0 [H0 [T [E1 E2]]]]. subst.
      split; [apply fname_forget|]. rewrite Forall_forall in F. destruct (F f0 H0) as [Fb _].
      unfold today_of in T. apply comp_eqb_eq in T. unfold forget. cbn [fidx]. rewrite Fb, T. reflexivity. }
    revert ND P. generalize (fs s). induction d as [|[n cn] d IH]; intros ND P; cbn [fmap flat_map map]; [constructor|].
    fold (fmap c today d). cbn [keys map fst] in ND. inversion ND as [|? ? N1 N2]; subst.
    assert (IHd : NoDup (map fidx (fmap c today d))) by (apply IH; auto; intros; apply P; auto; right; auto).
    cbn [fst]. destruct (recover c today n) as [x|] eqn:R; cbn [app map]; auto.
    constructor; auto. intro HH. apply in_map_iff in HH as [y [Ey Hy]].
    apply in_fmap in Hy as [[n' cn'] [He Ry]]. cbn [fst] in Ry.
    destruct (P (n, cn) (or_introl eq_refl) x R) as [X1 X2]. cbn [fst] in X1.
    destruct (P (n', cn') (or_intror He) y Ry) as [Y1 Y2]. cbn [fst] in Y1.
    apply N1. assert (x = y) by (rewrite X2, Y2, Ey; reflexivity). subst y.
    rewrite <- X1, Y1. unfold keys. apply (in_map fst) in He. exact He.
  - apply filter_sorted; auto.
  - intro x. rewrite sort_in, <- in_rev, in_fmap. split.
    + intros [[n cn] [He R]]. cbn [fst] in R. destruct (REC n cn x He R) as [f0 [H0 [T [_ E2]]]].
      subst. apply in_map. apply filter_In. auto.
    + intro Hx. apply in_map_iff in Hx as [f0 [E0 H0]]. subst x. apply filter_In in H0 as [H0 T].
      rewrite Forall_forall in F. pose proof (F f0 H0) as W.
      assert (G : fs_get (fname f0) (fs s) <> None).
      { apply (I_disk c s HI); [apply fname_related; left; auto|]. rewrite E. right. unfold names. apply in_map; auto. }
      destruct (fs_get (fname f0) (fs s)) as [cn|] eqn:GG; [|congruence].
      exists (fname f0, cn). split; [apply fs_get_some_in; auto|]. cbn [fst].
      rewrite (recover_fname_date today f0 W L8) by (apply Hdi; rewrite E; auto). rewrite T. reflexivity.
Qed.

End RestartDate.
