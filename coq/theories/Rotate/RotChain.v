(* The rename loop of RotatingSink::_rotate_files is a simultaneous renaming f |-> bump f that never
   overwrites a file, provided the targets are pairwise distinct, a target never names a file that
   is still waiting for its own rename, and targets outside the deque do not exist on disk. *)
From Coq Require Import List NArith Bool Lia.
From Quill Require Import Rotate.RotFS Rotate.RotFSProofs Rotate.RotModel.
Import ListNotations.
Open Scope N_scope.

Section Chain.
Variable c : cfg.

Definition bump (sfx : comp) (f : finfo) : finfo :=
  if is_index c || comp_eqb (fdt f) sfx then
    {| fbase := fbase f; fidx := fidx f + 1; fdt := sfx; g_open := g_open f |}
  else if comp_empty (fdt f) then
    {| fbase := fbase f; fidx := fidx f; fdt := sfx; g_open := g_open f |}
  else f.

Lemma chain_step_bump : forall sfx f d,
  chain_step c sfx f d = (bump sfx f, fs_rename (fname f) (fname (bump sfx f)) d).
Proof.
  intros sfx f d. unfold chain_step, bump.
  destruct (is_index c || comp_eqb (fdt f) sfx); auto.
  destruct (comp_empty (fdt f)); auto.
  rewrite fs_rename_same; auto.
Qed.

Lemma chain_fst : forall sfx l d, fst (chain c sfx l d) = map (bump sfx) l.
Proof.
  induction l as [|f r IH]; intro d; cbn [chain map]; auto.
  rewrite chain_step_bump. specialize (IH (fs_rename (fname f) (fname (bump sfx f)) d)).
  destruct (chain c sfx r (fs_rename (fname f) (fname (bump sfx f)) d)) as [r' d2]. cbn [fst] in *. congruence.
Qed.

Definition names (l : list finfo) : list path := map fname l.

Lemma chain_get : forall sfx l d,
  NoDup (names l) ->
  NoDup (names (map (bump sfx) l)) ->
  (forall l1 y l2, l = l1 ++ y :: l2 -> forall z, In z l2 -> fname (bump sfx y) <> fname z) ->
  (forall y, In y l -> fs_get (fname y) d <> None) ->
  (forall y, In y l -> ~ In (fname (bump sfx y)) (names l) -> fs_get (fname (bump sfx y)) d = None) ->
  let d' := snd (chain c sfx l d) in
  (forall y, In y l -> fs_get (fname (bump sfx y)) d' = fs_get (fname y) d) /\
  (forall p, ~ In p (names (map (bump sfx) l)) ->
             fs_get p d' = if in_dec path_eq_dec p (names l) then None else fs_get p d).
Proof.
  induction l as [|y r IH]; intros d H1 H2 H3 H4 H5; cbn zeta.
  - cbn [chain snd]. split; [intros y []|]. intros p _. destruct (in_dec path_eq_dec p (names [])) as [[]|]; auto.
  - cbn [chain]. rewrite chain_step_bump.
    set (src := fname y) in *. set (tgt := fname (bump sfx y)) in *.
    set (d1 := fs_rename src tgt d).
    destruct (chain c sfx r d1) as [r' d2] eqn:CH. cbn [snd].
    assert (Ed2 : d2 = snd (chain c sfx r d1)) by (rewrite CH; auto).
    cbn [names map] in H1, H2. fold (names r) in H1. fold (names (map (bump sfx) r)) in H2.
    inversion H1 as [|? ? N1 ND1]; subst. inversion H2 as [|? ? N2 ND2]; subst.
    fold src in N1. fold tgt in N2.
    assert (Sy : exists cy, fs_get src d = Some cy).
    { destruct (fs_get src d) eqn:G; [eauto|]. exfalso. apply (H4 y); [left; auto|]. exact G. }
    destruct Sy as [cy Gy].
    (* d1 described *)
    assert (D1 : forall q, fs_get q d1 = if path_eqb src tgt then fs_get q d
                       else if path_eqb q tgt then Some cy else if path_eqb q src then None else fs_get q d).
    { intro q. unfold d1. rewrite fs_get_rename, Gy. auto. }
    assert (T3 : forall z, In z r -> tgt <> fname z).
    { intros z Hz. apply (H3 [] y r eq_refl z Hz). }
    assert (Keep : forall z, In z r -> fs_get (fname z) d1 = fs_get (fname z) d).
    { intros z Hz. rewrite D1. destruct (path_eqb src tgt); auto.
      assert (A : fname z <> tgt) by (intro E; apply (T3 z Hz); auto).
      assert (B : fname z <> src) by (intro E; apply N1; rewrite <- E; apply in_map; auto).
      apply path_eqb_neq in A. apply path_eqb_neq in B. rewrite A, B; auto. }
    specialize (IH d1 ND1 ND2).
    assert (I3 : forall l1 y0 l2, r = l1 ++ y0 :: l2 -> forall z, In z l2 -> fname (bump sfx y0) <> fname z).
    { intros l1 y0 l2 E z Hz. apply (H3 (y :: l1) y0 l2); [rewrite E; auto | auto]. }
    assert (I4 : forall y0, In y0 r -> fs_get (fname y0) d1 <> None).
    { intros y0 Hy0. rewrite Keep by auto. apply H4; right; auto. }
    assert (I5 : forall y0, In y0 r -> ~ In (fname (bump sfx y0)) (names r) -> fs_get (fname (bump sfx y0)) d1 = None).
    { intros y0 Hy0 Nin. rewrite D1.
      assert (A : fname (bump sfx y0) <> tgt).
      { intro E. apply N2. rewrite <- E. unfold names. apply in_map. apply in_map. auto. }
      destruct (path_eqb src tgt) eqn:ST.
      - apply path_eqb_eq in ST.
        apply H5; [right; auto|]. cbn [names map In]. fold src. intros [E|E]; [congruence | auto].
      - apply path_eqb_neq in A. rewrite A.
        destruct (path_eqb (fname (bump sfx y0)) src) eqn:E2; auto.
        apply path_eqb_neq in E2.
        apply H5; [right; auto|]. cbn [names map In]. fold src. intros [E|E]; [congruence | auto]. }
    specialize (IH I3 I4 I5). cbn zeta in IH. destruct IH as [R1 R2].
    split.
    + intros y0 [E|Hy0].
      * subst y0. fold tgt. fold src.
        rewrite R2 by exact N2.
        destruct (in_dec path_eq_dec tgt (names r)) as [I|_].
        { exfalso. unfold names in I. apply in_map_iff in I as [z [Ez Hz]]. apply (T3 z Hz). auto. }
        rewrite D1. destruct (path_eqb src tgt) eqn:ST.
        { apply path_eqb_eq in ST. congruence. }
        rewrite path_eqb_refl. auto.
      * rewrite R1 by auto. apply Keep; auto.
    + intros p Np. cbn [names map In] in Np. fold tgt in Np. fold (names (map (bump sfx) r)) in Np.
      assert (Pt : p <> tgt) by (intro E; apply Np; left; auto).
      assert (Pr : ~ In p (names (map (bump sfx) r))) by (intro E; apply Np; right; auto).
      rewrite R2 by exact Pr.
      cbn [names map]. fold src. fold (names r).
      destruct (in_dec path_eq_dec p (names r)) as [I|NI].
      * destruct (in_dec path_eq_dec p (src :: names r)) as [_|X]; auto. exfalso; apply X; right; auto.
      * rewrite D1. destruct (path_eqb src tgt) eqn:ST.
        { apply path_eqb_eq in ST.
          destruct (in_dec path_eq_dec p (src :: names r)) as [[E|E]|_]; auto; [congruence | tauto]. }
        apply path_eqb_neq in Pt. rewrite Pt.
        destruct (path_eqb p src) eqn:PS.
        { apply path_eqb_eq in PS. destruct (in_dec path_eq_dec p (src :: names r)) as [_|X]; auto.
          exfalso; apply X; left; auto. }
        apply path_eqb_neq in PS.
        destruct (in_dec path_eq_dec p (src :: names r)) as [[E|E]|_]; auto; [congruence | tauto].
Qed.

End Chain.
