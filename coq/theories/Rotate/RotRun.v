(* write_log / construct preserve the invariants of M-ROT; size, limit, count and unrelated-file
   invariants on top of the structural one. *)
From Coq Require Import List NArith Bool Lia.
From Quill Require Import Rotate.RotFS Rotate.RotFSProofs Rotate.RotModel Rotate.RotChain Rotate.RotInv.
Import ListNotations.
Open Scope N_scope.

Section Run.
Variable strf : N -> N -> comp.
Variable rtm : N -> N -> N.
Variable c : cfg.
Hypothesis strf_nonempty : forall k t, strf k t <> [].

Notation lp := (live_path c).
Notation rotate := (rotate_files strf c).
Notation INV := (Inv c).

Definition pre_write (ts cnt : N) (s : rstate) : rstate :=
  let '(s1, tr) := time_rotation strf rtm c ts s in
  if negb tr && size_due c cnt s1 then rotate ts s1 else s1.

Definition do_append (st : stmt) (cnt : N) (s2 : rstate) : rstate :=
  {| fs := fs_append lp st (fs s2); dq := dq s2; fsz := fsz s2 + cnt; ots := ots s2; nrt := nrt s2;
     g_hist := g_hist s2 ++ [st]; g_del := g_del s2 |}.

Lemma write_log_eq : forall id ts wr cnt s,
  write_log strf rtm c id ts wr cnt s = do_append (mkStmt id ts wr) cnt (pre_write ts cnt s).
Proof.
  intros. unfold write_log, pre_write, do_append.
  destruct (time_rotation strf rtm c ts s) as [s1 tr]. reflexivity.
Qed.

Lemma pre_write_cases : forall ts cnt s,
  (time_due c ts s = true /\ pre_write ts cnt s = set_nrt (next_after rtm c ts s) (rotate ts s)) \/
  (time_due c ts s = false /\ size_due c cnt s = true /\ pre_write ts cnt s = rotate ts s) \/
  (time_due c ts s = false /\ size_due c cnt s = false /\ pre_write ts cnt s = s).
Proof.
  intros ts cnt s. unfold pre_write, time_rotation.
  destruct (time_due c ts s) eqn:T.
  - left. split; auto.
  - right. cbn [negb andb]. destruct (size_due c cnt s) eqn:S; [left | right]; auto.
Qed.

Lemma set_nrt_inv : forall n s, INV s -> INV (set_nrt n s).
Proof. intros n s H. destruct H. constructor; auto. Qed.

Lemma pre_write_inv : forall ts cnt s, INV s -> INV (pre_write ts cnt s).
Proof.
  intros ts cnt s H. destruct (pre_write_cases ts cnt s) as [[_ E] | [[_ [_ E]] | [_ [_ E]]]]; rewrite E; auto.
  - apply set_nrt_inv. apply rotate_inv; auto.
  - apply rotate_inv; auto.
Qed.

Lemma append_get : forall st s p, INV s ->
  fs_get p (fs_append lp st (fs s)) =
  if path_eqb p lp then Some (fs_content lp (fs s) ++ [st]) else fs_get p (fs s).
Proof.
  intros st s p H. destruct (inv_live_exists c s H) as [cl G].
  destruct (path_eqb p lp) eqn:E.
  - apply path_eqb_eq in E; subst. unfold fs_content. rewrite G. apply fs_get_append_same; auto.
  - apply path_eqb_neq in E. apply fs_get_append_other; congruence.
Qed.

Lemma contents_rot_append : forall st s X, INV s -> Forall (rot_wf c) X ->
  contents (fs_append lp st (fs s)) X = contents (fs s) X.
Proof.
  intros st s X H F. apply contents_ext. intros y Hy. rewrite append_get by auto.
  assert (A : fname y <> lp) by (apply rot_wf_not_live; rewrite Forall_forall in F; auto).
  apply path_eqb_neq in A. rewrite A; auto.
Qed.

Lemma do_append_inv : forall st cnt s, INV s -> INV (do_append st cnt s).
Proof.
  intros st cnt s H. destruct (I_head c s H) as [rest [E F]].
  constructor; cbn [do_append fs dq ots g_hist g_del].
  - exists rest; auto.
  - apply (I_ord c s H).
  - intros p Rp. rewrite append_get by auto. rewrite <- (I_disk c s H p Rp).
    destruct (path_eqb p lp) eqn:EP; [|tauto].
    apply path_eqb_eq in EP; subst. destruct (inv_live_exists c s H) as [cl G]. rewrite G. split; discriminate.
  - rewrite <- (I_hist c s H). rewrite E. cbn [rev]. rewrite !contents_app.
    rewrite contents_rot_append by (auto; apply Forall_rev; auto).
    unfold contents at 2 4. cbn [flat_map]. rewrite !app_nil_r, fname_live.
    unfold fs_content at 1. rewrite append_get by auto. rewrite path_eqb_refl.
    rewrite !app_assoc. reflexivity.
Qed.

Lemma write_log_inv : forall id ts wr cnt s, INV s -> INV (write_log strf rtm c id ts wr cnt s).
Proof. intros. rewrite write_log_eq. apply do_append_inv. apply pre_write_inv; auto. Qed.

(* ---------- further invariants ---------- *)
Definition Sz (s : rstate) : Prop := fsz s = fsize (fs_content lp (fs s)).
Definition stopped (s : rstate) : bool := (c_maxb c <? N.of_nat (length (dq s))) && negb (c_over c).
(* within the limit, or over it only by the one statement written into an empty (zero-size) file *)
Definition ok_size (cs : list stmt) : Prop :=
  fsize cs <= c_limit c \/ exists pre st, cs = pre ++ [st] /\ fsize pre = 0.
Definition Lim (s : rstate) : Prop :=
  (forall f, In f (tl (dq s)) -> ok_size (fs_content (fname f) (fs s))) /\
  (stopped s = false -> ok_size (fs_content lp (fs s))).
Definition Cnt (s : rstate) : Prop := N.of_nat (length (dq s)) <= c_maxb c + 1.
Definition NoDel (s : rstate) : Prop := c_over c = false -> g_del s = [].
Definition Unrel (d0 : dir) (s : rstate) : Prop := forall p, ~ related c p -> fs_get p (fs s) = fs_get p d0.

Record Full (d0 : dir) (s : rstate) : Prop := {
  F_inv : INV s; F_sz : Sz s; F_lim : c_limit c <> 0 -> Lim s; F_cnt : Cnt s; F_nodel : NoDel s; F_unrel : Unrel d0 s }.

Lemma fires_not_stopped : forall s, rot_fires c s = true -> stopped s = false.
Proof. intros s H. unfold rot_fires in H. apply andb_true_iff in H as [H _]. apply negb_true_iff in H. exact H. Qed.

Lemma nofire_cases : forall s, rot_fires c s = false -> stopped s = true \/ fsize (fs_content lp (fs s)) = 0.
Proof.
  intros s H. unfold rot_fires in H. apply andb_false_iff in H as [H|H].
  - left. apply negb_false_iff in H. exact H.
  - right. apply negb_false_iff in H. apply N.eqb_eq in H. exact H.
Qed.

Lemma ok_size_nil : ok_size [].
Proof. left. unfold fsize; cbn. lia. Qed.

Lemma head_content : forall s, INV s -> forall f0, In f0 (dq s) -> In f0 (tl (dq s)) \/ fname f0 = lp.
Proof.
  intros s H f0 Hf. destruct (I_head c s H) as [rest [E _]]. rewrite E in *. cbn [tl].
  destruct Hf as [Hf|Hf]; [right; subst; apply fname_live | left; auto].
Qed.

Lemma rotate_full : forall d0 ts s, Full d0 s -> Full d0 (rotate ts s).
Proof.
  intros d0 ts s [HI HS HL HC HN HU]. destruct (rot_fires c s) eqn:F.
  2:{ rewrite rotate_noop by auto. constructor; auto. }
  rewrite rotate_fires by auto. constructor.
  - apply rotated_inv; auto.
  - unfold Sz. rewrite rotated_live by auto. reflexivity.
  - intro L0. specialize (HL L0). destruct HL as [HL1 HL2]. split.
    + intros f Hf. destruct (rotated_tail strf c strf_nonempty ts s f HI Hf) as [f0 [H0 [_ EC]]].
      rewrite EC. destruct (head_content s HI f0 H0) as [X|X]; [apply HL1; auto|].
      rewrite X. apply HL2. apply fires_not_stopped; auto.
    + intros _. rewrite rotated_live by auto. apply ok_size_nil.
  - unfold Cnt in *. rewrite rotated_length by auto.
    destruct (c_maxb c <? N.of_nat (length (dq s))) eqn:E; auto. apply N.ltb_ge in E. lia.
  - intro O. rewrite rotated_gdel_keep; auto.
  - intros p NR. rewrite rotated_unrelated by auto. apply HU; auto.
Qed.

Lemma set_nrt_full : forall d0 n s, Full d0 s -> Full d0 (set_nrt n s).
Proof. intros d0 n s [HI HS HL HC HN HU]. constructor; auto. apply set_nrt_inv; auto. Qed.

Lemma pre_write_full : forall d0 ts cnt s, Full d0 s -> Full d0 (pre_write ts cnt s).
Proof.
  intros d0 ts cnt s H. destruct (pre_write_cases ts cnt s) as [[_ E] | [[_ [_ E]] | [_ [_ E]]]]; rewrite E; auto.
  - apply set_nrt_full. apply rotate_full; auto.
  - apply rotate_full; auto.
Qed.

(* the live file before the append: room for the statement, or empty, or rotation has stopped *)
Lemma pre_write_room : forall ts cnt s, INV s -> Sz s -> c_limit c <> 0 ->
  let s2 := pre_write ts cnt s in
  stopped s2 = true \/ fsize (fs_content lp (fs s2)) = 0 \/ fsize (fs_content lp (fs s2)) + cnt <= c_limit c.
Proof.
  intros ts cnt s HI HS L0 s2. unfold s2.
  assert (R : forall s', s' = rotate ts s ->
              stopped s' = true \/ fsize (fs_content lp (fs s')) = 0).
  { intros s' E. destruct (rot_fires c s) eqn:F.
    - rewrite rotate_fires in E by auto. right. subst s'. rewrite rotated_live by auto. reflexivity.
    - rewrite rotate_noop in E by auto. subst s'. apply nofire_cases; auto. }
  destruct (pre_write_cases ts cnt s) as [[_ E] | [[_ [_ E]] | [_ [SD E]]]]; rewrite E.
  - destruct (R _ eq_refl) as [X|X]; [left | right; left]; exact X.
  - destruct (R _ eq_refl) as [X|X]; [left | right; left]; exact X.
  - right; right. unfold size_due in SD. apply andb_false_iff in SD as [SD|SD].
    + apply negb_false_iff in SD. apply N.eqb_eq in SD. contradiction.
    + apply N.ltb_ge in SD. rewrite <- HS. exact SD.
Qed.

Lemma do_append_full : forall d0 st cnt s, Full d0 s -> cnt = swr st ->
  (c_limit c <> 0 -> stopped s = true \/ fsize (fs_content lp (fs s)) = 0 \/ fsize (fs_content lp (fs s)) + cnt <= c_limit c) ->
  Full d0 (do_append st cnt s).
Proof.
  intros d0 st cnt s [HI HS HL HC HN HU] EC Room.
  assert (CL : fs_content lp (fs (do_append st cnt s)) = fs_content lp (fs s) ++ [st]).
  { unfold fs_content at 1. cbn [do_append fs]. rewrite append_get by auto. rewrite path_eqb_refl; auto. }
  constructor; auto.
  - apply do_append_inv; auto.
  - unfold Sz in *. rewrite CL, fsize_app. cbn [do_append fsz]. rewrite HS, EC. unfold fsize at 3. cbn. lia.
  - intro L0. destruct (HL L0) as [HL1 HL2]. split.
    + intros f Hf. cbn [do_append dq fs] in *. unfold fs_content. rewrite append_get by auto.
      destruct (I_head c s HI) as [rest [E Fr]]. rewrite E in Hf. cbn [tl] in Hf.
      assert (A : fname f <> lp) by (apply rot_wf_not_live; rewrite Forall_forall in Fr; auto).
      apply path_eqb_neq in A. rewrite A. apply HL1. rewrite E; auto.
    + intro NS. change (stopped (do_append st cnt s)) with (stopped s) in NS. rewrite CL.
      destruct (Room L0) as [X | [X | X]]; [congruence | |].
      * right. exists (fs_content lp (fs s)), st. auto.
      * left. rewrite fsize_app. unfold fsize at 2. cbn. lia.
  - intros p NR. cbn [do_append fs]. rewrite append_get by auto.
    assert (A : p <> lp) by (apply related_dec_stem; auto). apply path_eqb_neq in A. rewrite A. apply HU; auto.
Qed.

Lemma write_log_full : forall d0 id ts wr s, Full d0 s -> Full d0 (write_log strf rtm c id ts wr wr s).
Proof.
  intros d0 id ts wr s H. rewrite write_log_eq.
  pose proof (pre_write_full d0 ts wr s H) as H2.
  apply do_append_full; auto.
  intro L0. apply pre_write_room; auto; apply H.
Qed.

(* ---------- the constructor on a directory without files of the sink's shape ---------- *)
Definition clean (d : dir) : Prop := forall p, related c p -> p <> lp -> fs_get p d = None.

Lemma ext_stem_related : forall n, ext_ok c n && stem_ok c n = true <-> related c n.
Proof.
  intro n. unfold ext_ok, stem_ok, related. split.
  - intro H. apply andb_true_iff in H as [H1 H2].
    destruct n as [|s [|x r]]; try discriminate. apply comp_eqb_eq in H2. subst s.
    destruct (rev (c_stem c :: x :: r)) as [|e [|y r2]] eqn:RV; try discriminate.
    apply comp_eqb_eq in H1. subst e.
    assert (E : c_stem c :: x :: r = rev (y :: r2) ++ [c_ext c]).
    { rewrite <- (rev_involutive (c_stem c :: x :: r)), RV. reflexivity. }
    destruct (rev (y :: r2)) as [|a m] eqn:RM.
    + apply (f_equal (@length _)) in RM. rewrite rev_length in RM. discriminate.
    + cbn [app] in E. inversion E; subst. exists m. congruence.
  - intros [mid E]. subst n. apply andb_true_iff. split.
    + change (c_stem c :: mid ++ [c_ext c]) with ((c_stem c :: mid) ++ [c_ext c]).
      rewrite rev_app_distr. cbn [rev app]. destruct (rev mid ++ [c_stem c]) eqn:Q.
      * destruct (rev mid); discriminate.
      * apply comp_eqb_refl.
    + destruct mid; cbn [app]; apply comp_eqb_refl.
Qed.

Lemma fs_get_filter : forall (f : path -> bool) p d,
  fs_get p (filter (fun e => f (fst e)) d) = if f p then fs_get p d else None.
Proof.
  induction d as [|[q cq] r IH]; cbn [filter fs_get fst]; [destruct (f p); auto|].
  destruct (f q) eqn:Fq; cbn [fs_get].
  - destruct (path_eqb p q) eqn:E; auto. apply path_eqb_eq in E; subst. rewrite Fq; auto.
  - destruct (path_eqb p q) eqn:E; auto. apply path_eqb_eq in E; subst. rewrite Fq in IH. rewrite Fq. exact IH.
Qed.

Lemma clean_hit_related : forall today p, clean_hit c today p = true -> related c p.
Proof. intros today p H. unfold clean_hit in H. apply andb_true_iff in H as [H _]. apply ext_stem_related; auto. Qed.

Lemma scan_clean_get : forall today p d,
  fs_get p (scan_clean c today d) = if clean_hit c today p then None else fs_get p d.
Proof.
  intros. unfold scan_clean. rewrite (fs_get_filter (fun n => negb (clean_hit c today n))).
  destruct (clean_hit c today p); auto.
Qed.

Lemma recover_related : forall today n f, recover c today n = Some f -> related c n.
Proof.
  intros today n f H. unfold recover in H. destruct (ext_ok c n && stem_ok c n) eqn:E; [|discriminate].
  apply ext_stem_related; auto.
Qed.

Lemma recover_lp : forall today, recover c today lp = None.
Proof. intro today. unfold recover. destruct (ext_ok c lp && stem_ok c lp); reflexivity. Qed.

Lemma fold_recover_none : forall today (d : dir) acc,
  (forall e, In e d -> recover c today (fst e) = None) ->
  fold_left (fun acc (e : path * list stmt) => match recover c today (fst e) with Some f => f :: acc | None => acc end) d acc = acc.
Proof.
  induction d as [|e d IH]; intros acc H; cbn [fold_left]; auto.
  rewrite (H e) by (left; auto). apply IH. intros; apply H; right; auto.
Qed.

Lemma scan_recover_clean : forall today d, clean d -> scan_recover c today d = [].
Proof.
  intros today d CL. unfold scan_recover. rewrite fold_recover_none; auto.
  intros [n cn] He. cbn [fst]. destruct (recover c today n) eqn:R; auto. exfalso.
  pose proof (recover_related _ _ _ R) as Rn.
  destruct (path_eq_dec n lp) as [E|E]; [subst; rewrite recover_lp in R; discriminate|].
  specialize (CL n Rn E). apply fs_get_none_keys in CL. apply CL. unfold keys. apply (in_map fst) in He. exact He.
Qed.

Lemma construct_state : forall wm rm start d,
  construct strf rtm c wm rm start d =
  let today := strf 0 (start / NS) in
  let scans := match c_scheme c with SDateTime => false | _ => true end in
  let d1 := if scans && rm && wm then scan_clean c today d else d in
  let rec := if scans && negb wm then scan_recover c today d else [] in
  let d2 := fs_open wm lp d1 in
  {| fs := d2; dq := mk_live c start :: rec; fsz := fsize (fs_content lp d2); ots := start;
     nrt := match c_freq c with FDisabled => 0 | _ => init_tp rtm c start end;
     g_hist := contents d2 (rev (mk_live c start :: rec)); g_del := [] |}.
Proof. reflexivity. Qed.

Lemma construct_clean_full : forall wm rm start d0,
  clean d0 -> (wm = false -> c_limit c <> 0 -> ok_size (fs_content lp d0)) ->
  Full d0 (construct strf rtm c wm rm start d0) /\
  dq (construct strf rtm c wm rm start d0) = [mk_live c start].
Proof.
  intros wm rm start d0 CL OK0.
  set (today := strf 0 (start / NS)).
  set (scans := match c_scheme c with SDateTime => false | _ => true end).
  set (d1 := if scans && rm && wm then scan_clean c today d0 else d0).
  assert (REC : (if scans && negb wm then scan_recover c today d0 else []) = []).
  { destruct (scans && negb wm); auto. apply scan_recover_clean; auto. }
  assert (G1 : forall p, p <> lp -> fs_get p d1 = fs_get p d0).
  { intros p NP. unfold d1. destruct (scans && rm && wm); auto. rewrite scan_clean_get.
    destruct (clean_hit c today p) eqn:CH; auto. symmetry. apply CL; auto. eapply clean_hit_related; eauto. }
  assert (DQ : dq (construct strf rtm c wm rm start d0) = [mk_live c start]).
  { rewrite construct_state. cbn zeta. cbn [dq]. fold today scans. rewrite REC. reflexivity. }
  assert (FS : fs (construct strf rtm c wm rm start d0) = fs_open wm lp d1).
  { rewrite construct_state. reflexivity. }
  assert (GP : forall p, p <> lp -> fs_get p (fs_open wm lp d1) = fs_get p d0).
  { intros p NP. rewrite fs_get_open_other by congruence. apply G1; auto. }
  split; [|exact DQ].
  constructor.
  - constructor.
    + exists []. rewrite DQ. split; auto.
    + rewrite DQ. constructor; constructor.
    + intros p Rp. rewrite DQ, FS. cbn [names map In]. rewrite fname_live.
      destruct (path_eq_dec p lp) as [E|E].
      * subst. rewrite fs_get_open_same. split; [auto | discriminate].
      * rewrite GP by auto. rewrite (CL p Rp E). split; [congruence | intros [X|[]]; congruence].
    + rewrite construct_state. reflexivity.
  - rewrite construct_state. reflexivity.
  - intro L0. split.
    + rewrite DQ. intros f [].
    + intros _. rewrite FS. unfold fs_content at 1. rewrite fs_get_open_same.
      destruct wm; [apply ok_size_nil|].
      assert (X : fs_content lp d1 = fs_content lp d0).
      { unfold d1. rewrite andb_false_r. reflexivity. }
      rewrite X. apply OK0; auto.
  - unfold Cnt. rewrite DQ. cbn [length]. lia.
  - intros _. rewrite construct_state. reflexivity.
  - intros p NR. rewrite FS. apply GP. apply related_dec_stem; auto.
Qed.

End Run.
