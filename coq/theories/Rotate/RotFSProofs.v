(* Lemmas about names and the abstract directory of M-ROT. *)
From Coq Require Import List NArith Bool Lia Decimal DecimalPos DecimalN.
From Quill Require Import Rotate.RotFS.
Import ListNotations.
Open Scope N_scope.

(* ---------- decidable equality ---------- *)
Lemma comp_eqb_eq : forall a b, comp_eqb a b = true <-> a = b.
Proof.
  induction a as [|x a IH]; destruct b as [|y b]; cbn [comp_eqb]; split; intro H; try discriminate; auto.
  - apply andb_true_iff in H as [H1 H2]. apply N.eqb_eq in H1. apply IH in H2. subst; auto.
  - inversion H; subst. apply andb_true_iff; split; [apply N.eqb_refl | apply IH; auto].
Qed.

Lemma comp_eqb_refl : forall a, comp_eqb a a = true.
Proof. intro a; apply comp_eqb_eq; auto. Qed.

Lemma comp_eqb_neq : forall a b, comp_eqb a b = false <-> a <> b.
Proof.
  intros a b; split; intro H.
  - intro E. apply comp_eqb_eq in E. congruence.
  - destruct (comp_eqb a b) eqn:E; auto. apply comp_eqb_eq in E. contradiction.
Qed.

Lemma path_eqb_eq : forall a b, path_eqb a b = true <-> a = b.
Proof.
  induction a as [|x a IH]; destruct b as [|y b]; cbn [path_eqb]; split; intro H; try discriminate; auto.
  - apply andb_true_iff in H as [H1 H2]. apply comp_eqb_eq in H1. apply IH in H2. subst; auto.
  - inversion H; subst. apply andb_true_iff; split; [apply comp_eqb_refl | apply IH; auto].
Qed.

Lemma path_eqb_refl : forall a, path_eqb a a = true.
Proof. intro a; apply path_eqb_eq; auto. Qed.

Lemma path_eqb_neq : forall a b, path_eqb a b = false <-> a <> b.
Proof.
  intros a b; split; intro H.
  - intro E. apply path_eqb_eq in E. congruence.
  - destruct (path_eqb a b) eqn:E; auto. apply path_eqb_eq in E. contradiction.
Qed.

Lemma path_eq_dec : forall a b : path, {a = b} + {a <> b}.
Proof.
  intros a b. destruct (path_eqb a b) eqn:E.
  - left; apply path_eqb_eq; auto.
  - right; apply path_eqb_neq; auto.
Qed.

Lemma comp_empty_true : forall a, comp_empty a = true <-> a = [].
Proof. destruct a; cbn; split; intro; auto; discriminate. Qed.

(* ---------- directory ---------- *)
Lemma fs_get_put_same : forall p c d, fs_get p (fs_put p c d) = Some c.
Proof.
  induction d as [|[q c0] r IH]; cbn [fs_put fs_get].
  - rewrite path_eqb_refl; auto.
  - destruct (path_eqb p q) eqn:E; cbn [fs_get]; rewrite E; auto.
Qed.

Lemma fs_get_put_other : forall p q c d, p <> q -> fs_get q (fs_put p c d) = fs_get q d.
Proof.
  induction d as [|[q0 c0] r IH]; intro N; cbn [fs_put fs_get].
  - assert (path_eqb q p = false) by (apply path_eqb_neq; congruence). rewrite H; auto.
  - destruct (path_eqb p q0) eqn:E; cbn [fs_get].
    + apply path_eqb_eq in E; subst q0.
      assert (path_eqb q p = false) by (apply path_eqb_neq; congruence). rewrite H; auto.
    + destruct (path_eqb q q0); auto.
Qed.

Lemma fs_get_del_same : forall p d, fs_get p (fs_del p d) = None.
Proof.
  induction d as [|[q c] r IH]; cbn [fs_del fs_get]; auto.
  destruct (path_eqb p q) eqn:E; auto. cbn [fs_get]. rewrite E; auto.
Qed.

Lemma fs_get_del_other : forall p q d, p <> q -> fs_get q (fs_del p d) = fs_get q d.
Proof.
  induction d as [|[q0 c] r IH]; intro N; cbn [fs_del fs_get]; auto.
  destruct (path_eqb p q0) eqn:E.
  - apply path_eqb_eq in E; subst q0.
    assert (path_eqb q p = false) by (apply path_eqb_neq; congruence). rewrite H; auto.
  - cbn [fs_get]. destruct (path_eqb q q0); auto.
Qed.

(* full description of a rename *)
Lemma fs_get_rename : forall o n q d,
  fs_get q (fs_rename o n d) =
  match fs_get o d with
  | None => fs_get q d
  | Some c => if path_eqb o n then fs_get q d
              else if path_eqb q n then Some c else if path_eqb q o then None else fs_get q d
  end.
Proof.
  intros o n q d. unfold fs_rename. destruct (fs_get o d) as [c|] eqn:G; auto.
  destruct (path_eqb o n) eqn:E; auto.
  destruct (path_eqb q n) eqn:E1.
  - apply path_eqb_eq in E1; subst q. apply fs_get_put_same.
  - apply path_eqb_neq in E1. rewrite fs_get_put_other by congruence.
    destruct (path_eqb q o) eqn:E2.
    + apply path_eqb_eq in E2; subst q. apply fs_get_del_same.
    + apply path_eqb_neq in E2. apply fs_get_del_other; congruence.
Qed.

Lemma fs_rename_same : forall o d, fs_rename o o d = d.
Proof. intros. unfold fs_rename. destruct (fs_get o d); auto. rewrite path_eqb_refl; auto. Qed.

Lemma fs_content_put_same : forall p c d, fs_content p (fs_put p c d) = c.
Proof. intros; unfold fs_content; rewrite fs_get_put_same; auto. Qed.

Lemma fs_content_put_other : forall p q c d, p <> q -> fs_content q (fs_put p c d) = fs_content q d.
Proof. intros; unfold fs_content; rewrite fs_get_put_other; auto. Qed.

Lemma fs_get_open_same : forall w p d,
  fs_get p (fs_open w p d) = Some (if w then [] else fs_content p d).
Proof.
  intros w p d. unfold fs_open, fs_content. destruct w.
  - apply fs_get_put_same.
  - destruct (fs_get p d) eqn:G; auto. apply fs_get_put_same.
Qed.

Lemma fs_get_open_other : forall w p q d, p <> q -> fs_get q (fs_open w p d) = fs_get q d.
Proof.
  intros w p q d N. unfold fs_open. destruct w.
  - apply fs_get_put_other; auto.
  - destruct (fs_get p d); auto. apply fs_get_put_other; auto.
Qed.

Lemma fs_get_append_same : forall p s d c, fs_get p d = Some c -> fs_get p (fs_append p s d) = Some (c ++ [s]).
Proof. intros p s d c G. unfold fs_append. rewrite G. apply fs_get_put_same. Qed.

Lemma fs_get_append_other : forall p q s d, p <> q -> fs_get q (fs_append p s d) = fs_get q d.
Proof. intros p q s d N. unfold fs_append. destruct (fs_get p d); auto. apply fs_get_put_other; auto. Qed.

Lemma fsize_app : forall a b, fsize (a ++ b) = fsize a + fsize b.
Proof.
  induction a as [|x a IH]; intro b.
  - reflexivity.
  - change (swr x + fsize (a ++ b) = swr x + fsize a + fsize b). rewrite IH. apply N.add_assoc.
Qed.

Lemma fsize_cons : forall x a, fsize (x :: a) = swr x + fsize a.
Proof. reflexivity. Qed.

(* keys *)
Definition keys (d : dir) : list path := map fst d.

Lemma fs_get_none_keys : forall p d, fs_get p d = None <-> ~ In p (keys d).
Proof.
  induction d as [|[q c] r IH]; cbn [fs_get keys map fst In].
  - split; auto.
  - destruct (path_eqb p q) eqn:E.
    + apply path_eqb_eq in E; subst. split; [discriminate | intro H; exfalso; apply H; auto].
    + apply path_eqb_neq in E. rewrite IH. unfold keys. split; intro H.
      * intros [H1|H1]; [congruence | auto].
      * intro H1; apply H; auto.
Qed.

Lemma fs_get_some_in : forall p c d, fs_get p d = Some c -> In (p, c) d.
Proof.
  induction d as [|[q c0] r IH]; cbn [fs_get In]; [discriminate|].
  destruct (path_eqb p q) eqn:E.
  - apply path_eqb_eq in E; subst. intro H; inversion H; auto.
  - auto.
Qed.

Lemma fs_get_in_nodup : forall p c d, NoDup (keys d) -> In (p, c) d -> fs_get p d = Some c.
Proof.
  induction d as [|[q c0] r IH]; cbn [fs_get In keys map fst]; [tauto|].
  intros ND [H|H].
  - inversion H; subst. rewrite path_eqb_refl; auto.
  - inversion ND as [|? ? N1 N2]; subst.
    destruct (path_eqb p q) eqn:E.
    + apply path_eqb_eq in E; subst. exfalso. apply N1. apply (in_map fst) in H. exact H.
    + auto.
Qed.

Lemma keys_put : forall p c d, keys (fs_put p c d) = if existsb (path_eqb p) (keys d) then keys d else keys d ++ [p].
Proof.
  induction d as [|[q c0] r IH]; cbn [fs_put keys map fst existsb]; auto.
  destruct (path_eqb p q) eqn:E; cbn [map fst orb]; auto.
  fold (keys (fs_put p c r)). fold (keys r). rewrite IH. destruct (existsb (path_eqb p) (keys r)); auto.
Qed.

Lemma existsb_path_in : forall p l, existsb (path_eqb p) l = true <-> In p l.
Proof.
  intros p l. rewrite existsb_exists. split.
  - intros [x [H1 H2]]. apply path_eqb_eq in H2; subst; auto.
  - intro H; exists p; split; auto. apply path_eqb_refl.
Qed.


(* ---------- decimal rendering / stoul ---------- *)
Lemma uint_bytes_inj : forall u v, uint_bytes u = uint_bytes v -> u = v.
Proof.
  induction u; destruct v; cbn [uint_bytes]; intro H; try discriminate; auto;
    inversion H; f_equal; auto.
Qed.

Lemma dec_inj : forall n m, dec n = dec m -> n = m.
Proof.
  intros n m H. unfold dec in H. apply uint_bytes_inj in H.
  rewrite <- (DecimalN.Unsigned.of_to n), <- (DecimalN.Unsigned.of_to m). congruence.
Qed.

Lemma of_digits_cons : forall acc b r,
  of_digits acc (b :: r) = if is_digit b then of_digits (acc * 10 + (b - 48)) r else acc.
Proof. reflexivity. Qed.

Ltac digit_step :=
  cbn [uint_bytes]; rewrite of_digits_cons;
  match goal with |- context[is_digit ?b] =>
    let v := eval vm_compute in (is_digit b) in change (is_digit b) with v;
    let w := eval vm_compute in (b - 48) in change (b - 48) with w end;
  cbv iota.

Lemma of_digits_acc : forall u acc,
  of_digits (Npos acc) (uint_bytes u) = Npos (Pos.of_uint_acc u acc).
Proof.
  induction u; intro acc; cbn [Pos.of_uint_acc]; [reflexivity | ..]; digit_step;
    match goal with |- of_digits ?x _ = N.pos (Pos.of_uint_acc _ ?y) =>
      replace x with (N.pos y) by lia end; apply IHu.
Qed.

Lemma of_digits_uint : forall u, of_digits 0 (uint_bytes u) = Pos.of_uint u.
Proof.
  induction u; cbn [Pos.of_uint]; [reflexivity | ..]; digit_step.
  - exact IHu.
  - apply (of_digits_acc u 1).
  - apply (of_digits_acc u 2).
  - apply (of_digits_acc u 3).
  - apply (of_digits_acc u 4).
  - apply (of_digits_acc u 5).
  - apply (of_digits_acc u 6).
  - apply (of_digits_acc u 7).
  - apply (of_digits_acc u 8).
  - apply (of_digits_acc u 9).
Qed.

Lemma uint_bytes_hd_digit : forall u, u <> Nil -> exists b r, uint_bytes u = b :: r /\ is_digit b = true.
Proof. destruct u; intro H; try congruence; cbn [uint_bytes]; eexists; eexists; split; reflexivity. Qed.

Lemma to_uint_nonnil : forall n, N.to_uint n <> Nil.
Proof.
  destruct n; cbn; [discriminate|]. apply DecimalPos.Unsigned.to_uint_nonnil.
Qed.

Lemma uint_bytes_all_digits : forall u, forallb is_digit (uint_bytes u) = true.
Proof. induction u; cbn [uint_bytes forallb]; [reflexivity | ..]; rewrite IHu; reflexivity. Qed.

Lemma stoul_dec : forall n, stoul (dec n) = Some n.
Proof.
  intro n. unfold stoul, dec.
  destruct (uint_bytes_hd_digit (N.to_uint n) (to_uint_nonnil n)) as [b [r [E D]]].
  rewrite E, <- E, uint_bytes_all_digits. f_equal. rewrite of_digits_uint. apply DecimalN.Unsigned.of_to.
Qed.

Lemma dec_nonempty : forall n, dec n <> [].
Proof.
  intro n. unfold dec. destruct (uint_bytes_hd_digit (N.to_uint n) (to_uint_nonnil n)) as [b [r [E _]]].
  rewrite E; discriminate.
Qed.

(* ---------- file names over the base "stem.ext" ---------- *)
Lemma get_filename_live : forall s e i d,
  get_filename [s; e] i d =
  [s] ++ (if comp_empty d then [] else [d]) ++ (if i =? 0 then [] else [dec i]) ++ [e].
Proof.
  intros s e i d. unfold get_filename. destruct (comp_empty d); destruct (i =? 0); reflexivity.
Qed.

(* names are injective as long as empty suffixes are used consistently: either both names carry a
   suffix or none does, or one of them is the live name *)
Lemma get_filename_inj : forall s e i1 d1 i2 d2,
  (d1 = [] <-> d2 = []) \/ (d1 = [] /\ i1 = 0) \/ (d2 = [] /\ i2 = 0) ->
  get_filename [s; e] i1 d1 = get_filename [s; e] i2 d2 -> i1 = i2 /\ d1 = d2.
Proof.
  intros s e i1 d1 i2 d2 C H. rewrite !get_filename_live in H.
  destruct (comp_empty d1) eqn:E1; destruct (comp_empty d2) eqn:E2;
    destruct (i1 =? 0) eqn:Z1; destruct (i2 =? 0) eqn:Z2;
    try apply comp_empty_true in E1; try apply comp_empty_true in E2;
    try apply N.eqb_eq in Z1; try apply N.eqb_eq in Z2;
    cbn [app] in H; inversion H; subst; auto;
    try (split; [apply dec_inj; auto | auto]; fail).
  (* the ambiguous shapes: "stem.<suffix>.ext" against "stem.<index>.ext" *)
  all: exfalso; destruct C as [[Ca Cb] | [[C1 C2] | [C1 C2]]]; subst;
    try (apply N.eqb_neq in Z1; congruence); try (apply N.eqb_neq in Z2; congruence);
    repeat match goal with H : ?x = ?x -> _ |- _ => specialize (H eq_refl) end;
    try match goal with
        | H : dec ?i = [] |- _ => exact (dec_nonempty i H)
        | H : [] = dec ?i |- _ => exact (dec_nonempty i (eq_sym H))
        end;
    try (cbn in *; congruence).
Qed.
