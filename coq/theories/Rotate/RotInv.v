(* The structural invariant of M-ROT and its preservation by _rotate_files / write_log. *)
From Coq Require Import List NArith Bool Lia.
From Quill Require Import Rotate.RotFS Rotate.RotFSProofs Rotate.RotModel Rotate.RotChain.
Import ListNotations.
Open Scope N_scope.

(* generic list facts *)
Lemma FOP_app_l : forall A (R : A -> A -> Prop) l1 l2, ForallOrdPairs R (l1 ++ l2) -> ForallOrdPairs R l1.
Proof.
  induction l1 as [|a l1 IH]; intros l2 H; [constructor|].
  inversion H; subst. constructor; [|eapply IH; eauto].
  apply Forall_app in H2. tauto.
Qed.

Lemma FOP_before : forall A (R : A -> A -> Prop) l1 y l2 z,
  ForallOrdPairs R (l1 ++ y :: l2) -> In z l1 -> R z y.
Proof.
  induction l1 as [|a l1 IH]; intros y l2 z H Hz; [destruct Hz|].
  cbn [app] in H. inversion H; subst. destruct Hz as [E|Hz].
  - subst. rewrite Forall_forall in H2. apply H2. apply in_or_app; right; left; auto.
  - eapply IH; eauto.
Qed.

Lemma removelast_map : forall A B (f : A -> B) l, removelast (map f l) = map f (removelast l).
Proof.
  induction l as [|a l IH]; auto. cbn [map removelast]. destruct l; auto.
  cbn [map] in *. rewrite IH; auto.
Qed.

Lemma last_map : forall A B (f : A -> B) l d, l <> [] -> last (map f l) (f d) = f (last l d).
Proof.
  induction l as [|a l IH]; intros d H; [congruence|]. destruct l; auto.
  cbn [map last] in *. apply IH. discriminate.
Qed.

Lemma last_indep : forall A (l : list A) d1 d2, l <> [] -> last l d1 = last l d2.
Proof. induction l as [|a l IH]; intros; [congruence|]. destruct l; auto. cbn [last] in *. apply IH; discriminate. Qed.

Lemma flat_map_ext_in' : forall A B (f g : A -> list B) l,
  (forall a, In a l -> f a = g a) -> flat_map f l = flat_map g l.
Proof.
  induction l as [|a l IH]; intro H; cbn [flat_map]; auto.
  rewrite H by (left; auto). rewrite IH; auto. intros; apply H; right; auto.
Qed.

Section Inv.
Variable strf : N -> N -> comp.
Variable c : cfg.
Hypothesis strf_nonempty : forall k t, strf k t <> [].

Notation lp := (live_path c).
Notation sfx_of := (suffix strf c).
Notation rotate := (rotate_files strf c).
Notation B := (bump c).

Definition rot_wf (f : finfo) : Prop :=
  fbase f = lp /\ (if is_index c then fdt f = [] /\ fidx f <> 0 else fdt f <> []).
Definition is_live (f : finfo) : Prop := fbase f = lp /\ fidx f = 0 /\ fdt f = [].
Definition ent_ok (f : finfo) : Prop := rot_wf f \/ is_live f.
Definition related (p : path) : Prop := exists mid, p = c_stem c :: mid ++ [c_ext c].
Definition Rord (a b : finfo) : Prop := fdt a = fdt b -> fidx a < fidx b.
Definition ordp (l : list finfo) : Prop := ForallOrdPairs Rord l.
Definition contents (d : dir) (l : list finfo) : list stmt := flat_map (fun f => fs_content (fname f) d) l.

Lemma mk_live_is_live : forall t, is_live (mk_live c t).
Proof. intro t; repeat split. Qed.

Lemma fname_live : forall t, fname (mk_live c t) = lp.
Proof. reflexivity. Qed.

Lemma fname_ok : forall f, ent_ok f -> fname f = get_filename [c_stem c; c_ext c] (fidx f) (fdt f).
Proof. intros f [[E _]|[E _]]; unfold fname; rewrite E; reflexivity. Qed.

Lemma fname_related : forall f, ent_ok f -> related (fname f).
Proof.
  intros f H. rewrite fname_ok by auto. rewrite get_filename_live.
  eexists. cbn [app]. f_equal. rewrite app_assoc. reflexivity.
Qed.

Lemma lp_related : related lp.
Proof. exists []. reflexivity. Qed.

Lemma fname_inj : forall f g, ent_ok f -> ent_ok g -> fname f = fname g -> fidx f = fidx g /\ fdt f = fdt g.
Proof.
  intros f g Hf Hg E. rewrite (fname_ok f Hf), (fname_ok g Hg) in E.
  apply get_filename_inj in E; auto.
  destruct Hf as [[_ Hf]|[_ [Hf1 Hf2]]]; destruct Hg as [[_ Hg]|[_ [Hg1 Hg2]]]; auto.
  destruct (is_index c).
  - left. destruct Hf, Hg. split; congruence.
  - left. split; intro; contradiction.
Qed.

Lemma rot_wf_not_live : forall f, rot_wf f -> fname f <> lp.
Proof.
  intros f H E. rewrite <- (fname_live 0) in E.
  apply fname_inj in E; [| left; auto | right; apply mk_live_is_live].
  destruct E as [E1 E2]. cbn in E1, E2. destruct H as [_ H]. destruct (is_index c); [destruct H; congruence | congruence].
Qed.

Lemma sfx_nonempty : forall t, is_index c = false -> sfx_of t <> [].
Proof. intros t H. unfold suffix, is_index in *. destruct (c_scheme c); [discriminate | apply strf_nonempty ..]. Qed.

Lemma sfx_index : forall t, is_index c = true -> sfx_of t = [].
Proof. intros t H. unfold suffix, is_index in *. destruct (c_scheme c); auto; discriminate. Qed.

(* --- bump on well-formed entries --- *)
Lemma bump_live : forall t u, rot_wf (B (sfx_of u) (mk_live c t)) /\
  fidx (B (sfx_of u) (mk_live c t)) = (if is_index c then 1 else 0) /\ fdt (B (sfx_of u) (mk_live c t)) = sfx_of u.
Proof.
  intros t u. unfold bump, rot_wf. cbn [mk_live fdt fidx fbase].
  destruct (is_index c) eqn:I; cbn [orb].
  - cbn [fbase fdt fidx]. rewrite (sfx_index u I). repeat split; auto. cbn; lia.
  - pose proof (sfx_nonempty u I) as NE.
    assert (X : comp_eqb [] (sfx_of u) = false) by (apply comp_eqb_neq; congruence).
    rewrite X. cbn [comp_empty fbase fdt fidx]. repeat split; auto.
Qed.

Lemma bump_rot : forall u f, rot_wf f ->
  rot_wf (B (sfx_of u) f) /\
  ((fdt f = sfx_of u /\ fidx (B (sfx_of u) f) = fidx f + 1 /\ fdt (B (sfx_of u) f) = sfx_of u) \/
   (fdt f <> sfx_of u /\ B (sfx_of u) f = f)).
Proof.
  intros u f [Hb H]. unfold bump, rot_wf.
  destruct (is_index c) eqn:I; cbn [orb].
  - destruct H as [H1 H2]. cbn [fbase fdt fidx]. rewrite (sfx_index u I). split; [repeat split; auto; lia|].
    left; repeat split; auto.
  - destruct (comp_eqb (fdt f) (sfx_of u)) eqn:E.
    + apply comp_eqb_eq in E. cbn [fbase fdt fidx]. split; [split; auto; apply sfx_nonempty; auto|].
      left; auto.
    + apply comp_eqb_neq in E. destruct (comp_empty (fdt f)) eqn:Em.
      * apply comp_empty_true in Em. contradiction.
      * split; [split; auto|]. right; auto.
Qed.

Lemma bump_ok : forall u f, ent_ok f -> rot_wf (B (sfx_of u) f).
Proof.
  intros u f [H|H].
  - apply bump_rot; auto.
  - destruct f as [b i d g]. destruct H as [H1 [H2 H3]]. cbn in H1, H2, H3. subst.
    apply (bump_live g u).
Qed.

(* --- the invariant --- *)
Record Inv (s : rstate) : Prop := {
  I_head : exists rest, dq s = mk_live c (ots s) :: rest /\ Forall rot_wf rest;
  I_ord : ordp (dq s);
  I_disk : forall p, related p -> (fs_get p (fs s) <> None <-> In p (names (dq s)));
  I_hist : g_del s ++ contents (fs s) (rev (dq s)) = g_hist s }.

Lemma inv_ent_ok : forall s, Inv s -> Forall ent_ok (dq s).
Proof.
  intros s H. destruct (I_head s H) as [rest [E F]]. rewrite E. constructor.
  - right; apply mk_live_is_live.
  - eapply Forall_impl; [|exact F]. intros; left; auto.
Qed.

Lemma ordp_nodup : forall l, Forall ent_ok l -> ordp l -> NoDup (names l).
Proof.
  induction l as [|a l IH]; intros F O; cbn [names map]; [constructor|].
  inversion F as [|? ? Fa Fl]; subst. inversion O as [|? ? Oa Ol]; subst. constructor; [|apply IH; auto].
  intro I. unfold names in I. apply in_map_iff in I as [b [E Hb]].
  rewrite Forall_forall in Oa, Fl. specialize (Oa b Hb). specialize (Fl b Hb).
  symmetry in E. apply fname_inj in E; auto. destruct E as [E1 E2].
  specialize (Oa E2). lia.
Qed.

Lemma inv_nodup : forall s, Inv s -> NoDup (names (dq s)).
Proof. intros s H. apply ordp_nodup; [apply inv_ent_ok; auto | apply I_ord; auto]. Qed.

Lemma inv_live_exists : forall s, Inv s -> exists cl, fs_get lp (fs s) = Some cl.
Proof.
  intros s H. destruct (I_head s H) as [rest [E _]].
  destruct (fs_get lp (fs s)) eqn:G; [eauto|]. exfalso.
  apply (proj2 (I_disk s H lp lp_related)); [|exact G]. rewrite E. left. apply fname_live.
Qed.

(* ordered pairs after the bump *)
Lemma ordp_bump : forall u t rest,
  Forall rot_wf rest -> ordp (mk_live c t :: rest) -> ordp (map (B (sfx_of u)) (mk_live c t :: rest)).
Proof.
  intros u t rest F O. inversion O as [|? ? OL OR]; subst.
  cbn [map]. constructor.
  - (* bumped live against the bumped rest *)
    rewrite Forall_forall. intros x Hx. apply in_map_iff in Hx as [y [Ey Hy]]. subst x.
    rewrite Forall_forall in F, OL. specialize (F y Hy). specialize (OL y Hy).
    destruct (bump_live t u) as [_ [Li Ld]]. unfold Rord. rewrite Li, Ld.
    destruct (bump_rot u y F) as [_ [[Y1 [Y2 Y3]] | [Y1 Y2]]].
    + rewrite Y2. intros _. destruct (is_index c) eqn:I; [|lia].
      unfold Rord in OL. cbn [mk_live fdt fidx] in OL. destruct F as [_ F]. rewrite I in F. destruct F as [F1 F2].
      specialize (OL (eq_sym F1)). lia.
    + rewrite Y2. intro E. congruence.
  - (* the rest *)
    clear OL O. induction rest as [|a rest IH]; cbn [map]; [constructor|].
    inversion F as [|? ? Fa Fl]; subst. inversion OR as [|? ? Oa Ol]; subst. constructor; [|apply IH; auto].
    rewrite Forall_forall. intros x Hx. apply in_map_iff in Hx as [y [Ey Hy]]. subst x.
    rewrite Forall_forall in Fl, Oa. specialize (Fl y Hy). specialize (Oa y Hy).
    unfold Rord in *.
    destruct (bump_rot u a Fa) as [_ [[A1 [A2 A3]] | [A1 A2]]];
      destruct (bump_rot u y Fl) as [_ [[Y1 [Y2 Y3]] | [Y1 Y2]]].
    + rewrite A2, Y2. intros _. assert (fidx a < fidx y) by (apply Oa; congruence). lia.
    + rewrite A3, Y2. intro E. congruence.
    + rewrite A2, Y3. intro E. congruence.
    + rewrite A2, Y2. auto.
Qed.

(* the target of a rename never names a newer file that still waits for its own rename *)
Lemma bump_order_ok : forall u t rest l1 y l2 z,
  Forall rot_wf rest -> ordp (mk_live c t :: rest) ->
  rev (mk_live c t :: rest) = l1 ++ y :: l2 -> In z l2 ->
  fname (B (sfx_of u) y) <> fname z.
Proof.
  intros u t rest l1 y l2 z F O E Hz.
  assert (E2 : mk_live c t :: rest = rev l2 ++ y :: rev l1).
  { rewrite <- (rev_involutive (mk_live c t :: rest)), E, rev_app_distr. cbn [rev]. rewrite <- app_assoc. reflexivity. }
  assert (Hz2 : In z (rev l2)) by (apply in_rev in Hz; exact Hz).
  assert (Rzy : Rord z y) by (rewrite E2 in O; eapply FOP_before; eauto).
  destruct (rev l2) as [|h tl2] eqn:RL; [destruct Hz2|].
  cbn [app] in E2. inversion E2 as [[Eh Er]]. subst h.
  (* y and everything after the head are rotated entries *)
  assert (Fy : rot_wf y).
  { rewrite Forall_forall in F. apply F. rewrite Er. apply in_or_app; right; left; auto. }
  assert (Oz : ent_ok z).
  { destruct Hz2 as [Ez|Hz2]; [subst; right; apply mk_live_is_live|].
    left. rewrite Forall_forall in F. apply F. rewrite Er. apply in_or_app; left; auto. }
  intro EN. apply fname_inj in EN; [| left; apply bump_rot; auto | auto].
  destruct EN as [E1 E3]. unfold Rord in Rzy.
  destruct (bump_rot u y Fy) as [_ [[Y1 [Y2 Y3]] | [Y1 Y2]]].
  - rewrite Y2 in E1. rewrite Y3 in E3. assert (fidx z < fidx y) by (apply Rzy; congruence). lia.
  - rewrite Y2 in E1, E3. assert (fidx z < fidx y) by (apply Rzy; congruence). lia.
Qed.

(* --- _rotate_files --- *)
Definition rot_fires (s : rstate) : bool :=
  negb ((c_maxb c <? N.of_nat (length (dq s))) && negb (c_over c)) &&
  negb (fsize (fs_content lp (fs s)) =? 0).

Definition d1_of (s : rstate) : dir := snd (chain c (sfx_of (ots s)) (rev (dq s)) (fs s)).
Definition dq1_of (s : rstate) : list finfo := map (B (sfx_of (ots s))) (dq s).
Definition del_due (s : rstate) : bool := c_maxb c <? N.of_nat (length (dq1_of s)).
Definition lastf (s : rstate) : finfo := last (dq1_of s) (mk_live c 0).

Definition rotated (ts : N) (s : rstate) : rstate :=
  {| fs := fs_put lp [] (if del_due s then fs_del (fname (lastf s)) (d1_of s) else d1_of s);
     dq := mk_live c ts :: (if del_due s then removelast (dq1_of s) else dq1_of s);
     fsz := 0; ots := ts; nrt := nrt s; g_hist := g_hist s;
     g_del := g_del s ++ (if del_due s then fs_content (fname (lastf s)) (d1_of s) else []) |}.

Lemma rotate_noop : forall ts s, rot_fires s = false -> rotate ts s = s.
Proof.
  intros ts s H. unfold rot_fires in H. unfold rotate_files.
  destruct ((c_maxb c <? N.of_nat (length (dq s))) && negb (c_over c)); auto.
  cbn [negb andb] in H. apply negb_false_iff in H. rewrite H. auto.
Qed.

Lemma rotate_fires : forall ts s, rot_fires s = true -> rotate ts s = rotated ts s.
Proof.
  intros ts s H. unfold rot_fires in H. apply andb_true_iff in H as [H1 H2].
  apply negb_true_iff in H1. apply negb_true_iff in H2.
  unfold rotate_files. rewrite H1, H2.
  pose proof (chain_fst c (sfx_of (ots s)) (rev (dq s)) (fs s)) as CF.
  unfold rotated, del_due, lastf, dq1_of, d1_of.
  destruct (chain c (sfx_of (ots s)) (rev (dq s)) (fs s)) as [l1 d1]. cbn [fst snd] in *. subst l1.
  rewrite map_rev, rev_involutive.
  destruct (c_maxb c <? N.of_nat (length (map (B (sfx_of (ots s))) (dq s)))); reflexivity.
Qed.

Lemma names_rev : forall l, names (rev l) = rev (names l).
Proof. intro l. unfold names. apply map_rev. Qed.

Lemma chain_facts : forall s, Inv s ->
  (forall y, In y (dq s) -> fs_get (fname (B (sfx_of (ots s)) y)) (d1_of s) = fs_get (fname y) (fs s)) /\
  (forall p, ~ In p (names (dq1_of s)) ->
     fs_get p (d1_of s) = if in_dec path_eq_dec p (names (dq s)) then None else fs_get p (fs s)).
Proof.
  intros s H. destruct (I_head s H) as [rest [E F]].
  pose proof (inv_ent_ok s H) as EO. pose proof (inv_nodup s H) as ND. pose proof (I_ord s H) as O.
  set (u := ots s) in *.
  assert (F1 : Forall rot_wf (dq1_of s)).
  { unfold dq1_of. rewrite Forall_forall. intros x Hx. apply in_map_iff in Hx as [y [Ey Hy]]. subst x.
    apply bump_ok. rewrite Forall_forall in EO; auto. }
  assert (ND1 : NoDup (names (dq1_of s))).
  { apply ordp_nodup.
    - eapply Forall_impl; [|exact F1]. intros; left; auto.
    - unfold dq1_of. rewrite E. apply ordp_bump; auto. rewrite <- E; auto. }
  destruct (chain_get c (sfx_of u) (rev (dq s)) (fs s)) as [R1 R2].
  - rewrite names_rev. apply NoDup_rev; auto.
  - rewrite map_rev. rewrite names_rev. apply NoDup_rev. exact ND1.
  - intros l1 y l2 EL z Hz. rewrite E in EL. apply (bump_order_ok u u rest l1 y l2 z F); auto. rewrite <- E; exact O.
  - intros y Hy. apply in_rev in Hy. apply (I_disk s H).
    + apply fname_related. rewrite Forall_forall in EO; auto.
    + unfold names. apply in_map; auto.
  - intros y Hy Nin. apply in_rev in Hy.
    destruct (fs_get (fname (B (sfx_of u) y)) (fs s)) eqn:G; auto. exfalso. apply Nin.
    rewrite names_rev. apply -> in_rev.
    apply (I_disk s H).
    + apply fname_related. left. apply bump_ok. rewrite Forall_forall in EO; auto.
    + rewrite G; discriminate.
  - split.
    + intros y Hy. apply R1. apply -> in_rev; auto.
    + intros p Np. fold (d1_of s). unfold d1_of. rewrite R2.
      * destruct (in_dec path_eq_dec p (names (rev (dq s)))) as [I|I];
          destruct (in_dec path_eq_dec p (names (dq s))) as [J|J]; auto; exfalso.
        -- apply J. rewrite names_rev in I. apply in_rev in I; auto.
        -- apply I. rewrite names_rev. apply -> in_rev; auto.
      * rewrite map_rev, names_rev. intro I. apply in_rev in I. auto.
Qed.

Lemma Forall_removelast : forall A (P : A -> Prop) l, Forall P l -> Forall P (removelast l).
Proof.
  induction l as [|a l IH]; intro H; cbn [removelast]; auto. destruct l; [constructor|].
  inversion H; subst. constructor; auto.
Qed.

Lemma contents_map : forall d d' g X,
  (forall y, In y X -> fs_content (fname (g y)) d' = fs_content (fname y) d) ->
  contents d' (map g X) = contents d X.
Proof.
  intros d d' g X H. unfold contents. rewrite flat_map_concat_map, map_map, <- flat_map_concat_map.
  apply flat_map_ext_in'. intros a Ha. apply H; auto.
Qed.

Lemma contents_ext : forall d d' X,
  (forall y, In y X -> fs_get (fname y) d' = fs_get (fname y) d) -> contents d' X = contents d X.
Proof.
  intros d d' X H. unfold contents. apply flat_map_ext_in'. intros a Ha. unfold fs_content. rewrite H; auto.
Qed.

Lemma contents_app : forall d X Y, contents d (X ++ Y) = contents d X ++ contents d Y.
Proof. intros; unfold contents; apply flat_map_app. Qed.

Lemma dq1_rot_wf : forall s, Inv s -> Forall rot_wf (dq1_of s).
Proof.
  intros s H. pose proof (inv_ent_ok s H) as EO.
  unfold dq1_of. rewrite Forall_forall. intros x Hx. apply in_map_iff in Hx as [y [Ey Hy]]. subst x.
  apply bump_ok. rewrite Forall_forall in EO; auto.
Qed.

Lemma dq1_ordp : forall s, Inv s -> ordp (dq1_of s).
Proof.
  intros s H. destruct (I_head s H) as [rest [E F]]. unfold dq1_of. rewrite E.
  apply ordp_bump; auto. rewrite <- E. apply I_ord; auto.
Qed.

Lemma dq1_nodup : forall s, Inv s -> NoDup (names (dq1_of s)).
Proof.
  intros s H. apply ordp_nodup; [|apply dq1_ordp; auto].
  eapply Forall_impl; [|apply dq1_rot_wf; auto]. intros; left; auto.
Qed.

Lemma dq1_nonempty : forall s, Inv s -> dq1_of s <> [].
Proof. intros s H. destruct (I_head s H) as [rest [E _]]. unfold dq1_of. rewrite E. discriminate. Qed.

(* where the files are after the rotation *)
Lemma rotated_get : forall ts s p, Inv s ->
  fs_get p (fs (rotated ts s)) =
  if path_eqb p lp then Some []
  else if del_due s && path_eqb p (fname (lastf s)) then None
  else fs_get p (d1_of s).
Proof.
  intros ts s p H. cbn [rotated fs].
  destruct (path_eqb p lp) eqn:E.
  - apply path_eqb_eq in E; subst. apply fs_get_put_same.
  - apply path_eqb_neq in E. rewrite fs_get_put_other by congruence.
    destruct (del_due s); cbn [andb]; auto.
    destruct (path_eqb p (fname (lastf s))) eqn:E2.
    + apply path_eqb_eq in E2; subst. apply fs_get_del_same.
    + apply path_eqb_neq in E2. apply fs_get_del_other; congruence.
Qed.

Lemma rotated_inv : forall ts s, Inv s -> Inv (rotated ts s).
Proof.
  intros ts s H.
  destruct (chain_facts s H) as [R1 R2].
  pose proof (dq1_rot_wf s H) as F1. pose proof (dq1_ordp s H) as O1. pose proof (dq1_nodup s H) as ND1.
  pose proof (dq1_nonempty s H) as NE1.
  pose proof (app_removelast_last (mk_live c 0) NE1) as SPL. fold (lastf s) in SPL.
  set (dq2 := if del_due s then removelast (dq1_of s) else dq1_of s).
  assert (F2 : Forall rot_wf dq2).
  { unfold dq2. destruct (del_due s); auto. apply Forall_removelast; auto. }
  assert (O2 : ordp dq2).
  { unfold dq2. destruct (del_due s); auto. unfold ordp in *. rewrite SPL in O1. eapply FOP_app_l; eauto. }
  assert (Sub : forall x, In x dq2 -> In x (dq1_of s)).
  { unfold dq2. intros x Hx. destruct (del_due s); auto. rewrite SPL. apply in_or_app; auto. }
  assert (NL : forall x, In x dq2 -> del_due s = true -> fname x <> fname (lastf s)).
  { unfold dq2. intros x Hx DD. rewrite DD in Hx. intro EN.
    rewrite SPL in ND1. unfold names in ND1. rewrite map_app in ND1. apply NoDup_remove_2 in ND1.
    apply ND1. rewrite app_nil_r. rewrite <- EN. apply in_map; auto. }
  assert (G2 : forall x, In x dq2 -> fs_get (fname x) (fs (rotated ts s)) = fs_get (fname x) (d1_of s)).
  { intros x Hx. rewrite rotated_get by auto.
    assert (A : fname x <> lp) by (apply rot_wf_not_live; rewrite Forall_forall in F2; auto).
    apply path_eqb_neq in A. rewrite A.
    destruct (del_due s) eqn:DD; cbn [andb]; auto.
    specialize (NL x Hx eq_refl). apply path_eqb_neq in NL. rewrite NL; auto. }
  constructor.
  - (* head *)
    exists dq2. split; auto.
  - (* order *)
    cbn [rotated dq]. fold dq2. constructor; auto.
    rewrite Forall_forall. intros x Hx. rewrite Forall_forall in F2. specialize (F2 x Hx).
    unfold Rord. cbn [mk_live fdt fidx]. intro E. destruct F2 as [_ F2].
    destruct (is_index c); [destruct F2; lia | congruence].
  - (* disk *)
    intros p Rp. cbn [rotated dq]. fold dq2. rewrite rotated_get by auto.
    destruct (path_eqb p lp) eqn:E.
    { apply path_eqb_eq in E; subst. split; [intros _; left; apply fname_live | intros _; discriminate]. }
    apply path_eqb_neq in E.
    assert (InEq : In p (names (mk_live c ts :: dq2)) <-> In p (names dq2)).
    { cbn [names map In]. rewrite fname_live. split; [intros [X|X]; [congruence | auto] | auto]. }
    rewrite InEq.
    assert (D1p : fs_get p (d1_of s) <> None <-> In p (names (dq1_of s))).
    { destruct (in_dec path_eq_dec p (names (dq1_of s))) as [I|I].
      - split; auto. intros _. unfold names, dq1_of in I. rewrite map_map in I. apply in_map_iff in I as [y [Ey Hy]].
        rewrite <- Ey, R1 by auto. apply (I_disk s H).
        + apply fname_related. pose proof (inv_ent_ok s H) as EO. rewrite Forall_forall in EO; auto.
        + unfold names; apply in_map; auto.
      - split; [|tauto]. intro X. exfalso. apply X. rewrite R2 by auto.
        destruct (in_dec path_eq_dec p (names (dq s))) as [J|J]; auto.
        destruct (fs_get p (fs s)) eqn:G; auto. exfalso. apply J. apply (I_disk s H); auto. rewrite G; discriminate. }
    unfold dq2. destruct (del_due s) eqn:DD; cbn [andb]; [|exact D1p].
    destruct (path_eqb p (fname (lastf s))) eqn:E2.
    + apply path_eqb_eq in E2. split; [congruence|]. intro X. exfalso.
      unfold names in X. apply in_map_iff in X as [x [Ex Hx]].
      apply (NL x Hx eq_refl). congruence.
    + apply path_eqb_neq in E2. rewrite D1p. rewrite SPL at 1. unfold names. rewrite map_app, in_app_iff.
      cbn [map In]. split; [intros [X|[X|[]]]; [auto | congruence] | auto].
  - (* history *)
    cbn [rotated dq g_del g_hist]. fold dq2. cbn [rev]. rewrite contents_app.
    assert (CL : contents (fs (rotated ts s)) [mk_live c ts] = []).
    { unfold contents. cbn [flat_map]. rewrite fname_live, app_nil_r. unfold fs_content.
      rewrite rotated_get by auto. rewrite path_eqb_refl; auto. }
    rewrite CL, app_nil_r.
    assert (C2 : contents (fs (rotated ts s)) (rev dq2) = contents (d1_of s) (rev dq2)).
    { apply contents_ext. intros y Hy. apply in_rev in Hy. apply G2; auto. }
    rewrite C2.
    assert (C1 : forall X, incl X (dq s) -> contents (d1_of s) (map (B (sfx_of (ots s))) X) = contents (fs s) X).
    { intros X HX. apply contents_map. intros y Hy. unfold fs_content. rewrite R1; auto. }
    rewrite <- (I_hist s H).
    unfold dq2. destruct (del_due s) eqn:DD.
    + (* the oldest file is deleted *)
      destruct (I_head s H) as [rest [E _]].
      assert (NEd : dq s <> []) by (rewrite E; discriminate).
      pose proof (app_removelast_last (mk_live c 0) NEd) as SPd.
      unfold dq1_of. rewrite removelast_map.
      rewrite <- map_rev, C1 by (intros x Hx; apply in_rev in Hx; rewrite SPd; apply in_or_app; auto).
      unfold lastf, dq1_of.
      assert (LM : last (map (B (sfx_of (ots s))) (dq s)) (mk_live c 0) = B (sfx_of (ots s)) (last (dq s) (mk_live c 0))).
      { rewrite (last_indep _ _ (mk_live c 0) (B (sfx_of (ots s)) (mk_live c 0))) by (apply dq1_nonempty; auto).
        apply last_map; auto. }
      rewrite LM. unfold fs_content at 1. rewrite R1 by (rewrite SPd at 2; apply in_or_app; right; left; auto).
      fold (fs_content (fname (last (dq s) (mk_live c 0))) (fs s)).
      rewrite SPd at 3. rewrite rev_app_distr. cbn [rev app]. 
      change (last (dq s) (mk_live c 0) :: rev (removelast (dq s))) with ([last (dq s) (mk_live c 0)] ++ rev (removelast (dq s))).
      rewrite contents_app. unfold contents at 2. cbn [flat_map]. rewrite app_nil_r, <- app_assoc. reflexivity.
    + rewrite app_nil_r. unfold dq1_of. rewrite <- map_rev, C1; auto.
      intros x Hx. apply in_rev in Hx; auto.
Qed.

Lemma rotated_tail : forall ts s f, Inv s -> In f (tl (dq (rotated ts s))) ->
  exists f0, In f0 (dq s) /\ f = B (sfx_of (ots s)) f0 /\
             fs_content (fname f) (fs (rotated ts s)) = fs_content (fname f0) (fs s).
Proof.
  intros ts s f H Hf. cbn [rotated dq tl] in Hf.
  destruct (chain_facts s H) as [R1 _].
  pose proof (dq1_rot_wf s H) as F1. pose proof (dq1_nodup s H) as ND1. pose proof (dq1_nonempty s H) as NE1.
  pose proof (app_removelast_last (mk_live c 0) NE1) as SPL. fold (lastf s) in SPL.
  assert (Hf1 : In f (dq1_of s)).
  { destruct (del_due s); auto. rewrite SPL. apply in_or_app; auto. }
  assert (Hf2 : del_due s = true -> fname f <> fname (lastf s)).
  { intros DD EN. rewrite DD in Hf. rewrite SPL in ND1. unfold names in ND1. rewrite map_app in ND1.
    apply NoDup_remove_2 in ND1. apply ND1. rewrite app_nil_r, <- EN. apply in_map; auto. }
  unfold dq1_of in Hf1. apply in_map_iff in Hf1 as [f0 [E0 H0]].
  exists f0. repeat split; auto. unfold fs_content. rewrite rotated_get by auto.
  assert (A : fname f <> lp) by (apply rot_wf_not_live; rewrite Forall_forall in F1; apply F1; unfold dq1_of; rewrite <- E0; apply in_map; auto).
  apply path_eqb_neq in A. rewrite A.
  destruct (del_due s) eqn:DD; cbn [andb].
  - specialize (Hf2 eq_refl). apply path_eqb_neq in Hf2. rewrite Hf2. rewrite <- E0, R1; auto.
  - rewrite <- E0, R1; auto.
Qed.

Lemma related_dec_stem : forall p, ~ related p -> p <> lp.
Proof. intros p H E. apply H. subst. apply lp_related. Qed.

Lemma rotated_unrelated : forall ts s p, Inv s -> ~ related p ->
  fs_get p (fs (rotated ts s)) = fs_get p (fs s).
Proof.
  intros ts s p H NR. destruct (chain_facts s H) as [_ R2].
  pose proof (dq1_rot_wf s H) as F1. pose proof (inv_ent_ok s H) as EO.
  rewrite rotated_get by auto.
  assert (A : p <> lp) by (apply related_dec_stem; auto). apply path_eqb_neq in A. rewrite A.
  assert (N1 : ~ In p (names (dq1_of s))).
  { intro I. unfold names in I. apply in_map_iff in I as [x [Ex Hx]]. apply NR. rewrite <- Ex.
    apply fname_related. left. rewrite Forall_forall in F1; auto. }
  assert (N0 : ~ In p (names (dq s))).
  { intro I. unfold names in I. apply in_map_iff in I as [x [Ex Hx]]. apply NR. rewrite <- Ex.
    apply fname_related. rewrite Forall_forall in EO; auto. }
  assert (NLf : p <> fname (lastf s)).
  { intro E. apply N1. rewrite E. unfold names. apply in_map. unfold lastf.
    pose proof (app_removelast_last (mk_live c 0) (dq1_nonempty s H)) as SPL. rewrite SPL at 2.
    apply in_or_app; right; left; auto. }
  apply path_eqb_neq in NLf. rewrite NLf, andb_false_r. rewrite R2 by auto.
  destruct (in_dec path_eq_dec p (names (dq s))); tauto.
Qed.

Lemma rotated_live : forall ts s, Inv s -> fs_content lp (fs (rotated ts s)) = [].
Proof. intros ts s H. unfold fs_content. rewrite rotated_get by auto. rewrite path_eqb_refl; auto. Qed.

Lemma dq1_length : forall s, length (dq1_of s) = length (dq s).
Proof. intro s. unfold dq1_of. apply map_length. Qed.

Lemma removelast_length : forall A (l : list A), l <> [] -> S (length (removelast l)) = length l.
Proof.
  intros A l H. destruct l as [|a l]; [congruence|].
  rewrite (app_removelast_last a H) at 2.
  rewrite app_length. cbn [length]. lia.
Qed.

Lemma rotated_length : forall ts s, Inv s ->
  N.of_nat (length (dq (rotated ts s))) =
  if c_maxb c <? N.of_nat (length (dq s)) then N.of_nat (length (dq s)) else N.of_nat (length (dq s)) + 1.
Proof.
  intros ts s H. cbn [rotated dq length]. unfold del_due. rewrite dq1_length.
  destruct (c_maxb c <? N.of_nat (length (dq s))).
  - f_equal. rewrite removelast_length by (apply dq1_nonempty; auto). apply dq1_length.
  - rewrite dq1_length. lia.
Qed.

Lemma rotated_gdel_keep : forall ts s, rot_fires s = true -> c_over c = false -> g_del (rotated ts s) = g_del s.
Proof.
  intros ts s F O. cbn [rotated g_del]. unfold del_due. rewrite dq1_length.
  unfold rot_fires in F. rewrite O in F. cbn [negb] in F. rewrite andb_true_r in F.
  apply andb_true_iff in F as [F _]. apply negb_true_iff in F. rewrite F. apply app_nil_r.
Qed.

Lemma rotate_inv : forall ts s, Inv s -> Inv (rotate ts s).
Proof.
  intros ts s H. destruct (rot_fires s) eqn:F.
  - rewrite rotate_fires by auto. apply rotated_inv; auto.
  - rewrite rotate_noop by auto. auto.
Qed.

End Inv.
