(* C13 proofs: the cache invariant of StringFromTime and the sequence theorems. *)
From Coq Require Import List NArith ZArith Bool Arith Lia.
From Quill Require Import Time.TimeModel Time.TimeSpec Time.TimeStrings Time.TimeInit Time.TimeDigits.
Import ListNotations.

Ltac Zify.zify_post_hook ::= Z.to_euclidean_division_equations.

(* ---------------------------------------------------------------- small list facts *)
Lemma str_eqb_eq a : forall b, str_eqb a b = true -> a = b.
Proof.
  induction a as [|x a IH]; intros [|y b]; cbn; try discriminate; [reflexivity|].
  intros H. apply andb_true_iff in H. destruct H as [H1 H2]. apply N.eqb_eq in H1. subst. f_equal. auto.
Qed.

Lemma ftype_of_some p ty : ftype_of p = Some ty -> exists c, p = [37%N; c] /\ handled_ty c = Some ty.
Proof.
  unfold ftype_of.
  destruct (str_eqb p m_H) eqn:E1; [apply str_eqb_eq in E1; intros E; inversion E; subst; eexists; split; reflexivity|].
  destruct (str_eqb p m_M) eqn:E2; [apply str_eqb_eq in E2; intros E; inversion E; subst; eexists; split; reflexivity|].
  destruct (str_eqb p m_S) eqn:E3; [apply str_eqb_eq in E3; intros E; inversion E; subst; eexists; split; reflexivity|].
  destruct (str_eqb p m_I) eqn:E4; [apply str_eqb_eq in E4; intros E; inversion E; subst; eexists; split; reflexivity|].
  destruct (str_eqb p m_k) eqn:E5; [apply str_eqb_eq in E5; intros E; inversion E; subst; eexists; split; reflexivity|].
  destruct (str_eqb p m_l) eqn:E6; [apply str_eqb_eq in E6; intros E; inversion E; subst; eexists; split; reflexivity|].
  destruct (str_eqb p m_s) eqn:E7; [apply str_eqb_eq in E7; intros E; inversion E; subst; eexists; split; reflexivity|].
  discriminate.
Qed.

Lemma ftype_of_handled c ty : handled_ty c = Some ty -> ftype_of [37%N; c] = Some ty.
Proof.
  unfold handled_ty.
  destruct (N.eqb_spec c 72); [subst; now intros E|].
  destruct (N.eqb_spec c 77); [subst; now intros E|].
  destruct (N.eqb_spec c 83); [subst; now intros E|].
  destruct (N.eqb_spec c 73); [subst; now intros E|].
  destruct (N.eqb_spec c 107); [subst; now intros E|].
  destruct (N.eqb_spec c 108); [subst; now intros E|].
  destruct (N.eqb_spec c 115); [subst; now intros E|].
  discriminate.
Qed.

Lemma flat_eq2 g c : Forall shape g -> g <> [] -> flat g = [37%N; c] -> g = [Conv [c]].
Proof.
  intros Hs Hne E. destruct g as [|it r]; [congruence|]. inversion Hs; subst.
  rewrite flat_cons in E. destruct it as [l|b|k].
  - destruct H1 as [Hl Hf]. destruct l as [|y l]; [congruence|]. inversion Hf; subst.
    cbn in E. inversion E. congruence.
  - destruct H1 as [[x ->]|(m & x & -> & _)]; cbn in E; inversion E as [[Ex Er]].
    + apply flat_nil_inv in Er; auto. now subst.
  - destruct k; cbn in E; inversion E.
Qed.

Lemma nonhandled_ftype g : Forall shape g -> g <> [] -> Forall (fun it => is_handled it = false) g ->
  ftype_of (flat g) = None.
Proof.
  intros Hs Hne Hn. destruct (ftype_of (flat g)) as [ty|] eqn:E; [|reflexivity].
  apply ftype_of_some in E. destruct E as (c & E & Hc).
  apply flat_eq2 in E; auto. subst. inversion Hn; subst. cbn in H1. now rewrite Hc in H1.
Qed.

(* ---------------------------------------------------------------- build / patch, oracle-independent *)
Section Cache.
Variable strf : str -> Z -> str.

Definition render (ps : list str) (t : Z) : str := concat (map (fun p => safe_strf strf p t) ps).

Fixpoint idx_of (ps : list str) (n : nat) (t : Z) : list (nat * ftype) :=
  match ps with
  | [] => []
  | p :: r => let n' := n + length (safe_strf strf p t) in
              match ftype_of p with
              | Some ty => (n' - fwidth ty, ty) :: idx_of r n' t
              | None => idx_of r n' t
              end
  end.

Lemma build_spec ps t : forall p ix,
  build strf ps t p ix = (p ++ render ps t, ix ++ idx_of ps (length p) t).
Proof.
  induction ps as [|q ps IH]; intros p ix; cbn [build render idx_of map concat].
  - now rewrite !app_nil_r.
  - rewrite IH, app_length. fold (render ps t). rewrite <- app_assoc. f_equal.
    destruct (ftype_of q); [now rewrite <- app_assoc|reflexivity].
Qed.

Lemma patch_ok h m s t0 t1 ps :
  (forall p, In p ps ->
     match ftype_of p with
     | Some ty => length (safe_strf strf p t0) = fwidth ty /\ safe_strf strf p t1 = field ty h m s t1 /\
                  length (field ty h m s t1) = fwidth ty
     | None => safe_strf strf p t0 = safe_strf strf p t1
     end) ->
  forall pfx, fold_left (patch_step h m s t1) (idx_of ps (length pfx) t0) (pfx ++ render ps t0)
              = pfx ++ render ps t1.
Proof.
  induction ps as [|p r IH]; intros Hp pfx; [reflexivity|].
  cbn [idx_of render map concat]. fold (render r t0). fold (render r t1).
  pose proof (Hp p (or_introl eq_refl)) as H0.
  assert (Hr : forall q, In q r -> match ftype_of q with
     | Some ty => length (safe_strf strf q t0) = fwidth ty /\ safe_strf strf q t1 = field ty h m s t1 /\
                  length (field ty h m s t1) = fwidth ty
     | None => safe_strf strf q t0 = safe_strf strf q t1 end) by (intros q Hq; apply Hp; now right).
  destruct (ftype_of p) as [ty|].
  - destruct H0 as (L0 & E1 & L1). cbn [fold_left]. unfold patch_step at 2. cbn [fst snd].
    rewrite L0. replace (length pfx + fwidth ty - fwidth ty) with (length pfx) by lia.
    rewrite overwrite_mid by lia.
    replace (length pfx + fwidth ty) with (length (pfx ++ field ty h m s t1)) by (rewrite app_length; lia).
    rewrite (app_assoc pfx). rewrite IH by exact Hr. rewrite E1. now rewrite <- app_assoc.
  - rewrite H0. replace (length pfx + length (safe_strf strf p t1)) with (length (pfx ++ safe_strf strf p t1)) by (now rewrite app_length).
    rewrite (app_assoc pfx (safe_strf strf p t1)). rewrite <- H0 at 2. rewrite H0.
    rewrite IH by exact Hr. now rewrite <- app_assoc.
Qed.

Lemma idx_of_ext ps t0 t1 : (forall p, In p ps -> length (safe_strf strf p t0) = length (safe_strf strf p t1)) ->
  forall n, idx_of ps n t0 = idx_of ps n t1.
Proof.
  induction ps as [|p r IH]; intros H n; [reflexivity|]. cbn [idx_of].
  rewrite (H p (or_introl eq_refl)). rewrite (IH (fun q Hq => H q (or_intror Hq))). reflexivity.
Qed.
End Cache.

(* ---------------------------------------------------------------- under the libc hypotheses *)
Section Proofs.
Variable strf : str -> Z -> str.
Variable sodf : Z -> N.
Variable local : bool.
Variable off : Z -> Z.
Variable zid : Z -> Z.
Hypothesis h1 : H1 strf.
Hypothesis h2 : H2 strf sodf off.
Hypothesis h3 : H3 strf off zid.
(* between a rebuild instant and the next recalculation point nothing coarse changes *)
Hypothesis hstab : forall t0 t, (0 <= t0 <= t)%Z -> (t < next_recalc local t0)%Z -> same_state off zid t0 t.

Notation istr t := (fun it => strf (item_bytes it) t).

Lemma strf_flat items t : items <> [] -> Forall h1_item items ->
  strf (flat items) t = concat (map (istr t) items).
Proof.
  induction items as [|it r IH]; intros Hne Hh; [congruence|].
  destruct r as [|it2 r'].
  - cbn. now rewrite !app_nil_r.
  - destruct h1 as [Hc _]. change (it :: it2 :: r') with ([it] ++ it2 :: r').
    rewrite Hc; [|discriminate|discriminate|exact Hh].
    cbn [map concat]. inversion Hh; subst. rewrite IH; [|discriminate|auto].
    cbn [flat flat_map app]. now rewrite app_nil_r.
Qed.

Lemma wf_h1 it : wf_item it -> h1_item it.
Proof. destruct it; cbn; auto. intros (c & -> & _). discriminate. Qed.

Lemma handled_classify c ty : handled_ty c = Some ty -> classify [c] = Some (Handled ty).
Proof. intros H. cbn [classify]. now rewrite H. Qed.

Lemma done_h1 it : rw_done it -> h1_item it.
Proof.
  intros [H|H].
  - destruct it; cbn in *; auto. now rewrite H.
  - destruct (is_handled_conv _ H) as (c & ty & -> & Hc). cbn [h1_item]. rewrite (handled_classify _ _ Hc). discriminate.
Qed.

Lemma done_shape it : rw_done it -> shape it.
Proof.
  intros H. apply done_h1 in H. destruct it as [l|b|k]; cbn in *; auto.
  destruct (classify b) eqn:E; [|congruence]. eapply classify_okconv; eauto.
Qed.

Lemma safe_strf_ne f t : f <> [] -> safe_strf strf f t = strf f t.
Proof. destruct f; [congruence|reflexivity]. Qed.

Lemma flat_ne items : Forall shape items -> items <> [] -> flat items <> [].
Proof. intros Hs Hne E. apply flat_nil_inv in E; auto. Qed.

(* the rewritten format renders like the original one *)
Lemma h1_rI : Forall h1_item rI.
Proof. repeat (apply Forall_cons; [cbn; first [discriminate | split; [discriminate | repeat constructor; discriminate]]|]). constructor. Qed.
Lemma h1_rR : Forall h1_item rR.
Proof. repeat (apply Forall_cons; [cbn; first [discriminate | split; [discriminate | repeat constructor; discriminate]]|]). constructor. Qed.
Lemma h1_rT : Forall h1_item rT.
Proof. repeat (apply Forall_cons; [cbn; first [discriminate | split; [discriminate | repeat constructor; discriminate]]|]). constructor. Qed.

Lemma rw_item_istr it t : h1_item it -> strf (item_bytes it) t = concat (map (istr t) (rw_item it)).
Proof.
  intros Hh. destruct h1 as (_ & Hr & HR & HT). unfold rw_item.
  destruct (is_conv1 114 it) eqn:E1.
  { apply is_conv1_true in E1. subst. cbn [item_bytes]. rewrite Hr. change new_r with (flat rI).
    apply strf_flat; [discriminate|apply h1_rI]. }
  destruct (is_conv1 82 it) eqn:E2.
  { apply is_conv1_true in E2. subst. cbn [item_bytes]. rewrite HR. change new_R with (flat rR).
    apply strf_flat; [discriminate|apply h1_rR]. }
  destruct (is_conv1 84 it) eqn:E3.
  { apply is_conv1_true in E3. subst. cbn [item_bytes]. rewrite HT. change new_T with (flat rT).
    apply strf_flat; [discriminate|apply h1_rT]. }
  cbn. now rewrite app_nil_r.
Qed.

Lemma rw_h1 items : Forall h1_item items -> Forall h1_item (rw items).
Proof.
  intros H. unfold rw. apply Forall_flat_map. eapply Forall_impl; [|exact H].
  intros it Hit. unfold rw_item.
  destruct (is_conv1 114 it); [apply h1_rI|]. destruct (is_conv1 82 it); [apply h1_rR|].
  destruct (is_conv1 84 it); [apply h1_rT|]. now constructor.
Qed.

Lemma rw_nonempty items : items <> [] -> rw items <> [].
Proof.
  destruct items as [|it r]; [congruence|]. intros _. cbn [rw flat_map]. unfold rw_item.
  destruct (is_conv1 114 it); [discriminate|]. destruct (is_conv1 82 it); [discriminate|].
  destruct (is_conv1 84 it); discriminate.
Qed.

Lemma concat_map_rw items t : Forall h1_item items ->
  concat (map (istr t) (rw items)) = concat (map (istr t) items).
Proof.
  induction items as [|it r IH]; intros H; [reflexivity|]. inversion H; subst.
  cbn [rw flat_map]. fold (rw r). rewrite map_app, concat_app, IH by auto.
  cbn [map concat]. f_equal. symmetry. now apply rw_item_istr.
Qed.

Lemma rw_ref items t : Forall wf_item items ->
  safe_strf strf (flat (rw items)) t = safe_strf strf (flat items) t.
Proof.
  intros Hw. destruct items as [|it r] eqn:E; [reflexivity|]. rewrite <- E in *.
  assert (Hne : items <> []) by (subst; discriminate).
  assert (Hh : Forall h1_item items) by (eapply Forall_impl; [|exact Hw]; apply wf_h1).
  pose proof (rw_done_items _ Hw) as Hd.
  rewrite !safe_strf_ne.
  - rewrite !strf_flat; auto using rw_nonempty, rw_h1. now apply concat_map_rw.
  - apply flat_ne; auto. now apply wf_items_shape.
  - apply flat_ne; [|now apply rw_nonempty]. eapply Forall_impl; [|exact Hd]. apply done_shape.
Qed.

(* the parts, concatenated, render like the whole *)
Lemma render_groups gs t : Forall group_ok gs -> Forall rw_done (concat gs) ->
  render strf (map flat gs) t = safe_strf strf (flat (concat gs)) t.
Proof.
  intros Hg Hd.
  assert (E : render strf (map flat gs) t = concat (map (istr t) (concat gs))).
  { induction gs as [|g gs IH]; [reflexivity|]. inversion Hg; subst.
    cbn [concat] in Hd. apply Forall_app in Hd. destruct Hd as [Hd1 Hd2].
    unfold render in *. cbn [map concat]. rewrite IH by auto. rewrite map_app, concat_app. f_equal.
    destruct H1 as [Hne _]. rewrite safe_strf_ne.
    - apply strf_flat; auto. eapply Forall_impl; [|exact Hd1]. apply done_h1.
    - apply flat_ne; auto. eapply Forall_impl; [|exact Hd1]. apply done_shape. }
  rewrite E. destruct (concat gs) as [|it r] eqn:Ec; [reflexivity|]. rewrite <- Ec in *.
  assert (concat gs <> []) by (rewrite Ec; discriminate).
  rewrite safe_strf_ne.
  - symmetry. apply strf_flat; auto. eapply Forall_impl; [|exact Hd]. apply done_h1.
  - apply flat_ne; auto. eapply Forall_impl; [|exact Hd]. apply done_shape.
Qed.

(* ---------------------------------------------------------------- time arithmetic *)
Lemma sod_lt t : (sod off t < 86400)%N.
Proof. unfold sod. lia. Qed.

Lemma same_state_refl t : same_state off zid t t.
Proof. repeat split. Qed.
Lemma same_state_trans a b c : same_state off zid a b -> same_state off zid a c -> same_state off zid b c.
Proof. intros (A1 & A2 & A3) (B1 & B2 & B3). repeat split; congruence. Qed.

Lemma sod_advance t0 t : (t0 <= t)%Z -> same_state off zid t0 t ->
  sod off t = (sod off t0 + Z.to_N (t - t0))%N /\ (t - t0 < 43200)%Z.
Proof.
  intros Hle (E1 & _ & E3). unfold sod. rewrite <- E1 in *.
  set (o := off t0) in *. clearbody o.
  assert (Hd : (t - t0 < 43200)%Z) by lia.
  assert (E2 : ((t0 + o) / 86400 = (t + o) / 86400)%Z).
  { change 86400%Z with (43200 * 2)%Z. rewrite <- !Z.div_div by lia. now rewrite E3. }
  split; [|exact Hd].
  rewrite (Z.mod_eq (t + o) 86400), (Z.mod_eq (t0 + o) 86400), <- E2 by lia.
  assert (0 <= (t0 + o) - 86400 * ((t0 + o) / 86400))%Z by (rewrite <- Z.mod_eq by lia; apply Z.mod_pos_bound; lia).
  remember ((t0 + o) / 86400)%Z as q. clear Heqq E2 E3. lia.
Qed.

Lemma hour12_h12 h : (h < 24)%N -> hour12 h = h12 h.
Proof.
  intros Hh. unfold hour12, h12.
  destruct (N.eqb_spec h 0); [subst; reflexivity|].
  destruct (N.ltb_spec 12 h); destruct (N.eqb_spec (h mod 12) 0); lia.
Qed.

(* the value the code writes for a handled part = strftime of that part *)
Lemma field_strf c ty t : handled_ty c = Some ty ->
  (ty = fs -> H2s strf /\ (1000000000 <= t < 10000000000)%Z) ->
  let cs := sod off t in
  let h := (cs / 3600)%N in let r := (cs - h * 3600)%N in let m := (r / 60)%N in let s := (r - m * 60)%N in
  strf [37%N; c] t = field ty h m s t /\ length (field ty h m s t) = fwidth ty.
Proof.
  intros Hc Hs cs h r m s. pose proof (sod_lt t) as Hlt. fold cs in Hlt.
  destruct h2 as (_ & HH & HM & HS & HI & Hk & Hl).
  assert (Eh : h = hh off t) by reflexivity.
  assert (Em : m = mi off t) by (unfold m, r, h, mi; fold cs; lia).
  assert (Es : s = ss off t) by (unfold s, m, r, h, ss; fold cs; lia).
  assert (Bh : (h < 24)%N) by (unfold h; lia).
  assert (Bm : (m < 60)%N) by (rewrite Em; unfold mi; lia).
  assert (Bs : (s < 60)%N) by (rewrite Es; unfold ss; lia).
  assert (B12 : (hour12 h < 100)%N) by (unfold hour12; destruct (N.eqb h 0); [lia|]; destruct (N.ltb 12 h); lia).
  unfold handled_ty in Hc.
  destruct (N.eqb_spec c 72); [subst; inversion Hc; subst; cbn [field fwidth]; rewrite fmt_two by lia; split; [rewrite Eh; apply HH|apply two_length]|].
  destruct (N.eqb_spec c 77); [subst; inversion Hc; subst; cbn [field fwidth]; rewrite fmt_two by lia; split; [rewrite Em; apply HM|apply two_length]|].
  destruct (N.eqb_spec c 83); [subst; inversion Hc; subst; cbn [field fwidth]; rewrite fmt_two by lia; split; [rewrite Es; apply HS|apply two_length]|].
  destruct (N.eqb_spec c 73); [subst; inversion Hc; subst; cbn [field fwidth]; rewrite fmt_two by lia; split; [rewrite hour12_h12 by lia; rewrite Eh; apply HI|apply two_length]|].
  destruct (N.eqb_spec c 107); [subst; inversion Hc; subst; cbn [field fwidth]; rewrite fmt_two by lia; split; [rewrite Eh; apply Hk|apply two_length]|].
  destruct (N.eqb_spec c 108); [subst; inversion Hc; subst; cbn [field fwidth]; rewrite fmt_two by lia; split; [rewrite hour12_h12 by lia; rewrite Eh; apply Hl|apply two_length]|].
  destruct (N.eqb_spec c 115); [|discriminate].
  subst; inversion Hc; subst. destruct (Hs eq_refl) as [H2s' Ht]. cbn [field fwidth].
  rewrite fmt_ten by lia. split; [apply H2s'; lia|apply digitsW_length].
Qed.

(* a run of non-handled items renders the same at two instants in the same state *)
Lemma coarse_run_stable g t0 t1 : g <> [] -> Forall rw_done g -> Forall (fun it => is_handled it = false) g ->
  same_state off zid t0 t1 -> strf (flat g) t0 = strf (flat g) t1.
Proof.
  intros Hne Hd Hn Hss.
  rewrite !strf_flat; auto; try (eapply Forall_impl; [|exact Hd]; apply done_h1).
  f_equal. apply map_ext_in. intros it Hin. rewrite Forall_forall in *.
  destruct (Hd it Hin) as [Hc|Hh]; [now apply h3|]. rewrite (Hn it Hin) in Hh. discriminate.
Qed.

(* ---------------------------------------------------------------- the invariant *)
Section Inv.
Variable items : list item.       (* the pattern handed to init *)
Variable gs : list (list item).   (* the groups init splits the rewritten pattern into *)
Hypothesis Hw : wf_items items.
Hypothesis Hg : grouped (rw items) gs.
(* %s: only under H2s and for ten-digit epochs *)
Variable okt : Z -> Prop.
Hypothesis Hs : uses_s items -> H2s strf /\ forall t, okt t -> (1000000000 <= t < 10000000000)%Z.

Let ps := map flat gs.

Record inv (st : sft) : Prop := {
  i_parts : parts st = ps;
  i_tfmt : tfmt st = flat (rw items);
  i_cts : (0 <= cts st)%Z;
  i_stab : forall t, (cts st <= t < next st)%Z -> same_state off zid (cts st) t;
  i_pre : (cts st < next st)%Z -> pre st = render strf ps (cts st);
  i_idx : (cts st < next st)%Z -> idxs st = idx_of strf ps 0 (cts st);
  i_sec : (cts st < next st)%Z -> csec st = sod off (cts st)
}.

Lemma gs_ok : Forall group_ok gs.
Proof. eapply grouped_ok; eauto. Qed.
Lemma gs_done : Forall rw_done (concat gs).
Proof. rewrite (grouped_concat _ _ Hg). apply rw_done_items. apply Hw. Qed.

Lemma render_ref t : render strf ps t = safe_strf strf (flat items) t.
Proof.
  unfold ps. rewrite render_groups; auto using gs_ok, gs_done.
  rewrite (grouped_concat _ _ Hg). apply rw_ref. apply Hw.
Qed.

Lemma uses_s_rw : In (Conv [115%N]) (rw items) -> uses_s items.
Proof.
  unfold rw, uses_s. rewrite in_flat_map. intros (it & Hin & Hr). unfold rw_item in Hr.
  destruct (is_conv1 114 it); [cbn in Hr; repeat (destruct Hr as [Hr|Hr]; [discriminate|]); destruct Hr|].
  destruct (is_conv1 82 it); [cbn in Hr; repeat (destruct Hr as [Hr|Hr]; [discriminate|]); destruct Hr|].
  destruct (is_conv1 84 it); [cbn in Hr; repeat (destruct Hr as [Hr|Hr]; [discriminate|]); destruct Hr|].
  destruct Hr as [<-|[]]. exact Hin.
Qed.

(* per part: what the patch needs *)
Lemma part_facts t0 t1 p : In p ps -> same_state off zid t0 t1 -> okt t0 -> okt t1 ->
  let cs := sod off t1 in
  let h := (cs / 3600)%N in let r := (cs - h * 3600)%N in let m := (r / 60)%N in let s := (r - m * 60)%N in
  match ftype_of p with
  | Some ty => length (safe_strf strf p t0) = fwidth ty /\ safe_strf strf p t1 = field ty h m s t1 /\
               length (field ty h m s t1) = fwidth ty
  | None => safe_strf strf p t0 = safe_strf strf p t1
  end.
Proof.
  intros Hin Hss Hok0 Hok cs h r m s. unfold ps in Hin. apply in_map_iff in Hin. destruct Hin as (g & <- & Hing).
  pose proof gs_ok as Gok. pose proof gs_done as Gd. rewrite Forall_forall in Gok.
  destruct (Gok g Hing) as [Hne Hkind].
  assert (Hdg : Forall rw_done g).
  { rewrite Forall_forall in *. intros it Hit. apply Gd. apply in_concat. eauto. }
  assert (Hsg : Forall shape g) by (eapply Forall_impl; [|exact Hdg]; apply done_shape).
  destruct Hkind as [Hn|(hd & -> & Hh)].
  - rewrite nonhandled_ftype; auto. rewrite !safe_strf_ne by (apply flat_ne; auto).
    now apply coarse_run_stable.
  - destruct (is_handled_conv _ Hh) as (c & ty & -> & Hc).
    cbn [flat flat_map item_bytes app]. rewrite (ftype_of_handled _ _ Hc).
    cbn [safe_strf].
    assert (Hsty : forall t, okt t -> ty = fs -> H2s strf /\ (1000000000 <= t < 10000000000)%Z).
    { intros t Ht ->. assert (c = 115%N).
      { unfold handled_ty in Hc.
        destruct (N.eqb c 72); [discriminate|]. destruct (N.eqb c 77); [discriminate|].
        destruct (N.eqb c 83); [discriminate|]. destruct (N.eqb c 73); [discriminate|].
        destruct (N.eqb c 107); [discriminate|]. destruct (N.eqb c 108); [discriminate|].
        destruct (N.eqb_spec c 115); [auto|discriminate]. }
      subst. destruct Hs as [A B].
      - apply uses_s_rw. rewrite <- (grouped_concat _ _ Hg). apply in_concat. eexists; split; [exact Hing|now left].
      - split; auto. }
    destruct (field_strf c ty t1 Hc (Hsty t1 Hok)) as [E L]. fold cs h r m s in E, L.
    destruct (field_strf c ty t0 Hc (Hsty t0 Hok0)) as [E0 L0].
    split; [|split; auto]. cbv zeta in E0, L0. now rewrite E0.
Qed.

Lemma inv_init : inv {| parts := ps; tfmt := flat (rw items); pre := []; idxs := []; next := 0; cts := 0; csec := 0 |}.
Proof.
  constructor; cbn [parts tfmt pre idxs next cts csec]; try reflexivity.
  - intros t Ht. exfalso. clear - Ht. lia.
  - intros H. exfalso. clear - H. lia.
  - intros H. exfalso. clear - H. lia.
  - intros H. exfalso. clear - H. lia.
Qed.

(* one call of format_timestamp *)
Lemma step_ok st t : inv st -> okt t ->
  (cts st < next st -> okt (cts st))%Z ->
  let '(st', out) := sft_format strf sodf local st t in
  inv st' /\ out = safe_strf strf (flat items) t /\ ((cts st' < next st')%Z -> okt (cts st')).
Proof.
  intros I Hok Hokc. unfold sft_format.
  destruct (Z.ltb_spec t (cts st)) as [Hlt|Hge].
  { (* earlier than the cached instant: plain strftime, nothing cached changes *)
    split; [exact I|]. split; [|exact Hokc]. rewrite (i_tfmt _ I). apply rw_ref. apply Hw. }
  destruct (Z.leb_spec (next st) t) as [Hre|Hin].
  - (* rebuild *)
    rewrite (i_parts _ I), build_spec. cbn [app length].
    set (st1 := {| parts := ps; tfmt := tfmt st; pre := render strf ps t; idxs := idx_of strf ps 0 t;
                   next := next_recalc local t; cts := t; csec := (sodf t mod two32)%N |}).
    assert (Hnx : (t < next_recalc local t)%Z).
    { unfold next_recalc. destruct local; [|lia]. pose proof (i_cts _ I).
      rewrite Z.quot_div_nonneg by lia. lia. }
    assert (I1 : inv st1).
    { constructor; cbn [parts tfmt pre idxs next cts csec st1]; auto.
      - apply I.
      - pose proof (i_cts _ I). lia.
      - intros u Hu. apply hstab; [pose proof (i_cts _ I); lia|lia].
      - intros _. destruct h2 as [Hsod _]. rewrite Hsod. pose proof (sod_lt t). unfold two32.
        rewrite N.mod_small; [reflexivity|lia]. }
    assert (Hout : pre st1 = safe_strf strf (flat items) t) by (cbn [pre st1]; apply render_ref).
    destruct (idxs st1) eqn:Ei; [now split; [|split]|].
    cbn [cts st1]. rewrite Z.eqb_refl. now split; [|split].
  - (* inside the window of the cached string *)
    assert (Hw1 : (cts st < next st)%Z) by lia.
    pose proof (i_stab _ I t (conj Hge Hin)) as Hss.
    destruct (idxs st) as [|ix0 ixr] eqn:Ei.
    { (* nothing to patch: every part is coarse *)
      split; [exact I|]. split; [|exact Hokc]. rewrite (i_pre _ I Hw1), <- render_ref.
      unfold render. f_equal. apply map_ext_in. intros p Hp.
      pose proof (part_facts (cts st) t p Hp Hss (Hokc Hw1) Hok) as F. cbv zeta in F.
      destruct (ftype_of p) as [ty|] eqn:Ef; [|exact F].
      exfalso. (* a handled part would have produced an index *)
      rewrite (i_idx _ I Hw1) in Ei. clear - Hp Ef Ei. revert Ei. generalize 0.
      induction ps as [|q r IH]; intros n; [destruct Hp|]. cbn [idx_of].
      destruct Hp as [->|Hp]; [rewrite Ef; discriminate|].
      destruct (ftype_of q); [discriminate|]. now apply IH. }
    rewrite <- Ei.
    destruct (Z.eqb_spec (cts st) t) as [Heq|Hne].
    { split; [exact I|]. split; [|exact Hokc]. rewrite (i_pre _ I Hw1), Heq. apply render_ref. }
    destruct (sod_advance (cts st) t Hge Hss) as [Esod Hd].
    assert (Ediff : Z.to_N ((t - cts st) mod 4294967296) = Z.to_N (t - cts st)).
    { rewrite Z.mod_small by lia. reflexivity. }
    assert (Ecs : ((csec st + Z.to_N ((t - cts st) mod 4294967296)) mod two32)%N = sod off t).
    { rewrite Ediff, (i_sec _ I Hw1), <- Esod. pose proof (sod_lt t). unfold two32. apply N.mod_small. lia. }
    rewrite Ecs.
    assert (Epatch : fold_left
        (patch_step (sod off t / 3600) ((sod off t - sod off t / 3600 * 3600) / 60)
           (sod off t - sod off t / 3600 * 3600 - (sod off t - sod off t / 3600 * 3600) / 60 * 60) t)
        (idxs st) (pre st) = render strf ps t).
    { rewrite (i_idx _ I Hw1), (i_pre _ I Hw1).
      apply (patch_ok strf _ _ _ (cts st) t ps) with (pfx := []).
      intros p Hp. exact (part_facts (cts st) t p Hp Hss (Hokc Hw1) Hok). }
    rewrite Epatch. split; [|split; [apply render_ref|intros _; exact Hok]].
    constructor; cbn [parts tfmt pre idxs next cts csec]; try apply I.
    + pose proof (i_cts _ I). lia.
    + intros u Hu. eapply same_state_trans; [exact Hss|]. apply (i_stab _ I). lia.
    + reflexivity.
    + intros _. rewrite (i_idx _ I Hw1). apply idx_of_ext. intros p Hp.
      pose proof (part_facts (cts st) t p Hp Hss (Hokc Hw1) Hok) as F. cbv zeta in F.
      destruct (ftype_of p); [destruct F as (A & B & C); rewrite A, B; now rewrite C|now rewrite F].
    + reflexivity.
Qed.

(* every sequence of instants *)
Lemma run_ok ts : forall st, inv st -> Forall okt ts -> ((cts st < next st)%Z -> okt (cts st)) ->
  sft_run strf sodf local st ts = map (fun t => safe_strf strf (flat items) t) ts.
Proof.
  induction ts as [|t r IH]; intros st I Hts Hc; [reflexivity|]. inversion Hts; subst.
  cbn [sft_run map]. pose proof (step_ok st t I H1 Hc) as S.
  destruct (sft_format strf sodf local st t) as [st' out]. destruct S as (I' & -> & Hc').
  f_equal. now apply IH.
Qed.
End Inv.
End Proofs.
