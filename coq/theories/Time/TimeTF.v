(* C13 at the level of TimestampFormatter: the %Qms/%Qus/%Qns search, the split into two cached
   strftime parts, the fraction, the rejections; and the main theorems for GMT and local time. *)
From Coq Require Import List NArith ZArith Bool Arith Lia.
From Quill Require Import Time.TimeModel Time.TimeSpec Time.TimeStrings Time.TimeStrict Time.TimeInit Time.TimeDigits Time.TimeProofs.
Import ListNotations.

Ltac Zify.zify_post_hook ::= Z.to_euclidean_division_equations.

(* ---------------------------------------------------------------- searching for a specifier *)
Definition missQ (k0 : fkind) (it : item) : Prop :=
  forall s', prefixb (spec_name k0) (item_bytes it ++ s') = false.
Definition tf_item (it : item) : Prop := shape it /\ forall k0, missQ k0 it.

Lemma not81 b c : classify b = Some c -> hd_error b <> Some 81%N.
Proof.
  destruct b as [|x [|y [|]]]; cbn [classify hd_error]; try discriminate.
  - intros H E. inversion E; subst. vm_compute in H. discriminate.
  - intros H E. inversion E; subst. vm_compute in H. discriminate.
Qed.

Lemma conv_tf_item b c : classify b = Some c -> tf_item (Conv b).
Proof.
  intros H. pose proof (classify_okconv _ _ H) as Hs. split; [exact Hs|].
  pose proof (not81 _ _ H) as H81. intros k0 s'.
  destruct Hs as [[x ->]|(m & x & -> & Hm & Hx)]; cbn [hd_error] in H81.
  - destruct k0; cbn [spec_name item_bytes app prefixb]; rewrite N.eqb_refl;
      (destruct (N.eqb_spec 81 x); [congruence|reflexivity]).
  - destruct k0; cbn [spec_name item_bytes app prefixb]; rewrite N.eqb_refl;
      (destruct (N.eqb_spec 81 m); [destruct Hm; congruence|reflexivity]).
Qed.

Lemma wf_tf_item it : wf_item it -> tf_item it.
Proof.
  destruct it as [l|b|k]; cbn [wf_item]; [|intros (c & H & _); eapply conv_tf_item; eauto|tauto].
  intros [Hne Hl]. split; [split; auto|]. intros k0 s'. destruct l as [|y l]; [congruence|].
  inversion Hl; subst. destruct k0; cbn [spec_name item_bytes app prefixb];
    (destruct (N.eqb_spec 37 y); [congruence|reflexivity]).
Qed.

Lemma frac_missQ k0 k : k <> k0 -> missQ k0 (Frac k).
Proof. intros H s'. destruct k0, k; try congruence; reflexivity. Qed.

Lemma spec_name_form k0 : exists tl, spec_name k0 = 37%N :: 81%N :: tl.
Proof. destruct k0; eexists; reflexivity. Qed.

Lemma findQ_split k0 pre h rest :
  Forall shape (pre ++ h :: rest) -> adj_ok sp_special (pre ++ h :: rest) = true ->
  Forall (missQ k0) pre ->
  find_sub (spec_name k0) (flat (pre ++ h :: rest)) =
  option_map (plus (length (flat pre))) (find_sub (spec_name k0) (item_bytes h ++ flat rest)).
Proof.
  intros Hs Ha Hp. destruct (spec_name_form k0) as [tl E].
  rewrite flat_app, flat_cons. apply (find_allmiss _ pre (item_bytes h ++ flat rest)).
  rewrite <- flat_cons, E. eapply (allmiss_intro sp_special); eauto; [discriminate|].
  intros it s' Hin. rewrite <- E. rewrite Forall_forall in Hp. now apply Hp.
Qed.

Lemma findQ_none k0 items :
  Forall shape items -> adj_ok sp_special items = true -> Forall (missQ k0) items ->
  find_sub (spec_name k0) (flat items) = None.
Proof.
  intros Hs Ha Hp. destruct (spec_name_form k0) as [tl E].
  rewrite <- (app_nil_r (flat items)). rewrite find_allmiss; [rewrite E; reflexivity|].
  change (@nil N) with (flat []). rewrite E.
  eapply (allmiss_intro sp_special); eauto; rewrite ?app_nil_r; auto; [discriminate|].
  intros it s' Hin. rewrite <- E. rewrite Forall_forall in Hp. now apply Hp.
Qed.

Lemma adj_ok_join sp a nl b : adj_ok sp a = true -> adj_ok sp (nl :: b) = true -> lit_starts sp nl = false ->
  adj_ok sp (a ++ nl :: b) = true.
Proof.
  intros Ha Hb Hn. induction a as [|x a IH]; [exact Hb|].
  change ((x :: a) ++ nl :: b) with (x :: (a ++ nl :: b)). rewrite adj_ok_cons in *.
  apply andb_true_iff in Ha. destruct Ha as [A1 A2]. rewrite (IH A2), andb_true_r.
  destruct a as [|y a']; [cbn [app hd_lit_starts]; rewrite Hn; apply orb_true_r|exact A1].
Qed.

Lemma adj_ok_frac sp k b : adj_ok sp (Frac k :: b) = adj_ok sp b.
Proof. rewrite adj_ok_cons. reflexivity. Qed.

Section Located.
Variables (items1 items2 : list item) (k : fkind).
Hypothesis T1 : Forall tf_item items1.
Hypothesis T2 : Forall tf_item items2.
Hypothesis A1 : adj_ok sp_special items1 = true.
Hypothesis A2 : adj_ok sp_special items2 = true.

Notation whole := (items1 ++ Frac k :: items2).

Lemma whole_shape : Forall shape whole.
Proof.
  apply Forall_app. split; [eapply Forall_impl; [|exact T1]; now intros it [? _]|].
  constructor; [exact I|]. eapply Forall_impl; [|exact T2]. now intros it [? _].
Qed.
Lemma whole_adj : adj_ok sp_special whole = true.
Proof. apply adj_ok_join; [exact A1|now rewrite adj_ok_frac|reflexivity]. Qed.

Lemma find_own : find_sub (spec_name k) (flat whole) = Some (length (flat items1)).
Proof.
  rewrite findQ_split; auto using whole_shape, whole_adj.
  - rewrite find_hit; [cbn; f_equal; lia|]. destruct k; cbn; reflexivity.
  - eapply Forall_impl; [|exact T1]. intros it [_ H]. apply H.
Qed.

Lemma find_other k0 : k0 <> k -> find_sub (spec_name k0) (flat whole) = None.
Proof.
  intros Hk. apply findQ_none; auto using whole_shape, whole_adj.
  apply Forall_app. split; [eapply Forall_impl; [|exact T1]; intros it [_ H]; apply H|].
  constructor; [apply frac_missQ; congruence|]. eapply Forall_impl; [|exact T2]. intros it [_ H]. apply H.
Qed.

Lemma tf_search_located : tf_search (flat whole) = Some (Some (k, length (flat items1))).
Proof.
  unfold tf_search. pose proof find_own as F. pose proof find_other as G. revert F G.
  generalize (flat whole). generalize (length (flat items1)). clear. intros n f F G. destruct k.
  - rewrite F, (G Qus), (G Qns) by discriminate. reflexivity.
  - rewrite F, (G Qms), (G Qns) by discriminate. reflexivity.
  - rewrite F, (G Qms), (G Qus) by discriminate. reflexivity.
Qed.

Lemma split_first : firstn (length (flat items1)) (flat whole) = flat items1.
Proof. rewrite flat_app, firstn_app, Nat.sub_diag, firstn_all. cbn [firstn]. apply app_nil_r. Qed.
Lemma split_second : skipn (length (flat items1) + 4) (flat whole) = flat items2.
Proof.
  rewrite flat_app, flat_cons.
  replace (length (flat items1) + 4) with (length (flat items1 ++ item_bytes (Frac k))) by (rewrite app_length; destruct k; reflexivity).
  rewrite app_assoc, skipn_app, skipn_all, Nat.sub_diag. reflexivity.
Qed.

(* the specifier does not occur again behind its first occurrence *)
Lemma dup_located : dup_spec (flat whole) k (length (flat items1)) = false.
Proof.
  unfold dup_spec. rewrite split_second, findQ_none; auto.
  - eapply Forall_impl; [|exact T2]. now intros it [? _].
  - eapply Forall_impl; [|exact T2]. intros it [_ H]. apply H.
Qed.
End Located.

Lemma tf_search_nofrac items : Forall tf_item items -> adj_ok sp_special items = true ->
  tf_search (flat items) = Some None.
Proof.
  intros T A. unfold tf_search.
  assert (H : forall k0, find_sub (spec_name k0) (flat items) = None).
  { intros k0. apply findQ_none; auto; eapply Forall_impl; try exact T; intros it [Hs H]; auto. }
  now rewrite !H.
Qed.

(* ---------------------------------------------------------------- the fraction *)
Definition digits_value (s : str) : N := fold_left (fun acc d => (acc * 10 + (d - 48))%N) s 0%N.

Lemma digitsW_value w : forall v, (v < pow10 w)%N -> digits_value (digitsW w v) = v.
Proof.
  unfold digits_value. induction w as [|w IH]; intros v Hv; cbn [pow10 digitsW] in *; [cbn; lia|].
  rewrite fold_left_app. cbn [fold_left]. rewrite IH by lia. lia.
Qed.

Lemma frac_value_lt k ns : (Z.to_N (ns mod 1000000000) / frac_unit k < pow10 (frac_width k))%N.
Proof. destruct k; cbn [frac_unit frac_width pow10]; lia. Qed.

Lemma frac_written buf k ns : (0 <= ns)%Z ->
  write_frac buf (frac_width k)
    (Z.to_N ((ns - ns / 1000000000 * 1000000000) mod 4294967296) / frac_unit k) = buf ++ frac_digits k ns.
Proof.
  intros Hns.
  replace ((ns - ns / 1000000000 * 1000000000) mod 4294967296)%Z with (ns mod 1000000000)%Z by lia.
  unfold frac_digits. apply write_frac_spec; [destruct k; cbn; lia|apply frac_value_lt].
Qed.

Lemma frac_spec k ns : (0 <= ns)%Z ->
  length (frac_digits k ns) = frac_width k /\
  digits_value (frac_digits k ns) = (Z.to_N (ns mod 1000000000) / frac_unit k)%N /\
  Forall (fun d => 48 <= d <= 57)%N (frac_digits k ns).
Proof.
  intros _. unfold frac_digits. split; [apply digitsW_length|]. split; [apply digitsW_value, frac_value_lt|].
  generalize (Z.to_N (ns mod 1000000000) / frac_unit k)%N. generalize (frac_width k).
  induction n as [|w IH]; intros v; cbn [digitsW]; [constructor|].
  apply Forall_app. split; [apply IH|]. constructor; [lia|constructor].
Qed.

(* ---------------------------------------------------------------- stability of the cached window *)
Lemma hstab_gmt off zid : zone_gmt off zid ->
  forall t0 t, (0 <= t0 <= t)%Z -> (t < next_recalc false t0)%Z -> same_state off zid t0 t.
Proof.
  intros Hz t0 t Ht Hn. unfold next_recalc in Hn.
  destruct (Hz t0) as [O0 Z0]. destruct (Hz t) as [O1 Z1].
  repeat split; try congruence. rewrite O0, O1, !Z.add_0_r. lia.
Qed.

Lemma hstab_local off zid : zone_ok off zid ->
  forall t0 t, (0 <= t0 <= t)%Z -> (t < next_recalc true t0)%Z -> same_state off zid t0 t.
Proof.
  intros Hz t0 t Ht Hn. unfold next_recalc in Hn. rewrite Z.quot_div_nonneg in Hn by lia.
  assert (Hb : (t0 / 900 = t / 900)%Z) by lia.
  destruct (Hz t0 t) as (E1 & E2 & E3); [lia|lia|exact Hb|].
  repeat split; auto. rewrite <- E1. set (o := off t0) in *. clearbody o.
  assert (Hq : ((t0 + o) / 900 = (t + o) / 900)%Z) by lia.
  change 43200%Z with (900 * 48)%Z. rewrite <- !Z.div_div by lia. now rewrite Hq.
Qed.

(* ---------------------------------------------------------------- the formatter on a located pattern *)
Section Main.
Variable strf : str -> Z -> str.
Variable sodf : Z -> N.
Variable local : bool.
Variable off : Z -> Z.
Variable zid : Z -> Z.
Hypothesis h1 : H1 strf.
Hypothesis h2 : H2 strf sodf off.
Hypothesis h3 : H3 strf off zid.
Hypothesis hstab : forall t0 t, (0 <= t0 <= t)%Z -> (t < next_recalc local t0)%Z -> same_state off zid t0 t.

Variables (items1 items2 : list item).
Hypothesis W1 : wf_items items1.
Hypothesis W2 : wf_items items2.

Definition ten_digit (t : Z) : Prop := (1000000000 <= t < 10000000000)%Z.

Lemma T_of_W items : wf_items items -> Forall tf_item items.
Proof. intros [H _]. eapply Forall_impl; [|exact H]. apply wf_tf_item. Qed.

Lemma uses_s_l : uses_s items1 -> uses_s (items1 ++ items2).
Proof. unfold uses_s. intros H. apply in_or_app. now left. Qed.
Lemma uses_s_r : uses_s items2 -> uses_s (items1 ++ items2).
Proof. unfold uses_s. intros H. apply in_or_app. now right. Qed.

Section Run.
Hypothesis Hs : uses_s (items1 ++ items2) -> H2s strf.
Let okt (t : Z) : Prop := uses_s (items1 ++ items2) -> ten_digit t.

Variables (gs1 gs2 : list (list item)).
Hypothesis G1 : grouped (rw items1) gs1.
Hypothesis G2 : grouped (rw items2) gs2.

Notation inv1 := (inv strf off zid items1 gs1).
Notation inv2 := (inv strf off zid items2 gs2).

Lemma Hs1 : uses_s items1 -> H2s strf /\ forall t, okt t -> (1000000000 <= t < 10000000000)%Z.
Proof. intros U. split; [apply Hs, uses_s_l, U|]. intros t Ht. apply Ht, uses_s_l, U. Qed.
Lemma Hs2 : uses_s items2 -> H2s strf /\ forall t, okt t -> (1000000000 <= t < 10000000000)%Z.
Proof. intros U. split; [apply Hs, uses_s_r, U|]. intros t Ht. apply Ht, uses_s_r, U. Qed.

Lemma tf_run_none nss : forall a, inv1 a -> ((cts a < next a)%Z -> okt (cts a)) ->
  Forall (fun ns => (0 <= ns)%Z /\ okt (ns / 1000000000)) nss ->
  tf_run strf sodf local {| tspec := None; tp1 := a; tp2 := None |} nss
  = map (ref_render strf items1 None items2) nss.
Proof.
  induction nss as [|ns r IH]; intros a I Hc Hn; [reflexivity|]. inversion Hn as [|? ? [Hns Hok] Hr]; subst.
  cbn [tf_run map]. unfold tf_format. cbn [tp1 tp2 tspec].
  rewrite Z.quot_div_nonneg by lia.
  pose proof (step_ok strf sodf local off zid h1 h2 h3 hstab items1 gs1 W1 G1 okt Hs1 a _ I Hok Hc) as S.
  destruct (sft_format strf sodf local a (ns / 1000000000)) as [a' s1]. destruct S as (I' & -> & Hc').
  f_equal. now apply IH.
Qed.

Lemma tf_run_some k nss : forall a b, inv1 a -> ((cts a < next a)%Z -> okt (cts a)) ->
  match b with Some b' => inv2 b' /\ ((cts b' < next b')%Z -> okt (cts b')) | None => items2 = [] end ->
  Forall (fun ns => (0 <= ns)%Z /\ okt (ns / 1000000000)) nss ->
  tf_run strf sodf local {| tspec := Some k; tp1 := a; tp2 := b |} nss
  = map (ref_render strf items1 (Some k) items2) nss.
Proof.
  induction nss as [|ns r IH]; intros a b I Hc Hb Hn; [reflexivity|]. inversion Hn as [|? ? [Hns Hok] Hr]; subst.
  cbn [tf_run map]. unfold tf_format. cbn [tp1 tp2 tspec].
  pose proof (step_ok strf sodf local off zid h1 h2 h3 hstab items1 gs1 W1 G1 okt Hs1 a (ns / 1000000000) I Hok Hc) as S.
  rewrite Z.quot_div_nonneg by lia. cbv zeta.
  destruct (sft_format strf sodf local a (ns / 1000000000)) as [a' s1]. destruct S as (I' & -> & Hc').
  rewrite frac_written by lia.
  destruct b as [b'|].
  - destruct Hb as [Ib Hcb].
    pose proof (step_ok strf sodf local off zid h1 h2 h3 hstab items2 gs2 W2 G2 okt Hs2 b' (ns / 1000000000) Ib Hok Hcb) as S2.
    destruct (sft_format strf sodf local b' (ns / 1000000000)) as [b'' s2]. destruct S2 as (Ib' & -> & Hcb').
    f_equal; [unfold ref_render; now rewrite <- app_assoc|]. apply IH; auto.
  - f_equal; [subst items2; unfold ref_render; cbn [flat flat_map safe_strf]; now rewrite app_nil_r|].
    apply IH; auto.
Qed.
End Run.

(* the constructor accepts the pattern and every sequence of instants renders like the reference *)
Theorem tf_main strict k nss :
  (uses_s (items1 ++ items2) -> H2s strf /\ Forall (fun ns => ten_digit (ns / 1000000000)) nss) ->
  Forall (fun ns => (0 <= ns)%Z) nss ->
  exists x, tf_init strict (pattern_of items1 k items2) = inl x /\
            tf_run strf sodf local x nss = map (ref_render strf items1 k items2) nss.
Proof.
  intros Hs Hn.
  assert (Hs' : uses_s (items1 ++ items2) -> H2s strf) by (intros U; apply Hs, U).
  assert (Hn' : Forall (fun ns => (0 <= ns)%Z /\ (uses_s (items1 ++ items2) -> ten_digit (ns / 1000000000))) nss).
  { rewrite Forall_forall in Hn. rewrite Forall_forall. intros ns Hin. split; [auto|]. intros U. destruct (Hs U) as [_ F].
    rewrite Forall_forall in F. auto. }
  destruct (sft_init_ok strict items1 W1) as (gs1 & G1 & E1).
  pose proof (T_of_W _ W1) as T1. pose proof (T_of_W _ W2) as T2.
  destruct W1 as [_ A1]. destruct W2 as [_ A2].
  destruct k as [k|]; cbn [pattern_of].
  - destruct (sft_init_ok strict items2 W2) as (gs2 & G2 & E2).
    unfold tf_init. rewrite (tf_search_located items1 items2 k T1 T2 A1 A2).
    rewrite (dup_located items1 items2 k T2 A2), andb_false_r.
    rewrite split_first, split_second, E1.
    destruct (flat items2) as [|y f2] eqn:Ef.
    + eexists. split; [reflexivity|]. eapply (tf_run_some Hs' gs1 gs2); eauto.
      * apply inv_init.
      * cbn. lia.
      * apply flat_nil_inv in Ef; auto. apply wf_items_shape. apply W2.
    + rewrite E2. eexists. split; [reflexivity|]. eapply (tf_run_some Hs' gs1 gs2); eauto.
      * apply inv_init.
      * cbn. lia.
      * split; [apply inv_init|cbn; lia].
  - unfold tf_init. rewrite (tf_search_nofrac items1 T1 A1), E1.
    eexists. split; [reflexivity|]. eapply (tf_run_none Hs' gs1); eauto.
    + apply inv_init.
    + cbn. lia.
Qed.
End Main.

(* ---------------------------------------------------------------- rejections *)
Lemma prefixb_app p s : prefixb p (p ++ s) = true.
Proof. induction p as [|x p IH]; cbn; [reflexivity|]. now rewrite N.eqb_refl, IH. Qed.

Lemma find_sub_occurs p a b : find_sub p (a ++ p ++ b) <> None.
Proof.
  induction a as [|x a IH].
  - cbn [app]. rewrite find_hit; [discriminate|apply prefixb_app].
  - change ((x :: a) ++ p ++ b) with (x :: (a ++ p ++ b)). cbn [find_sub].
    destruct (prefixb p (x :: a ++ p ++ b)); [discriminate|].
    destruct (find_sub p (a ++ p ++ b)); [discriminate|congruence].
Qed.

Lemma find_sub_in it items : In it items -> find_sub (item_bytes it) (flat items) <> None.
Proof.
  intros H. destruct (in_split _ _ H) as (a & b & ->). rewrite flat_app, flat_cons. apply find_sub_occurs.
Qed.

Lemma rejects_two_kinds strict items k1 k2 : k1 <> k2 -> In (Frac k1) items -> In (Frac k2) items ->
  tf_init strict (flat items) = inr ErrExclusive.
Proof.
  intros Hk H1 H2. apply find_sub_in in H1. apply find_sub_in in H2. cbn [item_bytes] in *.
  unfold tf_init, tf_search.
  destruct k1, k2; try congruence;
    destruct (find_sub (spec_name Qms) (flat items)); destruct (find_sub (spec_name Qus) (flat items));
    destruct (find_sub (spec_name Qns) (flat items)); try congruence; reflexivity.
Qed.

Definition wf_itemX (it : item) : Prop := wf_item it \/ it = Conv [88%N].

Lemma wfX_tf it : wf_itemX it -> tf_item it.
Proof. intros [H| ->]; [now apply wf_tf_item|]. eapply conv_tf_item. reflexivity. Qed.

Lemma sft_init_X strict items : In (Conv [88%N]) items -> sft_init strict (flat items) = None.
Proof.
  intros H. apply find_sub_in in H. cbn [item_bytes] in H. unfold sft_init, m_X.
  destruct (find_sub [37%N; 88%N] (flat items)); [reflexivity|congruence].
Qed.

Lemma rejects_X strict items1 k items2 :
  Forall wf_itemX items1 -> Forall wf_itemX items2 ->
  adj_ok sp_special items1 = true -> adj_ok sp_special items2 = true ->
  In (Conv [88%N]) (match k with Some _ => items1 ++ items2 | None => items1 end) ->
  tf_init strict (pattern_of items1 k items2) = inr ErrX.
Proof.
  intros X1 X2 A1 A2 Hin.
  assert (T1 : Forall tf_item items1) by (eapply Forall_impl; [|exact X1]; apply wfX_tf).
  assert (T2 : Forall tf_item items2) by (eapply Forall_impl; [|exact X2]; apply wfX_tf).
  destruct k as [k|]; cbn [pattern_of]; unfold tf_init.
  - rewrite (tf_search_located items1 items2 k T1 T2 A1 A2), (dup_located items1 items2 k T2 A2), andb_false_r.
    rewrite split_first, split_second.
    destruct (sft_init strict (flat items1)) eqn:E1; [|reflexivity].
    apply in_app_or in Hin. destruct Hin as [Hin|Hin]; [rewrite sft_init_X in E1; [discriminate|auto]|].
    destruct (flat items2) as [|y f2] eqn:Ef.
    { apply flat_nil_inv in Ef; [subst; destruct Hin|]. eapply Forall_impl; [|exact T2]. now intros it [? _]. }
    rewrite <- Ef, (sft_init_X strict items2 Hin). reflexivity.
  - rewrite (tf_search_nofrac items1 T1 A1).
    now rewrite (sft_init_X strict items1 Hin).
Qed.

(* ---------------------------------------------------------------- rejections of the repaired code *)
(* what a successful search says about the three finds *)
Lemma tf_search_inv f k i : tf_search f = Some (Some (k, i)) ->
  find_sub (spec_name k) f = Some i /\ forall k0, k0 <> k -> find_sub (spec_name k0) f = None.
Proof.
  unfold tf_search.
  destruct (find_sub (spec_name Qms) f) as [a|] eqn:E1; destruct (find_sub (spec_name Qus) f) as [b|] eqn:E2;
    destruct (find_sub (spec_name Qns) f) as [c|] eqn:E3; intros H; try discriminate; inversion H; subst;
    (split; [assumption|]); intros [] Hk; try congruence; assumption.
Qed.

Lemma tf_search_none_inv f : tf_search f = Some None -> forall k0, find_sub (spec_name k0) f = None.
Proof.
  unfold tf_search.
  destruct (find_sub (spec_name Qms) f) as [a|] eqn:E1; destruct (find_sub (spec_name Qus) f) as [b|] eqn:E2;
    destruct (find_sub (spec_name Qns) f) as [c|] eqn:E3; intros H; try discriminate; intros []; assumption.
Qed.

Lemma spec_name_len k : length (spec_name k) = 4.
Proof. destruct k; reflexivity. Qed.

(* N1 repaired: a specifier that occurs twice (the same kind) makes the constructor throw; any
   items around and between the two occurrences *)
Lemma rejects_same_twice a k b c :
  tf_init true (flat (a ++ Frac k :: b ++ Frac k :: c)) = inr ErrExclusive.
Proof.
  assert (E : flat (a ++ Frac k :: b ++ Frac k :: c) = flat a ++ spec_name k ++ flat b ++ spec_name k ++ flat c).
  { rewrite flat_app, flat_cons, flat_app, flat_cons. reflexivity. }
  rewrite E. clear E. set (f := flat a ++ spec_name k ++ flat b ++ spec_name k ++ flat c).
  assert (Hk : find_sub (spec_name k) f <> None) by apply find_sub_occurs.
  unfold tf_init. destruct (tf_search f) as [[[k' i]|]|] eqn:S; [|now rewrite (tf_search_none_inv f S k) in Hk|reflexivity].
  destruct (tf_search_inv f k' i S) as [Hi Ho].
  assert (k' = k) by (destruct k, k'; try reflexivity; exfalso; apply Hk, Ho; discriminate). subst k'.
  unfold dup_spec. pose proof (find_sub_again (spec_name k) (flat a) (flat b) (flat c) i Hi) as H2.
  rewrite spec_name_len in H2. fold f in H2. destruct (find_sub (spec_name k) (skipn (i + 4) f)); [reflexivity|congruence].
Qed.

(* D8 repaired, inside the classified universe: a fine conversion (%c %Ec %EX %OH %OM %OS %OI)
   anywhere in the pattern makes the constructor throw *)
Definition wf_itemF (it : item) : Prop :=
  wf_item it \/ it = Conv [88%N] \/ exists b, it = Conv b /\ classify b = Some Fine.

Lemma wfF_tf it : wf_itemF it -> tf_item it.
Proof.
  intros [H|[->|(b & -> & H)]]; [now apply wf_tf_item|eapply conv_tf_item; reflexivity|eapply conv_tf_item; eauto].
Qed.

Lemma wfF_tok it : wf_itemF it -> tok_item it.
Proof.
  intros [H|[->|(b & -> & H)]]; [now apply wf_tok|eapply classify_tok; reflexivity|eapply classify_tok; eauto].
Qed.

Lemma classified_fine b : classify b = Some Fine -> fine_conv b = true.
Proof.
  intros H. destruct (classify_okconv _ _ H) as [[x ->]|(m & x & -> & Hm & Hx)].
  - cbn [classify] in H. destruct (handled_ty x); [discriminate|]. destruct (mem x coarse1); [discriminate|].
    destruct (mem x [114;82;84]%N); [discriminate|]. destruct (N.eqb x 88); [discriminate|].
    destruct (N.eqb_spec x 99); [subst; reflexivity|discriminate].
  - cbn [classify] in H. destruct Hm; subst; cbn [N.eqb Pos.eqb] in H.
    + destruct (mem x coarseE); [discriminate|]. destruct (mem x fineE) eqn:M; [|discriminate].
      apply mem_in in M. cbn in M. destruct M as [<-|[<-|[]]]; reflexivity.
    + destruct (mem x coarseO); [discriminate|]. destruct (mem x fineO) eqn:M; [|discriminate].
      apply mem_in in M. cbn in M. destruct M as [<-|[<-|[<-|[<-|[]]]]]; reflexivity.
Qed.

Lemma sft_init_fine items b : Forall tok_item items -> In (Conv b) items -> fine_conv b = true ->
  sft_init true (flat items) = None.
Proof. intros T Hin Hf. apply sft_init_unpatchable. eapply unpatchable_in; eauto. Qed.

Lemma rejects_fine items1 k items2 b :
  Forall wf_itemF items1 -> Forall wf_itemF items2 ->
  adj_ok sp_special items1 = true -> adj_ok sp_special items2 = true ->
  classify b = Some Fine ->
  In (Conv b) (match k with Some _ => items1 ++ items2 | None => items1 end) ->
  tf_init true (pattern_of items1 k items2) = inr ErrX.
Proof.
  intros X1 X2 A1 A2 Hb Hin. pose proof (classified_fine b Hb) as Hf.
  assert (T1 : Forall tf_item items1) by (eapply Forall_impl; [|exact X1]; apply wfF_tf).
  assert (T2 : Forall tf_item items2) by (eapply Forall_impl; [|exact X2]; apply wfF_tf).
  assert (K1 : Forall tok_item items1) by (eapply Forall_impl; [|exact X1]; apply wfF_tok).
  assert (K2 : Forall tok_item items2) by (eapply Forall_impl; [|exact X2]; apply wfF_tok).
  destruct k as [k|]; cbn [pattern_of]; unfold tf_init.
  - rewrite (tf_search_located items1 items2 k T1 T2 A1 A2), (dup_located items1 items2 k T2 A2), andb_false_r.
    rewrite split_first, split_second.
    destruct (sft_init true (flat items1)) eqn:E1; [|reflexivity].
    apply in_app_or in Hin. destruct Hin as [Hin|Hin]; [rewrite (sft_init_fine items1 b) in E1; [discriminate|auto..]|].
    destruct (flat items2) as [|y f2] eqn:Ef.
    { apply flat_nil_inv in Ef; [subst; destruct Hin|]. eapply Forall_impl; [|exact T2]. now intros it [? _]. }
    rewrite <- Ef, (sft_init_fine items2 b K2 Hin Hf). reflexivity.
  - rewrite (tf_search_nofrac items1 T1 A1).
    now rewrite (sft_init_fine items1 b K1 Hin Hf).
Qed.

(* whatever the pattern: when the repaired constructor accepts it, the segment(s) handed to
   StringFromTime contain no %X and pass the scan, and the specifier does not occur again *)
Lemma find_sub_firstn p : forall s i, find_sub p s = Some i -> s = firstn i s ++ p ++ skipn (i + length p) s.
Proof.
  induction s as [|x s IH]; intros i H.
  - cbn [find_sub] in H. destruct (prefixb p []) eqn:E; [|discriminate]. inversion H; subst.
    destruct p; [reflexivity|discriminate].
  - cbn [find_sub] in H. destruct (prefixb p (x :: s)) eqn:E.
    + inversion H; subst. cbn [firstn app Nat.add]. clear H IH. revert E. generalize (x :: s). clear.
      induction p as [|y p IH]; intros l E; [reflexivity|]. destruct l as [|z l]; [discriminate|].
      cbn [prefixb] in E. apply andb_true_iff in E. destruct E as [E1 E2]. apply N.eqb_eq in E1. subst.
      cbn [app length skipn]. f_equal. auto.
    + destruct (find_sub p s) as [j|] eqn:F; [|discriminate]. inversion H; subst.
      cbn [firstn app Nat.add skipn]. f_equal. auto.
Qed.

Lemma accept_inv f x : tf_init true f = inl x ->
  (tspec x = None /\ find_sub m_X f = None /\ unpatchable f = false) \/
  (exists k f1 f2, tspec x = Some k /\ f = f1 ++ spec_name k ++ f2 /\
     find_sub m_X f1 = None /\ unpatchable f1 = false /\
     find_sub m_X f2 = None /\ unpatchable f2 = false /\ find_sub (spec_name k) f2 = None).
Proof.
  unfold tf_init. destruct (tf_search f) as [[[k i]|]|] eqn:S; [| |discriminate].
  - cbn [andb]. destruct (dup_spec f k i) eqn:D; [discriminate|].
    destruct (sft_init true (firstn i f)) as [a|] eqn:E1; [|discriminate].
    destruct (sft_init_some_inv _ _ _ E1) as [X1 U1]. destruct (tf_search_inv f k i S) as [Hi _].
    pose proof (find_sub_firstn _ _ _ Hi) as Ef. rewrite spec_name_len in Ef.
    assert (Hd : find_sub (spec_name k) (skipn (i + 4) f) = None).
    { unfold dup_spec in D. destruct (find_sub (spec_name k) (skipn (i + 4) f)); [discriminate|reflexivity]. }
    intros H. right. exists k, (firstn i f), (skipn (i + 4) f).
    destruct (skipn (i + 4) f) as [|y f2] eqn:E2.
    + inversion H; subst. cbn [tspec]. repeat split; auto.
    + destruct (sft_init true (y :: f2)) as [b|] eqn:E3; [|discriminate].
      destruct (sft_init_some_inv _ _ _ E3) as [X2 U2]. inversion H; subst. cbn [tspec]. repeat split; auto.
  - destruct (sft_init true f) as [a|] eqn:E1; [|discriminate].
    destruct (sft_init_some_inv _ _ _ E1) as [X1 U1]. intros H. inversion H; subst. left. cbn [tspec]. auto.
Qed.
