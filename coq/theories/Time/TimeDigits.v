(* Decimal rendering lemmas: libfmt's integer formatting as modelled by [dec]/[fmt_pad] against
   the fixed-width digit strings used in the hypotheses and in the fraction specification. *)
From Coq Require Import List NArith ZArith Bool Arith Lia.
From Quill Require Import Time.TimeModel Time.TimeSpec.
Import ListNotations.

Ltac Zify.zify_post_hook ::= Z.to_euclidean_division_equations.

Fixpoint pow10 (w : nat) : N := match w with 0 => 1%N | S w' => (10 * pow10 w')%N end.

Lemma decf_S f n : decf (S f) n = if N.ltb n 10 then [48 + n]%N else decf f (n / 10)%N ++ [48 + n mod 10]%N.
Proof. reflexivity. Qed.

Lemma digitsW_0 w : digitsW w 0 = repeat 48%N w.
Proof.
  induction w as [|w IH]; [reflexivity|]. cbn [digitsW]. change (0 / 10)%N with 0%N. rewrite IH.
  change (48 + 0 mod 10)%N with 48%N. clear IH. induction w; cbn; [reflexivity|]. now f_equal.
Qed.

Lemma digitsW_length w v : length (digitsW w v) = w.
Proof. revert v. induction w as [|w IH]; intros v; cbn [digitsW]; [reflexivity|]. rewrite app_length, IH. cbn. lia. Qed.

(* the variable-width rendering, left padded with zeros, is the fixed-width digit string *)
Lemma decf_pad w : forall fuel n, 1 <= w -> w <= fuel -> (n < pow10 w)%N ->
  digitsW w n = repeat 48%N (w - length (decf fuel n)) ++ decf fuel n /\
  1 <= length (decf fuel n) <= w.
Proof.
  induction w as [|w IH]; intros fuel n Hw Hf Hn; [lia|].
  destruct fuel as [|f]; [lia|]. rewrite decf_S. cbn [digitsW].
  destruct (N.ltb_spec n 10) as [Hlt|Hge].
  - replace (n / 10)%N with 0%N by (symmetry; apply N.div_small; lia).
    replace (n mod 10)%N with n by (symmetry; apply N.mod_small; lia).
    rewrite digitsW_0. cbn [length]. replace (S w - 1) with w by lia. split; [reflexivity|lia].
  - destruct w as [|w'].
    + cbn [pow10] in Hn. lia.
    + cbn [pow10] in Hn. destruct (IH f (n / 10)%N) as [E L]; [lia|lia|cbn [pow10]; lia|].
      rewrite E, app_length. cbn [length]. split; [|lia].
      rewrite <- app_assoc. f_equal. f_equal. lia.
Qed.

Lemma pow10_pos w : (1 <= pow10 w)%N.
Proof. induction w; cbn [pow10]; lia. Qed.

Lemma decf_len_lower w : forall fuel n, S w <= fuel -> (pow10 w <= n)%N ->
  S w <= length (decf fuel n).
Proof.
  induction w as [|w IH]; intros fuel n Hf Hn; (destruct fuel as [|f]; [lia|]); rewrite decf_S.
  - destruct (N.ltb n 10); [cbn; lia|]. rewrite app_length. cbn. lia.
  - cbn [pow10] in Hn. pose proof (pow10_pos w).
    destruct (N.ltb_spec n 10) as [Hlt|Hge]; [lia|].
    rewrite app_length. cbn [length].
    assert (S w <= length (decf f (n / 10)%N)) by (apply IH; lia). lia.
Qed.

Lemma dec_exact w n : S w <= 20 -> (pow10 w <= n < pow10 (S w))%N -> dec n = digitsW (S w) n.
Proof.
  intros Hw Hn. unfold dec.
  destruct (decf_pad (S w) 20 n) as [E L]; [lia|lia|lia|].
  pose proof (decf_len_lower w 20 n Hw). rewrite E.
  replace (S w - length (decf 20 n)) with 0 by lia. reflexivity.
Qed.

Lemma fmt_pad_full w c d : w <= length d -> fmt_pad w c d = d.
Proof. intros H. unfold fmt_pad. replace (w - length d) with 0 by lia. reflexivity. Qed.

(* "{:02}" / "{:2}" of a value below 100 *)
Lemma fmt_two padc n : (n < 100)%N -> fmt_pad 2 padc (dec n) = two padc n.
Proof.
  intros Hn. unfold dec, two. rewrite decf_S. destruct (N.ltb_spec n 10) as [Hlt|Hge].
  - reflexivity.
  - rewrite decf_S. destruct (N.ltb_spec (n / 10) 10) as [H2|H2]; [|lia].
    apply fmt_pad_full. cbn. lia.
Qed.

Lemma two_length padc n : length (two padc n) = 2.
Proof. unfold two. destruct (N.ltb n 10); reflexivity. Qed.

(* "{:10}" of a ten-digit epoch *)
Lemma fmt_ten t : (1000000000 <= t < 10000000000)%Z ->
  fmt_pad 10 32 (dec_Z t) = digitsW 10 (Z.to_N t).
Proof.
  intros Ht. unfold dec_Z. destruct (Z.ltb_spec t 0); [lia|].
  rewrite (dec_exact 9); [|lia|cbn [pow10]; lia].
  apply fmt_pad_full. rewrite digitsW_length. lia.
Qed.

(* ---------------------------------------------------------------- overwrite *)
Lemma overwrite_mid (p a b r : str) : length a = length b ->
  overwrite (length p) b (p ++ a ++ r) = p ++ b ++ r.
Proof.
  intros H. unfold overwrite. rewrite firstn_app, Nat.sub_diag, firstn_all. cbn [firstn]. rewrite app_nil_r.
  f_equal. f_equal. rewrite skipn_app, skipn_all2 by lia.
  replace (length p + length b - length p) with (length a) by lia.
  rewrite skipn_app, skipn_all, Nat.sub_diag. reflexivity.
Qed.

(* the fraction: zeros appended, digits copied right-aligned = zero padded digits *)
Lemma write_frac_spec buf w v : 1 <= w <= 20 -> (v < pow10 w)%N ->
  write_frac buf w v = buf ++ digitsW w v.
Proof.
  intros Hw Hv. unfold write_frac, dec.
  destruct (decf_pad w 20 v) as [E L]; [lia|lia|lia|]. rewrite E.
  set (d := decf 20 v) in *. rewrite app_length, repeat_length.
  replace (length buf + w - length d) with (length (buf ++ repeat 48%N (w - length d))) by (rewrite app_length, repeat_length; lia).
  replace (repeat 48%N w) with (repeat 48%N (w - length d) ++ repeat 48%N (length d))
    by (rewrite <- repeat_app; f_equal; lia).
  rewrite (app_assoc buf).
  rewrite <- (app_nil_r (repeat 48%N (length d))) at 1.
  rewrite overwrite_mid by (now rewrite repeat_length).
  now rewrite app_nil_r, <- app_assoc.
Qed.
