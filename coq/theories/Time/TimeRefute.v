(* C13: the pinned earlier behaviour (model flag strict = false) next to the repaired one (strict =
   true) for D8 fine conversions, N3 glibc flag forms and N1 the same specifier twice; refutations
   of the unrestricted statement that still stand (D9 off-grid zones, N2 %% before r R T X Q); and
   a concrete libc-like oracle showing that the hypotheses H1-H3 / zone_gmt / zone_ok of the main
   theorems are satisfiable together. *)
From Coq Require Import List NArith ZArith Bool Arith Lia.
From Quill Require Import Time.TimeModel Time.TimeSpec Time.TimeStrings Time.TimeStrict Time.TimeInit Time.TimeDigits Time.TimeProofs Time.TimeTF.
Import ListNotations.

Ltac Zify.zify_post_hook ::= Z.to_euclidean_division_equations.

(* ---------------------------------------------------------------- D8: fine conversions *)
(* c  Ec  EX  OH  OM  OS  OI *)
Definition fine_bodies : list str := [[99]; [69;99]; [69;88]; [79;72]; [79;77]; [79;83]; [79;73]]%N.

Lemma fine_classified : Forall (fun b => classify b = Some Fine) fine_bodies.
Proof. repeat constructor. Qed.

Lemma stale_single strf sodf local p f t1 t2 : p <> [] -> ftype_of p = None ->
  (0 <= t1 <= t2)%Z -> (t2 < next_recalc local t1)%Z ->
  sft_run strf sodf local {| parts := [p]; tfmt := f; pre := []; idxs := []; next := 0; cts := 0; csec := 0 |} [t1; t2]
  = [strf p t1; strf p t1].
Proof.
  intros Hp Hf Ht Hn. cbn [sft_run]. unfold sft_format at 1. cbn [cts next parts tfmt pre idxs].
  destruct (Z.ltb_spec t1 0); [lia|]. destruct (Z.leb_spec 0 t1); [|lia].
  cbn [build]. rewrite Hf. cbn [app idxs pre cts].
  unfold sft_format. cbn [cts next parts tfmt pre idxs].
  destruct (Z.ltb_spec t2 t1); [lia|]. destruct (Z.leb_spec (next_recalc local t1) t2); [lia|].
  cbn [idxs pre]. rewrite (safe_strf_ne strf p t1 Hp). reflexivity.
Qed.

(* pinned (strict = false), whatever libc is: if the conversion's text differs between two instants
   of one recalculation window, the second rendering is the first one's and so differs from strftime *)
Lemma fine_refuted strf sodf local b t1 t2 : In b fine_bodies ->
  (0 <= t1 <= t2)%Z -> (t2 < next_recalc local t1)%Z ->
  strf (37%N :: b) t1 <> strf (37%N :: b) t2 ->
  exists st, sft_init false (37%N :: b) = Some st /\
             nth 1 (sft_run strf sodf local st [t1; t2]) [] <> strf (37%N :: b) t2.
Proof.
  intros Hb Ht Hn Hd. cbn [fine_bodies In] in Hb.
  repeat (destruct Hb as [<-|Hb];
    [eexists; split; [vm_compute; reflexivity|];
     rewrite stale_single; [exact Hd|discriminate|reflexivity|exact Ht|exact Hn]|]).
  destruct Hb.
Qed.

(* repaired (strict = true): init throws *)
Lemma fine_rejected b : In b fine_bodies -> sft_init true (37%N :: b) = None.
Proof.
  intros Hb. cbn [fine_bodies In] in Hb. repeat (destruct Hb as [<-|Hb]; [reflexivity|]). destruct Hb.
Qed.

(* a concrete witness (toy oracle: every format renders the decimal instant) *)
Definition toy_strf (f : str) (t : Z) : str := dec (Z.to_N t).
Example fine_witness :
  match sft_init false [37;99]%N with
  | Some st => sft_run toy_strf (fun _ => 0%N) false st [1000000000; 1000000005]%Z
               = [toy_strf [37;99]%N 1000000000; toy_strf [37;99]%N 1000000000]
               /\ toy_strf [37;99]%N 1000000000 <> toy_strf [37;99]%N 1000000005
  | None => False
  end.
Proof. vm_compute. split; [reflexivity|discriminate]. Qed.

(* ---------------------------------------------------------------- N3: glibc flag forms *)
(* one of - _ 0 ^ # before one of H M S I k l s r R T c, e.g. %-H %_M %0S %^I %#k *)
Definition flag_chars : list N := [45;95;48;94;35]%N.
Definition time_letters : list N := [72;77;83;73;107;108;115;114;82;84;99]%N.
Definition flagged_bodies : list str := flat_map (fun f => map (fun c => [f; c]) time_letters) flag_chars.

(* pinned (strict = false): the flagged conversion is one cached part and goes stale like D8 *)
Lemma flagged_refuted strf sodf local b t1 t2 : In b flagged_bodies ->
  (0 <= t1 <= t2)%Z -> (t2 < next_recalc local t1)%Z ->
  strf (37%N :: b) t1 <> strf (37%N :: b) t2 ->
  exists st, sft_init false (37%N :: b) = Some st /\
             nth 1 (sft_run strf sodf local st [t1; t2]) [] <> strf (37%N :: b) t2.
Proof.
  intros Hb Ht Hn Hd. vm_compute in Hb.
  repeat (destruct Hb as [<-|Hb];
    [eexists; split; [vm_compute; reflexivity|];
     rewrite stale_single; [exact Hd|discriminate|reflexivity|exact Ht|exact Hn]|]).
  destruct Hb.
Qed.

(* repaired (strict = true): any run of flags / width digits / E / O before a time-of-day letter
   (or before c), and c alone, make init throw; around it any tokens *)
Lemma flagged_rejected_gen items p c :
  Forall tok_item items -> Forall (fun x => memN x skip_chars = true) p ->
  (c = 99%N \/ (p <> [] /\ memN c time_chars = true)) ->
  In (Conv (p ++ [c])) items -> sft_init true (flat items) = None.
Proof.
  intros T Hp Hc Hin. eapply sft_init_fine; eauto. unfold fine_conv. rewrite last_snoc, app_length.
  destruct Hc as [->|[Hne Hc]]; [reflexivity|]. rewrite Hc, andb_true_r.
  destruct p as [|x p]; [congruence|]. cbn [length Nat.add]. destruct (length p + 1) eqn:E; [lia|]. cbn. apply orb_true_r.
Qed.

Lemma flagged_rejected b : In b flagged_bodies -> sft_init true (37%N :: b) = None.
Proof.
  intros Hb. vm_compute in Hb. repeat (destruct Hb as [<-|Hb]; [reflexivity|]). destruct Hb.
Qed.

(* ---------------------------------------------------------------- D9: a zone off the quarter-hour grid *)
(* offset 0 until t = 960 (= 60 mod 900), one hour afterwards *)
Definition d9_off (t : Z) : Z := if Z.ltb t 960 then 0%Z else 3600%Z.
Definition d9_sodf (t : Z) : N := sod d9_off t.
Definition d9_strf (f : str) (t : Z) : str :=
  if str_eqb f m_H then two 48 (hh d9_off t) else if str_eqb f m_M then two 48 (mi d9_off t)
  else if str_eqb f m_S then two 48 (ss d9_off t) else if str_eqb f m_I then two 48 (h12 (hh d9_off t))
  else if str_eqb f m_k then two 32 (hh d9_off t) else if str_eqb f m_l then two 32 (h12 (hh d9_off t))
  else [].

Lemma d9_H2 : H2 d9_strf d9_sodf d9_off.
Proof. repeat split. Qed.

Lemma d9_not_zone_ok : ~ zone_ok d9_off (fun _ => 0%Z).
Proof.
  intros H. destruct (H 900%Z 960%Z) as (E & _); [lia|lia|reflexivity|]. vm_compute in E. discriminate.
Qed.

Lemma offgrid_refuted :
  H2 d9_strf d9_sodf d9_off /\ ~ zone_ok d9_off (fun _ => 0%Z) /\
  forall strict, exists st, sft_init strict m_H = Some st /\
    sft_run d9_strf d9_sodf true st [900; 960]%Z = [[48;48]; [48;48]]%N /\
    d9_strf m_H 960 = [48;49]%N.
Proof.
  split; [exact d9_H2|]. split; [exact d9_not_zone_ok|].
  intros []; (eexists; split; [vm_compute; reflexivity|]; split; vm_compute; reflexivity).
Qed.

(* ---------------------------------------------------------------- N1: the same specifier twice *)
(* pinned (strict = false): accepted, the second one reaches strftime as text;
   repaired (strict = true): the constructor throws *)
Lemma same_spec_refuted :
  exists x b, tf_init false (spec_name Qms ++ spec_name Qms) = inl x /\ tp2 x = Some b /\ tfmt b = spec_name Qms.
Proof. eexists. eexists. vm_compute. repeat split. Qed.

Lemma same_spec_rejected k : tf_init true (spec_name k ++ spec_name k) = inr ErrExclusive.
Proof. destruct k; reflexivity. Qed.

(* ---------------------------------------------------------------- N2: %% before r R T X Q *)
Lemma pct_refuted : forall strict,
  (* "%%T" is split as "%" "%H" ":" "%M" ":" "%S" *)
  (exists st, sft_init strict [37;37;84]%N = Some st /\ parts st = [[37]; m_H; [58]; m_M; [58]; m_S]%N) /\
  (* "%%X" is rejected *)
  tf_init strict [37;37;88]%N = inr ErrX /\
  (* "%%Qms": the first part is "%" and the specifier is taken *)
  (exists x, tf_init strict (37%N :: spec_name Qms) = inl x /\ tspec x = Some Qms /\ tfmt (tp1 x) = [37%N]).
Proof.
  intros []; (split; [eexists; vm_compute; split; reflexivity|]; split; [reflexivity|];
    eexists; vm_compute; repeat split).
Qed.

(* ---------------------------------------------------------------- the hypotheses are satisfiable *)
Section Mini.
Variable o : Z.          (* a constant utc offset *)

Definition msod (t : Z) : N := sod (fun _ => o) t.
Definition mh (t : Z) : N := hh (fun _ => o) t.

Definition mconv1 (c : N) (t : Z) : str :=
  if N.eqb c 72 then two 48 (mh t) else if N.eqb c 77 then two 48 (mi (fun _ => o) t)
  else if N.eqb c 83 then two 48 (ss (fun _ => o) t) else if N.eqb c 73 then two 48 (h12 (mh t))
  else if N.eqb c 107 then two 32 (mh t) else if N.eqb c 108 then two 32 (h12 (mh t))
  else if N.eqb c 115 then digitsW 10 (Z.to_N t) else if N.eqb c 37 then [37%N] else [63%N].
Definition mconv (c : N) (t : Z) : str :=
  if N.eqb c 114 then mconv1 73 t ++ [58%N] ++ mconv1 77 t ++ [58%N] ++ mconv1 83 t ++ [32%N] ++ mconv1 112 t
  else if N.eqb c 82 then mconv1 72 t ++ [58%N] ++ mconv1 77 t
  else if N.eqb c 84 then mconv1 72 t ++ [58%N] ++ mconv1 77 t ++ [58%N] ++ mconv1 83 t
  else mconv1 c t.

(* a small strftime: literals copied, E/O modified conversions render "?", single letters by mconv *)
Fixpoint mini (s : str) (t : Z) : str :=
  match s with
  | [] => []
  | x :: s' =>
    if N.eqb x 37 then
      match s' with
      | [] => [37%N]
      | y :: s'' =>
        if N.eqb y 69 || N.eqb y 79
        then match s'' with [] => [37%N; y] | _ :: s''' => 63%N :: mini s''' t end
        else mconv y t ++ mini s'' t
      end
    else x :: mini s' t
  end.

Lemma mini_lit l s t : Forall (fun x => x <> 37%N) l -> mini (l ++ s) t = l ++ mini s t.
Proof.
  induction l as [|x l IH]; intros H; [reflexivity|]. inversion H; subst.
  change ((x :: l) ++ s) with (x :: (l ++ s)). cbn [mini].
  destruct (N.eqb_spec x 37); [congruence|]. cbn [app]. f_equal. auto.
Qed.

Lemma mini_lit0 l t : Forall (fun x => x <> 37%N) l -> mini l t = l.
Proof.
  intros H. pose proof (mini_lit l [] t H) as E. rewrite app_nil_r in E. rewrite E. cbn [mini]. apply app_nil_r.
Qed.

Lemma mini_item it s t : h1_item it -> mini (item_bytes it ++ s) t = mini (item_bytes it) t ++ mini s t.
Proof.
  destruct it as [l|b|k]; cbn [h1_item]; [|intros Hc|tauto].
  - intros [_ Hl]. cbn [item_bytes]. rewrite (mini_lit l s t Hl), (mini_lit0 l t Hl). reflexivity.
  - destruct (classify b) as [c|] eqn:Ec; [|congruence]. pose proof (classify_okconv _ _ Ec) as Hs.
    destruct Hs as [[x ->]|(m & x & -> & Hm & Hx)].
    + cbn [item_bytes app mini]. rewrite N.eqb_refl.
      destruct (N.eqb_spec x 69); [subst; vm_compute in Ec; discriminate|].
      destruct (N.eqb_spec x 79); [subst; vm_compute in Ec; discriminate|].
      cbn [orb mini]. now rewrite app_nil_r.
    + cbn [item_bytes app mini]. rewrite N.eqb_refl.
      destruct Hm; subst; reflexivity.
Qed.

Lemma mini_flat a s t : Forall h1_item a -> mini (flat a ++ s) t = mini (flat a) t ++ mini s t.
Proof.
  induction a as [|it r IH]; intros H; [reflexivity|]. inversion H; subst.
  rewrite flat_cons, <- app_assoc, mini_item, IH, (mini_item it (flat r)), app_assoc by auto. reflexivity.
Qed.

Lemma mini_H1 : H1 mini.
Proof.
  repeat split.
  - intros a b t _ _ H. rewrite flat_app. apply mini_flat. now apply Forall_app_l in H.
  - intros t. cbn -[two mh mi ss h12]. rewrite ?app_nil_r, <- ?app_assoc. reflexivity.
  - intros t. cbn -[two mh mi ss h12]. rewrite ?app_nil_r, <- ?app_assoc. reflexivity.
  - intros t. cbn -[two mh mi ss h12]. rewrite ?app_nil_r, <- ?app_assoc. reflexivity.
Qed.

Lemma mini_H2 : H2 mini msod (fun _ => o).
Proof. repeat split; intros t; cbn -[two mh mi ss h12]; now rewrite app_nil_r. Qed.

Lemma mini_H2s : H2s mini.
Proof. intros t _. cbn -[digitsW]. now rewrite app_nil_r. Qed.

Lemma mini_H3 zid : H3 mini (fun _ => o) zid.
Proof.
  intros it t1 t2 Hc _. destruct it as [l|b|k]; cbn [coarse_item] in Hc; [|pose proof Hc as Ec|tauto].
  - destruct Hc as [_ Hl]. cbn [item_bytes]. rewrite (mini_lit0 l t1 Hl), (mini_lit0 l t2 Hl). reflexivity.
  - pose proof (classify_okconv _ _ Ec) as Hs.
    destruct Hs as [[x ->]|(m & x & -> & Hm & Hx)].
    + cbn [item_bytes mini]. rewrite N.eqb_refl.
      destruct (N.eqb_spec x 69); [subst; vm_compute in Ec; discriminate|].
      destruct (N.eqb_spec x 79); [subst; vm_compute in Ec; discriminate|].
      cbn [orb]. f_equal. unfold mconv, mconv1.
      repeat match goal with
      | |- context [N.eqb x ?c] => destruct (N.eqb_spec x c); [subst; vm_compute in Ec; discriminate|]
      end.
      destruct (N.eqb x 37); reflexivity.
    + cbn [item_bytes mini]. rewrite N.eqb_refl. destruct Hm; subst; reflexivity.
Qed.
End Mini.

Lemma mini_zone_gmt : zone_gmt (fun _ => 0%Z) (fun _ => 0%Z).
Proof. intros t. split; reflexivity. Qed.

(* Kathmandu-like: a constant +05:45 *)
Lemma mini_zone_ok : zone_ok (fun _ => 20700%Z) (fun _ => 0%Z).
Proof. intros t1 t2 _ _ _. repeat split. Qed.

(* "%Y-%m-%d %H:%M:%S.%Qms %p" is in the universe of the theorems *)
Definition ex_items1 : list item :=
  [Conv [89]; Lit [45]; Conv [109]; Lit [45]; Conv [100]; Lit [32]; Conv [72]; Lit [58]; Conv [77]; Lit [58]; Conv [83]; Lit [46]]%N.
Definition ex_items2 : list item := [Lit [32]; Conv [112]]%N.

Lemma ex_wf1 : wf_items ex_items1.
Proof.
  split; [|reflexivity].
  repeat (apply Forall_cons; [cbn [wf_item]; first [eexists; split; reflexivity | split; [discriminate|repeat constructor; discriminate]]|]).
  constructor.
Qed.
Lemma ex_wf2 : wf_items ex_items2.
Proof.
  split; [|reflexivity].
  repeat (apply Forall_cons; [cbn [wf_item]; first [eexists; split; reflexivity | split; [discriminate|repeat constructor; discriminate]]|]).
  constructor.
Qed.
