(* C13 specification side: patterns as item lists (strftime's own tokenisation plus the %Qms/%Qus/%Qns
   extension), classification of conversions, the hypotheses about libc (H1-H3) and about the zone
   (zone_ok) under which the theorems are stated.  Definitions only. *)
From Coq Require Import List NArith ZArith Bool Arith.
From Quill Require Import Time.TimeModel.
Import ListNotations.

Inductive item := Lit (l : str) | Conv (b : str) | Frac (k : fkind).

Definition item_bytes (it : item) : str :=
  match it with Lit l => l | Conv b => 37%N :: b | Frac k => spec_name k end.
Definition flat (items : list item) : str := flat_map item_bytes items.

Inductive cls := Handled (ty : ftype) | Coarse | Rewritten | Rejected | Fine.

Definition mem (x : N) (l : list N) : bool := existsb (N.eqb x) l.

Definition handled_ty (c : N) : option ftype :=
  if N.eqb c 72 then Some fH else if N.eqb c 77 then Some fM else if N.eqb c 83 then Some fS
  else if N.eqb c 73 then Some fI else if N.eqb c 107 then Some fk else if N.eqb c 108 then Some fl
  else if N.eqb c 115 then Some fs else None.

(* Y y m d e j a A b B h p P u w C G g V U W D F n t z Z x %  *)
Definition coarse1 : list N :=
  [89;121;109;100;101;106;97;65;98;66;104;112;80;117;119;67;71;103;86;85;87;68;70;110;116;122;90;120;37]%N.
Definition coarseE : list N := [67;89;121;120]%N.                       (* EC EY Ey Ex *)
Definition coarseO : list N := [100;101;109;117;119;121;85;86;87]%N.   (* Od Oe Om Ou Ow Oy OU OV OW *)
Definition fineE : list N := [99;88]%N.                                 (* Ec EX *)
Definition fineO : list N := [72;77;83;73]%N.                           (* OH OM OS OI *)

Definition classify (b : str) : option cls :=
  match b with
  | [c] =>
    match handled_ty c with
    | Some ty => Some (Handled ty)
    | None => if mem c coarse1 then Some Coarse
              else if mem c [114;82;84]%N then Some Rewritten        (* r R T *)
              else if N.eqb c 88 then Some Rejected                   (* X *)
              else if N.eqb c 99 then Some Fine                       (* c *)
              else None
    end
  | [m; c] =>
    if N.eqb m 69 then (if mem c coarseE then Some Coarse else if mem c fineE then Some Fine else None)
    else if N.eqb m 79 then (if mem c coarseO then Some Coarse else if mem c fineO then Some Fine else None)
    else None
  | _ => None
  end.

(* items the theorems quantify over inside one StringFromTime: literals without '%', and conversions
   that are handled, coarse or rewritten *)
Definition ok_cls (c : cls) : bool :=
  match c with Handled _ | Coarse | Rewritten => true | _ => false end.
Definition wf_item (it : item) : Prop :=
  match it with
  | Lit l => l <> [] /\ Forall (fun x => x <> 37%N) l
  | Conv b => exists c, classify b = Some c /\ ok_cls c = true
  | Frac _ => False
  end.

(* no literal %% directly before a literal that starts with one of these letters:
   H M S I k l s (the property's own exclusion), r R T X Q (finding N2) *)
Definition special : list N := [72;77;83;73;107;108;115;114;82;84;88;81]%N.
Definition is_pp (it : item) : bool :=
  match it with Conv [c] => N.eqb c 37 | _ => false end.
Definition lit_starts (sp : N -> bool) (it : item) : bool :=
  match it with Lit (y :: _) => sp y | _ => false end.
Fixpoint adj_ok (sp : N -> bool) (items : list item) : bool :=
  match items with
  | [] => true
  | it :: r => (negb (is_pp it) || match r with nxt :: _ => negb (lit_starts sp nxt) | [] => true end) && adj_ok sp r
  end.
Definition wf_items (items : list item) : Prop :=
  Forall wf_item items /\ adj_ok (fun y => mem y special) items = true.

Definition uses_s (items : list item) : Prop := In (Conv [115%N]) items.

(* ------------------------------------------------------------------ what libc is assumed to do *)
Definition two (padc n : N) : str :=
  if N.ltb n 10 then [padc; 48 + n]%N else [48 + n / 10; 48 + n mod 10]%N.

(* w decimal digits of v (zero padded) *)
Fixpoint digitsW (w : nat) (v : N) : str :=
  match w with 0 => [] | S w' => digitsW w' (v / 10)%N ++ [48 + v mod 10]%N end.

Section Hyp.
Variable strf : str -> Z -> str.
Variable sodf : Z -> N.
Variable off : Z -> Z.      (* utc offset in force at instant t (0 in GMT mode) *)
Variable zid : Z -> Z.      (* identity of the local time type (is-dst, abbreviation) in force at t *)

(* items whose rendering strftime is assumed to treat independently *)
Definition h1_item (it : item) : Prop :=
  match it with
  | Lit l => l <> [] /\ Forall (fun x => x <> 37%N) l
  | Conv b => classify b <> None
  | Frac _ => False
  end.

(* H1: strftime is compositional at conversion boundaries; %r %R %T are their C-locale expansions *)
Definition H1 : Prop :=
  (forall a b t, a <> [] -> b <> [] -> Forall h1_item (a ++ b) ->
     strf (flat (a ++ b)) t = strf (flat a) t ++ strf (flat b) t) /\
  (forall t, strf [37;114]%N t = strf new_r t) /\
  (forall t, strf [37;82]%N t = strf new_R t) /\
  (forall t, strf [37;84]%N t = strf new_T t).

(* H2: the seconds of the day are those of (t + off t), and %H %M %S %I %k %l render them *)
Definition sod (t : Z) : N := Z.to_N ((t + off t) mod 86400).
Definition hh (t : Z) : N := (sod t / 3600)%N.
Definition mi (t : Z) : N := (sod t mod 3600 / 60)%N.
Definition ss (t : Z) : N := (sod t mod 60)%N.
Definition h12 (h : N) : N := if N.eqb (h mod 12) 0 then 12%N else (h mod 12)%N.
Definition H2 : Prop :=
  (forall t, sodf t = sod t) /\
  (forall t, strf m_H t = two 48 (hh t)) /\
  (forall t, strf m_M t = two 48 (mi t)) /\
  (forall t, strf m_S t = two 48 (ss t)) /\
  (forall t, strf m_I t = two 48 (h12 (hh t))) /\
  (forall t, strf m_k t = two 32 (hh t)) /\
  (forall t, strf m_l t = two 32 (h12 (hh t))).
(* %s (only used when the pattern contains it): the ten digits of t *)
Definition H2s : Prop := forall t, (1000000000 <= t < 10000000000)%Z -> strf m_s t = digitsW 10 (Z.to_N t).

(* H3: literals and coarse conversions do not change while the offset, the zone type and the
   half-day index of local time stay the same *)
Definition same_state (t1 t2 : Z) : Prop :=
  off t1 = off t2 /\ zid t1 = zid t2 /\ ((t1 + off t1) / 43200 = (t2 + off t2) / 43200)%Z.
Definition coarse_item (it : item) : Prop :=
  match it with
  | Lit l => l <> [] /\ Forall (fun x => x <> 37%N) l
  | Conv b => classify b = Some Coarse
  | Frac _ => False
  end.
Definition H3 : Prop :=
  forall it t1 t2, coarse_item it -> same_state t1 t2 -> strf (item_bytes it) t1 = strf (item_bytes it) t2.

(* the zone hypothesis of local-time mode: the local time type only changes at epoch-aligned
   quarter hours and every offset is a multiple of 900 s *)
Definition zone_ok : Prop :=
  forall t1 t2, (0 <= t1)%Z -> (0 <= t2)%Z -> (t1 / 900 = t2 / 900)%Z ->
    off t1 = off t2 /\ zid t1 = zid t2 /\ (off t1 mod 900 = 0)%Z.
Definition zone_gmt : Prop := forall t, off t = 0%Z /\ zid t = 0%Z.
End Hyp.

(* the exact fractional digits the property asks for *)
Definition frac_digits (k : fkind) (ns : Z) : str :=
  digitsW (frac_width k) (Z.to_N (ns mod 1000000000) / frac_unit k)%N.

(* the reference rendering: strftime of each specifier-free segment, the specifier replaced by
   the exact digits.  [safe_strf] is strftime with "" for the empty format. *)
Definition ref_render (strf : str -> Z -> str) (items1 : list item) (k : option fkind) (items2 : list item) (ns : Z) : str :=
  let t := (ns / 1000000000)%Z in
  match k with
  | None => safe_strf strf (flat items1) t
  | Some k => safe_strf strf (flat items1) t ++ frac_digits k ns ++ safe_strf strf (flat items2) t
  end.
Definition pattern_of (items1 : list item) (k : option fkind) (items2 : list item) : str :=
  match k with None => flat items1 | Some k => flat (items1 ++ Frac k :: items2) end.
