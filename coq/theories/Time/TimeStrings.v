(* String-search lemmas for M-TIME: what std::string::find / _replace_all / the split into parts
   compute on the flattening of an item list. *)
From Coq Require Import List NArith ZArith Bool Arith Lia.
From Quill Require Import Time.TimeModel Time.TimeSpec.
Import ListNotations.

(* ---------------------------------------------------------------- find_sub, byte level *)
Fixpoint nohit (p a s : str) : Prop :=
  match a with [] => True | _ :: a' => prefixb p (a ++ s) = false /\ nohit p a' s end.

Lemma option_map_plus0 (o : option nat) : option_map (plus 0) o = o.
Proof. destruct o; reflexivity. Qed.

Lemma find_skip p a s : nohit p a s ->
  find_sub p (a ++ s) = option_map (plus (length a)) (find_sub p s).
Proof.
  induction a as [|x a IH]; cbn [nohit]; intros H.
  - cbn [app length]. now rewrite option_map_plus0.
  - destruct H as [H0 H1]. change ((x :: a) ++ s) with (x :: (a ++ s)) in *.
    cbn [find_sub]. rewrite H0, (IH H1). destruct (find_sub p s); reflexivity.
Qed.

Lemma find_hit p s : prefixb p s = true -> find_sub p s = Some 0.
Proof. intros H. destruct s; cbn [find_sub]; now rewrite H. Qed.

Lemma nohit_lit q l s : Forall (fun x => x <> 37%N) l -> nohit (37%N :: q) l s.
Proof.
  induction l as [|x l IH]; intros H; cbn [nohit]; [exact I|].
  inversion H; subst. split; [|auto].
  change ((x :: l) ++ s) with (x :: (l ++ s)). cbn [prefixb].
  destruct (N.eqb_spec 37 x); [congruence|reflexivity].
Qed.

(* ---------------------------------------------------------------- items *)
Definition okconv (b : str) : Prop :=
  (exists c, b = [c]) \/ (exists m c, b = [m; c] /\ (m = 69 \/ m = 79)%N /\ c <> 37%N).
Definition shape (it : item) : Prop :=
  match it with
  | Lit l => l <> [] /\ Forall (fun x => x <> 37%N) l
  | Conv b => okconv b
  | Frac _ => True
  end.

Lemma classify_okconv b c : classify b = Some c -> okconv b.
Proof.
  destruct b as [|x [|y [|z b]]]; cbn [classify]; try discriminate.
  - intros _. left. eauto.
  - intros H. right. exists x, y. split; [reflexivity|].
    destruct (N.eqb_spec x 69) as [->|Hx].
    + split; [auto|]. intros ->. vm_compute in H. discriminate.
    + destruct (N.eqb_spec x 79) as [->|Hy]; [|discriminate].
      split; [auto|]. intros ->. vm_compute in H. discriminate.
Qed.

Lemma wf_item_shape it : wf_item it -> shape it.
Proof.
  destruct it as [l|b|k]; cbn; auto.
  intros (c & H & _). eapply classify_okconv; eauto.
Qed.

Lemma item_bytes_nonempty it : shape it -> item_bytes it <> [].
Proof. destruct it as [l|b|[]]; cbn; try discriminate. tauto. Qed.

Lemma flat_cons it r : flat (it :: r) = item_bytes it ++ flat r.
Proof. reflexivity. Qed.
Lemma flat_app a b : flat (a ++ b) = flat a ++ flat b.
Proof. unfold flat. apply flat_map_app. Qed.

Lemma flat_nil_inv items : Forall shape items -> flat items = [] -> items = [].
Proof.
  destruct items as [|it r]; [reflexivity|]. intros H E. inversion H; subst.
  rewrite flat_cons in E. apply app_eq_nil in E. destruct E as [E _].
  now apply item_bytes_nonempty in E.
Qed.

(* first byte of what follows *)
Definition hd_lit_starts (sp : N -> bool) (r : list item) : bool :=
  match r with nxt :: _ => lit_starts sp nxt | [] => false end.

Lemma adj_ok_cons sp it r :
  adj_ok sp (it :: r) = (negb (is_pp it) || negb (hd_lit_starts sp r)) && adj_ok sp r.
Proof. destruct r; cbn; [now rewrite orb_true_r | reflexivity]. Qed.

Lemma hd_flat_next sp c0 r : Forall shape r -> sp c0 = true -> c0 <> 37%N ->
  hd_lit_starts sp r = false -> hd_error (flat r) <> Some c0.
Proof.
  intros Hs Hsp Hc H. destruct r as [|nxt r]; [cbn; discriminate|].
  inversion Hs; subst. rewrite flat_cons. destruct nxt as [l|b|k]; cbn in *.
  - destruct l as [|y l]; [tauto|]. cbn. intros E. inversion E; subst. congruence.
  - intros E. inversion E. congruence.
  - destruct k; cbn; intros E; inversion E; congruence.
Qed.

(* an item that a search for 37 :: c0 :: tl steps over *)
Lemma nohit_item c0 tl it (s : str) :
  shape it ->
  (forall s', prefixb (37%N :: c0 :: tl) (item_bytes it ++ s') = false) ->
  (is_pp it = true -> hd_error s <> Some c0) ->
  nohit (37%N :: c0 :: tl) (item_bytes it) s.
Proof.
  intros Hsh Hhd Hpp. destruct it as [l|b|k].
  - apply nohit_lit. apply Hsh.
  - destruct Hsh as [[x ->]|(m & x & -> & Hm & Hx)].
    + cbn [item_bytes nohit]. split; [apply (Hhd s)|]. split; [|exact I].
      cbn [app prefixb]. destruct (N.eqb_spec 37 x) as [<-|]; [|reflexivity].
      cbn [andb]. specialize (Hpp eq_refl). destruct s as [|y s]; [reflexivity|].
      cbn [prefixb]. destruct (N.eqb_spec c0 y); [subst; cbn in Hpp; congruence|reflexivity].
    + cbn [item_bytes nohit]. split; [apply (Hhd s)|]. cbn [app prefixb].
      destruct (N.eqb_spec 37 m); [destruct Hm; subst; discriminate|].
      destruct (N.eqb_spec 37 x); [congruence|]. auto.
  - cbn [item_bytes]. destruct k; cbn [spec_name nohit]; (split; [apply (Hhd s)|]); cbn; auto.
Qed.

Fixpoint allmiss (p : str) (items : list item) (s : str) : Prop :=
  match items with [] => True | it :: r => nohit p (item_bytes it) (flat r ++ s) /\ allmiss p r s end.

Lemma find_allmiss p items s : allmiss p items s ->
  find_sub p (flat items ++ s) = option_map (plus (length (flat items))) (find_sub p s).
Proof.
  induction items as [|it r IH]; cbn [allmiss]; intros H.
  - cbn. now rewrite option_map_plus0.
  - destruct H as [H0 H1]. rewrite flat_cons, <- app_assoc, (find_skip _ _ _ H0), (IH H1).
    rewrite app_length. destruct (find_sub p s); cbn; [f_equal; lia|reflexivity].
Qed.

(* items before which the search pattern 37 :: c0 :: tl cannot match *)
Lemma allmiss_intro sp c0 tl pre rest :
  sp c0 = true -> c0 <> 37%N ->
  Forall shape (pre ++ rest) -> adj_ok sp (pre ++ rest) = true ->
  (forall it s', In it pre -> prefixb (37%N :: c0 :: tl) (item_bytes it ++ s') = false) ->
  allmiss (37%N :: c0 :: tl) pre (flat rest).
Proof.
  intros Hsp Hc. induction pre as [|it pre IH]; intros Hs Ha Hm; cbn [allmiss]; [exact I|].
  change ((it :: pre) ++ rest) with (it :: (pre ++ rest)) in *.
  inversion Hs; subst. rewrite adj_ok_cons in Ha. apply andb_true_iff in Ha. destruct Ha as [Ha1 Ha2].
  split.
  - rewrite <- flat_app. apply nohit_item; auto.
    + intros s'. apply Hm. now left.
    + intros Hp. rewrite Hp in Ha1. cbn in Ha1. apply negb_true_iff in Ha1.
      eapply hd_flat_next; eauto.
  - apply IH; auto. intros it' s' Hin. apply Hm. now right.
Qed.

Lemma adj_ok_app_r sp a b : adj_ok sp (a ++ b) = true -> adj_ok sp b = true.
Proof.
  induction a as [|x a IH]; [auto|]. change ((x :: a) ++ b) with (x :: (a ++ b)).
  rewrite adj_ok_cons. intros H. apply andb_true_iff in H. now apply IH.
Qed.

Lemma Forall_app_r {A} (P : A -> Prop) a b : Forall P (a ++ b) -> Forall P b.
Proof. intros H. apply Forall_app in H. tauto. Qed.
Lemma Forall_app_l {A} (P : A -> Prop) a b : Forall P (a ++ b) -> Forall P a.
Proof. intros H. apply Forall_app in H. tauto. Qed.

(* ---------------------------------------------------------------- two-byte searches *)
Definition is_conv1 (c0 : N) (it : item) : bool :=
  match it with Conv [c] => N.eqb c c0 | _ => false end.

Lemma is_conv1_true c0 it : is_conv1 c0 it = true -> it = Conv [c0].
Proof.
  destruct it as [|[|c [|]]|]; cbn; try discriminate. intros H. apply N.eqb_eq in H. now subst.
Qed.

Lemma head_miss2 c0 tl it s' : shape it -> c0 <> 37%N -> c0 <> 69%N -> c0 <> 79%N -> c0 <> 81%N ->
  is_conv1 c0 it = false -> prefixb (37%N :: c0 :: tl) (item_bytes it ++ s') = false.
Proof.
  intros Hs H37 H69 H79 H81 Hn. destruct it as [l|b|k].
  - destruct Hs as [Hne Hl]. destruct l as [|y l]; [tauto|]. inversion Hl; subst.
    cbn [item_bytes app prefixb].
    destruct (N.eqb_spec 37 y); [congruence|reflexivity].
  - destruct Hs as [[x ->]|(m & x & -> & Hm & Hx)]; cbn [item_bytes app prefixb is_conv1] in *.
    + rewrite N.eqb_sym in Hn. rewrite Hn. now rewrite N.eqb_refl.
    + rewrite N.eqb_refl. destruct (N.eqb_spec c0 m); [destruct Hm; congruence|reflexivity].
  - destruct k; cbn [item_bytes spec_name app prefixb]; rewrite N.eqb_refl;
      (destruct (N.eqb_spec c0 81); [congruence|reflexivity]).
Qed.

Definition letter_ok (c0 : N) : Prop := c0 <> 37%N /\ c0 <> 69%N /\ c0 <> 79%N /\ c0 <> 81%N.

Lemma find2_split sp c0 pre h rest :
  sp c0 = true -> letter_ok c0 ->
  Forall shape (pre ++ h :: rest) -> adj_ok sp (pre ++ h :: rest) = true ->
  Forall (fun it => is_conv1 c0 it = false) pre ->
  find_sub [37%N; c0] (flat (pre ++ h :: rest)) =
  option_map (plus (length (flat pre))) (find_sub [37%N; c0] (item_bytes h ++ flat rest)).
Proof.
  intros Hsp (H37 & H69 & H79 & H81) Hs Ha Hp.
  rewrite flat_app, flat_cons. apply (find_allmiss _ pre (item_bytes h ++ flat rest)).
  rewrite <- flat_cons. eapply allmiss_intro; eauto.
  intros it s' Hin. apply head_miss2; auto.
  - apply Forall_app_l in Hs. rewrite Forall_forall in Hs. auto.
  - rewrite Forall_forall in Hp. auto.
Qed.

Lemma find2_some sp c0 pre rest :
  sp c0 = true -> letter_ok c0 ->
  Forall shape (pre ++ Conv [c0] :: rest) -> adj_ok sp (pre ++ Conv [c0] :: rest) = true ->
  Forall (fun it => is_conv1 c0 it = false) pre ->
  find_sub [37%N; c0] (flat (pre ++ Conv [c0] :: rest)) = Some (length (flat pre)).
Proof.
  intros. erewrite find2_split; eauto. rewrite find_hit; [cbn; f_equal; lia|].
  cbn. now rewrite N.eqb_refl.
Qed.

Lemma find2_none sp c0 items :
  sp c0 = true -> letter_ok c0 ->
  Forall shape items -> adj_ok sp items = true ->
  Forall (fun it => is_conv1 c0 it = false) items ->
  find_sub [37%N; c0] (flat items) = None.
Proof.
  intros Hsp (H37 & H69 & H79 & H81) Hs Ha Hp.
  rewrite <- (app_nil_r (flat items)). rewrite find_allmiss; [reflexivity|].
  change (@nil N) with (flat []). eapply allmiss_intro; eauto; rewrite ?app_nil_r; auto.
  intros it s' Hin. apply head_miss2; auto; rewrite Forall_forall in *; auto.
Qed.

(* a different conversion at the split point: any later match lies strictly behind it *)
Lemma find2_later sp c0 c pre rest j :
  sp c0 = true -> letter_ok c0 -> c <> c0 ->
  Forall shape (pre ++ Conv [c] :: rest) -> adj_ok sp (pre ++ Conv [c] :: rest) = true ->
  Forall (fun it => is_conv1 c0 it = false) pre ->
  find_sub [37%N; c0] (flat (pre ++ Conv [c] :: rest)) = Some j -> length (flat pre) < j.
Proof.
  intros Hsp Hl Hc Hs Ha Hp. erewrite find2_split; eauto.
  cbn [item_bytes app].
  assert (E0 : find_sub [37%N; c0] (37%N :: c :: flat rest) = option_map S (find_sub [37%N; c0] (c :: flat rest))).
  { remember (c :: flat rest) as u. cbn [find_sub prefixb]. subst u.
    destruct (N.eqb_spec c0 c); [congruence|]. now rewrite andb_false_r. }
  rewrite E0. destruct (find_sub [37%N; c0] (c :: flat rest)); cbn [option_map]; [|discriminate].
  intros E. inversion E. lia.
Qed.

(* ---------------------------------------------------------------- _replace_all *)
Lemma repl2_skip c0 new a s : nohit [37%N; c0] a s ->
  repl2 37 c0 new (a ++ s) = a ++ repl2 37 c0 new s.
Proof.
  induction a as [|x a IH]; cbn [nohit]; intros H; [reflexivity|].
  destruct H as [H0 H1]. change ((x :: a) ++ s) with (x :: (a ++ s)) in *.
  cbn [repl2]. destruct (a ++ s) as [|y t] eqn:E.
  - apply app_eq_nil in E. destruct E as [-> ->]. reflexivity.
  - cbn [prefixb] in H0. rewrite (N.eqb_sym x), (N.eqb_sym y).
    rewrite andb_true_r in H0. rewrite H0. cbn [app]. f_equal. now apply IH.
Qed.

Lemma repl2_hit c0 new s : repl2 37 c0 new (37%N :: c0 :: s) = new ++ repl2 37 c0 new s.
Proof. cbn [repl2]. now rewrite !N.eqb_refl. Qed.

Definition subst (c0 : N) (newitems : list item) (items : list item) : list item :=
  flat_map (fun it => if is_conv1 c0 it then newitems else [it]) items.

Lemma repl2_flat sp c0 newitems items :
  sp c0 = true -> letter_ok c0 ->
  Forall shape items -> adj_ok sp items = true ->
  repl2 37 c0 (flat newitems) (flat items) = flat (subst c0 newitems items).
Proof.
  intros Hsp Hl. induction items as [|it r IH]; intros Hs Ha; [reflexivity|].
  inversion Hs; subst. pose proof Ha as Ha'. rewrite adj_ok_cons in Ha. apply andb_true_iff in Ha.
  destruct Ha as [Ha1 Ha2].
  cbn [subst flat_map]. fold (subst c0 newitems r). rewrite flat_cons, flat_app.
  destruct (is_conv1 c0 it) eqn:E.
  - apply is_conv1_true in E. subst it. cbn [item_bytes app]. rewrite repl2_hit, IH; auto.
  - rewrite repl2_skip.
    + rewrite IH; auto. cbn [flat flat_map]. now rewrite app_nil_r.
    + destruct Hl as (H37 & H69 & H79 & H81). apply nohit_item; auto.
      * intros s'. apply head_miss2; auto.
      * intros Hp. rewrite Hp in Ha1. cbn in Ha1. apply negb_true_iff in Ha1.
        eapply hd_flat_next; eauto.
Qed.

(* the substitution keeps shape and adjacency when the new items start with a conversion and
   contain no literal percent sign *)
Lemma subst_shape c0 newitems items : Forall shape newitems -> Forall shape items ->
  Forall shape (subst c0 newitems items).
Proof.
  intros Hn Hs. unfold subst. apply Forall_flat_map. rewrite Forall_forall in *.
  intros it Hin. destruct (is_conv1 c0 it); rewrite Forall_forall; [auto|].
  intros x [<-|[]]. auto.
Qed.

Lemma adj_ok_nopp sp a b : Forall (fun it => is_pp it = false) a -> adj_ok sp (a ++ b) = adj_ok sp b.
Proof.
  induction a as [|x a IH]; intros H; [reflexivity|]. inversion H; subst.
  change ((x :: a) ++ b) with (x :: (a ++ b)). rewrite adj_ok_cons, H2. cbn. now apply IH.
Qed.

Lemma subst_adj sp c0 b0 newitems items :
  c0 <> 37%N -> Forall (fun it => is_pp it = false) (Conv b0 :: newitems) ->
  adj_ok sp items = true -> adj_ok sp (subst c0 (Conv b0 :: newitems) items) = true.
Proof.
  intros Hc Hn. induction items as [|it r IH]; intros Ha; [reflexivity|].
  rewrite adj_ok_cons in Ha. apply andb_true_iff in Ha. destruct Ha as [Ha1 Ha2].
  cbn [subst flat_map]. fold (subst c0 (Conv b0 :: newitems) r).
  assert (Hhd : hd_lit_starts sp (subst c0 (Conv b0 :: newitems) r) = hd_lit_starts sp r).
  { destruct r as [|nxt r']; [reflexivity|]. cbn [subst flat_map].
    destruct (is_conv1 c0 nxt) eqn:E; [|reflexivity].
    apply is_conv1_true in E. subst. reflexivity. }
  destruct (is_conv1 c0 it) eqn:E.
  - rewrite adj_ok_nopp; auto.
  - cbn [app]. rewrite adj_ok_cons, Hhd, Ha1. cbn. auto.
Qed.
