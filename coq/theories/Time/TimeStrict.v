(* C13, the repaired constructor (model flag strict = true): what the scan of StringFromTime::init
   ([unpatch]) computes on strftime's own tokenisation of a format, and what the repeated-specifier
   test of TimestampFormatter ([dup_spec]) computes.  Byte-level and token-level lemmas only; the
   item-level theorems are in TimeTF.v. *)
From Coq Require Import List NArith ZArith Bool Arith Lia.
From Quill Require Import Time.TimeModel Time.TimeSpec Time.TimeStrings.
Import ListNotations.

(* ---------------------------------------------------------------- tokens of the scan *)
(* a conversion as glibc reads it: '%', flags / width / E / O (all in skip_chars), one final byte *)
Definition tok_conv (b : str) : Prop :=
  exists p c, b = p ++ [c] /\ Forall (fun x => memN x skip_chars = true) p /\ memN c skip_chars = false.
Definition tok_item (it : item) : Prop :=
  match it with
  | Lit l => Forall (fun x => x <> 37%N) l
  | Conv b => tok_conv b
  | Frac _ => True
  end.

(* the conversions init() throws on: %c, and a time-of-day letter behind a flag, a width, E or O *)
Definition fine_conv (b : str) : bool :=
  let c := last b 0%N in
  N.eqb c 99 || (negb (Nat.eqb (length b) 1) && memN c time_chars).
Definition fine_item (it : item) : bool := match it with Conv b => fine_conv b | _ => false end.

Lemma memN_in x l : memN x l = true -> In x l.
Proof.
  unfold memN. rewrite existsb_exists. intros (y & Hy & E). apply N.eqb_eq in E. now subst.
Qed.

Lemma unpatch_lit l s : Forall (fun x => x <> 37%N) l -> unpatch None (l ++ s) = unpatch None s.
Proof.
  induction l as [|x l IH]; intros H; [reflexivity|]. inversion H; subst.
  change ((x :: l) ++ s) with (x :: (l ++ s)). cbn [unpatch].
  destruct (N.eqb_spec x 37); [congruence|]. auto.
Qed.

Lemma unpatch_skip m p c s :
  Forall (fun x => memN x skip_chars = true) p -> memN c skip_chars = false ->
  unpatch (Some m) (p ++ c :: s) =
  if N.eqb c 99 || ((m || negb (Nat.eqb (length p) 0)) && memN c time_chars) then true else unpatch None s.
Proof.
  intros Hp Hc. revert m. induction p as [|x p IH]; intros m.
  - cbn [app unpatch length Nat.eqb negb]. rewrite Hc, orb_false_r. reflexivity.
  - inversion Hp; subst. change ((x :: p) ++ c :: s) with (x :: (p ++ c :: s)).
    cbn [unpatch]. rewrite H1, (IH H2 true). cbn [length Nat.eqb negb orb]. now rewrite orb_true_r.
Qed.

Lemma last_snoc (p : str) c : last (p ++ [c]) 0%N = c.
Proof. induction p as [|x p IH]; [reflexivity|]. cbn [app]. destruct (p ++ [c]) eqn:E; [destruct p; discriminate|exact IH]. Qed.

Lemma unpatch_conv b s : tok_conv b ->
  unpatch None (37%N :: b ++ s) = fine_conv b || unpatch None s.
Proof.
  intros (p & c & -> & Hp & Hc). cbn [unpatch]. rewrite N.eqb_refl, <- app_assoc. cbn [app].
  rewrite (unpatch_skip false p c s Hp Hc). unfold fine_conv. rewrite last_snoc, app_length. cbn [length orb].
  replace (Nat.eqb (length p + 1) 1) with (Nat.eqb (length p) 0) by (destruct (length p) as [|[|]]; reflexivity).
  destruct (N.eqb c 99 || negb (Nat.eqb (length p) 0) && memN c time_chars); reflexivity.
Qed.

Lemma unpatch_frac k s : unpatch None (spec_name k ++ s) = unpatch None s.
Proof. destruct k; reflexivity. Qed.

Lemma unpatch_item it s : tok_item it ->
  unpatch None (item_bytes it ++ s) = fine_item it || unpatch None s.
Proof.
  destruct it as [l|b|k]; cbn [tok_item item_bytes fine_item orb]; intros H.
  - now apply unpatch_lit.
  - change ((37%N :: b) ++ s) with (37%N :: b ++ s). now apply unpatch_conv.
  - apply unpatch_frac.
Qed.

(* the scan on a token list: it throws iff one of the conversions is a fine one *)
Lemma unpatch_items items s : Forall tok_item items ->
  unpatch None (flat items ++ s) = existsb fine_item items || unpatch None s.
Proof.
  induction items as [|it r IH]; intros H; [reflexivity|]. inversion H; subst.
  rewrite flat_cons, <- app_assoc, unpatch_item, IH by auto. cbn [existsb]. now rewrite orb_assoc.
Qed.

Lemma unpatchable_items items : Forall tok_item items ->
  unpatchable (flat items) = existsb fine_item items.
Proof.
  intros H. unfold unpatchable. rewrite <- (app_nil_r (flat items)), unpatch_items by auto.
  cbn [unpatch]. apply orb_false_r.
Qed.

(* ---------------------------------------------------------------- the classified universe *)
Lemma skip_not_classified1 x c : memN x skip_chars = true -> classify [x] = Some c -> False.
Proof.
  intros H. apply memN_in in H. cbn [skip_chars In] in H.
  repeat (destruct H as [<-|H]; [vm_compute; discriminate|]). destruct H.
Qed.

Lemma skip_not_classified2 m x c : (m = 69 \/ m = 79)%N -> memN x skip_chars = true -> classify [m; x] = Some c -> False.
Proof.
  intros Hm H. apply memN_in in H. cbn [skip_chars In] in H.
  destruct Hm; subst; repeat (destruct H as [<-|H]; [vm_compute; discriminate|]); destruct H.
Qed.

Lemma classify_tok b c : classify b = Some c -> tok_conv b.
Proof.
  intros H. destruct (classify_okconv _ _ H) as [[x ->]|(m & x & -> & Hm & Hx)].
  - exists [], x. split; [reflexivity|]. split; [constructor|].
    destruct (memN x skip_chars) eqn:E; [|reflexivity]. exfalso. eapply skip_not_classified1; eauto.
  - exists [m], x. split; [reflexivity|]. split.
    + constructor; [|constructor]. destruct Hm; subst; reflexivity.
    + destruct (memN x skip_chars) eqn:E; [|reflexivity]. exfalso. eapply skip_not_classified2; eauto.
Qed.

Lemma time_not_ok2 m x c : (m = 69 \/ m = 79)%N -> N.eqb x 99 || memN x time_chars = true ->
  classify [m; x] = Some c -> ok_cls c = false.
Proof.
  intros Hm H. apply orb_true_iff in H. destruct H as [H|H].
  - apply N.eqb_eq in H. subst. destruct Hm; subst; vm_compute; intros E; inversion E; reflexivity.
  - apply memN_in in H. cbn [time_chars In] in H.
    destruct Hm; subst; repeat (destruct H as [<-|H]; [vm_compute; intros E; inversion E; reflexivity|]); destruct H.
Qed.

Lemma wf_tok it : wf_item it -> tok_item it.
Proof.
  destruct it as [l|b|k]; cbn [wf_item tok_item]; [tauto| |tauto].
  intros (c & H & _). eapply classify_tok; eauto.
Qed.

Lemma wf_not_fine it : wf_item it -> fine_item it = false.
Proof.
  destruct it as [l|b|k]; cbn [wf_item fine_item]; [reflexivity| |reflexivity].
  intros (c & H & Hok). destruct (classify_okconv _ _ H) as [[x ->]|(m & x & -> & Hm & Hx)].
  - unfold fine_conv. cbn [last length Nat.eqb negb andb]. rewrite orb_false_r.
    destruct (N.eqb_spec x 99) as [->|]; [|reflexivity]. vm_compute in H. inversion H; subst. discriminate.
  - unfold fine_conv. cbn [last length Nat.eqb negb andb].
    destruct (N.eqb x 99 || memN x time_chars) eqn:E; [|reflexivity].
    rewrite (time_not_ok2 m x c Hm E H) in Hok. discriminate.
Qed.

(* a pattern of the theorems' universe passes the scan *)
Lemma unpatchable_wf items : Forall wf_item items -> unpatchable (flat items) = false.
Proof.
  intros H. rewrite unpatchable_items by (eapply Forall_impl; [|exact H]; apply wf_tok).
  destruct (existsb fine_item items) eqn:E; [|reflexivity].
  apply existsb_exists in E. destruct E as (it & Hin & Hf). rewrite Forall_forall in H.
  rewrite (wf_not_fine it (H it Hin)) in Hf. discriminate.
Qed.

Lemma unpatchable_in items it : Forall tok_item items -> In it items -> fine_item it = true ->
  unpatchable (flat items) = true.
Proof.
  intros H Hin Hf. rewrite unpatchable_items by auto. apply existsb_exists. eauto.
Qed.

(* ---------------------------------------------------------------- init under strict *)
Lemma sft_init_unpatchable f : unpatchable f = true -> sft_init true f = None.
Proof. intros H. unfold sft_init. destruct (find_sub m_X f); [reflexivity|]. now rewrite H. Qed.

Lemma sft_init_some_inv strict f st : sft_init strict f = Some st ->
  find_sub m_X f = None /\ (strict = true -> unpatchable f = false).
Proof.
  unfold sft_init. destruct (find_sub m_X f); [discriminate|]. intros H. split; [reflexivity|].
  intros ->. cbn [andb] in H. destruct (unpatchable f); [discriminate|reflexivity].
Qed.

Lemma sft_init_relax f : unpatchable f = false -> forall strict, sft_init strict f = sft_init false f.
Proof. intros H strict. unfold sft_init. rewrite H, andb_false_r. reflexivity. Qed.

(* ---------------------------------------------------------------- the same specifier again *)
Lemma prefixb_app' p s : prefixb p (p ++ s) = true.
Proof. induction p as [|x p IH]; cbn; [reflexivity|]. now rewrite N.eqb_refl, IH. Qed.

Lemma find_sub_app_some p a b : exists i, find_sub p (a ++ p ++ b) = Some i /\ i <= length a.
Proof.
  induction a as [|x a IH].
  - exists 0. split; [|cbn; lia]. cbn [app]. apply find_hit. apply prefixb_app'.
  - change ((x :: a) ++ p ++ b) with (x :: (a ++ p ++ b)). cbn [find_sub].
    destruct (prefixb p (x :: a ++ p ++ b)); [exists 0; split; [reflexivity|lia]|].
    destruct IH as (i & -> & Hi). exists (S i). split; [reflexivity|cbn; lia].
Qed.

Lemma skipn_app_le {A} n (a b : list A) : n <= length a -> skipn n (a ++ b) = skipn n a ++ b.
Proof. intros H. rewrite skipn_app. replace (n - length a) with 0 by lia. reflexivity. Qed.

Lemma firstn_skipn_mid {A} n (a : list A) : n <= length a -> exists u v, a = u ++ v /\ length u = n /\ skipn n a = v.
Proof.
  intros H. exists (firstn n a), (skipn n a). split; [symmetry; apply firstn_skipn|].
  split; [rewrite firstn_length; lia|reflexivity].
Qed.

(* the second occurrence lies behind the end of the first one *)
Lemma find_sub_again p a b c i : find_sub p (a ++ p ++ b ++ p ++ c) = Some i ->
  find_sub p (skipn (i + length p) (a ++ p ++ b ++ p ++ c)) <> None.
Proof.
  intros H. destruct (find_sub_app_some p a (b ++ p ++ c)) as (j & Hj & Hle).
  rewrite H in Hj. inversion Hj; subst j.
  replace (a ++ p ++ b ++ p ++ c) with ((a ++ p ++ b) ++ p ++ c) by (now rewrite <- !app_assoc).
  rewrite skipn_app_le by (rewrite !app_length; lia).
  destruct (find_sub_app_some p (skipn (i + length p) (a ++ p ++ b)) c) as (j & -> & _). discriminate.
Qed.
