(* C13: the statements handed to Props/Properties_C13.v *)
From Coq Require Import List NArith ZArith Bool Arith Lia.
From Quill Require Import Time.TimeModel Time.TimeSpec Time.TimeStrings Time.TimeStrict Time.TimeInit Time.TimeDigits
  Time.TimeProofs Time.TimeTF Time.TimeRefute.
Import ListNotations.

Definition instants_ok (items1 items2 : list item) (strf : str -> Z -> str) (nss : list Z) : Prop :=
  Forall (fun ns => (0 <= ns)%Z) nss /\
  (uses_s (items1 ++ items2) -> H2s strf /\ Forall (fun ns => ten_digit (ns / 1000000000)) nss).

(* [strict] = the code variant (true = the repaired constructor, false = the pinned earlier one);
   the main theorems hold for both *)
Definition renders_like_strftime (strict local : bool) (strf : str -> Z -> str) (sodf : Z -> N)
  (items1 : list item) (k : option fkind) (items2 : list item) (nss : list Z) : Prop :=
  exists x, tf_init strict (pattern_of items1 k items2) = inl x /\
            tf_run strf sodf local x nss = map (ref_render strf items1 k items2) nss.

Lemma c13_gmt strf sodf off zid :
  H1 strf -> H2 strf sodf off -> H3 strf off zid -> zone_gmt off zid ->
  forall strict items1 k items2 nss, wf_items items1 -> wf_items items2 -> instants_ok items1 items2 strf nss ->
  renders_like_strftime strict false strf sodf items1 k items2 nss.
Proof.
  intros h1 h2 h3 hz strict items1 k items2 nss W1 W2 [Hn Hs].
  eapply (tf_main strf sodf false off zid h1 h2 h3 (hstab_gmt off zid hz)); eauto.
Qed.

Lemma c13_local strf sodf off zid :
  H1 strf -> H2 strf sodf off -> H3 strf off zid -> zone_ok off zid ->
  forall strict items1 k items2 nss, wf_items items1 -> wf_items items2 -> instants_ok items1 items2 strf nss ->
  renders_like_strftime strict true strf sodf items1 k items2 nss.
Proof.
  intros h1 h2 h3 hz strict items1 k items2 nss W1 W2 [Hn Hs].
  eapply (tf_main strf sodf true off zid h1 h2 h3 (hstab_local off zid hz)); eauto.
Qed.

Lemma c13_frac buf k ns : (0 <= ns)%Z ->
  write_frac buf (frac_width k)
    (Z.to_N ((ns - ns / 1000000000 * 1000000000) mod 4294967296) / frac_unit k) = buf ++ frac_digits k ns /\
  length (frac_digits k ns) = frac_width k /\
  digits_value (frac_digits k ns) = (Z.to_N (ns mod 1000000000) / frac_unit k)%N /\
  Forall (fun d => 48 <= d <= 57)%N (frac_digits k ns).
Proof. intros H. split; [now apply frac_written|now apply frac_spec]. Qed.

Lemma c13_rejects :
  (forall strict items k1 k2, k1 <> k2 -> In (Frac k1) items -> In (Frac k2) items ->
     tf_init strict (flat items) = inr ErrExclusive) /\
  (forall strict items1 k items2,
     Forall wf_itemX items1 -> Forall wf_itemX items2 ->
     adj_ok sp_special items1 = true -> adj_ok sp_special items2 = true ->
     In (Conv [88%N]) (match k with Some _ => items1 ++ items2 | None => items1 end) ->
     tf_init strict (pattern_of items1 k items2) = inr ErrX) /\
  (forall a k b c, tf_init true (flat (a ++ Frac k :: b ++ Frac k :: c)) = inr ErrExclusive).
Proof. split; [exact rejects_two_kinds|]. split; [exact rejects_X|exact rejects_same_twice]. Qed.

(* what "the segment handed to StringFromTime is clean" means *)
Definition clean_segment (f : str) : Prop := find_sub m_X f = None /\ unpatchable f = false.

Lemma c13_rejects_unpatchable :
  (forall items1 k items2 b,
     Forall wf_itemF items1 -> Forall wf_itemF items2 ->
     adj_ok sp_special items1 = true -> adj_ok sp_special items2 = true ->
     classify b = Some Fine ->
     In (Conv b) (match k with Some _ => items1 ++ items2 | None => items1 end) ->
     tf_init true (pattern_of items1 k items2) = inr ErrX) /\
  (forall items p c,
     Forall tok_item items -> Forall (fun x => memN x skip_chars = true) p ->
     (c = 99%N \/ (p <> [] /\ memN c time_chars = true)) ->
     In (Conv (p ++ [c])) items -> sft_init true (flat items) = None) /\
  (forall items, Forall tok_item items -> unpatchable (flat items) = existsb fine_item items) /\
  (forall f x, tf_init true f = inl x ->
     (tspec x = None /\ clean_segment f) \/
     (exists k f1 f2, tspec x = Some k /\ f = f1 ++ spec_name k ++ f2 /\
        clean_segment f1 /\ clean_segment f2 /\ find_sub (spec_name k) f2 = None)).
Proof.
  split; [exact rejects_fine|]. split; [exact flagged_rejected_gen|]. split; [exact unpatchable_items|].
  intros f x H. destruct (accept_inv f x H) as [(A & B & C)|(k & f1 & f2 & A & B & C & D & E & F & G)].
  - left. repeat split; auto.
  - right. exists k, f1, f2. repeat split; auto.
Qed.

Definition stale_second (strf : str -> Z -> str) (sodf : Z -> N) (local : bool) (b : str) (t1 t2 : Z) : Prop :=
  exists st, sft_init false (37%N :: b) = Some st /\
             nth 1 (sft_run strf sodf local st [t1; t2]) [] <> strf (37%N :: b) t2.

Lemma c13_fine_pinned :
  Forall (fun b => classify b = Some Fine) fine_bodies /\
  (forall b, In b fine_bodies -> sft_init true (37%N :: b) = None) /\
  forall strf sodf local b t1 t2, In b fine_bodies ->
    (0 <= t1 <= t2)%Z -> (t2 < next_recalc local t1)%Z ->
    strf (37%N :: b) t1 <> strf (37%N :: b) t2 -> stale_second strf sodf local b t1 t2.
Proof. split; [exact fine_classified|]. split; [exact fine_rejected|exact fine_refuted]. Qed.

Lemma c13_flagged_pinned :
  (forall b, In b flagged_bodies -> sft_init true (37%N :: b) = None) /\
  forall strf sodf local b t1 t2, In b flagged_bodies ->
    (0 <= t1 <= t2)%Z -> (t2 < next_recalc local t1)%Z ->
    strf (37%N :: b) t1 <> strf (37%N :: b) t2 -> stale_second strf sodf local b t1 t2.
Proof. split; [exact flagged_rejected|exact flagged_refuted]. Qed.

Lemma c13_same_spec_pinned :
  (forall k, tf_init true (spec_name k ++ spec_name k) = inr ErrExclusive) /\
  exists x b, tf_init false (spec_name Qms ++ spec_name Qms) = inl x /\ tp2 x = Some b /\ tfmt b = spec_name Qms.
Proof. split; [exact same_spec_rejected|exact same_spec_refuted]. Qed.

(* the hypotheses of c13_gmt / c13_local hold together for a concrete oracle, and the theorems
   then speak about a concrete pattern: "%Y-%m-%d %H:%M:%S.%Qms %p" *)
Lemma c13_gmt_nonvacuous :
  H1 (mini 0) /\ H2 (mini 0) (msod 0) (fun _ => 0%Z) /\ H3 (mini 0) (fun _ => 0%Z) (fun _ => 0%Z) /\
  zone_gmt (fun _ => 0%Z) (fun _ => 0%Z) /\ H2s (mini 0) /\ wf_items ex_items1 /\ wf_items ex_items2 /\
  instants_ok ex_items1 ex_items2 (mini 0) [1000000000123456789; 1000000001000000000; 999999999000000001]%Z.
Proof.
  split; [apply mini_H1|]. split; [apply mini_H2|]. split; [apply mini_H3|]. split; [apply mini_zone_gmt|].
  split; [apply mini_H2s|]. split; [apply ex_wf1|]. split; [apply ex_wf2|]. split.
  - repeat constructor; lia.
  - intros U. exfalso. unfold uses_s in U. cbn in U. repeat (destruct U as [U|U]; [discriminate|]). destruct U.
Qed.

Lemma c13_local_nonvacuous :
  H1 (mini 20700) /\ H2 (mini 20700) (msod 20700) (fun _ => 20700%Z) /\
  H3 (mini 20700) (fun _ => 20700%Z) (fun _ => 0%Z) /\
  zone_ok (fun _ => 20700%Z) (fun _ => 0%Z) /\ wf_items ex_items1 /\ wf_items ex_items2.
Proof.
  split; [apply mini_H1|]. split; [apply mini_H2|]. split; [apply mini_H3|]. split; [apply mini_zone_ok|].
  split; [apply ex_wf1|apply ex_wf2].
Qed.

(* the theorem instantiated: what the model prints for the example under the concrete oracle *)
Lemma c13_gmt_example : forall strict,
  exists x, tf_init strict (pattern_of ex_items1 (Some Qms) ex_items2) = inl x /\
    nth 0 (tf_run (mini 0) (msod 0) false x [1000000000123456789; 1000000001000000000; 999999999000000001]%Z) []
    = (* ?-?-? 01:46:40.123 ? *) [63;45;63;45;63;32;48;49;58;52;54;58;52;48;46;49;50;51;32;63]%N.
Proof.
  intros strict. destruct c13_gmt_nonvacuous as (a & b & c & d & _ & e & f & g).
  destruct (c13_gmt _ _ _ _ a b c d strict ex_items1 (Some Qms) ex_items2 _ e f g) as (x & E & R).
  exists x. split; [exact E|]. rewrite R. vm_compute. reflexivity.
Qed.
