(* M-TIME: executable model of quill::detail::StringFromTime (include/quill/backend/StringFromTime.h)
   and quill::detail::TimestampFormatter (include/quill/backend/TimestampFormatter.h), v9.0.2.
   Definitions only (no proofs) so that the extracted model still runs when a proof breaks.

   libc is an ORACLE: [strf f t] stands for _safe_strftime(f, t, zone) on a non-empty format
   (gmtime_r/localtime_r followed by strftime), [sodf t] for tm_hour*3600 + tm_min*60 + tm_sec of
   the same broken-down time.  Both are Section variables; in the extracted runner they are
   closures over a table the harness fills from the real libc (see [time_run_enc]).

   Strings are byte lists ([list N]); time_t / int64 values are [Z]; uint32 values are [N] with
   explicit [mod 2^32] where the C++ code casts. *)
From Coq Require Import List NArith ZArith Bool Arith.
Import ListNotations.

Definition str := list N.

(* ------------------------------------------------------------------ std::string primitives *)
Fixpoint prefixb (p s : str) : bool :=
  match p, s with
  | [], _ => true
  | a :: p', b :: s' => N.eqb a b && prefixb p' s'
  | _ :: _, [] => false
  end.

(* std::string::find(p): index of the first occurrence *)
Fixpoint find_sub (p s : str) : option nat :=
  if prefixb p s then Some 0 else
  match s with
  | [] => None
  | _ :: s' => option_map S (find_sub p s')
  end.

Fixpoint str_eqb (a b : str) : bool :=
  match a, b with
  | [], [] => true
  | x :: a', y :: b' => N.eqb x y && str_eqb a' b'
  | _, _ => false
  end.

(* _replace_all(str, old, new) for a two-byte [old] = [a;b]: left-to-right, non-overlapping,
   the search resumes right after the inserted text *)
Fixpoint repl2 (a b : N) (new s : str) : str :=
  match s with
  | [] => []
  | x :: s' =>
    match s' with
    | [] => s
    | y :: s'' => if N.eqb x a && N.eqb y b then new ++ repl2 a b new s'' else x :: repl2 a b new s'
    end
  end.

(* ------------------------------------------------------------------ number formatting (libfmt) *)
(* decimal digits of n, most significant first, no leading zeros ("0" for 0); 20 digits of fuel
   cover every 64-bit value *)
Fixpoint decf (fuel : nat) (n : N) : str :=
  match fuel with
  | 0 => []
  | S f => if N.ltb n 10 then [48 + n]%N else decf f (n / 10)%N ++ [48 + n mod 10]%N
  end.
Definition dec (n : N) : str := decf 20 n.
Definition dec_Z (z : Z) : str := if Z.ltb z 0 then 45%N :: dec (Z.to_N (- z)) else dec (Z.to_N z).

(* "{:0w}" / "{:w}" on an integer: right aligned, padded on the left *)
Definition fmt_pad (w : nat) (padc : N) (digits : str) : str := repeat padc (w - length digits) ++ digits.

(* format_to(&s[i], ...): overwrite in place starting at index i *)
Definition overwrite (i : nat) (b s : str) : str := firstn i s ++ b ++ skipn (i + length b) s.

(* ------------------------------------------------------------------ format strings used by init *)
Definition c_pct : N := 37.  (* % *)
Definition m_H : str := [37;72]%N.   Definition m_M : str := [37;77]%N.   Definition m_S : str := [37;83]%N.
Definition m_I : str := [37;73]%N.   Definition m_k : str := [37;107]%N.  Definition m_l : str := [37;108]%N.
Definition m_s : str := [37;115]%N.  Definition m_X : str := [37;88]%N.
Definition new_r : str := [37;73;58;37;77;58;37;83;32;37;112]%N.   (* %I:%M:%S %p *)
Definition new_R : str := [37;72;58;37;77]%N.                      (* %H:%M *)
Definition new_T : str := [37;72;58;37;77;58;37;83]%N.             (* %H:%M:%S *)

(* the loop init() runs over the format (repaired code):
     for (pos = find('%'); pos != npos;) {
       end = find_first_not_of("-_0^#123456789EO", pos + 1);  if (end == npos) break;
       if (f[end] == 'c' || (end != pos + 1 && "HMSIklsrRTX" contains f[end])) throw;
       pos = find('%', end + 1); }
   [st] = None while looking for the next '%'; Some m after one, m = "something was skipped". *)
Definition skip_chars : list N := [45;95;48;94;35;49;50;51;52;53;54;55;56;57;69;79]%N.   (* -_0^#123456789EO *)
Definition time_chars : list N := [72;77;83;73;107;108;115;114;82;84;88]%N.             (* HMSIklsrRTX *)
Definition memN (x : N) (l : list N) : bool := existsb (N.eqb x) l.
Fixpoint unpatch (st : option bool) (s : str) : bool :=
  match s with
  | [] => false
  | x :: s' =>
    match st with
    | None => unpatch (if N.eqb x 37 then Some false else None) s'
    | Some m => if memN x skip_chars then unpatch (Some true) s'
                else if N.eqb x 99 || (m && memN x time_chars) then true
                else unpatch None s'
    end
  end.
Definition unpatchable (f : str) : bool := unpatch None f.

Inductive ftype := fH | fM | fS | fI | fk | fl | fs.

Definition modifiers : list (str * ftype) :=
  [(m_H, fH); (m_M, fM); (m_S, fS); (m_I, fI); (m_k, fk); (m_l, fl); (m_s, fs)].

(* init(): the three rewrites, in the order of the source *)
Definition rewrite_fmt (f : str) : str :=
  repl2 37 84 new_T (repl2 37 82 new_R (repl2 37 114 new_r f)).

(* _split_timestamp_format_once: std::map<index, modifier> over the seven finds, begin() = the
   smallest index (emplace keeps the first entry on an equal key) *)
Definition first_mod_step (s : str) (acc : option (nat * str)) (m : str * ftype) : option (nat * str) :=
  match find_sub (fst m) s with
  | Some i => match acc with
              | Some (j, _) => if Nat.ltb i j then Some (i, fst m) else acc
              | None => Some (i, fst m)
              end
  | None => acc
  end.
Definition first_mod (s : str) : option (nat * str) := fold_left (first_mod_step s) modifiers None.

(* _populate_initial_parts: do { split once } while (found) *)
Fixpoint parts_of (fuel : nat) (s : str) : list str :=
  match fuel with
  | 0 => []
  | S f =>
    match first_mod s with
    | None => match s with [] => [] | _ => [s] end
    | Some (i, m) => (match i with 0 => [] | _ => [firstn i s] end) ++ [m] ++ parts_of f (skipn (i + 2) s)
    end
  end.

Definition ftype_of (p : str) : option ftype :=
  if str_eqb p m_H then Some fH else if str_eqb p m_M then Some fM else if str_eqb p m_S then Some fS
  else if str_eqb p m_I then Some fI else if str_eqb p m_k then Some fk else if str_eqb p m_l then Some fl
  else if str_eqb p m_s then Some fs else None.

Definition fwidth (ty : ftype) : nat := match ty with fs => 10 | _ => 2 end.

Definition two32 : N := 4294967296.

(* the value written at a cached index *)
Definition hour12 (h : N) : N := if N.eqb h 0 then 12%N else if N.ltb 12 h then (h - 12)%N else h.
Definition field (ty : ftype) (h m s : N) (ts : Z) : str :=
  match ty with
  | fH => fmt_pad 2 48 (dec h)
  | fM => fmt_pad 2 48 (dec m)
  | fS => fmt_pad 2 48 (dec s)
  | fI => fmt_pad 2 48 (dec (hour12 h))
  | fl => fmt_pad 2 32 (dec (hour12 h))
  | fk => fmt_pad 2 32 (dec h)
  | fs => fmt_pad 10 32 (dec_Z ts)
  end.

Record sft := { parts : list str; tfmt : str; pre : str; idxs : list (nat * ftype);
                next : Z; cts : Z; csec : N }.

Definition patch_step (h m s : N) (ts : Z) (acc : str) (ix : nat * ftype) : str :=
  overwrite (fst ix) (field (snd ix) h m s ts) acc.

Section Model.
Variable strf : str -> Z -> str.
Variable sodf : Z -> N.
Variable local : bool.     (* Timezone::LocalTime / Timezone::GmtTime *)

(* _safe_strftime returns "" for the empty format without calling strftime *)
Definition safe_strf (f : str) (t : Z) : str := match f with [] => [] | _ => strf f t end.

(* init(); None = QUILL_THROW (%X; under [strict] also an unpatchable conversion, see [unpatch]).
   [strict] selects the code variant: true = init() scans the format for conversions that embed the
   time of day but are not patched in the cached string and throws (the repair of D8 / N3);
   false = the pinned earlier behaviour, where only the substring "%X" is looked for. *)
Definition sft_init (strict : bool) (f : str) : option sft :=
  match find_sub m_X f with
  | Some _ => None
  | None => if strict && unpatchable f then None else
            let f' := rewrite_fmt f in
            Some {| parts := parts_of (S (length f')) f'; tfmt := f'; pre := []; idxs := [];
                    next := 0; cts := 0; csec := 0 |}
  end.

(* _populate_pre_formatted_string_and_cached_indexes: the loop over _initial_parts *)
Fixpoint build (ps : list str) (t : Z) (p : str) (ix : list (nat * ftype)) : str * list (nat * ftype) :=
  match ps with
  | [] => (p, ix)
  | q :: ps' =>
    let p' := p ++ safe_strf q t in
    build ps' t p' (match ftype_of q with Some ty => ix ++ [(length p' - fwidth ty, ty)] | None => ix end)
  end.

(* _next_quarter_hour_timestamp (integer division truncates) / _next_noon_or_midnight_timestamp
   (gmtime_r, set 11:59:59 or 23:59:59, timegm, + 1 = the next multiple of 43200 above t) *)
Definition next_recalc (t : Z) : Z :=
  if local then (Z.quot t 900) * 900 + 900 else (t / 43200 + 1) * 43200.

Definition sft_format (st : sft) (t : Z) : sft * str :=
  if Z.ltb t (cts st) then (st, safe_strf (tfmt st) t)
  else
    let st1 := if Z.leb (next st) t
               then let (p, ix) := build (parts st) t [] [] in
                    {| parts := parts st; tfmt := tfmt st; pre := p; idxs := ix;
                       next := next_recalc t; cts := t; csec := (sodf t mod two32)%N |}
               else st in
    match idxs st1 with
    | [] => (st1, pre st1)
    | _ :: _ =>
      if Z.eqb (cts st1) t then (st1, pre st1)
      else
        let diff := (Z.to_N ((t - cts st1) mod 4294967296))%Z in
        let cs := ((csec st1 + diff) mod two32)%N in
        let h := (cs / 3600)%N in
        let r := (cs - h * 3600)%N in
        let m := (r / 60)%N in
        let s := (r - m * 60)%N in
        let p := fold_left (patch_step h m s t) (idxs st1) (pre st1) in
        ({| parts := parts st1; tfmt := tfmt st1; pre := p; idxs := idxs st1;
            next := next st1; cts := t; csec := cs |}, p)
    end.

(* ------------------------------------------------------------------ TimestampFormatter *)
Inductive fkind := Qms | Qus | Qns.
Definition spec_name (k : fkind) : str :=
  match k with Qms => [37;81;109;115]%N | Qus => [37;81;117;115]%N | Qns => [37;81;110;115]%N end.

Record tfm := { tspec : option fkind; tp1 : sft; tp2 : option sft }.

Inductive tf_err := ErrExclusive | ErrX.

(* the three searches of the constructor; None = "mutually exclusive" error *)
Definition tf_search (f : str) : option (option (fkind * nat)) :=
  let s1 := match find_sub (spec_name Qms) f with Some i => Some (Qms, i) | None => None end in
  match (match find_sub (spec_name Qus) f with
         | Some i => match s1 with Some _ => None | None => Some (Some (Qus, i)) end
         | None => Some s1 end) with
  | None => None
  | Some s2 =>
    match find_sub (spec_name Qns) f with
    | Some i => match s2 with Some _ => None | None => Some (Some (Qns, i)) end
    | None => Some s2
    end
  end.

(* repaired constructor: _time_format.find(specifier_name[found], specifier_begin + 4) != npos throws *)
Definition dup_spec (f : str) (k : fkind) (i : nat) : bool :=
  match find_sub (spec_name k) (skipn (i + 4) f) with Some _ => true | None => false end.

Definition tf_init (strict : bool) (f : str) : tfm + tf_err :=
  match tf_search f with
  | None => inr ErrExclusive
  | Some None =>
    match sft_init strict f with
    | Some a => inl {| tspec := None; tp1 := a; tp2 := None |}
    | None => inr ErrX
    end
  | Some (Some (k, i)) =>
    if strict && dup_spec f k i then inr ErrExclusive else
    match sft_init strict (firstn i f) with
    | None => inr ErrX
    | Some a =>
      match skipn (i + 4) f with
      | [] => inl {| tspec := Some k; tp1 := a; tp2 := None |}
      | f2 => match sft_init strict f2 with
              | Some b => inl {| tspec := Some k; tp1 := a; tp2 := Some b |}
              | None => inr ErrX
              end
      end
    end
  end.

Definition frac_width (k : fkind) : nat := match k with Qms => 3 | Qus => 6 | Qns => 9 end.
Definition frac_unit (k : fkind) : N := match k with Qms => 1000000 | Qus => 1000 | Qns => 1 end.

(* append the zeros, then memcpy the decimal digits so that they end at the end of the buffer *)
Definition write_frac (buf : str) (w : nat) (v : N) : str :=
  let b := buf ++ repeat 48%N w in
  let d := dec v in
  overwrite (length b - length d) d b.

Definition tf_format (x : tfm) (ns : Z) : tfm * str :=
  let secs := Z.quot ns 1000000000 in
  let (a', s1) := sft_format (tp1 x) secs in
  let ens := Z.to_N ((ns - secs * 1000000000) mod 4294967296) in
  let b1 := match tspec x with
            | None => s1
            | Some k => write_frac s1 (frac_width k) (ens / frac_unit k)%N
            end in
  match tp2 x with
  | None => ({| tspec := tspec x; tp1 := a'; tp2 := None |}, b1)
  | Some b => let (b', s2) := sft_format b secs in
              ({| tspec := tspec x; tp1 := a'; tp2 := Some b' |}, b1 ++ s2)
  end.

Fixpoint tf_run (x : tfm) (nss : list Z) : list str :=
  match nss with
  | [] => []
  | ns :: r => let (x', o) := tf_format x ns in o :: tf_run x' r
  end.

Fixpoint sft_run (st : sft) (ts : list Z) : list str :=
  match ts with
  | [] => []
  | t :: r => let (st', o) := sft_format st t in o :: sft_run st' r
  end.

(* every format string the model may hand to the oracle for this pattern (used by the runner to
   ask the harness for exactly these) *)
Definition tf_formats (strict : bool) (f : str) : list str :=
  match tf_init strict f with
  | inr _ => []
  | inl x => parts (tp1 x) ++ [tfmt (tp1 x)] ++
             match tp2 x with Some b => parts b ++ [tfmt b] | None => [] end
  end.

End Model.

(* ------------------------------------------------------------------ encoded entry points *)
(* case:  time <strict> <local> <zlen> zone-bytes.. <plen> pattern-bytes.. <n> ns_1 .. ns_n
               <k> { <flen> fmt-bytes.. <t> <olen> out-bytes.. }*k   <j> { <t> <sod> }*j
   (<strict> selects the code variant, see [sft_init]; the harness ignores it; the zone name is for
   the harness only).  Output: "0 code" when the constructor throws (1 = specifiers mutually
   exclusive / used more than once, 2 = %X or another unsupported conversion), else "1" then per
   instant "<len> bytes..". *)
Definition take_str (l : list N) : str * list N :=
  match l with
  | [] => ([], [])
  | n :: r => (firstn (N.to_nat n) r, skipn (N.to_nat n) r)
  end.

Fixpoint take_tab (fuel : nat) (k : nat) (l : list N) : list (str * N * str) * list N :=
  match fuel, k with
  | 0, _ | _, 0 => ([], l)
  | S f, S k' =>
    let (fm, r1) := take_str l in
    match r1 with
    | [] => ([], [])
    | t :: r2 => let (o, r3) := take_str r2 in
                 let (tb, r4) := take_tab f k' r3 in ((fm, t, o) :: tb, r4)
    end
  end.

Fixpoint take_pairs (k : nat) (l : list N) : list (N * N) :=
  match k, l with
  | S k', a :: b :: r => (a, b) :: take_pairs k' r
  | _, _ => []
  end.

Fixpoint tab_lookup (tb : list (str * N * str)) (f : str) (t : N) : str :=
  match tb with
  | [] => [1%N]   (* marker: the table lacks an entry the model asked for *)
  | (f', t', o) :: r => if N.eqb t t' && str_eqb f f' then o else tab_lookup r f t
  end.

Fixpoint sod_lookup (tb : list (N * N)) (t : N) : N :=
  match tb with
  | [] => 4000000000%N
  | (t', s) :: r => if N.eqb t t' then s else sod_lookup r t
  end.

Definition enc_strs (l : list str) : list N :=
  flat_map (fun s => N.of_nat (length s) :: s) l.

Definition time_run_enc (l : list N) : list N :=
  match l with
  | [_] => [9%N]
  | sc :: lc :: r0 =>
    let (_, r1) := take_str r0 in
    let (pat, r2) := take_str r1 in
    match r2 with
    | n :: r3 =>
      let nss := map Z.of_N (firstn (N.to_nat n) r3) in
      let r4 := skipn (N.to_nat n) r3 in
      match r4 with
      | k :: r5 =>
        let (tb, r6) := take_tab (length r5) (N.to_nat k) r5 in
        let sods := match r6 with j :: r7 => take_pairs (N.to_nat j) r7 | [] => [] end in
        let strf := fun f t => tab_lookup tb f (Z.to_N t) in
        let sodf := fun t => sod_lookup sods (Z.to_N t) in
        let lcb := negb (N.eqb lc 0) in
        match tf_init (negb (N.eqb sc 0)) pat with
        | inr ErrExclusive => [0; 1]%N
        | inr ErrX => [0; 2]%N
        | inl x => 1%N :: enc_strs (tf_run strf sodf lcb x nss)
        end
      | [] => [9%N]
      end
    | [] => [9%N]
    end
  | [] => [9%N]
  end.

(* timeq <strict> <plen> pattern-bytes.. : the formats the model will query (count, then len-prefixed) *)
Definition time_formats_enc (l : list N) : list N :=
  match l with
  | [] => [0%N]
  | sc :: l' =>
    let (pat, _) := take_str l' in
    let fs := tf_formats (negb (N.eqb sc 0)) pat in
    N.of_nat (length fs) :: enc_strs fs
  end.
