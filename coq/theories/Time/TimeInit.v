(* StringFromTime::init on a well-formed item list: the %X check (and, in the repaired variant, the
   scan for unpatchable conversions) passes, the three rewrites turn
   r R T into their expansions, and the split yields one part per handled conversion and one part
   per maximal run of other items. *)
From Coq Require Import List NArith ZArith Bool Arith Lia.
From Quill Require Import Time.TimeModel Time.TimeSpec Time.TimeStrings Time.TimeStrict.
Import ListNotations.

Definition sp_special (y : N) : bool := mem y special.

(* ---------------------------------------------------------------- the std::map of first matches *)
Definition fm_ok (i : nat) (m : str) (acc : option (nat * str)) : Prop :=
  match acc with None => True | Some (j, m') => i < j \/ (j = i /\ m' = m) end.

Lemma fm_before s i m l : forall acc, fm_ok i m acc ->
  (forall x j, In x l -> find_sub (fst x) s = Some j -> i < j \/ (j = i /\ fst x = m)) ->
  fm_ok i m (fold_left (first_mod_step s) l acc).
Proof.
  induction l as [|a l IH]; intros acc Hacc Hl; cbn [fold_left]; [exact Hacc|].
  apply IH; [|intros x j Hin; apply Hl; now right].
  unfold first_mod_step. destruct (find_sub (fst a) s) as [n|] eqn:E; [|exact Hacc].
  specialize (Hl a n (or_introl eq_refl) E).
  destruct acc as [[j m']|]; [|exact Hl].
  destruct (Nat.ltb_spec n j); [exact Hl|exact Hacc].
Qed.

Lemma fm_after s i m l :
  (forall x j, In x l -> find_sub (fst x) s = Some j -> i <= j) ->
  fold_left (first_mod_step s) l (Some (i, m)) = Some (i, m).
Proof.
  induction l as [|a l IH]; intros Hl; cbn [fold_left]; [reflexivity|].
  assert (E : first_mod_step s (Some (i, m)) a = Some (i, m)).
  { unfold first_mod_step. destruct (find_sub (fst a) s) as [n|] eqn:E; [|reflexivity].
    specialize (Hl a n (or_introl eq_refl) E). destruct (Nat.ltb_spec n i); [lia|reflexivity]. }
  rewrite E. apply IH. intros x j Hin. apply Hl. now right.
Qed.

Lemma first_mod_some s i m ty : In (m, ty) modifiers -> find_sub m s = Some i ->
  (forall x j, In x modifiers -> find_sub (fst x) s = Some j -> i < j \/ (j = i /\ fst x = m)) ->
  first_mod s = Some (i, m).
Proof.
  intros Hin Hf Hall. unfold first_mod. destruct (in_split _ _ Hin) as (l1 & l2 & E).
  rewrite E in *. rewrite fold_left_app. cbn [fold_left].
  assert (H1 : fm_ok i m (fold_left (first_mod_step s) l1 None)).
  { apply fm_before; [exact I|]. intros x j Hx. apply Hall. apply in_or_app. now left. }
  set (acc := fold_left (first_mod_step s) l1 None) in *.
  assert (H2 : first_mod_step s acc (m, ty) = Some (i, m)).
  { clearbody acc. unfold first_mod_step. cbn [fst]. rewrite Hf.
    destruct acc as [[j m']|]; [|reflexivity].
    cbn in H1. destruct H1 as [H1|[-> ->]].
    - destruct (Nat.ltb_spec i j); [reflexivity|lia].
    - rewrite Nat.ltb_irrefl. reflexivity. }
  rewrite H2. apply fm_after. intros x j Hx Hj.
  destruct (Hall x j) as [H|[-> _]]; auto; [apply in_or_app; right; now right|lia].
Qed.

Lemma first_mod_none s : (forall x, In x modifiers -> find_sub (fst x) s = None) -> first_mod s = None.
Proof.
  unfold first_mod. generalize modifiers. intros l Hl.
  induction l as [|a l IH]; cbn [fold_left]; [reflexivity|].
  unfold first_mod_step at 2. rewrite (Hl a (or_introl eq_refl)). apply IH.
  intros x Hx. apply Hl. now right.
Qed.

(* ---------------------------------------------------------------- handled letters *)
Definition is_handled (it : item) : bool :=
  match it with
  | Conv [c] => match handled_ty c with Some _ => true | None => false end
  | _ => false
  end.

Lemma handled_letter c ty : handled_ty c = Some ty ->
  sp_special c = true /\ letter_ok c /\ In ([37%N; c], ty) modifiers.
Proof.
  unfold handled_ty.
  destruct (N.eqb_spec c 72); [subst; intros E; inversion E; subst; repeat split; try discriminate; cbn; auto|].
  destruct (N.eqb_spec c 77); [subst; intros E; inversion E; subst; repeat split; try discriminate; cbn; auto|].
  destruct (N.eqb_spec c 83); [subst; intros E; inversion E; subst; repeat split; try discriminate; cbn; auto|].
  destruct (N.eqb_spec c 73); [subst; intros E; inversion E; subst; repeat split; try discriminate; cbn; auto 10|].
  destruct (N.eqb_spec c 107); [subst; intros E; inversion E; subst; repeat split; try discriminate; cbn; auto 10|].
  destruct (N.eqb_spec c 108); [subst; intros E; inversion E; subst; repeat split; try discriminate; cbn; auto 10|].
  destruct (N.eqb_spec c 115); [subst; intros E; inversion E; subst; repeat split; try discriminate; cbn; auto 10|].
  discriminate.
Qed.

Lemma modifiers_letters x : In x modifiers -> exists c, fst x = [37%N; c] /\ handled_ty c = Some (snd x).
Proof.
  cbn. intros H. repeat (destruct H as [<-|H]; [eexists; split; reflexivity|]). destruct H.
Qed.

Lemma nonhandled_not_conv c ty it : handled_ty c = Some ty -> is_handled it = false -> is_conv1 c it = false.
Proof.
  intros Hc Hn. destruct (is_conv1 c it) eqn:E; [|reflexivity].
  apply is_conv1_true in E. subst. cbn in Hn. now rewrite Hc in Hn.
Qed.

Lemma first_mod_items_none items :
  Forall shape items -> adj_ok sp_special items = true ->
  Forall (fun it => is_handled it = false) items -> first_mod (flat items) = None.
Proof.
  intros Hs Ha Hn. apply first_mod_none. intros x Hx.
  destruct (modifiers_letters x Hx) as (c & -> & Hc).
  destruct (handled_letter _ _ Hc) as (Hsp & Hl & _).
  eapply find2_none; eauto. rewrite Forall_forall in *. intros it Hin.
  eapply nonhandled_not_conv; eauto.
Qed.

Lemma first_mod_items_some pre c ty post :
  handled_ty c = Some ty ->
  Forall shape (pre ++ Conv [c] :: post) -> adj_ok sp_special (pre ++ Conv [c] :: post) = true ->
  Forall (fun it => is_handled it = false) pre ->
  first_mod (flat (pre ++ Conv [c] :: post)) = Some (length (flat pre), [37%N; c]).
Proof.
  intros Hc Hs Ha Hn. destruct (handled_letter _ _ Hc) as (Hsp & Hl & Hin).
  eapply first_mod_some; eauto.
  - eapply find2_some; eauto. rewrite Forall_forall in *. intros it Hi.
    eapply nonhandled_not_conv; eauto.
  - intros x j Hx Hj. destruct (modifiers_letters x Hx) as (c' & E & Hc'). rewrite E in *.
    destruct (handled_letter _ _ Hc') as (Hsp' & Hl' & _).
    assert (Hp : Forall (fun it => is_conv1 c' it = false) pre).
    { rewrite Forall_forall in *. intros it Hi. eapply nonhandled_not_conv; eauto. }
    destruct (N.eq_dec c' c) as [->|Hne].
    + right. erewrite find2_some in Hj; eauto. inversion Hj. auto.
    + left. eapply (find2_later sp_special c' c); eauto.
Qed.

(* ---------------------------------------------------------------- grouping into parts *)
Definition opt_group (pre : list item) : list (list item) := match pre with [] => [] | _ => [pre] end.

Inductive grouped : list item -> list (list item) -> Prop :=
| g_end pre : Forall (fun it => is_handled it = false) pre -> grouped pre (opt_group pre)
| g_cons pre h post gs :
    Forall (fun it => is_handled it = false) pre -> is_handled h = true -> grouped post gs ->
    grouped (pre ++ h :: post) (opt_group pre ++ [h] :: gs).

Lemma split_first_handled items :
  Forall (fun it => is_handled it = false) items \/
  exists pre h post, items = pre ++ h :: post /\ Forall (fun it => is_handled it = false) pre /\ is_handled h = true.
Proof.
  induction items as [|it r IH]; [left; constructor|].
  destruct (is_handled it) eqn:E.
  - right. exists [], it, r. repeat split; auto.
  - destruct IH as [IH|(pre & h & post & -> & Hp & Hh)].
    + left. constructor; auto.
    + right. exists (it :: pre), h, post. repeat split; auto.
Qed.

Fixpoint count_handled (items : list item) : nat :=
  match items with [] => 0 | it :: r => (if is_handled it then 1 else 0) + count_handled r end.

Lemma count_handled_app a b : count_handled (a ++ b) = count_handled a + count_handled b.
Proof. induction a as [|x a IH]; cbn; [reflexivity|]. rewrite IH. lia. Qed.

Lemma is_handled_conv h : is_handled h = true -> exists c ty, h = Conv [c] /\ handled_ty c = Some ty.
Proof.
  destruct h as [|[|c [|]]|]; cbn; try discriminate.
  destruct (handled_ty c) eqn:E; [eauto|discriminate].
Qed.

Lemma opt_group_flat pre : Forall shape pre ->
  map flat (opt_group pre) = match length (flat pre) with 0 => [] | _ => [flat pre] end.
Proof.
  intros Hs. destruct pre as [|it r]; [reflexivity|]. cbn [opt_group map].
  destruct (length (flat (it :: r))) eqn:E; [|reflexivity].
  apply length_zero_iff_nil in E. apply flat_nil_inv in E; [discriminate|auto].
Qed.

Lemma parts_grouped fuel : forall items,
  Forall shape items -> adj_ok sp_special items = true -> count_handled items < fuel ->
  exists gs, grouped items gs /\ parts_of fuel (flat items) = map flat gs.
Proof.
  induction fuel as [|f IH]; intros items Hs Ha Hc; [lia|].
  cbn [parts_of].
  destruct (split_first_handled items) as [Hn|(pre & h & post & -> & Hp & Hh)].
  - exists (opt_group items). split; [now constructor|].
    rewrite first_mod_items_none; auto.
    destruct items as [|it r]; [reflexivity|]. cbn [opt_group map].
    destruct (flat (it :: r)) eqn:E; [|reflexivity].
    apply flat_nil_inv in E; [discriminate|auto].
  - destruct (is_handled_conv _ Hh) as (c & ty & -> & Hty).
    rewrite (first_mod_items_some pre c ty post); auto.
    assert (Hsp : Forall shape post) by (apply Forall_app_r in Hs; now inversion Hs).
    assert (Hap : adj_ok sp_special post = true).
    { apply adj_ok_app_r in Ha. rewrite adj_ok_cons in Ha. apply andb_true_iff in Ha. tauto. }
    rewrite count_handled_app in Hc. cbn [count_handled] in Hc. rewrite Hh in Hc.
    destruct (IH post Hsp Hap) as (gs & Hg & Hpo); [lia|].
    exists (opt_group pre ++ [Conv [c]] :: gs). split; [now constructor|].
    rewrite flat_app, flat_cons. cbn [item_bytes].
    rewrite firstn_app, Nat.sub_diag, firstn_all. cbn [firstn]. rewrite app_nil_r.
    replace (length (flat pre) + 2) with (length (flat pre ++ [37%N; c])) by (rewrite app_length; reflexivity).
    change (flat pre ++ (37%N :: [c]) ++ flat post) with (flat pre ++ ([37%N; c] ++ flat post)).
    rewrite (app_assoc (flat pre)), skipn_app, skipn_all, Nat.sub_diag. cbn [skipn app].
    rewrite Hpo, map_app. cbn [map flat flat_map item_bytes]. rewrite app_nil_r.
    rewrite opt_group_flat; [reflexivity|]. now apply Forall_app_l in Hs.
Qed.

Lemma grouped_concat items gs : grouped items gs -> concat gs = items.
Proof.
  induction 1 as [pre Hp|pre h post gs Hp Hh Hg IH].
  - destruct pre; cbn; [reflexivity|now rewrite app_nil_r].
  - rewrite concat_app. cbn [concat]. rewrite IH. destruct pre; cbn; [reflexivity|now rewrite app_nil_r].
Qed.

Definition group_ok (g : list item) : Prop :=
  g <> [] /\ (Forall (fun it => is_handled it = false) g \/ exists h, g = [h] /\ is_handled h = true).

Lemma grouped_ok items gs : grouped items gs -> Forall group_ok gs.
Proof.
  induction 1 as [pre Hp|pre h post gs Hp Hh Hg IH].
  - destruct pre; cbn; constructor; [|constructor]. split; [discriminate|now left].
  - apply Forall_app. split.
    + destruct pre; cbn; constructor; [|constructor]. split; [discriminate|now left].
    + constructor; [|exact IH]. split; [discriminate|right; eauto].
Qed.

(* ---------------------------------------------------------------- the rewrites of init *)
Definition rI : list item := [Conv [73]; Lit [58]; Conv [77]; Lit [58]; Conv [83]; Lit [32]; Conv [112]]%N.
Definition rR : list item := [Conv [72]; Lit [58]; Conv [77]]%N.
Definition rT : list item := [Conv [72]; Lit [58]; Conv [77]; Lit [58]; Conv [83]]%N.

Definition rw_item (it : item) : list item :=
  if is_conv1 114 it then rI else if is_conv1 82 it then rR else if is_conv1 84 it then rT else [it].
Definition rw (items : list item) : list item := flat_map rw_item items.

Lemma subst_app c0 n a b : subst c0 n (a ++ b) = subst c0 n a ++ subst c0 n b.
Proof. unfold subst. apply flat_map_app. Qed.

Lemma rw_eq items : subst 84 rT (subst 82 rR (subst 114 rI items)) = rw items.
Proof.
  induction items as [|it r IH]; [reflexivity|].
  change (subst 114 rI (it :: r)) with ((if is_conv1 114 it then rI else [it]) ++ subst 114 rI r).
  rewrite !subst_app, IH. cbn [rw flat_map]. f_equal. unfold rw_item.
  destruct (is_conv1 114 it) eqn:E1; [reflexivity|].
  change (subst 82 rR [it]) with ((if is_conv1 82 it then rR else [it]) ++ []). rewrite app_nil_r.
  destruct (is_conv1 82 it) eqn:E2; [reflexivity|].
  change (subst 84 rT [it]) with ((if is_conv1 84 it then rT else [it]) ++ []). now rewrite app_nil_r.
Qed.

Lemma letter_ok_dec c : (negb (N.eqb c 37) && negb (N.eqb c 69) && negb (N.eqb c 79) && negb (N.eqb c 81)) = true -> letter_ok c.
Proof.
  intros H. repeat (apply andb_true_iff in H; destruct H as [H ?]).
  repeat split; intros ->; discriminate.
Qed.

Lemma shape_rI : Forall shape rI.
Proof.
  unfold rI.
  repeat (apply Forall_cons; [cbn; first [left; eexists; reflexivity | split; [discriminate | repeat constructor; discriminate]]|]).
  constructor.
Qed.
Lemma shape_rR : Forall shape rR.
Proof.
  unfold rR.
  repeat (apply Forall_cons; [cbn; first [left; eexists; reflexivity | split; [discriminate | repeat constructor; discriminate]]|]).
  constructor.
Qed.
Lemma shape_rT : Forall shape rT.
Proof.
  unfold rT.
  repeat (apply Forall_cons; [cbn; first [left; eexists; reflexivity | split; [discriminate | repeat constructor; discriminate]]|]).
  constructor.
Qed.

Lemma rewrite_flat items : Forall shape items -> adj_ok sp_special items = true ->
  rewrite_fmt (flat items) = flat (rw items) /\ Forall shape (rw items) /\ adj_ok sp_special (rw items) = true.
Proof.
  intros Hs Ha. unfold rewrite_fmt. rewrite <- rw_eq.
  change new_r with (flat rI). change new_R with (flat rR). change new_T with (flat rT).
  assert (S1 : Forall shape (subst 114 rI items)) by (apply subst_shape; auto using shape_rI).
  assert (A1 : adj_ok sp_special (subst 114 rI items) = true).
  { apply subst_adj; [discriminate| |auto]. repeat constructor. }
  assert (S2 : Forall shape (subst 82 rR (subst 114 rI items))) by (apply subst_shape; auto using shape_rR).
  assert (A2 : adj_ok sp_special (subst 82 rR (subst 114 rI items)) = true).
  { apply subst_adj; [discriminate| |auto]. repeat constructor. }
  rewrite (repl2_flat sp_special 114 rI items); auto; [|now apply letter_ok_dec].
  rewrite (repl2_flat sp_special 82 rR); auto; [|now apply letter_ok_dec].
  rewrite (repl2_flat sp_special 84 rT); auto; [|now apply letter_ok_dec].
  split; [reflexivity|]. split.
  - apply subst_shape; auto using shape_rT.
  - apply subst_adj; [discriminate| |auto]. repeat constructor.
Qed.

(* after the rewrites only literals, coarse conversions and handled conversions remain *)
Definition rw_done (it : item) : Prop := coarse_item it \/ is_handled it = true.

Lemma mem_in x l : mem x l = true -> In x l.
Proof.
  unfold mem. rewrite existsb_exists. intros (y & Hy & E). apply N.eqb_eq in E. now subst.
Qed.

Lemma rw_done_items items : Forall wf_item items -> Forall rw_done (rw items).
Proof.
  intros H. unfold rw. apply Forall_flat_map. rewrite Forall_forall in *. intros it Hin.
  specialize (H it Hin). unfold rw_item.
  destruct (is_conv1 114 it) eqn:E1; [repeat constructor; cbn; try discriminate; try (now left); now right|].
  destruct (is_conv1 82 it) eqn:E2; [repeat constructor; cbn; try discriminate; try (now left); now right|].
  destruct (is_conv1 84 it) eqn:E3; [repeat constructor; cbn; try discriminate; try (now left); now right|].
  constructor; [|constructor]. destruct it as [l|b|k]; cbn in H.
  - left. exact H.
  - destruct H as (c & Hc & Hok). destruct b as [|x [|y [|]]]; cbn [classify] in Hc; try discriminate.
    + unfold rw_done. cbn [is_handled coarse_item classify]. destruct (handled_ty x) eqn:Ht; [now right|].
      destruct (mem x coarse1) eqn:M1; [now left|].
      destruct (mem x [114;82;84]%N) eqn:M2.
      * exfalso. apply mem_in in M2. cbn [is_conv1] in E1, E2, E3.
        destruct M2 as [<-|[<-|[<-|[]]]]; discriminate.
      * destruct (N.eqb x 88); [inversion Hc; subst; discriminate|].
        destruct (N.eqb x 99); [inversion Hc; subst; discriminate|discriminate].
    + left. cbn [coarse_item classify].
      destruct (N.eqb x 69).
      { destruct (mem y coarseE); [reflexivity|]. destruct (mem y fineE); [inversion Hc; subst; discriminate|discriminate]. }
      destruct (N.eqb x 79); [|discriminate].
      destruct (mem y coarseO); [reflexivity|]. destruct (mem y fineO); [inversion Hc; subst; discriminate|discriminate].
  - destruct H.
Qed.

Lemma count_handled_le items : count_handled items <= length (flat items).
Proof.
  induction items as [|it r IH]; [cbn; lia|]. rewrite flat_cons, app_length. cbn [count_handled].
  destruct (is_handled it) eqn:E; [|lia].
  destruct (is_handled_conv _ E) as (c & ty & -> & _). cbn. lia.
Qed.

Lemma wf_items_shape items : Forall wf_item items -> Forall shape items.
Proof. intros H. eapply Forall_impl; [|exact H]. apply wf_item_shape. Qed.

Lemma no_X items : Forall wf_item items -> Forall (fun it => is_conv1 88 it = false) items.
Proof.
  intros H. eapply Forall_impl; [|exact H]. intros it Hw.
  destruct (is_conv1 88 it) eqn:E; [|reflexivity]. apply is_conv1_true in E. subst.
  cbn in Hw. destruct Hw as (c & Hc & Hok). vm_compute in Hc. inversion Hc; subst. discriminate.
Qed.

(* init on a well-formed pattern *)
Lemma sft_init_ok strict items : wf_items items ->
  exists gs, grouped (rw items) gs /\
    sft_init strict (flat items) =
    Some {| parts := map flat gs; tfmt := flat (rw items); pre := []; idxs := [];
            next := 0; cts := 0; csec := 0 |}.
Proof.
  intros [Hw Ha]. pose proof (wf_items_shape _ Hw) as Hs.
  destruct (rewrite_flat items Hs Ha) as (E & Hs' & Ha').
  destruct (parts_grouped (S (length (flat (rw items)))) (rw items) Hs' Ha') as (gs & Hg & Hp).
  { pose proof (count_handled_le (rw items)). lia. }
  exists gs. split; [exact Hg|]. unfold sft_init, m_X.
  rewrite (find2_none sp_special 88 items); auto; [|now apply letter_ok_dec|now apply no_X].
  rewrite (unpatchable_wf items Hw), andb_false_r. cbv zeta. rewrite E, Hp. reflexivity.
Qed.
