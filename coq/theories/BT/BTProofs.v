(* Proofs about M-BT: refinement of the ring (vector + index) to the "most recent N" specification,
   for every capacity and every history of store / process / set_capacity. *)
From Coq Require Import List NArith Arith Bool Lia.
From Quill Require Import BT.BTModel.
Import ListNotations.

Definition good_cfg (c : bt_cfg) := reset_index_in_process c && cap0_guard c.

Section PA.
Variable A : Type.

(* ---------- list lemmas ---------- *)
Lemma set_nth_app (p q : list A) e x :
  set_nth (length p) x (p ++ e :: q) = p ++ x :: q.
Proof. induction p as [|h p IH]; cbn; [reflexivity|]. now rewrite IH. Qed.

Lemma lastn_all {B} n (l : list B) : length l <= n -> lastn n l = l.
Proof. intros H. unfold lastn. replace (length l - n) with 0 by lia. reflexivity. Qed.

Lemma lastn_length {B} n (l : list B) : length (lastn n l) = Nat.min n (length l).
Proof. unfold lastn. rewrite skipn_length. lia. Qed.

Lemma lastn_snoc_small {B} n (l : list B) x : length l < n -> lastn n (l ++ [x]) = l ++ [x].
Proof. intros H. apply lastn_all. rewrite app_length. cbn. lia. Qed.

Lemma lastn_snoc_full {B} n (l : list B) x : 0 < n -> n <= length l ->
  lastn n (l ++ [x]) = tl (lastn n l) ++ [x].
Proof.
  intros Hn Hl. unfold lastn. rewrite app_length. cbn [length].
  replace (length l + 1 - n) with (S (length l - n)) by lia.
  rewrite skipn_app. replace (S (length l - n) - length l) with 0 by lia. cbn [skipn].
  f_equal. remember (length l - n) as k. clear - l.
  revert l. induction k as [|k IH]; intros l.
  - destruct l; reflexivity.
  - destruct l as [|h l]; [reflexivity|]. cbn [skipn]. apply IH.
Qed.

Lemma lastn_0 {B} (l : list B) : lastn 0 l = [].
Proof. unfold lastn. rewrite Nat.sub_0_r. apply skipn_all. Qed.

(* the replay loop walks the ring from [i] and wraps: it reads l[i..] then l[..i) *)
Lemma proc_loop_spec (l : list A) : forall k i, i < length l -> k <= length l ->
  proc_loop k i l = map Some (firstn k (skipn i (l ++ l))).
Proof.
  induction k as [|k IH]; intros i Hi Hk; [reflexivity|].
  cbn [proc_loop].
  assert (Hn : exists e, nth_error l i = Some e).
  { destruct (nth_error l i) eqn:E; [eauto|]. apply nth_error_None in E. lia. }
  destruct Hn as [e He].
  assert (Hs : skipn i (l ++ l) = e :: skipn (S i) (l ++ l)).
  { assert (He2 : nth_error (l ++ l) i = Some e) by (rewrite nth_error_app1; auto).
    clear - He2. revert i He2. generalize (l ++ l) as m.
    induction m as [|h m IHm]; intros [|i] H; cbn in *; try discriminate.
    - now inversion H.
    - now apply IHm. }
  rewrite Hs, He. cbn [firstn map]. f_equal.
  destruct (Nat.ltb_spec i (length l - 1)) as [Hlt|Hge].
  - apply IH; lia.
  - assert (S i = length l) by lia.
    rewrite IH by lia. f_equal.
    rewrite H. cbn [skipn]. rewrite skipn_app, Nat.sub_diag, skipn_all. cbn [skipn app].
    rewrite firstn_app. replace (k - length l) with 0 by lia. cbn [firstn]. now rewrite app_nil_r.
Qed.

Definition rot (s : bt A) : list A := skipn (idx s) (evs s) ++ firstn (idx s) (evs s).

Lemma proc_loop_rot (s : bt A) : (idx s < length (evs s) \/ evs s = []) ->
  proc_loop (length (evs s)) (idx s) (evs s) = map Some (rot s).
Proof.
  intros [Hi|He].
  - rewrite proc_loop_spec by lia. f_equal. unfold rot.
    rewrite skipn_app. replace (idx s - length (evs s)) with 0 by lia. cbn [skipn].
    rewrite firstn_app, skipn_length.
    rewrite (firstn_all2 (skipn _ _)) by (rewrite skipn_length; lia).
    f_equal. f_equal. lia.
  - unfold rot. rewrite He. cbn. destruct (idx s); reflexivity.
Qed.

(* ---------- refinement ---------- *)
Record R (s : bt A) (sp : btspec A) : Prop := {
  r_cap : cap s = scap sp;
  r_len : length (evs s) <= cap s;
  r_idx : idx s = 0 \/ (length (evs s) = cap s /\ idx s < cap s);
  r_rot : rot s = lastn (cap s) (recent sp)
}.

Lemma R_init : R bt_init spec_init.
Proof. constructor; cbn; auto. Qed.

Section Ref.
Variable cfg : bt_cfg.
Hypothesis Hcfg : good_cfg cfg = true.

Lemma cfg2 : reset_index_in_process cfg = true /\ cap0_guard cfg = true.
Proof. unfold good_cfg in Hcfg. now apply andb_prop in Hcfg. Qed.

Lemma step_refines (s : bt A) (sp : btspec A) o : R s sp ->
  let (s', out) := bt_step cfg s o in
  let (sp', sout) := spec_step sp o in
  R s' sp' /\ out = map Some sout.
Proof.
  intros [Hc Hl Hi Hr]. destruct cfg2 as [C1 C2].
  destruct o as [x| |c]; cbn [bt_step spec_step].
  - (* store *)
    unfold store. rewrite C2. cbn [andb].
    destruct (Nat.eqb_spec (cap s) 0) as [H0|H0].
    { split; [|reflexivity]. constructor; cbn [cap idx evs scap BTModel.recent]; auto.
      rewrite Hr, H0. now rewrite !lastn_0. }
    destruct (Nat.ltb_spec (length (evs s)) (cap s)) as [Hlt|Hge].
    + (* still growing: index is 0, vector = recent *)
      assert (Hi0 : idx s = 0) by (destruct Hi as [|[? ?]]; [auto|lia]).
      unfold rot in Hr. rewrite Hi0 in Hr. cbn in Hr. rewrite app_nil_r in Hr.
      assert (Hrl : length (lastn (cap s) (recent sp)) < cap s) by (rewrite <- Hr; auto).
      rewrite lastn_length in Hrl.
      split; [|reflexivity]. constructor; cbn [cap idx evs scap BTModel.recent]; auto.
      * rewrite app_length; cbn; lia.
      * unfold rot; cbn [idx evs]. rewrite Hi0. cbn [skipn firstn]. rewrite app_nil_r.
        rewrite lastn_snoc_small by lia.
        rewrite Hr, lastn_all by lia. reflexivity.
    + (* full ring: overwrite the oldest *)
      assert (Hfull : length (evs s) = cap s) by lia.
      assert (Hlt : idx s < length (evs s)) by (destruct Hi as [->|[? ?]]; lia).
      apply Nat.ltb_lt in Hlt as Hb. rewrite Hb.
      split; [|reflexivity].
      (* split the vector at the index *)
      pose proof (firstn_skipn (idx s) (evs s)) as Hsplit.
      remember (firstn (idx s) (evs s)) as P.
      destruct (skipn (idx s) (evs s)) as [|e Q] eqn:HQ.
      { exfalso. assert (length (skipn (idx s) (evs s)) = 0) by now rewrite HQ.
        rewrite skipn_length in H. lia. }
      assert (HlP : length P = idx s) by (subst P; rewrite firstn_length; lia).
      assert (Hset : set_nth (idx s) x (evs s) = P ++ x :: Q)
        by (rewrite <- Hsplit, <- HlP; apply set_nth_app).
      assert (Hrot : rot s = e :: Q ++ P) by (unfold rot; rewrite HQ, <- HeqP; reflexivity).
      assert (HlQ : length P + S (length Q) = cap s)
        by (rewrite <- Hfull, <- Hsplit, app_length; reflexivity).
      assert (Hrec : cap s <= length (recent sp)).
      { assert (length (rot s) = cap s) by (rewrite Hrot; cbn; rewrite app_length; lia).
        rewrite Hr, lastn_length in H. lia. }
      constructor; cbn [cap idx evs BTModel.recent scap].
      * exact Hc.
      * rewrite Hset, app_length. cbn. lia.
      * destruct (Nat.ltb_spec (idx s) (cap s - 1)); [right|left; reflexivity].
        rewrite Hset, app_length. cbn. lia.
      * rewrite lastn_snoc_full by lia. rewrite <- Hr, Hrot. cbn [tl].
        unfold rot. cbn [idx evs]. rewrite Hset.
        destruct (Nat.ltb_spec (idx s) (cap s - 1)) as [Hlt2|Hge2].
        -- replace (S (idx s)) with (length (P ++ [x])) by (rewrite app_length; cbn; lia).
           replace (P ++ x :: Q) with ((P ++ [x]) ++ Q) by (rewrite <- app_assoc; reflexivity).
           rewrite skipn_app, Nat.sub_diag, skipn_all. cbn [skipn app].
           rewrite firstn_app, Nat.sub_diag, firstn_all. cbn [firstn]. rewrite app_nil_r.
           now rewrite <- app_assoc.
        -- assert (Q = []) by (destruct Q; [reflexivity|cbn in HlQ; lia]). subst Q.
           cbn. now rewrite app_nil_r.
  - (* process *)
    unfold process. rewrite C1. rewrite proc_loop_rot.
    + split; [|now rewrite Hr, Hc]. constructor; cbn; auto; lia.
    + destruct Hi as [Hi|[Hf Hi]].
      * destruct (evs s) eqn:E; [now right|left; rewrite Hi; cbn; lia].
      * left. lia.
  - (* set_capacity *)
    unfold set_capacity. rewrite <- Hc.
    destruct (Nat.eqb (cap s) c); (split; [|reflexivity]).
    + now constructor.
    + constructor; cbn; auto; lia.
Qed.

Theorem bt_refines_from (s : bt A) (sp : btspec A) ops : R s sp ->
  bt_run cfg s ops = map (map Some) (spec_run sp ops).
Proof.
  revert s sp. induction ops as [|o ops IH]; intros s sp HR; [reflexivity|].
  cbn [bt_run spec_run].
  pose proof (step_refines s sp o HR) as Hs.
  destruct (bt_step cfg s o) as [s' out]. destruct (spec_step sp o) as [sp' sout].
  destruct Hs as [HR' ->]. cbn [map]. f_equal. now apply IH.
Qed.

(* every capacity, every history: the implementation's callbacks are exactly the spec's replays,
   with no out-of-bounds access ([Some] everywhere) *)
Theorem bt_refines (ops : list (bop A)) : bt_run cfg bt_init ops = map (map Some) (spec_run spec_init ops).
Proof. apply bt_refines_from, R_init. Qed.
End Ref.

(* ---------- the spec says what the property says ---------- *)
(* number of stores since the last flush/re-init and what a flush emits, in closed form *)
Lemma spec_process_emits (sp : btspec A) :
  snd (spec_step sp Process) = lastn (scap sp) (recent sp) /\
  length (snd (spec_step sp Process)) = Nat.min (scap sp) (length (recent sp)) /\
  recent (fst (spec_step sp Process)) = [].
Proof. cbn. repeat split. apply lastn_length. Qed.

(* once: a second flush right after a flush emits nothing *)
Lemma spec_process_twice (sp : btspec A) : snd (spec_step (fst (spec_step sp Process)) Process) = [].
Proof. reflexivity. Qed.

End PA.

(* ---------- refutations on the unfixed configurations (replays of D1 and D14) ---------- *)
Definition cfg_noreset := {| reset_index_in_process := false; cap0_guard := true |}.
Definition cfg_noguard := {| reset_index_in_process := true; cap0_guard := false |}.

Definition d1_ops := [SetCap 3; Store 1; Store 2; Store 3; Store 4; Process;
                      Store 5; Store 6; Store 7; Store 8; Process; Store 9; Process]%N.

Example bt_refuted_index :
  bt_run cfg_noreset bt_init d1_ops <> map (map Some) (spec_run spec_init d1_ops) /\
  nth 10 (bt_run cfg_noreset bt_init d1_ops) [] = [Some 7; Some 5; Some 8]%N /\
  nth 12 (bt_run cfg_noreset bt_init d1_ops) [] = [None].
Proof. vm_compute. repeat split; discriminate. Qed.

Example bt_refuted_cap0 :
  bt_run cfg_noguard bt_init [SetCap 0; Store 1; Process]%N
  <> map (map Some) (spec_run spec_init [SetCap 0; Store 1; Process]%N).
Proof. vm_compute. discriminate. Qed.

(* non-vacuity: the fixed configuration on the same history gives the expected replays *)
Example bt_fixed_d1 :
  let cfg := {| reset_index_in_process := true; cap0_guard := true |} in
  nth 5 (bt_run cfg bt_init d1_ops) [] = [Some 2; Some 3; Some 4]%N /\
  nth 10 (bt_run cfg bt_init d1_ops) [] = [Some 6; Some 7; Some 8]%N /\
  nth 12 (bt_run cfg bt_init d1_ops) [] = [Some 9]%N.
Proof. vm_compute. auto. Qed.
