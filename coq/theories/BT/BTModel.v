(* M-BT: executable model of quill::detail::BacktraceStorage (include/quill/backend/BacktraceStorage.h)
   store / process / set_capacity, mirroring the vector + index code line by line.
   Definitions only (no proofs) so that the extracted model still runs when a proof breaks. *)
From Coq Require Import List NArith Arith Bool.
Import ListNotations.

(* Facts about the source that the model takes as parameters (regenerated into QuillGen.SrcFacts
   on every run): does process() reset _index after clear(); does store() guard capacity 0. *)
Record bt_cfg := { reset_index_in_process : bool; cap0_guard : bool }.

Section Elem.
Variable A : Type.   (* what is stored: event ids in the unit-level check, whole events in M-BE *)

Record bt := { cap : nat; idx : nat; evs : list A }.
Definition bt_init : bt := {| cap := 0; idx := 0; evs := [] |}.

Inductive bop := Store (x : A) | Process | SetCap (c : nat).

Fixpoint set_nth (i : nat) (x : A) (l : list A) : list A :=
  match l, i with
  | [], _ => []
  | _ :: t, 0 => x :: t
  | h :: t, S i' => h :: set_nth i' x t
  end.

(* an observation: Some id = callback invoked on that stored event; None = the C++ code indexes
   the vector out of bounds (undefined behaviour in the implementation) *)
Definition obs := option A.

Section WithCfg.
Variable cfg : bt_cfg.

Definition store (x : A) (s : bt) : bt * list obs :=
  if cap0_guard cfg && Nat.eqb (cap s) 0 then (s, [])
  else if Nat.ltb (length (evs s)) (cap s)
  then ({| cap := cap s; idx := idx s; evs := evs s ++ [x] |}, [])
  else
    (* _stored_events[_index] = ...;  out of bounds iff _index >= size *)
    let oob := if Nat.ltb (idx s) (length (evs s)) then [] else [None] in
    ({| cap := cap s;
        (* if (_index < _capacity - 1) ++_index else _index = 0;   (uint32 arithmetic: 0 - 1 wraps,
           modelled by the cap = 0 case always incrementing) *)
        idx := if Nat.eqb (cap s) 0 then S (idx s)
               else if Nat.ltb (idx s) (cap s - 1) then S (idx s) else 0;
        evs := set_nth (idx s) x (evs s) |}, oob).

Fixpoint proc_loop (n : nat) (index : nat) (l : list A) : list obs :=
  match n with
  | 0 => []
  | S n' => nth_error l index ::
            proc_loop n' (if Nat.ltb index (length l - 1) then S index else 0) l
  end.

Definition process (s : bt) : bt * list obs :=
  ({| cap := cap s; idx := if reset_index_in_process cfg then 0 else idx s; evs := [] |},
   proc_loop (length (evs s)) (idx s) (evs s)).

Definition set_capacity (c : nat) (s : bt) : bt * list obs :=
  if Nat.eqb (cap s) c then (s, []) else ({| cap := c; idx := 0; evs := [] |}, []).

Definition bt_step (s : bt) (o : bop) : bt * list obs :=
  match o with
  | Store x => store x s
  | Process => process s
  | SetCap c => set_capacity c s
  end.

(* run: state and the list of per-op outputs (one list of observations per op, oldest op first) *)
Fixpoint bt_run (s : bt) (ops : list bop) : list (list obs) :=
  match ops with
  | [] => []
  | o :: ops' => let (s', out) := bt_step s o in out :: bt_run s' ops'
  end.
End WithCfg.

(* The specification the property states: remember everything stored since the last flush,
   a flush emits the most recent [cap] of them, oldest first, once, and forgets. *)
Record btspec := { scap : nat; recent : list A }.
Definition spec_init : btspec := {| scap := 0; recent := [] |}.
Definition lastn {B} (n : nat) (l : list B) : list B := skipn (length l - n) l.

Definition spec_step (s : btspec) (o : bop) : btspec * list A :=
  match o with
  | Store x => ({| scap := scap s; recent := recent s ++ [x] |}, [])
  | Process => ({| scap := scap s; recent := [] |}, lastn (scap s) (recent s))
  | SetCap c => if Nat.eqb (scap s) c then (s, []) else ({| scap := c; recent := [] |}, [])
  end.

Fixpoint spec_run (s : btspec) (ops : list bop) : list (list A) :=
  match ops with
  | [] => []
  | o :: ops' => let (s', out) := spec_step s o in out :: spec_run s' ops'
  end.

End Elem.

Arguments cap {A}. Arguments idx {A}. Arguments evs {A}. Arguments bt_init {A}.
Arguments Store {A}. Arguments Process {A}. Arguments SetCap {A}.
Arguments set_nth {A}. Arguments store {A}. Arguments proc_loop {A}. Arguments process {A}. Arguments set_capacity {A}.
Arguments bt_step {A}. Arguments bt_run {A}. Arguments scap {A}. Arguments recent {A}. Arguments spec_init {A}.
Arguments spec_step {A}. Arguments spec_run {A}.

(* Encoded entry point for the extracted model runner: ops as a flat list of N.
   0 x = Store x ; 1 = Process ; 2 c = SetCap c.  Output: per op, the count of observations
   followed by each observation (id+1, or 0 for an out-of-bounds access). *)
Fixpoint bt_decode (fuel : nat) (l : list N) : list (bop N) :=
  match fuel with
  | 0 => []
  | S f =>
    match l with
    | 0%N :: x :: r => Store x :: bt_decode f r
    | 1%N :: r => Process :: bt_decode f r
    | 2%N :: c :: r => SetCap (N.to_nat c) :: bt_decode f r
    | _ => []
    end
  end.

Definition enc_obs (o : obs N) : N := match o with Some x => N.succ x | None => 0%N end.

Definition bt_run_enc (reset guard : bool) (l : list N) : list N :=
  let cfg := {| reset_index_in_process := reset; cap0_guard := guard |} in
  flat_map (fun out => N.of_nat (length out) :: map enc_obs out)
           (bt_run cfg bt_init (bt_decode (length l) l)).
