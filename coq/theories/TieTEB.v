(* T-src tie for M-TEB (C03: backend buffer growth; C20: shrinking the backend buffer): the skeletons of the
   TransitEventBuffer methods regenerated from /repo are the ones TEB/TEBModel.v mirrors, and the variant of the
   model selected by the facts read from the source (growth factor, mask update, origin of the copy in _expand,
   guard of try_shrink, full test of back()) is the one the refinement theorem is about. *)
From Coq Require Import String List NArith Bool.
From QuillGen Require SrcFacts.
From Quill Require ExpectedTEB.
From Quill Require Import TEB.TEBModel.
Import ListNotations.

Definition src_tcfg : tcfg :=
  {| t_grow := SrcFacts.teb_grow; t_mask_upd := SrcFacts.teb_mask_upd;
     t_move_from_reader := SrcFacts.teb_move_from_reader;
     t_shrink_needs_empty := SrcFacts.teb_shrink_needs_empty;
     t_full_test_exact := SrcFacts.teb_full_test_exact |}.

Lemma src_tcfg_good : src_tcfg = tcfg_good.
Proof. vm_compute. reflexivity. Qed.

Lemma teb_skeletons_ok :
  SrcFacts.sk_teb_front = ExpectedTEB.sk_teb_front /\
  SrcFacts.sk_teb_pop_front = ExpectedTEB.sk_teb_pop_front /\
  SrcFacts.sk_teb_back = ExpectedTEB.sk_teb_back /\
  SrcFacts.sk_teb_push_back = ExpectedTEB.sk_teb_push_back /\
  SrcFacts.sk_teb_size = ExpectedTEB.sk_teb_size /\
  SrcFacts.sk_teb_capacity = ExpectedTEB.sk_teb_capacity /\
  SrcFacts.sk_teb_empty = ExpectedTEB.sk_teb_empty /\
  SrcFacts.sk_teb_request_shrink = ExpectedTEB.sk_teb_request_shrink /\
  SrcFacts.sk_teb_try_shrink = ExpectedTEB.sk_teb_try_shrink /\
  SrcFacts.sk_teb__expand = ExpectedTEB.sk_teb__expand.
Proof. vm_compute. repeat split; reflexivity. Qed.

(* the constructor rounds the requested capacity up to a power of two and sets the mask; the backend asks for a
   shrink when the frontend queue was shrunk and tries it when every queue and buffer is empty *)
Lemma teb_context_facts_ok :
  SrcFacts.teb_ctor_ok = true /\ SrcFacts.teb_backend_requests_shrink = true /\
  SrcFacts.teb_backend_tries_shrink_when_idle = true.
Proof. vm_compute. repeat split; reflexivity. Qed.

Definition TEB_tie_holds : Prop :=
  src_tcfg = tcfg_good /\
  (SrcFacts.sk_teb_front = ExpectedTEB.sk_teb_front /\
   SrcFacts.sk_teb_pop_front = ExpectedTEB.sk_teb_pop_front /\
   SrcFacts.sk_teb_back = ExpectedTEB.sk_teb_back /\
   SrcFacts.sk_teb_push_back = ExpectedTEB.sk_teb_push_back /\
   SrcFacts.sk_teb_size = ExpectedTEB.sk_teb_size /\
   SrcFacts.sk_teb_capacity = ExpectedTEB.sk_teb_capacity /\
   SrcFacts.sk_teb_empty = ExpectedTEB.sk_teb_empty /\
   SrcFacts.sk_teb_request_shrink = ExpectedTEB.sk_teb_request_shrink /\
   SrcFacts.sk_teb_try_shrink = ExpectedTEB.sk_teb_try_shrink /\
   SrcFacts.sk_teb__expand = ExpectedTEB.sk_teb__expand) /\
  (SrcFacts.teb_ctor_ok = true /\ SrcFacts.teb_backend_requests_shrink = true /\
   SrcFacts.teb_backend_tries_shrink_when_idle = true).

Lemma TEB_tie : TEB_tie_holds.
Proof. split; [exact src_tcfg_good|]. split; [exact teb_skeletons_ok|exact teb_context_facts_ok]. Qed.

(* the refinement stated for the variant the source selects (no reference to tcfg_good in the statement) *)
From Quill Require TEB.TEBProofs.
Lemma teb_refines_fifo_src (A : Type) (dflt : A) (c0 : N) (ops : list (top A)) :
  teb_run A dflt src_tcfg (teb_init A dflt c0) ops = fifo_run A (fifo_init A c0) ops.
Proof. rewrite src_tcfg_good. apply TEB.TEBProofs.teb_refines_fifo. Qed.
