(* T-src tie for C07: the skeleton of BackendWorker::_exit read from /repo on every run (tools/srcfacts.py)
   is the loop modelled by Backend/BEExit.v (exit_drain): emptiness check first; when empty: failure counters,
   flush of the sinks, break; otherwise populate and process while nothing else is pending. *)
From Coq Require Import List String.
From QuillGen Require SrcFacts.
Import ListNotations.
Local Open Scope string_scope.
Lemma src_be_exit_skeleton : SrcFacts.sk_be_exit = [
    "WHILE true";
    "  DECL bool const queues_and_events_empty = (!_options.wait_for_queues_to_empty_before_exit) || _check_frontend_queues_and_cached_transit_events_empty();";
    "  IF queues_and_events_empty";
    "    EXPR _check_failure_counter(_options.error_notifier)";
    "    EXPR _flush_and_run_active_sinks(false, std::chrono::milliseconds{0})";
    "    BREAK";
    "  DECL uint64_t const cached_transit_events_count = _populate_transit_events_from_frontend_queues();";
    "  IF cached_transit_events_count > 0";
    "    WHILE !has_pending_events_for_caching_when_transit_event_buffer_empty() && _process_lowest_timestamp_transit_event()";
    "EXPR _cleanup_invalidated_thread_contexts()";
    "EXPR _cleanup_invalidated_loggers()"].
Proof. vm_compute. reflexivity. Qed.

(* UnboundedSPSCQueue::empty() as the backend's "is everything drained?" question sees it: the consumer's node is
   empty AND it has no successor - the model's q_empty (BEDefs: emptiness of the whole chain, weakened only by the
   spurious "not empty" of a drained node whose successor is still unvisited, u_hint). Without the second conjunct
   a drained node in front of a node that holds records would read as "empty" and _exit would leave early. *)
Lemma src_uq_empty_checks_successor : SrcFacts.sk_uq_empty = [
    "RET return _consumer->bounded_queue.empty() && (_consumer->next.load(std::memory_order_relaxed) == nullptr)";
    "  ATOMIC _consumer->next load [memory_order_relaxed]"].
Proof. vm_compute. reflexivity. Qed.
