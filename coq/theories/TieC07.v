(* T-src tie for C07: the skeleton of BackendWorker::_exit read from /repo on every run (tools/srcfacts.py)
   is the loop modelled by Backend/BEExit.v (exit_drain): emptiness check first; when empty: failure counters,
   flush of the sinks, break; otherwise populate and process while nothing else is pending. *)
From Coq Require Import List String.
From QuillGen Require SrcFacts.
Import ListNotations.
Local Open Scope string_scope.
Lemma src_be_exit_skeleton : SrcFacts.sk_be_exit = [
    "WHILE true";
    "  DECL bool const queues_and_events_empty = (!_options.wait_for_queues_to_empty_before_exit) || _check_frontend_queues_and_cached_transit_events_empty();";
    "  IF queues_and_events_empty";
    "    EXPR _check_failure_counter(_options.error_notifier)";
    "    EXPR _flush_and_run_active_sinks(false, std::chrono::milliseconds{0})";
    "    BREAK";
    "  DECL uint64_t const cached_transit_events_count = _populate_transit_events_from_frontend_queues();";
    "  IF cached_transit_events_count > 0";
    "    WHILE !has_pending_events_for_caching_when_transit_event_buffer_empty() && _process_lowest_timestamp_transit_event()";
    "EXPR _cleanup_invalidated_thread_contexts()";
    "EXPR _cleanup_invalidated_loggers()"].
Proof. vm_compute. reflexivity. Qed.
