(* T-src tie: the facts regenerated from /repo (QuillGen.SrcFacts) are the ones the models were
   written against (Quill.Expected) and are sufficient for the theorems that take them as
   parameters. A source edit that changes a skeleton, weakens an order or drops the publish-on-
   drain clause makes this file stop compiling. *)
From Coq Require Import String List NArith Bool.
From QuillGen Require SrcFacts.
From Quill Require Expected.
From Quill Require Import Queue.BQDefs.
Import ListNotations.

Definition load_mo (m : SrcFacts.mo) : mo :=
  match m with SrcFacts.Acq | SrcFacts.AcqRel | SrcFacts.Sc => Acq | _ => Rlx end.
Definition store_mo (m : SrcFacts.mo) : mo :=
  match m with SrcFacts.Rel | SrcFacts.AcqRel | SrcFacts.Sc => Rel | _ => Rlx end.

(* the memory orders of the four atomic operations that carry the queue's safety *)
Definition src_orders : orders :=
  {| o_pw_load := load_mo SrcFacts.bq_pw_load; o_cw_store := store_mo SrcFacts.bq_cw_store;
     o_em_load := load_mo SrcFacts.bq_em_load; o_cr_store := store_mo SrcFacts.bq_cr_store |}.

Lemma src_orders_sufficient : sufficient src_orders = true.
Proof. vm_compute. reflexivity. Qed.

(* the shared-memory skeletons of the queue methods are the expected ones (for commit_read: its atomic
   operations only - safety holds for any publish rule) *)
Lemma bq_skeletons_ok :
  SrcFacts.sk_bq_prepare_write = Expected.sk_bq_prepare_write /\
  SrcFacts.sk_bq_finish_write = Expected.sk_bq_finish_write /\
  SrcFacts.sk_bq_commit_write = Expected.sk_bq_commit_write /\
  SrcFacts.sk_bq_finish_and_commit_write = Expected.sk_bq_finish_and_commit_write /\
  SrcFacts.sk_bq_prepare_read = Expected.sk_bq_prepare_read /\
  SrcFacts.sk_bq_finish_read = Expected.sk_bq_finish_read /\
  SrcFacts.sk_bq_commit_read_atomics = Expected.sk_bq_commit_read_atomics /\
  SrcFacts.sk_bq_empty = Expected.sk_bq_empty.
Proof. vm_compute. repeat split; reflexivity. Qed.

