(* T-src tie for C19 (named arguments / JSON sink): which variant of M-NA stands for the code.
   tools/srcfacts.py (c19_facts) regenerates from the repository on every run
     - the skeletons of detail::JsonSink::write_log / generate_json_message and the skeleton + whole body
       text of JsonSink::_append_escaping_newlines: generate_json_message appends every key and every
       value through that helper, and the helper writes each newline as the two characters backslash n
       (SrcFacts.c19_json_escapes_newlines): the model variant is  esc = src_json_esc = true;
     - the skeleton + whole body text of BackendWorker::_process_named_args_format_message: the first
       '}' after the '{' of a placeholder is its close bracket, there is no second search that steps
       over a following "}}" (SrcFacts.c19_scan_first_close_bracket): the model variant is
       skip = src_scan_skip = false.
   Both lemmas and the equality of the regenerated texts with the ones the model was written against
   are closed by vm_compute; the theorems of Properties_C19 about "the code" are the generic ones of
   Format/Na*Proofs.v instantiated with these two flags. *)
From Coq Require Import String List Bool NArith Arith.
From QuillGen Require SrcFacts.
From Quill Require Import Format.NaFmt Format.NaModel Format.NaJson Format.NaProofs Format.NaJsonProofs.
Import ListNotations.
Local Open Scope string_scope.

Definition exp_c19_json_write_log : list string := [
    "DECL char const* message_format = log_metadata->message_format();";
    "IF strchr(log_metadata->message_format(), '\n') != nullptr";
    "  EXPR _format = log_metadata->message_format()";
    "  FOR for (size_t pos = 0; (pos = _format.find('\n', pos)";
    "    EXPR _format.replace(pos, 1, "" "")";
    "  EXPR message_format = _format.data()";
    "EXPR _json_message.clear()";
    "EXPR generate_json_message(log_metadata, log_timestamp, thread_id, thread_name, process_id, logger_name, log_level, log_level_description, log_level_short_code, named_args, log_message, log_statement, message_format)";
    "EXPR _json_message.append(std::string_view{""}\n""})";
    "EXPR StreamSink::write_log(log_metadata, log_timestamp, thread_id, thread_name, process_id, logger_name, log_level, log_level_description, log_level_short_code, named_args, std::string_view{}, std::string_view{_json_message.data(), _json_message.size()})"].

Definition exp_c19_json_generate_json_message : list string := [
    "EXPR _json_message.append(fmtquill::format( R""({{""timestamp"":""{}"",""file_name"":""{}"",""line"":""{}"",""thread_id"":""{}"",""logger"":""{}"",""log_level"":""{}"",""message"":""{}"")"", std::to_string(log_timestamp), log_metadata->file_name(), log_metadata->line(), thread_id, logger_name, log_level_description, message_format))";
    "IF named_args";
    "  FOR for (auto const& [key, value] : *named_args)";
    "    EXPR _json_message.append(std::string_view{"",\""""})";
    "    EXPR _append_escaping_newlines(key)";
    "    EXPR _json_message.append(std::string_view{""\"":\""""})";
    "    EXPR _append_escaping_newlines(value)";
    "    EXPR _json_message.append(std::string_view{""\""""})"].

Definition exp_c19_json_append_escaping_newlines : list string := [
    "DECL size_t start = 0;";
    "FOR for (size_t pos = 0; (pos = text.find('\n', start)";
    "  EXPR _json_message.append(text.substr(start, pos - start))";
    "  EXPR _json_message.append(std::string_view{""\\n""})";
    "EXPR _json_message.append(text.substr(start))"].

Definition exp_c19_json_append_escaping_newlines_text : list string := [
    "{ size_t start = 0; for (size_t pos = 0; (pos = text.find('\n', start)) != std::string_view::npos; start = pos + 1) { _json_message.append(text.substr(start, pos - start)); _json_message.append(std::string_view{""\\n""}); } _json_message.append(text.substr(start)); }"].

Definition exp_c19_scan : list string := [
    "DECL std::string fmt_str;";
    "DECL std::vector<std::pair<std::string, std::string>> keys;";
    "DECL size_t cur_pos = 0;";
    "DECL size_t open_bracket_pos = fmt_template.find_first_of('{');";
    "WHILE open_bracket_pos != std::string::npos";
    "  IF size_t const open_bracket_2_pos = fmt_template.find_first_of('{', open_bracket_pos + 1);";
    "    EXPR open_bracket_2_pos != std::string::npos";
    "  DECL size_t const close_bracket_pos = fmt_template.find_first_of('}', open_bracket_pos + 1);";
    "  IF close_bracket_pos != std::string::npos";
    "    DECL std::string_view const text_inside_placeholders = fmt_template.substr(open_bracket_pos + 1, close_bracket_pos - (open_bracket_pos + 1));";
    "    DECL std::string_view arg_syntax;";
    "    DECL std::string_view arg_name;";
    "    IF size_t const syntax_separator = text_inside_placeholders.find(':');";
    "      EXPR syntax_separator != std::string_view::npos";
    "    ELSE";
    "      EXPR arg_syntax = text_inside_placeholders.substr( syntax_separator, text_inside_placeholders.size() - syntax_separator)";
    "      EXPR arg_name = text_inside_placeholders.substr(0, syntax_separator)";
    "    EXPR fmt_str += fmtquill::format( ""{}{{{}}}"", fmt_template.substr(cur_pos, open_bracket_pos - cur_pos), arg_syntax)";
    "    EXPR cur_pos = close_bracket_pos + 1";
    "    EXPR keys.emplace_back(arg_name, arg_syntax)";
    "  EXPR open_bracket_pos = fmt_template.find_first_of('{', close_bracket_pos)";
    "EXPR fmt_str += std::string{fmt_template.substr(cur_pos, fmt_template.length() - cur_pos)}";
    "RET return std::make_pair(fmt_str, keys)"].

Definition exp_c19_scan_text : list string := [
    "{ std::string fmt_str; std::vector<std::pair<std::string, std::string>> keys; size_t cur_pos = 0; size_t open_bracket_pos = fmt_template.find_first_of('{'); while (open_bracket_pos != std::string::npos) { if (size_t const open_bracket_2_pos = fmt_template.find_first_of('{', open_bracket_pos + 1); open_bracket_2_pos != std::string::npos) { if ((open_bracket_2_pos - 1) == open_bracket_pos) { open_bracket_pos = fmt_template.find_first_of('{', open_bracket_2_pos + 1); continue; } } size_t const close_bracket_pos = fmt_template.find_first_of('}', open_bracket_pos + 1); if (close_bracket_pos != std::string::npos) { std::string_view const text_inside_placeholders = fmt_template.substr(open_bracket_pos + 1, close_bracket_pos - (open_bracket_pos + 1)); std::string_view arg_syntax; std::string_view arg_name; if (size_t const syntax_separator = text_inside_placeholders.find(':'); syntax_separator != std::string_view::npos) { arg_syntax = text_inside_placeholders.substr( syntax_separator, text_inside_placeholders.size() - syntax_separator); arg_name = text_inside_placeholders.substr(0, syntax_separator); } else { arg_name = text_inside_placeholders; } fmt_str += fmtquill::format( ""{}{{{}}}"", fmt_template.substr(cur_pos, open_bracket_pos - cur_pos), arg_syntax); cur_pos = close_bracket_pos + 1; keys.emplace_back(arg_name, arg_syntax); } open_bracket_pos = fmt_template.find_first_of('{', close_bracket_pos); } fmt_str += std::string{fmt_template.substr(cur_pos, fmt_template.length() - cur_pos)}; return std::make_pair(fmt_str, keys); }"].

Local Close Scope string_scope.

(* the model flags that correspond to the source *)
Definition src_json_esc : bool := SrcFacts.c19_json_escapes_newlines.
Definition src_scan_skip : bool := negb SrcFacts.c19_scan_first_close_bracket.

Lemma src_json_esc_true : src_json_esc = true.
Proof. vm_compute. reflexivity. Qed.

Lemma src_scan_skip_false : src_scan_skip = false.
Proof. vm_compute. reflexivity. Qed.

Lemma c19_skeletons_ok :
  SrcFacts.sk_c19_json_write_log = exp_c19_json_write_log /\
  SrcFacts.sk_c19_json_generate_json_message = exp_c19_json_generate_json_message /\
  SrcFacts.sk_c19_json_append_escaping_newlines = exp_c19_json_append_escaping_newlines /\
  SrcFacts.sk_c19_json_append_escaping_newlines_text = exp_c19_json_append_escaping_newlines_text /\
  SrcFacts.sk_c19_scan = exp_c19_scan /\
  SrcFacts.sk_c19_scan_text = exp_c19_scan_text.
Proof. vm_compute. repeat split; reflexivity. Qed.

(* ---- the clauses for the variant the source selects -------------------------------------------- *)
Theorem scan_print_src (r : tpl) :
  wf_tpl r = true -> scan src_scan_skip (print r) = (positional r, holes r).
Proof. rewrite src_scan_skip_false. apply scan_print. Qed.

Theorem text_clause_src (arg : Type) (apply_spec : str -> arg -> option str) (is_string : arg -> bool)
    (c : cache) (r : tpl) (args : list arg) :
  wf_tpl r = true -> first_hole_named r = true -> has_hole r = true -> cache_ok src_scan_skip c ->
  r_text (snd (process arg apply_spec is_string src_scan_skip c (print r) args))
  = sink_text arg apply_spec is_string (positional r) args
  /\ sink_text arg apply_spec is_string (positional r) args
     = option_map (fun x => strip_nl (sanitize_if (has_string arg is_string args) x)) (render arg apply_spec r args).
Proof. rewrite src_scan_skip_false. apply text_clause. Qed.

Theorem pairs_clause_src (arg : Type) (apply_spec : str -> arg -> option str) (is_string : arg -> bool)
    (c : cache) (r : tpl) (args : list arg) (rs : list str) :
  wf_tpl r = true -> first_hole_named r = true -> has_hole r = true -> cache_ok src_scan_skip c ->
  length (holes r) <= length args ->
  renders arg apply_spec (named_specs (holes r) (length args)) args rs ->
  Forall (fun x => has_sep x = false) rs ->
  r_named (snd (process arg apply_spec is_string src_scan_skip c (print r) args))
  = Some (combine (named_keys (holes r) (length args)) (map (sanitize_if (has_string arg is_string args)) rs))
  /\ length rs = length args
  /\ length (named_keys (holes r) (length args)) = length args.
Proof. rewrite src_scan_skip_false. apply pairs_clause. Qed.

Theorem json_one_line_src (h : hdr) (t : str) (named : option (list (str * str))) :
  hdr_ok no_nl h = true ->
  exists body, json_sink_line src_json_esc h t named = body ++ [NL] /\ no_nl body = true.
Proof. rewrite src_json_esc_true. apply json_sink_one_line. Qed.

Theorem json_parses_nl_src (h : hdr) (t : str) (named : option (list (str * str))) :
  hdr_ok plain_str h = true -> plain_str (no_newlines t) = true ->
  pairs_ok plain_nl_str (opt_pairs named) = true ->
  json_parse_line (json_sink_line src_json_esc h t named) = Some (members_of h t named).
Proof. rewrite src_json_esc_true. apply json_sink_parses_nl. Qed.

Lemma cache_ok_nil_src : cache_ok src_scan_skip [].
Proof. apply cache_ok_nil. Qed.
