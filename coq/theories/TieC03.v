(* T-src tie for the registration clause of C03 (Backend/RegProto.v): the flags of the micro-step model
   are what tools/srcfacts.py (reg_facts) reads from ThreadContextManager.h, Spinlock.h and
   BackendWorker.h on every run:
     tcm_register_append_before_flag      register_thread_context: one push_back into _thread_contexts while
                                          _spinlock is held, then one store(true) to the std::atomic<bool> flag,
                                          nothing else
     tcm_flag_consume_shape               new_thread_context_flag(): 1 = return flag.exchange(false);
                                          2 = if (flag.load()) { flag.store(false); return true; } return false;
                                          3 = return flag.compare_exchange_strong(expected = true, false); 0 = other
     be_cache_rebuild_after_flag_consume  _update_active_thread_contexts_cache: if (new_thread_context_flag())
                                          { cache.clear(); for_each_thread_context(push_back into the cache); }
     tcm_for_each_under_lock              for_each_thread_context iterates _thread_contexts under LockGuard{_spinlock}
     spinlock_acquire_release             Spinlock::lock leaves through an exchange with acquire or stronger,
                                          unlock is one store with release or stronger
   The memory orders of the flag accesses are not constrained (tcm_flag_store_order is reported only): the
   clause needs the order of the steps and the lock, nothing else (RegProto.v header). *)
From QuillGen Require SrcFacts.
From Coq Require Import List NArith Bool.
From Quill Require Import Backend.RegProto Backend.RegProtoProofs.
Import ListNotations.

Lemma src_tcm_register_append_before_flag : SrcFacts.tcm_register_append_before_flag = true.
Proof. vm_compute. reflexivity. Qed.
Lemma src_be_cache_rebuild_after_flag_consume : SrcFacts.be_cache_rebuild_after_flag_consume = true.
Proof. vm_compute. reflexivity. Qed.
Lemma src_tcm_for_each_under_lock : SrcFacts.tcm_for_each_under_lock = true.
Proof. vm_compute. reflexivity. Qed.
Lemma src_spinlock_acquire_release : SrcFacts.spinlock_acquire_release = true.
Proof. vm_compute. reflexivity. Qed.
(* the consumption of the flag is one of the three modelled shapes *)
Definition flag_consume_known (n : N) : bool := (n =? 1)%N || (n =? 2)%N || (n =? 3)%N.
Lemma src_tcm_flag_consume_shape_known : flag_consume_known SrcFacts.tcm_flag_consume_shape = true.
Proof. vm_compute. reflexivity. Qed.

Definition rp_src_flags : rp_flags :=
  {| append_first := SrcFacts.tcm_register_append_before_flag;
     consume_atomic := negb (SrcFacts.tcm_flag_consume_shape =? 2)%N;     (* 1, 3: one read-modify-write; 2: load ; store *)
     consume_first := SrcFacts.be_cache_rebuild_after_flag_consume |}.

(* the protocol as it is in the source now never loses a registration, for every schedule *)
Lemma rp_no_lost_src : forall ops,
  let fl := rp_src_flags in
  let s := rp_run fl rp0 ops in
  NoDup (reg s) /\ NoDup (cache s) /\ (exists suf, reg s = cache s ++ suf) /\
  (forall t, In t (flagged s) ->
     In t (reg s) /\ (In t (cache s) \/ flag s = true \/ rbst s = RSaw \/ rbst s = RCleared)) /\
  (let d := rp_run fl s (refresh_call fl) in
   reg d = reg s /\
   (forall t, In t (flagged s) -> forall more, In t (cache (rp_run fl d more))) /\
   ((forall t, In t (reg s) -> In t (flagged s)) -> cache d = reg s)).
Proof.
  intro ops. apply rp_no_lost_flags;
    [exact src_tcm_register_append_before_flag|exact src_be_cache_rebuild_after_flag_consume].
Qed.

(* and it is the atomic machine of M-BE, call by call *)
Lemma rp_src_flags_good : rp_src_flags = rfl_good (negb (SrcFacts.tcm_flag_consume_shape =? 2)%N).
Proof.
  unfold rp_src_flags, rfl_good.
  now rewrite src_tcm_register_append_before_flag, src_be_cache_rebuild_after_flag_consume.
Qed.
Lemma rp_refines_atomic_src : forall ops,
  let fl := rp_src_flags in
  let s := rp_run fl rp0 ops in
  let tr := rp_trace fl rp0 ops in
  ra_run arp0 tr = rabs s /\
  regs_of tr = areg s /\ NoDup (regs_of tr) /\
  refreshes_of tr = calls_done fl rp0 ops /\
  (exists suf, reg s = areg s ++ suf /\ forall t, In t suf -> ~ In t (flagged s)) /\
  (exists suf, areg s = cache s ++ suf).
Proof. intro ops. rewrite rp_src_flags_good. apply rp_refines_atomic. Qed.
