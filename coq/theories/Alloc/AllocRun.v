(* Encoded entry point of M-ALLOC for the extracted model runner (definitions only).
   case:  alloc <mapcp> <unb> <drop> <init> <max> <sso> <copyw> <sig> <tylen> <nargs> ty... <nops> op...
     mapcp       the code variant of the map codecs (AllocModel map_copies): 0 = elements are encoded in
                 place (the repaired code), 1 = every element is converted to a temporary std::pair<Key, T>
                 (pinned); written by props/c11.py from the T-src fact c11_map_elems_in_place
     unb, drop   queue type of the frontend: Unbounded* / *Dropping (0/1)
     init, max   initial_queue_capacity, unbounded_queue_max_capacity
     sso         inline capacity of the standard library's std::string (a fs::path temporary longer
                 than this is on the heap); copyw: sizeof of the deferred user type whose copy
                 constructor allocates (DStr in the harness); both are facts about code outside quill
     sig         C++ instantiation id (ignored by the model)
     ty...       the statement's argument types, encoded as in Codec/CodecRun.v
     op:  0              Frontend::preallocate()
          1 fam val...   the statement, logged through macro family fam, values as in CodecRun.v
                         fam 0 LOG_INFO 1 LOGV_INFO 2 LOGJ_INFO 3 LOG_DYNAMIC (dynamic level)
                             4 LOG_INFO_LIMIT (one more uint64 argument: the occurrence count)
                             5 LOG_INFO_LIMIT_EVERY_N 6 LOG_BACKTRACE 7 LOG_INFO_TAGS 8 log_statement()
          2 len          filler: LOG_INFO(logger, "{}", std::string_view of len bytes)
          3 cap          Frontend::shrink_thread_local_queue(cap)
          4              the backend reads everything written so far
   output, per op:  heap mmap res cap ivcap dirfmt defcaller
     heap / mmap    the calling thread allocated through the heap / mapped memory during the op (0/1)
     res            1 enqueued 0 dropped 2 blocked 3 QuillError 4 not a log call
     cap, ivcap     producer-side queue capacity, size-cache capacity after the op (0: no thread context)
     dirfmt         direct-format formatter invocations on the calling thread during the op
     defcaller      deferred-format formatter invocations on the calling thread during the op (always 0) *)
From Coq Require Import List NArith Arith Bool.
From Quill Require Import Base.Bytes Codec.CodecDefs Codec.CodecRun Codec.InlVec Queue.BQDefs Alloc.AllocModel.
Import ListNotations.
Local Open Scope N_scope.

(* does copy-constructing this value reach the heap?  Facts about libstdc++ (and the harness' user
   types), used only to predict the runtime observation: std::string beyond its inline capacity,
   any non-empty container (a deque even when empty), the DStr test type *)
Fixpoint or_zip (fs : list (val -> bool)) (l : list val) : bool :=
  match fs, l with
  | f :: fs', x :: l' => f x || or_zip fs' l'
  | _, _ => false
  end.
Definition nonempty (v : val) : bool := match v with VL (_ :: _) => true | _ => false end.
Fixpoint copy_heap (sso copyw : N) (t : ty) (v : val) {struct t} : bool :=
  match t with
  | LenStr KStr | LenStr KPath | Direct => match v with VB b => sso <? lenN b | _ => false end
  | DeferredAligned w _ => w =? copyw
  | Seq KDeque _ => true
  | Seq _ _ | FwdList _ | MapLike _ _ _ => nonempty v
  | Arr n t' => match v with VL l => or_zip (repeat (copy_heap sso copyw t') n) l | _ => false end
  | Opt t' => match v with VO (Some x) => copy_heap sso copyw t' x | _ => false end
  | Pair a b => match v with VL l => or_zip [copy_heap sso copyw a; copy_heap sso copyw b] l | _ => false end
  | Tuple ts => match v with VL l => or_zip (map (copy_heap sso copyw) ts) l | _ => false end
  | _ => false
  end.

Definition src_heap (sso copyw : N) (a : alloc_source) : bool :=
  match a with
  | AUserCopy w _ => w =? copyw
  | APathString len => sso <? len
  | ATempCopy t v => copy_heap sso copyw t v
  | _ => true
  end.
Definition src_mmap (a : alloc_source) : bool :=
  match a with ACtx | ANode _ | AShrinkNode _ => true | _ => false end.

Definition res_code (r : lres) : N :=
  match r with LEnqueued => 1 | LDropped => 0 | LBlocked => 2 | LThrow => 3 | LDone => 4 end.
Definition b2n (b : bool) : N := if b then 1 else 0.

Definition obs (sso copyw : N) (s : tstate) (o : lout) : list N :=
  [ b2n (existsb (src_heap sso copyw) (allocs o)); b2n (existsb src_mmap (allocs o)); res_code (res o);
    (if t_reg s then n_cap (t_node s) else 0); (if t_reg s then iv_cap (t_cache s) else 0);
    lenN (fmts o); 0 ].

Definition fam_dyn (fam : N) : bool := fam =? 3.
Definition fam_ts (fam : N) (ts : list ty) : list ty := if fam =? 4 then ts ++ [Arith 8] else ts.
Definition fam_vs (fam : N) (vs : list val) : list val := if fam =? 4 then vs ++ [VB (encn 8 1)] else vs.

Fixpoint parse_ops (fuel : nat) (ts : list ty) (l : list N) : option (list top) :=
  match fuel with
  | O => Some []
  | S f =>
    match l with
    | [] => Some []
    | 0 :: r => match parse_ops f ts r with None => None | Some ops => Some (OPre :: ops) end
    | 1 :: fam :: r =>
      match pv_seq (map parse_val ts) r with
      | None => None
      | Some (vs, r') =>
        match parse_ops f ts r' with
        | None => None
        | Some ops => Some (OLog (fam_ts fam ts) (fam_vs fam vs) (fam_dyn fam) :: ops)
        end
      end
    | 2 :: len :: r =>
      match parse_ops f ts r with
      | None => None
      | Some ops => Some (OLog [StrView] [VB (repeat 120 (N.to_nat len))] false :: ops)
      end
    | 3 :: cap :: r => match parse_ops f ts r with None => None | Some ops => Some (OShrink cap :: ops) end
    | 4 :: r => match parse_ops f ts r with None => None | Some ops => Some (ODrain :: ops) end
    | _ => None
    end
  end.

Fixpoint run_obs (mc : bool) (sso copyw : N) (cf : cfg) (s : tstate) (ops : list top) : list N :=
  match ops with
  | [] => []
  | o :: ops' => let (s1, out) := t_step mc cf s o in obs sso copyw s1 out ++ run_obs mc sso copyw cf s1 ops'
  end.

Definition alloc_run_enc (l : list N) : list N :=
  match l with
  | mapcp :: unb :: drop :: init :: mx :: sso :: copyw :: _sig :: tylen :: nargs :: r =>
    match parse_tys (S (N.to_nat tylen)) (N.to_nat nargs) r with
    | None => MALFORMED
    | Some (ts, r1) =>
      match r1 with
      | nops :: r2 =>
        match parse_ops (S (N.to_nat nops)) ts r2 with
        | None => MALFORMED
        | Some ops =>
          let cf := {| c_unbounded := negb (unb =? 0); c_dropping := negb (drop =? 0); c_init := init; c_max := mx |} in
          run_obs (negb (mapcp =? 0)) sso copyw cf (t_init cf) ops
        end
      | [] => MALFORMED
      end
    end
  | _ => MALFORMED
  end.
