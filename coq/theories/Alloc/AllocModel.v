(* M-ALLOC: the frontend log path of one thread as a step function whose output lists the
   allocations the step performs on the calling thread and the user formatters it invokes there.
   Definitions only (extracted into modelrun); proofs are in AllocProofs.v.

   Code modelled (include/quill):
     Logger.h                  LoggerImpl::log_statement: thread context, size pass, reservation,
                               header + encode pass, finish_and_commit_write
     core/ThreadContextManager.h  get_local_thread_context (thread_local ScopedThreadContext:
                               make_shared<ThreadContext>, queue storage, id / name strings,
                               registration), Frontend::preallocate
     core/Codec.h              compute_encoded_size_and_cache_string_lengths: the size cache is
                               cleared only when some argument type needs it ([needs_clear])
     core/InlinedVector.h      push_back allocates when size = capacity (M-IV, Codec/InlVec.v)
     core/BoundedSPSCQueue.h   prepare_write: when a reservation fits (M-BQ, Queue/BQDefs.v)
     core/UnboundedSPSCQueue.h prepare_write / _handle_full_queue (new Node) / shrink (new Node)
     DeferredFormatCodec.h     not trivially copyable: placement-new copy T(arg) = user code
     std/FilesystemPath.h      arg.string(): a temporary std::string in the size pass and in the
                               encode pass
     DirectFormatCodec.h       fmtquill::formatted_size (size pass) and format_to_n (encode pass):
                               the only codec that calls libfmt on the caller
     std/Map.h, UnorderedMap.h two variants, selected by the flag [map_copies] (mc):
                               false (the code since the repair of finding C11-F1): the size pass and the
                               encode pass call Codec<Key> / Codec<T> on elem.first / elem.second in place;
                               true (pinned, the code before): every element (std::pair<const Key, T>) is
                               passed to Codec<std::pair<Key, T>>, i.e. converted to a temporary
                               std::pair<Key, T> - Key and T are copy-constructed, in the size pass
                               and again in the encode pass.
                               The variant that stands for the source tree is TieC11.src_map_copies (T-src).

   The allocation sources are exactly the constructors of [alloc_source]; anything an unmodelled
   piece of code allocates is invisible here (that part of C11 is sampled on the binary). *)
From Coq Require Import List NArith Arith Bool.
From Quill Require Import Base.Bytes Codec.CodecDefs Codec.InlVec Queue.BQDefs.
Import ListNotations.
Local Open Scope N_scope.

(* ---------------------------------------------------------------- constants tied to the source *)
(* SizeCacheVector = InlinedVector<uint32_t, 12>; push_back: new_capacity = _capacity * 2
   (TieC11.v: equal to SrcFacts.iv_inline_capacity / iv_growth_factor) *)
Definition INLINE_CAP : N := IV_INLINE.
Definition GROWTH : N := 2.

(* ---------------------------------------------------------------- allocation sources *)
Inductive alloc_source :=
| ACtx                    (* (1) first call / preallocate(): thread context, queue storage (mmap), registration *)
| AIvGrow (newcap : N)    (* (2) InlinedVector::push_back with size = capacity: new value_type[2 * capacity] *)
| ANode (cap : N)         (* (3) UnboundedSPSCQueue::_handle_full_queue: new Node{cap} (+ mmap of its storage) *)
| AShrinkNode (cap : N)   (* (3) UnboundedSPSCQueue::shrink: new Node{cap} *)
| AThrowMsg               (* (3) record larger than unbounded_queue_max_capacity: QuillError message strings *)
| AUserCopy (w a : N)     (* (4) T(arg) of a not trivially copyable DeferredFormatCodec type: user code *)
| APathString (len : N)   (* (4) fs::path::string(): temporary std::string of len bytes *)
| ATempCopy (t : ty) (v : val).  (* (5) a map element converted to a temporary std::pair<Key, T>: the copy
                                    constructor of a Key / T whose copy may allocate (std::string, containers, user types) *)

(* ---------------------------------------------------------------- the values the codecs visit *)
(* [leaves t v]: the leaf (non-container) values the size / encode pass of Codec<t> visits, in
   order, each with its type.  Containers of arithmetic / enum elements are not iterated. *)
Definition leafF := val -> list (ty * val).

Fixpoint leaf_zip (fs : list leafF) (l : list val) : list (ty * val) :=
  match fs, l with
  | f :: fs', x :: l' => f x ++ leaf_zip fs' l'
  | _, _ => []
  end.

Definition pairL (f g : leafF) : leafF := fun v =>
  match v with VL l => leaf_zip [f; g] l | _ => [] end.

Fixpoint leaves (t : ty) (v : val) {struct t} : list (ty * val) :=
  match t with
  | Seq _ t' =>
    match v with
    | VL l => match arith_w t' with Some _ => [] | None => leaf_zip (repeat (leaves t') (length l)) l end
    | _ => []
    end
  | FwdList t' =>
    match v with VL l => leaf_zip (repeat (leaves t') (length l)) l | _ => [] end
  | Arr n t' =>
    match v with
    | VL l => match arith_w t' with Some _ => [] | None => leaf_zip (repeat (leaves t') n) l end
    | _ => []
    end
  | Opt t' => match v with VO (Some x) => leaves t' x | _ => [] end
  | Pair a b => pairL (leaves a) (leaves b) v
  | Tuple ts => match v with VL l => leaf_zip (map leaves ts) l | _ => [] end
  | MapLike _ kt vt =>
    match v with
    | VL l =>
      match arith_w kt, arith_w vt with
      | Some _, Some _ => []
      | _, _ => leaf_zip (repeat (pairL (leaves kt) (leaves vt)) (length l)) l
      end
    | _ => []
    end
  | _ => [(t, v)]
  end.

Definition stmt_leaves (ts : list ty) (vs : list val) : list (ty * val) := leaf_zip (map leaves ts) vs.

(* number of size-cache entries the size pass pushes for a value / a statement (CodecDefs.size) *)
Definition cached_lengths (t : ty) (v : val) : nat := length (snd (size t v)).
Definition stmt_cached (ts : list ty) (vs : list val) : nat := length (snd (size_zip (map size ts) vs)).

(* (4): what a leaf allocates by itself; [encp] = false: size pass, true: encode pass *)
Definition leaf_alloc (encp : bool) (p : ty * val) : list alloc_source :=
  match p with
  | (LenStr KPath, VB b) => [APathString (lenN b)]
  | (DeferredAligned w a, VB _) => if encp then [AUserCopy w a] else []
  | _ => []
  end.

(* where formatting runs: the codec of this kind calls libfmt at the call site *)
Definition formats_on_caller (t : ty) : bool := match t with Direct => true | _ => false end.
Definition leaf_fmt (p : ty * val) : list (ty * val) := if formats_on_caller (fst p) then [p] else [].

(* (5): the temporaries of one pass.  [mc] = true (pinned variant): a map element VL [k; x] becomes a
   std::pair<Key, T> (copies of k and x); Codec<std::pair<Key, T>> then visits the copies, which may
   again hold maps.  [mc] = false (repaired variant): Codec<Key> / Codec<T> visit elem.first /
   elem.second where they are; no temporary is made at any depth (AllocProofs.temps_repaired). *)
Definition pairT (mc : bool) (kt vt : ty) (f g : leafF) : leafF := fun v =>
  match v with
  | VL l => (if mc then match l with [k; x] => [(kt, k); (vt, x)] | _ => [] end else []) ++ leaf_zip [f; g] l
  | _ => []
  end.

Fixpoint temps (mc : bool) (t : ty) (v : val) {struct t} : list (ty * val) :=
  match t with
  | Seq _ t' =>
    match v with
    | VL l => match arith_w t' with Some _ => [] | None => leaf_zip (repeat (temps mc t') (length l)) l end
    | _ => []
    end
  | FwdList t' =>
    match v with VL l => leaf_zip (repeat (temps mc t') (length l)) l | _ => [] end
  | Arr n t' =>
    match v with
    | VL l => match arith_w t' with Some _ => [] | None => leaf_zip (repeat (temps mc t') n) l end
    | _ => []
    end
  | Opt t' => match v with VO (Some x) => temps mc t' x | _ => [] end
  | Pair a b => pairL (temps mc a) (temps mc b) v
  | Tuple ts => match v with VL l => leaf_zip (map (temps mc) ts) l | _ => [] end
  | MapLike _ kt vt =>
    match v with
    | VL l =>
      match arith_w kt, arith_w vt with
      | Some _, Some _ => []
      | _, _ => leaf_zip (repeat (pairT mc kt vt (temps mc kt) (temps mc vt)) (length l)) l
      end
    | _ => []
    end
  | _ => []
  end.

Definition stmt_temps (mc : bool) (ts : list ty) (vs : list val) : list (ty * val) := leaf_zip (map (temps mc) ts) vs.

(* copying a value of this type can never allocate: scalars, pointers, views and aggregates of those *)
Fixpoint copy_free (t : ty) : bool :=
  match t with
  | Fixed _ _ | CStr | CharArr _ | LenStr KStrView | StringRef => true
  | Opt t' | Arr _ t' => copy_free t'
  | Pair a b => copy_free a && copy_free b
  | Tuple ts => forallb copy_free ts
  | _ => false
  end.

Definition temp_alloc (p : ty * val) : list alloc_source :=
  if copy_free (fst p) then [] else [ATempCopy (fst p) (snd p)].

(* every map inside t has arithmetic / enum key and mapped type (not iterated) or a key and a mapped
   type whose copies cannot allocate (a hypothesis of the pinned variant only) *)
Fixpoint map_ok (t : ty) : bool :=
  match t with
  | Seq _ t' | FwdList t' | Arr _ t' | Opt t' => map_ok t'
  | Pair a b => map_ok a && map_ok b
  | Tuple ts => forallb map_ok ts
  | MapLike _ kt vt => copy_free kt && copy_free vt && map_ok kt && map_ok vt
  | _ => true
  end.

(* what one pass over the arguments allocates by itself: (4) and (5) *)
Definition pass_allocs (mc encp : bool) (ts : list ty) (vs : list val) : list alloc_source :=
  flat_map (leaf_alloc encp) (stmt_leaves ts vs) ++ flat_map temp_alloc (stmt_temps mc ts vs).

(* [all_leaf q t]: every leaf type occurring in t satisfies q *)
Fixpoint all_leaf (q : ty -> bool) (t : ty) : bool :=
  match t with
  | Seq _ t' | FwdList t' | Arr _ t' | Opt t' => all_leaf q t'
  | Pair a b => all_leaf q a && all_leaf q b
  | Tuple ts => forallb (all_leaf q) ts
  | MapLike _ kt vt => all_leaf q kt && all_leaf q vt
  | _ => q t
  end.

(* the types the property lists: no not-trivially-copyable deferred type and no filesystem path,
   at any nesting depth *)
Definition listed_leaf (t : ty) : bool :=
  match t with DeferredAligned _ _ | LenStr KPath => false | _ => true end.
Definition no_excluded : ty -> bool := all_leaf listed_leaf.

(* a direct-format type occurs somewhere in t *)
Definition has_direct (t : ty) : bool := negb (all_leaf (fun t' => negb (formats_on_caller t')) t).

(* ---------------------------------------------------------------- (2) the size pass on the thread's cache *)
Fixpoint iv_push_all (l : list N) (c : iv) : iv * list alloc_source :=
  match l with
  | [] => (c, [])
  | x :: l' =>
    let (c1, a) := iv_push x c in
    let (c2, al) := iv_push_all l' c1 in
    (c2, (if a then [AIvGrow (iv_cap c1)] else []) ++ al)
  end.

Definition size_pass (c : iv) (ts : list ty) (vs : list val) : N * iv * list alloc_source :=
  let c0 := if needs_clear ts then iv_clear c else c in
  let (s, pushed) := size_zip (map size ts) vs in
  let (c1, al) := iv_push_all pushed c0 in
  (s, c1, al).

(* ---------------------------------------------------------------- (3) the queue *)
Record cfg := {
  c_unbounded : bool;     (* QueueType::Unbounded*  *)
  c_dropping : bool;      (* QueueType::*Dropping   *)
  c_init : N;             (* initial_queue_capacity *)
  c_max : N               (* unbounded_queue_max_capacity *)
}.

(* next_power_of_two *)
Definition npow2 (n : N) : N := 2 ^ N.log2_up n.

(* the node the producer writes to: its capacity and the producer-visible fields of its
   BoundedSPSCQueue (M-BQ, unbounded positions) *)
Record node := { n_cap : N; n_q : bq }.
Definition node_init (cap : N) : node := {| n_cap := npow2 cap; n_q := bq_init |}.

(* capacity = capacity * 2 while capacity < nbytes  (64 doublings exhaust size_t) *)
Fixpoint grow_cap (fuel : nat) (c n : N) : N :=
  match fuel with
  | O => c
  | S f => if c <? n then grow_cap f (c * 2) n else c
  end.

Inductive rsv := RGot (off : N) | RNone | RThrow.

(* BoundedSPSCQueue::prepare_write / UnboundedSPSCQueue::prepare_write + _handle_full_queue *)
Definition reserve (cf : cfg) (nd : node) (n : N) : node * rsv * list alloc_source :=
  let (q1, r) := prepare_write ideal (n_cap nd) (n_q nd) n in
  let nd1 := {| n_cap := n_cap nd; n_q := q1 |} in
  match r with
  | Some off => (nd1, RGot off, [])
  | None =>
    if c_unbounded cf then
      let cap := grow_cap 64 (n_cap nd * 2) n in
      if c_max cf <? cap then
        if c_max cf <? n then (nd1, RThrow, [AThrowMsg]) else (nd1, RNone, [])
      else
        let nd' := node_init cap in
        let (q2, r2) := prepare_write ideal (n_cap nd') (n_q nd') n in
        ({| n_cap := n_cap nd'; n_q := q2 |},
         match r2 with Some off => RGot off | None => RNone end,
         [ANode (n_cap nd')])
    else (nd1, RNone, [])
  end.

(* the reservation is granted by the current node, without growing *)
Definition fits (nd : node) (n : N) : bool :=
  match snd (prepare_write ideal (n_cap nd) (n_q nd) n) with Some _ => true | None => false end.

(* ---------------------------------------------------------------- the thread *)
Record tstate := {
  t_reg : bool;        (* the thread_local ScopedThreadContext exists *)
  t_cache : iv;        (* ThreadContext::_conditional_arg_size_cache *)
  t_node : node        (* the producer's current queue node *)
}.
Definition t_init (cf : cfg) : tstate :=
  {| t_reg := false; t_cache := iv_init; t_node := node_init (c_init cf) |}.

(* (1) get_local_thread_context *)
Definition register (cf : cfg) (s : tstate) : tstate * list alloc_source :=
  if t_reg s then (s, [])
  else ({| t_reg := true; t_cache := iv_init; t_node := node_init (c_init cf) |}, [ACtx]).

Inductive lres := LEnqueued | LDropped | LBlocked | LThrow | LDone.

Record lout := {
  allocs : list alloc_source;       (* allocations on the calling thread, modelled sources *)
  fmts : list (ty * val);           (* user formatters invoked on the calling thread *)
  res : lres;
  reserved : N                      (* total_size asked from the queue (0: not a log call) *)
}.

Definition dyn_size (dyn : bool) : N := if dyn then 1 else 0.

(* total_size in log_statement: header + arguments + optional dynamic level *)
Definition stmt_total (ts : list ty) (vs : list val) (dyn : bool) : N :=
  HEADER_SIZE + fst (size_zip (map size ts) vs) + dyn_size dyn.

(* LoggerImpl::log_statement<immediate_flush = false, has_dynamic_log_level = dyn>(…, args…);
   [mc]: the variant of the map codecs (map_copies) *)
Definition log_step (mc : bool) (cf : cfg) (s : tstate) (ts : list ty) (vs : list val) (dyn : bool) : tstate * lout :=
  let (s0, a0) := register cf s in
  let '(sz, c1, a1) := size_pass (t_cache s0) ts vs in
  let lv := stmt_leaves ts vs in
  let a1' := pass_allocs mc false ts vs in
  let f1 := flat_map leaf_fmt lv in
  let total := HEADER_SIZE + sz + dyn_size dyn in
  let '(nd, r, a2) := reserve cf (t_node s0) total in
  match r with
  | RGot _ =>
    let a3 := pass_allocs mc true ts vs in
    let q' := commit_write (finish_write ideal (n_q nd) total) in
    ({| t_reg := true; t_cache := c1; t_node := {| n_cap := n_cap nd; n_q := q' |} |},
     {| allocs := a0 ++ a1 ++ a1' ++ a2 ++ a3; fmts := f1 ++ f1; res := LEnqueued; reserved := total |})
  | RNone =>
    ({| t_reg := true; t_cache := c1; t_node := nd |},
     {| allocs := a0 ++ a1 ++ a1' ++ a2; fmts := f1;
        res := if c_dropping cf then LDropped else LBlocked; reserved := total |})
  | RThrow =>
    ({| t_reg := true; t_cache := c1; t_node := nd |},
     {| allocs := a0 ++ a1 ++ a1' ++ a2; fmts := f1; res := LThrow; reserved := total |})
  end.

(* what the backend does with the statement: libfmt runs on every decoded argument (the decoded
   value of a Direct argument is the text made on the caller; its formatter does not run again) *)
Inductive role := Caller | Backend.
Definition frontend_fmt_events (mc : bool) (cf : cfg) (s : tstate) (ts : list ty) (vs : list val) (dyn : bool) : list (role * ty) :=
  map (fun p => (Caller, fst p)) (fmts (snd (log_step mc cf s ts vs dyn))).
Definition backend_fmt_events (ts : list ty) : list (role * ty) := map (fun t => (Backend, t)) ts.

(* ---------------------------------------------------------------- the other operations of a thread *)
Inductive top :=
| OPre                                               (* Frontend::preallocate() *)
| OLog (ts : list ty) (vs : list val) (dyn : bool)
| OShrink (cap : N)                                  (* Frontend::shrink_thread_local_queue(cap) *)
| ODrain.                                            (* the backend has read and released everything written so far *)

Definition done (a : list alloc_source) : lout := {| allocs := a; fmts := []; res := LDone; reserved := 0 |}.

Definition drain_q (q : bq) : bq :=
  {| wpos := wpos q; rcache := rcache q; rpos := wpos q; wcache := wpos q; aw := aw q; ar := wpos q; recs := []; dirty := false |}.

Definition t_step (mc : bool) (cf : cfg) (s : tstate) (o : top) : tstate * lout :=
  match o with
  | OPre => let (s1, a) := register cf s in (s1, done a)
  | OLog ts vs dyn => log_step mc cf s ts vs dyn
  | OShrink cap =>
    if c_unbounded cf then
      let (s1, a) := register cf s in
      (* if (capacity > (producer capacity >> 1)) return; *)
      if n_cap (t_node s1) / 2 <? cap then (s1, done a)
      else
        let nd := node_init cap in
        ({| t_reg := true; t_cache := t_cache s1; t_node := nd |}, done (a ++ [AShrinkNode (n_cap nd)]))
    else (s, done [])
  | ODrain =>
    if t_reg s then
      ({| t_reg := true; t_cache := t_cache s; t_node := {| n_cap := n_cap (t_node s); n_q := drain_q (n_q (t_node s)) |} |}, done [])
    else (s, done [])
  end.

Fixpoint t_run (mc : bool) (cf : cfg) (s : tstate) (ops : list top) : tstate * list lout :=
  match ops with
  | [] => (s, [])
  | o :: ops' =>
    let (s1, out) := t_step mc cf s o in
    let (s2, outs) := t_run mc cf s1 ops' in
    (s2, out :: outs)
  end.

(* states a thread can be in (the state does not depend on the variant: AllocProofs.t_run_state_variant) *)
Definition reachable (mc : bool) (cf : cfg) (s : tstate) : Prop := exists ops, s = fst (t_run mc cf (t_init cf) ops).
